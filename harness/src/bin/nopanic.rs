//! nopanic: C07 "executing a built program never panics the host".
//!
//! Case lines (fields separated by one space):
//!   P <impl> <host> <maxsteps> <cp>,<cp>,...       program: source text as hex code points ("-" = empty)
//!   O <impl> <host> <Instruction>[:<data>] <v|-> <v|->   one runtime step on directly constructed operands
//!   X <fn> <impl> ...                              index arithmetic observed through the public getters
//!        usize | item | iter | access | raccess | cast | range | lenof | mklist | eqregs | endlist | bsearch | cwin  (see run_x)
//!                                                  (model correspondence, see ocaml/idx_driver.ml)
//!   impl  S = SimpleGarnishData, B = BasicGarnishData
//!   host  A = absent (default handlers / NoOpCompanion), D = declining, Y = accepting
//!   v     value expression:
//!         u unit | T true | F false | i<hex> integer (sign+magnitude) | f<16 hex> float bits
//!         c<hex cp> char | b<hex> byte | s<cp.cp...|-> char list | y<hex byte pairs|-> byte list
//!         k<cp.cp...|-> symbol (parse_add_symbol of that text) | t<TypeName> type | x<dec> expression
//!         e<dec> external | I invalid cell (Basic only) | Q custom
//!         P(v,v) pair  L(v,..) list  R(v,v) range  C(v,v) concatenation  S(v,v) slice
//!         A(v,v) partial  Y(v,v) merge_to_symbol_list  r(end,start) range whose end operand is built first
//!         K<hex> symbol value without a registered name
//!         D<kind><dec depth>(v)  deep nesting built by a loop around v:
//!            L list of one item, l two-item list (inner, 1), P pair (key, inner), p pair (inner, 1),
//!            C concatenation (inner, 1), c concatenation (1, inner), S slice (inner, 0..1)
//!            (slice of slice ...), A partial (inner, 1)
//! Output: <case>\t<class>\t<detail>
//!   class  Ok | Err | PANIC | UNBUILDABLE | BADCASE         (O, X cases; X: value after the class)
//!          REJECT:<lex|parse|build>[:panic] | Ok:<steps> | Err:<steps> | LIMIT:<steps> | PANIC:<step>   (P)
//!   detail panic message and location, error message, or -
//!   (HANG / CRASH are produced by the supervisor in lib.rs when the worker times out / dies,
//!    e.g. on a native stack overflow.)
use garnish_lang_compiler::build::build;
use garnish_lang_compiler::lex::lex;
use garnish_lang_compiler::parse::parse;
use garnish_lang_runtime::{execute_current_instruction, SimpleRuntimeState};
use garnish_lang_simple_data::{
    symbol_value, BasicData, BasicDataCompanion, BasicGarnishData, DataError, NoOpCompanion, ReallocationStrategy, SimpleDataType,
    SimpleGarnishData, SimpleNumber, StorageSettings,
};
use garnish_lang_traits::{Extents, GarnishData, GarnishDataType, Instruction, SymbolListPart};
use garnish_verif_harness::*;
use std::cell::RefCell;
use std::panic;
use std::sync::Once;

// ------------------------------------------------------------- panic capture
thread_local! {
    static LAST_PANIC: RefCell<String> = RefCell::new(String::new());
}
static HOOK: Once = Once::new();

fn install_hook() {
    HOOK.call_once(|| {
        panic::set_hook(Box::new(|info| {
            let msg = if let Some(s) = info.payload().downcast_ref::<&str>() {
                s.to_string()
            } else if let Some(s) = info.payload().downcast_ref::<String>() {
                s.clone()
            } else {
                "?".to_string()
            };
            let loc = match info.location() {
                Some(l) => format!("{}:{}", l.file(), l.line()),
                None => "?".to_string(),
            };
            let text: String = format!("{} @ {}", msg, loc).chars().map(|c| if c == '\t' || c == '\n' || c == '\r' { ' ' } else { c }).collect();
            LAST_PANIC.with(|p| *p.borrow_mut() = text);
        }));
    });
}

fn last_panic() -> String {
    LAST_PANIC.with(|p| {
        let s = p.borrow().clone();
        // strip the absolute prefix of the repository so that messages are stable
        s.replace("/repo/", "")
    })
}

fn clean(s: &str) -> String {
    let t: String = s.chars().map(|c| if c == '\t' || c == '\n' || c == '\r' { ' ' } else { c }).collect();
    if t.len() > 160 { t.chars().take(160).collect() } else { t }
}

// ---------------------------------------------------------------------- host
const HOST_VALUE: i32 = 424242;

#[derive(Debug, Clone, Default, PartialEq, Eq, PartialOrd)]
pub struct Rec {
    accept: bool,
    calls: usize,
}

#[derive(Debug, Clone, Copy, PartialEq, Eq, PartialOrd, Hash)]
pub struct HCustom {
    v: u8,
}
impl SimpleDataType for HCustom {}

type Simple = SimpleGarnishData<HCustom, Rec>;

/// what an accepting host answers for a symbol / an operation: a value of a kind chosen by the name
fn host_answer<D: Host>(d: &mut D, sym: u64) -> Result<(), DataError> {
    let a = if sym == symbol_value("ext") {
        d.add_external(1)?
    } else if sym == symbol_value("lst") {
        let x = d.add_number(SimpleNumber::Integer(1))?;
        let y = d.add_number(SimpleNumber::Integer(2))?;
        let z = d.add_number(SimpleNumber::Integer(3))?;
        list_of(d, &[x, y, z])?
    } else if sym == symbol_value("txt") {
        d.mk_chars("h\u{e9}llo")?
    } else {
        d.add_number(SimpleNumber::Integer(HOST_VALUE))?
    };
    d.push_register(a)
}

fn simple_resolver(d: &mut Simple, sym: u64) -> Result<bool, DataError> {
    d.auxiliary_data_mut().calls += 1;
    if d.auxiliary_data().accept {
        host_answer(d, sym)?;
        Ok(true)
    } else {
        Ok(false)
    }
}

fn simple_handler(d: &mut Simple, _op: Instruction, _l: (GarnishDataType, usize), _r: (GarnishDataType, usize)) -> Result<bool, DataError> {
    d.auxiliary_data_mut().calls += 1;
    if d.auxiliary_data().accept {
        host_answer(d, 0)?;
        Ok(true)
    } else {
        Ok(false)
    }
}

impl BasicDataCompanion<()> for Rec {
    fn resolve(d: &mut BasicGarnishData<(), Self>, s: u64) -> Result<bool, DataError> {
        d.companion_mut().calls += 1;
        if d.companion().accept {
            host_answer(d, s)?;
            Ok(true)
        } else {
            Ok(false)
        }
    }
    fn apply(d: &mut BasicGarnishData<(), Self>, _e: usize, i: usize) -> Result<bool, DataError> {
        d.companion_mut().calls += 1;
        if d.companion().accept {
            d.push_register(i)?;
            Ok(true)
        } else {
            Ok(false)
        }
    }
    fn defer_op(d: &mut BasicGarnishData<(), Self>, _op: Instruction, _l: (GarnishDataType, usize), _r: (GarnishDataType, usize)) -> Result<bool, DataError> {
        d.companion_mut().calls += 1;
        if d.companion().accept {
            host_answer(d, 0)?;
            Ok(true)
        } else {
            Ok(false)
        }
    }
}

trait Host: GarnishData<Size = usize, Number = SimpleNumber, Symbol = u64, Char = char, Byte = u8, Error = DataError> {
    fn mk_chars(&mut self, s: &str) -> Result<usize, DataError>;
    fn mk_bytes(&mut self, b: &[u8]) -> Result<usize, DataError>;
    fn mk_custom(&mut self) -> Result<Option<usize>, DataError>;
    fn mk_invalid(&mut self) -> Result<Option<usize>, DataError>;
    /// SimpleGarnishData: the association table of a list as stored (item addresses, 0 = free slot)
    fn simple_assoc_table(&self, _list: usize) -> Option<Vec<usize>> {
        None
    }
    /// BasicGarnishData: the (symbol, value address) cells of a list's association table, in heap order
    fn basic_assoc_cells(&self, _list: usize) -> Option<Vec<(u64, usize)>> {
        None
    }
}

impl Host for Simple {
    fn mk_chars(&mut self, s: &str) -> Result<usize, DataError> {
        self.add_string(s)
    }
    fn mk_bytes(&mut self, b: &[u8]) -> Result<usize, DataError> {
        self.add_u8_vec(b.to_vec())
    }
    fn mk_custom(&mut self) -> Result<Option<usize>, DataError> {
        self.add_custom(HCustom { v: 1 }).map(Some)
    }
    fn mk_invalid(&mut self) -> Result<Option<usize>, DataError> {
        Ok(None)
    }
    fn simple_assoc_table(&self, list: usize) -> Option<Vec<usize>> {
        let n = self.get_list_associations_len(list).ok()?;
        let mut v = vec![];
        for i in 0..n {
            v.push(self.get_list_association(list, SimpleNumber::Integer(i as i32)).ok()?.unwrap_or(0));
        }
        Some(v)
    }
}

macro_rules! basic_host {
    ($c:ty) => {
        impl Host for BasicGarnishData<(), $c> {
            fn mk_chars(&mut self, s: &str) -> Result<usize, DataError> {
                self.add_string(s)
            }
            fn mk_bytes(&mut self, b: &[u8]) -> Result<usize, DataError> {
                self.add_byte_slice(b)
            }
            fn mk_custom(&mut self) -> Result<Option<usize>, DataError> {
                self.push_to_data_block(BasicData::Custom(())).map(Some)
            }
            fn mk_invalid(&mut self) -> Result<Option<usize>, DataError> {
                self.push_to_data_block(BasicData::Empty).map(Some)
            }
            fn basic_assoc_cells(&self, list: usize) -> Option<Vec<(u64, usize)>> {
                let layout = self.verif_block_layout();
                let data_start = layout[4].0;
                let heap = self.verif_heap();
                let (len, n) = match heap.get(data_start + list)? {
                    BasicData::List(len, n) => (*len, *n),
                    _ => return None,
                };
                let mut v = vec![];
                for i in 0..n {
                    match heap.get(data_start + list + 1 + len + i)? {
                        BasicData::AssociativeItem(sym, addr) => v.push((*sym, *addr)),
                        _ => return None,
                    }
                }
                Some(v)
            }
        }
    };
}
basic_host!(Rec);
basic_host!(NoOpCompanion);

fn basic_settings() -> StorageSettings {
    // doubling growth: the default (+10 cells per reallocation, whole heap copied each time) is quadratic
    // and would turn the deep-nesting cases into time-outs that say nothing about panics
    StorageSettings::new(64, usize::MAX, ReallocationStrategy::Multiplicative(2))
}

fn new_basic<C: BasicDataCompanion<()>>(c: C, fast_growth: bool) -> Result<BasicGarnishData<(), C>, DataError> {
    if fast_growth {
        BasicGarnishData::new_with_settings(basic_settings(), basic_settings(), basic_settings(), basic_settings(), basic_settings(), basic_settings(), c)
    } else {
        BasicGarnishData::new(c)
    }
}

// ------------------------------------------------------------ value language
const TYPES: &[GarnishDataType] = &[
    GarnishDataType::Invalid,
    GarnishDataType::Unit,
    GarnishDataType::Number,
    GarnishDataType::Type,
    GarnishDataType::Char,
    GarnishDataType::CharList,
    GarnishDataType::Byte,
    GarnishDataType::ByteList,
    GarnishDataType::Symbol,
    GarnishDataType::SymbolList,
    GarnishDataType::Pair,
    GarnishDataType::Range,
    GarnishDataType::Concatenation,
    GarnishDataType::Slice,
    GarnishDataType::Partial,
    GarnishDataType::List,
    GarnishDataType::Expression,
    GarnishDataType::External,
    GarnishDataType::True,
    GarnishDataType::False,
    GarnishDataType::Custom,
];

const INSTRUCTIONS: &[Instruction] = &[
    Instruction::Invalid,
    Instruction::Put,
    Instruction::PutValue,
    Instruction::PushValue,
    Instruction::UpdateValue,
    Instruction::JumpTo,
    Instruction::EndExpression,
    Instruction::Add,
    Instruction::Subtract,
    Instruction::Multiply,
    Instruction::Divide,
    Instruction::IntegerDivide,
    Instruction::Power,
    Instruction::Opposite,
    Instruction::AbsoluteValue,
    Instruction::Remainder,
    Instruction::BitwiseNot,
    Instruction::BitwiseAnd,
    Instruction::BitwiseOr,
    Instruction::BitwiseXor,
    Instruction::BitwiseShiftLeft,
    Instruction::BitwiseShiftRight,
    Instruction::And,
    Instruction::Or,
    Instruction::Xor,
    Instruction::Not,
    Instruction::Tis,
    Instruction::JumpIfTrue,
    Instruction::JumpIfFalse,
    Instruction::TypeOf,
    Instruction::ApplyType,
    Instruction::TypeEqual,
    Instruction::Equal,
    Instruction::NotEqual,
    Instruction::LessThan,
    Instruction::LessThanOrEqual,
    Instruction::GreaterThan,
    Instruction::GreaterThanOrEqual,
    Instruction::MakePair,
    Instruction::MakeList,
    Instruction::Apply,
    Instruction::PartialApply,
    Instruction::EmptyApply,
    Instruction::Reapply,
    Instruction::Access,
    Instruction::AccessLeftInternal,
    Instruction::AccessRightInternal,
    Instruction::AccessLengthInternal,
    Instruction::Resolve,
    Instruction::StartSideEffect,
    Instruction::EndSideEffect,
    Instruction::MakeRange,
    Instruction::MakeStartExclusiveRange,
    Instruction::MakeEndExclusiveRange,
    Instruction::MakeExclusiveRange,
    Instruction::Concat,
];

fn instruction_named(s: &str) -> Option<Instruction> {
    INSTRUCTIONS.iter().copied().find(|i| format!("{:?}", i) == s)
}

fn type_named(s: &str) -> Option<GarnishDataType> {
    TYPES.iter().copied().find(|t| format!("{:?}", t) == s)
}

fn list_of<D: Host>(d: &mut D, items: &[usize]) -> Result<usize, DataError> {
    let mut l = d.start_list(items.len())?;
    for i in items {
        l = d.add_to_list(l, *i)?;
    }
    d.end_list(l)
}

fn int<D: Host>(d: &mut D, v: i32) -> Result<usize, DataError> {
    d.add_number(SimpleNumber::Integer(v))
}

enum BuildErr {
    Data(DataError),
    Syntax(String),
    Unsupported,
}
impl From<DataError> for BuildErr {
    fn from(e: DataError) -> Self {
        BuildErr::Data(e)
    }
}

struct VParser<'a> {
    s: &'a [u8],
    i: usize,
}

fn dotted_text(t: &str) -> Result<String, BuildErr> {
    if t == "-" || t.is_empty() {
        return Ok(String::new());
    }
    let mut out = String::new();
    for x in t.split('.') {
        let v = u32::from_str_radix(x, 16).map_err(|_| BuildErr::Syntax(format!("cp {}", x)))?;
        out.push(char::from_u32(v).ok_or(BuildErr::Syntax(format!("cp {}", x)))?);
    }
    Ok(out)
}

impl<'a> VParser<'a> {
    fn peek(&self) -> u8 {
        if self.i < self.s.len() { self.s[self.i] } else { 0 }
    }
    fn word(&mut self) -> String {
        let st = self.i;
        while self.i < self.s.len() && !matches!(self.s[self.i], b'(' | b')' | b',') {
            self.i += 1;
        }
        String::from_utf8_lossy(&self.s[st..self.i]).to_string()
    }
    fn expect(&mut self, c: u8) -> Result<(), BuildErr> {
        if self.peek() == c {
            self.i += 1;
            Ok(())
        } else {
            Err(BuildErr::Syntax(format!("expected {} at {}", c as char, self.i)))
        }
    }
    fn args<D: Host>(&mut self, d: &mut D) -> Result<Vec<usize>, BuildErr> {
        self.expect(b'(')?;
        let mut v = vec![];
        if self.peek() == b')' {
            self.i += 1;
            return Ok(v);
        }
        loop {
            v.push(self.value(d)?);
            if self.peek() == b',' {
                self.i += 1;
            } else {
                break;
            }
        }
        self.expect(b')')?;
        Ok(v)
    }
    fn two<D: Host>(&mut self, d: &mut D) -> Result<(usize, usize), BuildErr> {
        let a = self.args(d)?;
        if a.len() != 2 {
            return Err(BuildErr::Syntax("two arguments".to_string()));
        }
        Ok((a[0], a[1]))
    }
    fn value<D: Host>(&mut self, d: &mut D) -> Result<usize, BuildErr> {
        let tag = self.peek();
        self.i += 1;
        Ok(match tag {
            b'u' => d.add_unit()?,
            b'T' => d.add_true()?,
            b'F' => d.add_false()?,
            b'i' => {
                let w = self.word();
                d.add_number(SimpleNumber::Integer(parse_hex_i64(&w) as i32))?
            }
            b'f' => {
                let w = self.word();
                let bits = u64::from_str_radix(&w, 16).map_err(|_| BuildErr::Syntax("float bits".to_string()))?;
                d.add_number(SimpleNumber::Float(f64::from_bits(bits)))?
            }
            b'c' => {
                let w = self.word();
                let t = dotted_text(&w)?;
                d.add_char(t.chars().next().ok_or(BuildErr::Syntax("char".to_string()))?)?
            }
            b'b' => {
                let w = self.word();
                d.add_byte(u8::from_str_radix(&w, 16).map_err(|_| BuildErr::Syntax("byte".to_string()))?)?
            }
            b's' => {
                let w = self.word();
                let t = dotted_text(&w)?;
                d.mk_chars(&t)?
            }
            b'y' => {
                let w = self.word();
                let mut bytes = vec![];
                if w != "-" {
                    let cs: Vec<char> = w.chars().collect();
                    for p in cs.chunks(2) {
                        let h: String = p.iter().collect();
                        bytes.push(u8::from_str_radix(&h, 16).map_err(|_| BuildErr::Syntax("bytes".to_string()))?);
                    }
                }
                d.mk_bytes(&bytes)?
            }
            b'k' => {
                let w = self.word();
                let t = dotted_text(&w)?;
                d.parse_add_symbol(&t)?
            }
            b't' => {
                let w = self.word();
                d.add_type(type_named(&w).ok_or(BuildErr::Syntax(format!("type {}", w)))?)?
            }
            b'x' => {
                let w = self.word();
                d.add_expression(w.parse().map_err(|_| BuildErr::Syntax("expr".to_string()))?)?
            }
            b'e' => {
                let w = self.word();
                d.add_external(w.parse().map_err(|_| BuildErr::Syntax("ext".to_string()))?)?
            }
            b'I' => d.mk_invalid()?.ok_or(BuildErr::Unsupported)?,
            b'Q' => d.mk_custom()?.ok_or(BuildErr::Unsupported)?,
            b'P' => {
                let (a, b) = self.two(d)?;
                d.add_pair((a, b))?
            }
            b'L' => {
                let items = self.args(d)?;
                list_of(d, &items)?
            }
            b'R' => {
                let (a, b) = self.two(d)?;
                d.add_range(a, b)?
            }
            b'r' => {
                // range whose END operand is constructed first (so that its address is the lower one)
                let (b, a) = self.two(d)?;
                d.add_range(a, b)?
            }
            b'K' => {
                let w = self.word();
                d.add_symbol(u64::from_str_radix(&w, 16).map_err(|_| BuildErr::Syntax("symbol value".to_string()))?)?
            }
            b'C' => {
                let (a, b) = self.two(d)?;
                d.add_concatenation(a, b)?
            }
            b'S' => {
                let (a, b) = self.two(d)?;
                d.add_slice(a, b)?
            }
            b'A' => {
                let (a, b) = self.two(d)?;
                d.add_partial(a, b)?
            }
            b'Y' => {
                let (a, b) = self.two(d)?;
                d.merge_to_symbol_list(a, b)?
            }
            b'D' => {
                let kind = self.peek();
                self.i += 1;
                let st = self.i;
                while self.peek().is_ascii_digit() {
                    self.i += 1;
                }
                let depth: usize = String::from_utf8_lossy(&self.s[st..self.i]).parse().map_err(|_| BuildErr::Syntax("depth".to_string()))?;
                let inner = self.args(d)?;
                if inner.len() != 1 {
                    return Err(BuildErr::Syntax("D takes one argument".to_string()));
                }
                let mut cur = inner[0];
                let one = int(d, 1)?;
                let zero = int(d, 0)?;
                let key = d.parse_add_symbol("k")?;
                for _ in 0..depth {
                    cur = match kind {
                        b'L' => list_of(d, &[cur])?,
                        b'l' => list_of(d, &[cur, one])?,
                        b'P' => d.add_pair((key, cur))?,
                        b'p' => d.add_pair((cur, one))?,
                        b'C' => d.add_concatenation(cur, one)?,
                        b'c' => d.add_concatenation(one, cur)?,
                        b'S' => {
                            let r = d.add_range(zero, one)?;
                            d.add_slice(cur, r)?
                        }
                        b'A' => d.add_partial(cur, one)?,
                        _ => return Err(BuildErr::Syntax("deep kind".to_string())),
                    };
                }
                cur
            }
            _ => return Err(BuildErr::Syntax(format!("tag {} at {}", tag as char, self.i))),
        })
    }
}

fn build_value<D: Host>(d: &mut D, text: &str) -> Result<Option<usize>, BuildErr> {
    if text == "-" {
        return Ok(None);
    }
    let mut p = VParser { s: text.as_bytes(), i: 0 };
    let a = p.value(d)?;
    if p.i != text.len() {
        return Err(BuildErr::Syntax(format!("trailing text at {}", p.i)));
    }
    Ok(Some(a))
}

// ------------------------------------------------------------- single steps
fn step<D: Host>(d: &mut D) -> Result<Result<bool, String>, String> {
    match panic::catch_unwind(panic::AssertUnwindSafe(|| execute_current_instruction(d))) {
        Err(_) => Err(last_panic()),
        Ok(Ok(info)) => Ok(Ok(info.get_state() == SimpleRuntimeState::End)),
        Ok(Err(e)) => Ok(Err(clean(&format!("{}", e)))),
    }
}

fn run_op<D: Host>(mut d: D, instr: Instruction, idata: Option<usize>, l: &str, r: &str) -> (String, String) {
    let built = panic::catch_unwind(panic::AssertUnwindSafe(|| -> Result<(), BuildErr> {
        let sentinel = d.add_external(9999)?;
        d.push_value_stack(sentinel)?;
        d.push_register(sentinel)?;
        let lv = build_value(&mut d, l)?;
        let rv = build_value(&mut d, r)?;
        if let Some(a) = lv {
            d.push_value_stack(a)?;
            d.push_register(a)?;
        }
        if let Some(a) = rv {
            d.push_register(a)?;
        }
        let data = match (idata, instr) {
            (Some(x), _) => Some(x),
            (None, Instruction::MakeList) => Some(2),
            (
                None,
                Instruction::Put | Instruction::And | Instruction::Or | Instruction::Resolve | Instruction::Reapply | Instruction::JumpIfTrue | Instruction::JumpIfFalse | Instruction::JumpTo,
            ) => Some(0),
            _ => None,
        };
        d.push_instruction(instr, data)?;
        for _ in 0..5 {
            d.push_instruction(Instruction::Invalid, None)?;
        }
        d.push_to_jump_table(3)?;
        d.push_to_jump_table(1)?;
        d.set_instruction_cursor(0)?;
        Ok(())
    }));
    match built {
        Err(_) => return ("UNBUILDABLE".to_string(), format!("panic while constructing operands: {}", last_panic())),
        Ok(Err(BuildErr::Data(e))) => return ("UNBUILDABLE".to_string(), clean(&format!("{}", e))),
        Ok(Err(BuildErr::Syntax(s))) => return ("BADCASE".to_string(), s),
        Ok(Err(BuildErr::Unsupported)) => return ("UNBUILDABLE".to_string(), "no such value on this implementation".to_string()),
        Ok(Ok(())) => {}
    }
    match step(&mut d) {
        Err(msg) => ("PANIC".to_string(), msg),
        Ok(Ok(_)) => ("Ok".to_string(), "-".to_string()),
        Ok(Err(m)) => ("Err".to_string(), m),
    }
}

// ----------------------------------------------------------------- programs
fn run_program<D: Host>(mut d: D, src: &str, max_steps: usize) -> (String, String) {
    let tokens = match panic::catch_unwind(|| lex(src)) {
        Err(_) => return ("REJECT:lex:panic".to_string(), last_panic()),
        Ok(Err(e)) => return ("REJECT:lex".to_string(), clean(e.get_message())),
        Ok(Ok(t)) => t,
    };
    let parsed = match panic::catch_unwind(|| parse(&tokens)) {
        Err(_) => return ("REJECT:parse:panic".to_string(), last_panic()),
        Ok(Err(e)) => return ("REJECT:parse".to_string(), clean(e.get_message())),
        Ok(Ok(p)) => p,
    };
    let root = parsed.get_root();
    let nodes = parsed.get_nodes_owned();
    let built = panic::catch_unwind(panic::AssertUnwindSafe(|| build(root, nodes, &mut d).map(|bd| *bd.jump_index())));
    let jump_index = match built {
        Err(_) => return ("REJECT:build:panic".to_string(), last_panic()),
        Ok(Err(e)) => return ("REJECT:build".to_string(), clean(e.get_message())),
        Ok(Ok(j)) => j,
    };
    let start = match d.get_from_jump_table(jump_index) {
        Some(s) => s,
        None => return ("REJECT:build".to_string(), "no jump point".to_string()),
    };
    let setup = (|| -> Result<(), DataError> {
        d.set_instruction_cursor(start)?;
        let u = d.add_unit()?;
        d.push_value_stack(u)?;
        Ok(())
    })();
    if let Err(e) = setup {
        return ("REJECT:build".to_string(), clean(&format!("{}", e)));
    }
    let mut steps = 0usize;
    loop {
        if steps >= max_steps {
            return (format!("LIMIT:{}", steps), "-".to_string());
        }
        match step(&mut d) {
            Err(msg) => return (format!("PANIC:{}", steps), msg),
            Ok(Err(m)) => return (format!("Err:{}", steps), m),
            Ok(Ok(true)) => return (format!("Ok:{}", steps + 1), "-".to_string()),
            Ok(Ok(false)) => {}
        }
        steps += 1;
    }
}

// --------------------------------------------- index arithmetic observations
fn parse_num(s: &str) -> Option<SimpleNumber> {
    match s.as_bytes().first() {
        Some(b'i') => Some(SimpleNumber::Integer(parse_hex_i64(&s[1..]) as i32)),
        Some(b'f') => u64::from_str_radix(&s[1..], 16).ok().map(|b| SimpleNumber::Float(f64::from_bits(b))),
        _ => None,
    }
}

fn show_num(n: SimpleNumber) -> String {
    match n {
        SimpleNumber::Integer(v) => format!("i{}", hex_i64(v as i64)),
        SimpleNumber::Float(f) => format!("f{:016x}", f.to_bits()),
    }
}

/// container of `len` items of kind k: l list (items 100+i), c char list ('a'+i mod 26), b byte list (i mod 256),
/// s symbol list (symbols n0 n1 ...; needs len >= 2), n concatenation (left-nested, items 100+i; needs len >= 2)
fn mk_container<D: Host>(d: &mut D, kind: &str, len: usize) -> Result<Option<usize>, DataError> {
    Ok(Some(match kind {
        "l" => {
            let mut items = vec![];
            for i in 0..len {
                items.push(int(d, 100 + i as i32)?);
            }
            list_of(d, &items)?
        }
        "c" => {
            let s: String = (0..len).map(|i| (b'a' + (i % 26) as u8) as char).collect();
            d.mk_chars(&s)?
        }
        "b" => {
            let v: Vec<u8> = (0..len).map(|i| (i % 256) as u8).collect();
            d.mk_bytes(&v)?
        }
        "s" => {
            if len < 2 {
                return Ok(None);
            }
            let mut cur = d.parse_add_symbol("n0")?;
            for i in 1..len {
                let s = d.parse_add_symbol(&format!("n{}", i))?;
                cur = d.merge_to_symbol_list(cur, s)?;
            }
            cur
        }
        "n" => {
            if len < 2 {
                return Ok(None);
            }
            let mut cur = int(d, 100)?;
            for i in 1..len {
                let x = int(d, 100 + i as i32)?;
                cur = d.add_concatenation(cur, x)?;
            }
            cur
        }
        _ => return Ok(None),
    }))
}

fn show_item<D: Host>(d: &D, a: usize) -> String {
    match d.get_data_type(a) {
        Ok(GarnishDataType::Number) => match d.get_number(a) {
            Ok(n) => show_num(n),
            Err(_) => "?".to_string(),
        },
        Ok(GarnishDataType::Char) => match d.get_char(a) {
            Ok(c) => format!("c{:x}", c as u32),
            Err(_) => "?".to_string(),
        },
        Ok(GarnishDataType::Byte) => match d.get_byte(a) {
            Ok(c) => format!("b{:x}", c),
            Err(_) => "?".to_string(),
        },
        Ok(GarnishDataType::Symbol) => "k".to_string(),
        Ok(GarnishDataType::Unit) => "u".to_string(),
        Ok(t) => format!("{:?}", t),
        Err(_) => "?".to_string(),
    }
}

/// the list-like value at the top of the register stack, as a short summary: length and items
fn show_list_value<D: Host>(d: &D, a: usize) -> String {
    match d.get_data_type(a) {
        Ok(GarnishDataType::List) => {
            let len = d.get_list_len(a).unwrap_or(0);
            let mut items = vec![];
            for i in 0..len.min(40) {
                match d.get_list_item(a, SimpleNumber::Integer(i as i32)) {
                    Ok(Some(x)) => items.push(show_item(d, x)),
                    Ok(None) => items.push("none".to_string()),
                    Err(_) => items.push("err".to_string()),
                }
            }
            format!("L{}[{}]", len, items.join(","))
        }
        Ok(_) => show_item(d, a),
        Err(_) => "?".to_string(),
    }
}

fn run_x<D: Host>(mut d: D, p: &[&str]) -> (String, String) {
    let r = panic::catch_unwind(panic::AssertUnwindSafe(|| -> Result<String, DataError> {
        match p[0] {
            // X usize <impl> <num>: From<SimpleNumber> for usize
            "usize" => {
                let n = parse_num(p[1]).expect("num");
                Ok(format!("Ok {:x}", usize::from(n)))
            }
            // X raccess <impl> <start num> <end num> <index num>: the Access instruction on a range
            "raccess" => {
                let s0 = d.add_number(parse_num(p[1]).expect("num"))?;
                let e0 = d.add_number(parse_num(p[2]).expect("num"))?;
                let r = d.add_range(s0, e0)?;
                let i = d.add_number(parse_num(p[3]).expect("num"))?;
                d.push_register(r)?;
                d.push_register(i)?;
                d.push_instruction(Instruction::Access, None)?;
                d.push_instruction(Instruction::Invalid, None)?;
                d.set_instruction_cursor(0)?;
                match execute_current_instruction(&mut d) {
                    Err(_) => Ok("Err".to_string()),
                    Ok(_) => {
                        let n = d.get_register_len();
                        let top = d.get_register(n - 1).expect("top");
                        Ok(format!("Ok {}", show_item(&d, top)))
                    }
                }
            }
            // X mklist <impl> <n> <k>: MakeList n with k values (100, 101, ...) in the registers
            "mklist" => {
                let n: usize = p[1].parse().unwrap_or(0);
                let k: usize = p[2].parse().unwrap_or(0);
                for i in 0..k {
                    let a = int(&mut d, 100 + i as i32)?;
                    d.push_register(a)?;
                }
                d.push_instruction(Instruction::MakeList, Some(n))?;
                d.push_instruction(Instruction::Invalid, None)?;
                d.set_instruction_cursor(0)?;
                match execute_current_instruction(&mut d) {
                    Err(_) => Ok("Err".to_string()),
                    Ok(_) => {
                        let len = d.get_register_len();
                        let top = d.get_register(len - 1).expect("top");
                        Ok(format!("Ok {} regs={}", show_list_value(&d, top), len))
                    }
                }
            }
            // X eqregs <impl> <k>: Equal with k registers (all the number 1)
            "eqregs" => {
                let k: usize = p[1].parse().unwrap_or(0);
                for _ in 0..k {
                    let a = int(&mut d, 1)?;
                    d.push_register(a)?;
                }
                d.push_instruction(Instruction::Equal, None)?;
                d.push_instruction(Instruction::Invalid, None)?;
                d.set_instruction_cursor(0)?;
                match execute_current_instruction(&mut d) {
                    Err(_) => Ok("Err".to_string()),
                    Ok(_) => Ok(format!("Ok regs={}", d.get_register_len())),
                }
            }
            // X endlist S <n> <stride>: the association table SimpleGarnishData::end_list builds for n plain items
            "endlist" => {
                let n: usize = p[1].parse().unwrap_or(0);
                let stride: i32 = p[2].parse().unwrap_or(1);
                let mut items = vec![];
                for i in 0..n {
                    items.push(int(&mut d, 1000 + (i as i32) * stride)?);
                    // spread the addresses: intern `stride - 1` other values in between
                    for j in 1..stride {
                        int(&mut d, 500000 + (i as i32) * stride + j)?;
                    }
                }
                let l = list_of(&mut d, &items)?;
                match d.simple_assoc_table(l) {
                    None => Ok("UNBUILDABLE".to_string()),
                    Some(t) => Ok(format!(
                        "Ok {}|{}",
                        items.iter().map(|x| x.to_string()).collect::<Vec<_>>().join(","),
                        t.iter().map(|x| x.to_string()).collect::<Vec<_>>().join(",")
                    )),
                }
            }
            // X bsearch B <n> <j>: look symbol s<j> up in a list of n pairs s<i> = 100 + i
            "bsearch" => {
                let n: usize = p[1].parse().unwrap_or(0);
                let j: usize = p[2].parse().unwrap_or(0);
                let mut items = vec![];
                for i in 0..n {
                    let key = d.parse_add_symbol(&format!("s{}", i))?;
                    let val = int(&mut d, 100 + i as i32)?;
                    items.push(d.add_pair((key, val))?);
                }
                let l = list_of(&mut d, &items)?;
                let cells = match d.basic_assoc_cells(l) {
                    None => return Ok("UNBUILDABLE".to_string()),
                    Some(c) => c,
                };
                let sym = symbol_value(&format!("s{}", j));
                let found = match d.get_list_item_with_symbol(l, sym) {
                    Ok(Some(a)) => show_item(&d, a),
                    Ok(None) => "none".to_string(),
                    Err(_) => "err".to_string(),
                };
                Ok(format!(
                    "Ok {}|{:x}|{}",
                    cells.iter().map(|(s, a)| format!("{:x}:{}", s, show_item(&d, *a))).collect::<Vec<_>>().join(","),
                    sym,
                    found
                ))
            }
            // X cwin S <n> <start num> <end num>: items of  (slice of an n-item concatenation) <> 999
            "cwin" => {
                let n: usize = p[1].parse().unwrap_or(2);
                let inner = match mk_container(&mut d, "n", n)? {
                    Some(c) => c,
                    None => return Ok("UNBUILDABLE".to_string()),
                };
                let s0 = d.add_number(parse_num(p[2]).expect("num"))?;
                let e0 = d.add_number(parse_num(p[3]).expect("num"))?;
                let r = d.add_range(s0, e0)?;
                let sl = d.add_slice(inner, r)?;
                let extra = int(&mut d, 999)?;
                let outer = d.add_concatenation(sl, extra)?;
                match d.get_concatenation_iter(outer, Extents::new(SimpleNumber::Integer(0), SimpleNumber::Float(f64::MAX))) {
                    Ok(it) => Ok(format!("Ok {}", it.count())),
                    Err(_) => Ok("Err".to_string()),
                }
            }
            // X item <impl> <kind> <len> <num>: the get_*_item getters
            "item" => {
                let len: usize = p[2].parse().unwrap_or(0);
                let c = match mk_container(&mut d, p[1], len)? {
                    Some(c) => c,
                    None => return Ok("UNBUILDABLE".to_string()),
                };
                let idx = parse_num(p[3]).expect("num");
                Ok(match p[1] {
                    "l" => match d.get_list_item(c, idx) {
                        Ok(Some(a)) => format!("Ok some {}", show_item(&d, a)),
                        Ok(None) => "Ok none".to_string(),
                        Err(_) => "Err".to_string(),
                    },
                    "c" => match d.get_char_list_item(c, idx) {
                        Ok(Some(a)) => format!("Ok some c{:x}", a as u32),
                        Ok(None) => "Ok none".to_string(),
                        Err(_) => "Err".to_string(),
                    },
                    "b" => match d.get_byte_list_item(c, idx) {
                        Ok(Some(a)) => format!("Ok some b{:x}", a),
                        Ok(None) => "Ok none".to_string(),
                        Err(_) => "Err".to_string(),
                    },
                    "s" => match d.get_symbol_list_item(c, idx) {
                        Ok(Some(SymbolListPart::Symbol(_))) => "Ok some k".to_string(),
                        Ok(Some(SymbolListPart::Number(n))) => format!("Ok some {}", show_num(n)),
                        Ok(None) => "Ok none".to_string(),
                        Err(_) => "Err".to_string(),
                    },
                    _ => "UNBUILDABLE".to_string(),
                })
            }
            // X iter <impl> <kind> <len> <start num> <end num>: the get_*_iter getters; prints the item count
            "iter" => {
                let len: usize = p[2].parse().unwrap_or(0);
                let c = match mk_container(&mut d, p[1], len)? {
                    Some(c) => c,
                    None => return Ok("UNBUILDABLE".to_string()),
                };
                let ext = Extents::new(parse_num(p[3]).expect("num"), parse_num(p[4]).expect("num"));
                let n = match p[1] {
                    "l" => d.get_list_item_iter(c, ext).map(|i| i.count()),
                    "c" => d.get_char_list_iter(c, ext).map(|i| i.count()),
                    "b" => d.get_byte_list_iter(c, ext).map(|i| i.count()),
                    "s" => d.get_symbol_list_iter(c, ext).map(|i| i.count()),
                    "n" => d.get_concatenation_iter(c, ext).map(|i| i.count()),
                    _ => return Ok("UNBUILDABLE".to_string()),
                };
                Ok(match n {
                    Ok(n) => format!("Ok {}", n),
                    Err(_) => "Err".to_string(),
                })
            }
            // X access <impl> <kind> <len> <num> [<slice start num> <slice end num>]: the Access instruction on
            // a container (or a slice of it) with a number; prints what is pushed
            // X cast <impl> <value expr> <TypeName>: ApplyType; prints what is pushed
            // X range <impl> <Instruction> <num> <num>: the four range constructors; prints start and end
            "access" | "cast" | "range" | "lenof" => {
                let (instr, left, right) = match p[0] {
                    "access" => {
                        let len: usize = p[2].parse().unwrap_or(0);
                        let c = match mk_container(&mut d, p[1], len)? {
                            Some(c) => c,
                            None => return Ok("UNBUILDABLE".to_string()),
                        };
                        let target = if p.len() >= 6 {
                            let s = d.add_number(parse_num(p[4]).expect("num"))?;
                            let e = d.add_number(parse_num(p[5]).expect("num"))?;
                            let r = d.add_range(s, e)?;
                            d.add_slice(c, r)?
                        } else {
                            c
                        };
                        let i = d.add_number(parse_num(p[3]).expect("num"))?;
                        (Instruction::Access, target, Some(i))
                    }
                    "cast" => {
                        let v = match build_value(&mut d, p[1]) {
                            Ok(Some(v)) => v,
                            _ => return Ok("UNBUILDABLE".to_string()),
                        };
                        let t = d.add_type(type_named(p[2]).expect("type"))?;
                        (Instruction::ApplyType, v, Some(t))
                    }
                    "lenof" => {
                        let v = match build_value(&mut d, p[1]) {
                            Ok(Some(v)) => v,
                            _ => return Ok("UNBUILDABLE".to_string()),
                        };
                        (Instruction::AccessLengthInternal, v, None)
                    }
                    _ => {
                        let l = d.add_number(parse_num(p[2]).expect("num"))?;
                        let r = d.add_number(parse_num(p[3]).expect("num"))?;
                        (instruction_named(p[1]).expect("instruction"), l, Some(r))
                    }
                };
                d.push_register(left)?;
                if let Some(r) = right {
                    d.push_register(r)?;
                }
                d.push_instruction(instr, None)?;
                d.push_instruction(Instruction::Invalid, None)?;
                d.set_instruction_cursor(0)?;
                match execute_current_instruction(&mut d) {
                    Err(_) => Ok("Err".to_string()),
                    Ok(_) => {
                        let n = d.get_register_len();
                        if n == 0 {
                            return Ok("Ok -".to_string());
                        }
                        let top = d.get_register(n - 1).expect("top");
                        if p[0] == "range" {
                            match d.get_data_type(top) {
                                Ok(GarnishDataType::Range) => {
                                    let (s, e) = d.get_range(top)?;
                                    Ok(format!("Ok R {} {}", show_item(&d, s), show_item(&d, e)))
                                }
                                _ => Ok(format!("Ok {}", show_item(&d, top))),
                            }
                        } else {
                            Ok(format!("Ok {}", show_list_value(&d, top)))
                        }
                    }
                }
            }
            _ => Ok("BADCASE".to_string()),
        }
    }));
    match r {
        Err(_) => ("PANIC".to_string(), last_panic()),
        Ok(Err(e)) => ("UNBUILDABLE".to_string(), clean(&format!("{}", e))),
        Ok(Ok(s)) => (s, "-".to_string()),
    }
}

enum Job<'a> {
    Op(Instruction, Option<usize>, &'a str, &'a str),
    Program(&'a str, usize),
    X(&'a [&'a str]),
}

fn dispatch(imp: &str, host: &str, job: Job) -> (String, String) {
    fn go<D: Host>(d: D, job: Job) -> (String, String) {
        match job {
            Job::Op(i, data, l, r) => run_op(d, i, data, l, r),
            Job::Program(src, n) => run_program(d, src, n),
            Job::X(p) => run_x(d, p),
        }
    }
    // the quadratic default growth is kept for programs (that is what a host gets by default);
    // directly constructed operands (which include the 10^5-deep ones) use doubling growth
    let fast = !matches!(job, Job::Program(_, _));
    match (imp, host) {
        ("S", h) if h == "A" || h == "D" || h == "Y" => {
            let mut d = Simple::new_custom();
            if h != "A" {
                d.set_resolver(simple_resolver);
                d.set_op_handler(simple_handler);
                d.auxiliary_data_mut().accept = h == "Y";
            }
            go(d, job)
        }
        ("B", "A") => match new_basic(NoOpCompanion::new(), fast) {
            Ok(d) => go(d, job),
            Err(e) => ("UNBUILDABLE".to_string(), clean(&format!("{}", e))),
        },
        ("B", h) if h == "D" || h == "Y" => match new_basic(Rec { accept: h == "Y", calls: 0 }, fast) {
            Ok(d) => go(d, job),
            Err(e) => ("UNBUILDABLE".to_string(), clean(&format!("{}", e))),
        },
        _ => ("BADCASE".to_string(), "impl/host".to_string()),
    }
}

fn main() {
    // per-case deadline of the supervisor (HANG); the check lowers it for the run over cases whose only
    // question is resource exhaustion
    let deadline_ms: u64 = std::env::var("NOPANIC_DEADLINE_MS").ok().and_then(|v| v.parse().ok()).unwrap_or(20000);
    supervised(deadline_ms, |line| {
        install_hook();
        let p: Vec<&str> = line.split(' ').collect();
        let (class, detail) = match p.first().copied() {
            Some("O") if p.len() == 6 => {
                let (name, data) = match p[3].split_once(':') {
                    Some((n, d)) => (n, d.parse::<usize>().ok()),
                    None => (p[3], None),
                };
                match instruction_named(name) {
                    None => ("BADCASE".to_string(), "instruction".to_string()),
                    Some(i) => dispatch(p[1], p[2], Job::Op(i, data, p[4], p[5])),
                }
            }
            Some("P") if p.len() == 5 => {
                let src = hex_to_string(p[4]);
                let n: usize = p[3].parse().unwrap_or(1000);
                dispatch(p[1], p[2], Job::Program(&src, n))
            }
            Some("X") if p.len() >= 4 => {
                // X <fn> <impl> args...  -> run_x sees [fn, args...]
                let mut q: Vec<&str> = vec![p[1]];
                q.extend_from_slice(&p[3..]);
                dispatch(p[2], "A", Job::X(&q))
            }
            _ => ("BADCASE".to_string(), "shape".to_string()),
        };
        format!("{}\t{}\t{}", line, class, detail)
    });
}
