(* The last_left adjustment has settled after EVERY prefix: the settled hypothesis of
   the trivia theorems is discharged for all token lists. *)
From Coq Require Import List Arith Bool NArith Lia.
From GV Require Import Base.Result Gen.TokenTypes Gen.Defs Model.Parser Spec.Layout Spec.LayoutSim
  Proofs.C18.StepParts Proofs.C18.Sim Proofs.C18.Detour Proofs.C18.Settled Proofs.C18.Invariant
  Proofs.C18.InvStep Proofs.C18.Final Proofs.C18.Trim Proofs.C18.Main Proofs.C18.Insert.
Import ListNotations.

(* trivia and dropped separators: from a settled state to a calm one *)
Lemma step_pass_settled n i tok st0 st' :
  step n i tok st0 = Ok st' -> next_last_left st0 = None -> is_pass_tok tok = true ->
  adjust_settled st0 = true -> CalmSt st'.
Proof.
  intros Hstep Hnll Hp Hs.
  destruct (step_inv _ _ _ _ _ Hstep) as (ug & ll & ps & pg & r & Hug & Ha & Harm & ->).
  destruct (settled_SF st0 ug ll ps pg Hs Hug Ha) as [[_ HSF] _].
  change (last_left (with_ll st0 ll)) with ll in HSF. change (nodes (with_ll st0 ll)) with (nodes st0) in HSF.
  assert (Hc' : forall ug', under_group_of (adjusted st0 ll ps pg) = Ok ug' ->
                finished_block (nodes (adjusted st0 ll ps pg)) ug' (last_left (adjusted st0 ll ps pg)) = false).
  { intros ug' Hu. change (under_group_of st0 = Ok ug') in Hu. rewrite Hug in Hu. injection Hu as <-.
    change (finished_block (nodes st0) ug ll = false). destruct ll as [l|]; [exact (proj2 HSF)|reflexivity]. }
  destruct tok; try discriminate Hp; cbn [get_definition fst snd step_arm] in Harm |- *.
  - exact (arm_ws_calm _ _ _ _ _ _ _ eq_refl Hc' Harm).
  - eapply arm_subexpr_calm; [| | | |exact Harm]; [exact Hnll|reflexivity|discriminate|exact Hc'].
  - eapply arm_subexpr_calm; [| | | |exact Harm]; [exact Hnll|reflexivity|discriminate|exact Hc'].
  - exact (arm_annot_calm _ _ _ _ _ _ eq_refl Hc' Harm).
  - exact (arm_annot_calm _ _ _ _ _ _ eq_refl Hc' Harm).
Qed.

Definition Good (st : pstate) : Prop :=
  Inv st /\ adjust_settled st = true /\ (last_left st = None -> nodes st = []).

Lemma step_good n i tok st st' : Good st -> step n i tok st = Ok st' -> Good st'.
Proof.
  intros (HI & Hs & Hn) Hstep.
  pose proof (step_preserves_inv _ _ _ _ _ HI Hstep) as HI'.
  destruct (step_calm _ _ _ _ _ Hstep (i_nll _ HI)) as ((_ & Hn') & _ & Hpush).
  split; [exact HI'|]. split; [|exact Hn'].
  destruct (is_pass_tok tok) eqn:Ep.
  - apply calm_settled; [exact Hn'|]. exact (step_pass_settled _ _ _ _ _ Hstep (i_nll _ HI) Ep Hs).
  - destruct (token_type_eqb tok TT_EndSideEffect) eqn:Ee.
    + assert (tok = TT_EndSideEffect) by (destruct tok; try discriminate Ee; reflexivity). subst tok.
      exact (step_end_settled _ _ _ _ HI Hstep).
    + apply calm_settled; [exact Hn'|]. apply Hpush; [reflexivity|]. intros ->. discriminate Ee.
Qed.

Lemma run_good n : forall pre i st st', Good st -> run_steps n i pre st = Ok st' -> Good st'.
Proof.
  induction pre as [|t r IH]; intros i st st' HG H; cbn [run_steps] in H.
  - injection H as <-. exact HG.
  - destruct (step n i t st) as [s1| | |] eqn:Es; cbn [bind] in H; try discriminate H.
    exact (IH _ _ _ (step_good _ _ _ _ _ HG Es) H).
Qed.

Lemma good_init : Good init_state.
Proof. split; [exact inv_init|]. split; reflexivity. Qed.

Theorem settled_always pre : settled_after pre.
Proof.
  unfold settled_after, state_after.
  destruct (run_steps (S (length pre)) 0 pre init_state) as [st| | |] eqn:Er; try exact I.
  exact (proj1 (proj2 (run_good _ _ _ _ _ good_init Er))).
Qed.

(* ---- the unconditional theorems ---- *)
Theorem trivia_runs_statement_holds : C18_trivia_runs_statement.
Proof.
  intros pre post Hp Hq. apply trivia_runs_equivalent; [exact Hp|exact Hq|apply settled_always].
Qed.

Theorem annotation_insert_always pre post a t :
  has_sig pre = true -> has_sig post = true -> is_annotation_tok a = true ->
  parse_tree (pre ++ post) = Some t -> parse_tree (pre ++ [a] ++ post) = Some t.
Proof. intros Hp Hq. apply annotation_insert; [exact Hp|exact Hq|apply settled_always]. Qed.

Corollary annotation_next_to_whitespace_always pre post a :
  has_sig pre = true -> has_sig post = true -> is_annotation_tok a = true ->
  opt_gtree_eqb (parse_tree (pre ++ [TT_Whitespace] ++ post))
                (parse_tree (pre ++ [TT_Whitespace; a; TT_Whitespace] ++ post)) = true /\
  opt_gtree_eqb (parse_tree (pre ++ [TT_Whitespace] ++ post))
                (parse_tree (pre ++ [a; TT_Whitespace] ++ post)) = true /\
  opt_gtree_eqb (parse_tree (pre ++ [TT_Whitespace] ++ post))
                (parse_tree (pre ++ [TT_Whitespace; a] ++ post)) = true.
Proof. intros Hp Hq. apply annotation_next_to_whitespace; [exact Hp|exact Hq|apply settled_always]. Qed.

Corollary whitespace_repetition_always pre post k :
  has_sig pre = true -> has_sig post = true ->
  opt_gtree_eqb (parse_tree (pre ++ [TT_Whitespace] ++ post))
                (parse_tree (pre ++ repeat TT_Whitespace (S k) ++ post)) = true.
Proof. intros Hp Hq. apply whitespace_repetition; [exact Hp|exact Hq|apply settled_always]. Qed.

(* ---- no hypothesis on where the gap is: trivia at either end of the program is trimmed ---- *)
Lemma trivia_is_trim t : is_trivia_tok t = true -> is_trim t = true.
Proof. destruct t; try discriminate; reflexivity. Qed.

Lemma trivia_no_sig d : forallb is_trivia_tok d = true -> has_sig d = false.
Proof.
  induction d as [|t r IH]; intros H; [reflexivity|].
  cbn [forallb] in H. apply andb_true_iff in H. destruct H as [Ht Hr].
  cbn [has_sig existsb]. rewrite (trivia_is_trim t Ht). cbn [negb orb]. apply IH, Hr.
Qed.

Lemma trivia_run_no_sig d : trivia_run d = true -> has_sig d = false.
Proof. destruct d as [|t r]; [discriminate|]. apply trivia_no_sig. Qed.

Lemma parse_tree_drop_front a s : has_sig a = false -> parse_tree (a ++ s) = parse_tree s.
Proof.
  intros Ha. pose proof (Trim.parse_tree_trim_ends a s [] Ha eq_refl) as H. rewrite app_nil_r in H. exact H.
Qed.

Lemma parse_tree_drop_back s b : has_sig b = false -> parse_tree (s ++ b) = parse_tree s.
Proof. intros Hb. exact (Trim.parse_tree_trim_ends [] s b eq_refl Hb). Qed.

Theorem trivia_runs_everywhere pre post d d' :
  trivia_run d = true -> trivia_run d' = true -> has_ws d = has_ws d' ->
  opt_gtree_eqb (parse_tree (pre ++ d ++ post)) (parse_tree (pre ++ d' ++ post)) = true.
Proof.
  intros Hd Hd' Hw.
  destruct (has_sig pre) eqn:Hp; [destruct (has_sig post) eqn:Hq|].
  - exact (trivia_runs_statement_holds pre post Hp Hq d d' Hd Hd' Hw).
  - rewrite (parse_tree_drop_back pre (d ++ post)), (parse_tree_drop_back pre (d' ++ post)).
    + apply Final.opt_gtree_eqb_refl.
    + rewrite Trim.has_sig_app, (trivia_run_no_sig d' Hd'), Hq. reflexivity.
    + rewrite Trim.has_sig_app, (trivia_run_no_sig d Hd), Hq. reflexivity.
  - rewrite !app_assoc.
    rewrite (parse_tree_drop_front (pre ++ d) post), (parse_tree_drop_front (pre ++ d') post).
    + apply Final.opt_gtree_eqb_refl.
    + rewrite Trim.has_sig_app, (trivia_run_no_sig d' Hd'), Hp. reflexivity.
    + rewrite Trim.has_sig_app, (trivia_run_no_sig d Hd), Hp. reflexivity.
Qed.

Theorem annotation_insert_everywhere pre post a t :
  is_annotation_tok a = true ->
  parse_tree (pre ++ post) = Some t -> parse_tree (pre ++ [a] ++ post) = Some t.
Proof.
  intros Ha. destruct (annot_sec a Ha) as (_ & Hta & _).
  assert (Hna : has_sig [a] = false) by (apply trivia_no_sig; cbn [forallb]; rewrite Hta; reflexivity).
  destruct (has_sig pre) eqn:Hp; [destruct (has_sig post) eqn:Hq|].
  - exact (annotation_insert_always pre post a t Hp Hq Ha).
  - rewrite (parse_tree_drop_back pre post Hq), (parse_tree_drop_back pre ([a] ++ post)); [auto|].
    rewrite Trim.has_sig_app, Hna, Hq. reflexivity.
  - rewrite (parse_tree_drop_front pre post Hp), app_assoc, (parse_tree_drop_front (pre ++ [a]) post); [auto|].
    rewrite Trim.has_sig_app, Hna, Hp. reflexivity.
Qed.

Corollary annotation_next_to_whitespace_everywhere pre post a :
  is_annotation_tok a = true ->
  opt_gtree_eqb (parse_tree (pre ++ [TT_Whitespace] ++ post))
                (parse_tree (pre ++ [TT_Whitespace; a; TT_Whitespace] ++ post)) = true /\
  opt_gtree_eqb (parse_tree (pre ++ [TT_Whitespace] ++ post))
                (parse_tree (pre ++ [a; TT_Whitespace] ++ post)) = true /\
  opt_gtree_eqb (parse_tree (pre ++ [TT_Whitespace] ++ post))
                (parse_tree (pre ++ [TT_Whitespace; a] ++ post)) = true.
Proof.
  intros Ha. destruct (annot_is_trivia a Ha) as [Ht Hw].
  repeat split; apply trivia_runs_everywhere; try reflexivity;
    cbn [trivia_run forallb has_ws existsb]; rewrite ?Ht, ?Hw; reflexivity.
Qed.

Corollary whitespace_repetition_everywhere pre post k :
  opt_gtree_eqb (parse_tree (pre ++ [TT_Whitespace] ++ post))
                (parse_tree (pre ++ repeat TT_Whitespace (S k) ++ post)) = true.
Proof.
  apply trivia_runs_everywhere; try reflexivity.
  cbn [repeat trivia_run forallb]. induction k as [|k IH]; [reflexivity|exact IH].
Qed.
