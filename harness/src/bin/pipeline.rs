//! pipeline: lex / parse / build on token-class sequences and source texts.
//!   T <tt> <tt> ...        token-type indices (declaration order of TokenType)
//!   S <cp>,<cp>,...        source text as hex code points ("-" = empty)
//! Output: <case>\t<result>\t<oracle>
//!   result:  L=<ok|ERR>  P=<ERRn | OK:root:[def.sec.parent.left.right.tok;...]>
//!            B=<ERRn|PANIC|OK:entry:I[..]:J[..]:M[..]>  BB=<class of the build into BasicGarnishData>
//!   oracle:  toks=<tt idx list seen by parse> (for S cases: what the real lexer produced)
use garnish_lang_compiler::build::build;
use garnish_lang_compiler::lex::{lex, LexerToken, TokenType};
use garnish_lang_compiler::parse::{parse, ParseNode};
use garnish_lang_simple_data::{BasicGarnishData, NoOpCompanion, SimpleGarnishData};
use garnish_lang_traits::{GarnishData, GarnishDataType, Instruction};
use garnish_verif_harness::gen_tables::TOKEN_TYPES;
use garnish_verif_harness::*;

fn tt_index(t: TokenType) -> usize {
    TOKEN_TYPES.iter().position(|x| *x == t).expect("token type in table")
}

fn repr_text(t: TokenType) -> &'static str {
    match t {
        TokenType::Number => "5",
        TokenType::Identifier => "a",
        TokenType::CharList => "\"s\"",
        TokenType::ByteList => "'b'",
        TokenType::Symbol => ":s",
        TokenType::Whitespace => " ",
        TokenType::Subexpression => "\n\n",
        TokenType::PrefixIdentifier => "`f",
        TokenType::SuffixIdentifier => "f`",
        TokenType::InfixIdentifier => "`f`",
        TokenType::Annotation => "@a",
        TokenType::LineAnnotation => "@@ c",
        _ => "op",
    }
}

fn opt(o: Option<usize>) -> String {
    match o {
        None => "-".to_string(),
        Some(v) => v.to_string(),
    }
}

fn parse_class(msg: &str) -> u32 {
    if msg.starts_with("Syntax Error: A ") {
        1
    } else if msg.starts_with("Syntax Error: Unmatched grouping") {
        2
    } else if msg.starts_with("Syntax Error: Unclosed grouping") {
        3
    } else if msg.starts_with("Implementation Error") {
        4
    } else if msg.starts_with("Syntax Error: Expected") {
        5
    } else if msg.starts_with("Syntax Error: Missing operand") {
        6
    } else if msg.starts_with("Syntax Error: Malformed expression") {
        7
    } else {
        9
    }
}

fn show_nodes(nodes: &Vec<ParseNode>) -> String {
    nodes
        .iter()
        .map(|n| {
            let tok = n.get_lex_token();
            let t = if tok.get_line() == 0 { "e".to_string() } else { tok.get_column().to_string() };
            format!(
                "{}.{}.{}.{}.{}.{}",
                n.get_definition() as usize,
                n.get_secondary_definition() as usize,
                opt(n.get_parent()),
                opt(n.get_left()),
                opt(n.get_right()),
                t
            )
        })
        .collect::<Vec<_>>()
        .join(";")
}

fn show_build<D: GarnishData<Size = usize>>(data: &D, entry: usize, meta: Vec<Option<usize>>) -> String {
    let mut ins = vec![];
    let n = data.get_instruction_len();
    for i in 0..n {
        let (instr, d) = data.get_instruction(i).expect("instruction");
        let o = match (instr, d) {
            (_, None) => "-".to_string(),
            (Instruction::Put, Some(a)) => match data.get_data_type(a) {
                Ok(GarnishDataType::Expression) => match data.get_expression(a) {
                    Ok(j) => format!("x{}", j),
                    Err(_) => "x?".to_string(),
                },
                Ok(_) => "d".to_string(),
                Err(_) => "d?".to_string(),
            },
            (Instruction::Resolve, Some(_)) => "d".to_string(),
            (_, Some(k)) => format!("n{}", k),
        };
        ins.push(format!("{}{}", instr as usize, o));
    }
    let mut js = vec![];
    for j in 0..data.get_jump_table_len() {
        js.push(opt(data.get_from_jump_table(j)));
    }
    let ms: Vec<String> = meta.iter().map(|m| opt(*m)).collect();
    format!("OK:{}:I[{}]:J[{}]:M[{}]", entry, ins.join(","), js.join(","), ms.join(","))
}

fn run_tokens(tokens: &Vec<LexerToken>) -> String {
    let pr = catch(|| parse(tokens));
    let (p_str, parsed) = match pr {
        Err(_) => ("PANIC".to_string(), None),
        Ok(Err(e)) => (format!("ERR{}", parse_class(e.get_message())), None),
        Ok(Ok(r)) => (format!("OK:{}:[{}]", r.get_root(), show_nodes(r.get_nodes())), Some(r)),
    };
    let (b_str, bb_str) = match parsed {
        None => ("-".to_string(), "-".to_string()),
        Some(r) => {
            let root = r.get_root();
            let nodes = r.get_nodes_owned();
            let n2 = nodes.clone();
            let b = catch(move || {
                let mut data = SimpleGarnishData::new();
                match build(root, nodes, &mut data) {
                    Err(e) => format!("ERR{}", if e.get_message().is_empty() { 11 } else { 10 }),
                    Ok(bd) => {
                        let meta: Vec<Option<usize>> = bd.instruction_metadata().iter().map(|m| m.get_parse_node_index()).collect();
                        show_build(&data, *bd.jump_index(), meta)
                    }
                }
            })
            .unwrap_or_else(|_| "PANIC".to_string());
            let bb = catch(move || {
                let mut data: BasicGarnishData<(), NoOpCompanion> = BasicGarnishData::new(NoOpCompanion::new()).expect("basic");
                match build(root, n2, &mut data) {
                    Err(e) => format!("ERR{}", if e.get_message().is_empty() { 11 } else { 10 }),
                    Ok(bd) => {
                        let meta: Vec<Option<usize>> = bd.instruction_metadata().iter().map(|m| m.get_parse_node_index()).collect();
                        show_build(&data, *bd.jump_index(), meta)
                    }
                }
            })
            .unwrap_or_else(|_| "PANIC".to_string());
            (b, bb)
        }
    };
    format!("P={} B={} BB={}", p_str, b_str, if bb_str == b_str { "same".to_string() } else { bb_str })
}

fn main() {
    supervised(3000, |line| {
        let (kind, rest) = line.split_at(1);
        let rest = rest.trim_start();
        match kind {
            "T" => {
                let idx: Vec<usize> = rest.split(' ').filter(|x| !x.is_empty()).map(|x| x.parse().expect("idx")).collect();
                let tokens: Vec<LexerToken> = idx
                    .iter()
                    .enumerate()
                    .map(|(i, k)| LexerToken::new(repr_text(TOKEN_TYPES[*k]).to_string(), TOKEN_TYPES[*k], 1, i))
                    .collect();
                let r = run_tokens(&tokens);
                format!("{}\tL=ok {}\ttoks={}", line, r, idx.iter().map(|x| x.to_string()).collect::<Vec<_>>().join(","))
            }
            "S" => {
                let src = hex_to_string(rest);
                let started = std::time::Instant::now();
                match catch(|| lex(&src)) {
                    Err(_) => format!("{}\tL=PANIC\t-", line),
                    Ok(Err(_)) => format!("{}\tL=ERR\t-", line),
                    Ok(Ok(toks)) => {
                        let idx: Vec<usize> = toks.iter().map(|t| tt_index(t.get_token_type())).collect();
                        let tokens: Vec<LexerToken> = toks
                            .iter()
                            .enumerate()
                            .map(|(i, t)| LexerToken::new(t.get_text().clone(), t.get_token_type(), 1, i))
                            .collect();
                        let r = run_tokens(&tokens);
                        let us = started.elapsed().as_micros();
                        format!("{}\tL=ok {}\ttoks={};us={}", line, r, idx.iter().map(|x| x.to_string()).collect::<Vec<_>>().join(","), us)
                    }
                }
            }
            _ => format!("{}\tBADCASE\t-", line),
        }
    });
}
