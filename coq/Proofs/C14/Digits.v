(* Digit strings: the model's from_str_radix against the spec's positional
   value, and the canonical digits of a number. *)
From Coq Require Import ZArith NArith List Bool Lia.
From GV Require Import Base.Result Model.Num Model.Literals Spec.LitDenote Proofs.C14.StrLemmas.
Import ListNotations.
Local Open Scope N_scope.

Lemma to_digit_spec : forall R c,
  to_digit R c = match digit_value c with Some d => if d <? R then Some d else None | None => None end.
Proof. reflexivity. Qed.

Lemma is_digit_of_inv : forall R c, is_digit_of R c = true ->
  exists d, digit_value c = Some d /\ d < R.
Proof.
  intros R c H. unfold is_digit_of in H. destruct (digit_value c) as [d|]; [|discriminate].
  exists d. split; [reflexivity|]. apply N.ltb_lt. exact H.
Qed.

Lemma digit_value_range : forall c d, digit_value c = Some d ->
  (48 <= c <= 57) \/ (97 <= c <= 122) \/ (65 <= c <= 90).
Proof.
  intros c d H. unfold digit_value in H.
  destruct ((48 <=? c) && (c <=? 57)) eqn:E1.
  { apply andb_true_iff in E1 as [A B]. apply N.leb_le in A, B. lia. }
  destruct ((97 <=? c) && (c <=? 122)) eqn:E2.
  { apply andb_true_iff in E2 as [A B]. apply N.leb_le in A, B. lia. }
  destruct ((65 <=? c) && (c <=? 90)) eqn:E3.
  { apply andb_true_iff in E3 as [A B]. apply N.leb_le in A, B. lia. }
  discriminate.
Qed.

Lemma is_digit_not : forall R c x, is_digit_of R c = true ->
  x < 48 \/ (57 < x < 65) \/ (90 < x < 97) \/ 122 < x -> (c =? x) = false.
Proof.
  intros R c x H Hx. destruct (is_digit_of_inv R c H) as [d [Hd _]].
  pose proof (digit_value_range c d Hd). apply N.eqb_neq. lia.
Qed.

Lemma digits_no_us : forall R ds, forallb (is_digit_of R) ds = true ->
  forallb (fun c => negb (c =? 95)) ds = true.
Proof.
  intros R ds. induction ds as [|c ds IH]; intros H; [reflexivity|].
  cbn [forallb] in *. apply andb_true_iff in H as [Hc Hs].
  rewrite (is_digit_not R c 95 Hc) by lia. cbn [negb andb]. apply IH, Hs.
Qed.

Lemma digits_acc_valid : forall R ds acc, forallb (is_digit_of R) ds = true ->
  digits_acc R ds acc = Some (fold_left (radix_step R) ds acc).
Proof.
  intros R ds. induction ds as [|c ds IH]; intros acc H; [reflexivity|].
  cbn [forallb] in H. apply andb_true_iff in H as [Hc Hs].
  destruct (is_digit_of_inv R c Hc) as [d [Hd Hlt]].
  cbn [digits_acc fold_left]. rewrite to_digit_spec, Hd.
  apply N.ltb_lt in Hlt. rewrite Hlt. rewrite (IH _ Hs).
  replace (radix_step R acc c) with (acc * R + d) by (unfold radix_step; rewrite Hd; reflexivity). reflexivity.
Qed.

Lemma valid_digits_inv : forall R ds, valid_digits R ds = true ->
  exists c t, ds = c :: t /\ is_digit_of R c = true /\ forallb (is_digit_of R) ds = true.
Proof.
  intros R ds H. destruct ds as [|c t]; [discriminate|]. exists c, t. split; [reflexivity|].
  unfold valid_digits in H. split; [|exact H]. cbn [forallb] in H. apply andb_true_iff in H. tauto.
Qed.

(* i32::from_str_radix on a valid digit string *)
Lemma from_str_radix_valid : forall R ds, valid_digits R ds = true ->
  radix_value R ds <= i32_max_N ->
  i32_from_str_radix ds R = Some (Z.of_N (radix_value R ds)).
Proof.
  intros R ds Hv Hle. destruct (valid_digits_inv R ds Hv) as [c [t [-> [Hc Hall]]]].
  unfold i32_from_str_radix.
  rewrite (is_digit_not R c ch_plus Hc) by (unfold ch_plus; lia).
  rewrite (is_digit_not R c ch_minus Hc) by (unfold ch_minus; lia). cbn [orb].
  rewrite (digits_acc_valid R (c :: t) 0 Hall). fold (radix_value R (c :: t)).
  replace (in_i32 (Z.of_N (radix_value R (c :: t)))) with true; [reflexivity|].
  symmetry. unfold in_i32, i32_min, i32_max, i32_max_N in *. apply andb_true_iff. split; apply Z.leb_le; lia.
Qed.

Lemma from_str_radix_overflow : forall R ds, valid_digits R ds = true ->
  i32_max_N < radix_value R ds ->
  i32_from_str_radix ds R = None.
Proof.
  intros R ds Hv Hgt. destruct (valid_digits_inv R ds Hv) as [c [t [-> [Hc Hall]]]].
  unfold i32_from_str_radix.
  rewrite (is_digit_not R c ch_plus Hc) by (unfold ch_plus; lia).
  rewrite (is_digit_not R c ch_minus Hc) by (unfold ch_minus; lia). cbn [orb].
  rewrite (digits_acc_valid R (c :: t) 0 Hall). fold (radix_value R (c :: t)).
  replace (in_i32 (Z.of_N (radix_value R (c :: t)))) with false; [reflexivity|].
  symmetry. unfold in_i32, i32_min, i32_max, i32_max_N in *. apply andb_false_iff. right. apply Z.leb_gt. lia.
Qed.

(* ---- canonical digits ---- *)
Lemma digit_value_char : forall d, d < 36 -> digit_value (digit_char d) = Some d.
Proof.
  intros d H. unfold digit_char, digit_value. destruct (d <? 10) eqn:E.
  - apply N.ltb_lt in E.
    replace ((48 <=? 48 + d) && (48 + d <=? 57)) with true
      by (symmetry; apply andb_true_iff; split; apply N.leb_le; lia).
    f_equal. lia.
  - apply N.ltb_ge in E.
    replace ((48 <=? 87 + d) && (87 + d <=? 57)) with false
      by (symmetry; apply andb_false_iff; right; apply N.leb_gt; lia).
    replace ((97 <=? 87 + d) && (87 + d <=? 122)) with true
      by (symmetry; apply andb_true_iff; split; apply N.leb_le; lia).
    f_equal. lia.
Qed.

Lemma digit_char_is_digit : forall R d, d < R -> R <= 36 -> is_digit_of R (digit_char d) = true.
Proof.
  intros R d H HR. unfold is_digit_of. rewrite digit_value_char by lia. apply N.ltb_lt. exact H.
Qed.

Lemma digit_char_nonzero : forall d, 0 < d -> d < 36 -> (digit_char d =? 48) = false.
Proof.
  intros d H0 H. apply N.eqb_neq. unfold digit_char. destruct (d <? 10); lia.
Qed.

Lemma to_digits_shape : forall f R n acc,
  to_digits_fuel f R n acc = to_digits_fuel f R n [] ++ acc.
Proof.
  induction f as [|f IH]; intros R n acc; [reflexivity|].
  cbn [to_digits_fuel]. destruct (n / R =? 0); [reflexivity|].
  rewrite IH. rewrite (IH R (n / R) [digit_char (n mod R)]). rewrite <- app_assoc. reflexivity.
Qed.

Lemma to_digits_step : forall f R n,
  to_digits_fuel (S f) R n [] =
  if n / R =? 0 then [digit_char (n mod R)]
  else to_digits_fuel f R (n / R) [] ++ [digit_char (n mod R)].
Proof.
  intros f R n. cbn [to_digits_fuel]. destruct (n / R =? 0); [reflexivity|]. apply to_digits_shape.
Qed.

Lemma radix_value_snoc : forall R l c,
  radix_value R (l ++ [c]) = radix_step R (radix_value R l) c.
Proof. intros R l c. unfold radix_value. rewrite fold_left_app. reflexivity. Qed.

Lemma div_small : forall n R, 2 <= R -> n / R < n \/ n = 0.
Proof.
  intros n R HR. destruct (N.eq_dec n 0) as [->|Hn]; [right; reflexivity|left].
  apply N.div_lt; lia.
Qed.

Lemma div_half : forall n R f, 2 <= R -> n < 2 ^ N.of_nat (S f) -> n / R < 2 ^ N.of_nat f.
Proof.
  intros n R f HR Hn.
  assert (H2 : n / R <= n / 2) by (apply N.div_le_compat_l; lia).
  assert (H3 : n / 2 < 2 ^ N.of_nat f).
  { apply N.div_lt_upper_bound; [lia|]. rewrite Nat2N.inj_succ, N.pow_succ_r' in Hn. exact Hn. }
  lia.
Qed.

Lemma to_digits_value : forall f R n, 2 <= R -> R <= 36 -> n < 2 ^ N.of_nat f ->
  radix_value R (to_digits_fuel f R n []) = n.
Proof.
  induction f as [|f IH]; intros R n HR HR' Hn.
  - cbn in Hn. assert (n = 0) by lia. subst. reflexivity.
  - rewrite to_digits_step. destruct (n / R =? 0) eqn:E.
    + apply N.eqb_eq in E. assert (Hlt : n < R) by (apply N.div_small_iff in E; lia).
      unfold radix_value. cbn [fold_left]. unfold radix_step.
      rewrite N.mod_small by exact Hlt. rewrite digit_value_char by lia. lia.
    + rewrite radix_value_snoc. rewrite (IH R (n / R) HR HR' (div_half n R f HR Hn)).
      unfold radix_step. rewrite digit_value_char.
      * rewrite N.mul_comm. symmetry. apply N.div_mod. lia.
      * assert (n mod R < R) by (apply N.mod_lt; lia). lia.
Qed.

Lemma to_digits_valid : forall f R n, 2 <= R -> R <= 36 ->
  forallb (is_digit_of R) (to_digits_fuel f R n []) = true.
Proof.
  induction f as [|f IH]; intros R n HR HR'; [reflexivity|].
  assert (Hm : n mod R < R) by (apply N.mod_lt; lia).
  rewrite to_digits_step. destruct (n / R =? 0).
  - cbn [forallb]. rewrite digit_char_is_digit by assumption. reflexivity.
  - rewrite forallb_app. rewrite IH by assumption. cbn [forallb].
    rewrite digit_char_is_digit by assumption. reflexivity.
Qed.

Lemma to_digits_nonempty : forall f R n, to_digits_fuel (S f) R n [] <> [].
Proof.
  intros f R n. rewrite to_digits_step. destruct (n / R =? 0); [discriminate|].
  intros H. apply app_eq_nil in H as [_ H]. discriminate.
Qed.

(* the leading digit of a positive number is not zero *)
Lemma to_digits_leading : forall f R n, 2 <= R -> R <= 36 -> 0 < n -> n < 2 ^ N.of_nat f ->
  exists c t, to_digits_fuel f R n [] = c :: t /\ (c =? 48) = false.
Proof.
  induction f as [|f IH]; intros R n HR HR' H0 Hn.
  - cbn in Hn. lia.
  - rewrite to_digits_step. destruct (n / R =? 0) eqn:E.
    + apply N.eqb_eq in E. assert (Hlt : n < R) by (apply N.div_small_iff in E; lia).
      exists (digit_char (n mod R)), []. split; [reflexivity|].
      rewrite N.mod_small by exact Hlt. apply digit_char_nonzero; lia.
    + apply N.eqb_neq in E.
      destruct (IH R (n / R) HR HR') as [c [t [Heq Hc]]]; [apply N.neq_0_lt_0; exact E | apply div_half; assumption |].
      rewrite Heq. exists c, (t ++ [digit_char (n mod R)]). split; [reflexivity|exact Hc].
Qed.

Lemma fuel_enough : forall n, n < 2 ^ N.of_nat (S (N.to_nat (N.size n))).
Proof.
  intros n. rewrite Nat2N.inj_succ, N2Nat.id, N.pow_succ_r'.
  pose proof (N.size_gt n). lia.
Qed.

Lemma digits_of_value : forall R n, 2 <= R -> R <= 36 -> radix_value R (digits_of R n) = n.
Proof. intros R n HR HR'. unfold digits_of. apply to_digits_value; try assumption. apply fuel_enough. Qed.

Lemma digits_of_valid : forall R n, 2 <= R -> R <= 36 -> valid_digits R (digits_of R n) = true.
Proof.
  intros R n HR HR'. unfold valid_digits, digits_of.
  pose proof (to_digits_nonempty (N.to_nat (N.size n)) R n) as Hne.
  destruct (to_digits_fuel (S (N.to_nat (N.size n))) R n []) as [|c t] eqn:E; [congruence|].
  rewrite <- E. apply to_digits_valid; assumption.
Qed.

Lemma digits_of_leading : forall R n, 2 <= R -> R <= 36 -> 0 < n ->
  exists c t, digits_of R n = c :: t /\ (c =? 48) = false.
Proof. intros R n HR HR' H0. unfold digits_of. apply to_digits_leading; try assumption. apply fuel_enough. Qed.

Lemma digits_of_strip : forall R n, 2 <= R -> R <= 36 -> strip_seps (digits_of R n) = digits_of R n.
Proof.
  intros R n HR HR'. unfold strip_seps. apply filter_id.
  apply (digits_no_us R). pose proof (digits_of_valid R n HR HR') as H.
  destruct (valid_digits_inv _ _ H) as [c [t [_ [_ Hall]]]]. exact Hall.
Qed.
