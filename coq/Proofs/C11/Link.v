(* `==` as C12's model states it on its five comparable kinds is struct_eq. *)
From Coq Require Import ZArith NArith List Bool.
From GV Require Import Model.Num Model.Value Model.Compare Spec.StructEq.
Import ListNotations.

Lemma items_equal_list_eqb l : forall r, items_equal l r = list_eqb N.eqb l r.
Proof.
  induction l as [|x l IH]; intros [|y r]; try reflexivity.
  cbn [items_equal list_eqb]. rewrite IH. destruct (x =? y)%N; reflexivity.
Qed.

Theorem prim_equal_struct_eq l r b : prim_equal l r = Some b -> struct_eq l r = b.
Proof.
  destruct l, r; cbn [prim_equal]; try discriminate; intros H; injection H as <-;
    unfold struct_eq, canon; cbn [canon2 fst ceq list_eqb]; rewrite ?andb_true_r; try reflexivity;
    symmetry; apply items_equal_list_eqb.
Qed.
