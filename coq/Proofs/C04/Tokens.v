(* C04: every token of an accepted program is accounted for in the node array, exactly
   once and in order - unbounded, by an invariant of the parser's main loop: a step never
   changes the (definition, class, token) label of an existing node and appends at most
   an implicit list node and the token's own node. *)
From Coq Require Import List Arith Bool NArith Lia.
From GV Require Import Base.Result Gen.TokenTypes Gen.Defs Model.Parser Spec.TokenAccount.
Import ListNotations.

Definition ens {A} (P : A -> Prop) (r : res A) : Prop :=
  match r with Ok a => P a | _ => True end.

Lemma ens_bind {A B} (Q : A -> Prop) (P : B -> Prop) (r : res A) (f : A -> res B) :
  ens Q r -> (forall a, Q a -> ens P (f a)) -> ens P (bind r f).
Proof. destruct r; simpl; auto. Qed.

Lemma ens_true {A} (r : res A) : ens (fun _ => True) r.
Proof. destruct r; exact I. Qed.

Lemma upd_labels (l : list pnode) k f l' :
  (forall n, label_of (f n) = label_of n) -> upd l k f = Some l' -> labels l' = labels l.
Proof.
  intros Hf. revert k l'. induction l as [|x r IH]; intros k l' H; [discriminate|].
  destruct k as [|k]; simpl in H.
  - inversion H; subst. unfold labels. simpl. rewrite Hf. reflexivity.
  - destruct (upd r k f) as [r'|] eqn:E; [|discriminate]. inversion H; subst.
    unfold labels in *. simpl. f_equal. eapply IH. exact E.
Qed.

Lemma set_parent_label p n : label_of (set_parent p n) = label_of n.
Proof. reflexivity. Qed.
Lemma set_right_label p n : label_of (set_right p n) = label_of n.
Proof. reflexivity. Qed.

Lemma parse_token_labels id d lf nodes ug rtl :
  ens (fun r => labels (fst (fst r)) = labels nodes) (parse_token id d lf nodes ug rtl).
Proof.
  unfold parse_token.
  eapply ens_bind; [apply ens_true|]. intros my _.
  eapply ens_bind; [apply ens_true|]. intros [parent tl] _.
  set (tl' := if opt_nat_eqb parent tl then None else tl). clearbody tl'.
  eapply ens_bind with (Q := fun ns1 => labels ns1 = labels nodes).
  - destruct tl' as [ix|]; [|reflexivity].
    destruct (upd nodes ix (set_parent (Some id))) as [l|] eqn:E; [|exact I].
    simpl. eapply upd_labels; [|exact E]. apply set_parent_label.
  - intros ns1 H1. destruct parent as [ix|]; [|exact H1].
    destruct (nth_error ns1 ix) as [pn|]; [|exact I].
    destruct (upd ns1 ix (set_right (Some id))) as [ns2|] eqn:E2; [|exact I].
    assert (H2 : labels ns2 = labels nodes).
    { rewrite <- H1. eapply upd_labels; [|exact E2]. apply set_right_label. }
    destruct (n_right pn) as [r|]; [|exact H2].
    destruct (upd ns2 r (set_parent (Some id))) as [ns3|] eqn:E3; [|exact H2].
    simpl. rewrite <- H2. eapply upd_labels; [|exact E3]. apply set_parent_label.
Qed.

Lemma make_list_node_labels cid oid st ug :
  ens (fun ns => labels ns = labels (nodes st) ++ [(D_List, S_StartGrouping, last_token st)])
      (make_list_node cid oid st ug).
Proof.
  unfold make_list_node.
  eapply ens_bind; [apply parse_token_labels|]. intros [[ns1 p] tl] H. simpl in H.
  simpl. unfold labels in *. rewrite map_app, H. reflexivity.
Qed.

(* what one step does to the labels *)
Definition droppable (sec : secondary) : bool :=
  match sec with S_Whitespace | S_EndGrouping | S_EndSideEffect | S_Subexpression => true | _ => false end.

Definition step_post (st0 : pstate) (i : nat) (tok : token_type) (st' : pstate) : Prop :=
  last_token st' = Some i /\
  exists pre post,
    labels (nodes st') = labels (nodes st0) ++ pre ++ post /\
    (pre = [] \/ pre = [(D_List, S_StartGrouping, last_token st0)]) /\
    ((post = [] /\ (fst (get_definition tok) = D_Drop \/ droppable (snd (get_definition tok)) = true)) \/
     (exists l, post = [l] /\ label_matches tok i l /\ fst (get_definition tok) <> D_Drop)).

(* the state handed to the per-token match: nodes extended by at most the implicit list node,
   and an info whose definition is the token's or Drop *)
Definition mid_post (st0 : pstate) (d0 : definition) (sec : secondary) (r : pstate * info) : Prop :=
  let '(st1, (d, _, _, _)) := r in
  (exists pre, labels (nodes st1) = labels (nodes st0) ++ pre /\
               (pre = [] \/ pre = [(D_List, S_StartGrouping, last_token st0)])) /\
  (d = d0 \/ (d = D_Drop /\ droppable sec = true)).

Lemma mid_same st0 d0 sec st1 (d : definition) (p l r : option nat) :
  labels (nodes st1) = labels (nodes st0) -> (d = d0 \/ (d = D_Drop /\ droppable sec = true)) ->
  mid_post st0 d0 sec (st1, (d, p, l, r)).
Proof. intros H Hd. split; [exists []; rewrite app_nil_r; auto | exact Hd]. Qed.

Lemma mid_list st0 d0 sec st1 (d : definition) (p l r : option nat) :
  labels (nodes st1) = labels (nodes st0) ++ [(D_List, S_StartGrouping, last_token st0)] ->
  (d = d0 \/ (d = D_Drop /\ droppable sec = true)) ->
  mid_post st0 d0 sec (st1, (d, p, l, r)).
Proof. intros H Hd. split; [eexists; split; [exact H | auto] | exact Hd]. Qed.

Ltac ens_step :=
  match goal with
  | |- ens _ (bind (parse_token _ _ _ _ _ _) _) =>
      eapply ens_bind; [apply parse_token_labels | intros [[? ?] ?] ?]
  | |- ens _ (bind (make_list_node _ _ _ _) _) =>
      eapply ens_bind; [apply make_list_node_labels | intros ? ?]
  | |- ens _ (bind (space_list_check _ _) _) =>
      eapply ens_bind; [apply ens_true | intros ? _]
  | |- ens _ (match ?x with _ => _ end) => destruct x eqn:?
  | |- ens _ (if ?x then _ else _) => destruct x
  | |- ens _ (let '(_, _) := ?x in _) => destruct x
  | |- ens _ (Err _) => exact I
  | |- ens _ impl_err => exact I
  end.

Ltac ens_lab := cbn [nodes last_token fst snd] in *; congruence.
Ltac ens_def := first [left; reflexivity | right; split; reflexivity].
Ltac ens_leaf :=
  cbn [ens]; first [ apply mid_same; [ens_lab | ens_def] | apply mid_list; [ens_lab | ens_def] ].

Lemma definition_eqb_true a b : definition_eqb a b = true -> a = b.
Proof. destruct a, b; intros H; try reflexivity; vm_compute in H; discriminate. Qed.
Lemma definition_eqb_refl a : definition_eqb a a = true.
Proof. unfold definition_eqb. apply N.eqb_refl. Qed.

Lemma upd_const_labels (l : list pnode) k x y l' :
  nth_error l k = Some x -> label_of y = label_of x -> upd l k (fun _ => y) = Some l' -> labels l' = labels l.
Proof.
  revert k l'. induction l as [|a r IH]; intros k l' Hn Hy H; [discriminate|].
  destruct k as [|k]; simpl in H, Hn.
  - inversion H; inversion Hn; subst. unfold labels. simpl. rewrite Hy. reflexivity.
  - destruct (upd r k (fun _ => y)) as [r'|] eqn:E; [|discriminate]. inversion H; subst.
    unfold labels in *. simpl. f_equal. eapply IH; eassumption.
Qed.

(* blocks that only re-link nodes: every [upd] keeps the labels *)
Ltac upd_hyps :=
  repeat match goal with
  | E : upd ?a ?k ?f = Some ?b |- _ =>
      first [ apply upd_labels in E; [|intro; reflexivity]
            | eapply upd_const_labels in E;
              [| eassumption | match goal with |- label_of (if ?c then _ else _) = _ => destruct c; reflexivity end ] ]
  end.
Ltac relink :=
  repeat match goal with
  | |- ens _ (match upd ?l ?k ?f with _ => _ end) => destruct (upd l k f) eqn:?
  | |- ens _ (match ?x with _ => _ end) => destruct x eqn:?
  | |- ens _ (if ?x then _ else _) => destruct x
  | |- ens _ impl_err => exact I
  | |- ens _ (Err _) => exact I
  end;
  cbn [ens fst]; upd_hyps; congruence.

Lemma step_labels ntoks i tok st0 : ens (step_post st0 i tok) (step ntoks i tok st0).
Proof.
  unfold step.
  eapply ens_bind; [apply ens_true|]. intros ug _.
  eapply ens_bind; [apply ens_true|]. intros [[ll psec] psig] _.
  cbv zeta.
  cbn [nodes next_parent last_left check_for_list last_token next_last_left group_stack current_group prev_sec prev_sig separated se_prev].
  destruct (get_definition tok) as [definition sec] eqn:Hdef.
  match goal with |- ens _ (if ?c then _ else _) => destruct c; [exact I|] end.
  match goal with |- ens _ (if ?c then _ else _) => destruct c; [exact I|] end.
  match goal with |- ens _ (match ?x with _ => _ end) => destruct x as [[new_sig new_sep] new_se] end.
  eapply ens_bind with (Q := mid_post st0 definition sec).
  - destruct sec.
    all: try (repeat ens_step; ens_leaf).
    + (* S_EndSideEffect *)
      repeat ens_step.
      eapply ens_bind with (Q := fun ns => labels ns = labels (nodes st0)); [relink|].
      intros ns Hns. ens_leaf.
    + (* S_EndGrouping *)
      repeat ens_step.
      eapply ens_bind with (Q := fun ns => labels ns = labels (nodes st0)); [relink|].
      intros ns Hns. ens_leaf.
    + (* S_Subexpression *)
      eapply ens_bind; [apply ens_true|]. intros [in_group group_index] _.
      destruct (definition_eqb in_group D_Group); [repeat ens_step; ens_leaf|].
      eapply ens_bind with (Q := fun dr => labels (fst dr) = labels (nodes st0)); [relink|].
      intros [ns1 drop] Hns. destruct drop; [ens_leaf|].
      repeat ens_step. ens_leaf.
  - intros [st1 [[[d p] l] r]] [[pre [Hl Hpre]] Hd].
    cbv beta iota zeta. cbn [ens]. unfold step_post. cbn [last_token nodes].
    split; [reflexivity|]. rewrite Hdef. cbn [fst snd].
    destruct (definition_eqb d D_Drop) eqn:Ed.
    + exists pre, []. rewrite app_nil_r. split; [exact Hl|]. split; [exact Hpre|].
      left. split; [reflexivity|]. apply definition_eqb_true in Ed.
      destruct Hd as [Hd|[_ Hd]]; [left; congruence | right; exact Hd].
    + assert (Hdd : d = definition).
      { destruct Hd as [Hd|[Hd _]]; [exact Hd|]. subst d. rewrite definition_eqb_refl in Ed. discriminate. }
      subst d.
      match goal with |- context [mkNode ?dd sec p l r (Some i)] => set (d' := dd) end.
      exists pre, [(d', sec, Some i)]. split.
      { unfold labels in *. rewrite map_app, Hl, app_assoc. reflexivity. }
      split; [exact Hpre|]. right. eexists. split; [reflexivity|]. split.
      * unfold label_matches. rewrite Hdef. cbn [fst snd]. split; [reflexivity|]. split; [reflexivity|].
        subst d'. destruct (definition_eqb definition D_Identifier) eqn:Ei; [|left; reflexivity].
        apply definition_eqb_true in Ei.
        destruct p as [pp|]; [|left; reflexivity].
        destruct (nth_error (nodes st1) pp) as [pn|]; [|left; reflexivity].
        destruct (definition_eqb (n_def pn) D_Access); [right; split; [reflexivity|exact Ei] | left; reflexivity].
      * intros Hc. subst definition. rewrite definition_eqb_refl in Ed. discriminate.
Qed.


(* ---- facts about the token table (finite case analysis) ---- *)
Lemma droppable_table t :
  droppable (snd (get_definition t)) = true -> never_a_node t = true \/ maybe_dropped t = true.
Proof. destruct t; vm_compute; intros H; try discriminate; auto. Qed.

Lemma no_token_is_list t : definition_eqb (fst (get_definition t)) D_List = false.
Proof. destruct t; reflexivity. Qed.

Lemma never_a_node_spec t : never_a_node t = true <-> fst (get_definition t) = D_Drop.
Proof.
  unfold never_a_node. split; [apply definition_eqb_true | intros H; rewrite H; apply definition_eqb_refl].
Qed.

(* ---- the main loop ---- *)
Lemma run_steps_labels ntoks toks : forall i st,
  ens (fun st' => exists added, labels (nodes st') = labels (nodes st) ++ added /\
                                accounted i toks (last_token st) added)
      (run_steps ntoks i toks st).
Proof.
  induction toks as [|t r IH]; intros i st; cbn [run_steps].
  - cbn [ens]. exists []. rewrite app_nil_r. split; reflexivity.
  - eapply ens_bind; [apply step_labels|]. intros st1 [Hlt [pre [post [Hl [Hpre Hpost]]]]].
    specialize (IH (S i) st1). destruct (run_steps ntoks (S i) r st1) as [st2| | |]; try exact I.
    cbn [ens] in *. destruct IH as [rest [Hl2 Hacc]].
    exists (pre ++ post ++ rest). split.
    + rewrite Hl2, Hl. rewrite <- !app_assoc. reflexivity.
    + cbn [accounted]. exists pre, post, rest. split; [reflexivity|]. split; [exact Hpre|].
      rewrite Hlt in Hacc. split; [|exact Hacc].
      destruct Hpost as [[Hp Hd]|[l [Hp [Hm Hn]]]].
      * left. split; [exact Hp|]. destruct Hd as [Hd|Hd].
        -- left. apply never_a_node_spec. exact Hd.
        -- apply droppable_table. exact Hd.
      * right. exists l. split; [exact Hp|]. split; [exact Hm|].
        destruct (never_a_node t) eqn:E; [|reflexivity]. apply never_a_node_spec in E. contradiction.
Qed.

(* ---- consequences of [accounted] ---- *)
Lemma label_matches_real t k l : label_matches t k l -> is_implicit l = false.
Proof.
  intros [_ [_ [H|[H _]]]]; unfold is_implicit; rewrite H; [apply no_token_is_list | reflexivity].
Qed.

Lemma real_toks_app a b : real_toks (a ++ b) = real_toks a ++ real_toks b.
Proof. unfold real_toks. apply flat_map_app. Qed.

Lemma accounted_bounds toks : forall i lt added, accounted i toks lt added ->
  forall k, In k (real_toks added) -> i <= k < i + length toks.
Proof.
  induction toks as [|t r IH]; intros i lt added H k Hk; cbn [accounted] in H.
  - subst. contradiction.
  - destruct H as [pre [post [rest [-> [Hpre [Hpost Hacc]]]]]].
    rewrite !real_toks_app in Hk. cbn [length]. apply in_app_or in Hk. destruct Hk as [Hk|Hk].
    + destruct Hpre as [->| ->]; [contradiction|]. cbn in Hk. contradiction.
    + apply in_app_or in Hk. destruct Hk as [Hk|Hk].
      * destruct Hpost as [[-> _]|[l [-> [Hm _]]]]; [contradiction|].
        pose proof (label_matches_real _ _ _ Hm) as Hr. destruct Hm as [Hs _].
        unfold real_toks in Hk. cbn [flat_map] in Hk. rewrite Hr, Hs in Hk. cbn in Hk.
        destruct Hk as [<-|[]]. lia.
      * specialize (IH _ _ _ Hacc k Hk). lia.
Qed.

Lemma accounted_increasing toks : forall i lt added, accounted i toks lt added -> increasing (real_toks added).
Proof.
  induction toks as [|t r IH]; intros i lt added H; cbn [accounted] in H.
  - subst. exact I.
  - destruct H as [pre [post [rest [-> [Hpre [Hpost Hacc]]]]]].
    rewrite !real_toks_app.
    assert (Hp : real_toks pre = []) by (destruct Hpre as [->| ->]; reflexivity). rewrite Hp. cbn [app].
    destruct Hpost as [[-> _]|[l [-> [Hm _]]]].
    + cbn. eapply IH; exact Hacc.
    + pose proof (label_matches_real _ _ _ Hm) as Hr. destruct Hm as [Hs _].
      unfold real_toks at 1. cbn [flat_map]. rewrite Hr, Hs. cbn [app]. split.
      * intros b Hb. pose proof (accounted_bounds _ _ _ _ Hacc b Hb). lia.
      * eapply IH; exact Hacc.
Qed.

Lemma accounted_sound toks : forall i lt added, accounted i toks lt added ->
  forall l, In l added -> is_implicit l = false ->
  exists k t, nth_error toks (k - i) = Some t /\ i <= k /\ label_matches t k l.
Proof.
  induction toks as [|t r IH]; intros i lt added H l Hl Hi; cbn [accounted] in H.
  - subst. contradiction.
  - destruct H as [pre [post [rest [-> [Hpre [Hpost Hacc]]]]]].
    apply in_app_or in Hl. destruct Hl as [Hl|Hl].
    + destruct Hpre as [->| ->]; [contradiction|]. destruct Hl as [<-|[]]. discriminate Hi.
    + apply in_app_or in Hl. destruct Hl as [Hl|Hl].
      * destruct Hpost as [[-> _]|[l0 [-> [Hm _]]]]; [contradiction|]. destruct Hl as [<-|[]].
        exists i, t. rewrite Nat.sub_diag. split; [reflexivity|]. split; [lia|exact Hm].
      * destruct (IH _ _ _ Hacc l Hl Hi) as [k [t' [Hn [Hk Hm]]]].
        exists k, t'. split; [|split; [lia|exact Hm]].
        replace (k - i) with (S (k - S i)) by lia. exact Hn.
Qed.

Lemma accounted_complete toks : forall i lt added, accounted i toks lt added ->
  forall j t, nth_error toks j = Some t -> never_a_node t = false -> maybe_dropped t = false ->
  exists l, In l added /\ label_matches t (i + j) l.
Proof.
  induction toks as [|t r IH]; intros i lt added H j t0 Hn Hnn Hmd; cbn [accounted] in H.
  - destruct j; discriminate.
  - destruct H as [pre [post [rest [-> [Hpre [Hpost Hacc]]]]]].
    destruct j as [|j]; cbn [nth_error] in Hn.
    + inversion Hn; subst t0. destruct Hpost as [[_ [Hd|Hd]]|[l [-> [Hm _]]]]; [congruence|congruence|].
      exists l. rewrite Nat.add_0_r. split; [|exact Hm]. apply in_or_app. right. apply in_or_app. left. left. reflexivity.
    + destruct (IH _ _ _ Hacc j t0 Hn Hnn Hmd) as [l [Hl Hm]].
      exists l. split; [apply in_or_app; right; apply in_or_app; right; exact Hl|].
      replace (i + S j) with (S i + j) by lia. exact Hm.
Qed.

(* ---- parse ---- *)
Lemma labels_map_right (ns : list pnode) (f : pnode -> pnode) :
  (forall n, label_of (f n) = label_of n) -> labels (map f ns) = labels ns.
Proof. intros Hf. unfold labels. rewrite map_map. apply map_ext. exact Hf. Qed.

Theorem parse_tokens_accounted toks root ns : parse toks = Ok (root, ns) ->
  accounted 0 (snd (trim_tokens toks)) None (labels ns).
Proof.
  unfold parse, parse_trimmed. set (tr := snd (trim_tokens toks)). intros H.
  destruct tr as [|t0 tr0] eqn:Etr.
  { inversion H; subst. reflexivity. }
  rewrite <- Etr in *. clear Etr t0 tr0.
  pose proof (run_steps_labels (length tr) tr 0 init_state) as Hrun.
  destruct (run_steps (length tr) 0 tr init_state) as [st| | |]; try discriminate.
  cbn [ens bind] in *. destruct Hrun as [added [Hl Hacc]]. cbn in Hl.
  destruct (forbidden _ _ _); [discriminate|].
  destruct (_ && _); [discriminate|].
  destruct (group_stack st); [|discriminate].
  match type of H with context [map ?f (nodes st)] => set (fx := f) in * end.
  assert (Hlab : labels (map fx (nodes st)) = added).
  { rewrite labels_map_right; [exact Hl|]. intros n. subst fx. cbn beta.
    destruct (n_right n) as [rr|]; [|reflexivity]. destruct (Nat.leb _ _); reflexivity. }
  destruct (map fx (nodes st)) as [|n0 rest] eqn:Em.
  { inversion H; subst. first [exact Hacc | rewrite Hlab; exact Hacc]. }
  destruct (find_root _ _ _ _ _) as [rt| | |]; try discriminate. cbn [bind] in H.
  destruct (validate_tree _ _) as [u| | |]; try discriminate. cbn [bind] in H.
  inversion H; subst. first [exact Hacc | rewrite Hlab; exact Hacc].
Qed.
