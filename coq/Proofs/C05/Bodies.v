(* Inductive part of C05, third half: the bodies.  Patching a placeholder when
   its body is emitted, the end instructions, the LIFO emission of the bodies a
   body registers, and the theorem: for every proper tree outside C05-K2 and
   every initial state, the compiled code is well-formed. *)
From Coq Require Import List Arith Bool NArith Lia.
From GV Require Import Base.Result Gen.TokenTypes Gen.Defs Gen.Instr Gen.Exec Model.Parser Model.BuilderWL Model.Compile
  Spec.WfCode Proofs.C05.InlBase Proofs.C05.Known Proofs.C05.Operands Proofs.C05.Jumps.
Import ListNotations.

Lemma upd_const_spec : forall A (l : list A) n (x : A) l',
  upd l n (fun _ => x) = Some l' ->
  n < length l /\ length l' = length l /\ nth_error l' n = Some x /\
  forall k, k <> n -> nth_error l' k = nth_error l k.
Proof.
  intros A l. induction l as [|y ys IH]; intros n x l' H; [discriminate|].
  destruct n as [|n]; cbn in H.
  - inversion H; subst. cbn. repeat split; try lia. intros k Hk. destruct k; [congruence | reflexivity].
  - destruct (upd ys n (fun _ => x)) as [l2|] eqn:E; [|discriminate]. inversion H; subst.
    destruct (IH n x l2 E) as [Hlt [Hlen [Hn Hk]]]. cbn. repeat split; try lia; auto.
    intros k Hne. destruct k; [reflexivity|]. cbn. apply Hk. lia.
Qed.

Section Bodies.
Variable init : binit.
Variable lit_ok : nat -> bool.
Notation ilo := (i_instr_len init).
Notation jlo := (i_jump_len init).
Notation IL := (il init).
Notation JL := (jl init).

Definition strict (s : cst) : Prop := forall k x, nth_error (cj s) k = Some x -> x < IL s.
Definition term_last (s : cst) : Prop := ilo < IL s -> term_at init s (IL s - 1).

Lemma patch_spec : forall s j x s', patch init s j x = Ok s' ->
  jlo <= j /\ j - jlo < length (cj s) /\ ci s' = ci s /\ cm s' = cm s /\ length (cj s') = length (cj s) /\
  nth_error (cj s') (j - jlo) = Some x /\ (forall k, k <> j - jlo -> nth_error (cj s') k = nth_error (cj s) k).
Proof.
  intros s j x s' H. unfold patch in H.
  destruct (Nat.ltb j jlo) eqn:E; [discriminate|]. apply Nat.ltb_ge in E.
  destruct (upd (cj s) (j - jlo) (fun _ => x)) as [l|] eqn:Eu; [|discriminate].
  inversion H; subst. cbn [ci cm cj].
  destruct (upd_const_spec _ _ _ _ _ Eu) as [Hlt [Hlen [Hn Hk]]]. repeat split; auto.
Qed.

Lemma iat_same : forall s s' a, ci s' = ci s -> iat init s' a = iat init s a.
Proof. intros s s' a H. unfold iat. rewrite H. reflexivity. Qed.
Lemma term_at_same : forall s s' a, ci s' = ci s -> term_at init s a -> term_at init s' a.
Proof. intros s s' a H [p [Hp Ht]]. exists p. rewrite (iat_same s s' a H). auto. Qed.

Lemma jinv_patch : forall H s j s1,
  jinv init (j :: H) s -> patch init s j (IL s) = Ok s1 -> jlo < j -> ilo < IL s -> jinv init H s1.
Proof.
  intros H s j s1 [Hn Hj] Hp Hjl Hil.
  destruct (patch_spec _ _ _ _ Hp) as [_ [Hlt [Hci [_ [Hlen [Hnew Hold]]]]]].
  assert (HIL : IL s1 = IL s) by (unfold il; rewrite Hci; reflexivity).
  split; [destruct (cj s1); [cbn in Hlen; destruct (cj s); [congruence | discriminate] | discriminate]|].
  intros k x Hk. destruct (Nat.eq_dec k (j - jlo)) as [Heq|Hne].
  - subst k. rewrite Hnew in Hk. inversion Hk; subst. right. left. rewrite HIL. split; lia.
  - rewrite (Hold k Hne) in Hk. destruct (Hj k x Hk) as [A|[A|[A [B C]]]]; auto.
    + right. left. rewrite HIL. exact A.
    + right. right. repeat split; auto. destruct C as [C|C]; [lia | exact C].
Qed.

Lemma jref_patch : forall s j s1,
  patch init s j (IL s) = Ok s1 -> term_last s -> ilo < IL s -> j < JL s -> jref_ok init s1 j.
Proof.
  intros s j s1 Hp Ht Hil Hj.
  destruct (patch_spec _ _ _ _ Hp) as [Hge [Hlt [Hci [_ [Hlen [Hnew _]]]]]].
  split; [unfold jl in *; rewrite Hlen; lia|]. intros x Hx. rewrite Hnew in Hx. inversion Hx; subst.
  right. right. split; [exact Hil|]. eapply term_at_same; [exact Hci | apply Ht; exact Hil].
Qed.

Lemma jref_ok_patch : forall s j s1 c,
  jref_ok init s c -> patch init s j (IL s) = Ok s1 -> term_last s -> ilo < IL s -> jref_ok init s1 c.
Proof.
  intros s j s1 c [Hrange Hx] Hp Ht Hil.
  destruct (patch_spec _ _ _ _ Hp) as [Hge [Hlt [Hci [_ [Hlen [Hnew Hold]]]]]].
  destruct (Nat.eq_dec c j) as [Heq|Hne].
  - subst c. eapply jref_patch; eauto. lia.
  - split; [unfold jl in *; rewrite Hlen; exact Hrange|]. intros x Hn.
    rewrite Hold in Hn by lia. destruct (Hx x Hn) as [A|[A|[A B]]]; auto.
    right. right. split; [exact A | eapply term_at_same; eauto].
Qed.

Lemma bsinv_patch : forall s j s1,
  bsinv init s -> patch init s j (IL s) = Ok s1 -> term_last s -> ilo < IL s -> bsinv init s1.
Proof.
  intros s j s1 [Hb H0] Hp Ht Hil.
  destruct (patch_spec _ _ _ _ Hp) as [_ [_ [Hci _]]].
  split.
  - intros k io j' Hk Hr. rewrite Hci in Hk. eapply jref_ok_patch; eauto.
  - eapply jref_ok_patch; eauto.
Qed.

Lemma cont_ok_same : forall s s' c, ci s' = ci s -> cont_ok init s c -> cont_ok init s' c.
Proof. intros s s' c H [Hc|[k Hk]]; [left; exact Hc | right; exists k; rewrite H; exact Hk]. Qed.

(* ---- the end instructions of a body ---- *)
Lemma is_term_end : is_terminator (I_EndExpression, ONone) = true. Proof. reflexivity. Qed.

Lemma last_instr_some : forall s li, last_instr init s = Some li -> ci s <> [] -> iat init s (IL s - 1) = Some li.
Proof.
  intros s li H Hne. unfold last_instr in H. unfold iat, il.
  destruct (rev (ci s)) as [|x xs] eqn:E.
  - exfalso. apply Hne. rewrite <- (rev_involutive (ci s)), E. reflexivity.
  - inversion H; subst.
    assert (Hc : ci s = rev xs ++ [li]) by (rewrite <- (rev_involutive (ci s)), E; reflexivity).
    rewrite Hc, app_length. cbn [length].
    destruct (Nat.ltb (ilo + (length (rev xs) + 1) - 1) ilo) eqn:El; [apply Nat.ltb_lt in El; lia|].
    replace (ilo + (length (rev xs) + 1) - 1 - ilo) with (length (rev xs)) by lia.
    rewrite nth_error_app2 by lia. rewrite Nat.sub_diag. reflexivity.
Qed.

Lemma iat_emit_last : forall s io m, iat init (emit s io m) (IL (emit s io m) - 1) = Some io.
Proof.
  intros s io m. rewrite il_emit. unfold iat, il, emit. cbn [ci].
  destruct (Nat.ltb (S (ilo + length (ci s)) - 1) ilo) eqn:El; [apply Nat.ltb_lt in El; lia|].
  replace (S (ilo + length (ci s)) - 1 - ilo) with (length (ci s)) by lia.
  rewrite nth_error_app2 by lia. rewrite Nat.sub_diag. reflexivity.
Qed.

Lemma term_last_emit : forall s io m, is_terminator io = true -> term_last (emit s io m).
Proof. intros s io m Ht _. exists io. split; [apply iat_emit_last | exact Ht]. Qed.

(* what finish does, case by case *)
Definition end_target (s : cst) : bool := existsb (Nat.eqb (IL s)) (cj s).

Lemma end_target_in : forall s, In (IL s) (cj s) -> end_target s = true.
Proof. intros s H. unfold end_target. apply existsb_exists. exists (IL s). split; [exact H | apply Nat.eqb_refl]. Qed.

Lemma finish_default : forall s,
  (finish init s default_end = s /\ last_instr init s = Some (I_EndExpression, ONone) /\ end_target s = false)
  \/ finish init s default_end = emit s (I_EndExpression, ONone) None.
Proof.
  intros s. unfold finish, default_end. cbn [fold_left]. fold (end_target s).
  destruct (last_instr init s) as [li|]; [|right; reflexivity].
  destruct (instr_eqb li (I_EndExpression, ONone)) eqn:E; cbn [andb fst]; [|right; reflexivity].
  destruct (end_target s) eqn:Et; cbn [negb andb]; [right; reflexivity|].
  left. split; [reflexivity|]. split; [|reflexivity]. f_equal. destruct li as [i o]. unfold instr_eqb in E. cbn [fst snd] in E.
  apply andb_true_iff in E. destruct E as [Ei Eo].
  destruct o; try discriminate. destruct i; try discriminate. reflexivity.
Qed.

Lemma finish_jump : forall s j, finish init s [(I_JumpTo, ONum j)] = emit s (I_JumpTo, ONum j) None.
Proof.
  intros s j. unfold finish. cbn [fold_left]. destruct (last_instr init s) as [li|]; [|reflexivity].
  cbn [fst]. rewrite andb_false_r. reflexivity.
Qed.

Lemma finish_tis_jump : forall s j,
  finish init s [(I_Tis, ONone); (I_JumpTo, ONum j)] = emit (emit s (I_Tis, ONone) None) (I_JumpTo, ONum j) None.
Proof.
  intros s j. unfold finish. cbn [fold_left]. destruct (last_instr init s) as [li|]; [|reflexivity].
  cbn [fst]. rewrite !andb_false_r. reflexivity.
Qed.


(* finish on the three shapes of end instructions *)
Ltac splits := repeat match goal with |- _ /\ _ => split end.

Lemma finish_spec : forall s ends H,
  ends_shape ends -> jinv init H s -> bsinv init s ->
  let s3 := finish init s ends in
  ext s s3 /\ cj s3 = cj s /\ jinv init H s3 /\ bsinv init s3 /\ term_last s3 /\
  IL s <= IL s3 /\ (ends <> default_end -> IL s < IL s3) /\
  (ends = default_end -> IL s3 = IL s -> last_instr init s = Some (I_EndExpression, ONone) /\ end_target s = false).
Proof.
  intros s ends H Hs Hj Hb. cbv zeta.
  assert (Bend : forall s0 e m, bsinv init s0 -> (e = (I_EndExpression, ONone) \/ e = (I_Tis, ONone) \/ exists j, e = (I_JumpTo, ONum j)) ->
                 bsinv init (emit s0 e m)).
  { intros s0 e m Hb0 He. apply bsinv_ext_emit; [exact Hb0|]. intros j Hr.
    destruct He as [He|[He|[j' He]]]; subst e; discriminate Hr. }
  assert (Tl : forall s0 e m, is_terminator e = true -> term_last (emit s0 e m)) by (intros; apply term_last_emit; assumption).
  destruct Hs as [Hs|[[j Hs]|[j Hs]]]; subst ends.
  - destruct (finish_default s) as [[Hf [Hl Hnt]]|Hf]; rewrite Hf.
    + splits; auto using ext_refl.
      * intros Hil. destruct (ci s) as [|c0 cs] eqn:Ec.
        { exfalso. unfold il in Hil. rewrite Ec in Hil. cbn in Hil. lia. }
        exists (I_EndExpression, ONone). split; [|reflexivity].
        apply last_instr_some; [exact Hl | rewrite Ec; discriminate].
      * intros Hd. congruence.
    + splits.
      all: rewrite ?il_emit.
      all: first [ apply ext_emit | reflexivity | apply jinv_emit; exact Hj | apply Bend; auto
                 | apply Tl; reflexivity | lia | intros; lia ].
  - rewrite finish_jump. splits.
    all: rewrite ?il_emit.
    all: first [ apply ext_emit | reflexivity | apply jinv_emit; exact Hj
               | apply Bend; [exact Hb | right; right; exists j; reflexivity]
               | apply Tl; reflexivity | lia | intros; lia | intros Hd; discriminate Hd ].
  - rewrite finish_tis_jump. splits.
    all: rewrite ?il_emit.
    all: first [ eapply ext_trans; apply ext_emit | reflexivity | apply jinv_emit; apply jinv_emit; exact Hj
               | apply Bend; [apply Bend; [exact Hb | right; left; reflexivity] | right; right; exists j; reflexivity]
               | apply Tl; reflexivity | lia | intros; lia | intros Hd; discriminate Hd ].
Qed.

Lemma in_rev_iff : forall A (l : list A) x, In x (rev l) <-> In x l.
Proof. intros. symmetry. apply in_rev. Qed.

Definition ci_ext (s s' : cst) : Prop := exists a, ci s' = ci s ++ a.

Lemma ci_ext_refl : forall s, ci_ext s s. Proof. intros s. exists []. rewrite app_nil_r. reflexivity. Qed.
Lemma ci_ext_trans : forall a b c, ci_ext a b -> ci_ext b c -> ci_ext a c.
Proof. intros a b c [x Hx] [y Hy]. exists (x ++ y). rewrite Hy, Hx, app_assoc. reflexivity. Qed.
Lemma ext_ci_ext : forall s s', ext s s' -> ci_ext s s'.
Proof. intros s s' [a [b [c [Ha _]]]]. exists a. exact Ha. Qed.
Lemma cont_ok_ci_ext : forall s s' c, ci_ext s s' -> cont_ok init s c -> cont_ok init s' c.
Proof.
  intros s s' c [a Ha] [Hc|[k Hk]]; [left; exact Hc|]. right. exists k.
  rewrite Ha. rewrite nth_error_app1; [exact Hk|]. apply nth_error_Some. rewrite Hk. discriminate.
Qed.

Definition body_post (H : list nat) (s s' : cst) : Prop :=
  jinv init H s' /\ bsinv init s' /\ term_last s' /\ IL s < IL s' /\ strict s' /\ JL s <= JL s' /\ ci_ext s s'.

Lemma fold_spec : forall f,
  (forall p s s' H, run_body init lit_ok f p s = Ok s' -> pend_live p -> jlo < p_jump p < JL s ->
     cont_ok init s (p_containing p) ->
     jinv init (p_jump p :: H) s -> bsinv init s -> term_last s -> ilo < IL s -> body_post H s s') ->
  forall l s0 s' H,
    fold_bodies init lit_ok f l (Ok s0) = Ok s' -> Forall pend_live l ->
    Forall (fun q => jlo < p_jump q < JL s0) l -> Forall (fun q => cont_ok init s0 (p_containing q)) l ->
    jinv init (map p_jump l ++ H) s0 -> bsinv init s0 -> term_last s0 -> ilo < IL s0 ->
    jinv init H s' /\ bsinv init s' /\ term_last s' /\ IL s0 <= IL s' /\ (l <> [] -> strict s') /\ JL s0 <= JL s' /\ ci_ext s0 s'.
Proof.
  intros f Hrun. induction l as [|q l IHl]; intros s0 s' H Hf Hlive Hrng Hcont Hj Hb Ht Hil.
  - cbn in Hf. inversion Hf; subst. cbn [map app] in Hj. splits; auto using ci_ext_refl. intros Hc; congruence.
  - unfold fold_bodies in Hf. cbn [fold_left bind] in Hf.
    destruct (run_body init lit_ok f q s0) as [sq|e| |] eqn:Eq.
    2:{ destruct (fold_bodies_err init lit_ok f l) as [_ [He' _]]. unfold fold_bodies in He'. rewrite He' in Hf. discriminate. }
    2:{ destruct (fold_bodies_err init lit_ok f l) as [_ [_ Hp']]. unfold fold_bodies in Hp'. rewrite Hp' in Hf. discriminate. }
    2:{ destruct (fold_bodies_err init lit_ok f l) as [Ho' _]. unfold fold_bodies in Ho'. rewrite Ho' in Hf. discriminate. }
    inversion Hlive as [|? ? Hq Hlive']; subst. inversion Hrng as [|? ? Hqr Hrng']; subst.
    inversion Hcont as [|? ? Hqc Hcont']; subst.
    cbn [map app] in Hj.
    destruct (Hrun q s0 sq (map p_jump l ++ H) Eq Hq Hqr Hqc Hj Hb Ht Hil) as [Hj1 [Hb1 [Ht1 [Hil1 [Hst1 [Hjl1 Hext1]]]]]].
    destruct (IHl sq s' H Hf Hlive') as [Hj2 [Hb2 [Ht2 [Hil2 [Hst2 [Hjl2 Hext2]]]]]]; auto; try lia.
    { eapply Forall_impl; [|exact Hrng']. cbv beta. intros. lia. }
    { eapply Forall_impl; [|exact Hcont']. cbv beta. intros a Ha. eapply cont_ok_ci_ext; eauto. }
    splits; auto; try lia; [| eapply ci_ext_trans; eauto ].
    intros _. destruct l as [|q' l'].
    + cbn in Hf. inversion Hf; subst. exact Hst1.
    + apply Hst2. discriminate.
Qed.

Lemma run_body_spec : forall fuel p s s' H,
  run_body init lit_ok fuel p s = Ok s' -> pend_live p -> jlo < p_jump p < JL s ->
  cont_ok init s (p_containing p) ->
  jinv init (p_jump p :: H) s -> bsinv init s -> term_last s -> ilo < IL s -> body_post H s s'.
Proof.
  induction fuel as [|f IH]; intros p s s' H Hrun Hlive Hrng Hcont Hj Hb Ht Hil; [discriminate|].
  cbn [run_body] in Hrun.
  apply bind_ok in Hrun. destruct Hrun as [s1 [Hpatch Hrun]].
  apply bind_ok in Hrun. destruct Hrun as [[[s2 ps] its] [Hinl Hrun]].
  destruct Hlive as [Hdrop Hshape].
  destruct (patch_spec _ _ _ _ Hpatch) as [_ [_ [Hci [_ [Hlen _]]]]].
  assert (HIL1 : IL s1 = IL s) by (unfold il; rewrite Hci; reflexivity).
  assert (HJL1 : JL s1 = JL s) by (unfold jl; rewrite Hlen; reflexivity).
  pose proof (jinv_patch _ _ _ _ Hj Hpatch (proj1 Hrng) Hil) as Hj1.
  pose proof (bsinv_patch _ _ _ Hb Hpatch Ht Hil) as Hb1.
  assert (Hcont1 : cont_ok init s1 (cx_containing (plain (p_containing p)))) by (cbn; eapply cont_ok_same; eauto).
  (* the body's inline code *)
  assert (Hits : its = []) by (apply (proj1 (inl_items init lit_ok _ _ _ _ _ _ _ Hinl)); reflexivity).
  subst its.
  pose proof (inl_jinv init lit_ok _ Hdrop _ _ _ _ _ _ Hinl H Hj1) as Hj2.
  pose proof (inl_bsinv init lit_ok _ _ _ _ _ _ _ Hinl Hb1 Hcont1) as Hb2.
  pose proof (inl_pend_cont init lit_ok _ _ _ _ _ _ _ Hinl Hcont1) as Hpc2.
  destruct (inl_live init lit_ok _ Hdrop _ _ _ _ _ _ Hinl) as [Hlive2 _].
  destruct (inl_pend_range init lit_ok _ _ _ _ _ _ _ Hinl) as [Hrng2 _].
  pose proof (inl_ext init lit_ok _ _ _ _ _ _ _ Hinl) as E12.
  pose proof (ext_il init _ _ E12) as Eil. pose proof (ext_jl init _ _ E12) as Ejl.
  (* its end instructions *)
  destruct (finish_spec s2 (p_end p) (holes ps [] ++ H) Hshape Hj2 Hb2) as [E23 [Hcj3 [Hj3 [Hb3 [Ht3 [Hil3 [Hgrow3 Helide]]]]]]].
  set (s3 := finish init s2 (p_end p)) in *.
  assert (HJL3 : JL s3 = JL s2) by (unfold jl; rewrite Hcj3; reflexivity).
  assert (Hgrow : IL s < IL s3).
  { destruct Hshape as [Hd|[[j Hd]|[j Hd]]].
    - (* nothing emitted and no end instruction added: the patched entry names the end of the stream *)
      destruct (Nat.eq_dec (IL s3) (IL s2)) as [E3|E3]; [|lia].
      destruct (Nat.eq_dec (IL s2) (IL s1)) as [E2|E2]; [|lia].
      exfalso. destruct (Helide Hd E3) as [_ Hnt].
      rewrite end_target_in in Hnt; [discriminate|].
      destruct (patch_spec _ _ _ _ Hpatch) as [_ [_ [_ [_ [_ [Hnew _]]]]]].
      pose proof E12 as [a0 [b0 [c0 [_ [_ [Hcj _]]]]]]. rewrite Hcj. apply in_or_app. left.
      rewrite E2, HIL1. eapply nth_error_In. exact Hnew.
    - assert (IL s2 < IL s3); [|lia]. apply Hgrow3. rewrite Hd. discriminate.
    - assert (IL s2 < IL s3); [|lia]. apply Hgrow3. rewrite Hd. discriminate. }
  assert (Hne1 : cj s1 <> []) by (destruct Hj1; assumption).
  assert (HJ1 : jlo < JL s1) by (unfold jl; destruct (cj s1); [congruence | cbn; lia]).
  assert (Hce13 : ci_ext s s3).
  { eapply ci_ext_trans; [exists []; rewrite app_nil_r; exact Hci |].
    eapply ci_ext_trans; [apply ext_ci_ext; exact E12 | apply ext_ci_ext; exact E23]. }
  (* the bodies it registered, LIFO *)
  destruct (fold_spec f IH (rev ps) s3 s' H Hrun) as [Hj4 [Hb4 [Ht4 [Hil4 [Hst4 [Hjl4 Hce4]]]]]]; auto.
  - apply Forall_rev. exact Hlive2.
  - apply Forall_rev. eapply Forall_impl; [|exact Hrng2]. cbv beta. intros q Hq. lia.
  - apply Forall_rev. eapply Forall_impl; [|exact Hpc2]. cbv beta. intros q Hq.
    eapply cont_ok_ext; [exact E23 | exact Hq].
  - eapply jinv_mono; [|exact Hj3]. unfold incl, holes. intros z. rewrite map_rev, !in_app_iff, in_rev_iff. cbn [map In]. tauto.
  - lia.
  - unfold body_post. splits; auto; try lia; [| eapply ci_ext_trans; eauto ].
    destruct ps as [|q0 ps0].
    + (* no body registered: every entry was written before this body's code *)
      change (Ok s3 = Ok s') in Hrun. inversion Hrun; subst s'.
      pose proof (inl_no_pends_no_jumps init lit_ok _ Hdrop _ _ _ _ _ _ Hinl eq_refl eq_refl) as Hcj2.
      intros k x Hk. rewrite Hcj3, Hcj2 in Hk.
      destruct Hj1 as [_ Hj1]. destruct (Hj1 k x Hk) as [[_ A]|[[_ A]|[_ [A _]]]]; subst; try lia.
    + apply Hst4. intros Hc. apply (f_equal (@length _)) in Hc. rewrite rev_length in Hc. discriminate.
Qed.

(* ---- the whole build: every placeholder is patched ---- *)
Lemma compile_jinv : forall t s4 e,
  tree_good t ->
  compile init lit_ok t = Ok (s4, e) -> jinv init [] s4.
Proof.
  intros t s4 e Hdrop Hc.
  unfold compile in Hc.
  apply bind_ok in Hc. destruct Hc as [[[s2 ps] its] [Hinl Hc]].
  apply bind_ok in Hc. destruct Hc as [s4' [Hfold Hc]]. inversion Hc; subst s4' e. clear Hc.
  set (s1 := new_jump (mkC [] [] []) (il init (mkC [] [] []))) in *.
  assert (HIL1 : IL s1 = ilo) by (unfold s1, il; cbn; lia).
  assert (HJL1 : JL s1 = S jlo) by (unfold s1; rewrite jl_new_jump; unfold jl; cbn; lia).
  assert (Hj1 : jinv init [] s1).
  { split; [unfold s1; cbn; discriminate|]. intros k x Hk. unfold s1 in Hk. cbn in Hk.
    destruct k as [|k]; cbn in Hk; [inversion Hk; left; split; [reflexivity | unfold il; cbn; lia] | destruct k; discriminate]. }
  assert (Hrj1 : jref_ok init s1 jlo).
  { split; [lia|]. intros x Hx. rewrite Nat.sub_diag in Hx. unfold s1 in Hx. cbn in Hx. inversion Hx.
    right. left. unfold il. cbn. lia. }
  assert (Hb1 : bsinv init s1).
  { split; [|exact Hrj1]. intros k io j Hk. unfold s1 in Hk. cbn in Hk. destruct k; discriminate. }
  assert (Hcont1 : cont_ok init s1 (cx_containing (plain jlo))) by (left; reflexivity).
  assert (Hits : its = []) by (apply (proj1 (inl_items init lit_ok _ _ _ _ _ _ _ Hinl)); reflexivity).
  subst its.
  pose proof (inl_jinv init lit_ok _ Hdrop _ _ _ _ _ _ Hinl [] Hj1) as Hj2.
  pose proof (inl_bsinv init lit_ok _ _ _ _ _ _ _ Hinl Hb1 Hcont1) as Hb2.
  pose proof (inl_pend_cont init lit_ok _ _ _ _ _ _ _ Hinl Hcont1) as Hpc2.
  destruct (inl_live init lit_ok _ Hdrop _ _ _ _ _ _ Hinl) as [Hlive2 _].
  destruct (inl_pend_range init lit_ok _ _ _ _ _ _ _ Hinl) as [Hrng2 _].
  pose proof (inl_ext init lit_ok _ _ _ _ _ _ _ Hinl) as E12.
  pose proof (ext_il init _ _ E12) as Eil. pose proof (ext_jl init _ _ E12) as Ejl.
  assert (Hshape : ends_shape default_end) by (left; reflexivity).
  destruct (finish_spec s2 default_end (holes ps [] ++ []) Hshape Hj2 Hb2) as [E23 [Hcj3 [Hj3 [Hb3 [Ht3 [Hil3 [_ Helide]]]]]]].
  set (s3 := finish init s2 default_end) in *.
  assert (HJL3 : JL s3 = JL s2) by (unfold jl; rewrite Hcj3; reflexivity).
  (* the first body emits at least one instruction *)
  assert (Hgrow : ilo < IL s3).
  { (* nothing emitted and no end instruction added: the first entry names the end of the stream *)
    destruct (Nat.eq_dec (IL s3) (IL s2)) as [Heq|Hne]; [|lia].
    destruct (Nat.eq_dec (IL s2) ilo) as [Heq2|Hne2]; [|lia].
    exfalso. destruct (Helide eq_refl Heq) as [_ Hnt].
    rewrite end_target_in in Hnt; [discriminate|].
    pose proof E12 as [a0 [b0 [c0 [_ [_ [Hcj _]]]]]]. rewrite Hcj. apply in_or_app. left.
    rewrite Heq2. unfold s1. cbn. left. unfold il. cbn. lia. }
  destruct (fold_spec (size t) (run_body_spec (size t)) (rev ps) s3 s4 [] Hfold) as [Hj4 [Hb4 [Ht4 [Hil4 [Hst4 [Hjl4 _]]]]]]; auto.
  { apply Forall_rev. exact Hlive2. }
  { apply Forall_rev. eapply Forall_impl; [|exact Hrng2]. cbv beta. intros q Hq. lia. }
  { apply Forall_rev. eapply Forall_impl; [|exact Hpc2]. cbv beta. intros q Hq.
    eapply cont_ok_ext; [exact E23 | exact Hq]. }
  { eapply jinv_mono; [|exact Hj3]. unfold incl, holes. intros z. rewrite map_rev, !in_app_iff, in_rev_iff. cbn [map In]. tauto. }
Qed.

(* ---- the whole build ---- *)
Variable nodes : list pnode.

Theorem compile_wf : forall t r,
  tree_in nodes t -> tree_good t ->
  compile init lit_ok t = Ok r -> wf_code nodes init (code_of_compile r).
Proof.
  intros t r Htin Hdrop Hc.
  destruct (compile_operands_meta nodes init lit_ok t r Htin Hc) as [Hops Hmeta].
  unfold compile in Hc.
  apply bind_ok in Hc. destruct Hc as [[[s2 ps] its] [Hinl Hc]].
  apply bind_ok in Hc. destruct Hc as [s4 [Hfold Hc]]. inversion Hc; subst r. clear Hc.
  set (s1 := new_jump (mkC [] [] []) (il init (mkC [] [] []))) in *.
  assert (HIL1 : IL s1 = ilo) by (unfold s1, il; cbn; lia).
  assert (HJL1 : JL s1 = S jlo) by (unfold s1; rewrite jl_new_jump; unfold jl; cbn; lia).
  assert (Hj1 : jinv init [] s1).
  { split; [unfold s1; cbn; discriminate|]. intros k x Hk. unfold s1 in Hk. cbn in Hk.
    destruct k as [|k]; cbn in Hk; [inversion Hk; left; split; [reflexivity | unfold il; cbn; lia] | destruct k; discriminate]. }
  assert (Hrj1 : jref_ok init s1 jlo).
  { split; [lia|]. intros x Hx. rewrite Nat.sub_diag in Hx. unfold s1 in Hx. cbn in Hx. inversion Hx.
    right. left. unfold il. cbn. lia. }
  assert (Hb1 : bsinv init s1).
  { split; [|exact Hrj1]. intros k io j Hk. unfold s1 in Hk. cbn in Hk. destruct k; discriminate. }
  assert (Hcont1 : cont_ok init s1 (cx_containing (plain jlo))) by (left; reflexivity).
  assert (Hits : its = []) by (apply (proj1 (inl_items init lit_ok _ _ _ _ _ _ _ Hinl)); reflexivity).
  subst its.
  pose proof (inl_jinv init lit_ok _ Hdrop _ _ _ _ _ _ Hinl [] Hj1) as Hj2.
  pose proof (inl_bsinv init lit_ok _ _ _ _ _ _ _ Hinl Hb1 Hcont1) as Hb2.
  pose proof (inl_pend_cont init lit_ok _ _ _ _ _ _ _ Hinl Hcont1) as Hpc2.
  destruct (inl_live init lit_ok _ Hdrop _ _ _ _ _ _ Hinl) as [Hlive2 _].
  destruct (inl_pend_range init lit_ok _ _ _ _ _ _ _ Hinl) as [Hrng2 _].
  pose proof (inl_ext init lit_ok _ _ _ _ _ _ _ Hinl) as E12.
  pose proof (ext_il init _ _ E12) as Eil. pose proof (ext_jl init _ _ E12) as Ejl.
  assert (Hshape : ends_shape default_end) by (left; reflexivity).
  destruct (finish_spec s2 default_end (holes ps [] ++ []) Hshape Hj2 Hb2) as [E23 [Hcj3 [Hj3 [Hb3 [Ht3 [Hil3 [_ Helide]]]]]]].
  set (s3 := finish init s2 default_end) in *.
  assert (HJL3 : JL s3 = JL s2) by (unfold jl; rewrite Hcj3; reflexivity).
  (* the first body emits at least one instruction *)
  assert (Hgrow : ilo < IL s3).
  { (* nothing emitted and no end instruction added: the first entry names the end of the stream *)
    destruct (Nat.eq_dec (IL s3) (IL s2)) as [Heq|Hne]; [|lia].
    destruct (Nat.eq_dec (IL s2) ilo) as [Heq2|Hne2]; [|lia].
    exfalso. destruct (Helide eq_refl Heq) as [_ Hnt].
    rewrite end_target_in in Hnt; [discriminate|].
    pose proof E12 as [a0 [b0 [c0 [_ [_ [Hcj _]]]]]]. rewrite Hcj. apply in_or_app. left.
    rewrite Heq2. unfold s1. cbn. left. unfold il. cbn. lia. }
  destruct (fold_spec (size t) (run_body_spec (size t)) (rev ps) s3 s4 [] Hfold) as [Hj4 [Hb4 [Ht4 [Hil4 [Hst4 [Hjl4 _]]]]]]; auto.
  { apply Forall_rev. exact Hlive2. }
  { apply Forall_rev. eapply Forall_impl; [|exact Hrng2]. cbv beta. intros q Hq. lia. }
  { apply Forall_rev. eapply Forall_impl; [|exact Hpc2]. cbv beta. intros q Hq.
    eapply cont_ok_ext; [exact E23 | exact Hq]. }
  { eapply jinv_mono; [|exact Hj3]. unfold incl, holes. intros z. rewrite map_rev, !in_app_iff, in_rev_iff. cbn [map In]. tauto. }
  assert (Hstrict : strict s4).
  { destruct ps as [|q0 ps0].
    - change (Ok s3 = Ok s4) in Hfold. inversion Hfold; subst s4.
      pose proof (inl_no_pends_no_jumps init lit_ok _ Hdrop _ _ _ _ _ _ Hinl eq_refl eq_refl) as Hcj2.
      intros k x Hk. rewrite Hcj3, Hcj2 in Hk. unfold s1 in Hk. cbn in Hk.
      assert (Hz : il init (mkC [] [] []) = ilo) by (unfold il; cbn; lia).
      destruct k as [|k]; cbn in Hk; [inversion Hk; subst; rewrite Hz; exact Hgrow | destruct k; discriminate].
    - apply Hst4. intros Hc. apply (f_equal (@length _)) in Hc. rewrite rev_length in Hc. discriminate. }
  (* assemble *)
  unfold wf_code. split; [exact Hops|]. split; [|split; [|split; [|exact Hmeta]]].
  - (* jump entries *)
    intros k x Hk. unfold code_of_compile in Hk. cbn [k_jumps fst] in Hk.
    unfold jump_ok, WfCode.ilo, WfCode.ihi, code_of_compile. cbn [k_instrs fst].
    destruct Hj4 as [_ Hj4]. specialize (Hstrict k x Hk). unfold il in Hstrict.
    destruct (Hj4 k x Hk) as [[A B]|[[A B]|[_ [_ []]]]].
    + subst. apply andb_true_iff. split; [apply Nat.eqb_refl | apply Nat.ltb_lt; exact Hstrict].
    + destruct k; [lia|]. apply andb_true_iff. split; apply Nat.ltb_lt; lia.
  - (* body starts *)
    intros k io j x Hk Hr Hjx Hlt. unfold code_of_compile in *. cbn [k_instrs k_jumps fst] in *.
    destruct Hb4 as [Hb4 _].
    destruct (Hb4 k io j Hk Hr) as [Hrng Hx].
    unfold jump_at, WfCode.jlo in Hjx. cbn [k_jumps] in Hjx.
    destruct (Nat.ltb j jlo) eqn:Ej; [discriminate|].
    destruct (Hx x Hjx) as [A|[A|[A [p [Hp Hterm]]]]]; unfold WfCode.ilo in Hlt; try lia.
    exists p. split; [|exact Hterm]. unfold instr_at, WfCode.ilo. cbn [k_instrs]. exact Hp.
  - (* last instruction *)
    intros io Hio. unfold code_of_compile in Hio. cbn [k_instrs fst] in Hio.
    assert (Hlt : ilo < IL s4) by lia. destruct (Ht4 Hlt) as [p [Hp Hterm]].
    unfold iat, il in Hp. destruct (Nat.ltb (ilo + length (ci s4) - 1) ilo) eqn:El; [discriminate|].
    replace (ilo + length (ci s4) - 1 - ilo) with (length (ci s4) - 1) in Hp by (unfold il in Hlt; lia).
    rewrite Hio in Hp. inversion Hp; subst. exact Hterm.
Qed.

End Bodies.
