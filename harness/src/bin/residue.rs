//! residue: C15 directed search for state that a FAILED or abandoned operation leaves behind and
//! that leaks into values added afterwards (text under construction, byte lists, open lists).
//! A pseudo-random history mixes constants added through the data interface with conversions
//! that fail midway; after every step everything added so far is read back through the getters
//! and, on SimpleGarnishData, equal constants must get the address they got the first time.
//!
//! Case line:   <impl B|S> <seed> <steps>
//! Output:      <case>\tok steps=<n> failed_conversions=<k> texts=<t> | bad <what>
use garnish_lang_simple_data::{BasicGarnishData, NoCustom, NoOpCompanion, SimpleGarnishData, SimpleNumber};
use garnish_lang_traits::GarnishData;
use garnish_verif_harness::*;

type Basic = BasicGarnishData<(), NoOpCompanion>;
type Simple = SimpleGarnishData<NoCustom>;

const TEXTS: [&str; 12] = ["abc", "xyz", "hello", "", "a", "bcabc", "h\u{e9}llo", "\u{20ac}uro", "0", "12", "zzzzzzzzzzzzzzzzzzzzzzzz", "ab"];

struct Rng(u64);
impl Rng {
    fn next(&mut self) -> u64 {
        self.0 = self.0.wrapping_mul(6364136223846793005).wrapping_add(1442695040888963407);
        self.0 >> 33
    }
    fn below(&mut self, n: u64) -> u64 {
        self.next() % n
    }
}

#[derive(Clone)]
enum Expect {
    Text(String),
    Bytes(Vec<u8>),
    Int(i32),
}

fn read_text<D: GarnishData<Number = SimpleNumber, Char = char, Size = usize>>(d: &D, a: usize) -> Result<String, String> {
    let n = d.get_char_list_len(a).map_err(|_| "get_char_list_len failed".to_string())?;
    let mut s = String::new();
    for i in 0..n {
        match d.get_char_list_item(a, SimpleNumber::Integer(i as i32)) {
            Ok(Some(c)) => s.push(c),
            _ => return Err(format!("get_char_list_item({}) failed", i)),
        }
    }
    Ok(s)
}

fn read_bytes<D: GarnishData<Number = SimpleNumber, Byte = u8, Size = usize>>(d: &D, a: usize) -> Result<Vec<u8>, String> {
    let n = d.get_byte_list_len(a).map_err(|_| "get_byte_list_len failed".to_string())?;
    let mut s = Vec::new();
    for i in 0..n {
        match d.get_byte_list_item(a, SimpleNumber::Integer(i as i32)) {
            Ok(Some(c)) => s.push(c),
            _ => return Err(format!("get_byte_list_item({}) failed", i)),
        }
    }
    Ok(s)
}

fn run<D>(d: &mut D, simple: bool, seed: u64, steps: u64) -> String
where
    D: GarnishData<Number = SimpleNumber, Symbol = u64, Char = char, Byte = u8, Size = usize>,
{
    let mut rng = Rng(seed.wrapping_mul(2).wrapping_add(1));
    let mut stored: Vec<(usize, Expect, String)> = Vec::new(); // address, expected content, how it was made
    let mut first_text: Vec<(String, usize)> = Vec::new(); // Simple: first address of each text constant
    let mut failed = 0u64;
    let mut attempted = 0u64;
    for step in 0..steps {
        let what;
        match rng.below(10) {
            0..=2 => {
                // a text constant
                let t = TEXTS[rng.below(TEXTS.len() as u64) as usize];
                what = format!("parse_add_char_list({:?})", t);
                match d.parse_add_char_list(&format!("\"{}\"", t)) {
                    Ok(a) => {
                        if simple {
                            match first_text.iter().find(|(s, _)| s == t) {
                                Some((_, a0)) if *a0 != a => {
                                    return format!("bad step {}: equal constant {:?} got address {}, first was {}", step, t, a, a0);
                                }
                                Some(_) => {}
                                None => {
                                    if let Some((s, _)) = first_text.iter().find(|(_, a0)| *a0 == a) {
                                        return format!("bad step {}: new constant {:?} got the address {} of {:?}", step, t, a, s);
                                    }
                                    first_text.push((t.to_string(), a));
                                }
                            }
                        }
                        stored.push((a, Expect::Text(t.to_string()), what.clone()));
                    }
                    Err(_) => return format!("bad step {}: {} failed", step, what),
                }
            }
            3 => {
                // a byte list constant (text form)
                let t = ["abc", "q", "0z", "hello"][rng.below(4) as usize];
                what = format!("parse_add_byte_list('{}')", t);
                match d.parse_add_byte_list(&format!("'{}'", t)) {
                    Ok(a) => stored.push((a, Expect::Bytes(t.as_bytes().to_vec()), what.clone())),
                    Err(_) => return format!("bad step {}: {} failed", step, what),
                }
            }
            4 => {
                // render an integer
                let n = [0i32, 7, 10, -3, 2147483647, 123456][rng.below(6) as usize];
                what = format!("add_char_list_from(Integer {})", n);
                let na = match d.add_number(SimpleNumber::Integer(n)) {
                    Ok(a) => a,
                    Err(_) => return format!("bad step {}: add_number failed", step),
                };
                stored.push((na, Expect::Int(n), format!("add_number({})", n)));
                match d.add_char_list_from(na) {
                    Ok(a) => stored.push((a, Expect::Text(n.to_string()), what.clone())),
                    Err(_) => return format!("bad step {}: {} failed", step, what),
                }
            }
            5 => {
                // copy a stored text through the conversion
                let texts: Vec<(usize, String)> =
                    stored.iter().filter_map(|(a, e, _)| if let Expect::Text(s) = e { Some((*a, s.clone())) } else { None }).collect();
                if texts.is_empty() {
                    continue;
                }
                let (src, s) = texts[rng.below(texts.len() as u64) as usize].clone();
                what = format!("add_char_list_from(text {:?} at {})", s, src);
                match d.add_char_list_from(src) {
                    Ok(a) => stored.push((a, Expect::Text(s), what.clone())),
                    Err(_) => return format!("bad step {}: {} failed", step, what),
                }
            }
            _ => {
                // a conversion that is expected to fail midway: a slice of a stored text whose range
                // runs past its end, or whose range operand is not a range; through each conversion
                let texts: Vec<(usize, String)> = stored
                    .iter()
                    .filter_map(|(a, e, _)| if let Expect::Text(s) = e { if s.chars().count() >= 2 { Some((*a, s.clone())) } else { None } } else { None })
                    .collect();
                if texts.is_empty() {
                    continue;
                }
                let (src, s) = texts[rng.below(texts.len() as u64) as usize].clone();
                let len = s.chars().count() as i32;
                let start = rng.below(len as u64) as i32;
                let sa = d.add_number(SimpleNumber::Integer(start));
                let ea = d.add_number(SimpleNumber::Integer(len + 1 + rng.below(4) as i32));
                let (sa, ea) = match (sa, ea) {
                    (Ok(x), Ok(y)) => (x, y),
                    _ => return format!("bad step {}: add_number failed", step),
                };
                stored.push((sa, Expect::Int(start), "add_number".to_string()));
                let target = if rng.below(4) == 0 {
                    // slice over something that is not a range
                    d.add_slice(src, sa)
                } else {
                    d.add_range(sa, ea).and_then(|r| d.add_slice(src, r))
                };
                let target = match target {
                    Ok(t) => t,
                    Err(_) => return format!("bad step {}: building the slice failed", step),
                };
                attempted += 1;
                let r = match rng.below(3) {
                    0 => d.add_char_list_from(target),
                    1 => d.add_byte_list_from(target),
                    _ => d.add_symbol_from(target),
                };
                if r.is_err() {
                    failed += 1;
                }
                what = format!("conversion of a slice of {:?} from {} past its end ({})", s, start, if r.is_err() { "Err" } else { "Ok" });
            }
        }
        // read everything back
        for (a, e, how) in stored.iter() {
            let problem = match e {
                Expect::Text(s) => match read_text(d, *a) {
                    Ok(t) if &t == s => None,
                    Ok(t) => Some(format!("reads back as {:?}", t)),
                    Err(m) => Some(m),
                },
                Expect::Bytes(b) => match read_bytes(d, *a) {
                    Ok(t) if &t == b => None,
                    Ok(t) => Some(format!("reads back as {:?}", t)),
                    Err(m) => Some(m),
                },
                Expect::Int(n) => match d.get_number(*a) {
                    Ok(SimpleNumber::Integer(i)) if i == *n => None,
                    Ok(x) => Some(format!("reads back as {:?}", x)),
                    Err(_) => Some("get_number failed".to_string()),
                },
            };
            if let Some(p) = problem {
                let exp = match e {
                    Expect::Text(s) => format!("{:?}", s),
                    Expect::Bytes(b) => format!("{:?}", b),
                    Expect::Int(n) => format!("{}", n),
                };
                return format!("bad step {} (after {}): the value {} stored at address {} by {} {}", step, what, exp, a, how, p);
            }
        }
    }
    format!("ok steps={} failed_conversions={}/{} values={}", steps, failed, attempted, stored.len())
}

fn run_case(line: &str) -> String {
    let f: Vec<&str> = line.split_whitespace().collect();
    if f.len() != 3 {
        return format!("{}\tbad case", line);
    }
    let seed: u64 = f[1].parse().unwrap_or(0);
    let steps: u64 = f[2].parse().unwrap_or(0);
    let res = catch(|| match f[0] {
        "B" => match Basic::new(NoOpCompanion::new()) {
            Ok(mut b) => run(&mut b, false, seed, steps),
            Err(_) => "bad new".to_string(),
        },
        _ => run(&mut Simple::new(), true, seed, steps),
    });
    format!("{}\t{}", line, res.unwrap_or_else(|_| "bad PANIC".to_string()))
}

fn main() {
    supervised(60_000, run_case);
}
