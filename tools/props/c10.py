"""C10 One notion of truth; conditionals and logic evaluate only what they must.

This module checks the truth-table clauses (exactly two values are false; the seven
testing constructs classify every value of every type the same way; the logical
operators push only booleans).  The short-circuit / one-arm clauses quantify over whole
programs; they plug in as
  * extra Coq files  coq/Properties/C10_*.v (+ proofs under coq/Proofs/C10/), built and
    hygiene-checked here when present, and
  * an optional module tools/props/c10_programs.py with  stage(v, tier, seed)  that adds
    its own correspondence / direct results to the same Verdict."""
import collections, glob, importlib, importlib.util, os
import vplib, deferlib
from vplib import Verdict, log

PID = "C10"
MANIFEST_ENTRY = {
 "level_claimed": {
  "category": "proof",
  "text": "Theorems in coq/Properties/C10.v (truth-table clauses of C10): the falsy sets extracted separately from is_true_value, jump_if_true and jump_if_false (coq/Gen/Truth.v, regenerated from /repo on every run) each equal the pinned coq/Spec/Falsy.v = {Unit, False}; each of the seven testing constructs ?> !> && || ^^ !! ??, run as one step of the type-level model coq/Model/OpDispatch.v (which reads the generated falsy sets and the generated shapes of and/or/xor/not/tis), classifies a value of each of the 21 types (any inner type, any host mode) as true iff its type is not Unit/False; ^^ is the exclusive or of the two truth values; && || ^^ !! ?? never call the host and whatever they push is True or False. Finite domain (7 x 101 x 101 x 3), proved by vm_compute + enumeration completeness. The model is tied to the runtime by running every construct on every representative value of every type on both data implementations and diffing, and the spec's truth value is compared directly with what each construct did. Short-circuit and one-arm clauses (program level) are in separate files when present.",
  "design_ref": "DESIGN.md section 8 C10 (a),(b)"
 },
 "level_note": "The truth-table clauses are claimed by this file; the program-level clauses are the theorems of coq/Properties/C10_programs.v (built by this check as an extra target; their Print Assumptions are checked centrally) and the program stage of tools/props/c01.py (c10_program_checks), both owned by the compiler/evaluator component and run from here when present. Without them: `&&`/`||` producing a boolean at PROGRAM level additionally needs the compiler fact that the out-of-line right operand ends in Tis, and short-circuit / one-arm need the compiler+evaluator model (Properties/C10_*.v, other component). Trusted: Coq kernel; translator tools/sync/dispatch.py (falsy sets and logical-operator shapes are recognised syntactically, anything else raises); the harness; the Python reading of what each construct's observable behaviour means.",
 "technique": "Coq finite proof by computation over regenerated falsy sets + exhaustive construct x type differential run + direct truth-table oracle"
}
TRUSTED = vplib.BASE_TRUSTED + [
    "tools/sync/truth.py (code in dispatch.py): falsy sets of is_true_value / jump_if_true / jump_if_false and the shapes of and/or/xor/not/tis are extracted by shape; an unrecognised shape raises",
    "coq/Spec/Falsy.v pinned by hand from the property text ({Unit, False})",
    "tools/props/c10.py: what each construct's observable step means (jumped / pushed True / pushed False)",
]
SYMBOL = {"JumpIfTrue": "?>", "JumpIfFalse": "!>", "And": "&&", "Or": "||", "Xor": "^^", "Not": "!!", "Tis": "??"}


def classify(rec, what):
    """known-findings classifier (no C10 truth-table finding is open)."""
    return None


def decode(instr, i, other_truth=None):
    """what truth value did the construct assign?  i: parsed implementation result.
    -> True / False / None (undecidable: the step did not behave like the construct at all)"""
    if i["class"] != "Ok" or i.get("sent") != "ok":
        return None
    d, cur, top = i["d"], i["cur"], i["top"]
    if instr == "JumpIfTrue":
        return {("-1", "3"): True, ("-1", "1"): False}.get((d, cur))
    if instr == "JumpIfFalse":
        return {("-1", "1"): True, ("-1", "3"): False}.get((d, cur))
    if instr == "And":
        return {("-1", "3", None): True, ("0", "1", "False"): False}.get((d, cur, top if d == "0" else None))
    if instr == "Or":
        return {("0", "1", "True"): True, ("-1", "3", None): False}.get((d, cur, top if d == "0" else None))
    if instr == "Not":
        return {("0", "1", "False"): True, ("0", "1", "True"): False}.get((d, cur, top))
    if instr == "Tis":
        return {("0", "1", "True"): True, ("0", "1", "False"): False}.get((d, cur, top))
    if instr == "Xor":
        r = {("-1", "1", "True"): True, ("-1", "1", "False"): False}.get((d, cur, top))
        if r is None or other_truth is None:
            return None
        return r != other_truth
    return None


def evaluate(v, recs, stats, samples):
    listed = {f["id"] for f in vplib.findings_for(PID)}
    disagreements = 0
    verdicts = collections.defaultdict(dict)     # (impl, host, rep) -> {construct: bool}
    distinct = set()
    for rec in recs:
        parts = rec["case"].split(" ")
        impl_id, host, instr, lrep, rrep = parts
        if rec["impl"].startswith("UNBUILDABLE"):
            stats["unbuildable"] += 1
            continue
        if rec["impl"].startswith(("BADCASE", "PANIC:harness")):
            v.tie_failure("defer harness could not run %s: %s" % (rec["case"], rec["impl"]))
            continue
        st, detail = deferlib.compare_model(rec)
        stats["model_" + st] += 1
        if st == "differ":
            disagreements += 1
            if disagreements <= 5:
                v.tie_failure("correspondence defer: %s impl=[%s] model=[%s]: %s" % (rec["case"], rec["impl"], rec["model"], detail))
        i = deferlib.parse_fields(rec["impl"])
        fail = None
        if i.get("calls"):
            fail = "%s offered its operand to the host (%s)" % (SYMBOL[instr], i["calls"])
        elif i["class"] != "Ok":
            fail = "%s failed (%s)" % (SYMBOL[instr], i["class"])
        lt = rt = None
        if rec["truth"] is not None:
            lt = rec["truth"][0] == "1"
            rt = None if rec["truth"][1] == "-" else rec["truth"][1] == "1"
        if fail is None:
            if instr == "Xor":
                # ^^ : the pushed boolean must be the exclusive or of the two truth values
                want = None if lt is None else ("True" if lt != rt else "False")
                if i["d"] != "-1" or i["cur"] != "1" or i["top"] not in ("True", "False"):
                    fail = "^^ did not push exactly one boolean (depth %s, top %s)" % (i["d"], i["top"])
                elif want is not None and i["top"] != want:
                    fail = "^^ of a %s and a %s value gave %s" % ("true" if lt else "false", "true" if rt else "false", i["top"])
                # for the uniformity table: read each side against a false partner
                if fail is None and rt is False:
                    verdicts[(impl_id, host, lrep)]["Xor"] = i["top"] == "True"
            else:
                got = decode(instr, i)
                if got is None:
                    fail = "%s neither jumped nor pushed a boolean as the construct does (depth %s, cursor %s, top %s)" % (
                        SYMBOL[instr], i["d"], i["cur"], i["top"])
                else:
                    verdicts[(impl_id, host, lrep)][instr] = got
                    if lt is not None and got != lt:
                        fail = "%s treated a %s value as %s" % (SYMBOL[instr], lrep.split(".")[0], "true" if got else "false")
            stats["decided"] += 1
            distinct.add((instr, rec["desc"], impl_id))
            if len(samples) < 8 and stats["decided"] % 2503 == 1:
                samples.append({"case": rec["case"], "impl": rec["impl"], "truth": rec["truth"]})
        if fail:
            fid = classify(rec, fail)
            if fid and fid in listed:
                v.known_hit(fid, "%s -> %s" % (rec["case"], rec["impl"]))
            else:
                stats["property_failures"] += 1
                v.violation(component="defer", input=rec["case"], impl=rec["impl"], model=rec["model"], operands=rec["desc"],
                            expected="truth=%s" % (rec["truth"],), what=fail)
    # one notion of truth, without reference to any spec: all constructs agree on every value
    for (impl_id, host, rep), vs in sorted(verdicts.items()):
        if len(set(vs.values())) > 1:
            t = [SYMBOL[k] for k, x in vs.items() if x]
            f = [SYMBOL[k] for k, x in vs.items() if not x]
            stats["split_verdicts"] += 1
            v.violation(component="defer", input="%s %s <each construct> %s" % (impl_id, host, rep),
                        what="%s is true for %s but false for %s" % (rep, " ".join(t), " ".join(f)), impl=str(vs))
    stats["values_classified_by_all_seven"] = sum(1 for vs in verdicts.values() if len(vs) == 7)
    stats["model_disagreements"] = disagreements
    return len(distinct)


def program_stage(v, tier, seed):
    """short-circuit / one-arm clauses over whole programs, run by the component that owns the
    compiler + evaluator model.  -> its stats dict, or None when it is not there."""
    try:
        if importlib.util.find_spec("props.c10_programs") is not None:
            return importlib.import_module("props.c10_programs").stage(v, tier, seed)
        c01 = importlib.import_module("props.c01") if importlib.util.find_spec("props.c01") is not None else None
        if c01 is None or not hasattr(c01, "c10_program_checks"):
            v.notes.append("short-circuit / one-arm clauses: no program-level stage available; not checked by this run")
            return None
        okx, outx = vplib.coq_make(["Extract/ExecExtract.vo"])
        if not okx:
            v.tie_failure("program stage: extraction of the exec model failed: " + " | ".join(outx.strip().splitlines()[-3:])[:300])
        okc, outc = vplib.cargo_build("debug", bins=["exec"])
        if not okc:
            v.tie_failure("program stage: exec harness build failed: " + outc[-300:])
        okm, outm = vplib.ocaml_build("exec") if os.path.exists(os.path.join(vplib.OCAML_BUILD, "exec_model.ml")) else (False, "no extracted exec model")
        if not okm:
            v.tie_failure("program stage: exec driver build failed: " + outm[-300:])
        if not (okc and okm):
            return None
        return c01.c10_program_checks(v, tier, seed)
    except Exception as e:
        v.tie_failure("program stage failed: %s: %s" % (type(e).__name__, e))
        return None


def run(tier, seed):
    v = Verdict(PID, tier, seed)
    v.assumptions = [
        "truth depends on the type of a value only (every value of a type other than Unit and False is true)",
        "what a construct 'decided' is read off one step: ?> jumps on true, !> jumps on false, && jumps on (to its right operand) on true and pushes False otherwise, || pushes True on true and jumps on otherwise, !! / ?? / ^^ push a boolean",
    ]
    sy = vplib.sync(["instr", "execmap", "truth", "dispatch", "dispatch_strict"])
    for k, e in sy["errors"].items():
        if k == "dispatch_strict":
            # arm tables of operations C10 does not reason about: C08's tie, not this one's
            v.notes.append("translator (not used by C10): " + e[:300])
        else:
            v.tie_failure("translator %s: %s" % (k, e))
    okx, outx = vplib.coq_make(["Extract/DispatchExtract.vo"])
    if not okx:
        v.tie_failure("extraction of the dispatch model failed: " + " | ".join(outx.strip().splitlines()[-4:])[:400])
    extra = sorted("Properties/" + os.path.basename(p)[:-2] + ".vo" for p in glob.glob(os.path.join(vplib.COQ, "Properties", "C10_*.v")))
    pr = vplib.prove(PID, ["Proofs/C10", "Spec/Falsy.v"], extra_targets=extra)
    for f in pr["failures"]:
        v.tie_failure("prove: " + f)
    v.coverage.update(vplib.proof_coverage(
        pr, "make -C coq Properties/C10.vo && coqc Properties/C10.v (Print Assumptions) && tools/props/c10.py matrix", TRUSTED))
    ok, out = vplib.cargo_build("debug", bins=["defer"])
    if not ok:
        v.tie_failure("harness build failed: " + out[-400:])
    okm, outm = vplib.ocaml_build("dispatch")
    if not okm:
        v.tie_failure("model driver build failed: " + outm[-300:])
    stats = collections.Counter()
    samples, cases, distinct = [], [], 0
    if ok:
        deferlib.check_names(v)
        # the truth matrix is small: always every representative (empty and non-empty) of every type
        cases = deferlib.gen_cases("thorough", only=deferlib.TRUTH)
        recs, err = deferlib.run_matrix(cases)
        if err:
            v.tie_failure("matrix run: " + err)
        if recs is not None:
            distinct = evaluate(v, recs, stats, samples)
    # program-level clauses (short circuit, one arm, chain order; `&&`/`||` boolean at program level):
    # the compiler + evaluator component (tools/props/c01.py, coq/Properties/C10_programs.v)
    prog_stats = program_stage(v, tier, seed)
    v.coverage.update({
        "evaluations": len(cases),
        "distinct_nontrivial": distinct,
        "rule": "each of the seven testing constructs x every representative value (empty, singleton, typical, nested) of each "
                "of the 21 types (^^: every ordered pair) x host absent/declining/accepting x both data implementations; "
                "a case is non-trivial when the construct ran and its decision could be read (distinct = construct x operand "
                "abstraction x implementation)",
        "samples": samples,
        "histogram": dict(stats),
        "regenerated_tables": sy["changed"],
        "extra_property_files": extra,
        "program_level_stage": prog_stats,
    })
    return v.finish("proof")


def replay(obj):
    cases = [x["input"] for x in obj.get("violations", []) if x.get("input") and "<each construct>" not in x["input"]]
    for x in obj.get("violations", []):
        if x.get("input") and "<each construct>" in x["input"]:
            ps = x["input"].split(" ")
            impl_id, host, rep = ps[0], ps[1], ps[-1]
            for c in deferlib.TRUTH:
                cases.append("%s %s %s %s %s" % (impl_id, host, c, rep, "Unit.0" if c == "Xor" else "-"))
    if not cases:
        print("replay names a broken tie, not an input:", obj.get("no_longer_checks"))
        return run("quick", obj.get("seed", 0))
    vplib.cargo_build("debug", bins=["defer"])
    vplib.ocaml_build("dispatch")
    recs, err = deferlib.run_matrix(cases)
    if recs is None:
        print("replay could not run:", err)
        return 2
    v = Verdict(PID, "replay", obj.get("seed", 0))
    evaluate(v, recs, collections.Counter(), [])
    for x in v.violations:
        print("FAILS: %s impl=[%s] -- %s" % (x.get("input"), x.get("impl"), x.get("what")))
    if not v.violations:
        for r in recs:
            print("ok: %s impl=[%s]" % (r["case"], r["impl"]))
    return 1 if v.violations else 0
