"""Shared by the C05 / C06 / C20 checks (tools/props/c05.py, c06.py, c20.py):
case generators (all token triples, a grammar-based random source generator
over the core language, reapply-loop families), parsing of the harness output,
native re-implementations of the two specifications on the *real* instruction
stream (well-formedness, depth typing by abstract interpretation) and the
known-finding classifiers, which look at the parse tree only.

The enum numberings come from coq/Gen/*.v, which the translator regenerates
from /repo at the start of every check."""
import itertools, os, re
import vplib

COQ = vplib.COQ


# ------------------------------------------------------------------ enum tables
def _enum(path, prefix):
    txt = open(os.path.join(COQ, path)).read()
    m = re.search(r"Definition \w+_index \(x : \w+\) : N :=\s*match x with(.*?)end\.", txt, re.S)
    names = {}
    for name, idx in re.findall(r"\|\s*%s(\w+)\s*=>\s*(\d+)" % prefix, m.group(1)):
        names[int(idx)] = name
    return [names[i] for i in range(len(names))]


_cache = {}


def instructions():
    if "i" not in _cache:
        _cache["i"] = _enum("Gen/Instr.v", "I_")
    return _cache["i"]


def definitions():
    if "d" not in _cache:
        _cache["d"] = _enum("Gen/Defs.v", "D_")
    return _cache["d"]


def token_types():
    if "t" not in _cache:
        _cache["t"] = _enum("Gen/TokenTypes.v", "TT_")
    return _cache["t"]


def data_types():
    if "y" not in _cache:
        txt = open(os.path.join(COQ, "Gen/Instr.v")).read()
        m = re.search(r"Definition data_type_index.*?match x with(.*?)end\.", txt, re.S)
        names = {}
        for name, idx in re.findall(r"\|\s*T_(\w+)\s*=>\s*(\d+)", m.group(1)):
            names[int(idx)] = name
        _cache["y"] = [names[i] for i in range(len(names))]
    return _cache["y"]


def takes_operand_table():
    """instruction name -> True/False/None from Gen/Exec.v (None: no arm that calls anything)."""
    if "x" not in _cache:
        txt = open(os.path.join(COQ, "Gen/Exec.v")).read()
        m = re.search(r"Definition exec_op.*?match i with(.*?)end\.", txt, re.S)
        t = {}
        for name, rhs in re.findall(r"\|\s*I_(\w+)\s*=>\s*(None|Some \(\w+, (?:true|false)\))", m.group(1)):
            t[name] = None if rhs == "None" else rhs.endswith("true)")
        _cache["x"] = t
    return _cache["x"]


# ------------------------------------------------------------------ encoding
def hx(s):
    return ",".join("%x" % ord(c) for c in s) if s else "-"


def unhx(h):
    return "" if h in ("-", "") else "".join(chr(int(x, 16)) for x in h.split(","))


def case_source(case):
    """human-readable form of a case line"""
    k = case[:1]
    if k == "S":
        return unhx(case[2:])
    if k == "R":
        n, h = case[2:].split(" ", 1)
        return "%s  [input %s]" % (unhx(h), n)
    if k == "T":
        tt = token_types()
        return " ".join(tt[int(x)] for x in case[2:].split())
    return case


# ------------------------------------------------------------------ generators
def all_triples():
    n = len(token_types())
    return ["T %d %d %d" % t for t in itertools.product(range(n), repeat=3)]


BINOPS = ["+", "-", "*", "/", "//", "%", "**", "&", "|", "^", "<<", ">>", "^^", "==", "!=", "<", "<=", ">", ">=",
          "#=", "~#", "=", "..", ">..", "..<", ">..<", "<>", "~"]
PREFIX = ["++", "--", "!", "!!", "??", "#", "_."]
SUFFIX = ["~~", "._", ".|"]


class Gen:
    """Random programs of the core language as source text. Sub-expressions are usually
    parenthesised (so that most programs parse the way they were generated), sometimes not
    (so that the parser's own grouping is exercised too)."""

    def __init__(self, rng, findings=0.04):
        self.rng = rng
        self.findings = findings   # probability of the shapes that are known findings

    def atom(self):
        r = self.rng
        return r.choice(["0", "1", "2", "3", "5", "7", "10", "$", "$", "$?", "$!", "()", ":a", ":b", '"s"', "'b'", "a", "b", "1.5", "42", "{ }"])

    def wrap(self, s, compound=True):
        if not compound:
            return s
        return "(" + s + ")" if self.rng.random() < 0.8 else s

    def cond(self, d):
        r = self.rng
        k = r.random()
        if k < 0.35:
            return "$ %s %s" % (r.choice(["<", ">", "==", "!=", "<=", ">="]), r.choice(["0", "1", "2", "3"]))
        if k < 0.55:
            return r.choice(["$?", "$!", "()", "1", "$"])
        return self.wrap(self.expr(d - 1))

    def chain(self, d, final_else=True):
        r = self.rng
        n = r.randint(1, 3)
        parts = []
        for _ in range(n):
            parts.append("%s %s %s" % (self.cond(d), r.choice(["?>", "?>", "!>"]), self.wrap(self.expr(d - 1))))
        if final_else:
            parts.append(self.wrap(self.expr(d - 1)))
        return " |> ".join(parts)

    DATA_VALUES = ["(:a = 5, :b = (:c = 1,))", "(:a = (:b = 5,),)", "(1 2 3)", '"abc"', "(1..5)", "((1 2) <> (3 4))",
                   "(:a = 1, :a = 2, :a = 3)", "(:a = (:b = (:c = 1,),),)", "(:a = 5)", ":a", "5", "()", "((1 2 3) ~ 1)"]
    INDEX_VALUES = [":a", ":x", ":a.c", ":b.c", ":b.x", ":a.b", ":a.b.c", ":a.b.x", ":x.a", ":x.b", ":b.0", ":b.5", ":a.0.b",
                    "0", "1", "7", "-1", "(0..1)", "(1..9)", "1.5", "()", "(1 2)", '"a"']

    def data_apply(self):
        """a data value applied to an index-like value (hits and misses: the apply must push exactly one result)"""
        r = self.rng
        x, y = r.choice(self.DATA_VALUES), r.choice(self.INDEX_VALUES)
        core = "%s <~ %s" % (x, y) if r.random() < 0.7 else "%s ~> %s" % (y, x)
        k = r.random()
        if k < 0.45:
            return core
        if k < 0.6:
            return "1, (%s), 3" % core
        if k < 0.75:
            return "5 + (%s)" % core
        n = r.choice([0, 1, 2, 4])
        if k < 0.9:
            return "{ [%s] $ < %d ?> ^~ ($ + 1) |> $ } <~ 0" % (core, n)
        return "{ $ < %d ?> ^~ ($ + 1) |> (%s) } <~ 0" % (n, core)

    def expr(self, d):
        r = self.rng
        if d <= 0:
            return self.atom()
        if r.random() < 0.05:
            return self.data_apply()
        if r.random() < 0.03:
            # equality of collections whose items differ in type or value at some position (the comparison works
            # through a list of pending item pairs on the operand stack and must leave exactly one boolean)
            items = ["1", "2", "3", ":a", ":b", "()", '"s"', "1.5", "(1 2)", "(:k = 1)", "$"]
            n = r.randint(1, 4)
            a = [r.choice(items) for _ in range(n)]
            b = list(a)
            for _ in range(r.choice([0, 1, 1, 2])):
                b[r.randrange(len(b))] = r.choice(items)
            if r.random() < 0.2:
                b = b[:-1] if len(b) > 1 else b + ["9"]
            form = r.choice(["(%s) %s (%s)", "(:k = (%s)) %s (:k = (%s))", "5 + ((%s) %s (%s) ?> 1 |> 2)", "((%s) <> (7,)) %s ((%s) <> (7,))"])
            sep = r.choice([" ", ", "])
            return form % (sep.join(a) + ("," if n == 1 else ""), r.choice(["==", "!="]), sep.join(b) + ("," if len(b) == 1 else ""))
        if r.random() < 0.03:
            # re-apply / self reference reached through the operands of `&&` / `||` (the containing-expression
            # bookkeeping of the logical operators), always guarded so that the loop ends
            n = r.choice(["1", "2", "3"])
            return r.choice(["$ == %s || ^~ %s" % (n, n), "$ != %s && ^~ %s" % (n, n), "$ == %s || ($ < %s ?> ^~ $ + 1 |> 9)" % (n, n),
                             "$? && {}", "() || {}", "$ == %s || (1 && ^~ %s)" % (n, n), "($ == %s || ^~ %s) + 1" % (n, n),
                             "{ $ == %s || ^~ %s } <~ 0" % (n, n), "$ == %s && 5 || ^~ %s" % (n, n)])
        k = r.random()
        if k < 0.18:
            return self.atom()
        if k < 0.36:
            return "%s %s %s" % (self.wrap(self.expr(d - 1)), r.choice(BINOPS), self.wrap(self.expr(d - 1)))
        if k < 0.42:
            return "%s %s" % (r.choice(PREFIX), self.wrap(self.expr(d - 1)))
        if k < 0.46:
            return "%s %s" % (self.wrap(self.expr(d - 1)), r.choice(SUFFIX))
        if k < 0.53:
            n = r.randint(2, 4)
            sep = r.choice([" ", ", "])
            return "(" + sep.join(self.wrap(self.expr(d - 1)) for _ in range(n)) + ")"
        if k < 0.60:
            return self.wrap(self.expr(d - 1)) + r.choice([" && ", " || "]) + self.wrap(self.expr(d - 1))
        if k < 0.70:
            # conditional, with / without else; a chain without a final else is a known finding shape
            if r.random() < 0.45:
                return "%s %s %s" % (self.cond(d), r.choice(["?>", "!>"]), self.wrap(self.expr(d - 1)))
            return self.chain(d, final_else=r.random() >= self.findings * 3)
        if k < 0.78:
            body = self.expr(d - 1)
            form = r.random()
            if form < 0.45:
                return "{ %s } <~ %s" % (body, self.wrap(self.expr(d - 1)))
            if form < 0.65:
                return "%s ~> { %s }" % (self.wrap(self.expr(d - 1)), body)
            if form < 0.8:
                return "{ %s } ~~" % body
            if form < 0.9:
                return "({ %s } ~ %s) <~ %s" % (body, self.atom(), self.atom())
            return "{ %s }" % body
        if k < 0.82:
            return "%s [ %s ]" % (self.atom(), self.expr(d - 1)) if r.random() < 0.5 else "[ %s ] %s" % (self.expr(d - 1), self.atom())
        if k < 0.86:
            return "%s%s%s" % (self.wrap(self.expr(d - 1)), r.choice(["\n\n", " ; ", " ;\n"]), self.wrap(self.expr(d - 1)))
        if k < 0.89:
            return r.choice(["`f %s" % self.wrap(self.expr(d - 1)), "%s f`" % self.wrap(self.expr(d - 1)),
                             "%s `g` %s" % (self.wrap(self.expr(d - 1)), self.wrap(self.expr(d - 1)))])
        if k < 0.92:
            return r.choice(["(%s).a" % self.expr(d - 1), "(%s).0" % self.expr(d - 1), "a.b", "(1 2 3).%s" % r.choice(["0", "1", "5"]),
                             "(:a = 1, :b = 2).a"])
        if k < 0.94:
            # loops: a counter in $ bounded by a small constant
            n = r.choice(["0", "1", "2", "3", "5"])
            body = "$ < %s ?> ^~ $ + 1 |> %s" % (n, self.wrap(self.expr(d - 1)))
            return "{ %s } <~ 0" % body
        if k < 0.94 + self.findings:
            return r.choice(["( )", "%s ?> ( )" % self.cond(d), "{ ( ) }", "1 + ($ < 2 ?> ^~ $ + 1)",
                             "%s |> %s" % (self.atom(), self.atom())])
        return self.wrap(self.expr(d - 1))

    def program(self):
        d = self.rng.choice([1, 2, 2, 3, 3, 4])
        return self.expr(d)


def loop_family(max_n):
    """(input, source) pairs: reapply loops parameterised by the iteration count (0..max_n)."""
    out = []
    for n in range(0, max_n + 1):
        out.append((0, "$ < %d ?> ^~ $ + 1" % n))                       # top-level loop, result unit when done
        out.append((0, "$ < %d ?> ^~ $ + 1 |> $ * 2" % n))              # with an else
        out.append((None, "{ $ < %d ?> ^~ $ + 1 |> $ } <~ 0" % n))       # loop inside an applied expression
        out.append((None, "5 + ({ $ < %d ?> ^~ $ + 1 |> $ } <~ 0)" % n))  # under a pending operand of the *caller*
        out.append((None, "{ $ < %d ?> ^~ ($ + 1) |> (1 2 $) } <~ 0" % n))
        out.append((n, "$ > 0 ?> ^~ $ - 1 |> :done"))                   # count down from the input
        out.append((None, "{ [ $ < %d ?> 1 ] $ < %d ?> ^~ $ + 1 |> $ } <~ 0" % (n, n)))  # side effect in the loop body
        out.append((None, "{ 1 + ($ < %d ?> ^~ $ + 1) } <~ 0" % n))      # known finding: reapply under a pending operand
    return out


def source_cases(rng, n, findings=0.04):
    g = Gen(rng, findings)
    seen, out = set(), []
    while len(out) < n:
        s = g.program()
        if s in seen or len(s) > 400:
            continue
        seen.add(s)
        out.append(s)
    return out


FIXED_SOURCES = [
    "", "5", "( )", "()", "{ }", "{5}", "5 + 6", "5 ?> 6", "5 !> 6", "5 ?> 6 |> 7", "$! ?> 1 |> $! ?> 2", "$? ?> 1 |> $! ?> 2",
    "5 ?> ( )", "1 ?> ( ) |> 2 ?> ( )", "{ ( ) }", "{ ( ) } ~~", "a && b", "a || b", "a && ( )", "1 |> 2", "1 2 3", "(1, 2 3, 4)",
    "{1 + ($ < 3 ?> ^~ $ + 1)} <~ 0", "{ $ + 1 } <~ 5", "5 ~> { $ * 2 }", "{ $ } ~~", "5 [6] 7", "[1] 2", "`f 5", "5 f`", "5 `g` 6",
    "\"s\" 'b' :s a.b", "1\n\n2", "1 ; 2", "^~ 5", "$ < 3 ?> ^~ $ + 1", "(1 ?> 2) + (3 ?> 4 |> 5)", "{ { $ + 1 } <~ $ } <~ 1",
    "({ $ } ~ 1) <~ 2", "1..3", "(1 2 3).1", "(:a = 1).a", "#5", "5 ~# #\"\"", "1 == 1 && 2 == 2 || 3", "{ 1 ?> 2 |> 3 } ~~",
    "5 ;;", ";;", "1 ?> 2 ;;", "5 ?> 7 |> ;;", "$ ?> 7 |> ;;",
    "1 + (5 ?> { })", "{ $ < 3 ?> ({ } <~ ($ + 1)) |> $ } <~ 0", "{ $ >= 3 ?> $ |> ({ } <~ ($ + 1)) } <~ 0", "a && { }", "5 ?> { }",
    "1 + (a || { })", "[ ]", "[ 5 ]", "1 [ ]", "5 ~~ [6]", "(1 2) [3] 4",
    "(:a = (:b = 5,),) <~ :a.b", "(:a = (:b = 5,),) <~ :a.c", "(:a = (:b = 5,),) <~ :x.b", "1, ((:a = (:b = 5,),) <~ :a.c), 3",
    "{ [(:a = (:b = 5,),) <~ :a.c] $ < 3 ?> ^~ ($ + 1) |> $ } <~ 0", "(1 2 3) <~ 7", "(1 2 3) <~ :b.0", "\"abc\" <~ 5", "(1..5) <~ 9",
    "1 (5) [2] 3", "1, (5) [2], 3", "{5} [2] 3", "7 + (1 (5) [2] 3)",
    "(1 2 3) == (1 2 :a)", "(:k = 1) == (:k = ())", "(1 2 3) != (1 :b 3)", "(1 2 3) == (:a 2 3)", "((1 2) 3) == ((1 :a) 3)",
    "$ == 3 || ^~ 3", "$ != 3 && ^~ 3", "$? && {}", "() || {}", "{ $ == 2 || ^~ 2 } <~ 0", "$ == 3 || (1 && ^~ 3)",
]


# runs of side-effect blocks: k blocks in a row (with / without blanks between them), with / without a leading operand,
# followed by a value in several spellings - the shapes in which "does this block have an operand" is decided by
# walking along the run
def block_runs():
    out = []
    for k in (1, 2, 3, 4, 5):
        for sep in (" ", ""):
            run = sep.join("[%d]" % (j + 1) for j in range(k))
            for lead in ("", "4 ", "4", "7, ", "(4) ", "{4}~~ "):
                for tail in (" 5", "5", " (5)", " 5 6", " + 5", "", " , 5", " {5}~~"):
                    out.append(lead + run + tail)
    return out


FIXED_SOURCES = FIXED_SOURCES + block_runs()


# ------------------------------------------------------------------ harness output
def fields(result):
    out = {}
    for f in result.split(" "):
        if "=" in f:
            k, v = f.split("=", 1)
            out[k] = v
    return out


def parse_listing(b):
    """'OK:entry:I[..]:J[..]:M[..]' -> dict(entry, instrs [(name, operand)], jumps [int|None], meta [int|None]) or None"""
    if not b or not b.startswith("OK:"):
        return None
    m = re.match(r"OK:(\d+):I\[(.*?)\]:J\[(.*?)\]:M\[(.*?)\]$", b)
    if not m:
        return None
    names = instructions()
    ins = []
    for t in filter(None, m.group(2).split(",")):
        mm = re.match(r"(\d+)(.*)$", t)
        if not mm:
            ins.append(("?", None))      # get_instruction returned nothing for this index
            continue
        op = mm.group(2)
        if op == "-":
            o = None
        elif op == "d" or op == "d?":
            o = ("d", op)
        elif op[0] == "n":
            o = ("n", int(op[1:]))
        elif op[0] == "x":
            o = ("x", int(op[1:]) if op[1:] != "?" else None)
        else:
            o = ("?", op)
        ins.append((names[int(mm.group(1))], o))
    js = [None if x == "-" else int(x) for x in filter(None, m.group(3).split(","))]
    ms = [None if x == "-" else int(x) for x in filter(None, m.group(4).split(","))]
    return {"entry": int(m.group(1)), "instrs": ins, "jumps": js, "meta": ms}


def parse_nodes(p):
    """'OK:root:[def.sec.parent.left.right.tok;...]' -> (root, [dict]) or None"""
    m = re.match(r"OK:(\d+):\[(.*)\]$", p or "")
    if not m:
        return None
    defs = definitions()
    nodes = []
    for t in filter(None, m.group(2).split(";")):
        a = t.split(".")
        o = lambda x: None if x == "-" else int(x)
        nodes.append({"def": defs[int(a[0])], "parent": o(a[2]), "left": o(a[3]), "right": o(a[4])})
    return int(m.group(1)), nodes


# ------------------------------------------------------------------ native well-formedness (C05)
LITERAL_DEFS = {"Unit", "False", "True", "Number", "CharList", "ByteList", "Symbol", "Property"}
NAME_DEFS = {"Identifier", "PrefixApply", "SuffixApply", "InfixApply"}
JUMPING = {"JumpTo", "JumpIfTrue", "JumpIfFalse", "And", "Or"}
BODY_REF = {"And", "Or", "JumpIfTrue", "JumpIfFalse"}
EXPECTED_TYPE = {"Unit": {"Unit"}, "False": {"False"}, "True": {"True"}, "Number": {"Number"}, "CharList": {"CharList", "Char"},
                 "ByteList": {"ByteList", "Byte"}, "Symbol": {"Symbol"}, "Property": {"Symbol"}}


def wf_native(lst, nodes, ilo=0, jlo=0, kinds=None):
    """The five clauses of Spec/WfCode.v evaluated on a real listing. Returns the list of
    failing clauses as strings 'clause: detail' (empty = well-formed).
    kinds: per instruction the data type index found at the operand address ('-' none, '!' unreadable)."""
    bad = []
    ins, js, ms = lst["instrs"], lst["jumps"], lst["meta"]
    ihi, jhi = ilo + len(ins), jlo + len(js)
    takes = takes_operand_table()
    dts = data_types()
    for k, (name, o) in enumerate(ins):
        ok = True
        if name == "?":
            ok = False
        elif o is None:
            ok = takes.get(name) is False
        elif o[0] == "d":
            # which node made the constant: the metadata record when there is one
            node = ms[k] if k < len(ms) else None
            if name == "Put":
                ok = o[1] == "d" and (node is None or (node < len(nodes) and nodes[node]["def"] in LITERAL_DEFS))
                if ok and kinds is not None and node is not None and node < len(nodes):
                    kt = kinds[k]
                    ok = kt not in ("!", "-") and dts[int(kt)] in EXPECTED_TYPE.get(nodes[node]["def"], set())
            elif name == "Resolve":
                ok = node is None or (node < len(nodes) and nodes[node]["def"] in NAME_DEFS)
                if ok and kinds is not None:
                    kt = kinds[k]
                    ok = kt not in ("!", "-") and dts[int(kt)] == "Symbol"
            else:
                ok = False
        elif o[0] == "x":
            ok = name == "Put" and o[1] is not None and jlo <= o[1] < jhi
        elif o[0] == "n":
            ok = name == "MakeList" or (name in JUMPING and jlo <= o[1] < jhi)
        else:
            ok = False
        if not ok:
            bad.append("operands: instruction %d %s %s" % (ilo + k, name, o))
    for k, t in enumerate(js):
        if t is None:
            bad.append("jumps: entry %d unreadable" % (jlo + k))
        elif k == 0:
            if not (t == ilo and t < ihi):
                bad.append("jumps: entry point %d -> %d (instructions %d..%d)" % (jlo, t, ilo, ihi))
        elif not (ilo < t < ihi):
            bad.append("jumps: entry %d -> %d (instructions %d..%d)" % (jlo + k, t, ilo, ihi))
    for k, (name, o) in enumerate(ins):
        j = None
        if name == "Put" and o is not None and o[0] == "x":
            j = o[1]
        elif name in BODY_REF and o is not None and o[0] == "n":
            j = o[1]
        if j is None or not (jlo <= j < jhi):
            continue
        t = js[j - jlo]
        if t is not None and t > ilo:
            p = t - 1 - ilo
            if not (0 <= p < len(ins) and ins[p][0] in ("EndExpression", "JumpTo")):
                bad.append("body starts: entry %d -> %d is entered by falling through" % (j, t))
    if ins and ins[-1][0] not in ("EndExpression", "JumpTo"):
        bad.append("last: the stream ends in %s" % ins[-1][0])
    if len(ms) != len(ins):
        bad.append("metadata: %d records for %d instructions" % (len(ms), len(ins)))
    for k, m in enumerate(ms):
        if m is not None and m >= len(nodes):
            bad.append("metadata: record %d names node %d of %d" % (k, m, len(nodes)))
    return bad


def wf_bits(bad):
    order = ["operands", "jumps", "body starts", "last", "metadata"]
    return "".join("0" if any(b.startswith(c) for b in bad) else "1" for c in order)


# ------------------------------------------------------------------ native depth typing (C06)
EFF2 = {"Add", "Subtract", "Multiply", "Divide", "IntegerDivide", "Power", "Remainder", "BitwiseAnd", "BitwiseOr", "BitwiseXor",
        "BitwiseShiftLeft", "BitwiseShiftRight", "Xor", "ApplyType", "TypeEqual", "Equal", "NotEqual", "LessThan", "LessThanOrEqual",
        "GreaterThan", "GreaterThanOrEqual", "MakePair", "PartialApply", "Access", "MakeRange", "MakeStartExclusiveRange",
        "MakeEndExclusiveRange", "MakeExclusiveRange", "Concat", "Apply"}
EFF1 = {"Opposite", "AbsoluteValue", "BitwiseNot", "Not", "Tis", "TypeOf", "AccessLeftInternal", "AccessRightInternal",
        "AccessLengthInternal", "EmptyApply"}


def effect(name, o):
    """(pops, pushes, value stack up, value stack down) or None for the jumping instructions"""
    if name in ("Put", "PutValue", "Resolve"):
        return (0, 1, 0, 0)
    if name == "PushValue":
        return (1, 0, 1, 0)
    if name == "UpdateValue":
        return (1, 0, 0, 0)
    if name == "StartSideEffect":
        return (0, 0, 1, 0)
    if name == "EndSideEffect":
        return (1, 0, 0, 1)
    if name in EFF2:
        return (2, 1, 0, 0)
    if name in EFF1:
        return (1, 1, 0, 0)
    if name == "MakeList":
        return (o[1], 1, 0, 0) if o is not None and o[0] == "n" else None
    if name == "Invalid":
        return (0, 0, 0, 0)
    return None


def succs(lst, pc, d, ilo=0, jlo=0):
    """successors of instruction pc at depth d=(r,v): list of (pc', d') or None (cannot execute)"""
    name, o = lst["instrs"][pc - ilo]
    r, v = d
    js = lst["jumps"]

    def target():
        if o is None or o[0] != "n":
            return None
        j = o[1] - jlo
        return js[j] if 0 <= j < len(js) else None

    if name == "JumpTo":
        t = target()
        return None if t is None else [(t, (r, v))]
    if name in ("JumpIfTrue", "JumpIfFalse"):
        t = target()
        return None if t is None or r < 1 else [(pc + 1, (r - 1, v)), (t, (r - 1, v))]
    if name in ("And", "Or"):
        t = target()
        return None if t is None or r < 1 else [(pc + 1, (r, v)), (t, (r - 1, v))]
    if name == "Reapply":
        t = target()
        return None if t is None or r < 1 else [(t, (r - 1, v))]
    if name == "EndExpression":
        return [] if d == (1, 0) else None
    e = effect(name, o) if name != "?" else None
    if e is None or r < e[0] or v < e[3]:
        return None
    return [(pc + 1, (r - e[0] + e[1], v - e[3] + e[2]))]


def infer_native(lst, ilo=0, jlo=0):
    """Abstract interpretation over all paths. Returns (depths or None, reason)."""
    ins, js = lst["instrs"], lst["jumps"]
    refs = [lst["entry"]] + [o[1] for (n, o) in ins if n == "Put" and o is not None and o[0] == "x"]
    work = []
    for j in refs:
        if j is None or not (jlo <= j < jlo + len(js)) or js[j - jlo] is None:
            return None, "entry %s has no jump entry" % j
        work.append((js[j - jlo], (0, 0)))
    d = [None] * len(ins)
    while work:
        pc, x = work.pop()
        if not (ilo <= pc < ilo + len(ins)):
            return None, "control reaches %d, outside the instruction stream" % pc
        y = d[pc - ilo]
        if y is not None:
            if y != x:
                return None, "instruction %d (%s) is reached at depths %s and %s" % (pc, ins[pc - ilo][0], y, x)
            continue
        nx = succs(lst, pc, x, ilo, jlo)
        if nx is None:
            return None, "instruction %d (%s) cannot execute at depth %s" % (pc, ins[pc - ilo][0], x)
        d[pc - ilo] = x
        work.extend(nx)
    return d, "ok"


# ------------------------------------------------------------------ classifiers (on the parse tree)
COND = ("JumpIfTrue", "JumpIfFalse")


def reachable(nodes, root):
    seen, st = [], [root]
    while st:
        i = st.pop()
        if i is None or i >= len(nodes) or i in seen:
            continue
        seen.append(i)
        st.append(nodes[i]["left"])
        st.append(nodes[i]["right"])
    return seen


def chain_elements(nodes, i):
    """elements of the else-chain whose head is node i, in source order"""
    n = nodes[i]
    out = []
    for c in (n["left"], n["right"]):
        if c is None:
            continue
        if nodes[c]["def"] == "ElseJump":
            out += chain_elements(nodes, c)
        else:
            out.append(c)
    return out


def valueless(nodes, i):
    """the inline code of the subtree pushes no operand (port of Proofs/C06/Known.v)"""
    if i is None or i >= len(nodes):
        return False
    n = nodes[i]
    d = n["def"]
    if d == "Group":
        return True if n["right"] is None else valueless(nodes, n["right"])
    if d == "SideEffect":
        return True if n["left"] is None else valueless(nodes, n["left"])
    if d == "ElseJump":
        return n["left"] is not None and n["right"] is not None and valueless(nodes, n["left"]) and valueless(nodes, n["right"])
    return False


VALUE_KINDS = {"Unit", "False", "True", "Number", "CharList", "ByteList", "Symbol", "Property", "Value", "Identifier", "ExpressionTerminator"}
PREFIX_UNARY = {"AbsoluteValue", "Opposite", "BitwiseNot", "Not", "Tis", "TypeOf", "AccessLeftInternal", "PrefixApply", "Reapply"}
SUFFIX_UNARY = {"EmptyApply", "AccessRightInternal", "AccessLengthInternal", "SuffixApply"}


def value_children(nodes, i):
    """children of node i that must each leave exactly one operand"""
    n = nodes[i]
    d = n["def"]
    if d in VALUE_KINDS or d in ("Group", "Drop"):
        return []
    if d in PREFIX_UNARY or d in ("SideEffect", "NestedExpression"):
        return [n["right"]]
    if d in SUFFIX_UNARY:
        return [n["left"]]
    if d == "ElseJump":
        return [c for c in (n["left"], n["right"]) if c is not None and c < len(nodes) and nodes[c]["def"] not in COND + ("ElseJump",)]
    return [n["left"], n["right"]]


def tree_classes(nodes, root):
    """The shapes that are listed findings, as a set of tags (port of Proofs/C06/Known.v):
       empty_group      a construct that has to leave a value leaves none: an empty group `( )` or a
                        free-standing side-effect block where one operand is required, or a block with an empty body
       chain_no_else    an else-chain whose last element is a conditional
       chain_early_else an else-chain with a non-conditional element before its end
       reapply_pending  `^~` somewhere other than the tail of its expression body
       terminator       a bare `;;`
       empty_program    no node at all"""
    tags = set()
    if not nodes:
        return {"empty_program"}
    reach = reachable(nodes, root)
    if valueless(nodes, root):
        tags.add("empty_group")
    for i in reach:
        n = nodes[i]
        d = n["def"]
        if any(c is not None and valueless(nodes, c) for c in value_children(nodes, i)):
            tags.add("empty_group")
        if d == "SideEffect" and n["right"] is None:
            tags.add("empty_group")
        if d == "ExpressionTerminator":
            tags.add("terminator")
        par = n.get("parent")
        if d == "ElseJump" and not (par is not None and par < len(nodes) and nodes[par]["def"] == "ElseJump"):
            # read at the head of the chain only: a nested ElseJump is a segment of its head's chain
            els = chain_elements(nodes, i)
            if els and nodes[els[-1]]["def"] in COND:
                tags.add("chain_no_else")
            if any(nodes[e]["def"] not in COND for e in els[:-1]):
                tags.add("chain_early_else")
        if d == "Reapply":
            if not reapply_in_tail(nodes, i):
                tags.add("reapply_pending")
    return tags


def reapply_in_tail(nodes, i):
    """True when no operand is pending and no side effect is open where node i's value is produced,
    up to the enclosing expression body."""
    c = i
    while True:
        p = nodes[c]["parent"]
        if p is None or p >= len(nodes):
            return True
        pd = nodes[p]["def"]
        if pd == "NestedExpression":
            return True
        if pd in ("Group",):
            pass
        elif pd in COND:
            if nodes[p]["right"] != c:
                return False      # in the condition: the jump pops it, but an operand is pending
        elif pd == "ElseJump":
            pass
        elif pd in ("Subexpression", "ExpressionSeparator"):
            pass                  # either side: nothing pending (left is consumed by UpdateValue)
        elif pd in ("And", "Or"):
            if nodes[p]["right"] != c:
                return False
        else:
            return False          # operand of an operator, list item, side effect, apply ...
        c = p


# ------------------------------------------------------------------ C05 classes (ports of Proofs/C05/Known.v)
def silent(nodes, i):
    """the subtree compiles to no instruction: a group with nothing inside, nested / combined by |>"""
    if i is None or i >= len(nodes):
        return False
    n = nodes[i]
    if n["def"] == "Group":
        return True if n["right"] is None else silent(nodes, n["right"])
    if n["def"] == "ElseJump":
        return n["left"] is not None and n["right"] is not None and silent(nodes, n["left"]) and silent(nodes, n["right"])
    return False


# ------------------------------------------------------------------ harness binary
def harness_exe(name):
    """(ok, path-of-a-private-copy or None, message). Builds the binary from /repo's current tree.
    VERIF_HARNESS_DIR (testing only): take <dir>/<name> as is - used to evaluate the check against a
    privately mutated copy of /repo without touching the shared /repo."""
    d = os.environ.get("VERIF_HARNESS_DIR")
    if d:
        path = os.path.join(d, name)
        return os.path.exists(path), vplib.private_copy(path) if os.path.exists(path) else None, "VERIF_HARNESS_DIR=" + d
    ok, out = vplib.cargo_build("debug", bins=[name])
    if not ok:
        return False, None, out[-400:]
    return True, vplib.private_copy(vplib.harness_bin(name)), ""
