"""Grammar-based generator of core-language source texts (mostly accepted by the
pipeline) and of token / character soups (mostly rejected).  All randomness
comes from the rng passed in."""

BINOPS = ["+", "-", "*", "/", "//", "%", "**", "&", "|", "^", "<<", ">>", "&&", "||", "^^",
          "==", "!=", "<", "<=", ">", ">=", "=", "..", ">..", "..<", ">..<", "<>", "~", "~>", "~|",
          ".", "#=", "~#", ","]
PREFIX = ["--", "++", "!", "!!", "??", "#", "_.", "`f "]
SUFFIX = ["._", ".|", "~~", " f`"]
ATOMS = ["5", "0", "10", "3.5", "a", "b", "value", ":sym", ":", "()", "$", "$?", "$!", '"s"', "'b'", '"two words"']


def atom(rng):
    return rng.choice(ATOMS)


def expr(rng, depth, ctx="any"):
    """returns source text of an expression"""
    if depth <= 0:
        return atom(rng)
    k = rng.random()
    if k < 0.18:
        return atom(rng)
    if k < 0.48:
        op = rng.choice(BINOPS)
        l, r = expr(rng, depth - 1), expr(rng, depth - 1)
        sp = rng.choice(["", " ", " "]) if op not in (".",) else ""
        if op == "," and rng.random() < 0.2:
            return l + ","
        return l + sp + op + sp + r
    if k < 0.56:
        op = rng.choice(PREFIX)
        return op + expr(rng, depth - 1)
    if k < 0.62:
        return expr(rng, depth - 1) + rng.choice(SUFFIX)
    if k < 0.72:
        return "(" + rng.choice(["", " "]) + expr(rng, depth - 1) + rng.choice(["", " "]) + ")"
    if k < 0.80:
        n = rng.randint(2, 4)
        return " ".join(expr(rng, depth - 2) for _ in range(n))
    if k < 0.86:
        c = expr(rng, depth - 1)
        op = rng.choice(["?>", "!>"])
        s = c + " " + op + " " + expr(rng, depth - 1)
        while rng.random() < 0.4:
            if rng.random() < 0.5:
                s += " |> " + expr(rng, depth - 2) + " " + rng.choice(["?>", "!>"]) + " " + expr(rng, depth - 2)
            else:
                s += " |> " + expr(rng, depth - 2)
                break
        return s
    if k < 0.91:
        body = expr(rng, depth - 1)
        tail = rng.choice(["", "~~", " ~ 5", " ~ (1 2)"])
        return "{" + rng.choice(["", " "]) + body + rng.choice(["", " "]) + "}" + tail
    if k < 0.95:
        return expr(rng, depth - 1) + rng.choice(["\n\n", " \n\n", ";", " ; "]) + expr(rng, depth - 1)
    if k < 0.98:
        return expr(rng, depth - 1) + " [" + expr(rng, depth - 2) + "]"
    return "{ $ < 3 ?> ^~ $ + 1 } ~ " + atom(rng)


def program(rng, max_depth=4):
    return expr(rng, rng.randint(0, max_depth))


SOUP_ALPHABET = list("5a +-*.,()[]{}$~?>|<=!:;\n\t\"'`@^&#%/_\\") + ["\n\n", " ", " ", "5", "a", "1 2", "é", "漢", "😀", "\r", "\x0c", "\x00"]


def char_soup(rng, max_len=14):
    return "".join(rng.choice(SOUP_ALPHABET) for _ in range(rng.randint(1, max_len)))


LIT_PIECES = ["1", "12", "255", " ", "  ", "é", "€", "٣", "a", "z", "\\", "\\n", "\\u{22}", "😀", "_", ".", "0", "x", "\t",
              "\\u{1é_2}", "\\u{٣}", "\\u{_}", "\\u{", "}", "1é_2", "٣_1",
              "\\u{D800}", "\\u{dfff}", "\\u{d83d}\\u{de00}", "\\u{110000}", "\\u{FFFFFFFF}", "\\u{}", "\\u{10FFFF}"]


def literal_soup(rng):
    """quoted literals (char lists / byte lists) in single-, triple- and longer-quote forms with
    multi-byte content, and number-like tokens with radix prefixes and separators"""
    k = rng.random()
    if k < 0.75:
        q = rng.choice(["'", '"'])
        n = rng.choice([1, 1, 2, 3, 3, 4, 5])
        body = "".join(rng.choice(LIT_PIECES) for _ in range(rng.randint(0, 5)))
        close = q * (n if rng.random() < 0.85 else rng.randint(1, 5))
        lit = q * n + body + close
    else:
        lit = rng.choice(["0", "1", "9", "016", "036", "010", "2", "0x", "1é", "٣", "é1"]) + rng.choice(["_", "", "__"]) + \
              "".join(rng.choice(list("0123456789azAZ_.") + ["é", "٣", "_", "_"]) for _ in range(rng.randint(1, 6)))
    pre = rng.choice(["", "", "5 + ", "(", "a ", ":s "])
    post = rng.choice(["", "", " + 5", ")", " b", ".0"])
    return pre + lit + post


def mutate_program(rng, src):
    """an accepted program with one random edit: mostly still lexable, often rejected by parse"""
    if not src:
        return char_soup(rng, 3)
    i = rng.randrange(len(src))
    k = rng.random()
    if k < 0.34:
        return src[:i] + src[i + 1:]
    if k < 0.67:
        return src[:i] + rng.choice(SOUP_ALPHABET) + src[i:]
    j = rng.randrange(len(src))
    a, b = min(i, j), max(i, j)
    return src[:a] + src[b:a:-1] + src[b + 1:] if b > a else src


def hexcp(s):
    return ",".join("%x" % ord(c) for c in s) if s else "-"


# ---------------------------------------------------------------- forms in contexts
# A systematic product: every construct (bare, in round brackets, in double brackets) placed at every operand
# position of every other construct - the shapes in which a builder / parser rule that keys on "the node directly
# below" (a conditional directly under a logical operator, a list directly under a list, a group standing in an
# else-chain ...) can go wrong.  Rejected combinations are part of the corpus too.
FORMS = ["5 ?> 6", "5 !> 6", "5 ?> 6 |> 7", "5 ?> 6 |> 0 ?> 7", "5 ?> 6 |> 0 !> 7 |> 8", "5 && 6", "5 || 6", "5 ^^ 6", "5 6", "5, 6",
         "5 = 6", "{5}", "{5}~~", "{$ < 3 ?> ^~ $ + 1} ~ 0", "5 [6]", "5;6", "--5", "5._", "5 + 6", "a.b", "()", "5 .. 6",
         "a <> b", "{$} ~ 6", "5 ~> {$}", "!!5", "5 == 6", ":s", "\"t\""]
WRAPS = ["%s", "(%s)", "((%s))"]
CONTEXTS = ["%s", "%s && 7", "7 && %s", "%s || 7", "7 || %s", "%s ^^ 7", "7 ^^ %s", "%s + 7", "7 + %s", "%s 7", "7 %s", "%s, 7", "7, %s",
            "%s = 7", "7 = %s", "%s ?> 7", "7 ?> %s", "7 ?> 8 |> %s", "%s |> 7", "7 !> %s", "--%s", "!!%s", "??%s", "%s._", "%s~~", "(%s)",
            "{%s}~~", "{%s} ~ 7", "7 ~> {%s}", "7 [%s]", "%s [7]", "%s;7", "7;%s", "%s\n\n7", "7\n\n%s", "%s.a", "%s ~ 7", "7 ~ %s",
            "%s <> 7", "7 <> %s", "%s .. 7", "%s == 7", "7 == %s", "%s < 7"]


def forms_in_contexts(rng, two_level_sample=None):
    """one level: every form x wrap x context; two levels: context(context(wrap(form))), all of them or a sample"""
    one = [c % (w % f) for f in FORMS for w in WRAPS for c in CONTEXTS]
    two = []
    if two_level_sample is None:
        two = [c1 % (w2 % (c2 % (w % f))) for f in FORMS for w in WRAPS[:2] for c2 in CONTEXTS[1:] for w2 in WRAPS[:2] for c1 in CONTEXTS[1:]]
    else:
        for _ in range(two_level_sample):
            f, w, c2, w2, c1 = rng.choice(FORMS), rng.choice(WRAPS), rng.choice(CONTEXTS[1:]), rng.choice(WRAPS[:2]), rng.choice(CONTEXTS[1:])
            two.append(c1 % (w2 % (c2 % (w % f))))
    return one + two
