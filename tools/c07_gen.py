"""Case generators for C07 (tools/props/c07.py): boundary operand pools, the operation x operand matrix,
the ~# cast matrix and a grammar-based generator of core-language programs seeded with boundary literals.
Everything random comes from the rng handed in (vplib.rng_for)."""
import struct

I32_MIN, I32_MAX = -2**31, 2**31 - 1
TYPES = ["Invalid", "Unit", "Number", "Type", "Char", "CharList", "Byte", "ByteList", "Symbol", "SymbolList", "Pair",
         "Range", "Concatenation", "Slice", "Partial", "List", "Expression", "External", "True", "False", "Custom"]
BINARY = ["Add", "Subtract", "Multiply", "Divide", "IntegerDivide", "Power", "Remainder", "BitwiseAnd", "BitwiseOr",
          "BitwiseXor", "BitwiseShiftLeft", "BitwiseShiftRight", "Xor", "TypeEqual", "Equal", "NotEqual", "LessThan",
          "LessThanOrEqual", "GreaterThan", "GreaterThanOrEqual", "MakePair", "Apply", "PartialApply", "Access",
          "MakeRange", "MakeStartExclusiveRange", "MakeEndExclusiveRange", "MakeExclusiveRange", "Concat", "ApplyType"]
UNARY = ["Opposite", "AbsoluteValue", "BitwiseNot", "Not", "Tis", "TypeOf", "EmptyApply", "AccessLeftInternal",
         "AccessRightInternal", "AccessLengthInternal", "PutValue", "PushValue", "UpdateValue", "StartSideEffect",
         "EndSideEffect", "EndExpression", "Invalid"]
WITH_DATA = ["Put", "And", "Or", "Resolve", "Reapply", "JumpIfTrue", "JumpIfFalse", "JumpTo", "MakeList"]


def i(v):
    return "i" + (("-%x" % -v) if v < 0 else ("%x" % v))


def f(x):
    return "f%016x" % struct.unpack("<Q", struct.pack("<d", x))[0]


def fbits(b):
    return "f%016x" % b


def txt(s):
    return ".".join("%x" % ord(c) for c in s) or "-"


def s(t):
    return "s" + txt(t)


def k(t):
    return "k" + txt(t)


def y(bs):
    return "y" + ("".join("%02x" % b for b in bs) or "-")


INF, NINF, NAN = fbits(0x7ff0000000000000), fbits(0xfff0000000000000), fbits(0x7ff8000000000000)

NUMBERS = [i(0), i(1), i(-1), i(2), i(3), i(5), i(31), i(32), i(33), i(-32), i(255), i(256), i(65536), i(I32_MAX), i(I32_MAX - 1),
           i(I32_MIN), i(I32_MIN + 1), f(0.0), f(-0.0), f(0.5), f(-0.5), f(1.0), f(1.5), f(2.5), f(-1.5), f(31.0), f(32.0),
           f(1e308), f(-1e308), f(1.7976931348623157e308), f(5e-324), f(4294967296.0), f(2147483648.0), f(-2147483649.0),
           f(1e19), f(1.8446744073709552e19), f(1e300), INF, NINF, NAN]
NUM_SMALL = [i(0), i(1), i(-1), i(2), i(32), i(I32_MAX), i(I32_MIN), f(0.5), f(-1.5), f(1e308), f(1e19), INF, NAN]
CHARS = ["c61", "ce9", "c10ffff", "c0", "c39", "c1f600"]
CHARLISTS = [s(""), s("a"), s("abc"), s("héllo"), s("12"), s("-5"), s("1.5"), s("2147483648"), s("-2147483649"), s("日本語"),
             s("\U0001f600"), s("x" * 300), s(" "), s("0x10"), s("é"), s("1e5")]
BYTES = ["b0", "b7", "bff"]
BYTELISTS = [y([]), y([7]), y([1, 2, 3]), y([1, 2, 3, 4]), y([1, 2, 3, 4, 5]), y([255] * 4), y([0xc3]), y([0xc3, 0xa9]), y(list(range(256)))]
SYMBOLS = [k("a"), k("b"), k(""), k("é"), k("zzz"), k("a b"), "K4d2", "Kffffffffffffffff"]
SYMLISTS = ["Y(%s,%s)" % (k("a"), k("b")), "Y(Y(%s,%s),%s)" % (k("a"), k("b"), k("c")), "Y(%s,%s)" % (k("a"), i(1)),
            "Y(%s,%s)" % (i(1), k("a")), "Y(%s,%s)" % (k("a"), f(1.5)), "Y(%s,%s)" % (k("a"), i(-1)), "Y(%s,%s)" % (k("é"), k("")), "Y(K1,K2)"]
PAIRS = ["P(%s,%s)" % (k("a"), i(1)), "P(%s,%s)" % (i(3), i(4)), "P(%s,P(%s,%s))" % (k("a"), k("b"), i(1)), "P(u,u)",
         "P(%s,L(%s,%s))" % (k("a"), i(1), i(2))]
L123 = "L(%s,%s,%s)" % (i(1), i(2), i(3))
LISTS = ["L()", "L(%s)" % i(5), "L(P(%s,%s),P(%s,%s))" % (k("a"), i(1), k("b"), i(2)), L123,
         "L(P(%s,L(P(%s,%s),P(%s,%s))),L(%s,%s))" % (k("a"), k("b"), i(7), k("c"), i(8), i(1), i(2)),
         "L(%s,P(%s,%s),%s)" % (i(1), k("a"), i(3), s("s")), "L(P(%s,%s),P(%s,%s))" % (k("a"), i(1), k("a"), i(2)),
         "L(%s)" % ",".join(i(n) for n in range(300)), "L(u,T,F)", "L(%s,%s)" % (s("ab"), y([1, 2])), "L(L(L(L())))"]
RANGES = ["R(%s,%s)" % (i(1), i(3)), "R(%s,%s)" % (i(0), i(0)), "R(%s,%s)" % (i(5), i(2)), "R(%s,%s)" % (f(0.5), f(2.5)),
          "R(%s,%s)" % (i(-2), i(2)), "R(u,u)", "R(%s,u)" % i(1), "R(u,%s)" % i(1), "R(%s,%s)" % (i(0), i(1000)),
          "R(%s,%s)" % (i(I32_MAX - 2), i(I32_MAX)), "R(%s,%s)" % (s("a"), s("b")), "R(%s,%s)" % (i(I32_MIN), i(I32_MIN + 2)),
          "r(%s,%s)" % (i(1), i(3)), "r(%s,%s)" % (i(3), i(1)), "R(%s,%s)" % (NAN, i(3)), "R(%s,%s)" % (i(0), NAN)]
# ranges whose iteration is a resource question (2^31 items), only used where nothing iterates them
RANGES_HUGE = ["R(%s,%s)" % (i(0), i(I32_MAX)), "R(%s,%s)" % (i(I32_MIN), i(I32_MAX)), "R(%s,%s)" % (f(0.0), f(1e308)),
               "R(%s,%s)" % (i(0), INF), "R(%s,%s)" % (NINF, INF)]
CONCATS = ["C(%s,%s)" % (i(1), i(2)), "C(%s,%s)" % ("L(P(%s,%s))" % (k("a"), i(1)), "L(P(%s,%s))" % (k("b"), i(2))),
           "C(C(%s,%s),%s)" % (i(1), i(2), i(3)), "C(%s,%s)" % (s("ab"), s("cd")), "C(%s,%s)" % (L123, L123), "C(u,u)",
           "C(%s,C(%s,%s))" % (i(1), i(2), i(3)), "C(%s,%s)" % (y([1]), y([2])), "C(L(),L())"]
SLICE_RANGES = ["R(%s,%s)" % (i(0), i(1)), "R(%s,%s)" % (i(1), i(2)), "R(%s,%s)" % (i(2), i(0)), "R(%s,%s)" % (i(-1), i(5)),
                "R(%s,%s)" % (f(0.5), f(1.5)), "R(%s,%s)" % (i(0), i(100)), "R(u,u)", "R(%s,%s)" % (i(0), i(I32_MAX)),
                "R(%s,%s)" % (i(I32_MIN), i(I32_MAX)), "R(%s,%s)" % (i(5), i(7)), "R(%s,%s)" % (i(I32_MAX), i(I32_MAX)),
                "R(%s,%s)" % (i(-5), i(-2)), "r(%s,%s)" % (i(0), i(1)), "R(%s,%s)" % (i(0), INF), "R(%s,%s)" % (NAN, NAN)]
SLICE_BASES = [L123, s("abcd"), s("héllo"), y([1, 2, 3, 4]), "C(C(%s,%s),%s)" % (i(1), i(2), i(3)),
               "Y(%s,%s)" % (k("a"), k("b")), "L(P(%s,%s),P(%s,%s))" % (k("a"), i(1), k("b"), i(2)), "L()", s(""), i(5), "u",
               "C(%s,%s)" % (L123, L123)]
SLICES = ["S(%s,%s)" % (b, r) for b in SLICE_BASES[:7] for r in SLICE_RANGES] + \
         ["S(%s,%s)" % (b, SLICE_RANGES[0]) for b in SLICE_BASES[7:]] + \
         ["S(S(%s,%s),%s)" % (L123, SLICE_RANGES[0], SLICE_RANGES[0]), "S(S(%s,%s),%s)" % (L123, SLICE_RANGES[1], SLICE_RANGES[5]),
          "S(S(%s,%s),%s)" % (s("abcd"), SLICE_RANGES[1], SLICE_RANGES[2]), "S(%s,%s)" % (L123, i(5)), "S(%s,%s)" % (L123, L123),
          "S(S(S(%s,%s),%s),%s)" % (L123, SLICE_RANGES[0], SLICE_RANGES[0], SLICE_RANGES[0])]
PARTIALS = ["A(x0,%s)" % i(5), "A(%s,%s)" % (i(9), i(5)), "A(e1,%s)" % i(5), "A(x99,%s)" % i(5), "A(x1,%s)" % L123]
EXPRS = ["x0", "x1", "x99"]
EXTERNALS = ["e0", "e99"]
TYPEVALS = ["t" + t for t in TYPES]
SIMPLE_VALS = ["u", "T", "F", "I", "Q"]


HUGE_MARKS = [i(I32_MAX), i(I32_MIN), INF, NINF, f(1e308), f(1e19), f(1e300), f(1.8446744073709552e19), f(4294967296.0), f(2147483648.0), f(-2147483649.0), f(-1e308)]


def is_huge(v):
    """a range / slice value whose span is of the order of 2^31 positions or more"""
    return ("R(" in v or "r(" in v) and any(m in v for m in HUGE_MARKS)


def full_pool():
    p = {
        "Number": NUMBERS, "Char": CHARS, "CharList": CHARLISTS, "Byte": BYTES, "ByteList": BYTELISTS, "Symbol": SYMBOLS,
        "SymbolList": SYMLISTS, "Pair": PAIRS, "List": LISTS, "Range": RANGES, "Concatenation": CONCATS, "Slice": SLICES,
        "Partial": PARTIALS, "Expression": EXPRS, "External": EXTERNALS, "Type": TYPEVALS, "Unit": ["u"], "True": ["T"],
        "False": ["F"], "Invalid": ["I"], "Custom": ["Q"],
    }
    return p


def small_pool(rng):
    """two to five representatives per type, always including the boundary ones"""
    p = full_pool()
    out = {}
    keep = {"Number": NUM_SMALL, "CharList": [s(""), s("a"), s("héllo"), s("12"), s("2147483648")],
            "ByteList": [y([]), y([1, 2, 3]), y([1, 2, 3, 4, 5])], "Range": RANGES[:8] + RANGES[12:14],
            "Slice": [SLICES[0], SLICES[2], SLICES[3], SLICES[4], SLICES[6], SLICES[15 + 1], SLICES[15 + 2], SLICES[30 + 2], SLICES[45 + 0],
                      SLICES[-6], SLICES[-4], SLICES[-3]],
            "List": LISTS[:7], "Type": ["tNumber", "tList", "tCharList"], "Concatenation": CONCATS[:6]}
    for t, vals in p.items():
        if t in keep:
            out[t] = list(keep[t])
        else:
            out[t] = vals[:3]
        extra = [v for v in vals if v not in out[t]]
        if extra:
            out[t].append(rng.choice(extra))
    return out


def flat(pool):
    return [v for t in TYPES for v in pool.get(t, [])]


def op_cases(tier, rng):
    """O cases: (a) every binary instruction x pairs of pool values, (b) unary instructions x pool values,
    (c) ~# casts: every pool value x every target type (type value and representative value)."""
    cases = []
    fullp = full_pool()
    allv = flat(fullp)
    small = flat(small_pool(rng))
    impls = ["S", "B"]
    iterating = {"ApplyType", "Concat", "Apply", "Equal", "NotEqual", "LessThan", "LessThanOrEqual", "GreaterThan", "GreaterThanOrEqual"}
    for op in BINARY:
        if tier == "thorough":
            ls, rs = allv, allv
        else:
            ls, rs = small, small
        if op == "ApplyType":
            continue
        for l in ls:
            for r in rs:
                for imp in impls:
                    cases.append("O %s A %s %s %s" % (imp, op, l, r))
        # huge ranges only where nothing iterates over the range
        if op not in iterating:
            for h in RANGES_HUGE:
                for o in small[::7]:
                    for imp in impls:
                        cases.append("O %s A %s %s %s" % (imp, op, h, o))
                        cases.append("O %s A %s %s %s" % (imp, op, o, h))
    # number x number for the arithmetic / range instructions: the whole lattice
    for op in BINARY[:12] + ["MakeRange", "MakeStartExclusiveRange", "MakeEndExclusiveRange", "MakeExclusiveRange", "LessThan", "Equal"]:
        for l in NUMBERS:
            for r in NUMBERS:
                for imp in impls:
                    cases.append("O %s A %s %s %s" % (imp, op, l, r))
    # access with every number on every container
    containers = LISTS + CHARLISTS[:6] + BYTELISTS[:5] + SYMLISTS + RANGES + RANGES_HUGE + CONCATS + SLICES + PAIRS
    for c in containers:
        for n in NUMBERS:
            for imp in impls:
                cases.append("O %s A Access %s %s" % (imp, c, n))
                if c[0] in "LYP":
                    cases.append("O %s A Apply %s %s" % (imp, c, n))
        for sym in SYMBOLS[:3] + SYMLISTS[:4]:
            for imp in impls:
                cases.append("O %s A Access %s %s" % (imp, c, sym))
                cases.append("O %s A Apply %s %s" % (imp, c, sym))
    # slicing: container ~ range, range ~ range, slice ~ range
    for c in SLICE_BASES + RANGES[:6] + SLICES[::5]:
        for r in SLICE_RANGES + RANGES:
            for imp in impls:
                cases.append("O %s A Apply %s %s" % (imp, c, r))
    for op in UNARY:
        for v in allv + RANGES_HUGE:
            for imp in impls:
                cases.append("O %s A %s %s -" % (imp, op, v))
                cases.append("O %s A %s - %s" % (imp, op, v))
        for imp in impls:
            cases.append("O %s A %s - -" % (imp, op))
    for op in WITH_DATA:
        for d in (0, 1, 2, 3, 99, 4294967296, 18446744073709551615):
            for v in small + ["-"]:
                for imp in impls:
                    cases.append("O %s A %s:%d %s %s" % (imp, op, d, v, v))
    # casts
    reps = {"Number": i(1), "Char": "c61", "CharList": s(""), "Byte": "b1", "ByteList": y([]), "Symbol": k("a"),
            "SymbolList": SYMLISTS[0], "Pair": PAIRS[0], "Range": RANGES[0], "Concatenation": CONCATS[0], "Slice": SLICES[0],
            "Partial": PARTIALS[0], "List": "L()", "Expression": "x0", "External": "e0", "Unit": "u", "True": "T", "False": "F",
            "Invalid": "I", "Custom": "Q", "Type": "tType"}
    for v in allv:
        if is_huge(v):
            # rendering / listing a slice or range of 2^31 positions is a resource question, not a panic question
            continue
        for t in TYPES:
            for imp in impls:
                cases.append("O %s A ApplyType %s t%s" % (imp, v, t))
        for t in ("CharList", "ByteList", "List", "Number", "Symbol", "Char", "Byte", "SymbolList", "Range"):
            for imp in impls:
                cases.append("O %s A ApplyType %s %s" % (imp, v, reps[t]))
    # the three hosts on a sample
    sample = rng.sample(cases, min(len(cases), 30000 if tier == "thorough" else 6000))
    for c in sample:
        p = c.split(" ")
        for h in "DY":
            cases.append(" ".join([p[0], p[1], h] + p[3:]))
    # deep nesting (native stack): depth 10^5 and a few smaller ones
    deep = []
    for kind in "LlPpCcSA":
        for depth in (999, 1001, 100000):
            v = "D%s%d(%s)" % (kind, depth, i(1) if kind not in "S" else L123)
            for t in ("CharList", "ByteList", "Symbol", "Number", "True"):
                deep.append("ApplyType %s t%s" % (v, t))
        # the iterative algorithms (explicit stacks in the data object) are quadratic on BasicGarnishData:
        # depth 20000 keeps a case under the watchdog's deadline
        for depth in (1000, 20000):
            v = "D%s%d(%s)" % (kind, depth, i(1) if kind not in "S" else L123)
            deep.append("ApplyType %s tList" % v)
            for op in ("Equal", "NotEqual", "LessThan", "Concat", "MakePair", "Add", "TypeEqual"):
                deep.append("%s %s %s" % (op, v, v))
            deep.append("Access %s %s" % (v, i(0)))
            deep.append("Access %s %s" % (v, k("k")))
            deep.append("Apply %s %s" % (v, i(0)))
            deep.append("Apply %s %s" % (v, "Y(%s,%s)" % (k("k"), k("k"))))
            for op in ("AccessLengthInternal", "AccessLeftInternal", "AccessRightInternal", "TypeOf", "EmptyApply", "Not"):
                deep.append("%s %s -" % (op, v))
    for d in deep:
        for imp in impls:
            cases.append("O %s A %s" % (imp, d))
    return cases


def random_value(rng, depth, leaves):
    """a value expression nested to `depth` over boundary leaves: slices of concatenations inside concatenations,
    lists of slices, ranges with boundary endpoints, ..."""
    if depth <= 0 or rng.random() < 0.25:
        return rng.choice(leaves)
    r = rng.random()
    sub = lambda: random_value(rng, depth - 1, leaves)
    rng_num = lambda: rng.choice([i(0), i(1), i(2), i(3), i(5), i(-1), i(-5), i(I32_MAX), i(I32_MIN), f(0.5), f(1.5), f(1e19), NAN, INF, "u"])
    if r < 0.25:
        return "S(%s,%s(%s,%s))" % (sub(), rng.choice("RRr"), rng_num(), rng_num())
    if r < 0.45:
        return "C(%s,%s)" % (sub(), sub())
    if r < 0.60:
        return "L(%s)" % ",".join(sub() for _ in range(rng.randint(0, 3)))
    if r < 0.70:
        return "P(%s,%s)" % (rng.choice([k("a"), k("b"), sub()]), sub())
    if r < 0.80:
        return "%s(%s,%s)" % (rng.choice("Rr"), rng_num(), rng_num())
    if r < 0.85:
        return "A(%s,%s)" % (rng.choice(["x0", "x1", "x99", sub()]), sub())
    if r < 0.90:
        return "Y(%s,%s)" % (rng.choice([k("a"), k("b"), i(1)]), rng.choice([k("c"), i(2), "Y(%s,%s)" % (k("a"), k("b"))]))
    return rng.choice(leaves)


def nested_cases(tier, rng):
    leaves = [i(1), i(2), i(0), i(-1), f(1.5), s("abc"), s("héllo"), s(""), y([1, 2, 3]), y([]), k("a"), "u", "T", L123, "L()",
              "L(P(%s,%s),P(%s,%s))" % (k("a"), i(1), k("b"), i(2)), "C(%s,%s)" % (i(1), i(2)), "x0", "e0", "tList", "c61", "b7",
              "Y(%s,%s)" % (k("a"), k("b"))]
    ops2 = ["Equal", "NotEqual", "LessThan", "GreaterThanOrEqual", "Concat", "Apply", "Access", "ApplyType", "MakePair", "Add", "PartialApply", "TypeEqual"]
    ops1 = ["AccessLengthInternal", "AccessLeftInternal", "AccessRightInternal", "EmptyApply", "TypeOf", "Not"]
    targets = ["tList", "tCharList", "tByteList", "tSymbol", "tNumber", "tChar", "tTrue", "tRange", "tSlice", "tConcatenation"]
    idx = [i(0), i(1), i(2), i(-1), i(I32_MAX), f(0.5), f(1e19), k("a"), "Y(%s,%s)" % (k("a"), i(0)), "R(%s,%s)" % (i(0), i(1)), "R(%s,%s)" % (i(1), i(0))]
    n = 60000 if tier == "thorough" else 8000
    cases = []
    for _ in range(n):
        a = random_value(rng, rng.randint(1, 3), leaves)
        if is_huge(a):
            # huge spans are probed deliberately by resource_cases under a short deadline
            continue
        op = rng.choice(ops2 + ops1)
        imp = rng.choice("SB")
        if op in ops1:
            cases.append("O %s A %s %s -" % (imp, op, a))
        elif op == "ApplyType":
            cases.append("O %s A ApplyType %s %s" % (imp, a, rng.choice(targets)))
        elif op in ("Apply", "Access"):
            cases.append("O %s A %s %s %s" % (imp, op, a, rng.choice(idx)))
        else:
            b = a if rng.random() < 0.3 else random_value(rng, rng.randint(1, 3), leaves)
            if is_huge(b):
                b = a
            cases.append("O %s A %s %s %s" % (imp, op, a, b))
            cases.append("O %s A %s %s %s" % ("B" if imp == "S" else "S", op, a, b))
    return cases


def resource_cases(tier, rng):
    """cases that materialise 2^31 or more positions of a range: listing / rendering them is a question of time and
    memory (known finding C07-K1), but they must still never PANIC.  Run under a short watchdog deadline."""
    cases = []
    huge = RANGES_HUGE + [v for v in SLICES if is_huge(v)][:6] + ["R(%s,%s)" % (i(3), f(1e19)), "R(%s,%s)" % (f(0.0), f(1.8446744073709552e19))]
    for v in huge:
        for t in ("List", "CharList", "ByteList", "Symbol"):
            for imp in "SB":
                cases.append("O %s A ApplyType %s t%s" % (imp, v, t))
    progs = ["(0 .. 2147483646) ~# (,)", "((0 - 2147483647) .. 2147483646) ~# (1,)", "(0.0 .. 1e19) ~# (,)", "((1 2 3) <~ (0 .. 2147483646)) ~# \"\"",
             "(0.0 .. 1e308) ~# (,)", "((1 2 3) <~ (0 .. 2147483646)) ~# (,)", "(0 .. 2147483646) ~# \"\""]
    for p in progs:
        src = ",".join("%x" % ord(c) for c in p)
        for imp in "SB":
            cases.append("P %s A 2000 %s" % (imp, src))
    return cases


def is_resource_case(case):
    """classifier of known finding C07-K1: the case asks for 10^7 or more positions of a range to be listed or rendered"""
    p = case.split(" ")
    if p[0] == "O":
        return any(is_huge(v) for v in p[4:6])
    if p[0] == "P":
        src = decode_program(case)
        if ".." not in src:
            return False
        import re
        for m in re.finditer(r"\d+(\.\d+)?(e\d+)?", src):
            t = m.group(0)
            try:
                if abs(float(t)) >= 1e7:
                    return True
            except (ValueError, OverflowError):
                return True
        return False
    return False


def x_cases(tier, rng):
    """index-arithmetic cases, observed through the public getters / single instructions on both stores and
    predicted by the extracted Coq model (ocaml/idx_driver.ml)"""
    nums = [n for n in NUMBERS]
    small_nums = [i(0), i(1), i(2), i(3), i(4), i(5), i(-1), i(-2), i(7), i(I32_MAX), i(I32_MIN), f(0.5), f(1.0), f(2.5), f(-0.5), f(3.0),
                  f(1e19), f(1.8446744073709552e19), f(1e308), INF, NINF, NAN, f(4294967296.0), f(2147483648.0)]
    for _ in range(30 if tier == "thorough" else 6):
        nums.append(i(rng.randint(I32_MIN, I32_MAX)))
        nums.append(f(rng.uniform(-10, 10)))
        nums.append(f(rng.uniform(-1, 1) * 10 ** rng.randint(0, 25)))
    lens = [0, 1, 2, 3, 5, 27, 300]
    cases = []
    for n in nums:
        cases.append("X usize S %s" % n)
    for imp in "SB":
        for kind in "lcbs":
            for ln in lens:
                for n in nums:
                    cases.append("X item %s %s %d %s" % (imp, kind, ln, n))
        for kind in "lcbsn":
            for ln in lens[:6]:
                for a in small_nums:
                    for b in small_nums:
                        cases.append("X iter %s %s %d %s %s" % (imp, kind, ln, a, b))
        for kind in "lcb":
            for ln in lens:
                for n in nums:
                    cases.append("X access %s %s %d %s" % (imp, kind, ln, n))
            for ln in (0, 3, 5):
                for n in small_nums:
                    for a in small_nums[:14]:
                        for b in small_nums[:14]:
                            cases.append("X access %s %s %d %s %s %s" % (imp, kind, ln, n, a, b))
        for a in small_nums:
            for b in small_nums:
                for n in small_nums:
                    cases.append("X raccess %s %s %s %s" % (imp, a, b, n))
                cases.append("X lenof %s R(%s,%s)" % (imp, a, b))
                for op in ("MakeRange", "MakeStartExclusiveRange", "MakeEndExclusiveRange", "MakeExclusiveRange"):
                    cases.append("X range %s %s %s %s" % (imp, op, a, b))
        # range -> list casts over moderate spans only (a span of 2^31 items is a resource question)
        span = [i(0), i(1), i(3), i(-2), i(5), i(40), i(100), f(0.5), f(2.5), f(-1.5), f(7.25), i(I32_MAX), i(I32_MAX - 2), i(I32_MIN), i(I32_MIN + 3), NAN]
        for a in span:
            for b in span:
                za, zb = val_of(a), val_of(b)
                if za is None or zb is None or zb - za < 3000:
                    cases.append("X cast %s R(%s,%s) List" % (imp, a, b))
    for imp in "SB":
        for n in list(range(0, 7)) + [4294967296]:
            for kk in range(0, 7):
                cases.append("X mklist %s %d %d" % (imp, n, kk))
        for kk in range(0, 6):
            cases.append("X eqregs %s %d" % (imp, kk))
    for n in range(0, 13):
        for stride in range(1, 6):
            cases.append("X endlist S %d %d" % (n, stride))
    for n in list(range(0, 18)) + [33, 64, 100]:
        for j in range(0, n + 3, 1 if n < 18 else 7):
            cases.append("X bsearch B %d %d" % (n, j))
    ints = [i(0), i(1), i(2), i(3), i(4), i(5), i(-1), i(-2), i(7), i(I32_MAX), i(I32_MIN), i(I32_MAX - 1), i(I32_MIN + 1)]
    for n in (2, 3, 5):
        for a in ints:
            for b in ints:
                cases.append("X cwin S %d %s %s" % (n, a, b))
    return cases


def val_of(t):
    """numeric value of a number token (None for NaN)"""
    if t[0] == "i":
        return int(t[1:], 16)
    x = struct.unpack("<d", struct.pack("<Q", int(t[1:], 16)))[0]
    return None if x != x else x


# ------------------------------------------------------------------ programs
LIT_NUM = ["0", "1", "2", "3", "5", "31", "32", "33", "2147483647", "2147483648", "0.5", "1.5", "2.5", "1e308", "179769313486231570000" + "0" * 288 + ".0",
           "1000000000000.0", "0.0", "255", "256", "100000", "4294967296.0", "1e19"]
LIT_TEXT = ['""', '"a"', '"abc"', '"héllo"', '"12"', '"-5"', '"2147483648"', '"日本語"', '"\U0001f600"', '"1.5"', '" "',
            "''", "'a'", "'abc'", "'é'", "'abcde'"]
LIT_SYM = [":a", ":b", ":zz", ":a.b", ":a.b.c", ":a.1", ":é"]
LIT_MISC = ["()", "$", "$?", "$!", "(,)", "(1,)", "(1 2 3)", "(:a = 1, :b = 2)", "(1, :a = 3, \"s\")", "ext", "lst", "txt", "zzz"]
NEG = ["(0 - 1)", "(0 - 2147483647 - 1)", "(0 - 0.5)", "(0 - 1.5)", "(0 - 32)", "(0 - 2147483647)"]
BIN_OPS = ["+", "-", "*", "/", "//", "%", "**", "&", "|", "^", "<<", ">>", "&&", "||", "^^", "==", "!=", "<", "<=", ">", ">=",
           "=", ".", "<>", "..", ">..", "..<", ">..<", "~", "~>", "<~", "#=", "~#", ","]
PRE_OPS = ["++", "--", "!", "!!", "??", "#", "_.", ]
SUF_OPS = ["._", "_.", ".|", "~~"]


def gen_expr(rng, depth):
    r = rng.random()
    if depth <= 0 or r < 0.22:
        pool = rng.choice([LIT_NUM, LIT_NUM, LIT_TEXT, LIT_SYM, LIT_MISC, NEG])
        return rng.choice(pool)
    if r < 0.62:
        op = rng.choice(BIN_OPS)
        a, b = gen_expr(rng, depth - 1), gen_expr(rng, depth - 1)
        if op == ",":
            return "(%s, %s)" % (a, b)
        return "(%s %s %s)" % (a, op, b)
    if r < 0.70:
        return "(%s%s)" % (rng.choice(["++", "--", "!", "!!", "??", "#"]), gen_expr(rng, depth - 1))
    if r < 0.78:
        return "(%s%s)" % (gen_expr(rng, depth - 1), rng.choice(SUF_OPS))
    if r < 0.80:
        return "(_.%s)" % gen_expr(rng, depth - 1)
    if r < 0.86:
        return "(%s)" % " ".join(gen_expr(rng, depth - 1) for _ in range(rng.randint(2, 4)))
    if r < 0.90:
        return "(%s ?> %s |> %s)" % (gen_expr(rng, depth - 1), gen_expr(rng, depth - 1), gen_expr(rng, depth - 1))
    if r < 0.93:
        return "(%s !> %s)" % (gen_expr(rng, depth - 1), gen_expr(rng, depth - 1))
    if r < 0.96:
        return "({%s} %s %s)" % (gen_expr(rng, depth - 1), rng.choice(["~", "<~", "<~"]), gen_expr(rng, depth - 1))
    if r < 0.98:
        return "(%s [%s])" % (gen_expr(rng, depth - 1), gen_expr(rng, depth - 1))
    return "(%s ~# %s)" % (gen_expr(rng, depth - 1), rng.choice(LIT_TEXT + LIT_SYM + ["(,)", "1", "#1", "#(,)", "#\"\"", "#''", "#:a", "(1..2)", "#(1..2)"]))


CAST_TARGETS = ['""', "''", ":a", "1", "(1,)", "#\"\"", "#''", "#:a", "#1", "#(1,)", "#(1..2)", "#$?", "#$!", "#()", "#(1 = 2)", "#(1 <> 2)",
                "#:a.b", "#((1 2 3) <~ (0..1))", "#{1}", "#\"a\".0", "#'a'.0", "#(#1)"]
CAST_SOURCES = LIT_NUM + LIT_TEXT + LIT_SYM + LIT_MISC + NEG + [
    "(1..3)", "(3..1)", "(1 >..< 5)", "(10 >..< 3)", "(1 >.. 3)", "(1 ..< 3)", "(0.5..2.5)", "(1 <> 2)", "((1 2) <> (3 4))", "(\"ab\" <> \"cd\")",
    "((1 2 3) <~ (0..1))", "((1 2 3) <~ (2..0))", "((1 2 3) <~ (0..100))", "(\"abcd\" <~ (1..2))", "(\"héllo\" <~ (1..3))", "('abcd' <~ (0..2))",
    "((1 <> 2 <> 3) <~ (0..1))", "(((1 2 3) <~ (0..1)) <~ (0..0))", "(:a.b <~ (0..1))", "(1 = 2)", "(:a = 1)", "{1}", "({$} <~ 1)", "\"a\".0", "'a'.0", "#1",
    "((0 - 5) .. 5)", "(2147483645 .. 2147483646)", "((1 2 3) <~ ((0-1)..1))", "((1 2 3) <~ (0.5..1.5))", "(\"abc\" <~ (5..9))",
    "(1..(0-3))", "((1, 2, 3) <~ (1 >..< 1))", "((1 2 3) <~ (1..3))", "(\"\" <~ (0..0))", "(('' <> '') <~ (0..1))"]
ACCESS_INDEXES = ["0", "1", "2", "3", "5", "(0-1)", "0.5", "1.5", "2147483647", "(0 - 2147483647 - 1)", "1e308", "(0 - 0.5)", ":a", ":zz", "\"a\"", "()", "(0..1)",
                  "4294967296.0", "(1e308 * 10)", "2.0"]


RANGE_POSITIONS_CAP = 10 ** 4


def tame_ranges(src):
    """Random programs must not list or render more than about 10^4 positions of a range (that is a question of
    time, probed deliberately by resource_cases, not of panics): in a program that builds a range, number literals
    of magnitude >= 100 become small ones and the operators that amplify a number (* ** <<) become +, so that no
    range endpoint computed from at most a handful of literals exceeds the cap."""
    if ".." not in src:
        return src
    import re

    def small(m):
        t = m.group(0)
        try:
            v = abs(float(t))
        except (ValueError, OverflowError):
            v = float("inf")
        if v < 100:
            return t
        return "7.5" if ("." in t or "e" in t) else "31"
    out = re.sub(r"\d+(\.\d+)?(e\d+)?", small, src)
    out = out.replace(" ** ", " + ").replace(" << ", " + ").replace(" * ", " + ")
    return out


def program_cases(tier, rng):
    progs = []
    # every cast source x every cast target
    for src in CAST_SOURCES:
        for t in CAST_TARGETS:
            progs.append("%s ~# %s" % (src, t))
    # every source accessed / applied with every boundary index
    for src in CAST_SOURCES:
        for ix in ACCESS_INDEXES:
            progs.append("%s . %s" % (src, ix) if not ix.startswith(":") else "%s.%s" % (src, ix[1:]))
            progs.append("%s <~ %s" % (src, ix))
            progs.append("%s ~ %s" % (src, ix))
        for suf in SUF_OPS:
            progs.append("%s%s" % (src, suf))
        progs.append("_.%s" % src)
    # binary operators x boundary literal pairs
    lits = LIT_NUM[:12] + NEG + ['""', '"a"', '"héllo"', "''", "'ab'", ":a", "()", "(1 2 3)", "(1..3)", "(3..1)", "$?", "(:a = 1)"]
    for op in BIN_OPS:
        if op == ",":
            continue
        for a in lits:
            for b in lits:
                progs.append("%s %s %s" % (a, op, b))
    for op in ["++", "--", "!", "!!", "??", "#"]:
        for a in lits + CAST_SOURCES:
            progs.append("%s%s" % (op, a))
    # loops / frames / side effects with boundary values
    progs += [
        '{ ($ . 0) < 600 ?> ^~ ((($ . 0) + 1), (($ . 1),)) |> (($ . 1) ~# "") } <~ (0, (1,))',
        '{ ($ . 0) < 600 ?> ^~ ((($ . 0) + 1), (($ . 1) <> 1)) |> (($ . 1) ~# "") } <~ (0, (1 <> 1))',
        '{ ($ . 0) < 600 ?> ^~ ((($ . 0) + 1), (:k = ($ . 1))) |> (($ . 1) ~# :a) } <~ (0, (1,))',
        '{ ($ . 0) < 600 ?> ^~ ((($ . 0) + 1), (($ . 1),)) |> (($ . 1) == ($ . 1)) } <~ (0, (1,))',
        "{ ($ . 0) < 600 ?> ^~ ((($ . 0) + 1), (($ . 1),)) |> (($ . 1) ~# '') } <~ (0, (1,))",
        "{$ < 5 ?> ^~ $ + 1 |> $} <~ 0", "{$ ?> ^~ $!} <~ $?", "{1 + ($ < 3 ?> ^~ $ + 1)} <~ 0", "{$ + 1} <~ 2147483647", "{$ << 32} <~ 1", "{$~~} <~ {5}",
        "{ $ . 0 } <~ (1 2 3)", "{ $ . 5 } <~ (1 2 3)", "{ $._ } <~ (1..2147483647)", "{ $.| } <~ (0 .. 2147483646)", "{ $.| } <~ ((0 - 2147483647 - 1) .. 2147483647)",
        "1 [2 + 3] + 4", "5 ~> {$ * 2}", "{ :a } <~ 1 ~ 2", "({$} <~ 1) ~ 2 ~ 3", "{ext} <~ 1", "ext <~ 5", "ext ~~", "lst . 1", "lst <~ (0..1)", "txt . 1", "txt ~# (,)",
        "(lst <~ (0..1)) ~# (,)", "zzz <~ 1", "(1 2 3) <~ :a.b", "(:a = (:b = 1,),) <~ :a.b", "(:a = (:b = 1,),) <~ :a.0", "(:a = (:b = 1,),) <~ :a.(0-1)",
        "5 ;; 6", "1\n\n2", "$ ?> 1 |> 2", "$! ?> 1 |> $! ?> 2", "5 ?> ( )", "( )", "{^~ $} <~ 1",
    ]
    # the repository's own script corpus
    import glob
    for path in sorted(glob.glob("/repo/tests/scripts/**/*.garnish", recursive=True)):
        try:
            progs.append(open(path, encoding="utf-8").read())
        except OSError:
            pass
    n_rand = 60000 if tier == "thorough" else 6000
    for _ in range(n_rand):
        e = gen_expr(rng, rng.randint(1, 4))
        if e.startswith("(") and e.endswith(")") and rng.random() < 0.7:
            e = e[1:-1]
        progs.append(tame_ranges(e))
    cases = []
    for n, p in enumerate(progs):
        src = ",".join("%x" % ord(c) for c in p) or "-"
        steps = 400000 if "600 ?>" in p else 2000
        for imp in "SB":
            cases.append("P %s A %d %s" % (imp, steps, src))
        if n % 3 == 0:
            for imp in "SB":
                for h in "DY":
                    cases.append("P %s %s 2000 %s" % (imp, h, src))
    return cases


def decode_program(case):
    p = case.split(" ")
    if p[0] != "P" or p[4] == "-":
        return ""
    return "".join(chr(int(x, 16)) for x in p[4].split(","))
