(* The statements of Properties/C01.v as corollaries of Proofs/C01/Main.stage4_program. *)
From Coq Require Import ZArith NArith List Bool Arith.
From GV Require Import Base.Result Base.Host Gen.Instr Model.Num Model.Value Model.Machine
  Model.CompileExpr Model.CompileWL Spec.Ast Spec.Printer Spec.Eval
  Proofs.C01.MachineFacts Proofs.C01.Fragment Proofs.C01.Stages Proofs.C01.Shape Proofs.C01.Main.
Import ListNotations.

Definition reaches (sym_hash : list N -> N) (hstate : Type) (host : hstate -> host_call -> hstate * option val)
           (e : expr) (vin : val) (h : hstate) (v : val) (h' : hstate) (t : trace) : Prop :=
  exists s0 fuel steps sfin,
    initial hstate (compile_prog sym_hash e) 0 vin h = Some s0 /\
    run hstate host fuel (compile_prog sym_hash e) s0 = REnd hstate sfin steps /\
    current_value hstate sfin = Some v /\ hs sfin = h' /\ observable (tr sfin) = t.

Lemma stage1_program : forall sym_hash hstate host, declines_defer hstate host ->
  forall e vin h n v h' t,
  stage1 e = true ->
  eval_prog sym_hash hstate host n e vin h = ODone v (h', t) ->
  reaches sym_hash hstate host e vin h v h' t.
Proof.
  intros sym_hash hstate host Hd e vin h n v h' t Hs He.
  destruct (stage1_frag e Hs) as (A & B & C).
  exact (stage3_program sym_hash hstate host Hd e vin h n v h' t A B (C true) He).
Qed.

Lemma stage2_program : forall sym_hash hstate host, declines_defer hstate host ->
  forall e vin h n v h' t,
  stage2 e = true -> shape_ok e = true -> seq_ok true e = true ->
  eval_prog sym_hash hstate host n e vin h = ODone v (h', t) ->
  reaches sym_hash hstate host e vin h v h' t.
Proof.
  intros sym_hash hstate host Hd e vin h n v h' t Hs Hsh Hsq He.
  exact (stage3_program sym_hash hstate host Hd e vin h n v h' t (stage2_frag e Hs) Hsh Hsq He).
Qed.

Lemma stage3_program' : forall sym_hash hstate host, declines_defer hstate host ->
  forall e vin h n v h' t,
  frag3 e = true -> shape_ok e = true -> seq_ok true e = true ->
  eval_prog sym_hash hstate host n e vin h = ODone v (h', t) ->
  reaches sym_hash hstate host e vin h v h' t.
Proof. intros. eapply stage3_program; eauto. Qed.

(* every construct: printable programs outside the two known-finding classes whose
   nested expressions are labelled with the jump-table indices of their bodies *)
Lemma all_programs : forall sym_hash hstate host, declines_defer hstate host ->
  forall e vin h n v h' t,
  printable e = true -> known_K1 e = false -> known_K2 e = false -> labels_ok e = true ->
  eval_prog sym_hash hstate host n e vin h = ODone v (h', t) ->
  reaches sym_hash hstate host e vin h v h' t.
Proof.
  intros sym_hash hstate host Hd e vin h n v h' t Hp Hk1 Hk2 Hl He.
  exact (stage4_program sym_hash hstate host Hd e vin h n v h' t
           (not_K2_frag e Hk2) (shape_of_printable e Hp Hk1) (seq_of_printable e Hp) Hl He).
Qed.

Lemma stage4_program' : forall sym_hash hstate host, declines_defer hstate host ->
  forall e vin h n v h' t,
  frag e = true -> shape_ok e = true -> seq_ok true e = true -> labels_ok e = true ->
  eval_prog sym_hash hstate host n e vin h = ODone v (h', t) ->
  reaches sym_hash hstate host e vin h v h' t.
Proof. intros. eapply stage4_program; eauto. Qed.

(* the same through the builder model: wherever the AST compiler and the
   transliterated builder (on the parsed printed tokens) produce the same
   program, the statement holds for the builder model's program *)
Definition reaches_built (sym_hash : list N -> N) (hstate : Type) (host : hstate -> host_call -> hstate * option val)
           (e : expr) (vin : val) (h : hstate) (v : val) (h' : hstate) (t : trace) : Prop :=
  exists p entry s0 fuel steps sfin,
    wl_program sym_hash e = Ok (p, entry) /\
    initial hstate p entry vin h = Some s0 /\
    run hstate host fuel p s0 = REnd hstate sfin steps /\
    current_value hstate sfin = Some v /\ hs sfin = h' /\ observable (tr sfin) = t.

Lemma all_programs_built : forall sym_hash hstate host, declines_defer hstate host ->
  forall e vin h n v h' t,
  wl_program sym_hash e = Ok (compile_prog sym_hash e, 0) ->
  printable e = true -> known_K1 e = false -> known_K2 e = false -> labels_ok e = true ->
  eval_prog sym_hash hstate host n e vin h = ODone v (h', t) ->
  reaches_built sym_hash hstate host e vin h v h' t.
Proof.
  intros sym_hash hstate host Hd e vin h n v h' t Hwl Hp Hk1 Hk2 Hl He.
  destruct (all_programs sym_hash hstate host Hd e vin h n v h' t Hp Hk1 Hk2 Hl He) as (s0 & fuel & steps & sfin & A & B & C).
  exists (compile_prog sym_hash e), 0, s0, fuel, steps, sfin. repeat split; auto; apply C.
Qed.
