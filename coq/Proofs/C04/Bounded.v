From Coq Require Import List Arith Bool NArith Lia.
From GV Require Import Base.Result Gen.TokenTypes Gen.Defs Gen.Instr Model.Parser Model.BuilderWL
  Spec.TreeShape Proofs.C03.Bounded.
Import ListNotations.

Lemma c04_ok_all_3 : forallb c04_ok (seqs_upto all_token_type 3) = true.
Proof. vm_compute. reflexivity. Qed.

Theorem c04_bounded_3 (toks : list token_type) : length toks <= 3 -> c04_ok toks = true.
Proof.
  intros H. pose proof c04_ok_all_3 as F. rewrite forallb_forall in F. apply F.
  apply seqs_upto_complete; [intros a _; apply all_token_type_complete|exact H].
Qed.

(* the checker is not vacuous: it accepts a real tree and rejects a cyclic graph *)
Example c04_accepts_sum : c04_ok [TT_Number; TT_PlusSign; TT_Number] = true.
Proof. vm_compute. reflexivity. Qed.

Example proper_tree_rejects_cycle :
  proper_tree_b [mkNode D_Number S_Value (Some 1) None None (Some 0);
                 mkNode D_Addition S_BinaryLeftToRight (Some 2) (Some 0) (Some 2) (Some 1);
                 mkNode D_Addition S_BinaryLeftToRight None (Some 1) (Some 1) (Some 2)] 2 = false.
Proof. vm_compute. reflexivity. Qed.
