(* (b) continued: every kind of loop iteration that occurs in a bracket-free operator
   expression -- whitespace, value (with and without the implicit list), prefix (with
   and without the implicit list), suffix, binary -- unfolded from Model.Parser.step. *)
From Coq Require Import List Arith Bool NArith Lia.
From GV Require Import Base.Result Gen.TokenTypes Gen.Defs Model.Parser Spec.RefTable Spec.Pratt Spec.Chains
  Proofs.C02.Denote Proofs.C02.Invariant Proofs.C02.Steps Proofs.C02.Struct.
Import ListNotations.

Definition adj_ok (ns : list pnode) (ll : option nat) : Prop :=
  ll = None \/ exists l ln, ll = Some l /\ nth_error ns l = Some ln /\
                            definition_eqb (n_def ln) D_SideEffect = false.

Lemma adj_simpl ns ll (ps psig : secondary) :
  adj_ok ns ll ->
  match ll with
  | Some li =>
      match nth_error ns li with
      | Some n =>
          if definition_eqb (n_def n) D_SideEffect && negb (opt_nat_eqb ll None) &&
             match n_parent n with Some _ => true | None => false end &&
             match n_left n with Some _ => false | None => true end
          then Ok (n_parent n, ps, psig)
          else Ok (ll, ps, psig)
      | None => impl_err
      end
  | None => Ok (ll, ps, psig)
  end = Ok (ll, ps, psig).
Proof. intros [->|(l & ln & -> & Hln & Hse)]; [reflexivity|]. rewrite Hln, Hse. reflexivity. Qed.

Ltac fields :=
  cbn [nodes next_parent last_left check_for_list last_token next_last_left group_stack
       current_group prev_sec prev_sig separated se_prev bind].

Lemma forbidden_ws p c : forbidden p S_Whitespace c = false.
Proof. destruct p; reflexivity. Qed.

(* ---- whitespace ---- *)
Lemma step_ws_unfold ntoks i st :
  current_group st = None -> adj_ok (nodes st) (last_left st) ->
  step ntoks i TT_Whitespace st =
    do cfl <- space_list_check st None;
    Ok (mkState (nodes st) (next_parent st)
                (match last_left st with
                 | Some k => Some k
                 | None => match nodes st with [] => None | _ :: _ => Some (length (nodes st)) end
                 end)
                cfl (Some i) None (group_stack st) None S_Whitespace (prev_sig st) true (se_prev st)).
Proof.
  intros Hcg Hadj.
  destruct st as [ns np ll cfl lt nll gs cg ps psig sep sep_prev]. fields. cbn [nodes last_left current_group] in *.
  subst cg. unfold step. fields. rewrite (adj_simpl ns ll ps psig Hadj). fields.
  cbn [get_definition]. fields. rewrite forbidden_ws. cbn [negb andb]. fields.
  destruct (space_list_check _ None) as [c| | |]; cbn [bind]; reflexivity.
Qed.

(* ---- suffix operator ---- *)
Lemma step_suffix_unfold ntoks i tok st d :
  get_definition tok = (d, S_UnarySuffix) ->
  definition_eqb d D_Drop = false -> definition_eqb d D_Identifier = false ->
  current_group st = None -> next_last_left st = None -> adj_ok (nodes st) (last_left st) ->
  forbidden (prev_sec st) S_UnarySuffix (check_for_list st) = false ->
  separated st && forbidden_separated (prev_sig st) S_UnarySuffix (check_for_list st) = false ->
  step ntoks i tok st =
    do r2 <- parse_token (length (nodes st)) d (last_left st) (nodes st) None false;
    let '(ns2, parent, tl) := r2 in
    Ok (mkState (ns2 ++ [mkNode d S_UnarySuffix parent tl None (Some i)])
                (Some (length (nodes st))) (Some (length (nodes st))) false (Some i) None
                (group_stack st) None S_UnarySuffix S_UnarySuffix false (se_prev st)).
Proof.
  intros Hg Hdrop Hid Hcg Hnll Hadj Hforb Hsep.
  destruct st as [ns np ll cfl lt nll gs cg ps psig sep sep_prev]. fields.
  cbn [nodes next_parent last_left check_for_list last_token next_last_left group_stack
       current_group prev_sec prev_sig separated se_prev] in *.
  subst cg nll. unfold step. fields. rewrite (adj_simpl ns ll ps psig Hadj). fields. rewrite Hg. fields.
  rewrite Hforb. cbn [negb andb] in *. rewrite Hsep. fields.
  destruct (parse_token (length ns) d ll ns None false) as [[[ns2 parent] tl]| | |]; cbn [bind]; try reflexivity.
  fields. rewrite Hdrop, Hid. rewrite app_last_match. reflexivity.
Qed.

(* ---- prefix operator, no list pending ---- *)
Lemma step_prefix_unfold ntoks i tok st d :
  get_definition tok = (d, S_UnaryPrefix) ->
  definition_eqb d D_Drop = false -> definition_eqb d D_Identifier = false ->
  current_group st = None -> next_last_left st = None -> check_for_list st = false ->
  adj_ok (nodes st) (last_left st) ->
  forbidden (prev_sec st) S_UnaryPrefix false = false ->
  separated st && forbidden_separated (prev_sig st) S_UnaryPrefix false = false ->
  step ntoks i tok st =
    Ok (mkState (nodes st ++ [mkNode d S_UnaryPrefix (next_parent st) None
                                (if Nat.leb ntoks (i + 1) then None else Some (length (nodes st) + 1)) (Some i)])
                (Some (length (nodes st))) (Some (length (nodes st))) false (Some i) None
                (group_stack st) None S_UnaryPrefix S_UnaryPrefix false (se_prev st)).
Proof.
  intros Hg Hdrop Hid Hcg Hnll Hcfl Hadj Hforb Hsep.
  destruct st as [ns np ll cfl lt nll gs cg ps psig sep sep_prev]. fields.
  cbn [nodes next_parent last_left check_for_list last_token next_last_left group_stack
       current_group prev_sec prev_sig separated se_prev] in *.
  subst cg nll cfl. unfold step. fields. rewrite (adj_simpl ns ll ps psig Hadj). fields. rewrite Hg. fields.
  rewrite Hforb. cbn [negb andb] in *. rewrite Hsep. fields.
  rewrite Hdrop, Hid. rewrite app_last_match. reflexivity.
Qed.

(* ---- value with the implicit list pending ---- *)
Lemma step_value_list_unfold ntoks i tok st d sec :
  get_definition tok = (d, sec) -> is_atom_sec sec = true -> definition_eqb d D_Drop = false ->
  current_group st = None -> check_for_list st = true ->
  adj_ok (nodes st) (last_left st) ->
  forbidden (prev_sec st) sec true = false ->
  separated st && forbidden_separated (prev_sig st) sec true = false ->
  step ntoks i tok st =
    do ns <- make_list_node (length (nodes st)) (length (nodes st) + 1) st None;
    do r2 <- parse_token (length (nodes st) + 1) d (Some (length (nodes st))) ns None false;
    let '(ns2, parent, tl) := r2 in
    Ok (mkState (ns2 ++ [mkNode (atom_def d parent ns2) sec parent tl None (Some i)])
                (next_parent st) (Some (length ns)) false (Some i) None
                (group_stack st) None sec sec false (se_prev st)).
Proof.
  intros Hg Hs Hdrop Hcg Hcfl Hadj Hforb Hsep.
  destruct st as [ns np ll cfl lt nll gs cg ps psig sep sep_prev]. fields.
  cbn [nodes next_parent last_left check_for_list last_token next_last_left group_stack
       current_group prev_sec prev_sig separated se_prev] in *.
  subst cg cfl. unfold step. fields. rewrite (adj_simpl ns ll ps psig Hadj). fields. rewrite Hg. fields.
  rewrite Hforb.
  destruct sec; try discriminate; cbn [negb andb] in *; rewrite Hsep; fields;
  (destruct (make_list_node _ _ _ None) as [nsl| | |]; cbn [bind]; try reflexivity);
  (destruct (parse_token _ d _ nsl None false) as [[[ns2 parent] tl]| | |]; cbn [bind]; try reflexivity);
  fields; rewrite Hdrop; reflexivity.
Qed.

(* ---- prefix operator with the implicit list pending ---- *)
Lemma step_prefix_list_unfold ntoks i tok st d :
  get_definition tok = (d, S_UnaryPrefix) ->
  definition_eqb d D_Drop = false -> definition_eqb d D_Identifier = false ->
  current_group st = None -> check_for_list st = true ->
  adj_ok (nodes st) (last_left st) ->
  forbidden (prev_sec st) S_UnaryPrefix true = false ->
  separated st && forbidden_separated (prev_sig st) S_UnaryPrefix true = false ->
  step ntoks i tok st =
    do ns <- make_list_node (length (nodes st)) (length (nodes st) + 1) st None;
    Ok (mkState (ns ++ [mkNode d S_UnaryPrefix (Some (length (nodes st))) None
                          (Some (length (nodes st) + 1 + 1)) (Some i)])
                (Some (length (nodes st) + 1)) (Some (length ns)) false (Some i) None
                (group_stack st) None S_UnaryPrefix S_UnaryPrefix false (se_prev st)).
Proof.
  intros Hg Hdrop Hid Hcg Hcfl Hadj Hforb Hsep.
  destruct st as [ns np ll cfl lt nll gs cg ps psig sep sep_prev]. fields.
  cbn [nodes next_parent last_left check_for_list last_token next_last_left group_stack
       current_group prev_sec prev_sig separated se_prev] in *.
  subst cg cfl. unfold step. fields. rewrite (adj_simpl ns ll ps psig Hadj). fields. rewrite Hg. fields.
  rewrite Hforb. cbn [negb andb] in *. rewrite Hsep. fields.
  destruct (make_list_node _ _ _ None) as [nsl| | |]; cbn [bind]; try reflexivity.
  fields. rewrite Hdrop, Hid. reflexivity.
Qed.

(* ---- finite facts about suffix and prefix operator tokens and the list definition ---- *)
Definition op_def_ok (d : definition) (rtl : bool) : bool :=
  negb (definition_eqb d D_SideEffect) &&
  match priority d, ref_rank d with
  | Some my, Some p =>
    negb (walk_stop my 10 rtl) && N.ltb p INF &&
    forallb (fun d' => implb (frameable d') (cmp_ok d my rtl d')) all_definition
  | _, _ => false
  end.

Lemma op_def_facts d rtl : op_def_ok d rtl = true -> exists my p, op_facts d rtl my p.
Proof.
  unfold op_def_ok. intros H. apply andb_true_iff in H. destruct H as [H1 H2].
  destruct (priority d) as [my|] eqn:Ep; [|discriminate H2].
  destruct (ref_rank d) as [p|] eqn:Er; [|discriminate H2].
  apply andb_true_iff in H2. destruct H2 as [H2 H4]. apply andb_true_iff in H2. destruct H2 as [H2 H3].
  exists my, p. constructor.
  - apply negb_true_iff. exact H1.
  - exact Ep.
  - exact Er.
  - apply negb_true_iff. exact H2.
  - apply N.ltb_lt. exact H3.
  - rewrite forallb_forall in H4. intros d' Hd'. specialize (H4 d' (all_definitions_in d')).
    rewrite Hd' in H4. exact H4.
Qed.

Lemma list_def_ok : op_def_ok D_List false = true /\ frameable D_List = true.
Proof. vm_compute. split; reflexivity. Qed.

Definition suffix_tok_ok (t : token_type) : bool :=
  negb (is_suffix_tok t) ||
  (let '(d, sec) := get_definition t in
   definition_eqb d (ref_def t) && secondary_eqb sec S_UnarySuffix &&
   negb (definition_eqb d D_Drop) && negb (definition_eqb d D_Identifier) && op_def_ok d false).

Lemma suffix_toks_ok : forallb suffix_tok_ok all_token_type = true.
Proof. vm_compute. reflexivity. Qed.

Lemma secondary_eqb_eq a b : secondary_eqb a b = true -> a = b.
Proof. destruct a; destruct b; intros H; try reflexivity; vm_compute in H; discriminate H. Qed.

Lemma suffix_tok_facts t : is_suffix_tok t = true ->
  get_definition t = (ref_def t, S_UnarySuffix) /\
  definition_eqb (ref_def t) D_Drop = false /\ definition_eqb (ref_def t) D_Identifier = false /\
  exists my p, op_facts (ref_def t) false my p.
Proof.
  intros Hs. pose proof suffix_toks_ok as F. rewrite forallb_forall in F.
  specialize (F t (all_tokens_in t)). unfold suffix_tok_ok in F. rewrite Hs in F.
  change (negb true || ?x) with x in F.
  destruct (get_definition t) as [d sec] eqn:Eg.
  apply andb_true_iff in F. destruct F as [F F5].
  apply andb_true_iff in F. destruct F as [F F4].
  apply andb_true_iff in F. destruct F as [F F3].
  apply andb_true_iff in F. destruct F as [F1 F2].
  apply definition_eqb_eq in F1. subst d. apply secondary_eqb_eq in F2. subst sec.
  split; [reflexivity|]. split; [apply negb_true_iff; exact F3|]. split; [apply negb_true_iff; exact F4|].
  apply op_def_facts. exact F5.
Qed.

Definition prefix_tok_ok (t : token_type) : bool :=
  negb (is_prefix_tok t) ||
  (let '(d, sec) := get_definition t in
   definition_eqb d (ref_def t) && secondary_eqb sec S_UnaryPrefix &&
   negb (definition_eqb d D_Drop) && negb (definition_eqb d D_Identifier) && frameable d &&
   match ref_rank d with Some p => N.ltb p INF | None => false end).

Lemma prefix_toks_ok : forallb prefix_tok_ok all_token_type = true.
Proof. vm_compute. reflexivity. Qed.

Lemma prefix_tok_facts t : is_prefix_tok t = true ->
  get_definition t = (ref_def t, S_UnaryPrefix) /\
  definition_eqb (ref_def t) D_Drop = false /\ definition_eqb (ref_def t) D_Identifier = false /\
  frameable (ref_def t) = true /\ exists p, ref_rank (ref_def t) = Some p /\ (p < INF)%N.
Proof.
  intros Hs. pose proof prefix_toks_ok as F. rewrite forallb_forall in F.
  specialize (F t (all_tokens_in t)). unfold prefix_tok_ok in F. rewrite Hs in F.
  change (negb true || ?x) with x in F.
  destruct (get_definition t) as [d sec] eqn:Eg.
  apply andb_true_iff in F. destruct F as [F F6].
  apply andb_true_iff in F. destruct F as [F F5].
  apply andb_true_iff in F. destruct F as [F F4].
  apply andb_true_iff in F. destruct F as [F F3].
  apply andb_true_iff in F. destruct F as [F1 F2].
  apply definition_eqb_eq in F1. subst d. apply secondary_eqb_eq in F2. subst sec.
  split; [reflexivity|]. split; [apply negb_true_iff; exact F3|]. split; [apply negb_true_iff; exact F4|].
  split; [exact F5|]. destruct (ref_rank (ref_def t)) as [p|]; [|discriminate F6].
  exists p. split; [reflexivity|apply N.ltb_lt; exact F6].
Qed.

(* what a frame's definition is not: value-like, a group, a side effect *)
Definition frame_def_ok2 (d : definition) : bool :=
  implb (frameable d)
    (negb (is_value_like d) && negb (definition_eqb d D_Group) && negb (definition_eqb d D_NestedExpression)
     && negb (definition_eqb d D_SideEffect)).

Lemma frame_defs_ok2 : forallb frame_def_ok2 all_definition = true.
Proof. vm_compute. reflexivity. Qed.

Lemma frame_def_facts2 d : frameable d = true ->
  is_value_like d = false /\ definition_eqb d D_Group = false /\
  definition_eqb d D_NestedExpression = false /\ definition_eqb d D_SideEffect = false.
Proof.
  intros H. pose proof frame_defs_ok2 as F. rewrite forallb_forall in F. specialize (F d (all_definitions_in d)).
  unfold frame_def_ok2 in F. rewrite H in F. cbn [implb] in F.
  apply andb_true_iff in F. destruct F as [F F4]. apply andb_true_iff in F. destruct F as [F F3].
  apply andb_true_iff in F. destruct F as [F1 F2].
  repeat split; apply negb_true_iff; assumption.
Qed.

Lemma prio10_value_like d : priority d = Some 10%N -> is_value_like d = true.
Proof. destruct d; intros H; try reflexivity; vm_compute in H; discriminate H. Qed.

(* ---- the loop state, with the whitespace mode ---- *)
Definition compl_mode (sp : bool) (st : pstate) : Prop :=
  ends_value (prev_sig st) = true /\
  if sp then check_for_list st = true /\ separated st = true /\ prev_sec st = S_Whitespace
  else check_for_list st = false /\ separated st = false /\ ends_value (prev_sec st) = true.

Definition pend_mode (sp : bool) (st : pstate) : Prop :=
  check_for_list st = false /\ pending_prev (prev_sig st) /\
  if sp then separated st = true /\ prev_sec st = S_Whitespace
  else separated st = false /\ pending_prev (prev_sec st).

Record gpend (st : pstate) (fs : list frame) (sp : bool) : Prop := mkGP {
  gp_struct : pstruct (nodes st) fs;
  gp_ll : last_left st = top_id fs;
  gp_np : next_parent st = top_id fs;
  gp_cg : current_group st = None;
  gp_gs : group_stack st = [];
  gp_nll : next_last_left st = None;
  gp_mode : pend_mode sp st
}.

Record gcompl (st : pstate) (fs : list frame) (t : ntree) (sp : bool) : Prop := mkGC {
  gc_struct : cstruct (nodes st) fs t;
  gc_ll : last_left st = Some (nid t);
  gc_cg : current_group st = None;
  gc_gs : group_stack st = [];
  gc_nll : next_last_left st = None;
  gc_mode : compl_mode sp st
}.

Lemma init_gpend : gpend init_state [] false.
Proof.
  constructor; simpl; auto; [exact pstruct_init|].
  split; [reflexivity|]. split; [left; reflexivity|]. split; [reflexivity|left; reflexivity].
Qed.

Lemma gcompl_adj st fs t sp : gcompl st fs t sp -> adj_ok (nodes st) (last_left st).
Proof.
  intros G. right. rewrite (gc_ll _ _ _ _ G).
  destruct (closed_operand_root _ _ _ (lk_den _ _ _ (cs_linked _ _ _ (gc_struct _ _ _ _ G)))
              (cs_closed _ _ _ (gc_struct _ _ _ _ G))) as (ln & Hln & Hse).
  exists (nid t), ln. auto.
Qed.

Lemma gpend_adj st fs sp : gpend st fs sp -> adj_ok (nodes st) (last_left st).
Proof.
  intros G. rewrite (gp_ll _ _ _ G). destruct (gp_struct _ _ _ G) as [Sp _ _ _ FO].
  destruct fs as [|f r]; [left; reflexivity|right].
  simpl in Sp. destruct Sp as [S1 _]. destruct (frame_node_walk _ _ _ _ S1) as (nf & Hnf & Hdf & _).
  destruct (frame_def_facts _ (FO f (or_introl eq_refl))) as (their & q & _ & _ & _ & Hse).
  exists (frame_id f), nf. rewrite Hdf. auto.
Qed.

(* forbidden-composition facts for the modes *)
Lemma forb_compl_op sp st sec :
  compl_mode sp st -> (is_bin_sec sec = true \/ sec = S_UnarySuffix) ->
  forbidden (prev_sec st) sec (check_for_list st) = false /\
  separated st && forbidden_separated (prev_sig st) sec (check_for_list st) = false.
Proof.
  intros [Hsig M] Hsec. destruct sp.
  - destruct M as (-> & -> & ->).
    split; [destruct Hsec as [Hs| ->]; [destruct sec; try discriminate; reflexivity|reflexivity]|].
    cbn [andb]. destruct (prev_sig st); try discriminate;
      (destruct Hsec as [Hs| ->]; [destruct sec; try discriminate; reflexivity|reflexivity]).
  - destruct M as (-> & -> & Hp). split; [|reflexivity].
    destruct (prev_sec st); try discriminate;
      (destruct Hsec as [Hs| ->]; [destruct sec; try discriminate; reflexivity|reflexivity]).
Qed.

Lemma forb_pend_start sp st sec :
  pend_mode sp st -> (is_atom_sec sec = true \/ sec = S_UnaryPrefix) ->
  forbidden (prev_sec st) sec false = false /\
  separated st && forbidden_separated (prev_sig st) sec false = false.
Proof.
  intros (Hcfl & Hsig & M) Hsec. destruct sp.
  - destruct M as (-> & ->).
    split; [destruct Hsec as [Hs| ->]; [destruct sec; try discriminate; reflexivity|reflexivity]|].
    cbn [andb]. destruct Hsig as [->|[Hb| ->]].
    + destruct Hsec as [Hs| ->]; [destruct sec; try discriminate; reflexivity|reflexivity].
    + destruct (prev_sig st); try discriminate;
        (destruct Hsec as [Hs| ->]; [destruct sec; try discriminate; reflexivity|reflexivity]).
    + destruct Hsec as [Hs| ->]; [destruct sec; try discriminate; reflexivity|reflexivity].
  - destruct M as (-> & Hp). split; [|reflexivity]. destruct Hp as [->|[Hb| ->]].
    + destruct Hsec as [Hs| ->]; [destruct sec; try discriminate; reflexivity|reflexivity].
    + destruct (prev_sec st); try discriminate;
        (destruct Hsec as [Hs| ->]; [destruct sec; try discriminate; reflexivity|reflexivity]).
    + destruct Hsec as [Hs| ->]; [destruct sec; try discriminate; reflexivity|reflexivity].
Qed.

Lemma forb_compl_list st sec :
  compl_mode true st -> (is_atom_sec sec = true \/ sec = S_UnaryPrefix) ->
  forbidden (prev_sec st) sec true = false /\
  separated st && forbidden_separated (prev_sig st) sec true = false.
Proof.
  intros [Hsig (Hc & -> & ->)] Hsec.
  split; [destruct Hsec as [Hs| ->]; [destruct sec; try discriminate; reflexivity|reflexivity]|].
  cbn [andb]. destruct (prev_sig st); try discriminate;
    (destruct Hsec as [Hs| ->]; [destruct sec; try discriminate; reflexivity|reflexivity]).
Qed.

(* ---- the transitions ---- *)
Lemma atom_node_of_value tok sec parent ns2 i :
  is_atom_sec sec = true -> priority (ref_def tok) = Some 10%N -> norm_atom (ref_def tok) = ref_def tok ->
  (definition_eqb (ref_def tok) D_Identifier = false \/ ref_def tok = D_Identifier) ->
  atom_node (mkNode (atom_def (ref_def tok) parent ns2) sec parent None None (Some i)) (ref_def tok) i parent.
Proof.
  intros Hs Hprio Hnorm Hident.
  unfold atom_node. cbn [n_sec n_def n_parent n_left n_right n_tok]. split; [exact Hs|].
  assert (Hd : (atom_def (ref_def tok) parent ns2 = ref_def tok) \/
               (atom_def (ref_def tok) parent ns2 = D_Property /\ ref_def tok = D_Identifier)).
  { unfold atom_def. destruct Hident as [E|E].
    - rewrite E. left. reflexivity.
    - rewrite E. cbn [definition_eqb definition_index N.eqb Pos.eqb].
      destruct parent as [p|]; [|left; reflexivity].
      destruct (nth_error ns2 p) as [pn|]; [|left; reflexivity].
      destruct (definition_eqb (n_def pn) D_Access); [right; split; reflexivity|left; reflexivity]. }
  destruct Hd as [->|[-> E]].
  - repeat split; auto.
  - rewrite E. repeat split; reflexivity.
Qed.

(* whitespace after a completed operand: the implicit list becomes possible *)
Theorem gstep_ws_compl ntoks i st fs t sp :
  gcompl st fs t sp ->
  exists st', step ntoks i TT_Whitespace st = Ok st' /\ gcompl st' fs t true /\ nodes st' = nodes st.
Proof.
  intros G. pose proof (gcompl_adj _ _ _ _ G) as Hadj.
  destruct G as [CS Hll Hcg Hgs Hnll [Hsig M]].
  rewrite (step_ws_unfold ntoks i st Hcg Hadj).
  assert (Hslc : space_list_check st None = Ok true).
  { unfold space_list_check. rewrite Hll.
    destruct CS as [[Sp D F O] Cl _ _ _].
    destruct t as [j d k|j d k a|j d k a|j d k l r]; simpl in Cl; try contradiction;
      simpl in D; destruct D as (n & Hn & A); cbn [nid]; rewrite Hn.
    - destruct A as (_ & _ & A3 & _). rewrite (prio10_value_like _ A3). reflexivity.
    - destruct A as (A1 & _). rewrite A1.
      cbn [secondary_eqb secondary_index N.eqb Pos.eqb]. rewrite orb_true_r. reflexivity. }
  rewrite Hslc. cbn [bind]. rewrite Hll. eexists. split; [reflexivity|]. split; [|reflexivity].
  constructor; cbn [nodes last_left current_group group_stack next_last_left];
    [exact CS|reflexivity|reflexivity|exact Hgs|reflexivity|].
  unfold compl_mode. cbn [prev_sig check_for_list separated prev_sec]. auto.
Qed.

(* whitespace while an operand is expected: nothing changes *)
Theorem gstep_ws_pend ntoks i st fs sp :
  gpend st fs sp ->
  exists st', step ntoks i TT_Whitespace st = Ok st' /\ gpend st' fs true /\ nodes st' = nodes st.
Proof.
  intros G. pose proof (gpend_adj _ _ _ G) as Hadj.
  destruct G as [PS Hll Hnp Hcg Hgs Hnll (Hcfl & Hsig & M)].
  rewrite (step_ws_unfold ntoks i st Hcg Hadj).
  assert (Hslc : space_list_check st None = Ok false).
  { unfold space_list_check. rewrite Hll, Hcfl. destruct PS as [Sp _ _ _ FO].
    destruct fs as [|f r]; [reflexivity|]. cbn [top_id].
    simpl in Sp. destruct Sp as [S1 _].
    destruct (frame_node_walk _ _ _ _ S1) as (nf & Hnf & Hdf & _ & _ & Hsf).
    destruct (frame_def_facts2 _ (FO f (or_introl eq_refl))) as (V1 & V2 & V3 & V4).
    rewrite Hnf, Hdf, V1, V2, V3, V4, Hsf. reflexivity. }
  rewrite Hslc. cbn [bind].
  assert (Hl : match last_left st with
               | Some k => Some k
               | None => match nodes st with [] => None | _ :: _ => Some (length (nodes st)) end
               end = top_id fs).
  { rewrite Hll. destruct fs as [|f r]; [|reflexivity]. cbn [top_id].
    destruct (nodes st) as [|n0 r0] eqn:En; [reflexivity|].
    exfalso. apply (ps_cover _ _ PS 0). simpl. lia. }
  rewrite Hl. eexists. split; [reflexivity|]. split; [|reflexivity].
  constructor; cbn [nodes last_left next_parent current_group group_stack next_last_left];
    [exact PS|reflexivity|exact Hnp|reflexivity|exact Hgs|reflexivity|].
  unfold pend_mode. cbn [prev_sig check_for_list separated prev_sec]. auto.
Qed.

(* a value where an operand is expected *)
Theorem gstep_value ntoks i tok st fs sp :
  gpend st fs sp -> is_value_tok tok = true ->
  exists st', step ntoks i tok st = Ok st' /\
              gcompl st' fs (NAtom (length (nodes st)) (ref_def tok) i) false /\
              length (nodes st') = S (length (nodes st)).
Proof.
  intros G Hv. pose proof (gpend_adj _ _ _ G) as Hadj.
  destruct G as [PS Hll Hnp Hcg Hgs Hnll PM].
  destruct (value_tok_facts tok Hv) as (sec & Hg & Hs & Hdrop & Hse0 & Hprio & Hnorm & Hident).
  destruct (forb_pend_start sp st sec PM (or_introl Hs)) as [Hforb Hsep].
  destruct PM as (Hcfl & _).
  rewrite (step_value_unfold ntoks i tok st (ref_def tok) sec Hg Hs Hdrop Hcg Hnll Hcfl Hadj Hforb Hsep).
  rewrite Hll, (parse_token_pending _ _ _ (ps_spine _ _ PS) (ps_fok _ _ PS) Hprio Hse0). cbn [bind].
  eexists. split; [reflexivity|]. split; [|cbn [nodes]; rewrite app_length; simpl; lia].
  constructor; cbn [nodes last_left current_group group_stack next_last_left];
    [|reflexivity|reflexivity|exact Hgs|reflexivity|].
  - apply value_on_pending; [exact PS|]. apply atom_node_of_value; assumption.
  - unfold compl_mode. cbn [prev_sig check_for_list separated prev_sec].
    repeat split; destruct sec; try discriminate; reflexivity.
Qed.

(* a prefix operator where an operand is expected *)
Theorem gstep_prefix ntoks i tok st fs sp :
  gpend st fs sp -> is_prefix_tok tok = true -> i + 1 < ntoks ->
  exists st', step ntoks i tok st = Ok st' /\
              gpend st' (FPre (length (nodes st)) (ref_def tok) i :: fs) false /\
              length (nodes st') = S (length (nodes st)).
Proof.
  intros G Hp Hi. pose proof (gpend_adj _ _ _ G) as Hadj.
  destruct G as [PS Hll Hnp Hcg Hgs Hnll PM].
  destruct (prefix_tok_facts tok Hp) as (Hg & Hdrop & Hid & Hfr & _).
  destruct (forb_pend_start sp st S_UnaryPrefix PM (or_intror eq_refl)) as [Hforb Hsep].
  destruct PM as (Hcfl & _).
  rewrite (step_prefix_unfold ntoks i tok st (ref_def tok) Hg Hdrop Hid Hcg Hnll Hcfl Hadj Hforb Hsep).
  destruct (Nat.leb_spec ntoks (i + 1)) as [Hle|_]; [lia|].
  replace (length (nodes st) + 1) with (S (length (nodes st))) by lia.
  eexists. split; [reflexivity|]. split; [|cbn [nodes]; rewrite app_length; simpl; lia].
  constructor; cbn [nodes last_left next_parent current_group group_stack next_last_left];
    [|reflexivity|reflexivity|reflexivity|exact Hgs|reflexivity|].
  - apply prefix_on_pending; cbn [n_sec n_def n_parent n_left n_right n_tok]; auto.
  - unfold pend_mode. cbn [prev_sig check_for_list separated prev_sec].
    split; [reflexivity|]. split; [right; right; reflexivity|]. split; [reflexivity|right; right; reflexivity].
Qed.

(* a binary operator after a completed operand *)
Theorem gstep_binary ntoks i tok st fs t sp :
  gcompl st fs t sp -> is_binary_tok tok = true -> i + 1 < ntoks ->
  exists st' fs' t',
    pop (ref_def tok) fs t = (fs', t') /\ step ntoks i tok st = Ok st' /\
    gpend st' (FBin (length (nodes st)) (ref_def tok) (Some i) t' :: fs') false /\
    length (nodes st') = S (length (nodes st)).
Proof.
  intros G Hb Hi. pose proof (gcompl_adj _ _ _ _ G) as Hadj.
  destruct G as [CS Hll Hcg Hgs Hnll CM].
  destruct (binary_tok_facts tok Hb) as (sec & my & p & BF).
  destruct (pop (ref_def tok) fs t) as [fs' t'] eqn:Hpop.
  destruct (forb_compl_op sp st sec CM (or_introl (bf_sec _ _ _ _ BF))) as [Hforb Hsep].
  destruct Hadj as [Hadj|(l & ln & Hl & Hln & Hse)]; [congruence|].
  rewrite Hll in Hl. injection Hl as <-.
  rewrite (step_binary_unfold ntoks i tok st (ref_def tok) sec (nid t) ln
             (bf_def _ _ _ _ BF) (bf_sec _ _ _ _ BF) (bf_drop _ _ _ _ BF) (bf_ident _ _ _ _ BF)
             Hcg Hnll Hll Hln Hse Hforb Hsep).
  destruct (operator_on_complete _ _ _ _ _ _ _ _ _ CS (binary_op_facts _ _ _ _ BF) Hpop)
    as (ns' & Hpt & Hlen & Hbin & _).
  rewrite Hpt. cbn [bind].
  destruct (Nat.leb_spec ntoks (i + 1)) as [Hle|_]; [lia|].
  replace (length (nodes st) + 1) with (S (length (nodes st))) by lia.
  eexists. exists fs', t'. split; [reflexivity|]. split; [reflexivity|].
  split; [|cbn [nodes]; rewrite app_length, Hlen; simpl; lia].
  constructor; cbn [nodes last_left next_parent current_group group_stack next_last_left];
    [|reflexivity|reflexivity|reflexivity|exact Hgs|reflexivity|].
  - apply Hbin; cbn [n_parent n_left n_right]; auto; [exact (bf_frame _ _ _ _ BF)|].
    split; [reflexivity|]. left. split; [exact (bf_sec _ _ _ _ BF)|]. exists i. split; reflexivity.
  - unfold pend_mode. cbn [prev_sig check_for_list separated prev_sec]. split; [reflexivity|].
    split; [right; left; exact (bf_sec _ _ _ _ BF)|]. split; [reflexivity|right; left; exact (bf_sec _ _ _ _ BF)].
Qed.

(* a suffix operator after a completed operand *)
Theorem gstep_suffix ntoks i tok st fs t sp :
  gcompl st fs t sp -> is_suffix_tok tok = true ->
  exists st' fs' t',
    pop (ref_def tok) fs t = (fs', t') /\ step ntoks i tok st = Ok st' /\
    gcompl st' fs' (NSuf (length (nodes st)) (ref_def tok) i t') false /\
    length (nodes st') = S (length (nodes st)).
Proof.
  intros G Hs. pose proof (gcompl_adj _ _ _ _ G) as Hadj.
  destruct G as [CS Hll Hcg Hgs Hnll CM].
  destruct (suffix_tok_facts tok Hs) as (Hg & Hdrop & Hid & my & p & OF).
  destruct (pop (ref_def tok) fs t) as [fs' t'] eqn:Hpop.
  destruct (forb_compl_op sp st S_UnarySuffix CM (or_intror eq_refl)) as [Hforb Hsep].
  rewrite (step_suffix_unfold ntoks i tok st (ref_def tok) Hg Hdrop Hid Hcg Hnll Hadj Hforb Hsep).
  destruct (operator_on_complete _ _ _ _ _ _ _ _ _ CS OF Hpop) as (ns' & Hpt & Hlen & _ & Hsuf).
  rewrite Hll, Hpt. cbn [bind].
  eexists. exists fs', t'. split; [reflexivity|]. split; [reflexivity|].
  split; [|cbn [nodes]; rewrite app_length, Hlen; simpl; lia].
  constructor; cbn [nodes last_left current_group group_stack next_last_left];
    [|reflexivity|reflexivity|exact Hgs|reflexivity|].
  - apply Hsuf; reflexivity.
  - unfold compl_mode. cbn [prev_sig check_for_list separated prev_sec]. repeat split.
Qed.

(* the synthesised list node *)
Lemma make_list_node_complete st fs t fs' t' :
  cstruct (nodes st) fs t -> last_left st = Some (nid t) -> pop D_List fs t = (fs', t') ->
  exists nsl, make_list_node (length (nodes st)) (length (nodes st) + 1) st None = Ok nsl /\
              length nsl = S (length (nodes st)) /\
              pstruct nsl (FBin (length (nodes st)) D_List None t' :: fs').
Proof.
  intros CS Hll Hpop. destruct list_def_ok as [Hok Hfr].
  destruct (op_def_facts _ _ Hok) as (my & p & OF).
  destruct (operator_on_complete _ _ _ _ _ _ _ _ _ CS OF Hpop) as (ns' & Hpt & Hlen & Hbin & _).
  unfold make_list_node. rewrite Hll, Hpt. cbn [bind].
  eexists. split; [reflexivity|]. split; [rewrite app_length, Hlen; simpl; lia|].
  apply Hbin; cbn [n_parent n_left n_right]; auto; [|f_equal; lia].
  split; [reflexivity|]. right. repeat split.
Qed.

(* a value after whitespace after a completed operand: list node, then the value *)
Theorem gstep_value_list ntoks i tok st fs t :
  gcompl st fs t true -> is_value_tok tok = true ->
  exists st' fs' t',
    pop D_List fs t = (fs', t') /\ step ntoks i tok st = Ok st' /\
    gcompl st' (FBin (length (nodes st)) D_List None t' :: fs')
               (NAtom (S (length (nodes st))) (ref_def tok) i) false /\
    length (nodes st') = S (S (length (nodes st))).
Proof.
  intros G Hv. pose proof (gcompl_adj _ _ _ _ G) as Hadj.
  destruct G as [CS Hll Hcg Hgs Hnll CM].
  destruct (value_tok_facts tok Hv) as (sec & Hg & Hs & Hdrop & Hse0 & Hprio & Hnorm & Hident).
  destruct (pop D_List fs t) as [fs' t'] eqn:Hpop.
  destruct (forb_compl_list st sec CM (or_introl Hs)) as [Hforb Hsep].
  destruct CM as [_ (Hcfl & _)].
  rewrite (step_value_list_unfold ntoks i tok st (ref_def tok) sec Hg Hs Hdrop Hcg Hcfl Hadj Hforb Hsep).
  destruct (make_list_node_complete st fs t fs' t' CS Hll Hpop) as (nsl & Hml & Hlen & PS).
  rewrite Hml. cbn [bind].
  replace (length (nodes st) + 1) with (length nsl) by lia.
  change (Some (length (nodes st))) with (top_id (FBin (length (nodes st)) D_List None t' :: fs')).
  rewrite (parse_token_pending _ _ _ (ps_spine _ _ PS) (ps_fok _ _ PS) Hprio Hse0). cbn [bind].
  eexists. exists fs', t'. split; [reflexivity|]. split; [reflexivity|].
  split; [|cbn [nodes]; rewrite app_length, Hlen; simpl; lia].
  rewrite <- Hlen.
  constructor; cbn [nodes last_left current_group group_stack next_last_left];
    [|reflexivity|reflexivity|exact Hgs|reflexivity|].
  - apply value_on_pending; [exact PS|]. apply atom_node_of_value; assumption.
  - unfold compl_mode. cbn [prev_sig check_for_list separated prev_sec].
    repeat split; destruct sec; try discriminate; reflexivity.
Qed.

(* a prefix operator after whitespace after a completed operand: list node, then the prefix *)
Theorem gstep_prefix_list ntoks i tok st fs t :
  gcompl st fs t true -> is_prefix_tok tok = true ->
  exists st' fs' t',
    pop D_List fs t = (fs', t') /\ step ntoks i tok st = Ok st' /\
    gpend st' (FPre (S (length (nodes st))) (ref_def tok) i :: FBin (length (nodes st)) D_List None t' :: fs') false /\
    length (nodes st') = S (S (length (nodes st))).
Proof.
  intros G Hp. pose proof (gcompl_adj _ _ _ _ G) as Hadj.
  destruct G as [CS Hll Hcg Hgs Hnll CM].
  destruct (prefix_tok_facts tok Hp) as (Hg & Hdrop & Hid & Hfr & _).
  destruct (pop D_List fs t) as [fs' t'] eqn:Hpop.
  destruct (forb_compl_list st S_UnaryPrefix CM (or_intror eq_refl)) as [Hforb Hsep].
  destruct CM as [_ (Hcfl & _)].
  rewrite (step_prefix_list_unfold ntoks i tok st (ref_def tok) Hg Hdrop Hid Hcg Hcfl Hadj Hforb Hsep).
  destruct (make_list_node_complete st fs t fs' t' CS Hll Hpop) as (nsl & Hml & Hlen & PS).
  rewrite Hml. cbn [bind].
  eexists. exists fs', t'. split; [reflexivity|]. split; [reflexivity|].
  split; [|cbn [nodes]; rewrite app_length, Hlen; simpl; lia].
  rewrite <- Hlen.
  constructor; cbn [nodes last_left next_parent current_group group_stack next_last_left];
    [| |cbn [top_id frame_id]; f_equal; lia|reflexivity|exact Hgs|reflexivity|].
  - apply prefix_on_pending; cbn [n_sec n_def n_parent n_left n_right n_tok top_id frame_id]; auto.
    f_equal. lia.
  - reflexivity.
  - unfold pend_mode. cbn [prev_sig check_for_list separated prev_sec].
    split; [reflexivity|]. split; [right; right; reflexivity|]. split; [reflexivity|right; right; reflexivity].
Qed.
