//! literal: C14 harness.  Case lines (code points are '.'-separated hex, '-' = empty;
//! a third field, the annotation, is passed through untouched):
//!   N <cps> <ann>   number literal source text
//!   C <cps> <ann>   char-list literal source text (with its quotes)
//!   B <cps> <ann>   byte-list literal source text (with its quotes)
//!   S <cps> <ann>   symbol name; the program is ':' + name
//! For each case (a) the parsing.rs function is called directly and (b) the text is
//! lexed, parsed, built and executed as a one-literal program on SimpleGarnishData
//! and on BasicGarnishData, and the value is read back through the public getters.
//! Output:  <case>\tD=<direct>;S=<simple>;B=<basic>\t<oracle>
//!   number     I:<hex> | F:<16 hex bits> | F:NaN
//!   char list  S:<cps>            (pipeline: S:<iter cps>,len=<get_char_list_len>,items=<cps via get_char_list_item>)
//!   byte list  Y:<bytes>          (pipeline: same shape)
//!   symbol     M:<name cps>,sym=<u64 hex>
//!   Err (direct) | LexErr | NotLit(<n tokens>,<type of first>) | ParseErr | BuildErr | RunErr | Type(<t>) | PANIC
//!   (a case that hangs or kills the process is reported by lib.rs `supervised` as <case>\tHANG\t- / <case>\tCRASH\t-)
//! Oracle: N: f64:<cps>=<bits|ERR>,...  (str::parse::<f64> of the candidate stripped strings)
//!         B: num:<cps of the non-ASCII characters for which char::is_numeric holds>
//!         S: sym=<symbol_value(name)>
//! With --spell the lines are  F <16 hex bits>  and the output is
//!   <line>\t<cps of format!("{}")>\t<cps of format!("{:?}")>
use garnish_lang_compiler::build::build;
use garnish_lang_compiler::lex::{lex, TokenType};
use garnish_lang_compiler::parse::parse;
use garnish_lang_runtime::{execute_current_instruction, SimpleRuntimeState};
use garnish_lang_simple_data::{
    parse_byte_list, parse_char_list, parse_simple_number, symbol_value, BasicGarnishData, NoOpCompanion, SimpleGarnishData, SimpleNumber,
};
use garnish_lang_traits::{Extents, GarnishData, GarnishDataType};
use garnish_verif_harness::*;

fn dec_cps(s: &str) -> String {
    if s == "-" {
        return String::new();
    }
    s.split('.').map(|h| char::from_u32(u32::from_str_radix(h, 16).expect("hex cp")).expect("scalar value")).collect()
}

fn enc_cps<I: Iterator<Item = char>>(it: I) -> String {
    let v: Vec<String> = it.map(|c| format!("{:x}", c as u32)).collect();
    if v.is_empty() { "-".to_string() } else { v.join(".") }
}

fn enc_bytes(b: &[u8]) -> String {
    let v: Vec<String> = b.iter().map(|c| format!("{:x}", c)).collect();
    if v.is_empty() { "-".to_string() } else { v.join(".") }
}

fn show_num(n: SimpleNumber) -> String {
    match n {
        SimpleNumber::Integer(v) => format!("I:{}", hex_i64(v as i64)),
        SimpleNumber::Float(f) => {
            if f.is_nan() { "F:NaN".to_string() } else { format!("F:{:016x}", f.to_bits()) }
        }
    }
}

fn direct(kind: &str, text: &str) -> String {
    let r = catch(|| match kind {
        "N" => match parse_simple_number(text) {
            Ok(n) => show_num(n),
            Err(_) => "Err".to_string(),
        },
        "C" => match parse_char_list(text) {
            Ok(s) => format!("S:{}", enc_cps(s.chars())),
            Err(_) => "Err".to_string(),
        },
        "B" => match parse_byte_list(text) {
            Ok(b) => format!("Y:{}", enc_bytes(&b)),
            Err(_) => "Err".to_string(),
        },
        "S" => format!("M:{},sym={:x}", enc_cps(text.chars()), symbol_value(text)),
        _ => panic!("bad kind"),
    });
    r.unwrap_or_else(|_| "PANIC".to_string())
}

trait SymbolNames {
    fn name_of(&self, sym: u64) -> Result<Option<String>, ()>;
}
impl SymbolNames for SimpleGarnishData {
    fn name_of(&self, sym: u64) -> Result<Option<String>, ()> {
        Ok(self.get_symbols().get(&sym).cloned())
    }
}
impl SymbolNames for BasicGarnishData<(), NoOpCompanion> {
    fn name_of(&self, sym: u64) -> Result<Option<String>, ()> {
        self.get_symbol_string(sym).map_err(|_| ())
    }
}

/// literals of every kind followed by a blank line: a program `PRELUDE <literal>` evaluates to the literal
const PRELUDE: &str = "\"ab\" 'c' 017_G :s 1.5 \"\"\"q\"\"\"\n\n";

fn pipeline<D>(data: &mut D, kind: &str, src: &str) -> String
where
    D: GarnishData<Number = SimpleNumber, Char = char, Byte = u8, Size = usize, Symbol = u64> + SymbolNames,
{
    pipeline_after(data, kind, src, "")
}

fn pipeline_after<D>(data: &mut D, kind: &str, src: &str, prefix: &str) -> String
where
    D: GarnishData<Number = SimpleNumber, Char = char, Byte = u8, Size = usize, Symbol = u64> + SymbolNames,
{
    let prefix_len = if prefix.is_empty() { 0 } else { lex(prefix).map(|t| t.len()).unwrap_or(0) };
    let full = format!("{}{}", prefix, src);
    let src_full = full.as_str();
    let all_tokens = match lex(src_full) {
        Ok(t) => t,
        Err(_) => return "LexErr".to_string(),
    };
    if all_tokens.len() < prefix_len {
        return format!("NotLit({},prefix)", all_tokens.len());
    }
    let program_tokens = all_tokens.clone();
    let tokens: Vec<_> = all_tokens[prefix_len..].to_vec();
    let want = match kind {
        "N" => TokenType::Number,
        "C" => TokenType::CharList,
        "B" => TokenType::ByteList,
        _ => TokenType::Symbol,
    };
    if tokens.len() != 1 || tokens[0].get_token_type() != want || tokens[0].get_text() != src {
        let t = tokens.get(0).map(|t| format!("{:?}", t.get_token_type())).unwrap_or("none".to_string());
        return format!("NotLit({},{})", tokens.len(), t);
    }
    let parsed = match parse(&program_tokens) {
        Ok(p) => p,
        Err(_) => return "ParseErr".to_string(),
    };
    let built = match build(parsed.get_root(), parsed.get_nodes().clone(), data) {
        Ok(b) => b,
        Err(_) => return "BuildErr".to_string(),
    };
    let start = match data.get_from_jump_table(*built.jump_index()) {
        Some(s) => s,
        None => return "RunErr".to_string(),
    };
    if data.set_instruction_cursor(start).is_err() {
        return "RunErr".to_string();
    }
    match data.add_unit().and_then(|u| data.push_value_stack(u)) {
        Ok(_) => (),
        Err(_) => return "RunErr".to_string(),
    }
    let mut steps = 0;
    loop {
        match execute_current_instruction(data) {
            Err(_) => return "RunErr".to_string(),
            Ok(info) => match info.get_state() {
                SimpleRuntimeState::Running => (),
                SimpleRuntimeState::End => break,
            },
        }
        steps += 1;
        if steps > 1000 {
            return "HANG".to_string();
        }
    }
    let addr = match data.get_current_value() {
        Some(a) => a,
        None => return "RunErr".to_string(),
    };
    let ty = match data.get_data_type(addr) {
        Ok(t) => t,
        Err(_) => return "RunErr".to_string(),
    };
    let full = Extents::new(SimpleNumber::Integer(0), SimpleNumber::Integer(i32::MAX));
    match (kind, ty) {
        ("N", GarnishDataType::Number) => match data.get_number(addr) {
            Ok(n) => show_num(n),
            Err(_) => "RunErr".to_string(),
        },
        ("C", GarnishDataType::CharList) => {
            let len = match data.get_char_list_len(addr) {
                Ok(l) => l,
                Err(_) => return "S:?,len=Err".to_string(),
            };
            let iter: String = match data.get_char_list_iter(addr, full) {
                Ok(it) => it.collect(),
                Err(_) => return "S:Err".to_string(),
            };
            let mut items = vec![];
            for i in 0..len.min(4096) {
                items.push(match data.get_char_list_item(addr, SimpleNumber::Integer(i as i32)) {
                    Ok(Some(c)) => format!("{:x}", c as u32),
                    Ok(None) => "None".to_string(),
                    Err(_) => "Err".to_string(),
                });
            }
            let items = if items.is_empty() { "-".to_string() } else { items.join(".") };
            format!("S:{},len={},items={}", enc_cps(iter.chars()), len, items)
        }
        ("B", GarnishDataType::ByteList) => {
            let len = match data.get_byte_list_len(addr) {
                Ok(l) => l,
                Err(_) => return "Y:?,len=Err".to_string(),
            };
            let iter: Vec<u8> = match data.get_byte_list_iter(addr, full) {
                Ok(it) => it.collect(),
                Err(_) => return "Y:Err".to_string(),
            };
            let mut items = vec![];
            for i in 0..len.min(4096) {
                items.push(match data.get_byte_list_item(addr, SimpleNumber::Integer(i as i32)) {
                    Ok(Some(c)) => format!("{:x}", c),
                    Ok(None) => "None".to_string(),
                    Err(_) => "Err".to_string(),
                });
            }
            let items = if items.is_empty() { "-".to_string() } else { items.join(".") };
            format!("Y:{},len={},items={}", enc_bytes(&iter), len, items)
        }
        ("S", GarnishDataType::Symbol) => {
            let sym = match data.get_symbol(addr) {
                Ok(s) => s,
                Err(_) => return "RunErr".to_string(),
            };
            match data.name_of(sym) {
                Ok(Some(n)) => format!("M:{},sym={:x}", enc_cps(n.chars()), sym),
                Ok(None) => format!("M:None,sym={:x}", sym),
                Err(_) => format!("M:Err,sym={:x}", sym),
            }
        }
        (_, t) => format!("Type({:?})", t),
    }
}

fn oracle(kind: &str, text: &str) -> String {
    match kind {
        "N" => {
            let mut cands = vec![text.replace('_', "")];
            if let Some(i) = text.find('_') {
                cands.push(text[i + 1..].replace('_', ""));
            }
            cands.dedup();
            let v: Vec<String> = cands
                .iter()
                .map(|c| {
                    let r = match c.parse::<f64>() {
                        Ok(f) => {
                            if f.is_nan() { "NaN".to_string() } else { format!("{:016x}", f.to_bits()) }
                        }
                        Err(_) => "ERR".to_string(),
                    };
                    format!("{}={}", enc_cps(c.chars()), r)
                })
                .collect();
            format!("f64:{}", v.join(","))
        }
        "B" => {
            let mut cs: Vec<char> = text.chars().filter(|c| !c.is_ascii() && c.is_numeric()).collect();
            cs.sort();
            cs.dedup();
            format!("num:{}", enc_cps(cs.into_iter()))
        }
        "S" => format!("sym={:x}", symbol_value(text)),
        _ => "-".to_string(),
    }
}

fn run_case(line: &str) -> String {
    // <kind> <cps> <annotation>; the annotation is for the model driver and the oracle only
    let mut parts = line.split(' ');
    let kind = parts.next().unwrap_or("");
    let text = dec_cps(parts.next().unwrap_or("-"));
    let src = if kind == "S" { format!(":{}", text) } else { text.clone() };
    let d = direct(kind, &text);
    let s = catch(|| {
        let mut data = SimpleGarnishData::new();
        pipeline(&mut data, kind, &src)
    })
    .unwrap_or_else(|_| "PANIC".to_string());
    let b = catch(|| match BasicGarnishData::<(), NoOpCompanion>::new(NoOpCompanion::new()) {
        Ok(mut data) => pipeline(&mut data, kind, &src),
        Err(_) => "RunErr".to_string(),
    })
    .unwrap_or_else(|_| "PANIC".to_string());
    let o = catch(|| oracle(kind, &text)).unwrap_or_else(|_| "-".to_string());
    // the same literal after other literals: must denote the same value
    let ps = catch(|| {
        let mut data = SimpleGarnishData::new();
        pipeline_after(&mut data, kind, &src, PRELUDE)
    })
    .unwrap_or_else(|_| "PANIC".to_string());
    let pb = catch(|| match BasicGarnishData::<(), NoOpCompanion>::new(NoOpCompanion::new()) {
        Ok(mut data) => pipeline_after(&mut data, kind, &src, PRELUDE),
        Err(_) => "RunErr".to_string(),
    })
    .unwrap_or_else(|_| "PANIC".to_string());
    // a float literal after its two neighbouring floats (an interning key that is not exact confuses them)
    let (ps, pb) = match (kind, parse_simple_number(&text)) {
        ("N", Ok(SimpleNumber::Float(f))) if f.is_finite() && ps == s && pb == b => {
            let lo = f64::from_bits(f.to_bits().wrapping_sub(1));
            let hi = f64::from_bits(f.to_bits().wrapping_add(1));
            let spell = |x: f64| if x.is_finite() && x > 0.0 { format!("{:?}", x) } else { "2.5".to_string() };
            let (lo_s, hi_s) = (spell(lo), spell(hi));
            if lo_s.contains('e') || hi_s.contains('e') || !lo_s.contains('.') || !hi_s.contains('.') {
                (ps, pb)
            } else {
                let prelude2 = format!("{} {}\n\n", lo_s, hi_s);
                let ps2 = catch(|| {
                    let mut data = SimpleGarnishData::new();
                    pipeline_after(&mut data, kind, &src, &prelude2)
                })
                .unwrap_or_else(|_| "PANIC".to_string());
                let pb2 = catch(|| match BasicGarnishData::<(), NoOpCompanion>::new(NoOpCompanion::new()) {
                    Ok(mut data) => pipeline_after(&mut data, kind, &src, &prelude2),
                    Err(_) => "RunErr".to_string(),
                })
                .unwrap_or_else(|_| "PANIC".to_string());
                (ps2, pb2)
            }
        }
        _ => (ps, pb),
    };
    // a number literal after the equal-valued number of the OTHER variant (`7.0` after `7`, `255` after `255.0`):
    // an interning key that identifies numerically equal constants answers with the earlier variant
    let (ps, pb) = match (kind, parse_simple_number(&text)) {
        ("N", Ok(n)) if ps == s && pb == b => {
            let twin = match n {
                SimpleNumber::Float(f) if f.is_finite() && f.fract() == 0.0 && f.abs() < 2147483648.0 && f >= 0.0 => Some(format!("{}", f as i64)),
                SimpleNumber::Integer(i) if i >= 0 => Some(format!("{}.0", i)),
                _ => None,
            };
            match twin {
                None => (ps, pb),
                Some(t) => {
                    let prelude3 = format!("{}\n\n", t);
                    let ps3 = catch(|| {
                        let mut data = SimpleGarnishData::new();
                        pipeline_after(&mut data, kind, &src, &prelude3)
                    })
                    .unwrap_or_else(|_| "PANIC".to_string());
                    let pb3 = catch(|| match BasicGarnishData::<(), NoOpCompanion>::new(NoOpCompanion::new()) {
                        Ok(mut data) => pipeline_after(&mut data, kind, &src, &prelude3),
                        Err(_) => "RunErr".to_string(),
                    })
                    .unwrap_or_else(|_| "PANIC".to_string());
                    (ps3, pb3)
                }
            }
        }
        _ => (ps, pb),
    };
    let same = |x: &String, y: &String| if x == y { "same".to_string() } else { x.clone() };
    format!("{}\tD={};S={};B={}\t{}\tPS={};PB={}", line, d, s, b, o, same(&ps, &s), same(&pb, &b))
}

fn spell(line: &str) -> String {
    let bits = u64::from_str_radix(line.split(' ').nth(1).expect("bits"), 16).expect("hex");
    let f = f64::from_bits(bits);
    format!("{}\t{}\t{}", line, enc_cps(format!("{}", f).chars()), enc_cps(format!("{:?}", f).chars()))
}

fn main() {
    quiet_panics();
    if std::env::args().any(|a| a == "--spell") {
        for_each_line(spell);
        return;
    }
    // every case runs in a supervised child process with a deadline: a case that
    // does not answer is reported as `<case>\tHANG\t-`, a dead child as `<case>\tCRASH\t-`
    supervised(5000, |line| catch(|| run_case(line)).unwrap_or_else(|_| format!("{}\tD=PANIC;S=PANIC;B=PANIC\t-", line)));
}
