(* C11: one call of data_equal either decides, or pushes pending pairs whose joint equality is
   the equality of the operands, and whose total size is smaller. *)
From Coq Require Import ZArith NArith List Bool Arith Lia.
From GV Require Import Base.Result Gen.Instr Gen.EqTable Model.Num Model.Value Model.Equality Spec.StructEq.
Import ListNotations.
From GV Require Import Proofs.C11.Canon.

(* pending pairs, top of the stack first *)
Fixpoint stack_of (ps : list (val * val)) (base : list val) : list val :=
  match ps with
  | [] => base
  | (x, y) :: ps' => y :: x :: stack_of ps' base
  end.
Definition seqp (p : val * val) : bool := struct_eq (fst p) (snd p).
Definition pair_size (p : val * val) : nat := val_size (fst p) + val_size (snd p).
Fixpoint measure (ps : list (val * val)) : nat :=
  match ps with [] => 0 | p :: ps' => pair_size p + measure ps' end.
Definition pair_modelled (p : val * val) : Prop := modelled (fst p) /\ modelled (snd p).

Lemma stack_of_app ps qs base : stack_of (ps ++ qs) base = stack_of ps (stack_of qs base).
Proof. induction ps as [|[x y] ps IH]; cbn; [reflexivity|]. rewrite IH. reflexivity. Qed.

Lemma measure_app ps qs : measure (ps ++ qs) = measure ps + measure qs.
Proof. induction ps as [|p ps IH]; cbn [app measure]; [reflexivity|]. rewrite IH. lia. Qed.

Lemma push_iterator_values_spec i1 : forall i2 regs,
  push_iterator_values regs i1 i2 = (stack_of (rev (combine i1 i2)) regs, Nat.eqb (length i1) (length i2)).
Proof.
  induction i1 as [|x i1 IH]; intros [|y i2] regs; try reflexivity.
  cbn [push_iterator_values combine rev length Nat.eqb]. rewrite IH, stack_of_app. reflexivity.
Qed.

Lemma list_eqb_map_canon i1 : forall i2,
  list_eqb ceq (map canon i1) (map canon i2) = Nat.eqb (length i1) (length i2) && forallb seqp (combine i1 i2).
Proof.
  induction i1 as [|x i1 IH]; intros [|y i2]; try reflexivity.
  cbn [map list_eqb length Nat.eqb combine forallb]. rewrite IH. unfold seqp at 2, struct_eq. cbn [fst snd].
  destruct (ceq (canon x) (canon y)), (Nat.eqb (length i1) (length i2)); reflexivity.
Qed.

Lemma forallb_rev {A} (f : A -> bool) l : forallb f (rev l) = forallb f l.
Proof.
  induction l as [|x l IH]; [reflexivity|]. cbn. rewrite forallb_app, IH. cbn. rewrite andb_true_r. apply andb_comm.
Qed.

Lemma val_size_pos v : 1 <= val_size v.
Proof. destruct v; cbn; lia. Qed.

Fixpoint items_size (l : list val) : nat :=
  match l with [] => 0 | x :: l' => val_size x + items_size l' end.

Lemma items_size_fold l : fold_right (fun x acc => val_size x + acc) 0 l = items_size l.
Proof. induction l as [|x l IH]; cbn; [reflexivity|]. rewrite IH. reflexivity. Qed.

Lemma items_size_app a b : items_size (a ++ b) = items_size a + items_size b.
Proof. induction a as [|x a IH]; cbn [app items_size]; [reflexivity|]. rewrite IH. lia. Qed.

Lemma measure_combine_le i1 : forall i2, measure (combine i1 i2) <= items_size i1 + items_size i2.
Proof.
  induction i1 as [|x i1 IH]; intros [|y i2]; cbn [combine measure items_size]; try lia.
  specialize (IH i2). unfold pair_size. cbn [fst snd]. lia.
Qed.

Lemma measure_rev ps : measure (rev ps) = measure ps.
Proof. induction ps as [|p ps IH]; [reflexivity|]. cbn [rev]. rewrite measure_app, IH. cbn [measure]. lia. Qed.

Lemma flat_size v : items_size (flat v) <= val_size v.
Proof.
  induction v; cbn [flat val_size items_size]; try lia.
  - rewrite (items_size_fold items). lia.
  - rewrite items_size_app. lia.
Qed.


Lemma flat_all P s v : val_all P s v -> Forall (val_all P s) (flat v).
Proof.
  induction v; intros H; cbn [flat]; try (constructor; [exact H | constructor]).
  - apply val_all_list, H.
  - cbn [val_all] in H. destruct H as [H1 H2]. apply Forall_app. split; auto.
Qed.

Lemma items_all P s it v : val_all P s v -> Forall (val_all P s) (item_iter_values it v).
Proof.
  intros H. destruct it, v; cbn [item_iter_values]; try constructor.
  - apply val_all_list, H.
  - cbn [val_all] in H. destruct H as [H1 H2]. apply Forall_app. split; apply flat_all; assumption.
Qed.

Lemma combine_modelled i1 : forall i2, Forall modelled i1 -> Forall modelled i2 -> Forall pair_modelled (combine i1 i2).
Proof.
  induction i1 as [|x i1 IH]; intros [|y i2] H1 H2; cbn [combine]; try constructor.
  - inversion H1; inversion H2; subst. split; assumption.
  - inversion H1; inversion H2; subst. apply IH; assumption.
Qed.

Lemma items_size_iter it v : items_size (item_iter_values it v) < val_size v.
Proof.
  destruct it, v; cbn [item_iter_values items_size val_size]; try lia.
  - rewrite (items_size_fold items). lia.
  - rewrite items_size_app. pose proof (flat_size v1). pose proof (flat_size v2). lia.
Qed.

Lemma canon_items it v : (it = It_list /\ exists items, v = VList items) \/ (it = It_concat /\ exists a b, v = VConcat a b) ->
  canon v = CSeq (map canon (item_iter_values it v)).
Proof.
  intros [[-> [items ->]]|[-> (a & b & ->)]]; cbn [item_iter_values].
  - apply canon_list.
  - apply canon_concat.
Qed.

Lemma items_case l r itl itr regs :
  modelled l -> modelled r ->
  canon l = CSeq (map canon (item_iter_values itl l)) ->
  canon r = CSeq (map canon (item_iter_values itr r)) ->
  exists ps b, Ok (push_iterator_values regs (item_iter_values itl l) (item_iter_values itr r)) = Ok (stack_of ps regs, b)
    /\ struct_eq l r = b && forallb seqp ps
    /\ measure ps < val_size l + val_size r
    /\ Forall pair_modelled ps.
Proof.
  intros Ml Mr Cl Cr.
  exists (rev (combine (item_iter_values itl l) (item_iter_values itr r))),
         (Nat.eqb (length (item_iter_values itl l)) (length (item_iter_values itr r))).
  repeat split.
  - rewrite push_iterator_values_spec. reflexivity.
  - unfold struct_eq. rewrite Cl, Cr, ceq_seq, list_eqb_map_canon, forallb_rev. reflexivity.
  - rewrite measure_rev.
    pose proof (measure_combine_le (item_iter_values itl l) (item_iter_values itr r)).
    pose proof (items_size_iter itl l). pose proof (items_size_iter itr r). lia.
  - apply Forall_rev. apply combine_modelled; apply items_all; assumption.
Qed.

Lemma iter_values_equal_list_eqb {A} (f : A -> A -> bool) a : forall b, iter_values_equal f a b = list_eqb f a b.
Proof.
  induction a as [|x a IH]; intros [|y b]; reflexivity.
Qed.

Lemma list_prim_eq c l :
  list_eqb N.eqb [c] l =
  (if Nat.eqb (length l) 1 then match nth_error l 0 with Some c1 => (c1 =? c)%N | None => false end else false).
Proof. destruct l as [|x [|y l]]; cbn; rewrite ?andb_true_r, ?andb_false_r; try reflexivity. apply N.eqb_sym. Qed.

Lemma list_prim_eq' c l :
  list_eqb N.eqb l [c] =
  (if Nat.eqb (length l) 1 then match nth_error l 0 with Some c1 => (c1 =? c)%N | None => false end else false).
Proof. destruct l as [|x [|y l]]; cbn; rewrite ?andb_true_r, ?andb_false_r; reflexivity. Qed.

Ltac arm :=
  unfold data_equal; cbn [type_of_val];
  match goal with |- context [find_eq_arm ?a ?b] =>
    let v := eval vm_compute in (find_eq_arm a b) in change (find_eq_arm a b) with v end;
  cbn beta iota.

Ltac leaf :=
  exists [];
  cbn [bind get_scalar get_type compare_iter compare_list_to_primitive list_elems prim_elem scalar_eq length Nat.eqb nth_error];
  eexists; split; [reflexivity|]; split; [|split; [cbn [measure]; match goal with |- 0 < val_size ?a + _ => pose proof (val_size_pos a) end; lia | constructor]];
  unfold struct_eq, canon; cbn [canon2 fst ceq forallb]; rewrite ?andb_true_r;
  try reflexivity.

Lemma data_equal_ok l r regs : modelled l -> modelled r ->
  exists ps b, data_equal l r regs = Ok (stack_of ps regs, b)
    /\ struct_eq l r = b && forallb seqp ps
    /\ measure ps < val_size l + val_size r
    /\ Forall pair_modelled ps.
Proof.
  intros Ml Mr.
  destruct l; try (exfalso; exact Ml); destruct r; try (exfalso; exact Mr); arm.
  all: try (apply items_case; [assumption|assumption|apply canon_items; eauto 6|apply canon_items; eauto 6]).
  all: try solve [leaf].
  - leaf. cbn [list_eqb]. rewrite andb_true_r. reflexivity.
  - destruct l as [|x [|y l]]; leaf; cbn [list_eqb]; rewrite ?andb_true_r, ?andb_false_r; try reflexivity; apply N.eqb_sym.
  - leaf. cbn [list_eqb]. rewrite andb_true_r. reflexivity.
  - destruct l as [|x [|y l]]; leaf; cbn [list_eqb]; rewrite ?andb_true_r, ?andb_false_r; try reflexivity; apply N.eqb_sym.
  - destruct l as [|x [|y l]]; leaf; cbn [list_eqb]; rewrite ?andb_true_r, ?andb_false_r; reflexivity.
  - destruct l as [|x [|y l]]; leaf; cbn [list_eqb]; rewrite ?andb_true_r, ?andb_false_r; reflexivity.
  - cbn [get_pair bind]. exists [(l2, r2); (l1, r1)], true.
    cbn [modelled val_all] in Ml, Mr. destruct Ml as [Ml1 Ml2], Mr as [Mr1 Mr2].
    repeat split; try assumption.
    + unfold struct_eq, canon. cbn [canon2 fst ceq forallb seqp]. unfold seqp, struct_eq, canon. cbn [fst snd].
      destruct (ceq (fst (canon2 l1)) (fst (canon2 r1))), (ceq (fst (canon2 l2)) (fst (canon2 r2))); reflexivity.
    + cbn [measure val_size]. unfold pair_size. cbn [fst snd]. lia.
    + repeat constructor; assumption.
Qed.
