"""C09 Number arithmetic is exact or unit, never wrapped."""
import math, struct, time
from fractions import Fraction
import vplib
from vplib import Verdict, log

PID = "C09"
MANIFEST_ENTRY = {
 "level_claimed": {
  "category": "proof",
  "text": "Theorems in coq/Properties/C09.v: for all i32 operands every GarnishNumber operation equals the exact result in Z when representable and unit otherwise (never wraps; MIN % -1, zero divisors, negative exponents, shift counts outside 0..31 are unit); i32->f64 promotion is exact; float and mixed + - * / are the correctly rounded IEEE-754 result or unit (via Flocq); no non-finite float is ever returned; bitwise on a float is unit; the float and mixed remainder `%` (C fmod) is EXACT for every finite dividend and non-zero finite divisor (C09_float_remainder_exact: finite result r = x - q*y for an integer q, |r| < |y|, zero or the sign of x - the C standard's definition, shown to determine r by C09_remainder_spec_unique; C09_float_remainder_is_trunc: r = x - trunc(x/y)*y; no rounding occurs). The model is tied to data/src/data/number.rs by running both on the boundary lattice x every operation plus float/mixed pairs on every run, and an independent exact-arithmetic oracle checks the implementation directly.",
  "design_ref": "DESIGN.md section 8 C09"
 },
 "level_note": "Trusted: Coq kernel; Flocq's four standard-library axioms; extraction (ExtrOcamlBasic only); the Rust harness and Python oracle; f64::powf is an oracle (no theorem about its real value); that Rust's f64 `%` is C fmod as modelled is tied by correspondence (bit-for-bit on every run). Known finding C09-K1 (float // saturates) is excluded and re-confirmed on every run.",
 "technique": "Coq proof (lia/Flocq) over an executable model + differential correspondence with the Rust implementation"
}
BINOPS = ["add", "sub", "mul", "div", "idiv", "pow", "rem", "and", "or", "xor", "shl", "shr"]
UNOPS = ["abs", "neg", "inc", "dec", "not"]
I32_MIN, I32_MAX = -2**31, 2**31 - 1


# ---------------------------------------------------------------- encoding
def enc_i(v):
    return "i" + (("-%x" % -v) if v < 0 else ("%x" % v))


def enc_f(x):
    return "f%016x" % struct.unpack("<Q", struct.pack("<d", x))[0]


def dec(s):
    if s[0] == "i":
        return ("i", int(s[1:], 16))
    return ("f", struct.unpack("<d", struct.pack("<Q", int(s[1:], 16)))[0])


def show_i(v):
    return "I:" + (("-%x" % -v) if v < 0 else ("%x" % v))


def show_f(x):
    if x != x:
        return "F:NaN"
    return "F:%016x" % struct.unpack("<Q", struct.pack("<d", x))[0]


# ------------------------------------------------ independent property oracle
def in_i32(z):
    return I32_MIN <= z <= I32_MAX


def tquot(a, b):
    q = abs(a) // abs(b)
    return q if (a >= 0) == (b >= 0) else -q


def wrap32(z):
    return (z + 2**31) % 2**32 - 2**31


def rep(z):
    return show_i(z) if z is not None and in_i32(z) else "None"


def expect_int_bin(op, a, b):
    if op == "add": return rep(a + b)
    if op == "sub": return rep(a - b)
    if op == "mul": return rep(a * b)
    if op in ("div", "idiv"): return "None" if b == 0 else rep(tquot(a, b))
    if op == "rem":
        if b == 0: return "None"
        q = tquot(a, b)
        return rep(a - q * b) if in_i32(q) else "None"
    if op == "pow":
        if b < 0: return "None"
        if abs(a) >= 2 and b > 40: return "None"
        return rep(a ** b)
    if op == "and": return rep(a & b)
    if op == "or": return rep(a | b)
    if op == "xor": return rep(a ^ b)
    if op == "shl": return rep(wrap32(a << b)) if 0 <= b <= 31 else "None"
    if op == "shr": return rep(a >> b) if 0 <= b <= 31 else "None"
    raise ValueError(op)


def expect_int_un(op, a):
    return {"abs": rep(abs(a)), "neg": rep(-a), "inc": rep(a + 1), "dec": rep(a - 1), "not": rep(-a - 1)}[op]


def fin(x):
    return show_f(x) if math.isfinite(x) else "None"


def expect_float_bin(op, l, r, oracle):
    """l, r: ('i', int) or ('f', float) with at least one float, operands finite.
    Returns the expected result string, or None when the oracle has no opinion."""
    lf, rf = float(l[1]), float(r[1])
    if op in ("and", "or", "xor", "shl", "shr"):
        return "None"
    try:
        if op == "add": return fin(lf + rf)
        if op == "sub": return fin(lf - rf)
        if op == "mul": return fin(lf * rf)
        if op == "div":
            return "None" if rf == 0 else fin(lf / rf)
        if op == "rem":
            return "None" if rf == 0 else fin(math.fmod(lf, rf))
        if op == "idiv":
            if rf == 0: return "None"
            # exact rational quotient rounded as IEEE division does, truncated
            q = lf / rf
            if not math.isfinite(q): return "None"
            t = math.trunc(q)
            return show_i(t) if in_i32(t) else "None"
        if op == "pow":
            if rf < 0: return "None"
            if not oracle.startswith("powf="):
                return None
            raw = struct.unpack("<d", struct.pack("<Q", int(oracle[5:], 16)))[0]
            return fin(raw)
    except OverflowError:
        return "None"
    raise ValueError(op)


def expect_float_un(op, x):
    if op == "abs": return show_f(abs(x))
    if op == "neg": return show_f(-x)
    if op == "inc": return fin(x + 1.0)
    if op == "dec": return fin(x - 1.0)
    if op == "not": return "None"


def expected(case, oracle):
    p = case.split(" ")
    if p[0] == "B":
        l, r = dec(p[2]), dec(p[3])
        if l[0] == "i" and r[0] == "i":
            return expect_int_bin(p[1], l[1], r[1])
        return expect_float_bin(p[1], l, r, oracle)
    if p[0] == "U":
        x = dec(p[2])
        if x[0] == "i":
            return expect_int_un(p[1], x[1])
        return expect_float_un(p[1], x[1])
    return None


def classify(case, impl, exp):
    """known-findings classifier: returns a finding id or None."""
    p = case.split(" ")
    if p[0] == "B" and p[1] == "idiv" and exp == "None" and impl.startswith("I:"):
        l, r = dec(p[2]), dec(p[3])
        if "f" in (l[0], r[0]):
            # C09-K1: float integer-division saturates (`as i32`) instead of yielding unit
            v = int(impl[2:], 16)
            if v in (I32_MAX, I32_MIN, 0):
                return "C09-K1"
    return None


# ---------------------------------------------------------------- generators
def lattice(ks):
    vals = {I32_MIN, I32_MIN + 1, -1, 0, 1, I32_MAX - 1, I32_MAX, 2, -2, 3, -3, 7, -7, 10, 31, 32, 33, -31, -32, 46340, 46341, -46341}
    for k in ks:
        for d in (-1, 0, 1):
            for s in (1, -1):
                v = s * (2 ** k) + d
                if in_i32(v):
                    vals.add(v)
    return sorted(vals)


FLOATS = [0.0, -0.0, 1.0, -1.0, 0.5, -0.5, 1.5, 2.0, 3.0, -3.0, 2.9, 0.1, 1e-320, 5e-324, -5e-324,
          2.2250738585072014e-308, 1.7976931348623157e308, -1.7976931348623157e308, 1e308, -1e308,
          2147483647.0, 2147483648.0, -2147483648.0, -2147483649.0, 2147483647.5, 4294967296.0, 1e10, -1e10,
          9007199254740992.0, 9007199254740993.0, 0.3333333333333333, 1e-7, 123456.789, -8.0, 8.0, 1e154, 1e155, 31.0, 32.0]


def gen_cases(tier, seed):
    rng = vplib.rng_for(seed, "C09")
    cases = []
    ks = range(0, 32) if tier == "thorough" else (0, 1, 2, 4, 5, 8, 15, 16, 30, 31)
    lat = lattice(ks)
    for op in BINOPS:
        for a in lat:
            for b in lat:
                cases.append("B %s %s %s" % (op, enc_i(a), enc_i(b)))
    for op in UNOPS:
        for a in lat:
            cases.append("U %s %s" % (op, enc_i(a)))
    n_rand = 200000 if tier == "thorough" else 6000
    for _ in range(n_rand):
        op = rng.choice(BINOPS)
        a = rng.randint(I32_MIN, I32_MAX) if rng.random() < 0.7 else rng.randint(-70000, 70000)
        if op in ("shl", "shr", "pow"):
            b = rng.choice([rng.randint(-3, 40), rng.randint(I32_MIN, I32_MAX)])
        else:
            b = rng.randint(I32_MIN, I32_MAX) if rng.random() < 0.6 else rng.randint(-70000, 70000)
        cases.append("B %s %s %s" % (op, enc_i(a), enc_i(b)))
    # float x float, mixed
    fl = list(FLOATS)
    for _ in range(60 if tier == "thorough" else 12):
        m = rng.random() * 2 - 1
        fl.append(math.ldexp(m, rng.randint(-1070, 1023)))
    ints_small = [I32_MIN, -7, -1, 0, 1, 2, 3, 31, 32, I32_MAX]
    for op in BINOPS:
        for a in fl:
            for b in fl:
                cases.append("B %s %s %s" % (op, enc_f(a), enc_f(b)))
            for b in ints_small:
                cases.append("B %s %s %s" % (op, enc_f(a), enc_i(b)))
                cases.append("B %s %s %s" % (op, enc_i(b), enc_f(a)))
    for op in UNOPS:
        for a in fl:
            cases.append("U %s %s" % (op, enc_f(a)))
    return cases


# ----------------------------------------------------------------- the check
TRUSTED = vplib.BASE_TRUSTED + [
    "axioms (Print Assumptions): the four standard-library axioms Flocq's real-number development depends on",
    "f64::powf is an oracle (its value is taken from the implementation per case; only the finite/unit classification is proved)",
    "f64 `%` is modelled as fmod on aligned mantissas; the model is proved exact over the reals (Proofs/C09/Fmod.v) and tied to the implementation by correspondence, bit for bit",
    "tools/props/c09.py: independent exact-arithmetic oracle (Python ints / IEEE doubles)",
]


def run_pair(cases, profile="debug"):
    text = "\n".join(cases) + "\n"
    rc, impl = vplib.run_lines([vplib.harness_bin("numop", profile)], text, timeout=1200)
    if rc != 0 or len(impl) != len(cases):
        return None, None, "numop harness rc=%s lines=%d/%d" % (rc, len(impl), len(cases))
    rc, model = vplib.run_lines([vplib.OCAML_BUILD + "/num_driver"], "\n".join(impl) + "\n", timeout=1800)
    if rc != 0 or len(model) != len(cases):
        return impl, None, "num_driver rc=%s lines=%d/%d %s" % (rc, len(model), len(cases), model[-1:] if model else "")
    return impl, model, None


def run(tier, seed):
    v = Verdict(PID, tier, seed)
    v.assumptions = ["operands are in the i32 range / finite binary64 values (what a Number value can hold)",
                     "left shift is a bit operation on 32-bit two's complement (bits shifted out are discarded)",
                     "float results are 'exact' in the IEEE-754 sense: correctly rounded, round-to-nearest-even"]
    pr = vplib.prove(PID, ["Proofs/C09"], extra_targets=["Extract/NumExtract.vo"])
    for f in pr["failures"]:
        v.tie_failure("prove: " + f)
    v.coverage.update(vplib.proof_coverage(
        pr, "make -C coq Properties/C09.vo && coqc Properties/C09.v (Print Assumptions) && tools/props/c09.py correspondence", TRUSTED))
    ok, out = vplib.cargo_build("debug", bins=["numop"])
    if not ok:
        v.tie_failure("harness build failed: " + out[-400:])
    profiles = ["debug"]
    if tier == "thorough":
        okr, outr = vplib.cargo_build("release", bins=["numop"])
        if okr:
            profiles.append("release")
        else:
            v.tie_failure("harness release build failed: " + outr[-300:])
    okm, outm = vplib.ocaml_build("num") if pr["ok"] or vplib.os.path.exists(vplib.OCAML_BUILD + "/num_model.ml") else (False, "no extracted model")
    if not okm:
        v.tie_failure("model driver build failed: " + outm[-300:])
    cases = gen_cases(tier, seed)
    import collections
    stats = collections.Counter({"cases": len(cases)})
    distinct = set()
    samples = []
    if ok:
        for profile in profiles:
            impl, model, err = run_pair(cases, profile)
            if err:
                v.tie_failure("correspondence run (%s): %s" % (profile, err))
            if impl is None:
                continue
            for i, line in enumerate(impl):
                case, res, oracle = line.split("\t")
                mres = cspec = None
                if model is not None:
                    _, mres, cspec = model[i].split("\t")
                exp = expected(case, oracle)
                if profile == "debug":
                    if " f" in case: stats["with_float"] += 1
                    else: stats["int_int"] += 1
                    if res == "None": stats["none_results"] += 1
                    if res != "None" and res != "PANIC":
                        distinct.add(case)
                    if len(samples) < 6 and i % max(1, len(impl) // 6) == 0:
                        samples.append({"case": case, "impl": res, "model": mres, "oracle": exp})
                bad_prop = False
                if exp is None:
                    stats["oracle_no_opinion"] += 1
                elif res != exp:
                    bad_prop = True
                if cspec not in (None, "-") and res != cspec:
                    bad_prop = True
                    exp = exp or cspec
                if res == "PANIC":
                    bad_prop = True
                if bad_prop:
                    fid = classify(case, res, exp)
                    listed = {f["id"] for f in vplib.findings_for(PID)}
                    if fid and fid in listed:
                        v.known_hit(fid, "%s -> %s (expected %s)" % (case, res, exp))
                    else:
                        stats["spec_disagreements"] += 1
                        v.violation(component="numop", profile=profile, input=case, impl=res, expected=exp,
                                    coq_spec=cspec, model=mres,
                                    what="GarnishNumber result differs from the exact/IEEE result or unit")
                elif mres is not None and mres != res:
                    stats["model_disagreements"] += 1
                    if stats["model_disagreements"] <= 5:
                        v.tie_failure("correspondence numop (%s): %s impl=%s model=%s" % (profile, case, res, mres))
    n_exec = exec_stage(v, tier, seed, stats)
    v.coverage.update({
        "evaluations": len(cases) * len(profiles) + n_exec,
        "distinct_nontrivial": len(distinct),
        "rule": "boundary lattice of i32 values (MIN, MIN+1, +-2^k+-1, small, MAX-1, MAX) x every binary/unary operation "
                "exhaustively, seeded random i32 pairs, float x float and mixed pairs over zeros, subnormals, huge, "
                "fractional and random values; a case is non-trivial when the operation returns a number (not unit)",
        "samples": samples,
        "histogram": dict(stats),
        "profiles": profiles,
    })
    return v.finish("proof")


# ------------------------------------------------ instruction level (both data implementations)
SRC_OPS = {"add": "+", "sub": "-", "mul": "*", "div": "/", "idiv": "//", "rem": "%", "pow": "**",
           "and": "&", "or": "|", "xor": "^", "shl": "<<", "shr": ">>"}
INT_LITS = [0, 1, 2, 3, 5, 7, 31, 32, 33, 1000, 46341, 65536, 2147483646, 2147483647]
FLT_LITS = ["0.0", "0.5", "1.0", "2.0", "2.5", "5.0", "7.0", "31.0", "1000.0", "2147483647.0", "2147483648.0", "0.1"]


def lit_val(text):
    return ("f", float(text)) if "." in text else ("i", int(text))


def apply_op(op, l, r):
    """expected result of one instruction on tagged numbers; returns tagged number or None (unit)"""
    if l is None or r is None:
        return "undef"          # arithmetic on unit: not C09's business
    if l[0] == "i" and r[0] == "i":
        e = expect_int_bin(op, l[1], r[1])
    else:
        if op == "pow":
            return "undef"      # powf oracle not available at this level
        e = expect_float_bin(op, l, r, "-")
    if e is None:
        return "undef"
    if e == "None":
        return None
    if e.startswith("I:"):
        return ("i", int(e[2:], 16))
    return ("f", struct.unpack("<d", struct.pack("<Q", int(e[2:], 16)))[0])


def show_tagged(v):
    if v is None:
        return "U"
    return ("i" + (("-%x" % -v[1]) if v[1] < 0 else ("%x" % v[1]))) if v[0] == "i" else ("f%016x" % struct.unpack("<Q", struct.pack("<d", v[1]))[0])


def exec_stage(v, tier, seed, stats):
    """run one- and two-operation numeric programs through lex/parse/build/execute on BOTH data
    implementations and compare the final value (type-exact) with the oracle"""
    import re
    ok, out = vplib.cargo_build("debug", bins=["exec"])
    if not ok:
        v.tie_failure("exec harness build failed: " + out[-300:])
        return 0
    exe = vplib.private_copy(vplib.harness_bin("exec"))
    rng = vplib.rng_for(seed, "C09-exec")
    lits = [str(i) for i in INT_LITS] + FLT_LITS
    progs = []
    for op in SRC_OPS:
        for a in lits:
            for b in lits:
                progs.append(([a, b], [op]))
    for _ in range(60000 if tier == "thorough" else 6000):
        progs.append(([rng.choice(lits), rng.choice(lits), rng.choice(lits)], [rng.choice(list(SRC_OPS)), rng.choice(list(SRC_OPS))]))
    cases = []
    for lts, ops in progs:
        src = lts[0] + " " + SRC_OPS[ops[0]] + " " + lts[1]
        if len(ops) == 2:
            src = "(" + src + ") " + SRC_OPS[ops[1]] + " " + lts[2]
        cases.append("E " + ",".join("%x" % ord(c) for c in src) + "|U|-|")
    rc, lines = vplib.run_lines([exe], "\n".join(cases) + "\n", timeout=1800)
    try:
        vplib.os.remove(exe)
    except OSError:
        pass
    if len(lines) != len(cases):
        v.tie_failure("exec harness: %d of %d lines" % (len(lines), len(cases)))
        return 0
    for (lts, ops), line in zip(progs, lines):
        res = line.split("\t")[1]
        a0, b0 = lit_val(lts[0]), lit_val(lts[1])
        cur = apply_op(ops[0], a0, b0)
        # known finding C09-K1 at this level: a float `//` whose exact result is unit (the code saturates)
        k1 = ops[0] == "idiv" and "f" in (a0[0], b0[0]) and cur is None
        if cur != "undef" and len(ops) == 2:
            c0 = lit_val(lts[2])
            nxt = apply_op(ops[1], cur, c0)
            k1 = k1 or (ops[1] == "idiv" and cur is not None and "f" in (cur[0], c0[0]) and nxt is None)
            cur = nxt
        if cur == "undef":
            stats["exec_oracle_no_opinion"] += 1
            continue
        want = show_tagged(cur)
        m = re.search(r" S=OK v=(\S+) ", res)
        got = m.group(1) if m else res[:80]
        same_basic = " X=same" in res
        src = "".join(chr(int(x, 16)) for x in line.split("\t")[0][2:].split("|")[0].split(","))
        stats["exec_checked"] += 1
        if (got != want or not same_basic) and k1 and "C09-K1" in {f["id"] for f in vplib.findings_for(PID)}:
            v.known_hit("C09-K1", "%s -> %s (expected %s)" % (src, got, want))
            stats["exec_known"] += 1
        elif got != want or not same_basic:
            v.violation(component="exec", input=line.split("\t")[0], source=src, impl=res[:300], expected=want,
                        what="result of the arithmetic instructions differs from the exact/IEEE result or unit"
                             + ("" if same_basic else " (the two data implementations disagree)"))
    return len(cases)


def replay(obj):
    cases = [x["input"] for x in obj.get("violations", []) if x.get("component") == "numop"]
    if not cases:
        print("replay names a broken tie, not an input:", obj.get("no_longer_checks"))
        return run("quick", obj.get("seed", 0))
    ok, out = vplib.cargo_build("debug", bins=["numop"])
    impl, model, err = run_pair(cases)
    rc = 0
    for line in impl or []:
        case, res, oracle = line.split("\t")
        exp = expected(case, oracle)
        status = "ok" if exp is None or exp == res else "FAILS"
        if status == "FAILS":
            rc = 1
        print("%s: %s impl=%s expected=%s" % (status, case, res, exp))
    return rc
