(* Extraction of the store models for the C15 correspondence check.
   ExtrOcamlBasic only; nat/positive/N/Z stay Coq datatypes. No Extract Constant. *)
Require Import ExtrOcamlBasic.
From Coq Require Import NArith ZArith List.
From GV Require Import Base.Result Gen.Instr Model.StoreBase Model.BasicStore Model.SimpleStore Model.StoreOps.
Cd "../build/ocaml".
Extraction "store_model.ml"
  bstep sstep run new_with_settings new_default simple_new all_instruction all_data_type
  instruction_index data_type_index
  get_data_len get_data_type get_number get_type get_char get_byte get_symbol get_expression get_external
  get_pair get_concatenation get_range get_slice get_partial get_list_len get_list_item get_list_item_with_symbol
  get_char_list_len get_char_list_item get_byte_list_len get_byte_list_item get_symbol_list_len get_symbol_list_item
  get_list_item_iter_all
  get_register_len get_register get_instruction_len get_instruction get_jump_table_len get_from_jump_table
  get_current_value pop_value_stack pop_frame get_symbol_string get_symbol_expression get_from_custom_data_block
  s_get_data_len s_get_data_type s_get_number s_get_type s_get_char s_get_byte s_get_symbol s_get_expression s_get_external
  s_get_pair s_get_concatenation s_get_range s_get_slice s_get_partial s_get_list_len s_get_list_item s_get_list_item_with_symbol
  s_get_char_list_len s_get_char_list_item s_get_byte_list_len s_get_byte_list_item s_get_symbol_list_len s_get_symbol_list_item
  s_get_list_item_iter
  s_get_register_len s_get_register s_get_instruction_len s_get_instruction s_get_jump_table_len s_get_from_jump_table
  s_get_current_value s_pop_frame s_get_symbol_name usize_of_int.
Cd "../../coq".
