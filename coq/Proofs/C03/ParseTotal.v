(* parse never panics and never runs out of fuel: the parent walks are bounded by
   the count guards of the Rust (count > nodes.len()). *)
From Coq Require Import List Arith Bool NArith Lia.
From GV Require Import Base.Result Gen.TokenTypes Gen.Defs Model.Parser.
Import ListNotations.

Definition total {A} (r : res A) : Prop :=
  match r with Panic _ => False | OutOfFuel => False | _ => True end.

Lemma total_bind {A B} (r : res A) (f : A -> res B) :
  total r -> (forall a, total (f a)) -> total (bind r f).
Proof. destruct r; simpl; auto. Qed.

Lemma prio_total d : total (prio_of d).
Proof. unfold prio_of. destruct (priority d); exact I. Qed.

Lemma walk_total fuel nodes id my se rtl ug cl tl count :
  count <= length nodes -> length nodes + 1 <= fuel + count ->
  total (walk fuel nodes id my se rtl ug cl tl count).
Proof.
  revert cl tl count. induction fuel as [|fuel IH]; intros cl tl count Hc Hf; [lia|].
  simpl. destruct cl as [li|]; [|exact I].
  destruct (nth_error nodes li) as [n|]; [|exact I].
  apply total_bind; [apply prio_total|]. intros their.
  destruct (_ || _); [exact I|].
  destruct (opt_nat_eqb _ _); [exact I|].
  destruct (Nat.ltb_spec (length nodes) (S count)); [exact I|].
  apply IH; lia.
Qed.

Ltac tot :=
  repeat first
    [ exact I
    | apply prio_total
    | apply total_bind; [|intros]
    | match goal with
      | |- total (match ?x with _ => _ end) => destruct x
      | |- total (if ?x then _ else _) => destruct x
      | |- total (let '(_, _) := ?x in _) => destruct x
      end ].

Lemma parse_token_total id d left nodes ug rtl : total (parse_token id d left nodes ug rtl).
Proof.
  unfold parse_token.
  apply total_bind; [apply prio_total|]. intros my.
  apply total_bind; [apply walk_total; lia|]. intros [parent tl].
  tot.
Qed.

Lemma make_list_node_total cid oid st ug : total (make_list_node cid oid st ug).
Proof. unfold make_list_node. apply total_bind; [apply parse_token_total|]. intros [[ns p] tl]. exact I. Qed.

Lemma space_list_check_total st ug : total (space_list_check st ug).
Proof. unfold space_list_check. tot. Qed.

Lemma step_total ntoks i tok st : total (step ntoks i tok st).
Proof.
  unfold step.
  apply total_bind; [tot|]. intros ug.
  apply total_bind; [tot|]. intros [[ll psec] psig].
  destruct (get_definition tok) as [definition sec].
  match goal with |- total (if ?c then _ else _) => destruct c; [exact I|] end.
  match goal with |- total (if ?c then _ else _) => destruct c; [exact I|] end.
  apply total_bind.
  - destruct sec; cbn [impl_err];
      repeat first
        [ exact I
        | apply parse_token_total
        | apply make_list_node_total
        | apply space_list_check_total
        | apply total_bind; [|intros]
        | match goal with
          | |- total (match ?x with _ => _ end) => destruct x
          | |- total (if ?x then _ else _) => destruct x
          | |- total (let '(_, _) := ?x in _) => destruct x
          end ].
  - intros [st1 [[[d p] l] r]]. exact I.
Qed.

Lemma run_steps_total ntoks toks : forall i st, total (run_steps ntoks i toks st).
Proof.
  induction toks as [|t rest IH]; intros i st; simpl; [exact I|].
  apply total_bind; [apply step_total|]. intros st'. apply IH.
Qed.

Lemma find_root_total fuel ns root n count :
  count <= length ns -> length ns + 1 <= fuel + count -> total (find_root fuel ns root n count).
Proof.
  revert root n count. induction fuel as [|fuel IH]; intros root n count Hc Hf; [lia|].
  simpl. destruct (n_parent n) as [i|]; [|exact I].
  destruct (nth_error ns i) as [p|]; [|exact I].
  destruct (Nat.ltb_spec (length ns) (S count)); [exact I|].
  apply IH; lia.
Qed.

Theorem parse_total toks : total (parse toks).
Proof.
  unfold parse, parse_trimmed.
  destruct (snd (trim_tokens toks)) as [|t rest]; [exact I|].
  apply total_bind; [apply run_steps_total|]. intros st.
  destruct (forbidden _ _ _); [exact I|].
  destruct (_ && _); [exact I|].
  destruct (group_stack st); [|exact I].
  match goal with |- total (match ?l with _ => _ end) => destruct l as [|n0 ns] eqn:E end; [exact I|].
  apply total_bind; [|intros; exact I].
  apply find_root_total; simpl; lia.
Qed.
