(* C16, BasicGarnishData: search.rs.  On an association table sorted by
   strictly increasing key, the binary search returns the index of the entry
   keyed by the symbol if there is one and None otherwise; it never indexes
   out of range and never runs out of fuel.  And the stable sort used by
   end_list produces: the associations in nondecreasing key order, then the
   other cells. *)
From Coq Require Import NArith List Bool Arith Lia Sorted Permutation.
From GV Require Import Base.Result Model.StoreBase Model.BasicStore Spec.AssocSpec Proofs.C15.ListFacts.
Import ListNotations.

Definition cell_of (kv : N * nat) : cell := CAssociativeItem (fst kv) (snd kv).
Definition key_lt (a b : N * nat) : Prop := (fst a < fst b)%N.

Lemma sorted_nth : forall {A} (R : A -> A -> Prop) l i j a b, StronglySorted R l -> i < j ->
  nth_error l i = Some a -> nth_error l j = Some b -> R a b.
Proof.
  intros A R l. induction l as [|x r IH]; intros i j a b Hs Hij Ha Hb; [destruct i; discriminate|].
  inversion Hs; subst. destruct i as [|i]; destruct j as [|j]; try lia.
  - cbn in Ha, Hb. inversion Ha; subst. rewrite Forall_forall in H2. apply H2. eapply nth_error_In; exact Hb.
  - cbn in Ha, Hb. apply (IH i j a b); [assumption|lia|exact Ha|exact Hb].
Qed.

Lemma nth_cells : forall tbl i, nth_error (map cell_of tbl) i = option_map cell_of (nth_error tbl i).
Proof. intros. apply nth_error_map. Qed.

Section Search.
Variable tbl : list (N * nat).
Hypothesis Hsorted : StronglySorted key_lt tbl.
Variable sym : N.

Lemma search_loop_spec : forall fuel base size, size <= fuel -> 1 <= size -> base + size <= length tbl ->
  exists b, search_loop fuel (map cell_of tbl) sym base size = Ok b /\ base <= b < base + size /\
    (forall j v, nth_error tbl j = Some (sym, v) -> base <= j < base + size -> j = b).
Proof.
  induction fuel as [|fuel IH]; intros base size Hf H1 Hb; [lia|].
  cbn [search_loop]. destruct (size <=? 1) eqn:E1.
  - apply Nat.leb_le in E1. exists base. split; [reflexivity|]. split; [lia|]. intros j v _ Hj. lia.
  - apply Nat.leb_gt in E1.
    pose proof (Nat.mul_div_le size 2 ltac:(lia)) as Hd1.
    assert (Hd2 : 0 < size / 2) by (apply Nat.div_str_pos; lia).
    set (half := size / 2) in *.
    rewrite nth_cells. destruct (nth_error tbl (base + half)) as [[km vm]|] eqn:Em; [|apply nth_error_None in Em; lia].
    cbn [option_map cell_of fst snd as_associative_item bind].
    destruct (IH (if (sym <? km)%N then base else base + half) (size - half)) as (b & Hr & Hrange & Huniq); try lia.
    { destruct (sym <? km)%N; lia. }
    exists b. split; [exact Hr|]. split; [destruct (sym <? km)%N; lia|].
    intros j v Hj Hw. apply (Huniq j v Hj).
    destruct (sym <? km)%N eqn:Ec.
    + apply N.ltb_lt in Ec.
      destruct (lt_dec j (base + half)) as [Hlt|Hge]; [lia|]. exfalso.
      destruct (Nat.eq_dec j (base + half)) as [->|Hne].
      * rewrite Em in Hj. inversion Hj; subst. lia.
      * pose proof (sorted_nth key_lt tbl (base + half) j (km, vm) (sym, v) Hsorted ltac:(lia) Em Hj) as Hk.
        unfold key_lt in Hk. cbn in Hk. lia.
    + apply N.ltb_ge in Ec.
      destruct (lt_dec j (base + half)) as [Hlt|Hge]; [|lia]. exfalso.
      pose proof (sorted_nth key_lt tbl j (base + half) (sym, v) (km, vm) Hsorted Hlt Hj Em) as Hk.
      unfold key_lt in Hk. cbn in Hk. lia.
Qed.

(* the index found, as a specification *)
Definition find_key : option (nat * nat) :=
  (fix go (l : list (N * nat)) (i : nat) : option (nat * nat) :=
     match l with
     | [] => None
     | (k, v) :: r => if N.eqb k sym then Some (i, v) else go r (S i)
     end) tbl 0.

Theorem search_index_spec :
  (forall j v, nth_error tbl j = Some (sym, v) -> search_for_associative_item_index (map cell_of tbl) sym = Ok (Some j)) /\
  ((forall j v, nth_error tbl j <> Some (sym, v)) -> search_for_associative_item_index (map cell_of tbl) sym = Ok None).
Proof.
  unfold search_for_associative_item_index. rewrite map_length.
  destruct (length tbl) as [|n] eqn:El.
  - split.
    + intros j v Hj. destruct tbl; [destruct j; discriminate|discriminate].
    + reflexivity.
  - cbn [Nat.eqb].
    destruct (search_loop_spec (S (S n)) 0 (S n)) as (b & Hr & Hrange & Huniq); try lia.
    rewrite Hr. cbn [bind]. rewrite nth_cells.
    destruct (nth_error tbl b) as [[kb vb]|] eqn:Eb; [|apply nth_error_None in Eb; lia].
    cbn [option_map cell_of fst snd as_associative_item bind]. split.
    + intros j v Hj. assert (Hjb : j = b).
      { apply (Huniq j v Hj). assert (j < length tbl) by (apply nth_error_Some; congruence). lia. }
      subst j. rewrite Eb in Hj. inversion Hj; subst. rewrite N.eqb_refl. reflexivity.
    + intro Habs. destruct (N.eqb kb sym) eqn:E; [|reflexivity]. apply N.eqb_eq in E. subst kb. exfalso. apply (Habs b vb). exact Eb.
Qed.

(* what get_list_item_with_symbol / get_symbol_expression compute from the table *)
Theorem search_value_spec : NoDup (map fst tbl) ->
  (do it <- search_for_associative_item (map cell_of tbl) sym ;
   match it with
   | Some item => do sv <- as_associative_item item ; Ok (Some (snd sv))
   | None => Ok None
   end) = Ok (assoc_lookup sym (map Some tbl)).
Proof.
  intro Hnd. destruct search_index_spec as [Hfound Habsent]. unfold search_for_associative_item.
  destruct (assoc_lookup sym (map Some tbl)) as [v|] eqn:El.
  - assert (Hin : In (sym, v) tbl).
    { clear - El. induction tbl as [|[k x] r IH]; cbn in El; [discriminate|].
      destruct (N.eqb k sym) eqn:E; [apply N.eqb_eq in E; inversion El; subst; left; reflexivity|right; auto]. }
    apply In_nth_error in Hin. destruct Hin as [j Hj]. rewrite (Hfound j v Hj). cbn [bind].
    rewrite nth_cells, Hj. reflexivity.
  - rewrite Habsent; [reflexivity|]. intros j v Hj. apply nth_error_In in Hj.
    clear - El Hj. induction tbl as [|[k x] r IH]; [destruct Hj|]. cbn in El.
    destruct (N.eqb k sym) eqn:E; [discriminate|]. destruct Hj as [H|H]; [inversion H; subst; rewrite N.eqb_refl in E; discriminate|auto].
Qed.
End Search.

(* ---- the stable sort of end_list ---- *)
Definition le_cell (a b : cell) : Prop := assoc_le a b = true.

Lemma assoc_le_total : forall a b, assoc_le a b = true \/ assoc_le b a = true.
Proof.
  intros a b. destruct a, b; cbn; auto.
  destruct (N.leb s s0) eqn:E; [auto|]. right. apply N.leb_gt in E. apply N.leb_le. lia.
Qed.

Lemma assoc_le_trans : forall a b c, assoc_le a b = true -> assoc_le b c = true -> assoc_le a c = true.
Proof.
  intros a b c. destruct a, b, c; cbn; intros H1 H2; try reflexivity; try discriminate.
  apply N.leb_le in H1. apply N.leb_le in H2. apply N.leb_le. lia.
Qed.

Lemma insert_sorted_sorted : forall x l, StronglySorted le_cell l -> StronglySorted le_cell (insert_sorted assoc_le x l).
Proof.
  intros x l Hs. induction l as [|y r IH]; cbn.
  - constructor; [constructor|constructor].
  - destruct (assoc_le x y) eqn:E.
    + constructor; [exact Hs|]. inversion Hs; subst. constructor; [exact E|].
      rewrite Forall_forall in *. intros z Hz. eapply assoc_le_trans; [exact E|apply H2; exact Hz].
    + inversion Hs; subst. constructor; [apply IH; assumption|].
      assert (Hyx : assoc_le y x = true) by (destruct (assoc_le_total x y); congruence).
      rewrite Forall_forall in *. intros z Hz.
      apply (Permutation_in _ (Permutation_sym (insert_sorted_perm assoc_le x r))) in Hz.
      destruct Hz as [<-|Hz]; [exact Hyx|apply H2; exact Hz].
Qed.

Theorem stable_sort_sorted : forall l, StronglySorted le_cell (stable_sort assoc_le l).
Proof.
  induction l as [|x r IH]; cbn; [constructor|]. apply insert_sorted_sorted. exact IH.
Qed.
