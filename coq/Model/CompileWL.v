(* The same program obtained the long way round: print the AST to tokens, parse
   them with the parser model (Model/Parser.v), build with the transliterated
   worklist builder (Model/BuilderWL.v), and turn the result into a machine
   program: a data operand becomes the value of the literal its parse node's
   token spells (the printer knows which literal every token spells).
   Used to validate Model/CompileExpr.v against the builder model on every
   run (and in bounded theorems).  No proofs in this file. *)
From Coq Require Import ZArith NArith List Bool Arith.
From GV Require Import Base.Result Base.Host Gen.TokenTypes Gen.Defs Gen.Instr Model.Num Model.Value
  Model.Parser Model.BuilderWL Model.Machine Spec.Ast Spec.Printer Spec.Eval.
Import ListNotations.

Definition E_operand : N := 30%N.   (* a data operand whose node has no literal token *)

Section WL.
Variable sym_hash : list N -> N.

Definition operand_value (toks : list atok) (nodes : list pnode) (ni : nat) : res val :=
  match nth_error nodes ni with
  | Some pn =>
      match n_tok pn with
      | Some t =>
          match nth_error toks t with
          | Some (_, Some l) => Ok (lit_val sym_hash l)
          | _ => Err E_operand
          end
      | None => Err E_operand
      end
  | None => Err E_operand
  end.

Fixpoint convert (toks : list atok) (nodes : list pnode) (l : list instr) : res (list minstr) :=
  match l with
  | [] => Ok []
  | (i, o) :: rest =>
      do m <- match o with
              | ONone => Ok MNone
              | ONum n => Ok (MNum n)
              | OData ni => do v <- operand_value toks nodes ni; Ok (MVal v)
              | OExpr j => Ok (MVal (VExpr (N.of_nat j)))
              end;
      do r <- convert toks nodes rest;
      Ok ((i, m) :: r)
  end.

(* program and entry (jump-table index) *)
Definition wl_program (e : expr) : res (program * nat) :=
  let toks := aprint e in
  do p <- parse (map (fun t => fst (fst t)) toks);
  let '(root, nodes) := p in
  do b <- build nodes empty_init (fun _ => true) (build_fuel nodes) root;
  let '(bs, entry) := b in
  do c <- convert toks nodes (instrs bs);
  Ok (mkProg c (jumps bs), entry).

End WL.

Definition mop_eqb (veq : val -> val -> bool) (a b : mop) : bool :=
  match a, b with
  | MNone, MNone => true
  | MNum x, MNum y => Nat.eqb x y
  | MVal x, MVal y => veq x y
  | _, _ => false
  end.
