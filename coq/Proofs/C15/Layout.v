(* C15, storage layer: the heap invariant [Inv], the abstraction [abs] and
   the two facts everything else rests on:
     reallocate_heap keeps every table and re-establishes the layout;
     push_to_block extends exactly one table. *)
From Coq Require Import NArith List Bool Arith Lia.
From GV Require Import Base.Result Model.StoreBase Model.BasicStore Spec.AbsTables Proofs.C15.ListFacts.
Import ListNotations.

Definition sz (s : basic) (b : blk) : nat := b_size (get_block s b).
Definition cur (s : basic) (b : blk) : nat := b_cursor (get_block s b).
Definition st (s : basic) (b : blk) : nat := b_start (get_block s b).
Definition sett (s : basic) (b : blk) : settings := b_settings (get_block s b).

(* where a block starts when the blocks are laid out in declaration order *)
Definition offset (f : blk -> nat) (b : blk) : nat :=
  match b with
  | BInstr => 0
  | BJump => f BInstr
  | BSym => f BInstr + f BJump
  | BExpr => f BInstr + f BJump + f BSym
  | BData => f BInstr + f BJump + f BSym + f BExpr
  | BCustom => f BInstr + f BJump + f BSym + f BExpr + f BData
  end.

Record Inv (s : basic) : Prop := {
  inv_start : forall b, st s b = offset (sz s) b;
  inv_cursor : forall b, cur s b <= sz s b;
  inv_len : length (heap s) = total_size (sz s) }.

(* everything but the heap and the blocks *)
Definition same_heads (s s' : basic) : Prop :=
  cur_value s' = cur_value s /\ cur_register s' = cur_register s /\ cur_frame s' = cur_frame s /\
  ip s' = ip s /\ retention s' = retention s.

Lemma same_heads_refl : forall s, same_heads s s.
Proof. intro s. repeat split. Qed.

Lemma same_heads_trans : forall a b c, same_heads a b -> same_heads b c -> same_heads a c.
Proof. unfold same_heads. intros a b c H1 H2. intuition congruence. Qed.

Lemma blk_eqb_refl : forall b, blk_eqb b b = true.
Proof. destruct b; reflexivity. Qed.

Lemma blk_eqb_eq : forall a b, blk_eqb a b = true <-> a = b.
Proof. destruct a, b; cbn; split; intro H; congruence. Qed.

Lemma blk_eqb_neq : forall a b, blk_eqb a b = false <-> a <> b.
Proof. destruct a, b; cbn; split; intro H; congruence. Qed.

Lemma get_set_block : forall s b x b', get_block (set_block s b x) b' = if blk_eqb b' b then x else get_block s b'.
Proof. destruct b, b'; reflexivity. Qed.

Lemma heap_set_block : forall s b x, heap (set_block s b x) = heap s.
Proof. destruct b; reflexivity. Qed.

Lemma get_block_set_heap : forall s h b, get_block (set_heap s h) b = get_block s b.
Proof. destruct b; reflexivity. Qed.

Lemma heap_set_heap : forall s h, heap (set_heap s h) = h.
Proof. reflexivity. Qed.

Lemma window_nth : forall s b i,
  nth_error (window s b) i = if i <? cur s b then nth_error (heap s) (st s b + i) else None.
Proof. intros. unfold window. apply nth_error_window. Qed.

Lemma window_len : forall s b, Inv s -> length (window s b) = cur s b.
Proof.
  intros s b I. unfold window. apply window_length.
  pose proof (inv_start s I) as Hs. pose proof (inv_cursor s I) as Hc. pose proof (inv_len s I) as Hl.
  rewrite Hl. fold (st s b) (cur s b). rewrite Hs. unfold total_size.
  pose proof (Hc BInstr); pose proof (Hc BJump); pose proof (Hc BSym); pose proof (Hc BExpr); pose proof (Hc BData); pose proof (Hc BCustom).
  destruct b; cbn [offset]; lia.
Qed.

Lemma window_ext : forall s s' b, cur s' b = cur s b ->
  (forall i, i < cur s b -> nth_error (heap s') (st s' b + i) = nth_error (heap s) (st s b + i)) ->
  window s' b = window s b.
Proof.
  intros s s' b Hc H. apply list_ext_nth. intro i. rewrite !window_nth, Hc.
  destruct (i <? cur s b) eqn:E; [|reflexivity]. apply Nat.ltb_lt in E. auto.
Qed.

Ltac bool_arith :=
  repeat match goal with
         | H : (_ <=? _) = true |- _ => apply Nat.leb_le in H
         | H : (_ <=? _) = false |- _ => apply Nat.leb_gt in H
         | H : (_ <? _) = true |- _ => apply Nat.ltb_lt in H
         | H : (_ <? _) = false |- _ => apply Nat.ltb_ge in H
         | H : (_ =? _) = true |- _ => apply Nat.eqb_eq in H
         | H : (_ =? _) = false |- _ => apply Nat.eqb_neq in H
         | H : andb _ _ = true |- _ => apply andb_true_iff in H; destruct H
         end.

Ltac red_blocks :=
  cbn [get_block set_block set_heap set_cur_value set_cur_register set_cur_frame set_ip
       heap blk_instr blk_jump blk_sym blk_expr blk_data blk_custom
       cur_value cur_register cur_frame ip retention
       b_start b_cursor b_size b_settings offset] in *.

(* resolve one range test of a copied block *)
Ltac range_case :=
  match goal with
  | |- context[if (?a <=? ?j) && (?j <? ?b) then _ else _] =>
      let E1 := fresh "E" in let E2 := fresh "E" in
      destruct (a <=? j) eqn:E1; destruct (j <? b) eqn:E2; cbn [andb]; bool_arith; try lia
  end.

(* ---- reallocate_heap ---- *)
Lemma reallocate_ok : forall s new, Inv s -> (forall b, cur s b <= new b) ->
  (forall b, exceeds (new b) (max_items (sett s b)) = false) ->
  exists s', reallocate_heap new s = Ok (s', Done tt) /\ Inv s' /\
    (forall b, window s' b = window s b) /\
    (forall b, sz s' b = new b) /\ (forall b, cur s' b = cur s b) /\ (forall b, sett s' b = sett s b) /\
    same_heads s s'.
Proof.
  intros s new I Hnew Hmax.
  pose proof (inv_start s I) as Hs. pose proof (inv_cursor s I) as Hc. pose proof (inv_len s I) as Hl.
  unfold reallocate_heap.
  assert (Hex : existsb (fun b => exceeds (new b) (max_items (b_settings (get_block s b)))) all_blk = false).
  { cbn [existsb all_blk]. unfold sett in Hmax. rewrite !Hmax. reflexivity. }
  rewrite Hex. clear Hex.
  pose proof (Hc BInstr) as C1; pose proof (Hc BJump) as C2; pose proof (Hc BSym) as C3;
    pose proof (Hc BExpr) as C4; pose proof (Hc BData) as C5; pose proof (Hc BCustom) as C6.
  pose proof (Hnew BInstr) as M1; pose proof (Hnew BJump) as M2; pose proof (Hnew BSym) as M3;
    pose proof (Hnew BExpr) as M4; pose proof (Hnew BData) as M5; pose proof (Hnew BCustom) as M6.
  pose proof (Hs BInstr) as S1; pose proof (Hs BJump) as S2; pose proof (Hs BSym) as S3;
    pose proof (Hs BExpr) as S4; pose proof (Hs BData) as S5; pose proof (Hs BCustom) as S6.
  unfold st, cur, sz in *. cbn [offset] in *. unfold total_size in Hl. cbv beta in *.
  set (old := heap s) in *.
  set (nh0 := repeat CEmpty (total_size new)).
  assert (L0 : length nh0 = total_size new) by apply repeat_length.
  unfold total_size in L0.
  cbn [realloc_blocks all_blk].
  destruct (copy_loop_spec (b_cursor (get_block s BInstr)) old (b_start (get_block s BInstr)) 0 nh0) as (nh1 & E1 & L1 & N1); [lia|lia|].
  rewrite E1. cbn [bind].
  destruct (copy_loop_spec (b_cursor (get_block s BJump)) old (b_start (get_block s BJump)) (0 + new BInstr) nh1) as (nh2 & E2 & L2 & N2); [lia|lia|].
  rewrite E2. cbn [bind].
  destruct (copy_loop_spec (b_cursor (get_block s BSym)) old (b_start (get_block s BSym)) (0 + new BInstr + new BJump) nh2) as (nh3 & E3 & L3 & N3); [lia|lia|].
  rewrite E3. cbn [bind].
  destruct (copy_loop_spec (b_cursor (get_block s BExpr)) old (b_start (get_block s BExpr)) (0 + new BInstr + new BJump + new BSym) nh3) as (nh4 & E4 & L4 & N4); [lia|lia|].
  rewrite E4. cbn [bind].
  destruct (copy_loop_spec (b_cursor (get_block s BData)) old (b_start (get_block s BData)) (0 + new BInstr + new BJump + new BSym + new BExpr) nh4) as (nh5 & E5 & L5 & N5); [lia|lia|].
  rewrite E5. cbn [bind].
  destruct (copy_loop_spec (b_cursor (get_block s BCustom)) old (b_start (get_block s BCustom)) (0 + new BInstr + new BJump + new BSym + new BExpr + new BData) nh5) as (nh6 & E6 & L6 & N6); [lia|lia|].
  rewrite E6. cbn [bind].
  eexists. split; [reflexivity|].
  assert (Hread : forall j, nth_error nh6 j =
     if (0 + new BInstr + new BJump + new BSym + new BExpr + new BData <=? j) && (j <? 0 + new BInstr + new BJump + new BSym + new BExpr + new BData + b_cursor (get_block s BCustom))
     then nth_error old (b_start (get_block s BCustom) + (j - (0 + new BInstr + new BJump + new BSym + new BExpr + new BData)))
     else if (0 + new BInstr + new BJump + new BSym + new BExpr <=? j) && (j <? 0 + new BInstr + new BJump + new BSym + new BExpr + b_cursor (get_block s BData))
     then nth_error old (b_start (get_block s BData) + (j - (0 + new BInstr + new BJump + new BSym + new BExpr)))
     else if (0 + new BInstr + new BJump + new BSym <=? j) && (j <? 0 + new BInstr + new BJump + new BSym + b_cursor (get_block s BExpr))
     then nth_error old (b_start (get_block s BExpr) + (j - (0 + new BInstr + new BJump + new BSym)))
     else if (0 + new BInstr + new BJump <=? j) && (j <? 0 + new BInstr + new BJump + b_cursor (get_block s BSym))
     then nth_error old (b_start (get_block s BSym) + (j - (0 + new BInstr + new BJump)))
     else if (0 + new BInstr <=? j) && (j <? 0 + new BInstr + b_cursor (get_block s BJump))
     then nth_error old (b_start (get_block s BJump) + (j - (0 + new BInstr)))
     else if (0 <=? j) && (j <? 0 + b_cursor (get_block s BInstr))
     then nth_error old (b_start (get_block s BInstr) + (j - 0))
     else nth_error nh0 j).
  { intro j. rewrite N6, N5, N4, N3, N2, N1. reflexivity. }
  clear N1 N2 N3 N4 N5 N6 E1 E2 E3 E4 E5 E6.
  split; [|split; [|split; [|split; [|split]]]].
  - (* Inv *)
    constructor.
    + intro b. unfold st, sz. destruct b; red_blocks; lia.
    + intro b. unfold cur, sz. destruct b; red_blocks; lia.
    + cbn [heap set_heap]. rewrite L6, L5, L4, L3, L2, L1, L0. unfold total_size, sz. red_blocks. lia.
  - (* tables unchanged *)
    intro b. apply window_ext.
    + unfold cur. destruct b; reflexivity.
    + intros i Hi. cbn [heap set_heap]. fold old. rewrite Hread.
      unfold cur, st in *.
      destruct b; red_blocks; repeat range_case; f_equal; lia.
  - intro b. unfold sz. destruct b; reflexivity.
  - intro b. unfold cur. destruct b; reflexivity.
  - intro b. unfold sett. destruct b; reflexivity.
  - repeat split.
Qed.

(* ---- reading ---- *)
Lemma in_heap : forall s b i, Inv s -> i < sz s b -> st s b + i < length (heap s).
Proof.
  intros s b i I Hi. rewrite (inv_len s I), (inv_start s I). unfold total_size.
  unfold sz in *. destruct b; cbn [offset]; lia.
Qed.

Lemma get_from_block_ok : forall s b i, Inv s ->
  get_from_block b i s = match nth_error (window s b) i with Some c => Ok c | None => Err E_index end.
Proof.
  intros s b i I. unfold get_from_block. rewrite window_nth. fold (cur s b) (st s b).
  destruct (cur s b <=? i) eqn:E.
  - apply Nat.leb_le in E. assert (E2 : (i <? cur s b) = false) by (apply Nat.ltb_ge; lia). rewrite E2. reflexivity.
  - apply Nat.leb_gt in E. assert (E2 : (i <? cur s b) = true) by (apply Nat.ltb_lt; lia). rewrite E2.
    destruct (nth_error (heap s) (st s b + i)) eqn:N; [reflexivity|].
    apply nth_error_None in N. pose proof (in_heap s b i I). pose proof (inv_cursor s I b). lia.
Qed.

(* blocks do not overlap *)
Lemma disjoint_blocks : forall s b b' i j, Inv s -> b' <> b -> i < sz s b -> j < sz s b' -> st s b' + j <> st s b + i.
Proof.
  intros s b b' i j I Hne Hi Hj. rewrite !(inv_start s I). unfold sz in *.
  destruct b, b'; try congruence; cbn [offset]; lia.
Qed.

(* ---- push_to_block ---- *)
Lemma push_block_ok : forall s b c, Inv s -> cur s b < sz s b ->
  exists h', push_to_block (heap s) (get_block s b) c =
               Ok (h', mkBlock (st s b) (S (cur s b)) (sz s b) (sett s b), cur s b) /\
    let s' := set_heap (set_block s b (mkBlock (st s b) (S (cur s b)) (sz s b) (sett s b))) h' in
    Inv s' /\ window s' b = window s b ++ [c] /\ (forall b', b' <> b -> window s' b' = window s b').
Proof.
  intros s b c I Hlt. unfold push_to_block. fold (cur s b) (st s b) (sz s b) (sett s b).
  destruct (set_ix_some (heap s) (st s b + cur s b) c) as [h' Hh]; [apply in_heap; assumption|].
  rewrite Hh. exists h'. split; [reflexivity|]. cbv zeta.
  set (s' := set_heap (set_block s b _) h').
  assert (Hg : forall b', get_block s' b' = if blk_eqb b' b then mkBlock (st s b) (S (cur s b)) (sz s b) (sett s b) else get_block s b').
  { intro b'. unfold s'. rewrite get_block_set_heap, get_set_block. reflexivity. }
  assert (Hst : forall b', st s' b' = st s b').
  { intro b'. unfold st. rewrite Hg. destruct (blk_eqb b' b) eqn:E; [apply blk_eqb_eq in E; subst b'; reflexivity|reflexivity]. }
  assert (Hsz : forall b', sz s' b' = sz s b').
  { intro b'. unfold sz. rewrite Hg. destruct (blk_eqb b' b) eqn:E; [apply blk_eqb_eq in E; subst b'; reflexivity|reflexivity]. }
  assert (Hcur : forall b', cur s' b' = if blk_eqb b' b then S (cur s b) else cur s b').
  { intro b'. unfold cur. rewrite Hg. destruct (blk_eqb b' b); reflexivity. }
  assert (Hheap : heap s' = h') by reflexivity.
  split; [|split].
  - constructor.
    + intro b'. rewrite Hst, (inv_start s I). destruct b'; cbn [offset]; rewrite ?Hsz; reflexivity.
    + intro b'. rewrite Hcur, Hsz. destruct (blk_eqb b' b) eqn:E.
      * apply blk_eqb_eq in E. subst b'. lia.
      * apply (inv_cursor s I).
    + rewrite Hheap, (set_ix_length _ _ _ _ Hh), (inv_len s I). unfold total_size. rewrite !Hsz. reflexivity.
  - apply list_ext_nth. intro i. rewrite window_nth, Hcur, blk_eqb_refl, Hst, Hheap, (set_ix_nth _ _ _ _ _ Hh).
    rewrite nth_error_app_one, (window_len s b I), window_nth.
    destruct (i <? cur s b) eqn:E1; destruct (i <? S (cur s b)) eqn:E2; destruct (st s b + i =? st s b + cur s b) eqn:E3;
      destruct (i =? cur s b) eqn:E4; bool_arith; try lia; reflexivity.
  - intros b' Hne. apply window_ext.
    + rewrite Hcur. apply blk_eqb_neq in Hne. rewrite Hne. reflexivity.
    + intros i Hi. rewrite Hst, Hheap, (set_ix_nth _ _ _ _ _ Hh).
      destruct (st s b' + i =? st s b + cur s b) eqn:E; [|reflexivity].
      apply Nat.eqb_eq in E. exfalso.
      apply (disjoint_blocks s b b' (cur s b) i I Hne Hlt); [|exact E].
      pose proof (inv_cursor s I b'). lia.
Qed.

(* ---- growth policy ---- *)
Definition can_progress (bl : block) : Prop :=
  match strat (b_settings bl) with
  | FixedSize k => 1 <= k
  | Multiplicative m => 2 <= m /\ 1 <= b_size bl
  end.

Lemma next_size_gt : forall bl, can_progress bl -> b_size bl < next_size bl.
Proof.
  intros bl H. unfold can_progress, next_size in *. destruct (strat (b_settings bl)) as [k|m]; [lia|].
  destruct H as [Hm Hs]. pose proof (Nat.mul_le_mono_l 2 m (b_size bl) Hm). lia.
Qed.

(* a store whose growth settings can make progress and have no item limit *)
Record Good (s : basic) : Prop := {
  good_inv : Inv s;
  good_progress : forall b, can_progress (get_block s b);
  good_nomax : forall b, max_items (sett s b) = None }.

Lemma progress_mono : forall bl bl', b_settings bl' = b_settings bl -> b_size bl <= b_size bl' -> can_progress bl -> can_progress bl'.
Proof.
  intros bl bl' Hs Hz H. unfold can_progress in *. rewrite Hs. destruct (strat (b_settings bl)); [assumption|]. lia.
Qed.

(* ---- push_to: grow the block if it is full, then push ---- *)
Lemma grow_ok : forall s b, Good s ->
  exists s', grow_if_full b s = Ok (s', Done tt) /\ Good s' /\ cur s' b < sz s' b /\
    (forall b', window s' b' = window s b') /\ (forall b', cur s' b' = cur s b') /\
    (forall b', sett s' b' = sett s b') /\ (forall b', sz s b' <= sz s' b') /\ same_heads s s'.
Proof.
  intros s b [I P M]. unfold grow_if_full. fold (sz s b) (cur s b).
  destruct (sz s b <=? cur s b) eqn:E.
  - apply Nat.leb_le in E.
    pose proof (next_size_gt _ (P b)) as Hgt. fold (sz s b) in Hgt.
    assert (Hnew : forall b', cur s b' <= sizes_with s b (next_size (get_block s b)) b').
    { intro b'. unfold sizes_with. destruct (blk_eqb b' b) eqn:Eb.
      - apply blk_eqb_eq in Eb. subst b'. pose proof (inv_cursor s I b). lia.
      - apply (inv_cursor s I). }
    destruct (reallocate_ok s (sizes_with s b (next_size (get_block s b))) I Hnew) as (s' & Hr & I' & Hw & Hz & Hc & Hse & Hh).
    { intro b'. rewrite M. reflexivity. }
    exists s'. split; [exact Hr|].
    assert (Hmono : forall b', sz s b' <= sz s' b').
    { intro b'. rewrite Hz. unfold sizes_with. destruct (blk_eqb b' b) eqn:Eb; [apply blk_eqb_eq in Eb; subst b'; lia|reflexivity]. }
    split; [|split; [|split; [|split; [|split; [|split]]]]]; try assumption.
    + constructor; [assumption| |].
      * intro b'. apply (progress_mono (get_block s b')); [apply Hse|apply Hmono|apply P].
      * intro b'. rewrite Hse. apply M.
    + rewrite Hz, Hc. unfold sizes_with. rewrite blk_eqb_refl. pose proof (inv_cursor s I b). lia.
  - apply Nat.leb_gt in E. exists s. split; [reflexivity|].
    split; [constructor; assumption|]. split; [assumption|].
    repeat split; auto.
Qed.

Lemma push_to_ok : forall s b c, Good s ->
  exists s', push_to b c s = Ok (s', Done (cur s b)) /\ Good s' /\
    window s' b = window s b ++ [c] /\ (forall b', b' <> b -> window s' b' = window s b') /\
    (forall b', sett s' b' = sett s b') /\ (forall b', sz s b' <= sz s' b') /\ same_heads s s'.
Proof.
  intros s b c G. unfold push_to, sbind.
  destruct (grow_ok s b G) as (s1 & Hg & G1 & Hlt & Hw & Hc & Hse & Hz & Hh). rewrite Hg.
  destruct G1 as [I1 P1 M1].
  destruct (push_block_ok s1 b c I1 Hlt) as (h' & Hp & I2 & Hwb & Hwo). rewrite Hp.
  rewrite <- (Hc b). eexists. split; [reflexivity|].
  set (s2 := set_heap (set_block s1 b _) h') in *.
  assert (Hg2 : forall b', get_block s2 b' = if blk_eqb b' b then mkBlock (st s1 b) (S (cur s1 b)) (sz s1 b) (sett s1 b) else get_block s1 b').
  { intro b'. unfold s2. rewrite get_block_set_heap, get_set_block. reflexivity. }
  assert (Hse2 : forall b', sett s2 b' = sett s1 b').
  { intro b'. unfold sett. rewrite Hg2. destruct (blk_eqb b' b) eqn:E; [apply blk_eqb_eq in E; subst b'; reflexivity|reflexivity]. }
  assert (Hsz2 : forall b', sz s2 b' = sz s1 b').
  { intro b'. unfold sz. rewrite Hg2. destruct (blk_eqb b' b) eqn:E; [apply blk_eqb_eq in E; subst b'; reflexivity|reflexivity]. }
  split; [|split; [|split; [|split; [|split]]]].
  - constructor; [exact I2| |].
    + intro b'. apply (progress_mono (get_block s1 b')); [apply Hse2| |apply P1].
      fold (sz s1 b') (sz s2 b'). rewrite Hsz2. lia.
    + intro b'. rewrite Hse2. apply M1.
  - rewrite Hwb, Hw. reflexivity.
  - intros b' Hne. rewrite (Hwo b' Hne). apply Hw.
  - intro b'. rewrite Hse2. apply Hse.
  - intro b'. rewrite Hsz2. apply Hz.
  - destruct Hh as (A1 & A2 & A3 & A4 & A5). unfold s2. destruct b; repeat split; assumption.
Qed.

(* ---- overwriting a cell below the cursor ---- *)
Lemma set_in_block_ok : forall s b i c, Inv s -> i < cur s b ->
  exists s' l', set_in_block b i c s = Ok (s', Done tt) /\ Inv s' /\
    set_ix (window s b) i c = Some l' /\ window s' b = l' /\
    (forall b', b' <> b -> window s' b' = window s b') /\
    (forall b', get_block s' b' = get_block s b') /\ same_heads s s'.
Proof.
  intros s b i c I Hi. unfold set_in_block. fold (cur s b) (st s b).
  assert (E : (cur s b <=? i) = false) by (apply Nat.leb_gt; assumption). rewrite E.
  pose proof (inv_cursor s I b) as Hc.
  destruct (set_ix_some (heap s) (st s b + i) c) as [h' Hh]; [apply in_heap; [assumption|lia]|].
  rewrite Hh.
  destruct (set_ix_some (window s b) i c) as [l' Hl]; [rewrite (window_len s b I); assumption|].
  exists (set_heap s h'), l'. split; [reflexivity|].
  assert (Hg : forall b', get_block (set_heap s h') b' = get_block s b') by (intro; apply get_block_set_heap).
  split; [|split; [exact Hl|split; [|split; [|split; [exact Hg|repeat split]]]]].
  - constructor.
    + intro b'. unfold st, sz. rewrite Hg. pose proof (inv_start s I b') as H. unfold st in H. rewrite H.
      destruct b'; cbn [offset]; unfold sz; rewrite ?Hg; reflexivity.
    + intro b'. unfold cur, sz. rewrite Hg. apply (inv_cursor s I).
    + cbn [heap set_heap]. rewrite (set_ix_length _ _ _ _ Hh), (inv_len s I). unfold total_size, sz. rewrite !Hg. reflexivity.
  - apply list_ext_nth. intro j. rewrite window_nth. unfold cur, st. rewrite Hg. fold (cur s b) (st s b).
    cbn [heap set_heap]. rewrite (set_ix_nth _ _ _ _ _ Hh), (set_ix_nth _ _ _ _ _ Hl), window_nth.
    destruct (j <? cur s b) eqn:E1; destruct (st s b + j =? st s b + i) eqn:E2; destruct (j =? i) eqn:E3; bool_arith; try lia; reflexivity.
  - intros b' Hne. apply window_ext.
    + unfold cur. rewrite Hg. reflexivity.
    + intros j Hj. unfold st. rewrite Hg. fold (st s b'). cbn [heap set_heap]. rewrite (set_ix_nth _ _ _ _ _ Hh).
      destruct (st s b' + j =? st s b + i) eqn:E2; [|reflexivity]. apply Nat.eqb_eq in E2. exfalso.
      apply (disjoint_blocks s b b' i j I Hne); [lia| |exact E2]. pose proof (inv_cursor s I b'). lia.
Qed.

Lemma set_in_block_fail : forall s b i c, cur s b <= i -> set_in_block b i c s = Ok (s, Fail E_index).
Proof.
  intros s b i c H. unfold set_in_block. fold (cur s b). apply Nat.leb_le in H. rewrite H. reflexivity.
Qed.

(* ---- sorting a range of one block ---- *)
Lemma sort_range_ok : forall s b a' b', Inv s -> a' <= b' -> b' <= cur s b ->
  exists s', sort_range (st s b + a') (st s b + b') s = Ok (s', Done tt) /\ Inv s' /\
    window s' b = splice_ix (window s b) a' b' (stable_sort assoc_le (firstn (b' - a') (skipn a' (window s b)))) /\
    (forall b2, b2 <> b -> window s' b2 = window s b2) /\
    (forall b2, get_block s' b2 = get_block s b2) /\ same_heads s s'.
Proof.
  intros s b a' b' I Hab Hb. unfold sort_range.
  pose proof (inv_cursor s I b) as Hc.
  assert (Hin : st s b + b' <= length (heap s)).
  { destruct (Nat.eq_dec b' 0) as [->|Hn].
    - pose proof (inv_len s I) as Hl. rewrite (inv_start s I), Hl. unfold total_size, sz. destruct b; cbn [offset]; lia.
    - pose proof (in_heap s b (b' - 1) I). lia. }
  rewrite slice_ix_some by lia.
  set (sl := firstn (st s b + b' - (st s b + a')) (skipn (st s b + a') (heap s))).
  set (sl' := firstn (b' - a') (skipn a' (window s b))).
  assert (Hsl : sl = sl').
  { apply list_ext_nth. intro k. unfold sl, sl'. rewrite !nth_error_window, window_nth.
    replace (st s b + b' - (st s b + a')) with (b' - a') by lia.
    destruct (k <? b' - a') eqn:E; [|reflexivity]. bool_arith.
    assert (E2 : (a' + k <? cur s b) = true) by (apply Nat.ltb_lt; lia). rewrite E2. f_equal. lia. }
  assert (Lsl : length sl = b' - a').
  { unfold sl. rewrite firstn_length, skipn_length. lia. }
  eexists. split; [reflexivity|].
  set (h' := splice_ix (heap s) (st s b + a') (st s b + b') (stable_sort assoc_le sl)).
  assert (Lh : length h' = length (heap s)).
  { unfold h'. apply splice_ix_length; [lia|lia|]. rewrite stable_sort_length. lia. }
  assert (Hg : forall b2, get_block (set_heap s h') b2 = get_block s b2) by (intro; apply get_block_set_heap).
  assert (Hn : forall j, nth_error h' j =
     if (st s b + a' <=? j) && (j <? st s b + b') then nth_error (stable_sort assoc_le sl) (j - (st s b + a')) else nth_error (heap s) j).
  { intro j. unfold h'. apply splice_ix_nth; [lia|lia|]. rewrite stable_sort_length. lia. }
  split; [|split; [|split; [|split; [exact Hg|repeat split]]]].
  - constructor.
    + intro b2. unfold st, sz. rewrite Hg. pose proof (inv_start s I b2) as H. unfold st in H. rewrite H.
      destruct b2; cbn [offset]; unfold sz; rewrite ?Hg; reflexivity.
    + intro b2. unfold cur, sz. rewrite Hg. apply (inv_cursor s I).
    + cbn [heap set_heap]. rewrite Lh, (inv_len s I). unfold total_size, sz. rewrite !Hg. reflexivity.
  - apply list_ext_nth. intro j. rewrite window_nth. unfold cur, st. rewrite Hg. fold (cur s b) (st s b).
    cbn [heap set_heap]. rewrite Hn.
    rewrite splice_ix_nth; [|lia|rewrite (window_len s b I); lia|rewrite stable_sort_length; fold sl'; rewrite <- Hsl; lia].
    fold sl'. rewrite <- Hsl. rewrite window_nth.
    destruct (j <? cur s b) eqn:E1; destruct (st s b + a' <=? st s b + j) eqn:E2; destruct (st s b + j <? st s b + b') eqn:E3;
      destruct (a' <=? j) eqn:E4; destruct (j <? b') eqn:E5; cbn [andb]; bool_arith; try lia; try reflexivity.
    f_equal. lia.
  - intros b2 Hne. apply window_ext.
    + unfold cur. rewrite Hg. reflexivity.
    + intros j Hj. unfold st. rewrite Hg. fold (st s b2) (st s b). cbn [heap set_heap]. rewrite Hn.
      destruct ((st s b + a' <=? st s b2 + j) && (st s b2 + j <? st s b + b')) eqn:E; [|reflexivity].
      bool_arith. exfalso.
      apply (disjoint_blocks s b b2 (st s b2 + j - st s b) j I Hne); [lia| |lia].
      pose proof (inv_cursor s I b2). lia.
Qed.
