(* C19 proofs, part 7: the executable reader [read_f] computes the relation [Reads]. *)
From Coq Require Import NArith List Bool Arith Lia.
From GV Require Import Base.Result Model.Optimize Spec.HeapIso Proofs.C19.Base.
Import ListNotations.

Definition slot_read (f : nat -> option tree) (sl : cell) : option tree :=
  match sl with
  | CListItem x => match f x with Some t => Some (TNode (CListItem 0) [t]) | None => None end
  | CAssocItem s x => match f x with Some t => Some (TNode (CAssocItem s 0) [t]) | None => None end
  | CEmpty => Some (TNode CEmpty [])
  | _ => None
  end.

Lemma read_f_unfold : forall f h a,
  read_f (S f) h a =
  match nth_error h a with
  | None => None
  | Some c =>
      if is_leaf c then Some (TNode c [])
      else match addrs c with
           | Some ads => match all_some (map (read_f f h) ads) with
                         | Some kids => Some (TNode (erase c) kids) | None => None end
           | None =>
             match seq_len c with
             | Some len => match slice h (S a) len with
                           | Some payload => if forallb is_leaf payload then Some (TNode c (map leaf_node payload)) else None
                           | None => None end
             | None =>
               match list_len c with
               | Some len => match slice h (S a) (len * 2) with
                             | Some slots => match all_some (map (slot_read (read_f f h)) slots) with
                                             | Some kids => Some (TNode c kids) | None => None end
                             | None => None end
               | None =>
                 match frame_addrs c with
                 | Some ads =>
                     match a with
                     | O => None
                     | S a' => match nth_error h a' with
                               | Some (CJumpPoint p) =>
                                   match all_some (map (read_f f h) ads) with
                                   | Some kids => Some (TNode (erase c) (TNode (CJumpPoint p) [] :: kids))
                                   | None => None end
                               | _ => None end
                     end
                 | None => None
                 end
               end
             end
           end
  end.
Proof. reflexivity. Qed.

Lemma all_some_ReadsL : forall h (f : nat -> option tree),
  (forall a t, f a = Some t -> Reads h a t) ->
  forall ads kids, all_some (map f ads) = Some kids -> ReadsL h ads kids.
Proof.
  intros h f Hf. induction ads as [|a ads IH]; intros kids H; cbn in H.
  - inversion H. constructor.
  - destruct (f a) as [t|] eqn:E; try discriminate H.
    destruct (all_some (map f ads)) as [r|] eqn:E2; try discriminate H.
    inversion H; subst. constructor; auto.
Qed.

Lemma all_some_ReadsSlots : forall h (f : nat -> option tree),
  (forall a t, f a = Some t -> Reads h a t) ->
  forall slots kids, all_some (map (slot_read f) slots) = Some kids -> ReadsSlots h slots kids.
Proof.
  intros h f Hf. induction slots as [|sl slots IH]; intros kids H; cbn in H.
  - inversion H. constructor.
  - destruct (slot_read f sl) as [t|] eqn:E; try discriminate H.
    destruct (all_some (map (slot_read f) slots)) as [r|] eqn:E2; try discriminate H.
    inversion H; subst. destruct sl; cbn in E; try discriminate E.
    + inversion E; subst. constructor; auto.
    + destruct (f a) as [tx|] eqn:Ex; try discriminate E. inversion E; subst. constructor; auto.
    + destruct (f a) as [tx|] eqn:Ex; try discriminate E. inversion E; subst. constructor; auto.
Qed.

(* soundness: what the reader returns is what the relation specifies *)
Theorem read_f_sound : forall n h a t, read_f n h a = Some t -> Reads h a t.
Proof.
  induction n as [|n IH]; intros h a t H; [discriminate H|].
  rewrite read_f_unfold in H.
  destruct (nth_error h a) as [c|] eqn:Ec; try discriminate H.
  destruct (is_leaf c) eqn:El.
  { inversion H; subst. apply R_leaf; auto. }
  destruct (addrs c) as [ads|] eqn:Ea.
  { destruct (all_some (map (read_f n h) ads)) as [kids|] eqn:Ek; try discriminate H.
    inversion H; subst. eapply R_simple; eauto. eapply all_some_ReadsL; eauto. }
  destruct (seq_len c) as [len|] eqn:Es.
  { destruct (slice h (S a) len) as [payload|] eqn:Esl; try discriminate H.
    destruct (forallb is_leaf payload) eqn:Ef; try discriminate H.
    inversion H; subst. eapply R_seq; eauto. }
  destruct (list_len c) as [len|] eqn:Ell.
  { destruct (slice h (S a) (len * 2)) as [slots|] eqn:Esl; try discriminate H.
    destruct (all_some (map (slot_read (read_f n h)) slots)) as [kids|] eqn:Ek; try discriminate H.
    inversion H; subst. eapply R_list; eauto. eapply all_some_ReadsSlots; eauto. }
  destruct (frame_addrs c) as [ads|] eqn:Ef; try discriminate H.
  destruct a as [|a']; try discriminate H.
  destruct (nth_error h a') as [[]|] eqn:Ej; try discriminate H.
  destruct (all_some (map (read_f n h) ads)) as [kids|] eqn:Ek; try discriminate H.
  inversion H; subst. eapply R_frame; eauto. eapply all_some_ReadsL; eauto.
Qed.

(* completeness: enough fuel finds every readable tree *)
Lemma leaf_excl : forall c ads, addrs c = Some ads -> is_leaf c = false.
Proof. intros c ads H. destruct c; try discriminate H; reflexivity. Qed.
Lemma seq_excl : forall c n, seq_len c = Some n -> is_leaf c = false /\ addrs c = None.
Proof. intros c n H. destruct c; try discriminate H; split; reflexivity. Qed.
Lemma list_excl : forall c n, list_len c = Some n -> is_leaf c = false /\ addrs c = None /\ seq_len c = None.
Proof. intros c n H. destruct c; try discriminate H; repeat split; reflexivity. Qed.
Lemma frame_excl : forall c ads, frame_addrs c = Some ads ->
  is_leaf c = false /\ addrs c = None /\ seq_len c = None /\ list_len c = None.
Proof. intros c ads H. destruct c; try discriminate H; repeat split; reflexivity. Qed.

Theorem read_f_complete_mut : forall h,
  (forall a t, Reads h a t -> exists n, forall m, n <= m -> read_f m h a = Some t) /\
  (forall ads kids, ReadsL h ads kids -> exists n, forall m, n <= m -> all_some (map (read_f m h) ads) = Some kids) /\
  (forall slots kids, ReadsSlots h slots kids ->
     exists n, forall m, n <= m -> all_some (map (slot_read (read_f m h)) slots) = Some kids).
Proof.
  intro h. apply Reads_mutind.
  - intros a c Hn Hl. exists 1. intros [|m] Hm; [lia|]. rewrite read_f_unfold, Hn, Hl. reflexivity.
  - intros a c ads kids Hn Ha _ [n IH]. exists (S n). intros [|m] Hm; [lia|].
    rewrite read_f_unfold, Hn, (leaf_excl _ _ Ha), Ha, IH by lia. reflexivity.
  - intros a c len payload Hn Hs Hsl Hf. exists 1. intros [|m] Hm; [lia|].
    destruct (seq_excl _ _ Hs) as [H1 H2]. rewrite read_f_unfold, Hn, H1, H2, Hs, Hsl, Hf. reflexivity.
  - intros a c len slots kids Hn Hl Hsl _ [n IH]. exists (S n). intros [|m] Hm; [lia|].
    destruct (list_excl _ _ Hl) as [H1 [H2 H3]].
    rewrite read_f_unfold, Hn, H1, H2, H3, Hl, Hsl, IH by lia. reflexivity.
  - intros a c ads p kids Hn Hf Hj _ [n IH]. exists (S n). intros [|m] Hm; [lia|].
    destruct (frame_excl _ _ Hf) as [H1 [H2 [H3 H4]]].
    rewrite read_f_unfold, Hn, H1, H2, H3, H4, Hf, Hj, IH by lia. reflexivity.
  - exists 0. intros m _. reflexivity.
  - intros a t l ts _ [n1 IH1] _ [n2 IH2]. exists (Nat.max n1 n2). intros m Hm.
    cbn. rewrite IH1, IH2 by lia. reflexivity.
  - exists 0. intros m _. reflexivity.
  - intros a t l ts _ [n1 IH1] _ [n2 IH2]. exists (Nat.max n1 n2). intros m Hm.
    cbn. rewrite IH1, IH2 by lia. reflexivity.
  - intros s a t l ts _ [n1 IH1] _ [n2 IH2]. exists (Nat.max n1 n2). intros m Hm.
    cbn. rewrite IH1, IH2 by lia. reflexivity.
  - intros l ts _ [n IH]. exists n. intros m Hm. cbn. rewrite IH by lia. reflexivity.
Qed.

Theorem read_f_complete : forall h a t, Reads h a t -> exists n, forall m, n <= m -> read_f m h a = Some t.
Proof. intros h a t H. exact (proj1 (read_f_complete_mut h) a t H). Qed.
