(* Outcome monad shared by every model: [Ok] a value, [Err] a handled error
   (with a small class code), [Panic] the Rust code would unwind at this point,
   [OutOfFuel] the model's explicit fuel ran out (theorems exclude it). *)
From Coq Require Import NArith List.

Inductive res (A : Type) : Type :=
| Ok (a : A)
| Err (code : N)
| Panic (site : N)
| OutOfFuel.
Arguments Ok {A} a.
Arguments Err {A} code.
Arguments Panic {A} site.
Arguments OutOfFuel {A}.

Definition bind {A B} (r : res A) (f : A -> res B) : res B :=
  match r with
  | Ok a => f a
  | Err c => Err c
  | Panic s => Panic s
  | OutOfFuel => OutOfFuel
  end.

Definition rmap {A B} (f : A -> B) (r : res A) : res B := bind r (fun a => Ok (f a)).

Notation "'do' x <- r ; k" := (bind r (fun x => k)) (at level 200, x pattern, r at level 100, k at level 200, right associativity).

Definition is_ok {A} (r : res A) : bool := match r with Ok _ => true | _ => false end.
Definition is_panic {A} (r : res A) : bool := match r with Panic _ => true | _ => false end.
Definition no_panic {A} (r : res A) : Prop := match r with Panic _ => False | _ => True end.
Definition terminates {A} (r : res A) : Prop := match r with OutOfFuel => False | _ => True end.
