"""C06 Evaluation is stack-balanced on every path."""
import os, re, time
import vplib, codelib as cl
from vplib import Verdict, log

PID = "C06"
MANIFEST_ENTRY = {
 "level_claimed": {
  "category": "proof",
  "text": "Spec/Depth.v gives every instruction its fixed effect on the operand and input-value stacks (from the runtime "
          "operations), the edge rules of the jumping instructions, a typing judgement (one depth pair per reachable instruction, "
          "equal along every path, never below zero, (1,0) where an expression ends, (0,0) at every body start), an executable "
          "abstract interpreter over all paths and an abstract stack-depth machine. Theorems in coq/Properties/C06.v: the "
          "interpreter / checker is sound (an accepted assignment is a typing); in a typed program every reachable machine "
          "configuration carries exactly the typed depths (no underflow, never stuck), a run that ends leaves operand stack, "
          "value stack and frame chain at their initial depths, and a pc - in particular a reapply loop head - is reached at the "
          "same depth at every iteration; for all 73^3 token triples, all sequences of length <= 5 over the reduced alphabet and all "
          "sequences of length 7 over a ten-token alphabet every accepted program outside the listed finding classes (and without bare `;;`) is typable; machine-checked "
          "witnesses show each excluded class is untypable. Inductive static theorem (C06_static_full, by induction on the tree through "
          "Model/Compile.v with a ghost depth assigned to every emitted instruction, every placeholder and every join): for EVERY "
          "proper tree that keeps the arity discipline of Proofs/C06/Balanced.v (operand positions leave one operand, attachment "
          "positions none, an else-chain ends in a final else, `^~` where nothing is pending, no `;;`) and EVERY initial state of the "
          "data object, the program the tree compiler builds is typable, ends every expression at depth one and is entered at (0,0); "
          "C06_balanced_operator_expressions (unbounded, on the operator fragment): for EVERY token list on which the reference "
          "precedence-climbing parser of C02 is defined (values, prefix / suffix / binary operators of every rank, conditionals and "
          "else-chains, && / ||, apply forms `<~` `~>` `~~`, `^~`, comma and space lists, round brackets ( ) and nested expressions { } to any depth, the statement separator `;` at top level and directly inside { }, whitespace; C02_full) the parsed tree, "
          "unless in C06-K1 / K3 / K4 (chain classes read at the head of the chain), keeps the discipline, so every program "
          "BuilderWL.build emits for it is typable - by induction on C02's index-carrying tree through Proofs/Builder/PrattBridge.v; "
          "a nested expression is an out-of-line body that must itself keep the discipline and is one value as an operand; "
          "a sequence `a ; b` evaluates both sides from the same pending state, drops the left value and leaves the right one, "
          "so programs of several statements and multi-statement function bodies are covered; "
          "C06-K2 and C05-K2 cannot occur there (C06_operator_expressions_no_K2). Outside that fragment (side-effect "
          "blocks, line-break separators, `;;`): C06_balanced_covers_*: on the same three bounded input spaces every accepted program outside the finding classes keeps the "
          "discipline (beyond the bounds this is checked per program on every run, field L of the model driver). The tree compiler is "
          "tied to the worklist model of build() by compile_agrees_full (Properties/C05.v, proved for ALL node arrays that form a proper "
          "tree, all initial states, all fuel: a successful build IS the tree compiler's result), so C06_static_full_builder states "
          "the same directly for BuilderWL.build and C06_static_full_parsed for every token sequence the parser model accepts (parse returns a proper tree: C05_parse_tree_of); the agreement is also re-checked per program on every run. "
          "On every run the depth harness builds each program on both data implementations and executes it "
          "step by step; every observed step must be a move of the abstract machine, the observed depths must equal the typed "
          "ones, and the native abstract interpretation of the real instruction stream must agree with the extracted Coq one.",
  "design_ref": "DESIGN.md section 8 C06"
 },
 "level_note": "Trusted: Coq kernel; extraction; the depth harness (stack depths measured through the public API by popping a "
               "clone), the OCaml driver's replay of traces on the extracted machine, tools/codelib.py. The effect table is tied to "
               "the runtime by the per-step traces only for instructions the corpus executes. Host callbacks are assumed to push "
               "exactly one operand when they accept. Known findings C06-K1..K4 are excluded and re-confirmed on every run.",
 "technique": "Coq proof (typing soundness, invariant of the abstract depth machine, finite theorems by vm_compute, refutation "
              "witnesses) + differential correspondence of builder models and of the abstract machine with step-by-step executions"
}

TRUSTED = vplib.BASE_TRUSTED + [
    "axioms (Print Assumptions): none",
    "harness/src/codekit.rs: operand depth above the innermost frame, value-stack and frame-chain depth are measured by popping a clone of the data object",
    "ocaml/depth_driver.ml: replays each observed trace on the extracted abstract machine (asteps)",
    "tools/codelib.py: native abstract interpreter (must agree with the extracted infer_depths on every case)",
]

# finding id per tree class, in the order they are tried
CLASS_FINDING = [("chain_no_else", "C06-K1"), ("empty_group", "C06-K2"), ("reapply_pending", "C06-K3"), ("chain_early_else", "C06-K4")]


def gen_cases(tier, seed):
    rng = vplib.rng_for(seed, "C06")
    cases = list(cl.all_triples())
    for s in cl.FIXED_SOURCES:
        cases.append("S " + cl.hx(s))
    for s in cl.source_cases(rng, 120000 if tier == "thorough" else 3500):
        cases.append("S " + cl.hx(s))
    for n, s in cl.loop_family(50 if tier == "thorough" else 12):
        cases.append(("R %d %s" % (n, cl.hx(s))) if n is not None else "S " + cl.hx(s))
    return cases


def run_pair(cases, exe):
    text = "\n".join(cases) + "\n"
    rc, impl = vplib.run_lines([exe], text, timeout=2400)
    if rc != 0 or len(impl) != len(cases):
        return None, None, "depth harness rc=%s lines=%d/%d" % (rc, len(impl), len(cases))
    rc, model = vplib.run_lines([os.path.join(vplib.OCAML_BUILD, "depth_driver")], "\n".join(impl) + "\n", timeout=2400)
    if rc != 0 or len(model) != len(cases):
        return impl, None, "depth_driver rc=%s lines=%d/%d %s" % (rc, len(model), len(cases), model[-1:] if model else "")
    return impl, model, None


def classify(tags, listed):
    for tag, fid in CLASS_FINDING:
        if tag in tags and fid in listed:
            return fid
    return None


def run_state(x):
    """(end, steps) of an X= field"""
    if not x or x == "-":
        return None, 0
    a = x.split(":")
    return a[0], int(a[1])


def dynamic_problem(a, typable):
    """what is wrong with a replayed run (None = consistent with a balanced program)"""
    if a in (None, "-", "empty"):
        return None
    head = a.split(":")[0]
    kind = head.split("@")[0]
    if kind == "ok":
        m = re.search(r"final=(\d+)\.(\d+)\.(\d+)", a)
        if m and (m.group(1), m.group(2), m.group(3)) != ("0", "1", "0"):
            return "the run ends with %s operands, %s values, %s frames left (initially 0, 1, 0)" % m.groups()
        return None
    if kind == "err":
        return None      # a runtime error that is not a stack underflow (the machine could move): outside C06
    if kind == "stuck":
        return "operand stack underflow at step %s" % head.split("@")[1]
    if kind == "off":
        return "control leaves the instruction stream at step %s (%s)" % (head.split("@")[1], a)
    if kind == "untyped":
        return "the depths observed before step %s differ from the typing" % head.split("@")[1]
    if kind == "noentry":
        return "the reported entry names no jump-table entry"
    return "the observed run is not a run of the abstract depth machine (%s)" % a


def evaluate(v, cases, impl, model, stats, samples, distinct, listed):
    n_tie = 0
    executed_instrs = stats["executed_instructions"]
    for i, line in enumerate(impl):
        parts = line.split("\t")
        case, res = parts[0], parts[1]
        f = cl.fields(res)
        kind = case[0]
        stats["kinds"][kind] = stats["kinds"].get(kind, 0) + 1
        if f.get("L") != "ok":
            stats["outcomes"]["lex:" + f.get("L", res)] = stats["outcomes"].get("lex:" + f.get("L", res), 0) + 1
            continue
        p = f.get("P", "")
        if not p.startswith("OK"):
            stats["outcomes"]["parse:" + p] = stats["outcomes"].get("parse:" + p, 0) + 1
            continue
        b = f.get("B", "")
        mres = model[i].split("\t")[1] if model is not None else None
        g = cl.fields(mres) if mres else {}
        if mres is not None:
            if g.get("B") != b:
                stats["model_disagreements"] += 1
                n_tie += 1
                if n_tie <= 5:
                    v.tie_failure("correspondence build: %s (%r) impl=%s model=%s" % (case, cl.case_source(case), b[:300], str(g.get("B"))[:300]))
            if g.get("C") != "same":
                stats["compile_disagreements"] += 1
                n_tie += 1
                if n_tie <= 5:
                    v.tie_failure("tree compiler differs from the worklist model: %s (%r)" % (case, cl.case_source(case)))
        lst = cl.parse_listing(b)
        if lst is None:
            stats["outcomes"]["build:" + b] = stats["outcomes"].get("build:" + b, 0) + 1
            continue
        stats["outcomes"]["built"] = stats["outcomes"].get("built", 0) + 1
        root, nodes = cl.parse_nodes(p)
        tags = cl.tree_classes(nodes, root)
        if "terminator" in tags:
            stats["excluded_bare_terminator"] += 1
            continue
        if "empty_program" in tags:
            stats["excluded_empty_program"] += 1     # reports an entry that does not exist: C20-K2
            continue
        if mres is not None and g.get("G") not in (None, "notree"):
            coq_tags = set(t for t in g["G"].split("+") if t != "none")
            if coq_tags != tags:
                stats["classifier_disagreements"] += 1
                if stats["classifier_disagreements"] <= 5:
                    v.tie_failure("finding classes of the tree: Coq %s vs tools/codelib.py %s on %s (%r)" % (
                        sorted(coq_tags), sorted(tags), case, cl.case_source(case)))
        x = f.get("X", "-")
        end, steps = run_state(x)
        m = re.search(r":\[([0-9;]*)\]$", x or "")
        if m and m.group(1):
            for ins in m.group(1).split(";"):
                executed_instrs[ins] = executed_instrs.get(ins, 0) + 1
        listings = [("simple", lst, g.get("A"))]
        if f.get("BB", "same") != "same":
            stats["basic_differs"] += 1
            lb = cl.parse_listing(f["BB"])
            if lb is not None:
                listings.append(("basic", lb, g.get("AB")))
        else:
            listings.append(("basic", None, g.get("AB")))
        d, why = cl.infer_native(lst)
        typable = d is not None
        # the inductive static theorem covers the trees that keep the arity discipline (L=1): every accepted program
        # outside the finding classes must keep it, and a program that keeps it must be typable
        if mres is not None and g.get("B") == b and g.get("L") in ("0", "1"):
            stats["discipline"][g["L"]] = stats["discipline"].get(g["L"], 0) + 1
            if g["L"] == "0" and not tags:
                stats["discipline_gaps"] += 1
                if stats["discipline_gaps"] <= 5:
                    v.tie_failure("accepted program outside the finding classes does not keep the arity discipline of "
                                  "C06_static_full: %s (%r)" % (case, cl.case_source(case)))
            if g["L"] == "1" and not typable:
                stats["discipline_gaps"] += 1
                if stats["discipline_gaps"] <= 5:
                    v.tie_failure("a tree that keeps the arity discipline built an untypable program (contradicts "
                                  "C06_static_full): %s (%r): %s" % (case, cl.case_source(case), why))
        if mres is not None and g.get("B") == b and g.get("D") not in (None, "-"):
            coq_ok = g["D"].startswith("ok")
            if coq_ok != typable:
                stats["checker_disagreements"] += 1
                if stats["checker_disagreements"] <= 5:
                    v.tie_failure("native and extracted abstract interpreters disagree: %s (%r) coq=%s native=%s" % (
                        case, cl.case_source(case), g["D"][:60], why))
            elif coq_ok:
                nat = ";".join("_" if y is None else "%d.%d" % y for y in d)
                if g["D"] != "ok:[" + nat + "]":
                    stats["checker_disagreements"] += 1
                    if stats["checker_disagreements"] <= 5:
                        v.tie_failure("native and extracted depth assignments differ: %s coq=%s native=%s" % (case, g["D"][:200], nat[:200]))
        stats["static"]["typable" if typable else "untypable"] += 1
        if typable and steps >= 3:
            distinct.add(b)
        if len(samples) < 8 and kind != "T" and i % 577 == 0:
            samples.append({"input": cl.case_source(case), "impl": b[:200], "run": (x or "")[:160], "coq_depths": str(g.get("D"))[:160],
                            "machine_replay": [g.get("A"), g.get("AB")]})
        problems = []
        if not typable:
            problems.append(("static", why))
        for which, l2, a in listings:
            if which == "basic" and l2 is not None:
                d2, why2 = cl.infer_native(l2)
                if d2 is None and typable:
                    problems.append(("static(basic)", why2))
            dp = dynamic_problem(a, typable)
            key = (a or "-").split(":")[0].split("@")[0]
            stats["dynamic"][which + ":" + key] = stats["dynamic"].get(which + ":" + key, 0) + 1
            if dp:
                problems.append(("dynamic(%s)" % which, dp))
        if not problems:
            continue
        fid = classify(tags, listed)
        if fid:
            v.known_hit(fid, "%r: %s" % (cl.case_source(case), problems[0][1]))
            stats["known_hits"][fid] = stats["known_hits"].get(fid, 0) + 1
        else:
            stats["property_failures"] += 1
            if typable and all(k.startswith("dynamic") for k, _ in problems):
                stats["typed_but_unbalanced"] += 1
            if len(v.violations) < 40:
                v.violation(component="build+execute", input=case, shown=cl.case_source(case),
                            what="; ".join("%s: %s" % pr for pr in problems[:3]), impl=b[:400], run=(x or "")[:300],
                            run_basic=f.get("XB", "")[:300], model=str(g.get("B"))[:300], replay=[g.get("A"), g.get("AB")])


def new_stats(n):
    return {"cases": n, "kinds": {}, "outcomes": {}, "static": {"typable": 0, "untypable": 0}, "dynamic": {}, "known_hits": {},
            "model_disagreements": 0, "compile_disagreements": 0, "checker_disagreements": 0, "classifier_disagreements": 0, "basic_differs": 0,
            "excluded_bare_terminator": 0, "excluded_empty_program": 0, "property_failures": 0, "typed_but_unbalanced": 0,
            "executed_instructions": {}, "discipline": {}, "discipline_gaps": 0}


def run(tier, seed):
    v = Verdict(PID, tier, seed)
    v.assumptions = [
        "operand depth is counted above the base of the current call frame; value-stack depth above the body's own input value",
        "host callbacks (resolve, apply, defer_op) push exactly one operand when they accept (the corpus runs with the default hosts, which decline)",
        "programs with a bare `;;` are excluded (property text); the empty program is excluded here and reported under C20-K2",
        "a runtime error that is not an operand-stack underflow (a data error inside an operation) ends a run without making it unbalanced",
    ]
    sy = vplib.sync(["instr", "defs", "tokentypes", "execmap"])
    for name, err in sy.get("errors", {}).items():
        v.tie_failure("translator %s: %s" % (name, err))
    pr = vplib.prove(PID, ["Proofs/C06", "Proofs/Builder"], extra_targets=["Extract/DepthExtract.vo"])
    for f in pr["failures"]:
        v.tie_failure("prove: " + f)
    v.coverage.update(vplib.proof_coverage(
        pr, "make -C coq Properties/C06.vo && coqc Properties/C06.v (Print Assumptions) && tools/props/c06.py correspondence + oracle", TRUSTED))
    v.coverage["tables_regenerated"] = sy.get("changed", [])
    ok, exe, out = cl.harness_exe("depth")
    if not ok:
        v.tie_failure("harness build failed: " + out)
    have_model = os.path.exists(os.path.join(vplib.OCAML_BUILD, "depth_model.ml"))
    okm, outm = vplib.ocaml_build("depth") if have_model else (False, "no extracted model")
    if not okm:
        v.tie_failure("model driver build failed: " + outm[-300:])
    cases = gen_cases(tier, seed)
    stats = new_stats(len(cases))
    distinct, samples = set(), []
    listed = {f["id"] for f in vplib.findings_for(PID)}
    if ok:
        impl, model, err = run_pair(cases, exe)
        if err:
            v.tie_failure("correspondence run: " + err)
        if impl is not None:
            evaluate(v, cases, impl, model if okm else None, stats, samples, distinct, listed)
            if v.tie_failures and not v.violations and tier == "quick":
                rng = vplib.rng_for(seed, "C06-directed")
                extra = ["S " + cl.hx(s) for s in cl.source_cases(rng, 12000, findings=0.0)]
                impl2 = vplib.run_lines([exe], "\n".join(extra) + "\n", timeout=1200)[1]
                st2 = new_stats(len(extra))
                if impl2 and len(impl2) == len(extra):
                    # without the model: static typing of the real stream + balance of the observed runs
                    evaluate_direct(v, extra, impl2, st2, listed)
                stats["directed_search"] = {k: st2[k] for k in ("cases", "property_failures", "known_hits")}
        try:
            os.remove(exe)
        except OSError:
            pass
    names = cl.instructions()
    stats["executed_instructions"] = {names[int(k)] if k.isdigit() and int(k) < len(names) else k: n
                                      for k, n in sorted(stats["executed_instructions"].items(), key=lambda kv: -kv[1])}
    v.coverage.update({
        "evaluations": len(cases),
        "distinct_nontrivial": len(distinct),
        "rule": "all 73^3 token-type triples; a fixed corpus; grammar-generated programs of the core language; reapply-loop families "
                "with iteration counts 0..N (N = 12 quick, 50 thorough) at top level, inside applied expressions, under a pending "
                "operand of the caller, with side effects; every program is built and executed step by step on both data "
                "implementations (600-step limit). A case is non-trivial when it is typable and its run has at least three steps "
                "(counted by distinct instruction streams)",
        "samples": samples,
        "histogram": stats,
    })
    return v.finish("proof")


def balance_of_trace(x):
    """direct look at an observed run without the model: (problem or None)"""
    m = re.match(r"(\w+):(\d+):(.*):\[([^\]]*)\]:\[([^\]]*)\]$", x or "")
    if not m:
        return None
    end, obs = m.group(1), [tuple(int(y) for y in o.split(".")) for o in m.group(4).split(";") if o]
    if end == "END" and obs:
        pc, rel, values, frames, total = obs[-1]
        if (values, frames) != (1, 0):
            return "the run ends with %d values and %d frames on the stacks" % (values, frames)
    seen = {}
    for pc, rel, values, frames, total in obs[:-1]:
        k = (pc, frames)
        if k in seen and seen[k] != (rel, values):
            return "instruction %d is reached at depths %s and %s" % (pc, seen[k], (rel, values))
        seen.setdefault(k, (rel, values))
    return None


def evaluate_direct(v, cases, impl, stats, listed):
    for line in impl:
        parts = line.split("\t")
        case, res = parts[0], parts[1]
        f = cl.fields(res)
        lst = cl.parse_listing(f.get("B", ""))
        if f.get("L") != "ok" or lst is None:
            continue
        root, nodes = cl.parse_nodes(f["P"])
        tags = cl.tree_classes(nodes, root)
        if "terminator" in tags or "empty_program" in tags:
            continue
        d, why = cl.infer_native(lst)
        problem = None if d is not None else why
        if problem is None:
            problem = balance_of_trace(f.get("X"))
        if problem is None and f.get("XB", "same") != "same":
            problem = balance_of_trace(f.get("XB"))
        if problem is None:
            continue
        fid = classify(tags, listed)
        if fid:
            stats["known_hits"][fid] = stats["known_hits"].get(fid, 0) + 1
        else:
            stats["property_failures"] += 1
            if len(v.violations) < 40:
                v.violation(component="build+execute", input=case, shown=cl.case_source(case), what=problem,
                            impl=f.get("B", "")[:400], run=f.get("X", "")[:300])


def replay(obj):
    cases = [x["input"] for x in obj.get("violations", []) if x.get("input", "")[:2] in ("T ", "S ", "R ")]
    if not cases:
        print("replay names a broken tie, not an input:", obj.get("no_longer_checks"))
        return run("quick", obj.get("seed", 0))
    ok, exe, out = cl.harness_exe("depth")
    if not ok:
        print("harness build failed")
        return 2
    impl = vplib.run_lines([exe], "\n".join(cases) + "\n", timeout=600)[1]
    listed = {f["id"] for f in vplib.findings_for(PID)}
    v = Verdict(PID, "replay", obj.get("seed", 0))
    st = new_stats(len(cases))
    evaluate_direct(v, cases, impl, st, listed)
    for x in v.violations:
        print("FAILS: %r %s" % (x["shown"], x["what"]))
    if not v.violations:
        print("ok: %d case(s) balanced or in a listed class %s" % (len(cases), st["known_hits"]))
    return 1 if v.violations else 0
