(* C12: the four operators realise the natural order on the comparable kinds,
   give False on every other type pair and unit on NaN, and never fail. *)
From Coq Require Import ZArith NArith List Bool Reals Lia.
From Flocq Require Import Core IEEE754.BinarySingleNaN IEEE754.Binary IEEE754.Bits.
From GV Require Import Base.Result Gen.Instr Gen.CmpTable Model.Num Model.Value Model.Compare Spec.NatOrder
  Proofs.C09.IntArith Proofs.C12.Numbers Proofs.C12.Lex.
Import ListNotations.

(* which relation each operator is meant to be (pinned here; the code's own
   table is Gen.CmpTable.op_test / op_false_ord) *)
Definition rel_of (o : cmp_op) : rel_op :=
  match o with CLt => RLt | CLe => RLe | CGt => RGt | CGe => RGe end.

(* a Number holds an i32 or a binary64; lists are shorter than 2^31 *)
Definition operand_ok (v : val) : Prop :=
  match v with
  | VNum n => num_wf n
  | VChars l | VBytes l => (Z.of_nat (length l) <= i32_max)%Z
  | _ => True
  end.

(* the generated operator table says what the pinned table says *)
Lemma op_table_ok o c : ord_holds (op_test o) c = rel_holds (rel_of o) c.
Proof. destruct o, c; reflexivity. Qed.

(* and the ordering each operator declares "false" is one it answers False on *)
Lemma false_ord_is_false o : ord_holds (op_test o) (op_false_ord o) = false.
Proof. destruct o; reflexivity. Qed.

(* ---- the generated arm table, read by computation ---- *)
Lemma arm_number : find_arm T_Number T_Number = ArmNumber. Proof. reflexivity. Qed.
Lemma arm_char : find_arm T_Char T_Char = ArmChar. Proof. reflexivity. Qed.
Lemma arm_byte : find_arm T_Byte T_Byte = ArmByte. Proof. reflexivity. Qed.
Lemma arm_char_list : find_arm T_CharList T_CharList = ArmCharList. Proof. reflexivity. Qed.
Lemma arm_byte_list : find_arm T_ByteList T_ByteList = ArmByteList. Proof. reflexivity. Qed.

(* finite: all 21 x 21 type pairs *)
Lemma arm_other t1 t2 : ordered_pair t1 t2 = false -> slice_pair t1 t2 = false ->
  find_arm t1 t2 = ArmFalseOrd.
Proof. destruct t1, t2; intros H1 H2; try discriminate H1; try discriminate H2; reflexivity. Qed.

(* ---- perform_comparison on the comparable kinds ---- *)
Theorem perform_comparison_natural fo l r c : operand_ok l -> operand_ok r ->
  nat_order l r = Some c -> perform_comparison fo l r = Ok (Some c).
Proof.
  intros Wl Wr H.
  destruct l, r; simpl in H; try discriminate H; unfold perform_comparison; cbn [type_of_val].
  - rewrite arm_number. cbn [get_number bind].
    destruct (denote n) as [x|] eqn:Ex; [|discriminate H].
    destruct (denote n0) as [y|] eqn:Ey; [|discriminate H].
    injection H as <-. f_equal. apply num_cmp_correct; assumption.
  - rewrite arm_char. cbn [get_char bind]. unfold cmp_item. congruence.
  - rewrite arm_byte. cbn [get_byte bind]. unfold cmp_item. congruence.
  - rewrite arm_char_list. cbn [get_char_list bind]. rewrite cmp_list_correct by exact Wl. congruence.
  - rewrite arm_byte_list. cbn [get_byte_list bind]. rewrite cmp_list_correct by exact Wl. congruence.
Qed.

Theorem compare_op_natural o l r c : operand_ok l -> operand_ok r ->
  nat_order l r = Some c -> compare_op o l r = Ok (vbool (rel_holds (rel_of o) c)).
Proof.
  intros Wl Wr H. unfold compare_op.
  rewrite (perform_comparison_natural _ l r c Wl Wr H). cbn [bind].
  rewrite op_table_ok. reflexivity.
Qed.

(* `==` on the comparable kinds is "the order says Eq" *)
Theorem prim_equal_natural l r c : operand_ok l -> operand_ok r ->
  nat_order l r = Some c -> prim_equal l r = Some (match c with Eq => true | _ => false end).
Proof.
  intros Wl Wr H.
  destruct l, r; simpl in H; try discriminate H; cbn [prim_equal].
  - destruct (denote n) as [x|] eqn:Ex; [|discriminate H].
    destruct (denote n0) as [y|] eqn:Ey; [|discriminate H].
    injection H as <-. unfold num_eq. rewrite (num_cmp_correct n n0 x y Wl Wr Ex Ey). reflexivity.
  - injection H as <-. f_equal. destruct (N.compare_spec c0 c1); subst; rewrite ?N.eqb_refl; try reflexivity; apply N.eqb_neq; lia.
  - injection H as <-. f_equal. destruct (N.compare_spec b b0); subst; rewrite ?N.eqb_refl; try reflexivity; apply N.eqb_neq; lia.
  - injection H as <-. f_equal. apply items_equal_lex.
  - injection H as <-. f_equal. apply items_equal_lex.
Qed.

(* the natural order is defined exactly on same-kind operands that are not NaN *)
Lemma nat_order_defined l r : ordered_pair (type_of_val l) (type_of_val r) = true ->
  (forall a b, l = VNum a -> r = VNum b -> is_nan_num a = false /\ is_nan_num b = false) ->
  exists c, nat_order l r = Some c.
Proof.
  intros Ht Hn. destruct l, r; try discriminate Ht; simpl; eauto.
  destruct (Hn n n0 eq_refl eq_refl) as [Ha Hb].
  destruct (denote_some n Ha) as [x ->]. destruct (denote_some n0 Hb) as [y ->]. eauto.
Qed.

Lemma nat_order_swap l r c : nat_order l r = Some c -> nat_order r l = Some (CompOpp c).
Proof.
  intros H. destruct l, r; simpl in *; try discriminate H.
  - destruct (denote n) as [x|], (denote n0) as [y|]; try discriminate H.
    injection H as <-. rewrite xcompare_antisym. reflexivity.
  - injection H as <-. rewrite N.compare_antisym. reflexivity.
  - injection H as <-. rewrite N.compare_antisym. reflexivity.
  - injection H as <-. rewrite lex_compare_antisym. reflexivity.
  - injection H as <-. rewrite lex_compare_antisym. reflexivity.
Qed.

(* ---- the three relational facts ---- *)
Definition exactly_one (a b c : Prop) : Prop :=
  (a /\ ~ b /\ ~ c) \/ (~ a /\ b /\ ~ c) \/ (~ a /\ ~ b /\ c).

Theorem trichotomy l r c : operand_ok l -> operand_ok r -> nat_order l r = Some c ->
  exactly_one (compare_op CLt l r = Ok VTrue) (prim_equal l r = Some true) (compare_op CGt l r = Ok VTrue).
Proof.
  intros Wl Wr H.
  rewrite (compare_op_natural CLt l r c Wl Wr H), (compare_op_natural CGt l r c Wl Wr H),
    (prim_equal_natural l r c Wl Wr H).
  unfold exactly_one. destruct c; cbn.
  - right. left. repeat split; (discriminate || reflexivity).
  - left. repeat split; (discriminate || reflexivity).
  - right. right. repeat split; (discriminate || reflexivity).
Qed.

Theorem le_is_not_gt l r c : operand_ok l -> operand_ok r -> nat_order l r = Some c ->
  exists b, compare_op CGt l r = Ok (vbool b) /\ compare_op CLe l r = Ok (vbool (negb b)).
Proof.
  intros Wl Wr H. exists (rel_holds RGt c).
  rewrite (compare_op_natural CGt l r c Wl Wr H), (compare_op_natural CLe l r c Wl Wr H).
  destruct c; split; reflexivity.
Qed.

Theorem ge_is_not_lt l r c : operand_ok l -> operand_ok r -> nat_order l r = Some c ->
  exists b, compare_op CLt l r = Ok (vbool b) /\ compare_op CGe l r = Ok (vbool (negb b)).
Proof.
  intros Wl Wr H. exists (rel_holds RLt c).
  rewrite (compare_op_natural CLt l r c Wl Wr H), (compare_op_natural CGe l r c Wl Wr H).
  destruct c; split; reflexivity.
Qed.

Theorem lt_iff_gt_swapped l r c : operand_ok l -> operand_ok r -> nat_order l r = Some c ->
  compare_op CLt l r = compare_op CGt r l /\ compare_op CLe l r = compare_op CGe r l.
Proof.
  intros Wl Wr H. pose proof (nat_order_swap l r c H) as Hs.
  rewrite (compare_op_natural CLt l r c Wl Wr H), (compare_op_natural CLe l r c Wl Wr H),
    (compare_op_natural CGt r l _ Wr Wl Hs), (compare_op_natural CGe r l _ Wr Wl Hs).
  destruct c; split; reflexivity.
Qed.

(* ---- every other type pair: False; NaN: unit; never an error ---- *)
Theorem other_pairs_false o l r :
  ordered_pair (type_of_val l) (type_of_val r) = false ->
  slice_pair (type_of_val l) (type_of_val r) = false ->
  compare_op o l r = Ok VFalse.
Proof.
  intros H1 H2. unfold compare_op, perform_comparison.
  rewrite (arm_other _ _ H1 H2). cbn [bind]. rewrite false_ord_is_false. reflexivity.
Qed.

Theorem nan_gives_unit o a b : is_nan_num a = true \/ is_nan_num b = true ->
  compare_op o (VNum a) (VNum b) = Ok VUnit.
Proof.
  intros H. unfold compare_op, perform_comparison. cbn [type_of_val]. rewrite arm_number.
  cbn [get_number bind]. rewrite (num_cmp_nan a b H). reflexivity.
Qed.

Definition is_cmp_result (v : val) : Prop := v = VTrue \/ v = VFalse \/ v = VUnit.

Theorem never_fails o l r : operand_ok l -> operand_ok r ->
  slice_pair (type_of_val l) (type_of_val r) = false ->
  exists v, compare_op o l r = Ok v /\ is_cmp_result v.
Proof.
  intros Wl Wr Hs.
  destruct (ordered_pair (type_of_val l) (type_of_val r)) eqn:Ho.
  - assert (Hcases : (exists c, nat_order l r = Some c) \/
                     (exists a b, l = VNum a /\ r = VNum b /\ (is_nan_num a = true \/ is_nan_num b = true))).
    { destruct l, r; try discriminate Ho; simpl; eauto.
      destruct (is_nan_num n) eqn:Ea; [right; eauto 8|].
      destruct (is_nan_num n0) eqn:Eb; [right; eauto 8|].
      left. destruct (denote_some n Ea) as [x ->]. destruct (denote_some n0 Eb) as [y ->]. eauto. }
    destruct Hcases as [[c Hc]|(a & b & -> & -> & Hn)].
    + rewrite (compare_op_natural o l r c Wl Wr Hc). eexists; split; [reflexivity|].
      unfold is_cmp_result. destruct (rel_holds (rel_of o) c); cbn; auto.
    + rewrite (nan_gives_unit o a b Hn). eexists; split; [reflexivity|]. unfold is_cmp_result. auto.
  - rewrite (other_pairs_false o l r Ho Hs). eexists; split; [reflexivity|]. unfold is_cmp_result. auto.
Qed.

(* the instruction pops exactly the two operands and pushes the result; the
   registers below are untouched *)
Theorem exec_compare_stack o l r rest v : compare_op o l r = Ok v ->
  exec_compare o (r :: l :: rest) = Ok (v :: rest).
Proof. intros H. cbn [exec_compare]. rewrite H. reflexivity. Qed.
