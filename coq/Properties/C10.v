(* C10  One notion of truth; conditionals and logic evaluate only what they must.
   THIS FILE: the truth-table clauses -- exactly two values are false (unit and
   `$!`), the seven testing constructs `?>` `!>` `&&` `||` `^^` `!!` `??`
   classify every value of every type the same way, and the logical operators
   push only booleans.  The short-circuit / one-arm clauses quantify over
   programs and are stated in separate files (Properties/C10_*.v), which the
   check builds when present.
   Only statements, [exact] and [Print Assumptions] live here. *)
From Coq Require Import NArith List Bool.
From GV Require Import Gen.Instr Gen.Exec Gen.Truth Gen.Dispatch Model.OpDispatch Spec.Falsy
  Proofs.C08.Enum Proofs.C10.Classify Proofs.C10.Truth.
Import ListNotations.

(* the falsy sets extracted separately from is_true_value, jump_if_true and
   jump_if_false are each the pinned set {Unit, False} *)
Theorem C10_falsy_sets_finite : forall t,
  (In t is_true_value_falsy <-> In t falsy) /\ (In t jump_if_true_falsy <-> In t falsy)
  /\ (In t jump_if_false_falsy <-> In t falsy).
Proof. exact falsy_sets_are_spec. Qed.
Print Assumptions C10_falsy_sets_finite.

Theorem C10_exactly_two_false : forall t, is_falsy t = true <-> (t = T_Unit \/ t = T_False).
Proof. exact exactly_two_false. Qed.
Print Assumptions C10_exactly_two_false.

(* every testing construct, run on a value of any type (with any inner type,
   any host mode), treats it as true iff its type is not Unit / False;
   `^^` on either side *)
Theorem C10_every_construct_same_truth_finite : forall i v h,
  In i testing_constructs -> wf_operand v = true ->
  classify i v h = Some (truth (o_ty v)) /\ classify_xor_right v h = Some (truth (o_ty v)).
Proof. exact every_construct_same_truth. Qed.
Print Assumptions C10_every_construct_same_truth_finite.

Theorem C10_xor_table_finite : forall l r h, wf_operand l = true -> wf_operand r = true ->
  step I_Xor l (Some r) h = ok false 2 (TopBool (xorb (truth (o_ty l)) (truth (o_ty r)))).
Proof. exact xor_is_xor_of_truth. Qed.
Print Assumptions C10_xor_table_finite.

(* `&&` `||` `^^` `!!` `??`: Ok, no host call; what they push is True or False
   (`&&` / `||` push nothing when they go on to their right operand, whose
   out-of-line code ends in `??`) *)
Theorem C10_logic_pushes_boolean_finite : forall i l r h,
  wf_operand l = true -> wf_right r = true -> logic_shape i r = true ->
  let o := step i l r h in
  res o = ROk /\ calls o = [] /\
  ((exists b, top_is o = TopBool b /\ pushes o = 1 /\ jumps o = false)
   \/ (In i [I_And; I_Or] /\ top_is o = TopNone /\ pushes o = 0 /\ jumps o = true)).
Proof. exact logic_pushes_boolean. Qed.
Print Assumptions C10_logic_pushes_boolean_finite.

Example C10_ex_truth :
  classify I_JumpIfTrue (plain T_Number) HAbsent = Some true
  /\ classify I_JumpIfTrue (plain T_Unit) HAbsent = Some false
  /\ classify I_JumpIfFalse (plain T_False) HAbsent = Some false
  /\ classify I_And (plain T_List) HAbsent = Some true
  /\ classify I_Or (plain T_False) HAbsent = Some false
  /\ classify I_Xor (plain T_CharList) HAbsent = Some true
  /\ classify I_Not (plain T_Symbol) HAbsent = Some true
  /\ classify I_Tis (plain T_Unit) HAbsent = Some false.
Proof. exact truth_examples. Qed.
