(* C18, result half for parentheses, end to end for brackets around a whole operator
   expression: the parser's trees of `toks` and `( toks )` (images of the index-carrying
   trees of C02) are related by [grel] -- one Group node on top, node indices renamed, every
   node made from the same source token -- so the builder model emits the same instruction
   stream (every data operand made from the same source token), the same jump table and
   reports the same entry. *)
From Coq Require Import List Arith Bool NArith Lia.
From GV Require Import Base.Result Gen.TokenTypes Gen.Defs Gen.Instr Model.Parser Model.BuilderWL Model.Compile
  Spec.RefTable Spec.Pratt Spec.Chains Spec.Layout
  Proofs.C02.Spine Proofs.C02.Denote Proofs.C02.Chains Proofs.C02.OpExpr Proofs.C02.Full
  Proofs.C05.Known Proofs.C05.InlBase Proofs.Builder.PrattBridge Proofs.Builder.Transport
  Proofs.C18.ViaPratt Proofs.C18.GroupSim.
Import ListNotations.

(* the source token a parse node was made from: its index in the token list as given
   ([n_tok] counts from the first token that trim_tokens keeps) *)
Definition tokl (ns : list pnode) (ix : nat) : nat :=
  match nth_error ns ix with
  | Some n => match n_tok n with Some k => k | None => 0 end
  | None => 0
  end.
Definition src_tok (toks : list token_type) (ns : list pnode) (ix : nat) : nat :=
  tokl ns ix + fst (trim_tokens toks).

Lemma tokl_at ns i n k : nth_error ns i = Some n -> n_tok n = Some k -> tokl ns i = k.
Proof. intros H1 H2. unfold tokl. rewrite H1, H2. reflexivity. Qed.

Lemma shift_shift a b : forall t, shift_rtree a (shift_rtree b t) = shift_rtree (b + a) t.
Proof.
  induction t as [d k|d k x IH|d k x IH|d k l IHl r IHr|bk k x IH]; cbn [shift_rtree]; rewrite ?IH, ?IHl, ?IHr, ?Nat.add_assoc; try reflexivity.
  destruct k; cbn [option_map]; rewrite ?Nat.add_assoc; reflexivity.
Qed.

Lemma ren_ext g h l : (forall i, g i = h i) -> map (ren g) l = map (ren h) l.
Proof.
  intros E. induction l as [|[i [|n|n|n]] l IH]; cbn [map]; rewrite ?IH; try reflexivity.
  unfold ren. cbn. rewrite E. reflexivity.
Qed.

Section Rel.
Variables ns' ns : list pnode.
Variables lit' lit : nat -> bool.
Variables a b : nat.
Hypothesis Hlit : forall i' i, tokl ns' i' + a = tokl ns i + b -> lit' i' = lit i.

Lemma erase_grel : forall A B p' p ctx lo cond,
  denotes ns' p' A -> denotes ns p B -> wfd ctx A -> wfd ctx B ->
  shift_rtree a (erase A) = shift_rtree b (erase B) ->
  grel lit' lit (fun i => tokl ns' i + a) (fun i => tokl ns i + b) lo cond (img A) (img B).
Proof.
  induction A as [i d k|i d k x IH|i d k x IH|i d k l IHl r IHr|bk i k x IH];
    intros [i0 d0 k0|i0 d0 k0 x0|i0 d0 k0 x0|i0 d0 k0 l0 r0|bk0 i0 k0 x0] p' p ctx lo cond DA DB WA WB H;
    cbn [erase shift_rtree] in H; try discriminate H; cbn [img]; cbn [wfd] in WA, WB; cbn [denotes] in DA, DB;
    destruct DA as (n' & Hn' & DA); destruct DB as (n & Hn & DB).
  - injection H as H Hk. destruct DA as (_ & _ & _ & _ & _ & _ & Ht'). destruct DB as (_ & _ & _ & _ & _ & _ & Ht).
    assert (E : tokl ns' i + a = tokl ns i0 + b) by (rewrite (tokl_at _ _ _ _ Hn' Ht'), (tokl_at _ _ _ _ Hn Ht); exact Hk).
    rewrite WA, WB, H. apply grel_node_intro; try exact I; intros _; [exact E|apply Hlit; exact E].
  - injection H as -> Hk H. destruct DA as (_ & _ & _ & _ & _ & Ht' & DA). destruct DB as (_ & _ & _ & _ & _ & Ht & DB).
    assert (E : tokl ns' i + a = tokl ns i0 + b) by (rewrite (tokl_at _ _ _ _ Hn' Ht'), (tokl_at _ _ _ _ Hn Ht); exact Hk).
    apply grel_node_intro; try exact I; try (intros _; [exact E|apply Hlit; exact E]); try (intros _; exact E); try (intros _; apply Hlit; exact E).
    cbn [orel]. eapply IH; eassumption.
  - injection H as -> Hk H. destruct DA as (_ & _ & _ & _ & _ & Ht' & DA). destruct DB as (_ & _ & _ & _ & _ & Ht & DB).
    assert (E : tokl ns' i + a = tokl ns i0 + b) by (rewrite (tokl_at _ _ _ _ Hn' Ht'), (tokl_at _ _ _ _ Hn Ht); exact Hk).
    apply grel_node_intro; try exact I; try (intros _; exact E); try (intros _; apply Hlit; exact E).
    cbn [orel]. eapply IH; eassumption.
  - injection H as -> Hk Hl Hr. destruct WA as [WA1 WA2], WB as [WB1 WB2].
    destruct DA as (SA & _ & _ & _ & DAl & DAr). destruct DB as (SB & _ & _ & _ & DBl & DBr).
    assert (E : uses_data d0 = true -> tokl ns' i + a = tokl ns i0 + b).
    { intros Hu. destruct SA as (_ & [(_ & tk' & -> & Ht')|[(_ & -> & _)|(_ & tk' & -> & Ht')]]); try (vm_compute in Hu; discriminate Hu);
        destruct SB as (_ & [(_ & tk & -> & Ht)|[(_ & _ & ->)|(_ & tk & -> & Ht)]]); cbn [option_map] in Hk; try discriminate Hk;
        injection Hk as Hk; rewrite (tokl_at _ _ _ _ Hn' Ht'), (tokl_at _ _ _ _ Hn Ht); exact Hk. }
    apply grel_node_intro; [exact E|intros Hu; apply Hlit, E, Hu| |]; cbn [orel]; [eapply IHl|eapply IHr]; eassumption.
  - injection H as -> Hk H. destruct DA as (_ & _ & _ & _ & _ & Ht' & DA). destruct DB as (_ & _ & _ & _ & _ & Ht & DB).
    assert (E : tokl ns' i + a = tokl ns i0 + b) by (rewrite (tokl_at _ _ _ _ Hn' Ht'), (tokl_at _ _ _ _ Hn Ht); exact Hk).
    apply grel_node_intro; try exact I; try (intros _; exact E); try (intros _; apply Hlit; exact E).
    cbn [orel]. eapply IH; eassumption.
Qed.
End Rel.

Lemma pratt_parse_wfd toks T : pratt toks = Some T ->
  exists Tn ns, parse toks = Ok (nid Tn, ns) /\ Compile.tree_of ns (nid Tn) = Some (img Tn) /\
                wfd false Tn /\ denotes ns None Tn /\ T = shift_rtree (fst (trim_tokens toks)) (erase Tn).
Proof.
  intros H. destruct (pratt_parse toks T H) as (Tn & ns & its & Hits & _ & Hins & Hp & DT & OT & _ & _ & E).
  exists Tn, ns. split; [exact Hp|]. split; [eapply denotes_tree_of; eauto|]. split; [|split; assumption].
  eapply spine_insert_wfd; [|exact Hins]. eapply items_of_sane; exact Hits.
Qed.

(* [sigma k]: where the k-th token of [toks] stands in [toks'].  Both token lists are
   accepted, and whenever the builder model succeeds on both -- into the same data object,
   with any fuel, with literal oracles that agree on nodes made from corresponding tokens --
   it has emitted the same instructions (operation; jump, length and expression operands;
   every data operand made from the corresponding source token, hence from the same text),
   the same jump table, and reports the same entry: every machine run on the two is the same *)
Definition same_code_of_builds (sigma : nat -> nat) (toks toks' : list token_type) : Prop :=
  exists root nodes root' nodes',
    parse toks = Ok (root, nodes) /\
    parse toks' = Ok (root', nodes') /\
    forall init lit lit' fuel fuel' r r',
      (forall i' i, src_tok toks' nodes' i' = sigma (src_tok toks nodes i) -> lit' i' = lit i) ->
      build nodes init lit fuel root = Ok r ->
      build nodes' init lit' fuel' root' = Ok r' ->
      map (ren (src_tok toks' nodes')) (instrs (fst r')) = map (ren (fun i => sigma (src_tok toks nodes i))) (instrs (fst r)) /\
      jumps (fst r') = jumps (fst r) /\ snd r' = snd r.

Theorem parens_whole_same_code (toks : list token_type) (T : rtree) :
  no_separators toks = true -> pratt toks = Some T ->
  same_code_of_builds S toks (TT_StartGroup :: toks ++ [TT_EndGroup]).
Proof.
  unfold same_code_of_builds.
  intros Hns Hpr. pose proof (pratt_wrapped toks T Hns Hpr) as Hpr'.
  destruct (pratt_parse_wfd _ _ Hpr) as (Tn & ns & Hp & Ht & Hw & HD & Hu).
  destruct (pratt_parse_wfd _ _ Hpr') as (Tn' & ns' & Hp' & Ht' & Hw' & HD' & Hu').
  exists (nid Tn), ns, (nid Tn'), ns'. split; [exact Hp|]. split; [exact Hp'|].
  intros init lit lit' fuel fuel' r r' Hlit Hb Hb'.
  set (off := fst (trim_tokens toks)) in *. set (off' := fst (trim_tokens (TT_StartGroup :: toks ++ [TT_EndGroup]))) in *.
  rewrite Hu in Hu'. rewrite shift_shift in Hu'.
  destruct Tn' as [i d k|i d k x|i d k x|i d k l0 r0|bk i k A]; cbn [erase shift_rtree] in Hu'; try discriminate Hu'.
  injection Hu' as <- _ HuA. cbn [wfd] in Hw'. cbn [denotes] in HD'. destruct HD' as (n' & _ & _ & _ & _ & _ & _ & _ & DA).
  assert (Hg : grel lit' lit (fun i => tokl ns' i + off') (fun i => tokl ns i + (off + 1)) None false (img (NGroup BRound i k A)) (img Tn)).
  { cbn [img bdef]. apply grel_group_intro; [reflexivity|]. eapply erase_grel; try eassumption; [|symmetry; exact HuA].
    intros j' j E. apply Hlit. unfold src_tok. fold off off'. lia. }
  pose proof (compile_agrees_full_proof _ _ _ _ _ _ _ Ht Hb) as Hc.
  pose proof (compile_agrees_full_proof _ _ _ _ _ _ _ Ht' Hb') as Hc'.
  destruct (compile_sim init lit' lit _ _ _ _ _ _ Hg Hc) as (c' & Hc2 & Hv1 & Hv2).
  rewrite Hc' in Hc2. injection Hc2 as <- Hs. cbn [ci cj] in Hv1, Hv2.
  split; [|split; [exact Hv2|exact Hs]].
  unfold src_tok. fold off off'. rewrite Hv1. apply ren_ext. intros j. lia.
Qed.
