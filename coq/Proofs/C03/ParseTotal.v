(* parse never panics and never runs out of fuel: the parent walks are bounded by
   the count guards of the Rust (count > nodes.len()). *)
From Coq Require Import List Arith Bool NArith Lia.
From GV Require Import Base.Result Gen.TokenTypes Gen.Defs Model.Parser.
Import ListNotations.

Definition total {A} (r : res A) : Prop :=
  match r with Panic _ => False | OutOfFuel => False | _ => True end.

Lemma total_bind {A B} (r : res A) (f : A -> res B) :
  total r -> (forall a, total (f a)) -> total (bind r f).
Proof. destruct r; simpl; auto. Qed.

Lemma prio_total d : total (prio_of d).
Proof. unfold prio_of. destruct (priority d); exact I. Qed.

Lemma walk_total fuel nodes id my se rtl ug cl tl count :
  count <= length nodes -> length nodes + 1 <= fuel + count ->
  total (walk fuel nodes id my se rtl ug cl tl count).
Proof.
  revert cl tl count. induction fuel as [|fuel IH]; intros cl tl count Hc Hf; [lia|].
  simpl. destruct cl as [li|]; [|exact I].
  destruct (nth_error nodes li) as [n|]; [|exact I].
  apply total_bind; [apply prio_total|]. intros their.
  destruct (_ || _); [exact I|].
  destruct (opt_nat_eqb _ _); [exact I|].
  destruct (Nat.ltb_spec (length nodes) (S count)); [exact I|].
  apply IH; lia.
Qed.

Ltac tot :=
  repeat first
    [ exact I
    | apply prio_total
    | apply total_bind; [|intros]
    | match goal with
      | |- total (match ?x with _ => _ end) => destruct x
      | |- total (if ?x then _ else _) => destruct x
      | |- total (let '(_, _) := ?x in _) => destruct x
      end ].

Lemma parse_token_total id d left nodes ug rtl : total (parse_token id d left nodes ug rtl).
Proof.
  unfold parse_token.
  apply total_bind; [apply prio_total|]. intros my.
  apply total_bind; [apply walk_total; lia|]. intros [parent tl].
  tot.
Qed.

Lemma make_list_node_total cid oid st ug : total (make_list_node cid oid st ug).
Proof. unfold make_list_node. apply total_bind; [apply parse_token_total|]. intros [[ns p] tl]. exact I. Qed.

Lemma block_has_operand_total fuel nodes : forall n count,
  count <= length nodes -> length nodes + 1 <= fuel + count ->
  total (block_has_operand fuel nodes n count).
Proof.
  induction fuel as [|fuel IH]; intros n count Hc Hf; [lia|].
  simpl. destruct (n_left n) as [l|]; [|exact I].
  destruct (nth_error nodes l) as [ln|]; [|exact I].
  destruct (negb _); [exact I|].
  destruct (Nat.ltb_spec (length nodes) (S count)); [exact I|].
  apply IH; lia.
Qed.

Lemma space_list_check_total st ug : total (space_list_check st ug).
Proof.
  unfold space_list_check.
  destruct (last_left st); [|exact I]. destruct (nth_error (nodes st) n) as [ln|]; [|exact I].
  apply total_bind; [|intros b; exact I].
  destruct (_ && _); [|exact I]. apply block_has_operand_total; lia.
Qed.

Lemma step_total ntoks i tok st : total (step ntoks i tok st).
Proof.
  unfold step.
  apply total_bind; [tot|]. intros ug.
  apply total_bind; [tot|]. intros [[ll psec] psig].
  destruct (get_definition tok) as [definition sec].
  match goal with |- total (if ?c then _ else _) => destruct c; [exact I|] end.
  match goal with |- total (if ?c then _ else _) => destruct c; [exact I|] end.
  match goal with |- total (match ?x with _ => _ end) => destruct x as [[new_sig new_sep] new_se] end.
  apply total_bind.
  - destruct sec; cbn [impl_err];
      repeat first
        [ exact I
        | apply parse_token_total
        | apply make_list_node_total
        | apply space_list_check_total
        | apply total_bind; [|intros]
        | match goal with
          | |- total (match ?x with _ => _ end) => destruct x
          | |- total (if ?x then _ else _) => destruct x
          | |- total (let '(_, _) := ?x in _) => destruct x
          end ].
  - intros [st1 [[[d p] l] r]]. exact I.
Qed.

Lemma run_steps_total ntoks toks : forall i st, total (run_steps ntoks i toks st).
Proof.
  induction toks as [|t rest IH]; intros i st; simpl; [exact I|].
  apply total_bind; [apply step_total|]. intros st'. apply IH.
Qed.

Lemma find_root_total fuel ns root n count :
  count <= length ns -> length ns + 1 <= fuel + count -> total (find_root fuel ns root n count).
Proof.
  revert root n count. induction fuel as [|fuel IH]; intros root n count Hc Hf; [lia|].
  simpl. destruct (n_parent n) as [i|]; [|exact I].
  destruct (nth_error ns i) as [p|]; [|exact I].
  destruct (Nat.ltb_spec (length ns) (S count)); [exact I|].
  apply IH; lia.
Qed.

(* validate_tree: every iteration pops one index and every push marks a node that was
   not marked before, so (unmarked nodes + stack length) drops by one per iteration *)
Fixpoint count_false (l : list bool) : nat :=
  match l with [] => 0 | b :: r => (if b then 0 else 1) + count_false r end.

Lemma count_false_upd l k :
  nth_error l k = Some false -> forall l', upd l k (fun _ => true) = Some l' ->
  S (count_false l') = count_false l.
Proof.
  revert k. induction l as [|b r IH]; intros k Hk l' Hu; destruct k as [|k]; simpl in *; try discriminate.
  - injection Hk as ->. injection Hu as <-. simpl. reflexivity.
  - destruct (upd r k (fun _ => true)) as [r'|] eqn:E; [|discriminate]. injection Hu as <-.
    simpl. rewrite <- (IH k Hk r' E). destruct b; simpl; lia.
Qed.

Lemma count_false_le l : count_false l <= length l.
Proof. induction l as [|b r IH]; simpl; [lia|]. destruct b; simpl; lia. Qed.

Lemma visit_child_measure ns visited stack i c v' st' :
  visit_child ns visited stack i c = Ok (v', st') ->
  count_false v' + length st' = count_false visited + length stack.
Proof.
  unfold visit_child. destruct c as [k|]; [|intros [= <- <-]; reflexivity].
  destruct (nth_error ns k) as [cn|]; [|discriminate].
  destruct (nth_error visited k) as [[|]|] eqn:Ev; try discriminate.
  destruct (opt_nat_eqb _ _); [|discriminate].
  destruct (upd visited k (fun _ => true)) as [v2|] eqn:Eu; [|discriminate].
  intros [= <- <-]. simpl. pose proof (count_false_upd visited k Ev v2 Eu). lia.
Qed.

Lemma visit_child_total ns visited stack i c : total (visit_child ns visited stack i c).
Proof. unfold visit_child. tot. Qed.

Lemma validate_go_total fuel ns : forall visited stack,
  count_false visited + length stack < fuel -> total (validate_go fuel ns visited stack).
Proof.
  induction fuel as [|fuel IH]; intros visited stack H; [lia|].
  simpl. destruct stack as [|i rest]; [exact I|].
  destruct (match nth_error ns i with Some n => (n_left n, n_right n) | None => (None, None) end) as [l r].
  destruct (visit_child ns visited rest i l) as [[v1 st1]| | |] eqn:E1; simpl; try exact I.
  - destruct (visit_child ns v1 st1 i r) as [[v2 st2]| | |] eqn:E2; simpl; try exact I.
    + apply IH. apply visit_child_measure in E1. apply visit_child_measure in E2. simpl in H. lia.
    + pose proof (visit_child_total ns v1 st1 i r) as T. rewrite E2 in T. exact T.
    + pose proof (visit_child_total ns v1 st1 i r) as T. rewrite E2 in T. exact T.
  - pose proof (visit_child_total ns visited rest i l) as T. rewrite E1 in T. exact T.
  - pose proof (visit_child_total ns visited rest i l) as T. rewrite E1 in T. exact T.
Qed.

Lemma upd_length {A} (l : list A) k f l' : upd l k f = Some l' -> length l' = length l.
Proof.
  revert k l'. induction l as [|a r IH]; intros k l' H; destruct k; simpl in *; try discriminate.
  - injection H as <-. reflexivity.
  - destruct (upd r k f) eqn:E; [|discriminate]. injection H as <-. simpl. f_equal. eapply IH; eauto.
Qed.

Lemma validate_tree_total ns root : total (validate_tree ns root).
Proof.
  unfold validate_tree. destruct (upd (map (fun _ => false) ns) root (fun _ => true)) as [v0|] eqn:E; [|exact I].
  apply total_bind; [|intros v; destruct (unvisited_ok ns v); exact I].
  apply validate_go_total. simpl.
  pose proof (count_false_le v0). apply upd_length in E. rewrite map_length in E. lia.
Qed.

Theorem parse_total toks : total (parse toks).
Proof.
  unfold parse, parse_trimmed.
  destruct (snd (trim_tokens toks)) as [|t rest]; [exact I|].
  apply total_bind; [apply run_steps_total|]. intros st.
  destruct (forbidden _ _ _); [exact I|].
  destruct (_ && _); [exact I|].
  destruct (group_stack st); [|exact I].
  match goal with |- total (match ?l with _ => _ end) => destruct l as [|n0 ns] eqn:E end; [exact I|].
  apply total_bind; [apply find_root_total; simpl; rewrite ?map_length; lia|].
  intros root. apply total_bind; [apply validate_tree_total|intros; exact I].
Qed.
