(* The exclusion class C05-K2 (a conditional / else-chain linked DIRECTLY as the
   left operand of && / ||) is empty on the operator fragment: for every token
   list on which the reference precedence-climbing parser of C02 (Spec/Pratt.v,
   over the pinned table Spec/RefTable.v) is defined,
     1. the reference tree has no And / Or node whose direct left child is a
        conditional or an else-chain with a conditional arm (r_drops_arms);
        more generally every binary node's left child, when it is itself a
        binary node, has a rank <= the node's rank (leftok, the climbing
        invariant of Proofs/C06/OperatorBalanced.v: an operator taken later
        binds no tighter than the root of what it extends), and ?> !> (700),
        |> (800) are looser than && (410), || (430); brackets put an RGroup
        node in between;
     2. the tree the parser model links for that token list is not in C05-K2
        (through Proofs/Builder/PrattBridge.v: the parser's tree is the image
        of the reference tree);
     3. hence the theorems that carry [~ Known_C05_K2 t] hold there without
        the exclusion: well-formedness of the built code (C05; the attribution
        clause of C04 is in OperatorAttribution.v). *)
From Coq Require Import List Arith Bool NArith Lia.
From GV Require Import Base.Result Gen.TokenTypes Gen.Defs Gen.Instr Model.Parser Model.BuilderWL Model.Compile
  Spec.RefTable Spec.Pratt Spec.WfCode
  Proofs.C05.Known Proofs.C06.OperatorBalanced Proofs.Builder.Transport.
Import ListNotations.

(* ---- the class, read on reference trees ---- *)
(* [t] registers an arm with its parent: a conditional, or an else-chain one of
   whose sides does (the reference-tree reading of Known.registers) *)
Fixpoint r_registers (t : rtree) : bool :=
  match t with
  | RBin d _ l r =>
    match kind_of d with
    | KJumpIf _ => true
    | KElse => r_registers l || r_registers r
    | _ => false
    end
  | _ => false
  end.

(* some && / || node has such a tree as its DIRECT left child (a bracketed
   conditional is an RGroup node and does not count) *)
Fixpoint r_drops_arms (t : rtree) : bool :=
  match t with
  | RAtom _ _ => false
  | RPre _ _ a | RSuf _ _ a | RGroup _ _ a => r_drops_arms a
  | RBin d _ l r =>
    (match kind_of d with KLogical _ => r_registers l | _ => false end)
    || r_drops_arms l || r_drops_arms r
  end.

Lemma r_registers_rank : forall t, r_registers t = true ->
  exists p, rootrank t = Some p /\ (p = 700%N \/ p = 800%N).
Proof.
  intros t H. destruct t as [d k|d k a|d k a|d k l r|b k a]; cbn [r_registers] in H; try discriminate H.
  cbn [rootrank]. destruct d; cbn in H; try discriminate H; eexists; split; try reflexivity; auto.
Qed.

Lemma leftok_r_drops : forall t, leftok t = true -> r_drops_arms t = false.
Proof.
  induction t as [d k|d k a IH|d k a IH|d k l IHl r IHr|b k a IH]; intros Hl; cbn [leftok r_drops_arms] in *; auto.
  apply andb_true_iff in Hl. destruct Hl as [Hl Hlr]. apply andb_true_iff in Hl. destruct Hl as [Hroot Hll].
  rewrite (IHl Hll), (IHr Hlr), !orb_false_r.
  destruct (kind_of d) eqn:Hk; try reflexivity.
  destruct (r_registers l) eqn:Hreg; [|reflexivity]. exfalso.
  destruct (r_registers_rank l Hreg) as [p [Hp Hv]]. rewrite Hp in Hroot.
  destruct (logical_rank d i Hk) as [E|E]; rewrite E in Hroot; apply N.leb_le in Hroot;
    destruct Hv; subst p; lia.
Qed.

(* ---- 1. on reference trees ---- *)
(* the climbing invariant itself: in the reference tree of any token list, the
   root of the left operand of a binary node binds at least as tightly as the node *)
Lemma pratt_left_rank_monotone : forall toks rt, pratt toks = Some rt -> leftok rt = true.
Proof. exact pratt_leftok. Qed.

Lemma pratt_no_K2_reference : forall toks rt, pratt toks = Some rt -> r_drops_arms rt = false.
Proof. intros toks rt H. exact (leftok_r_drops rt (pratt_leftok toks rt H)). Qed.

(* ---- 2. on the parser's tree ---- *)
Lemma pratt_parse_no_K2 : forall toks rt root ns t,
  pratt toks = Some rt -> parse toks = Ok (root, ns) -> Compile.tree_of ns root = Some t ->
  ~ Known_C05_K2 t.
Proof.
  intros toks rt root ns t H Hp Ht.
  destruct (operator_expression_balanced toks rt H) as (root' & ns' & t' & Hp' & Ht' & Hd & _).
  rewrite Hp in Hp'. injection Hp' as <- <-. rewrite Ht in Ht'. injection Ht' as <-.
  unfold Known_C05_K2. rewrite Hd. discriminate.
Qed.

Lemma tree_of_nonempty : forall ns root t, Compile.tree_of ns root = Some t -> ns <> [].
Proof. intros ns root t H E. subst ns. unfold Compile.tree_of in H. cbn in H. discriminate H. Qed.

Lemma pratt_parse_tree : forall toks rt, pratt toks = Some rt ->
  exists root ns t, parse toks = Ok (root, ns) /\ ns <> [] /\ Compile.tree_of ns root = Some t /\ ~ Known_C05_K2 t.
Proof.
  intros toks rt H.
  destruct (operator_expression_balanced toks rt H) as (root & ns & t & Hp & Ht & Hd & _).
  exists root, ns, t. split; [exact Hp|]. split; [exact (tree_of_nonempty _ _ _ Ht)|]. split; [exact Ht|].
  unfold Known_C05_K2. rewrite Hd. discriminate.
Qed.

(* ---- 3. the theorems without the exclusion, on the operator fragment ---- *)
Lemma C05_full_operator_expressions_proof : forall toks rt, pratt toks = Some rt ->
  exists root ns t,
    parse toks = Ok (root, ns) /\ ns <> [] /\ Compile.tree_of ns root = Some t /\ ~ Known_C05_K2 t /\
    forall init lit fuel r, build ns init lit fuel root = Ok r -> wf_code ns init (code_of_build r).
Proof.
  intros toks rt H. destruct (pratt_parse_tree toks rt H) as (root & ns & t & Hp & Hne & Ht & Hk).
  exists root, ns, t. repeat (split; [assumption|]).
  destruct (C05_full_parsed_proof toks root ns Hp Hne) as [t' [Ht' Hw]].
  rewrite Ht in Ht'. injection Ht' as <-.
  intros init lit fuel r Hb. exact (Hw init lit fuel r Hk Hb).
Qed.

(* ---- what remains outside the fragment, as a statement ---- *)
(* the parser invariant for EVERY accepted token list (side-effect brackets,
   annotations, blank-line separators, empty brackets included); proved above
   for the token lists on which the reference parser is defined
   (pratt_parse_no_K2), checked exhaustively for short token lists in
   Proofs/C05/Bounded.v and Proofs/C04/Bounded.v *)
Definition parser_links_no_K2_statement : Prop :=
  forall toks root ns t, parse toks = Ok (root, ns) -> Compile.tree_of ns root = Some t -> ~ Known_C05_K2 t.

(* it is exactly what separates C05_full_parsed from the statement without exclusion *)
Lemma no_K2_gives_wf_all_parsed : parser_links_no_K2_statement ->
  forall toks root ns init lit fuel r, parse toks = Ok (root, ns) -> ns <> [] ->
    build ns init lit fuel root = Ok r -> wf_code ns init (code_of_build r).
Proof.
  intros HK toks root ns init lit fuel r Hp Hne Hb.
  destruct (C05_full_parsed_proof toks root ns Hp Hne) as [t [Ht Hw]].
  exact (Hw init lit fuel r (HK toks root ns t Hp Ht) Hb).
Qed.
