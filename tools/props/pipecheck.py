"""Shared runner for the properties decided on the lex/parse/build pipeline
(C03, C04; reused by C02 and C18): corpora, implementation vs model
correspondence, native evaluation of the property statements."""
import collections, itertools, os, re, time
import vplib
from props import pipefmt, gen_programs

REP = None


def rep_alphabet(names):
    txt = open(os.path.join(vplib.COQ, "Proofs", "C03", "Bounded4.v")).read()
    body = txt.split("rep_alphabet : list token_type :=")[1].split("].")[0]
    return [names[0].index(r) for r in re.findall(r"TT_(\w+)", body)]


def corpus(tier, seed, names, salt="pipe"):
    """returns list of (stream_name, [case lines])"""
    tts = names[0]
    n = len(tts)
    rng = vplib.rng_for(seed, salt)
    streams = []
    streams.append(("seq_upto3", ["T " + " ".join(map(str, t)) for L in (1, 2, 3)
                                  for t in itertools.product(range(n), repeat=L)]))
    rep = rep_alphabet(names)
    if tier == "thorough":
        streams.append(("rep4", ["T " + " ".join(map(str, t)) for t in itertools.product(rep, repeat=4)]))
    else:
        streams.append(("rep4_sample", ["T " + " ".join(str(rng.choice(rep)) for _ in range(4)) for _ in range(60000)]))
    # brackets and blocks: every sequence of length <= 5 (6 in the thorough tier) over the three bracket pairs,
    # a value and the comma - the shapes in which empty or operand-less groups and blocks occur
    br = [tts.index(x) for x in ("StartSideEffect", "EndSideEffect", "StartGroup", "EndGroup", "StartExpression", "EndExpression",
                                 "Number", "Comma")]
    streams.append(("brackets", ["T " + " ".join(map(str, t)) for L in ((4, 5, 6) if tier == "thorough" else (4, 5))
                                 for t in itertools.product(br, repeat=L)]))
    # nested expressions and separators: every sequence of length <= 7 (8 thorough) over `{`, `}`, a value and the
    # blank-line separator - which separators are kept, dropped or spliced out next to closed inner expressions
    bs = [tts.index(x) for x in ("StartExpression", "EndExpression", "Number", "Subexpression")]
    streams.append(("braces_separators", ["T " + " ".join(map(str, t)) for L in (range(4, 9) if tier == "thorough" else range(4, 8))
                                          for t in itertools.product(bs, repeat=L)]))
    # items separated by blank-line separators, where an item is a value, a group, a nested expression or a
    # side-effect block followed by one of those (the shapes whose nodes the parser may leave unlinked)
    ix = lambda *names_: [tts.index(x) for x in names_]
    SO, SC, GO, GC, EO, EC, NUM, SUB, NEG = ix("StartSideEffect", "EndSideEffect", "StartGroup", "EndGroup", "StartExpression",
                                              "EndExpression", "Number", "Subexpression", "Opposite")
    items = [[NUM], [GO, NUM, GC], [EO, NUM, EC], [EO, EC], [SO, NUM, SC], [SO, NUM, SC, NUM], [SO, NUM, SC, GO, NUM, GC],
             [SO, NUM, SC, EO, NUM, EC], [SO, NUM, SC, EO, EC], [SO, NUM, SC, NEG, NUM], [NUM, SO, NUM, SC], [NUM, SO, NUM, SC, GO, NUM, GC],
             [SO, SC], [NEG, NUM]]
    sep_items = []
    for n_ in (1, 2, 3):
        for combo in itertools.product(items, repeat=n_):
            seq = []
            for j, it in enumerate(combo):
                seq += ([SUB] if j else []) + it
            sep_items.append("T " + " ".join(map(str, seq)))
    streams.append(("separated_items", sep_items))
    k = 300000 if tier == "thorough" else 40000
    streams.append(("rep_soup_5_9", ["T " + " ".join(str(rng.choice(rep)) for _ in range(rng.randint(5, 9))) for _ in range(k)]))
    progs = [gen_programs.program(rng, 4) for _ in range(100000 if tier == "thorough" else 15000)]
    streams.append(("programs", ["S " + gen_programs.hexcp(p) for p in progs]))
    streams.append(("mutated_programs", ["S " + gen_programs.hexcp(gen_programs.mutate_program(rng, p)) for p in progs[: len(progs) // 2]]))
    fic = gen_programs.forms_in_contexts(rng, None if tier == "thorough" else 25000)
    streams.append(("forms_in_contexts", ["S " + gen_programs.hexcp(p) for p in fic]))
    streams.append(("char_soup", ["S " + gen_programs.hexcp(gen_programs.char_soup(rng)) for _ in range(100000 if tier == "thorough" else 15000)]))
    streams.append(("literal_soup", ["S " + gen_programs.hexcp(gen_programs.literal_soup(rng)) for _ in range(60000 if tier == "thorough" else 12000)]))
    return streams


def build_runners(v, need_model=True):
    ok, out = vplib.cargo_build("debug", bins=["pipeline"])
    if not ok:
        v.tie_failure("harness build failed: " + out[-600:])
        return None, None
    exe = vplib.private_copy(vplib.harness_bin("pipeline"))
    drv = None
    if need_model:
        okm, outm = vplib.ocaml_build("pipe")
        if not okm:
            v.tie_failure("model driver build failed: " + outm[-400:])
        else:
            drv = vplib.private_copy(os.path.join(vplib.OCAML_BUILD, "pipe_driver"))
    return exe, drv


def run(exe, drv, cases, timeout=3000):
    text = "\n".join(cases) + "\n"
    rc, impl = vplib.run_lines([exe], text, timeout=timeout)
    if rc != 0 or len(impl) != len(cases):
        return None, None, "pipeline harness rc=%s lines=%d/%d" % (rc, len(impl), len(cases))
    model = None
    if drv:
        rc, model = vplib.run_lines([drv], "\n".join(impl) + "\n", timeout=timeout)
        if rc != 0 or len(model) != len(cases):
            return impl, None, "pipe_driver rc=%s lines=%d/%d" % (rc, len(model), len(cases))
    return impl, model, None


def run_stress(exe, cases, stack_kb=256, deadline_ms=30000, timeout=1200):
    """implementation only, in a worker whose native stack is limited to [stack_kb] KiB and with a long
    per-case deadline: for inputs far deeper / longer than any model run can follow"""
    text = "\n".join(cases) + "\n"
    rc, out = vplib.sh("ulimit -s %d; exec %s" % (stack_kb, exe), input=text, timeout=timeout,
                       env={"VERIF_DEADLINE_MS": str(deadline_ms)})
    impl = out.splitlines()
    if rc != 0 or len(impl) != len(cases):
        return None, "pipeline harness (stress) rc=%s lines=%d/%d" % (rc, len(impl), len(cases))
    return impl, None


def same_modulo_literals(impl_res, model_res):
    a = impl_res.split(" BB=")[0]
    if a == model_res:
        return True
    # literal parsing is an oracle of the builder model: a data error is not a disagreement
    if " B=ERR11" in a and a.split(" B=")[0] == model_res.split(" B=")[0]:
        return True
    return False


def describe(case, names):
    if case.startswith("T "):
        return " ".join(names[0][int(x)] for x in case.split()[1:])
    body = case[2:]
    if body == "-":
        return repr("")
    return repr("".join(chr(int(x, 16)) for x in body.split(",")))


def cleanup(*paths):
    for p in paths:
        try:
            if p:
                os.remove(p)
        except OSError:
            pass
