(* C19 proofs, part 1: lists, [agree], and the stability of [Reads] under changes that
   only append cells or overwrite CloneItem cells. *)
From Coq Require Import NArith List Bool Arith Lia.
From GV Require Import Base.Result Model.Optimize Spec.HeapIso.
Import ListNotations.

Scheme Reads_min := Minimality for Reads Sort Prop
with ReadsL_min := Minimality for ReadsL Sort Prop
with ReadsSlots_min := Minimality for ReadsSlots Sort Prop.
Combined Scheme Reads_mutind from Reads_min, ReadsL_min, ReadsSlots_min.

(* ---------------------------------------------------------------- lists *)
Lemma nth_error_app_l : forall (A : Type) (l l' : list A) k x,
  nth_error l k = Some x -> nth_error (l ++ l') k = Some x.
Proof.
  intros A l l' k x H. rewrite nth_error_app1; auto.
  apply nth_error_Some. congruence.
Qed.

Lemma nth_error_snoc : forall (A : Type) (l : list A) x, nth_error (l ++ [x]) (length l) = Some x.
Proof.
  intros. rewrite nth_error_app2 by lia. rewrite Nat.sub_diag. reflexivity.
Qed.

Lemma set_nth_length : forall l i c, length (set_nth l i c) = length l.
Proof.
  induction l as [|h t IH]; intros [|i] c; cbn; auto.
Qed.

Lemma nth_set_nth_eq : forall l i c, i < length l -> nth_error (set_nth l i c) i = Some c.
Proof.
  induction l as [|h t IH]; intros [|i] c Hlt; cbn in *; try lia; auto.
  apply IH. lia.
Qed.

Lemma nth_set_nth_neq : forall l i k c, k <> i -> nth_error (set_nth l i c) k = nth_error l k.
Proof.
  induction l as [|h t IH]; intros [|i] [|k] c Hne; cbn; auto; try congruence.
Qed.

Lemma firstn_set_nth_ge : forall l i c n, n <= i -> firstn n (set_nth l i c) = firstn n l.
Proof.
  induction l as [|h t IH]; intros [|i] c [|n] Hle; cbn; auto; try lia.
  f_equal. apply IH. lia.
Qed.

Lemma skipn_set_nth_lt : forall l i c n, i < n -> skipn n (set_nth l i c) = skipn n l.
Proof.
  induction l as [|h t IH]; intros [|i] c [|n] Hlt; cbn; auto; try lia.
  apply IH. lia.
Qed.

(* ---------------------------------------------------------------- slices *)
Lemma slice_length : forall h n a l, slice h a n = Some l -> length l = n.
Proof.
  induction n as [|n IH]; intros a l H; cbn in H.
  - inversion H. reflexivity.
  - destruct (nth_error h a); try discriminate.
    destruct (slice h (S a) n) eqn:E; try discriminate.
    inversion H. cbn. f_equal. eauto.
Qed.

Lemma slice_nth : forall h n a l, slice h a n = Some l ->
  forall k, k < n -> nth_error h (a + k) = nth_error l k.
Proof.
  induction n as [|n IH]; intros a l H k Hk; [lia|].
  cbn in H. destruct (nth_error h a) eqn:E0; try discriminate.
  destruct (slice h (S a) n) eqn:E; try discriminate.
  inversion H; subst. destruct k as [|k].
  - rewrite Nat.add_0_r. cbn. exact E0.
  - cbn. replace (a + S k) with (S a + k) by lia. apply IH with (l := l0); auto. lia.
Qed.

Lemma slice_intro : forall h n a l, length l = n ->
  (forall k, k < n -> nth_error h (a + k) = nth_error l k) -> slice h a n = Some l.
Proof.
  induction n as [|n IH]; intros a l Hlen Hn.
  - destruct l; cbn in *; try discriminate. reflexivity.
  - destruct l as [|c l]; cbn in Hlen; try discriminate.
    cbn. pose proof (Hn 0 ltac:(lia)) as H0. rewrite Nat.add_0_r in H0. cbn in H0. rewrite H0.
    rewrite (IH (S a) l); auto.
    intros k Hk. specialize (Hn (S k) ltac:(lia)). cbn in Hn. rewrite <- Hn. f_equal. lia.
Qed.

(* ---------------------------------------------------------------- agree *)
Definition not_clone_item (c : cell) : Prop := forall a, c <> CCloneItem a.

(* [h'] has every cell of [h] that is not a CloneItem, at the same place *)
Definition agree (h h' : list cell) : Prop :=
  forall k c, nth_error h k = Some c -> not_clone_item c -> nth_error h' k = Some c.

Lemma agree_refl : forall h, agree h h.
Proof. intros h k c H _. exact H. Qed.

Lemma agree_trans : forall h1 h2 h3, agree h1 h2 -> agree h2 h3 -> agree h1 h3.
Proof. intros h1 h2 h3 H12 H23 k c H Hn. apply H23; auto. Qed.

Lemma agree_app : forall h l, agree h (h ++ l).
Proof. intros h l k c H _. apply nth_error_app_l. exact H. Qed.

Lemma agree_set_clone_item : forall h i a c,
  nth_error h i = Some (CCloneItem a) -> agree h (set_nth h i c).
Proof.
  intros h i a c Hi k c' Hk Hn.
  destruct (Nat.eq_dec k i) as [->|Hne].
  - rewrite Hi in Hk. inversion Hk; subst. exfalso. apply (Hn a). reflexivity.
  - rewrite nth_set_nth_neq; auto.
Qed.

Lemma is_leaf_not_clone_item : forall c, is_leaf c = true -> not_clone_item c.
Proof. intros c H a ->. discriminate. Qed.

Lemma slice_agree : forall h h' n a l,
  slice h a n = Some l -> Forall not_clone_item l -> agree h h' -> slice h' a n = Some l.
Proof.
  intros h h' n a l Hs Hf Hag.
  apply slice_intro; [eapply slice_length; eauto|].
  intros k Hk. pose proof (slice_nth _ _ _ _ Hs k Hk) as Hn.
  assert (Hlen : length l = n) by (eapply slice_length; eauto).
  destruct (nth_error l k) eqn:E.
  - apply Hag; auto. rewrite Forall_forall in Hf. apply Hf. eapply nth_error_In; eauto.
  - apply nth_error_None in E. lia.
Qed.

Lemma forallb_leaf_not_clone : forall l, forallb is_leaf l = true -> Forall not_clone_item l.
Proof.
  induction l as [|c l IH]; cbn; intros H; constructor.
  - apply is_leaf_not_clone_item. apply andb_prop in H. tauto.
  - apply IH. apply andb_prop in H. tauto.
Qed.

Lemma ReadsSlots_not_clone : forall h slots kids, ReadsSlots h slots kids -> Forall not_clone_item slots.
Proof.
  induction 1; constructor; auto; intros x Hx; discriminate.
Qed.

(* ---------------------------------------------------------------- Reads is stable under agree *)
Lemma addrs_not_clone_item : forall c ads, addrs c = Some ads -> not_clone_item c.
Proof. intros c ads H a ->. discriminate. Qed.
Lemma seq_len_not_clone_item : forall c n, seq_len c = Some n -> not_clone_item c.
Proof. intros c n H a ->. discriminate. Qed.
Lemma list_len_not_clone_item : forall c n, list_len c = Some n -> not_clone_item c.
Proof. intros c n H a ->. discriminate. Qed.
Lemma frame_addrs_not_clone_item : forall c ads, frame_addrs c = Some ads -> not_clone_item c.
Proof. intros c ads H a ->. discriminate. Qed.

Lemma Reads_agree_mut : forall h,
  (forall a t, Reads h a t -> forall h', agree h h' -> Reads h' a t) /\
  (forall l ts, ReadsL h l ts -> forall h', agree h h' -> ReadsL h' l ts) /\
  (forall sl ts, ReadsSlots h sl ts -> forall h', agree h h' -> ReadsSlots h' sl ts).
Proof.
  intro h. apply Reads_mutind.
  - intros a c Hn Hl h' Hag. apply R_leaf; auto. apply Hag; auto. apply is_leaf_not_clone_item; auto.
  - intros a c ads kids Hn Ha _ IH h' Hag. eapply R_simple; eauto.
    apply Hag; auto. eapply addrs_not_clone_item; eauto.
  - intros a c len payload Hn Hs Hsl Hf h' Hag. eapply R_seq; eauto.
    + apply Hag; auto. eapply seq_len_not_clone_item; eauto.
    + eapply slice_agree; eauto. apply forallb_leaf_not_clone; auto.
  - intros a c len slots kids Hn Hl Hsl Hrs IH h' Hag. eapply R_list; eauto.
    + apply Hag; auto. eapply list_len_not_clone_item; eauto.
    + eapply slice_agree; eauto. eapply ReadsSlots_not_clone; eauto.
  - intros a c ads p kids Hn Hf Hj _ IH h' Hag. eapply R_frame; eauto.
    + apply Hag; auto. eapply frame_addrs_not_clone_item; eauto.
    + apply Hag; auto. intros x Hx; discriminate.
  - intros h' _. constructor.
  - intros a t l ts _ IH1 _ IH2 h' Hag. constructor; auto.
  - intros h' _. constructor.
  - intros a t l ts _ IH1 _ IH2 h' Hag. constructor; auto.
  - intros s a t l ts _ IH1 _ IH2 h' Hag. constructor; auto.
  - intros l ts _ IH h' Hag. constructor; auto.
Qed.

Lemma Reads_agree : forall h h' a t, Reads h a t -> agree h h' -> Reads h' a t.
Proof. intros h h' a t H Hag. eapply (proj1 (Reads_agree_mut h)); eauto. Qed.

Lemma ReadsL_agree : forall h h' l ts, ReadsL h l ts -> agree h h' -> ReadsL h' l ts.
Proof. intros h h' l ts H Hag. eapply (proj1 (proj2 (Reads_agree_mut h))); eauto. Qed.

Lemma ReadsSlots_agree : forall h h' l ts, ReadsSlots h l ts -> agree h h' -> ReadsSlots h' l ts.
Proof. intros h h' l ts H Hag. eapply (proj2 (proj2 (Reads_agree_mut h))); eauto. Qed.

Lemma Reads_app : forall h l a t, Reads h a t -> Reads (h ++ l) a t.
Proof. intros. eapply Reads_agree; eauto. apply agree_app. Qed.

(* the cell a readable address holds is not a CloneItem *)
Lemma Reads_cell : forall h a t, Reads h a t ->
  exists c, nth_error h a = Some c /\ not_clone_item c.
Proof.
  intros h a t H. inversion H; subst; eexists; split; eauto.
  - apply is_leaf_not_clone_item; auto.
  - eapply addrs_not_clone_item; eauto.
  - eapply seq_len_not_clone_item; eauto.
  - eapply list_len_not_clone_item; eauto.
  - eapply frame_addrs_not_clone_item; eauto.
Qed.

