(* The input class on which the builder does not produce well-formed code
   (C05-K2, not reachable from source text), as a decidable predicate on proper
   trees, and the enumerations the bounded theorems quantify over.  (The former
   class C05-K1 -- a body that compiles to nothing -- was repaired in build.rs,
   commit b7aaffe: the closing EndExpression is no longer skipped when a jump
   entry names the end of the stream.) *)
From Coq Require Import List Arith Bool NArith.
From GV Require Import Base.Result Gen.TokenTypes Gen.Defs Gen.Instr Model.Parser Model.BuilderWL Model.Compile.
Import ListNotations.

(* a body that compiles to no instruction at all: a group with nothing inside,
   possibly nested, possibly combined by `|>` *)
Fixpoint silent (t : tree) : bool :=
  match t with
  | T _ d l r =>
    match kind_of d with
    | KGroup => match r with None => true | Some r' => silent r' end
    | KElse => match l, r with Some a, Some b => silent a && silent b | _, _ => false end
    | _ => false
    end
  end.

Definition opt_b (f : tree -> bool) (o : option tree) : bool :=
  match o with Some t => f t | None => false end.

(* arms a subtree registers with its conditional parent *)
Fixpoint registers (t : tree) : bool :=
  match t with
  | T _ d l r =>
    match kind_of d with
    | KJumpIf _ => true
    | KElse => opt_b registers l || opt_b registers r
    | _ => false
    end
  end.

(* C05-K2 (not reachable from source text: && and || bind tighter than the
   conditionals): a conditional directly in the left operand of && / || is
   given the logical node as conditional parent, which never emits the arms
   registered with it; their placeholders stay 0 *)
Fixpoint drops_arms (t : tree) : bool :=
  match t with
  | T _ d l r =>
    (match kind_of d with
     | KLogical _ => opt_b registers l
     | _ => false
     end)
    || opt_b drops_arms l || opt_b drops_arms r
  end.

Definition Known_C05_K2 (t : tree) : Prop := drops_arms t = true.

(* --------------------------------------------------------- enumerations *)
Fixpoint seqs {A} (alpha : list A) (n : nat) : list (list A) :=
  match n with
  | O => [[]]
  | S k => flat_map (fun a => map (cons a) (seqs alpha k)) alpha
  end.

Lemma seqs_complete : forall A (alpha : list A) n l,
  length l = n -> (forall x, In x l -> In x alpha) -> In l (seqs alpha n).
Proof.
  intros A alpha n. induction n as [|n IH]; intros l Hlen Hin.
  - destruct l; [left; reflexivity | discriminate].
  - destruct l as [|a l]; [discriminate|].
    cbn [seqs]. apply in_flat_map. exists a. split.
    + apply Hin. left. reflexivity.
    + apply in_map. apply IH.
      * cbn in Hlen. congruence.
      * intros x Hx. apply Hin. right. exact Hx.
Qed.

(* one representative token per syntactic class the builder distinguishes *)
Definition reduced_alphabet : list token_type :=
  [TT_Number; TT_Identifier; TT_PlusSign; TT_Opposite; TT_EmptyApply; TT_StartGroup; TT_EndGroup;
   TT_StartExpression; TT_EndExpression; TT_JumpIfTrue; TT_ElseJump; TT_And; TT_Comma; TT_Whitespace;
   TT_Reapply; TT_Apply; TT_StartSideEffect; TT_EndSideEffect].

Definition lit_all (_ : nat) : bool := true.

(* the ten token classes that produce bodies, groups and loops *)
Definition small_alphabet : list token_type :=
  [TT_Number; TT_PlusSign; TT_StartGroup; TT_EndGroup; TT_StartExpression; TT_EndExpression;
   TT_JumpIfTrue; TT_ElseJump; TT_And; TT_Reapply].

(* every sequence of length [n] over [alpha], without materialising the list *)
Fixpoint all_seqs_ok {A} (f : list A -> bool) (alpha : list A) (n : nat) (prefix : list A) : bool :=
  match n with
  | O => f (rev prefix)
  | S k => forallb (fun a => all_seqs_ok f alpha k (a :: prefix)) alpha
  end.

Lemma all_seqs_ok_spec : forall A (f : list A -> bool) alpha n prefix,
  all_seqs_ok f alpha n prefix = true ->
  forall l, length l = n -> (forall x, In x l -> In x alpha) -> f (rev prefix ++ l) = true.
Proof.
  intros A f alpha n. induction n as [|n IH]; intros prefix H l Hl Hin.
  - destruct l; [|discriminate]. rewrite app_nil_r. exact H.
  - destruct l as [|a l]; [discriminate|]. cbn [all_seqs_ok] in H. rewrite forallb_forall in H.
    specialize (H a (Hin a (or_introl eq_refl))).
    specialize (IH (a :: prefix) H l). cbn [rev] in IH. rewrite <- app_assoc in IH. cbn [app] in IH.
    apply IH; [cbn in Hl; inversion Hl; reflexivity | intros x Hx; apply Hin; right; exact Hx].
Qed.
