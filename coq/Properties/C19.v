(* C19  Compaction and cloning preserve everything reachable.
   Only statements, [exact] and [Print Assumptions] live here. (under construction) *)
From GV Require Import Model.Optimize Spec.HeapIso.
