(* eq driver (C11): reads the eq harness output lines
     <left value> <right value>\t<impl results>\t-
   (value syntax: harness/src/valtree.rs; `#n=v` names a value, `$n` is it again,
   `!v` is v built by another route - all invisible to the model, which sees trees)
   and prints   <case>\t<eq><ne>\t<spec>
   <eq>,<ne>: what the model's Equal / NotEqual push: T | F | ? | E (error) | ~ (range/slice arm: outside the model)
              | H (out of fuel); followed by `*` if the registers below the operands are not what they were
   <spec>: T | F from Spec.StructEq.struct_eq *)
let pos = ref 0
let src = ref ""
let env : (string, val0) Hashtbl.t = Hashtbl.create 16
let peek () = if !pos < String.length !src then !src.[!pos] else '\000'
let adv () = incr pos
let skip_spaces () = while peek () = ' ' do adv () done
let word () =
  let st = !pos in
  while !pos < String.length !src && not (List.mem !src.[!pos] [' '; ')'; '('; ','; ']'; '['; '=']) do adv () done;
  String.sub !src st (!pos - st)
let hex_list () : string list =
  if peek () <> '[' then failwith "expected [";
  adv ();
  let out = ref [] in
  let fin = ref false in
  while not !fin do
    if peek () = ']' then (adv (); fin := true)
    else if peek () = ',' then adv ()
    else out := word () :: !out
  done;
  List.rev !out

let rec value () : val0 =
  let c = peek () in
  adv ();
  match c with
  | 'U' -> VUnit | 'T' -> VTrue | 'F' -> VFalse
  | 'i' -> VNum (Int (z_of_hex (word ())))
  | 'f' -> VNum (Flt (b64_of_bits (z_of_hex (word ()))))
  | 'c' -> VChar (n_of_hex (word ()))
  | 'b' -> VByte (n_of_hex (word ()))
  | 's' -> VSym (n_of_hex (word ()))
  | 'Y' -> VType (List.nth all_data_type (int_of_string (word ())))
  | 'E' -> VExpr (n_of_hex (word ()))
  | 'X' -> VExternal (n_of_hex (word ()))
  | 'C' -> VChars (List.map n_of_hex (hex_list ()))
  | 'B' -> VBytes (List.map n_of_hex (hex_list ()))
  | 'S' -> VSymList (List.map (fun h -> SPSym (n_of_hex h)) (hex_list ()))
  | '!' -> value ()
  | '#' ->
    let name = word () in
    if peek () <> '=' then failwith "expected =";
    adv ();
    let v = value () in
    Hashtbl.replace env name v; v
  | '$' -> Hashtbl.find env (word ())
  | '(' ->
    let k = peek () in
    adv ();
    let two () =
      skip_spaces (); let a = value () in skip_spaces (); let b = value () in skip_spaces ();
      if peek () <> ')' then failwith "expected )"; adv (); (a, b) in
    (match k with
     | 'P' -> let (a, b) = two () in VPair (a, b)
     | 'K' -> let (a, b) = two () in VConcat (a, b)
     | 'R' -> let (a, b) = two () in VRange (a, b)
     | 'Z' -> let (a, b) = two () in VSlice (a, b)
     | 'A' -> let (a, b) = two () in VPartial (a, b)
     | 'L' ->
       let items = ref [] in
       let fin = ref false in
       while not !fin do
         skip_spaces ();
         if peek () = ')' then (adv (); fin := true) else items := value () :: !items
       done;
       VList (List.rev !items)
     | _ -> failwith "bad form")
  | _ -> failwith "bad value syntax"

let () =
  iter_lines (fun line ->
    match split_on '\t' line with
    | case :: _ ->
      src := case; pos := 0; Hashtbl.reset env;
      skip_spaces ();
      let l = value () in
      skip_spaces ();
      let r = value () in
      let s0 = VNum (Int (z_of_int 12345)) in
      let below = [VPair (s0, l); l; s0] in
      let letter res =
        (match res with
         | Ok (top :: rest) ->
           (match top with VTrue -> "T" | VFalse -> "F" | VUnit -> "U" | _ -> "?") ^ (if rest = below then "" else "*")
         | Ok [] -> "?*"
         | Err c -> if int_of_n c = 99 then "~" else "E"
         | Panic _ -> "P" | OutOfFuel -> "H") in
      let regs = r :: l :: below in
      let e = letter (equal regs) and n = letter (not_equal regs) in
      Printf.printf "%s\t%s%s\t%s\n" case e n (if struct_eq l r then "T" else "F")
    | _ -> failwith ("bad line " ^ line))
