(* C15 in terms of the abstract tables of Spec/AbsTables.v: reallocation
   leaves [abs] unchanged, a push is [tpush] on exactly one table, an
   in-place write is [tupdate] of exactly one entry; and the headline
   statement over whole histories. *)
From Coq Require Import NArith List Bool Arith Lia.
From GV Require Import Base.Result Gen.Instr Model.StoreBase Model.BasicStore Model.StoreOps Spec.AbsTables
  Proofs.C15.ListFacts Proofs.C15.Layout Proofs.C15.Stable Proofs.C15.Steps Proofs.C15.History.
Import ListNotations.

Lemma tget_abs : forall s b, tget (abs s) b = window s b.
Proof. destruct b; reflexivity. Qed.

Lemma abs_ext : forall s s', (forall b, window s' b = window s b) -> abs s' = abs s.
Proof. intros s s' H. unfold abs. rewrite !H. reflexivity. Qed.

Theorem reallocate_abs : forall s new, Inv s -> (forall b, cur s b <= new b) ->
  (forall b, exceeds (new b) (max_items (sett s b)) = false) ->
  exists s', reallocate_heap new s = Ok (s', Done tt) /\ Inv s' /\ abs s' = abs s /\ (forall b, sz s' b = new b).
Proof.
  intros s new I Hn Hm. destruct (reallocate_ok s new I Hn Hm) as (s' & Hr & I' & Hw & Hz & _).
  exists s'. split; [exact Hr|]. split; [exact I'|]. split; [apply abs_ext; exact Hw|exact Hz].
Qed.

Theorem push_abs : forall s b c, Good s ->
  exists s', push_to b c s = Ok (s', Done (snd (tpush b c (abs s)))) /\ Good s' /\ abs s' = fst (tpush b c (abs s)).
Proof.
  intros s b c Gs. destruct (push_to_ok s b c Gs) as (s' & Hp & G' & Hw & Ho & _).
  exists s'. unfold tpush. cbn [fst snd]. rewrite tget_abs, (window_len s b (good_inv s Gs)).
  split; [exact Hp|]. split; [exact G'|].
  unfold abs. destruct b; cbn [tset t_instr t_jump t_sym t_expr t_data t_custom]; rewrite ?Hw;
    rewrite ?Ho by congruence; reflexivity.
Qed.

Theorem update_abs : forall s b i c, Inv s -> i < cur s b ->
  exists s', set_in_block b i c s = Ok (s', Done tt) /\ Inv s' /\ tupdate b i c (abs s) = Some (abs s').
Proof.
  intros s b i c I Hi. destruct (set_in_block_ok s b i c I Hi) as (s' & l' & Hr & I' & Hset & Hw & Ho & _).
  exists s'. split; [exact Hr|]. split; [exact I'|]. unfold tupdate. rewrite tget_abs, Hset. f_equal.
  unfold abs. destruct b; cbn [tset t_instr t_jump t_sym t_expr t_data t_custom]; rewrite ?Hw;
    rewrite ?Ho by congruence; reflexivity.
Qed.

(* the headline: any progressing settings, any history, any continuation *)
Theorem readback_history : forall si sj ss se sd sc ops1 ops2,
  progressing si -> progressing sj -> progressing ss -> progressing se -> progressing sd -> progressing sc ->
  exists s0 s1 s2 r1 r2,
    new_with_settings si sj ss se sd sc = Ok (s0, Done tt) /\
    run bstep ops1 s0 = Ok (s1, r1) /\ run bstep ops2 s1 = Ok (s2, r2) /\
    length r1 = length ops1 /\ length r2 = length ops2 /\
    Inv s1 /\ Inv s2 /\
    (forall a, frozen (data s1) a -> get_from_block BData a s2 = get_from_block BData a s1) /\
    (forall i x, get_instruction i s1 = Ok (Some x) -> get_instruction i s2 = Ok (Some x)).
Proof.
  intros si sj ss se sd sc ops1 ops2 P1 P2 P3 P4 P5 P6.
  destruct (fresh_store_ok si sj ss se sd sc P1 P2 P3 P4 P5 P6) as (s0 & H0 & G0 & _).
  destruct (run_ok ops1 s0 G0) as (s1 & r1 & H1 & G1 & _ & L1).
  destruct (run_ok ops2 s1 G1) as (s2 & r2 & H2 & G2 & _ & L2).
  exists s0, s1, s2, r1, r2.
  split; [exact H0|]. split; [exact H1|]. split; [exact H2|]. split; [exact L1|]. split; [exact L2|].
  split; [apply (good_inv s1 (g_good s1 G1))|]. split; [apply (good_inv s2 (g_good s2 G2))|]. split.
  - intros a F. exact (readback_cell ops2 s1 s2 r2 a G1 H2 F).
  - intros i x Hi. exact (readback_instruction ops2 s1 s2 r2 i x G1 H2 Hi).
Qed.
