(* C20  Programs built into a shared data object do not disturb each other.
   Only statements, [exact] and [Print Assumptions] live here. *)
From Coq Require Import List Arith Bool NArith.
From GV Require Import Base.Result Gen.TokenTypes Gen.Defs Gen.Instr Model.Parser Model.BuilderWL Model.Compile
  Spec.WfCode Spec.Reloc Proofs.C05.Known Proofs.C05.Bounded Proofs.C05.Refuted Proofs.C20.Bounded Proofs.C20.Refuted Proofs.C05.Operands Proofs.C05.Jumps Proofs.C05.Bodies Proofs.C20.Frame Proofs.C20.FrameFull Proofs.C20.Relocate Proofs.C20.LastInstr Proofs.C20.RelocFull.
From GV Require Import Proofs.C20.Statements Proofs.Builder.Transport.
Import ListNotations.

(* relocation + frame, bounded: building after another program (initial states
   [inits]: empty; 5 instructions / 2 jump entries ending in EndExpression;
   9 / 4 ending in JumpTo) gives the code built alone moved by the two table
   lengths, referring to its own jump entries and instructions only -- unless
   the program is the empty program (C20-K2) (or the tree is in class C05-K2,
   which the parser does not produce) *)
Theorem C20_relocation_triples_bounded_3 : forall a b c init, In init inits -> relocates [a; b; c] init.
Proof. exact C20_relocation_triples_bounded_3_proof. Qed.
Print Assumptions C20_relocation_triples_bounded_3.

Theorem C20_relocation_reduced_bounded_5 : forall toks init,
  length toks <= 5 -> (forall x, In x toks -> In x reduced_alphabet) -> In init inits -> relocates toks init.
Proof. exact C20_relocation_reduced_bounded_5_proof. Qed.
Print Assumptions C20_relocation_reduced_bounded_5.

(* the witnesses: where the terminator-elision rule reads the previous
   program's last instruction, and the empty program's entry *)
(* regression: the former finding C20-K1 (`( )` built after a program ending in
   EndExpression emitted nothing; repaired in build.rs, commit b7aaffe): the
   shared build is now the alone build, relocated *)
Theorem C20_K1_repaired :
  build (snd k1b_p) empty_init lit_all (build_fuel (snd k1b_p)) (fst k1b_p) = Ok k1_alone /\
  build (snd k1b_p) k1b_init lit_all (build_fuel (snd k1b_p)) (fst k1b_p) = Ok k1b_r /\
  instrs (fst k1_alone) = [(I_EndExpression, ONone)] /\ jumps (fst k1_alone) = [0] /\
  instrs (fst k1b_r) = [(I_EndExpression, ONone)] /\ jumps (fst k1b_r) = [2] /\ snd k1b_r = 1 /\
  relocated k1b_init (code_of_build k1_alone) (code_of_build k1b_r) = true /\
  own_code k1b_init (code_of_build k1b_r) = true.
Proof. exact K1_repaired20. Qed.
Print Assumptions C20_K1_repaired.

Theorem C20_K2_refuted :
  exists r, build [] k1b_init lit_all (build_fuel []) 0 = Ok r /\
    snd r < i_jump_len k1b_init /\ jumps (fst r) = [] /\ own_code k1b_init (code_of_build r) = false.
Proof. exact K2_refuted20. Qed.
Print Assumptions C20_K2_refuted.

(* frame, inductive, for EVERY proper tree and EVERY initial state: the builder
   never asks for a write to a jump-table entry below the initial jump-table
   length (the model's E_foreign_jump outcome is unreachable), and every jump
   operand / expression value of the new code, and the reported entry, name
   jump entries of the new range *)
Theorem C20_no_foreign_jump_all_trees : forall nodes root t init lit,
  tree_of nodes root = Some t -> compile init lit t <> Err E_foreign_jump.
Proof. exact C20_no_foreign_jump_all_trees_proof. Qed.
Print Assumptions C20_no_foreign_jump_all_trees.

Theorem C20_own_jump_refs_all_trees : forall nodes root t init lit r,
  tree_of nodes root = Some t -> compile init lit t = Ok r ->
  forallb (own_ref (i_jump_len init) (i_jump_len init + length (cj (fst r)))) (ci (fst r)) = true /\
  in_range (i_jump_len init) (i_jump_len init + length (cj (fst r))) (snd r) = true.
Proof. exact C20_own_jump_refs_all_trees_proof. Qed.
Print Assumptions C20_own_jump_refs_all_trees.

(* full statements (for every proper tree and every initial state), on the tree
   compiler; see Proofs/C20 for what is proved of them *)
Definition C20_frame_full_statement : Prop :=
  forall nodes root t init lit r,
    tree_of nodes root = Some t -> ~ Known_C05_K2 t ->
    compile init lit t = Ok r -> own_code init (code_of_compile r) = true.

(* proved: every jump operand, expression value and the reported entry name jump
   entries of the new range, and every new jump entry names an instruction of
   the new range *)
Theorem C20_frame_full : C20_frame_full_statement.
Proof. exact C20_frame_full_proof. Qed.
Print Assumptions C20_frame_full.

(* relocation, inductive, for EVERY tree and EVERY initial state (no exclusion):
   building into a data object that holds di instructions and dj jump entries
   and whose last instruction is L is building into an object with empty tables
   and last instruction L, relocated -- instruction indices (jump-entry
   targets) by di, jump-table indices (jump operands, expression values, the
   entry) by dj; an unpatched placeholder stays 0 on both sides *)
Theorem C20_relocation_all_trees : forall init lit t,
  compile init lit t = shRes (shR init) (compile (init0 init) lit t).
Proof. exact compile_shift. Qed.
Print Assumptions C20_relocation_all_trees.

(* the last instruction L of the earlier content is never decisive: a first body
   that emitted nothing has its entry at the end of the stream, so its
   EndExpression is emitted whatever L is -- for EVERY tree and initial state
   the build is the build into the EMPTY data object, relocated *)
Definition C20_relocation_full_statement : Prop :=
  forall t init lit,
    compile init lit t = shRes (shR init) (compile empty_init lit t).

Theorem C20_relocation_full : C20_relocation_full_statement.
Proof. exact C20_relocation_full_proof. Qed.
Print Assumptions C20_relocation_full.

(* ... and outside C05-K2 (no placeholder survives) that is exactly
   Spec.Reloc.relocated *)
Theorem C20_relocated_full : forall nodes root t init lit r r0,
  tree_of nodes root = Some t ->
  ~ Known_C05_K2 t ->
  compile init lit t = Ok r -> compile empty_init lit t = Ok r0 ->
  relocated init (code_of_compile r0) (code_of_compile r) = true.
Proof. exact C20_relocated_full_proof. Qed.
Print Assumptions C20_relocated_full.

(* ---- directly on BuilderWL.build (by compile_agrees_full, Properties/C05.v) ---- *)
Theorem C20_frame_full_builder : forall nodes root t init lit fuel r,
  tree_of nodes root = Some t -> ~ Known_C05_K2 t ->
  build nodes init lit fuel root = Ok r -> own_code init (code_of_build r) = true.
Proof. exact C20_frame_full_builder_proof. Qed.
Print Assumptions C20_frame_full_builder.

Theorem C20_own_jump_refs_builder : forall nodes root t init lit fuel r,
  tree_of nodes root = Some t -> build nodes init lit fuel root = Ok r ->
  forallb (own_ref (i_jump_len init) (i_jump_len init + length (jumps (fst r)))) (instrs (fst r)) = true /\
  in_range (i_jump_len init) (i_jump_len init + length (jumps (fst r))) (snd r) = true.
Proof. exact C20_own_jump_refs_builder_proof. Qed.
Print Assumptions C20_own_jump_refs_builder.

(* relocation: a build into a data object that already holds a program and the
   build of the same tree into the empty object (any fuel for either) are
   related by Spec.Reloc.relocated *)
Theorem C20_relocated_full_builder : forall nodes root t init lit fuel fuel0 r r0,
  tree_of nodes root = Some t -> ~ Known_C05_K2 t ->
  build nodes init lit fuel root = Ok r -> build nodes empty_init lit fuel0 root = Ok r0 ->
  relocated init (code_of_build r0) (code_of_build r) = true.
Proof. exact C20_relocated_full_builder_proof. Qed.
Print Assumptions C20_relocated_full_builder.

(* ... and for EVERY token sequence the parser model accepts (C05_parse_tree_of):
   relocation and frame of the builder model's output *)
Theorem C20_relocated_full_parsed : forall toks root nodes,
  parse toks = Ok (root, nodes) -> nodes <> [] ->
  exists t, tree_of nodes root = Some t /\
    forall init lit fuel fuel0 r r0, ~ Known_C05_K2 t ->
      build nodes init lit fuel root = Ok r -> build nodes empty_init lit fuel0 root = Ok r0 ->
      relocated init (code_of_build r0) (code_of_build r) = true /\ own_code init (code_of_build r) = true.
Proof. exact C20_relocated_full_parsed_proof. Qed.
Print Assumptions C20_relocated_full_parsed.

(* the frame of the jump table, for EVERY node array (proper tree or not), every
   initial state and every fuel: the builder model never asks for a write to a
   jump-table entry below the initial jump-table length *)
Theorem C20_no_foreign_jump_builder : forall nodes init lit fuel root,
  build nodes init lit fuel root <> Err E_foreign_jump.
Proof. exact C20_no_foreign_jump_builder_proof. Qed.
Print Assumptions C20_no_foreign_jump_builder.

(* ---- the operator fragment: frame and relocation WITHOUT the exclusion of class C05-K2 ---- *)
(* [Spec.Pratt.pratt] is the reference operator-precedence parser; it is defined on the whole
   operator fragment of the token language (atoms, prefix / suffix / binary operators,
   conditionals and else-chains, brackets).  For every token list on which it is defined the
   parser model accepts and links a proper tree outside C05-K2
   (C05_operator_expressions_not_K2, Properties/C05.v), so the hypothesis [~ Known_C05_K2 t] of
   the theorems above is met and can be dropped (Proofs/C20/OperatorFragment.v). *)
From GV Require Spec.Pratt.
From GV Require Import Proofs.C20.OperatorFragment.

(* frame: such a token list is accepted, its node array is a proper tree, and every successful
   build of it -- into a data object in ANY initial state, with any literal oracle and fuel --
   refers to its own jump entries and instructions only, and reports one of its own jump
   entries (the conclusion of C20_frame_full_builder) *)
Theorem C20_frame_operator_expressions : forall toks rt, Pratt.pratt toks = Some rt ->
  exists root nodes t,
    parse toks = Ok (root, nodes) /\ tree_of nodes root = Some t /\
    forall init lit fuel r,
      build nodes init lit fuel root = Ok r -> own_code init (code_of_build r) = true.
Proof. exact C20_frame_operator_expressions_proof. Qed.
Print Assumptions C20_frame_operator_expressions.

(* relocation: ... and every successful build into a data object that already holds a program
   is the build into the empty data object (any fuel for either), relocated by the two table
   lengths (the conclusion of C20_relocated_full_builder / C20_relocated_full_parsed) *)
Theorem C20_relocated_operator_expressions : forall toks rt, Pratt.pratt toks = Some rt ->
  exists root nodes t,
    parse toks = Ok (root, nodes) /\ tree_of nodes root = Some t /\
    forall init lit fuel fuel0 r r0,
      build nodes init lit fuel root = Ok r -> build nodes empty_init lit fuel0 root = Ok r0 ->
      relocated init (code_of_build r0) (code_of_build r) = true /\ own_code init (code_of_build r) = true.
Proof. exact C20_relocated_operator_expressions_proof. Qed.
Print Assumptions C20_relocated_operator_expressions.

(* non-vacuity: `a ?> b + 1 |> c !> d * 2 |> (e ?> f) && g || h` (the 23 tokens of
   C05_ex_operator_expression: a two-arm else-chain whose last arm has a bracketed conditional
   as left operand of &&) is in the fragment and is accepted; built alone it has 10 jump
   entries; built after a program of 9 instructions / 4 jump entries ending in JumpTo it is a
   DIFFERENT code, namely the alone code relocated: every jump entry moved by 9, the reported
   entry by 4, and it refers to its own entries only *)
Example C20_ex_operator_expression :
  let toks := [TT_Identifier; TT_JumpIfTrue; TT_Identifier; TT_PlusSign; TT_Number; TT_ElseJump;
               TT_Identifier; TT_JumpIfFalse; TT_Identifier; TT_MultiplicationSign; TT_Number; TT_ElseJump;
               TT_StartGroup; TT_Identifier; TT_JumpIfTrue; TT_Identifier; TT_EndGroup; TT_Whitespace; TT_And;
               TT_Whitespace; TT_Identifier; TT_Or; TT_Identifier] in
  let init := mkInit 9 4 (Some (I_JumpTo, ONum 3)) in
  match Pratt.pratt toks, parse toks with
  | Some _, Ok (root, nodes) =>
    match build nodes empty_init lit_all (build_fuel nodes) root,
          build nodes init lit_all (build_fuel nodes) root with
    | Ok r0, Ok r =>
      relocated init (code_of_build r0) (code_of_build r) = true /\
      own_code init (code_of_build r) = true /\
      length (jumps (fst r0)) = 10 /\
      jumps (fst r) = map (fun x => x + 9) (jumps (fst r0)) /\
      snd r = snd r0 + 4 /\
      code_of_build r <> code_of_build r0
    | _, _ => False
    end
  | _, _ => False
  end.
Proof. vm_compute. repeat split; try reflexivity. discriminate. Qed.
