(* C12, numbers: SimpleNumber::partial_cmp is the order of the extended reals
   the operands denote; NaN compares with nothing. *)
From Coq Require Import ZArith NArith List Bool Reals Lia.
From Flocq Require Import Core IEEE754.BinarySingleNaN IEEE754.Binary IEEE754.Bits.
From GV Require Import Model.Num Model.Value Spec.NatOrder Proofs.C09.IntArith Proofs.C09.Promote.

Lemma f64_cmp_correct (f g : binary64) x y :
  denote_f64 f = Some x -> denote_f64 g = Some y ->
  b64_compare f g = Some (xcompare x y).
Proof.
  intros Hf Hg. unfold b64_compare.
  destruct f as [sf|sf|sf pf Hpf|sf mf ef Hf'], g as [sg|sg|sg pg Hpg|sg mg eg Hg']; simpl in Hf, Hg; try discriminate;
    injection Hf as <-; injection Hg as <-;
    try (rewrite Bcompare_correct by reflexivity; reflexivity);
    try (destruct sf, sg; reflexivity).
  all: try (destruct sf; reflexivity); try (destruct sg; reflexivity).
Qed.

Lemma f64_cmp_nan_l (f g : binary64) : f64_is_nan f = true -> b64_compare f g = None.
Proof. destruct f; try discriminate. intros _. destruct g; reflexivity. Qed.

Lemma f64_cmp_nan_r (f g : binary64) : f64_is_nan g = true -> b64_compare f g = None.
Proof. destruct g; try discriminate. intros _. destruct f; reflexivity. Qed.

Lemma denote_promoted z : in_i32 z = true -> denote_f64 (f64_of_i32 z) = Some (XFin (IZR z)).
Proof.
  intros Hz. destruct (f64_of_i32_exact z Hz) as [HR HF].
  destruct (f64_of_i32 z) as [s|s|s p Hp|s m e He] eqn:E; try discriminate; simpl; rewrite <- HR; reflexivity.
Qed.

Lemma denote_nan n : denote n = None <-> is_nan_num n = true.
Proof. destruct n as [z|f]; simpl; [split; discriminate|]. destruct f; simpl; split; (discriminate || reflexivity). Qed.

Lemma denote_some n : is_nan_num n = false -> exists x, denote n = Some x.
Proof.
  intros H. destruct (denote n) as [x|] eqn:E; [eauto|].
  apply denote_nan in E. congruence.
Qed.

(* the mixed-representation partial_cmp is comparison of the denoted values *)
Theorem num_cmp_correct a b x y : num_wf a -> num_wf b ->
  denote a = Some x -> denote b = Some y ->
  num_partial_cmp a b = Some (xcompare x y).
Proof.
  intros Wa Wb Ha Hb. destruct a as [za|fa], b as [zb|fb]; simpl in *.
  - injection Ha as <-. injection Hb as <-. simpl. rewrite Rcompare_IZR. reflexivity.
  - injection Ha as <-. apply f64_cmp_correct; [apply denote_promoted, Wa | exact Hb].
  - injection Hb as <-. apply f64_cmp_correct; [exact Ha | apply denote_promoted, Wb].
  - apply f64_cmp_correct; assumption.
Qed.

Theorem num_cmp_nan a b : is_nan_num a = true \/ is_nan_num b = true -> num_partial_cmp a b = None.
Proof.
  intros [H|H]; destruct a as [za|fa], b as [zb|fb]; simpl in *; try discriminate;
    first [apply f64_cmp_nan_l; exact H | apply f64_cmp_nan_r; exact H].
Qed.

(* num_partial_cmp never fails to answer on non-NaN operands, whatever the range *)
Lemma xcompare_antisym x y : xcompare y x = CompOpp (xcompare x y).
Proof.
  destruct x as [|x|], y as [|y|]; simpl; try reflexivity.
  destruct (Rcompare_spec x y) as [H|H|H].
  - rewrite Rcompare_Gt by assumption. reflexivity.
  - subst. rewrite Rcompare_Eq by reflexivity. reflexivity.
  - rewrite Rcompare_Lt by assumption. reflexivity.
Qed.

Lemma xcompare_refl x : xcompare x x = Eq.
Proof. destruct x; simpl; try reflexivity. apply Rcompare_Eq. reflexivity. Qed.

Lemma xcompare_eq x y : xcompare x y = Eq -> x = y.
Proof.
  destruct x as [|x|], y as [|y|]; simpl; try discriminate; try reflexivity.
  intros H. apply Rcompare_Eq_inv in H. congruence.
Qed.

(* transitivity of the order the operators realise: it is the order of xreal *)
Lemma xcompare_lt_trans x y z : xcompare x y = Lt -> xcompare y z = Lt -> xcompare x z = Lt.
Proof.
  destruct x as [|x|], y as [|y|], z as [|z|]; simpl; try discriminate; try reflexivity.
  intros H1 H2. apply Rcompare_Lt_inv in H1. apply Rcompare_Lt_inv in H2.
  apply Rcompare_Lt. eapply Rlt_trans; eassumption.
Qed.

Lemma num_eq_cmp a b : num_eq a b = match num_partial_cmp a b with Some Eq => true | _ => false end.
Proof. reflexivity. Qed.
