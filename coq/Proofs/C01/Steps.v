(* One machine step per instruction shape, in the form the simulation uses:
   explicit states before and after, and what happens to the observable trace. *)
From Coq Require Import ZArith NArith List Bool Arith Lia.
From GV Require Import Base.Result Base.Host Gen.Instr Gen.Exec Gen.CmpTable Model.Num Model.Value Model.Machine
  Model.CompileExpr Spec.Ast Spec.Eval Proofs.C01.MachineFacts Proofs.C01.OpRefine Proofs.C01.EqRefine Proofs.C01.Fragment.
Import ListNotations.

Section Steps.
Variable hstate : Type.
Variable host : hstate -> host_call -> hstate * option val.
Hypothesis Hdef : declines_defer hstate host.
Variable P : program.

Notation St := (mkSt hstate).
Notation step := (step hstate host).
Notation star := (star hstate host).
Notation C := (code P).
Notation J := (jt P).

Ltac st_norm :=
  cbv beta iota delta [next_two next_ref push_bool push_unit push set_regs set_vals stay regs pc vals frames hs tr bind].

(* a step whose operation is given as an equation *)
Lemma step_op : forall pcx sg vs fs h t i o f takes s1 next,
  nth_error C pcx = Some (i, o) ->
  exec_op i = Some (f, takes) ->
  (takes = true -> o <> MNone) ->
  run_op hstate host P i f o (St pcx sg vs fs h t) = Ok (s1, next) ->
  (match next with Some n => n | None => S pcx end) < length C ->
  step P (St pcx sg vs fs h t) =
  SRun hstate (St (match next with Some n => n | None => S pcx end) (regs s1) (vals s1) (frames s1) (hs s1) (tr s1)).
Proof.
  intros. eapply (step_ok hstate host P (St pcx sg vs fs h t)); eauto.
Qed.

Lemma step_put : forall pcx v sg vs fs h t,
  nth_error C pcx = Some (I_Put, MVal v) -> S pcx < length C ->
  step P (St pcx sg vs fs h t) = SRun hstate (St (S pcx) (v :: sg) vs fs h t).
Proof.
  intros. erewrite step_op with (next := None) (s1 := St pcx (v :: sg) vs fs h t); eauto; try reflexivity.
  intros _; discriminate.
Qed.

Lemma step_put_value : forall pcx vin sg vs fs h t,
  nth_error C pcx = Some (ins I_PutValue) -> S pcx < length C ->
  step P (St pcx sg (vin :: vs) fs h t) = SRun hstate (St (S pcx) (vin :: sg) (vin :: vs) fs h t).
Proof.
  intros. erewrite step_op with (next := None) (s1 := St pcx (vin :: sg) (vin :: vs) fs h t); eauto; try reflexivity.
  intros; discriminate.
Qed.

Lemma step_update_value : forall pcx v vin sg vs fs h t,
  nth_error C pcx = Some (ins I_UpdateValue) -> S pcx < length C ->
  step P (St pcx (v :: sg) (vin :: vs) fs h t) = SRun hstate (St (S pcx) sg (v :: vs) fs h t).
Proof.
  intros. erewrite step_op with (next := None) (s1 := St pcx sg (v :: vs) fs h t); eauto; try reflexivity.
  intros; discriminate.
Qed.

Lemma step_start_side : forall pcx vin sg vs fs h t,
  nth_error C pcx = Some (ins I_StartSideEffect) -> S pcx < length C ->
  step P (St pcx sg (vin :: vs) fs h t) = SRun hstate (St (S pcx) sg (vin :: vin :: vs) fs h t).
Proof.
  intros. erewrite step_op with (next := None) (s1 := St pcx sg (vin :: vin :: vs) fs h t); eauto; try reflexivity.
  intros; discriminate.
Qed.

Lemma step_end_side : forall pcx v x sg vs fs h t,
  nth_error C pcx = Some (ins I_EndSideEffect) -> S pcx < length C ->
  step P (St pcx (v :: sg) (x :: vs) fs h t) = SRun hstate (St (S pcx) sg vs fs h t).
Proof.
  intros. erewrite step_op with (next := None) (s1 := St pcx sg vs fs h t); eauto; try reflexivity.
  intros; discriminate.
Qed.

Lemma step_make_list : forall pcx items sg vs fs h t,
  nth_error C pcx = Some (insn I_MakeList (length items)) -> S pcx < length C ->
  step P (St pcx (rev items ++ sg) vs fs h t) = SRun hstate (St (S pcx) (VList items :: sg) vs fs h t).
Proof.
  intros. erewrite step_op with (next := None) (s1 := St pcx (VList items :: sg) vs fs h t); eauto; try reflexivity.
  - intros; discriminate.
  - cbn [run_op need_num bind]. unfold make_list. cbn [regs].
    assert (Hl : Nat.ltb (length (rev items ++ sg)) (length items) = false).
    { apply Nat.ltb_ge. rewrite app_length, rev_length. lia. }
    rewrite Hl. st_norm.
    rewrite <- (rev_length items) at 1 2.
    rewrite skipn_app, firstn_app, Nat.sub_diag, skipn_all, firstn_all, firstn_O, app_nil_r, rev_involutive.
    cbn [skipn app]. reflexivity.
Qed.

Lemma step_jump_to : forall pcx j target sg vs fs h t,
  nth_error C pcx = Some (insn I_JumpTo j) -> nth_error J j = Some target -> target < length C ->
  step P (St pcx sg vs fs h t) = SRun hstate (St target sg vs fs h t).
Proof.
  intros. erewrite step_op with (next := Some target) (s1 := St pcx sg vs fs h t); eauto; try reflexivity.
  - intros; discriminate.
  - cbn [run_op need_num bind]. unfold jump_op, jump_point. rewrite H0. reflexivity.
Qed.

(* JumpIfTrue / JumpIfFalse: jump when the condition holds *)
Lemma step_jump_if : forall (neg : bool) pcx j target v sg vs fs h t,
  nth_error C pcx = Some (insn (if neg then I_JumpIfFalse else I_JumpIfTrue) j) ->
  nth_error J j = Some target -> target < length C -> S pcx < length C ->
  step P (St pcx (v :: sg) vs fs h t) =
  SRun hstate (St (if cond_holds neg v then target else S pcx) sg vs fs h t).
Proof.
  intros neg pcx j target v sg vs fs h t Hn Hj Ht Hs.
  unfold cond_holds. rewrite <- is_true_truthy.
  destruct neg.
  - erewrite step_op with (next := if negb (is_true_value v) then Some target else None) (s1 := St pcx sg vs fs h t); eauto; try reflexivity.
    + destruct (is_true_value v); reflexivity.
    + intros; discriminate.
    + cbn [run_op need_num bind]. unfold jump_if, jump_point. rewrite Hj. st_norm.
      destruct (is_true_value v); reflexivity.
    + destruct (is_true_value v); cbn; lia.
  - erewrite step_op with (next := if is_true_value v then Some target else None) (s1 := St pcx sg vs fs h t); eauto; try reflexivity.
    + destruct (is_true_value v); reflexivity.
    + intros; discriminate.
    + cbn [run_op need_num bind]. unfold jump_if, jump_point. rewrite Hj. st_norm.
      destruct (is_true_value v); reflexivity.
    + destruct (is_true_value v); cbn; lia.
Qed.

(* And / Or *)
Lemma step_and : forall pcx j target v sg vs fs h t,
  nth_error C pcx = Some (insn I_And j) -> nth_error J j = Some target -> target < length C -> S pcx < length C ->
  step P (St pcx (v :: sg) vs fs h t) =
  SRun hstate (if truthy v then St target sg vs fs h t else St (S pcx) (VFalse :: sg) vs fs h t).
Proof.
  intros pcx j target v sg vs fs h t Hn Hj Ht Hs. rewrite <- is_true_truthy.
  destruct (is_true_value v) eqn:Hv.
  - erewrite step_op with (next := Some target) (s1 := St pcx sg vs fs h t); eauto; try reflexivity.
    + intros; discriminate.
    + cbn [run_op need_num bind]. unfold and_op, jump_point. st_norm. rewrite Hv, Hj. reflexivity.
  - erewrite step_op with (next := None) (s1 := St pcx (VFalse :: sg) vs fs h t); eauto; try reflexivity.
    + intros; discriminate.
    + cbn [run_op need_num bind]. unfold and_op. st_norm. rewrite Hv. reflexivity.
Qed.

Lemma step_or : forall pcx j target v sg vs fs h t,
  nth_error C pcx = Some (insn I_Or j) -> nth_error J j = Some target -> target < length C -> S pcx < length C ->
  step P (St pcx (v :: sg) vs fs h t) =
  SRun hstate (if truthy v then St (S pcx) (VTrue :: sg) vs fs h t else St target sg vs fs h t).
Proof.
  intros pcx j target v sg vs fs h t Hn Hj Ht Hs. rewrite <- is_true_truthy.
  destruct (is_true_value v) eqn:Hv.
  - erewrite step_op with (next := None) (s1 := St pcx (VTrue :: sg) vs fs h t); eauto; try reflexivity.
    + intros; discriminate.
    + cbn [run_op need_num bind]. unfold or_op. st_norm. rewrite Hv. reflexivity.
  - erewrite step_op with (next := Some target) (s1 := St pcx sg vs fs h t); eauto; try reflexivity.
    + intros; discriminate.
    + cbn [run_op need_num bind]. unfold or_op, jump_point. st_norm. rewrite Hv, Hj. reflexivity.
Qed.

Lemma step_tis : forall pcx v sg vs fs h t,
  nth_error C pcx = Some (ins I_Tis) -> S pcx < length C ->
  step P (St pcx (v :: sg) vs fs h t) = SRun hstate (St (S pcx) (vbool (truthy v) :: sg) vs fs h t).
Proof.
  intros. erewrite step_op with (next := None) (s1 := St pcx (vbool (truthy v) :: sg) vs fs h t); eauto; try reflexivity.
  - intros; discriminate.
  - cbn [run_op]. apply tis_spec.
Qed.

Ltac by_spec E t' :=
  exists t'; split; [ | assumption ];
  match type of E with _ = Ok (?s, None) =>
    erewrite step_op with (next := None) (s1 := s); eauto; try reflexivity; try (intros; discriminate);
    try (cbn [run_op binop_instr unop_instr]; exact E)
  end.

Lemma step_binop : forall o vl vr v w pcx sg vs fs h t,
  bin_supported o = true -> o <> BPair ->
  prim_binop o vl vr = (Some v, w) ->
  nth_error C pcx = Some (ins (binop_instr o)) -> S pcx < length C ->
  exists t', step P (St pcx (vr :: vl :: sg) vs fs h t) = SRun hstate (St (S pcx) (v :: sg) vs fs h t')
             /\ observable t' = observable t.
Proof.
  intros o vl vr v w pcx sg vs fs h t Hs Hp H Hn Hl.
  destruct o; try discriminate; try congruence; unfold prim_binop in H; cbn [arith_op] in H;
    try (injection H as H _;
         match goal with Hn : nth_error _ _ = Some (ins (binop_instr ?o)) |- _ =>
         destruct (perform_op_spec hstate host Hdef (binop_instr o) _ vl vr v pcx sg vs fs h t H) as [t' [E O]] end;
         by_spec E t').
  - (* lt *) injection H as H _. exists t. split; [|reflexivity].
    erewrite step_op with (next := None) (s1 := St pcx (v :: sg) vs fs h t); eauto; try reflexivity; try (intros; discriminate).
    cbn [run_op binop_instr]. apply (comparison_spec hstate BLt); auto.
  - injection H as H _. exists t. split; [|reflexivity].
    erewrite step_op with (next := None) (s1 := St pcx (v :: sg) vs fs h t); eauto; try reflexivity; try (intros; discriminate).
    cbn [run_op binop_instr]. apply (comparison_spec hstate BLe); auto.
  - injection H as H _. exists t. split; [|reflexivity].
    erewrite step_op with (next := None) (s1 := St pcx (v :: sg) vs fs h t); eauto; try reflexivity; try (intros; discriminate).
    cbn [run_op binop_instr]. apply (comparison_spec hstate BGt); auto.
  - injection H as H _. exists t. split; [|reflexivity].
    erewrite step_op with (next := None) (s1 := St pcx (v :: sg) vs fs h t); eauto; try reflexivity; try (intros; discriminate).
    cbn [run_op binop_instr]. apply (comparison_spec hstate BGe); auto.
  - (* eq *)
    destruct (core_value vl) eqn:Hcl; [|discriminate]. destruct (core_value vr) eqn:Hcr; [|discriminate].
    cbn [andb] in H. injection H as <- _. exists t. split; [|reflexivity].
    erewrite step_op with (next := None) (s1 := St pcx (vbool (veq vl vr) :: sg) vs fs h t); eauto; try reflexivity; try (intros; discriminate).
    cbn [run_op binop_instr]. unfold equality_op. cbn [regs]. rewrite (data_equal_veq vl vr Hcl Hcr).
    cbv beta iota delta [push_bool push set_regs stay regs pc vals frames hs tr xorb]. destruct (veq vl vr); reflexivity.
  - (* ne *)
    destruct (core_value vl) eqn:Hcl; [|discriminate]. destruct (core_value vr) eqn:Hcr; [|discriminate].
    cbn [andb] in H. injection H as <- _. exists t. split; [|reflexivity].
    erewrite step_op with (next := None) (s1 := St pcx (vbool (negb (veq vl vr)) :: sg) vs fs h t); eauto; try reflexivity; try (intros; discriminate).
    cbn [run_op binop_instr]. unfold equality_op. cbn [regs]. rewrite (data_equal_veq vl vr Hcl Hcr).
    cbv beta iota delta [push_bool push set_regs stay regs pc vals frames hs tr xorb]. destruct (veq vl vr); reflexivity.
  - (* xor *) injection H as <- _. exists t. split; [|reflexivity].
    erewrite step_op with (next := None) (s1 := St pcx (vbool (xorb (truthy vl) (truthy vr)) :: sg) vs fs h t); eauto; try reflexivity; try (intros; discriminate).
    cbn [run_op binop_instr]. apply xor_spec.
  - (* access *)
    destruct (access_spec hstate host Hdef vl vr v w pcx sg vs fs h t H) as [t' [E O]].
    by_spec E t'.
Qed.

Lemma step_pair : forall vl vr pcx sg vs fs h t,
  nth_error C pcx = Some (ins I_MakePair) -> S pcx < length C ->
  step P (St pcx (vl :: vr :: sg) vs fs h t) = SRun hstate (St (S pcx) (VPair vl vr :: sg) vs fs h t).
Proof.
  intros. erewrite step_op with (next := None) (s1 := St pcx (VPair vl vr :: sg) vs fs h t); eauto; try reflexivity; try (intros; discriminate).
  all: try (cbn [run_op]; apply pair_spec).
Qed.

Lemma step_unop : forall o v r pcx sg vs fs h t,
  un_supported o = true ->
  prim_unop o v = Some r ->
  nth_error C pcx = Some (ins (unop_instr o)) -> S pcx < length C ->
  exists t', step P (St pcx (v :: sg) vs fs h t) = SRun hstate (St (S pcx) (r :: sg) vs fs h t')
             /\ observable t' = observable t.
Proof.
  intros o v r pcx sg vs fs h t Hs H Hn Hl.
  destruct o; try discriminate; cbn [prim_unop] in H.
  - injection H as <-. destruct (perform_unary_spec hstate host Hdef I_AbsoluteValue OpAbs v pcx sg vs fs h t) as [t' [E O]]. by_spec E t'.
  - injection H as <-. destruct (perform_unary_spec hstate host Hdef I_Opposite OpNeg v pcx sg vs fs h t) as [t' [E O]]. by_spec E t'.
  - injection H as <-. destruct (perform_unary_spec hstate host Hdef I_BitwiseNot OpNot v pcx sg vs fs h t) as [t' [E O]]. by_spec E t'.
  - injection H as <-. exists t. split; [|reflexivity].
    erewrite step_op with (next := None) (s1 := St pcx (vbool (negb (truthy v)) :: sg) vs fs h t); eauto; try reflexivity; try (intros; discriminate).
    cbn [run_op unop_instr]. apply not_spec.
  - injection H as <-. exists t. split; [|reflexivity].
    erewrite step_op with (next := None) (s1 := St pcx (vbool (truthy v) :: sg) vs fs h t); eauto; try reflexivity; try (intros; discriminate).
    cbn [run_op unop_instr]. apply tis_spec.
  - destruct (left_internal_spec hstate host Hdef v r pcx sg vs fs h t H) as [t' [E O]]. by_spec E t'.
  - destruct (right_internal_spec hstate host Hdef v r pcx sg vs fs h t H) as [t' [E O]]. by_spec E t'.
  - destruct (length_internal_spec hstate host Hdef v r pcx sg vs fs h t H) as [t' [E O]]. by_spec E t'.
Qed.

(* an identifier: found in `$`, or the host is asked exactly once *)
Lemma by_symbol_access : forall vin sym,
  match by_symbol vin sym with
  | Found v => access_with_symbol sym vin = Ok (Some v)
  | NotFound => access_with_symbol sym vin = Ok None \/ access_with_symbol sym vin = Err E_unsupported
  | Open _ => True
  end.
Proof.
  intros vin sym. destruct vin; cbn; auto.
  - destruct vin1; cbn; auto. destruct (s =? sym)%N; auto.
  - change (Machine.keyed items sym) with (Eval.keyed items sym).
    destruct (Eval.keyed items sym) as [|x [|y r]]; auto.
Qed.

Lemma step_resolve : forall sym_hash name vin v s s' pcx sg vs fs mt,
  resolve_ident sym_hash hstate host name vin s = ODone v s' ->
  nth_error C pcx = Some (I_Resolve, MVal (VSym (sym_hash name))) -> S pcx < length C ->
  observable mt = snd s ->
  exists mt', step P (St pcx sg (vin :: vs) fs (fst s) mt) = SRun hstate (St (S pcx) (v :: sg) (vin :: vs) fs (fst s') mt')
              /\ observable mt' = snd s'.
Proof.
  intros sym_hash name vin v s s' pcx sg vs fs mt H Hn Hl Ho.
  unfold resolve_ident in H.
  pose proof (by_symbol_access vin (sym_hash name)) as Hb.
  destruct (by_symbol vin (sym_hash name)) as [x | | w] eqn:Hs; try discriminate.
  - injection H as <- <-. exists mt. split; [|assumption].
    erewrite step_op with (next := None) (s1 := St pcx (x :: sg) (vin :: vs) fs (fst s) mt); eauto; try reflexivity.
    + intros; discriminate.
    + cbn [run_op]. unfold resolve_op. cbn [vals get_access_addr bind]. rewrite Hb. reflexivity.
  - unfold call_host in H. destruct (host (fst s) (HResolve (sym_hash name))) as [h' r] eqn:Hh.
    injection H as <- <-. cbn [fst snd].
    exists (mt ++ [HResolve (sym_hash name)]). split.
    + erewrite step_op with (next := None)
        (s1 := St pcx ((match r with Some v => v | None => VUnit end) :: sg) (vin :: vs) fs h' (mt ++ [HResolve (sym_hash name)]));
        eauto; try reflexivity.
      * intros; discriminate.
      * cbn [run_op]. unfold resolve_op. cbn [vals get_access_addr bind].
        assert (Hnone : match access_with_symbol (sym_hash name) vin with
                        | Ok f => Ok f
                        | Err c => if (c =? E_unsupported)%N then Ok None else Err c
                        | Panic x => Panic x
                        | OutOfFuel => OutOfFuel
                        end = Ok None).
        { destruct Hb as [Hb | Hb]; rewrite Hb; reflexivity. }
        rewrite Hnone. cbn [bind]. unfold ask. cbn [hs pc regs vals frames tr]. rewrite Hh.
        destruct r; reflexivity.
    + rewrite observable_app, Ho. reflexivity.
Qed.

End Steps.
