(* C14, first stage: the LEXER turns the spelling of a char list / byte list
   into exactly one token whose text is the whole spelling.

   The state invariant for "inside a literal opened with n quotes":
     [in_start k n]  the opening run: state Start{Char,Byte}List, current
                     characters = n quotes, nothing counted yet;
     [in_body k n e] the body: state {Char,Byte}List, start_quote_count = n,
                     end_quote_count = e (the length of the quote run that ends
                     the current characters), e < n.
   The closing rule: in [in_body k n e] a quote makes e+1; when e+1 = n the
   token is emitted and the lexer is [idle] again (NoToken, counters 0); a
   non-quote resets e to 0.  Backslashes are ordinary characters to the lexer.
   The opening rule: a run of exactly two quotes followed by a non-quote is the
   empty literal; any other run length n followed by a non-quote enters the
   body with start_quote_count = n. *)
From Coq Require Import Arith NArith List Bool Lia.
From GV Require Import Base.Result Gen.TokenTypes Gen.Tokens Spec.LitDenote Model.Lexer
  Proofs.C13.LexBase Proofs.C13.LexInv.
From GV Require Model.Literals Proofs.C14.CharList.
Import ListNotations.
Local Open Scope N_scope.

Inductive kind : Type := KChar | KByte.
Definition kq (k : kind) : N := match k with KChar => 34 | KByte => 39 end.
Definition ksst (k : kind) : lstate := match k with KChar => SStartCharList | KByte => SStartByteList end.
Definition kbst (k : kind) : lstate := match k with KChar => SCharList | KByte => SByteList end.
Definition kty (k : kind) : token_type := match k with KChar => TT_CharList | KByte => TT_ByteList end.

Lemma cur_op_quote : forall k, current_operator [kq k] = None.
Proof. destruct k; vm_compute; reflexivity. Qed.

Lemma cur_op_nul : current_operator [0] = None.
Proof. vm_compute; reflexivity. Qed.

Lemma byte_len_app : forall a b, byte_len (a ++ b) = byte_len a + byte_len b.
Proof. induction a as [|x a IH]; intros b; cbn [byte_len app]; [reflexivity|]. rewrite IH. lia. Qed.

Lemma byte_len_repeat : forall c n, c < 128 -> byte_len (repeat c n) = N.of_nat n.
Proof.
  intros c n Hc. induction n as [|n IH]; [reflexivity|].
  cbn [repeat byte_len]. rewrite IH. unfold utf8_len. apply N.ltb_lt in Hc. rewrite Hc. lia.
Qed.

Lemma kq_ascii : forall k, kq k < 128.
Proof. destruct k; cbn; lia. Qed.

Lemma repeat_snoc : forall (c : N) n, repeat c n ++ [c] = repeat c (S n).
Proof. intros c n. induction n as [|n IH]; [reflexivity|]. cbn [repeat app]. rewrite IH. reflexivity. Qed.

Ltac proj :=
  cbn [st cur cur_ty text_row text_col start_col start_row should_create can_float sqc eqc could_sub
       result at_end set_cur set_cur_ty set_text_row set_text_col set_start_col set_start_row
       set_should_create set_st set_can_float set_sq set_eq set_could_sub set_result set_at_end
       push wrap_line].

Section Lit.
  Variables un ua : N -> bool.
  Notation process_char := (process_char un ua).
  Notation run_arm := (run_arm un ua).
  Notation start_token := (start_token un ua).
  Notation start_new_tail := (start_new_tail un ua).
  Notation internal_next_loop := (internal_next_loop un ua).
  Notation internal_next := (internal_next un ua).
  Notation lex_loop := (lex_loop un ua).
  Notation lex_run := (lex_run un ua).
  Notation lex := (lex un ua).

  (* between tokens *)
  Definition idle (l : lexer) : Prop :=
    st l = SNoToken /\ eqc l = 0 /\ result l = None /\ at_end l = false /\ should_create l = true.

  Definition in_start (k : kind) (n : nat) (r c : N) (l : lexer) : Prop :=
    st l = ksst k /\ cur l = repeat (kq k) n /\ cur_ty l = Some (kty k) /\ eqc l = 0 /\
    result l = None /\ at_end l = false /\ should_create l = true /\ start_row l = r /\ start_col l = c.

  Definition in_body (k : kind) (n e : nat) (pre : list N) (r c : N) (l : lexer) : Prop :=
    st l = kbst k /\ sqc l = N.of_nat n /\ eqc l = N.of_nat e /\ cur l = pre /\ cur_ty l = Some (kty k) /\
    result l = None /\ at_end l = false /\ start_row l = r /\ start_col l = c.

  Lemma idle_init : idle init_lexer.
  Proof. repeat split. Qed.

  Lemma advance_frame2 : forall l c,
    cur (advance l c) = cur l /\ st (advance l c) = st l /\ result (advance l c) = result l /\
    at_end (advance l c) = at_end l /\ should_create (advance l c) = should_create l /\
    cur_ty (advance l c) = cur_ty l /\ start_row (advance l c) = start_row l /\
    start_col (advance l c) = start_col l /\ sqc (advance l c) = sqc l /\ eqc (advance l c) = eqc l.
  Proof.
    intros l c. unfold advance. destruct (negb (c =? ch_lf)); [cbn; repeat split|].
    destruct (st l) eqn:E; cbn; rewrite ?E; repeat split.
  Qed.

  Ltac adv l c :=
    let H := fresh "Hadv" in
    pose proof (advance_frame2 l c) as H;
    destruct H as (?Ac & ?As & ?Ar & ?Ae & ?Asc & ?Aty & ?Arow & ?Acol & ?Asq & ?Aeq).

  (* ------------------------------------------------------------ single steps *)
  Lemma step_first : forall k l, idle l ->
    exists l1, process_char l (kq k) = Ok (l1, None) /\ in_start k 1 (text_row l) (text_col l) l1.
  Proof.
    intros k l (Hst & Heq & Hres & Hae & Hsc).
    unfold process_char, run_arm. rewrite Hst.
    eexists. split; [reflexivity|].
    adv (start_token l (kq k)) (kq k).
    unfold in_start. rewrite Ac, As, Ar, Ae, Asc, Aty, Arow, Acol, Aeq.
    unfold start_token. proj. rewrite cur_op_quote.
    destruct k; cbn; repeat split; assumption.
  Qed.

  Lemma step_start_quote : forall k n r c l, in_start k n r c l ->
    exists l1, process_char l (kq k) = Ok (l1, None) /\ in_start k (S n) r c l1.
  Proof.
    intros k n r c l (Hst & Hcur & Hty & Heq & Hres & Hae & Hsc & Hr & Hc).
    assert (Harm : run_arm l (kq k) = Arm (push l (kq k)) None false).
    { unfold run_arm. rewrite Hst. destruct k; cbn [ksst kq]; unfold arm_start_list;
        cbn [N.eqb Pos.eqb negb andb]; reflexivity. }
    unfold process_char. rewrite Harm. eexists. split; [reflexivity|].
    adv (push l (kq k)) (kq k).
    unfold in_start. rewrite Ac, As, Ar, Ae, Asc, Aty, Arow, Acol, Aeq. proj.
    rewrite Hcur, repeat_snoc. repeat split; assumption.
  Qed.

  Lemma step_start_body : forall k n r c l x, in_start k n r c l -> x <> kq k -> n <> 2%nat ->
    exists l1, process_char l x = Ok (l1, None) /\ in_body k n 0 (repeat (kq k) n ++ [x]) r c l1.
  Proof.
    intros k n r c l x (Hst & Hcur & Hty & Heq & Hres & Hae & Hsc & Hr & Hc) Hx Hn.
    assert (Hbl : byte_len (cur l) = N.of_nat n) by (rewrite Hcur; apply byte_len_repeat, kq_ascii).
    assert (Harm : run_arm l x = Arm (push (set_st (set_sq l (N.of_nat n)) (kbst k)) x) None false).
    { unfold run_arm. rewrite Hst. apply N.eqb_neq in Hx.
      assert (H2 : (N.of_nat n =? 2) = false) by (apply N.eqb_neq; lia).
      destruct k; cbn [ksst kq kbst] in *; unfold arm_start_list, ch_dquote, ch_squote, ch_nul; rewrite Hx, Hbl, H2; cbn [negb];
        proj; rewrite Hae, andb_false_r; cbn [negb andb]; reflexivity. }
    unfold process_char. rewrite Harm. eexists. split; [reflexivity|].
    match goal with |- in_body _ _ _ _ _ _ (advance ?L ?X) => adv L X end.
    unfold in_body. rewrite Ac, As, Ar, Ae, Aty, Arow, Acol, Aeq, Asq. proj.
    rewrite Hcur. repeat split; assumption.
  Qed.

  Lemma step_body_char : forall k n e pre r c l x, in_body k n e pre r c l -> x <> kq k ->
    exists l1, process_char l x = Ok (l1, None) /\ in_body k n 0 (pre ++ [x]) r c l1.
  Proof.
    intros k n e pre r c l x (Hst & Hsq & Heq & Hcur & Hty & Hres & Hae & Hr & Hc) Hx.
    assert (Harm : run_arm l x = Arm (push (set_eq l 0) x) None false).
    { unfold run_arm. rewrite Hst. apply N.eqb_neq in Hx.
      destruct k; cbn [kbst kq] in *; unfold arm_list, ch_dquote, ch_squote; rewrite Hx; reflexivity. }
    unfold process_char. rewrite Harm. eexists. split; [reflexivity|].
    match goal with |- in_body _ _ _ _ _ _ (advance ?L ?X) => adv L X end.
    unfold in_body. rewrite Ac, As, Ar, Ae, Aty, Arow, Acol, Aeq, Asq. proj.
    rewrite Hcur. repeat split; assumption.
  Qed.

  Lemma step_body_quote : forall k n e pre r c l, in_body k n e pre r c l -> S e <> n ->
    exists l1, process_char l (kq k) = Ok (l1, None) /\ in_body k n (S e) (pre ++ [kq k]) r c l1.
  Proof.
    intros k n e pre r c l (Hst & Hsq & Heq & Hcur & Hty & Hres & Hae & Hr & Hc) Hne.
    assert (Harm : run_arm l (kq k) = Arm (push (set_eq l (eqc l + 1)) (kq k)) None false).
    { unfold run_arm. rewrite Hst.
      assert (H2 : (N.of_nat n =? N.of_nat e + 1) = false) by (apply N.eqb_neq; lia).
      destruct k; cbn [kbst kq] in *; unfold arm_list, ch_dquote, ch_squote; cbn [N.eqb Pos.eqb]; proj;
        rewrite Hsq, Heq, H2; reflexivity. }
    unfold process_char. rewrite Harm. eexists. split; [reflexivity|].
    match goal with |- in_body _ _ _ _ _ _ (advance ?L ?X) => adv L X end.
    unfold in_body. rewrite Ac, As, Ar, Ae, Aty, Arow, Acol, Aeq, Asq. proj.
    rewrite Hcur, Heq. repeat split; try assumption. lia.
  Qed.

  (* the closing rule: the quote that completes a run of n ends the literal *)
  Lemma step_body_close : forall k n e pre r c l, in_body k n e pre r c l -> S e = n ->
    exists l1, process_char l (kq k) = Ok (l1, Some (mkTok (pre ++ [kq k]) (kty k) r c)) /\ idle l1.
  Proof.
    intros k n e pre r c l (Hst & Hsq & Heq & Hcur & Hty & Hres & Hae & Hr & Hc) Hne.
    assert (Harm : run_arm l (kq k) =
                   Arm (set_should_create (push (set_eq l (eqc l + 1)) (kq k)) false) None true).
    { unfold run_arm. rewrite Hst.
      assert (H2 : (N.of_nat n =? N.of_nat e + 1) = true) by (apply N.eqb_eq; lia).
      destruct k; cbn [kbst kq] in *; unfold arm_list, ch_dquote, ch_squote; cbn [N.eqb Pos.eqb]; proj;
        rewrite Hsq, Heq, H2; reflexivity. }
    unfold process_char. rewrite Harm.
    unfold start_new_tail. proj. rewrite Hst, Hty, Hcur, Hr, Hc.
    assert (Hv : forall L, cur_ty L = Some (kty k) -> can_create_valid_token L = None).
    { intros L HL. unfold can_create_valid_token. rewrite HL. destruct k; reflexivity. }
    replace (lstate_eqb (kbst k) SNoToken) with false by (destruct k; reflexivity). cbn [negb].
    rewrite Hv by (proj; exact Hty). proj. cbn [negb].
    eexists. split; [reflexivity|].
    match goal with |- idle (advance ?L ?X) => adv L X end.
    unfold idle. rewrite As, Ar, Ae, Asc, Aeq. proj. repeat split; assumption.
  Qed.

  (* ------------------------------------------------------------------- runs *)
  Lemma loop_step : forall l x rest l1, process_char l x = Ok (l1, None) -> result l1 = None ->
    internal_next_loop l (x :: rest) = internal_next_loop l1 rest.
  Proof. intros l x rest l1 H Hr. cbn [Lexer.internal_next_loop]. rewrite H, Hr. reflexivity. Qed.

  Lemma loop_emit : forall l x rest l1 t, process_char l x = Ok (l1, Some t) ->
    internal_next_loop l (x :: rest) = Ok (l1, rest, Some t).
  Proof. intros l x rest l1 t H. cbn [Lexer.internal_next_loop]. rewrite H. reflexivity. Qed.

  Lemma open_run : forall k m n r c l rest, in_start k n r c l ->
    exists l1, internal_next_loop l (repeat (kq k) m ++ rest) = internal_next_loop l1 rest /\
               in_start k (n + m) r c l1.
  Proof.
    intros k m. induction m as [|m IH]; intros n r c l rest H.
    - exists l. rewrite Nat.add_0_r. split; [reflexivity | exact H].
    - destruct (step_start_quote k n r c l H) as (l1 & Hp & H1).
      destruct (IH (S n) r c l1 rest H1) as (l2 & Hrun & H2).
      exists l2. cbn [repeat app]. rewrite (loop_step _ _ _ _ Hp) by apply H1.
      split; [exact Hrun|]. replace (n + S m)%nat with (S n + m)%nat by lia. exact H2.
  Qed.

  Lemma body_run : forall k n body e pre r c l rest, in_body k n e pre r c l -> ~ In (kq k) body ->
    body <> [] ->
    exists l1, internal_next_loop l (body ++ rest) = internal_next_loop l1 rest /\
               in_body k n 0 (pre ++ body) r c l1.
  Proof.
    intros k n body. induction body as [|x body IH]; intros e pre r c l rest H Hni Hne; [congruence|].
    assert (Hx : x <> kq k) by (intros E; apply Hni; left; congruence).
    destruct (step_body_char k n e pre r c l x H Hx) as (l1 & Hp & H1).
    cbn [app]. rewrite (loop_step _ _ _ _ Hp) by apply H1.
    destruct body as [|y body].
    - exists l1. split; [reflexivity | exact H1].
    - destruct (IH 0%nat (pre ++ [x]) r c l1 rest H1) as (l2 & Hrun & H2).
      + intros Hin. apply Hni. right. exact Hin.
      + discriminate.
      + exists l2. split; [exact Hrun|]. rewrite <- app_assoc in H2. exact H2.
  Qed.

  Lemma close_run : forall k j n e pre r c l rest, in_body k n e pre r c l -> (e + S j = n)%nat ->
    exists l1, internal_next_loop l (repeat (kq k) (S j) ++ rest) =
               Ok (l1, rest, Some (mkTok (pre ++ repeat (kq k) (S j)) (kty k) r c)) /\ idle l1.
  Proof.
    intros k j. induction j as [|j IH]; intros n e pre r c l rest H Hn.
    - destruct (step_body_close k n e pre r c l H ltac:(lia)) as (l1 & Hp & H1).
      exists l1. split; [|exact H1]. cbn [repeat app]. apply loop_emit. exact Hp.
    - destruct (step_body_quote k n e pre r c l H ltac:(lia)) as (l1 & Hp & H1).
      destruct (IH n (S e) (pre ++ [kq k]) r c l1 rest H1 ltac:(lia)) as (l2 & Hrun & H2).
      exists l2. split; [|exact H2].
      change (repeat (kq k) (S (S j)) ++ rest) with (kq k :: (repeat (kq k) (S j) ++ rest)).
      rewrite (loop_step _ _ _ _ Hp) by apply H1. rewrite Hrun.
      rewrite <- app_assoc. reflexivity.
  Qed.

  (* a literal with a non-empty quote-free body between n quotes (n = 1 or n >= 3),
     followed by ANY input: the first next() returns the literal, consumes exactly
     it, and leaves the lexer between tokens *)
  Theorem literal_first_token : forall k n body rest l, idle l -> (1 <= n)%nat -> n <> 2%nat ->
    body <> [] -> ~ In (kq k) body ->
    exists l1,
      internal_next_loop l (repeat (kq k) n ++ body ++ repeat (kq k) n ++ rest) =
      Ok (l1, rest, Some (mkTok (repeat (kq k) n ++ body ++ repeat (kq k) n) (kty k) (text_row l) (text_col l))) /\
      idle l1.
  Proof.
    intros k n body rest l Hidle Hn1 Hn2 Hne Hni.
    destruct n as [|n]; [lia|].
    destruct body as [|x body]; [congruence|].
    assert (Hx : x <> kq k) by (intros E; apply Hni; left; congruence).
    destruct (step_first k l Hidle) as (l1 & Hp1 & H1).
    cbn [repeat app]. rewrite (loop_step _ _ _ _ Hp1) by apply H1.
    destruct (open_run k n 1 _ _ l1 (x :: body ++ kq k :: repeat (kq k) n ++ rest) H1) as (l2 & Hr2 & H2).
    rewrite Hr2. cbn [Nat.add] in H2.
    destruct (step_start_body k (S n) _ _ l2 x H2 Hx Hn2) as (l3 & Hp3 & H3).
    rewrite (loop_step _ _ _ _ Hp3) by apply H3.
    assert (Hclose : forall pre l4, in_body k (S n) 0 pre (text_row l) (text_col l) l4 ->
              exists l5, internal_next_loop l4 (kq k :: repeat (kq k) n ++ rest) =
                         Ok (l5, rest, Some (mkTok (pre ++ repeat (kq k) (S n)) (kty k) (text_row l) (text_col l))) /\ idle l5).
    { intros pre l4 H4. apply (close_run k n (S n) 0%nat pre _ _ l4 rest H4). lia. }
    destruct body as [|y body].
    - destruct (Hclose _ l3 H3) as (l5 & Hr5 & H5). exists l5. split; [|exact H5].
      cbn [app]. rewrite Hr5. cbn [repeat app]. rewrite <- app_assoc. reflexivity.
    - destruct (body_run k (S n) (y :: body) 0%nat _ _ _ l3 (kq k :: repeat (kq k) n ++ rest) H3) as (l4 & Hr4 & H4).
      + intros Hin. apply Hni. right. exact Hin.
      + discriminate.
      + destruct (Hclose _ l4 H4) as (l5 & Hr5 & H5). exists l5. split; [|exact H5].
        change ((y :: body) ++ kq k :: repeat (kq k) n ++ rest) with ((y :: body) ++ (kq k :: repeat (kq k) n ++ rest)) in *.
        rewrite Hr4, Hr5. cbn [repeat app]. rewrite <- !app_assoc. reflexivity.
  Qed.

  (* the empty literal: exactly two quotes, then a non-quote character [x] (which
     the lexer has then already used to start the next token) *)
  Lemma step_start_fin : forall k r c l x, in_start k 2 r c l -> x <> kq k ->
    exists l1, process_char l x = Ok (l1, Some (mkTok [kq k; kq k] (kty k) r c)).
  Proof.
    intros k r c l x (Hst & Hcur & Hty & Heq & Hres & Hae & Hsc & Hr & Hc) Hx.
    assert (Hbl : byte_len (cur l) = 2) by (rewrite Hcur; destruct k; reflexivity).
    assert (Harm : run_arm l x = Arm l None true).
    { unfold run_arm. rewrite Hst. apply N.eqb_neq in Hx.
      destruct k; cbn [ksst kq kbst] in *; unfold arm_start_list, ch_dquote, ch_squote, ch_nul;
        rewrite Hx, Hbl; cbn [negb N.eqb Pos.eqb andb]; reflexivity. }
    unfold process_char. rewrite Harm.
    unfold start_new_tail. proj. rewrite Hst, Hty, Hcur, Hr, Hc.
    assert (Hv : forall L, cur_ty L = Some (kty k) -> can_create_valid_token L = None).
    { intros L HL. unfold can_create_valid_token. rewrite HL. destruct k; reflexivity. }
    replace (lstate_eqb (ksst k) SNoToken) with false by (destruct k; reflexivity). cbn [negb].
    rewrite Hv by (proj; exact Hty). proj. rewrite Hsc.
    eexists. cbn [repeat]. reflexivity.
  Qed.

  Theorem empty_literal_first_token : forall k x rest l, idle l -> x <> kq k ->
    exists l1, internal_next_loop l (kq k :: kq k :: x :: rest) =
               Ok (l1, rest, Some (mkTok [kq k; kq k] (kty k) (text_row l) (text_col l))).
  Proof.
    intros k x rest l Hidle Hx.
    destruct (step_first k l Hidle) as (l1 & Hp1 & H1).
    rewrite (loop_step _ _ _ _ Hp1) by apply H1.
    destruct (step_start_quote k 1 _ _ l1 H1) as (l2 & Hp2 & H2).
    rewrite (loop_step _ _ _ _ Hp2) by apply H2.
    destruct (step_start_fin k _ _ l2 x H2 Hx) as (l3 & Hp3).
    exists l3. apply loop_emit. exact Hp3.
  Qed.

  (* ------------------------------------------------------------- whole inputs *)
  (* between tokens with nothing left: the next next() is the final None *)
  Lemma lex_loop_idle_end : forall f l acc, st l = SNoToken -> result l = None ->
    lex_loop (S f) l [] acc = LOk acc.
  Proof.
    intros f l acc Hst Hres. cbn [Lexer.lex_loop]. unfold Lexer.internal_next. rewrite Hres. cbn [is_err].
    cbn [Lexer.internal_next_loop].
    assert (Hpc : process_char (set_at_end l true) ch_nul =
                  Ok (advance (start_token (set_at_end l true) 0) 0, None)).
    { unfold Lexer.process_char, Lexer.run_arm. cbn [st set_at_end]. rewrite Hst. reflexivity. }
    rewrite Hpc.
    destruct (LexInv.start_token_sentinel un ua (set_at_end l true) eq_refl) as (E1 & E2 & E3).
    adv (start_token (set_at_end l true) 0) 0.
    rewrite Ac, E1. cbn [byte_len N.ltb N.compare andb]. rewrite Ar, E3. cbn [result set_at_end].
    rewrite Hres. reflexivity.
  Qed.

  Lemma lex_loop_acc_prefix : forall f l s acc ts, lex_loop f l s acc = LOk ts -> exists ts', ts = acc ++ ts'.
  Proof.
    induction f as [|f IH]; intros l s acc ts H; [discriminate|].
    cbn [Lexer.lex_loop] in H.
    destruct (internal_next l s) as [[[l1 s1] [t|]]| | |]; try discriminate.
    - destruct (result l1); [discriminate|]. apply IH in H as (ts' & ->).
      exists (t :: ts'). rewrite <- app_assoc. reflexivity.
    - destruct (result l1); [discriminate|]. inversion H; subst. exists []. rewrite app_nil_r. reflexivity.
  Qed.

  Lemma lex_loop_step_tok : forall f l s acc l1 s1 t, internal_next l s = Ok (l1, s1, Some t) ->
    result l1 = None -> lex_loop (S f) l s acc = lex_loop f l1 s1 (acc ++ [t]).
  Proof. intros f l s acc l1 s1 t H Hr. cbn [Lexer.lex_loop]. rewrite H, Hr. reflexivity. Qed.

  Lemma internal_next_init : forall s, internal_next init_lexer s = internal_next_loop init_lexer s.
  Proof. reflexivity. Qed.

  Definition literal_text (k : kind) (n : nat) (body : list N) : list N :=
    repeat (kq k) n ++ body ++ repeat (kq k) n.

  (* the literal alone: exactly one token, its text is the whole input *)
  Theorem lex_literal : forall k n body, (1 <= n)%nat -> n <> 2%nat -> body <> [] -> ~ In (kq k) body ->
    lex (literal_text k n body) = Ok [mkTok (literal_text k n body) (kty k) 0 0].
  Proof.
    intros k n body Hn1 Hn2 Hne Hni.
    destruct (literal_first_token k n body [] init_lexer idle_init Hn1 Hn2 Hne Hni) as (l1 & Hrun & H1).
    rewrite !app_nil_r in Hrun. fold (literal_text k n body) in Hrun. cbn [text_row text_col init_lexer] in Hrun.
    destruct H1 as (Hst & _ & Hres & _).
    unfold Lexer.lex, Lexer.lex_run, lex_fuel.
    rewrite (lex_loop_step_tok _ _ _ _ _ _ _ (eq_trans (internal_next_init _) Hrun) Hres).
    rewrite lex_loop_idle_end by assumption. reflexivity.
  Qed.

  (* the literal followed by anything: whenever the whole input lexes, its first
     token is the literal and the remaining tokens spell exactly the rest *)
  Theorem lex_literal_then : forall k n body rest ts, (1 <= n)%nat -> n <> 2%nat -> body <> [] ->
    ~ In (kq k) body -> lex (literal_text k n body ++ rest) = Ok ts ->
    exists ts', ts = mkTok (literal_text k n body) (kty k) 0 0 :: ts'.
  Proof.
    intros k n body rest ts Hn1 Hn2 Hne Hni Hlex.
    destruct (literal_first_token k n body rest init_lexer idle_init Hn1 Hn2 Hne Hni) as (l1 & Hrun & H1).
    cbn [text_row text_col init_lexer] in Hrun.
    destruct H1 as (Hst & _ & Hres & _).
    unfold Lexer.lex, Lexer.lex_run, lex_fuel in Hlex.
    unfold literal_text in Hlex. rewrite <- !app_assoc in Hlex.
    rewrite (lex_loop_step_tok _ _ _ _ _ _ _ (eq_trans (internal_next_init _) Hrun) Hres) in Hlex.
    match type of Hlex with match ?X with _ => _ end = _ => destruct X as [ts0| | |] eqn:E; try discriminate end.
    inversion Hlex; subst ts0. apply lex_loop_acc_prefix in E as (ts' & ->).
    exists ts'. unfold literal_text. rewrite <- !app_assoc. reflexivity.
  Qed.

  Theorem lex_empty_literal : forall k, lex [kq k; kq k] = Ok [mkTok [kq k; kq k] (kty k) 0 0].
  Proof. destruct k; vm_compute; reflexivity. Qed.

  (* ---------------------------------------------------------------- strings *)
  Lemma render_string_no_quote : forall s, ~ In 34 (render_citems (map citem_of_char s)).
  Proof.
    intros s H. unfold render_citems in H. apply in_flat_map in H as (i & Hi & Hx).
    apply in_map_iff in Hi as (c & <- & _). unfold citem_of_char in Hx.
    repeat break_if_in Hx; cbn in Hx;
      repeat match goal with H : (_ =? _) = false |- _ => apply N.eqb_neq in H end;
      intuition (try discriminate; try congruence).
  Qed.

  Lemma render_string_nonempty : forall s, s <> [] -> render_citems (map citem_of_char s) <> [].
  Proof.
    intros [|c s] H; [congruence|]. unfold render_citems. cbn [map flat_map].
    destruct (citem_of_char c); cbn; discriminate.
  Qed.

  Lemma spell_string_literal : forall q s,
    spell_string q s = literal_text KChar (N.to_nat q) (render_citems (map citem_of_char s)).
  Proof. reflexivity. Qed.

  Theorem lex_string : forall q s, (q = 1 \/ 3 <= q) -> s <> [] ->
    lex (spell_string q s) = Ok [mkTok (spell_string q s) TT_CharList 0 0].
  Proof.
    intros q s Hq Hs. rewrite spell_string_literal.
    apply (lex_literal KChar); [lia | lia | apply render_string_nonempty; exact Hs | apply render_string_no_quote].
  Qed.

  Theorem lex_string_empty : lex (spell_string 1 []) = Ok [mkTok (spell_string 1 []) TT_CharList 0 0].
  Proof. exact (lex_empty_literal KChar). Qed.

  Theorem lex_string_full : forall q s, q = 1 \/ (3 <= q /\ s <> []) ->
    lex (spell_string q s) = Ok [mkTok (spell_string q s) TT_CharList 0 0].
  Proof.
    intros q s [->|[Hq Hs]].
    - destruct s as [|c s]; [apply lex_string_empty | apply lex_string; [left; reflexivity | discriminate]].
    - apply lex_string; [right; exact Hq | exact Hs].
  Qed.

  (* lexer, then the literal parser on the token's text: the identity on strings *)
  Theorem string_end_to_end : forall pf q s, q = 1 \/ (3 <= q /\ s <> []) ->
    exists t, lex (spell_string q s) = Ok [t] /\ tok_type t = TT_CharList /\ tok_row t = 0 /\ tok_col t = 0 /\
              GV.Model.Literals.parse_char_list pf (tok_text t) = Ok s.
  Proof.
    intros pf q s H. eexists. split; [apply lex_string_full; exact H|]. cbn [tok_type tok_row tok_col tok_text].
    repeat split. apply GV.Proofs.C14.CharList.string_roundtrip.
  Qed.

  Theorem lex_string_then : forall q s rest ts, (q = 1 \/ 3 <= q) -> s <> [] ->
    lex (spell_string q s ++ rest) = Ok ts ->
    exists ts', ts = mkTok (spell_string q s) TT_CharList 0 0 :: ts'.
  Proof.
    intros q s rest ts Hq Hs. rewrite spell_string_literal.
    apply (lex_literal_then KChar); [lia | lia | apply render_string_nonempty; exact Hs | apply render_string_no_quote].
  Qed.

  Theorem next_string_then : forall q s rest, (q = 1 \/ 3 <= q) -> s <> [] ->
    exists l1, internal_next init_lexer (spell_string q s ++ rest) =
               Ok (l1, rest, Some (mkTok (spell_string q s) TT_CharList 0 0)) /\ idle l1.
  Proof.
    intros q s rest Hq Hs. rewrite spell_string_literal.
    destruct (literal_first_token KChar (N.to_nat q) _ rest init_lexer idle_init ltac:(lia) ltac:(lia)
                (render_string_nonempty s Hs) (render_string_no_quote s)) as (l1 & Hrun & H1).
    exists l1. split; [|exact H1]. unfold Lexer.internal_next. cbn [result init_lexer is_err].
    unfold literal_text. rewrite <- !app_assoc. exact Hrun.
  Qed.

  (* the quote forms the lexer does not accept as one token *)
  Lemma lex_string_two_quotes_refuted :
    lex (spell_string 2 [97]) =
    Ok [mkTok [34; 34] TT_CharList 0 0; mkTok [97] TT_Identifier 0 2; mkTok [34; 34] TT_CharList 0 3].
  Proof. vm_compute. reflexivity. Qed.

  Lemma lex_string_empty_triple_refuted : lex (spell_string 3 []) = Err E_Unterminated.
  Proof. vm_compute. reflexivity. Qed.
End Lit.
