(* C18 (b) continued: round brackets around ONE OPERAND deep inside an operator
   expression -- a value token, or an already bracketed group -- change the tree only by
   group nodes.  Shown on the spine machine (Spec.Chains), which is a left-to-right
   automaton: the two runs stay similar (same frames up to group nodes / node and token
   indices) before, inside and after the wrapped operand. *)
From Coq Require Import List Arith Bool NArith Lia.
From GV Require Import Base.Result Gen.TokenTypes Gen.Defs Model.Parser Spec.RefTable Spec.Pratt Spec.Chains
  Spec.Layout
  Proofs.C02.Spine Proofs.C02.Denote Proofs.C02.Chains Proofs.C02.OpExpr Proofs.C02.Full Proofs.C18.ViaPratt.
Import ListNotations.

(* ---- similarity of machine states: trees up to group nodes and indices ---- *)
Definition sg (t : ntree) : gtree := strip_groups (gt t).

Lemma gt_node t : exists d l r, gt t = GN d l r.
Proof. destruct t; simpl; eauto. Qed.

Definition fsim (f f' : frame) : Prop :=
  match f, f' with
  | FBin _ d _ l, FBin _ d' _ l' => d = d' /\ sg l = sg l'
  | FPre _ d _, FPre _ d' _ => d = d'
  | FGroup b _ _, FGroup b' _ _ => b = b'
  | _, _ => False
  end.

Definition osim (a a' : option ntree) : Prop :=
  match a, a' with
  | None, None => True
  | Some t, Some t' => sg t = sg t'
  | _, _ => False
  end.

Definition ssim (s s' : spine_state) : Prop := Forall2 fsim (fst s) (fst s') /\ osim (snd s) (snd s').

Lemma fsim_def f f' : fsim f f' -> frame_def f = frame_def f' /\ is_fgroup f = is_fgroup f'.
Proof.
  destruct f, f'; simpl; try tauto; intros H; split; try reflexivity; try apply H; try exact H.
  subst; reflexivity.
Qed.

Lemma fsim_stays d f f' : fsim f f' -> stays_below d f = stays_below d f'.
Proof.
  destruct f as [i d0 k l|i d0 k|b i k], f' as [i' d' k' l'|i' d' k'|b' i' k']; simpl; try tauto; unfold stays_below; simpl.
  - intros [-> _]. reflexivity.
  - intros ->. reflexivity.
Qed.

Lemma strip_pre d g g' : strip_groups g = strip_groups g' ->
  strip_groups (GN d GLeaf g) = strip_groups (GN d GLeaf g').
Proof. intros H. destruct d; cbn [strip_groups]; rewrite ?H; reflexivity. Qed.

Lemma strip_bin d l l' r r' : (exists a b c, l = GN a b c) -> (exists a b c, l' = GN a b c) ->
  strip_groups l = strip_groups l' -> strip_groups r = strip_groups r' ->
  strip_groups (GN d l r) = strip_groups (GN d l' r').
Proof.
  intros (a & b & c & ->) (a' & b' & c' & ->) Hl Hr.
  destruct d; cbn [strip_groups] in *; rewrite ?Hl, ?Hr; try reflexivity;
    change (strip_groups (GN a b c)) with (strip_groups (GN a b c)) in *; congruence.
Qed.

Lemma plug_sim f f' t t' : fsim f f' -> sg t = sg t' -> sg (plug f t) = sg (plug f' t').
Proof.
  unfold sg. destruct f as [i d k l|i d k|b i k], f' as [i' d' k' l'|i' d' k'|b' i' k']; simpl; try tauto.
  - intros [-> Hl] Ht. apply strip_bin; auto; apply gt_node.
  - intros -> Ht. apply strip_pre. exact Ht.
  - intros -> Ht. apply strip_pre. exact Ht.
Qed.

Lemma pop_sim d : forall fs fs' t t' fs1 t1,
  Forall2 fsim fs fs' -> sg t = sg t' -> pop d fs t = (fs1, t1) ->
  exists fs1' t1', pop d fs' t' = (fs1', t1') /\ Forall2 fsim fs1 fs1' /\ sg t1 = sg t1'.
Proof.
  induction fs as [|f r IH]; intros fs' t t' fs1 t1 HF Ht H; inversion HF as [|? f' ? r' Hf HF']; subst; cbn [pop] in *.
  - injection H as <- <-. exists [], t'. repeat split; auto.
  - rewrite <- (fsim_stays d f f' Hf). destruct (stays_below d f).
    + injection H as <- <-. exists (f' :: r'), t'. repeat split; auto.
    + eapply IH; [exact HF'| |exact H]. apply plug_sim; assumption.
Qed.

Lemma close_group_sim bc : forall fs fs' t t' fs1 t1,
  Forall2 fsim fs fs' -> sg t = sg t' -> close_group bc fs t = Some (fs1, t1) ->
  exists fs1' t1', close_group bc fs' t' = Some (fs1', t1') /\ Forall2 fsim fs1 fs1' /\ sg t1 = sg t1'.
Proof.
  induction fs as [|f r IH]; intros fs' t t' fs1 t1 HF Ht H; [discriminate|].
  inversion HF as [|? f' ? r' Hf HF']; subst.
  destruct f as [i d k l|i d k|b i k], f' as [i' d' k' l'|i' d' k'|b' i' k']; simpl in Hf; try contradiction;
    cbn [close_group] in *.
  - eapply IH; [exact HF'| |exact H]. apply (plug_sim (FBin i d k l) (FBin i' d' k' l')); [exact Hf|exact Ht].
  - eapply IH; [exact HF'| |exact H]. apply (plug_sim (FPre i d k) (FPre i' d' k')); [exact Hf|exact Ht].
  - subst b'. destruct (bkind_eqb b bc); [|discriminate H]. injection H as <- <-. exists r', (NGroup b i' k' t').
    split; [reflexivity|]. split; [exact HF'|]. unfold sg in *. cbn [gt]. apply strip_pre. exact Ht.
Qed.

Lemma atom_store_sim d fs fs' : Forall2 fsim fs fs' -> atom_store d fs = atom_store d fs'.
Proof.
  intros H. unfold atom_store. destruct (definition_eqb d D_Identifier); [|reflexivity].
  inversion H as [|f f' r r' Hf _]; subst; [reflexivity|]. rewrite (proj1 (fsim_def _ _ Hf)). reflexivity.
Qed.

Lemma sep_blocked_sim d fs fs' : Forall2 fsim fs fs' -> sep_blocked d fs = sep_blocked d fs'.
Proof.
  intros H. unfold sep_blocked. f_equal. inversion H as [|f f' r r' Hf _]; subst; [reflexivity|].
  destruct f as [? ? ? ?|? ? ?|b ? ?], f' as [? ? ? ?|? ? ?|b' ? ?]; simpl in Hf; try contradiction; try reflexivity.
  subst. reflexivity.
Qed.

Lemma step_sim it it' n n' st st' st1 :
  untok_item it = untok_item it' -> ssim st st' -> spine_step it n st = Some st1 ->
  exists st1', spine_step it' n' st' = Some st1' /\ ssim st1 st1'.
Proof.
  intros Hu [HF Ho] H. destruct st as [fs acc], st' as [fs' acc']. cbn [fst snd] in *.
  destruct it as [d k|d k|d k|d k|b k|b k], it' as [d' k'|d' k'|d' k'|d' k'|b' k'|b' k']; try discriminate Hu;
    cbn [untok_item] in Hu; try (injection Hu as <-); try (injection Hu as <- _);
    destruct acc as [t|], acc' as [t'|]; simpl in Ho; try contradiction; cbn [spine_step] in *; try discriminate H.
  - injection H as <-. eexists. split; [reflexivity|]. split; [exact HF|]. cbn [snd osim].
    rewrite (atom_store_sim d fs fs' HF). reflexivity.
  - destruct (ref_rank d); [|discriminate H]. injection H as <-. eexists. split; [reflexivity|].
    split; [constructor; [reflexivity|exact HF]|exact I].
  - destruct (ref_rank d); [|discriminate H]. destruct (pop d fs t) as [fs1 t1] eqn:Ep. injection H as <-.
    destruct (pop_sim d _ _ _ _ _ _ HF Ho Ep) as (fs1' & t1' & Ep' & HF1 & Ht1). rewrite Ep'.
    eexists. split; [reflexivity|]. split; [exact HF1|]. cbn [snd osim]. unfold sg in *. cbn [gt].
    apply strip_bin; auto; apply gt_node.
  - destruct (ref_rank d); [|discriminate H]. destruct (pop d fs t) as [fs1 t1] eqn:Ep.
    destruct (sep_blocked d fs1) eqn:Esb; [discriminate H|]. injection H as <-.
    destruct (pop_sim d _ _ _ _ _ _ HF Ho Ep) as (fs1' & t1' & Ep' & HF1 & Ht1). rewrite Ep'.
    rewrite <- (sep_blocked_sim d _ _ HF1), Esb.
    eexists. split; [reflexivity|]. split; [|exact I]. constructor; [split; [reflexivity|exact Ht1]|exact HF1].
  - injection H as <-. eexists. split; [reflexivity|]. split; [constructor; [reflexivity|exact HF]|exact I].
  - destruct (close_group b fs t) as [[fs1 t1]|] eqn:Ec; [|discriminate H]. injection H as <-.
    destruct (close_group_sim _ _ _ _ _ _ _ HF Ho Ec) as (fs1' & t1' & Ec' & HF1 & Ht1). rewrite Ec'.
    eexists. split; [reflexivity|]. split; [exact HF1|exact Ht1].
Qed.

Lemma run_sim : forall its its' n n' st st' st1,
  map untok_item its = map untok_item its' -> ssim st st' -> spine_run its n st = Some st1 ->
  exists st1', spine_run its' n' st' = Some st1' /\ ssim st1 st1'.
Proof.
  induction its as [|it r IH]; intros its' n n' st st' st1 Hu Hs H.
  - destruct its'; [|discriminate Hu]. injection H as <-. exists st'. split; [reflexivity|exact Hs].
  - destruct its' as [|it' r']; [discriminate Hu|]. cbn [map] in Hu. injection Hu as Hu1 Hu2.
    cbn [spine_run] in *. destruct (spine_step it n st) as [st2|] eqn:Es; [|discriminate H].
    destruct (step_sim it it' n n' st st' st2 Hu1 Hs Es) as (st2' & Es' & Hs2). rewrite Es'.
    eapply IH; eauto.
Qed.

Lemma spine_run_app : forall a b n st,
  spine_run (a ++ b) n st =
  match spine_run a n st with
  | Some st' => spine_run b (fold_left (fun m it => next_index it m) a n) st'
  | None => None
  end.
Proof.
  induction a as [|it r IH]; intros b n st; [reflexivity|]. cbn [app spine_run fold_left].
  destruct (spine_step it n st); [apply IH|reflexivity].
Qed.

Lemma close_sim : forall fs fs' t t', Forall2 fsim fs fs' -> sg t = sg t' -> sg (close fs t) = sg (close fs' t').
Proof.
  induction fs as [|f r IH]; intros fs' t t' HF Ht; inversion HF as [|? f' ? r' Hf HF']; subst; [exact Ht|].
  cbn [close]. apply IH; [exact HF'|]. apply plug_sim; assumption.
Qed.

Lemma fsim_groups fs fs' : Forall2 fsim fs fs' -> existsb is_fgroup fs = existsb is_fgroup fs'.
Proof.
  induction 1 as [|f f' r r' Hf _ IH]; [reflexivity|]. cbn [existsb]. rewrite IH, (proj2 (fsim_def _ _ Hf)). reflexivity.
Qed.

(* similar final states: both insertions are defined, with trees equal up to groups *)
Lemma insert_sim its its' T st :
  spine_run its 0 ([], None) = Some st -> spine_insert its = Some T ->
  forall st', spine_run its' 0 ([], None) = Some st' -> ssim st st' ->
  exists T', spine_insert its' = Some T' /\ sg T' = sg T.
Proof.
  intros Hr Hi st' Hr' [HF Ho]. unfold spine_insert in *. rewrite Hr in Hi. rewrite Hr'.
  destruct st as [fs [t|]], st' as [fs' [t'|]]; cbn [fst snd] in *; simpl in Ho; try contradiction; try discriminate Hi.
  rewrite <- (fsim_groups _ _ HF). destruct (existsb is_fgroup fs); [discriminate Hi|]. injection Hi as <-.
  eexists. split; [reflexivity|]. symmetry. apply close_sim; assumption.
Qed.

Lemma fsim_refl f : fsim f f.
Proof. destruct f; simpl; auto. Qed.
Lemma fsims_refl fs : Forall2 fsim fs fs.
Proof. induction fs; constructor; auto using fsim_refl. Qed.

(* ---- items of a concatenation ---- *)
Fixpoint end_state (prev : option tok_kind) (sp : bool) (l : list token_type) : option tok_kind * bool :=
  match l with
  | [] => (prev, sp)
  | t :: r => match ref_kind t with
              | KSpace => end_state prev true r
              | k => end_state (Some k) false r
              end
  end.

Lemma items_of_app : forall a b i prev sp,
  items_of (a ++ b) i prev sp =
  match items_of a i prev sp with
  | Some ia => option_map (app ia) (items_of b (i + length a) (fst (end_state prev sp a)) (snd (end_state prev sp a)))
  | None => None
  end.
Proof.
  induction a as [|t r IH]; intros b i prev sp.
  - cbn [app items_of length end_state fst snd]. rewrite Nat.add_0_r. destruct (items_of b i prev sp); reflexivity.
  - cbn [app items_of length end_state]. replace (i + S (length r)) with (S i + length r) by lia.
    destruct (ref_kind t) eqn:Ek; try reflexivity; try apply IH;
      (rewrite IH; destruct (items_of r (S i) _ false) as [ia|]; [|reflexivity];
       destruct (items_of b _ _ _) as [ib|]; [|reflexivity]; cbn [option_map]; rewrite <- app_assoc; reflexivity).
Qed.

Lemma items_of_prev_ends : forall l i j p p' sp, ends_value_k p = ends_value_k p' ->
  oitems (items_of l i (Some p) sp) = oitems (items_of l j (Some p') sp).
Proof.
  induction l as [|t r IH]; intros i j p p' sp H; [reflexivity|]. cbn [items_of].
  destruct (ref_kind t) eqn:Ek; try reflexivity; try (apply IH; exact H);
    (rewrite H; pose proof (items_of_index r (S i) (S j) (Some (ref_kind t)) false) as E; rewrite Ek in E;
     destruct (items_of r (S i) _ false) as [ra|]; destruct (items_of r (S j) _ false) as [rb|];
     cbn [oitems option_map] in E |- *; try discriminate E; [|reflexivity];
     injection E as E; rewrite !map_app; cbn [map untok_item]; rewrite E; reflexivity).
Qed.

Definition lead_of (p : option tok_kind) (sp : bool) : list item :=
  match p with Some a => if sp && ends_value_k a then [IBinary D_List None] else [] | None => [] end.

(* the items around a value token and around the same token in brackets *)
Lemma items_wrap_value pre v post its :
  ref_kind v = KValue -> items_of (pre ++ v :: post) 0 None false = Some its ->
  exists A B B',
    items_of pre 0 None false = Some A /\
    its = (A ++ lead_of (fst (end_state None false pre)) (snd (end_state None false pre)))
          ++ IValue (ref_def v) (length pre) :: B /\
    items_of (pre ++ TT_StartGroup :: v :: TT_EndGroup :: post) 0 None false
    = Some ((A ++ lead_of (fst (end_state None false pre)) (snd (end_state None false pre)))
            ++ IOpen BRound (length pre) :: IValue (ref_def v) (S (length pre)) :: IClose BRound (S (S (length pre))) :: B') /\
    map untok_item B = map untok_item B'.
Proof.
  intros Hv H. rewrite items_of_app in H. rewrite items_of_app.
  destruct (items_of pre 0 None false) as [A|]; [|discriminate H].
  destruct (end_state None false pre) as [p s]. cbn [fst snd plus] in *.
  cbn [items_of] in H |- *. rewrite Hv in H. cbn [ref_kind] in *. rewrite Hv.
  pose proof (items_of_prev_ends post (S (length pre)) (S (S (S (length pre)))) KValue (KClose BRound) false eq_refl) as E.
  destruct (items_of post (S (length pre)) (Some KValue) false) as [B|]; [|destruct p; discriminate H].
  destruct (items_of post (S (S (S (length pre)))) (Some (KClose BRound)) false) as [B'|]; [|discriminate E].
  cbn [oitems option_map] in E. injection E as E.
  exists A, B, B'. split; [reflexivity|].
  assert (Hl : match p with
               | Some p0 => if s && ends_value_k p0 && starts_value_k KValue then [IBinary D_List None] else []
               | None => [] end = lead_of p s).
  { destruct p as [a|]; [|reflexivity]. cbn [lead_of starts_value_k]. rewrite andb_true_r. reflexivity. }
  assert (Hl' : match p with
               | Some p0 => if s && ends_value_k p0 && starts_value_k (KOpen BRound) then [IBinary D_List None] else []
               | None => [] end = lead_of p s).
  { destruct p as [a|]; [|reflexivity]. cbn [lead_of starts_value_k]. rewrite andb_true_r. reflexivity. }
  rewrite Hl in H. rewrite Hl'. cbn [option_map] in H |- *. injection H as <-.
  cbn [andb app].
  split; [rewrite <- app_assoc; reflexivity|]. split; [|exact E].
  f_equal. rewrite <- app_assoc. reflexivity.
Qed.

(* ---- the machine runs on the items of the whole (untrimmed) token list ---- *)
Lemma items_trimmed toks its : items_of toks 0 None false = Some its ->
  exists its0, items_of (snd (trim_tokens toks)) 0 None false = Some its0 /\
               its = map (shift_item (fst (trim_tokens toks))) its0.
Proof.
  intros Hits. pose proof (items_of_fragment _ _ _ _ _ Hits) as Hfrag.
  set (l1 := drop_while_trim toks). set (a := length toks - length l1). set (mid := strip_back l1).
  assert (Htrim : trim_tokens toks = (a, mid)) by reflexivity. rewrite Htrim. cbn [fst snd].
  pose proof (drop_while_trim_fragment _ Hfrag) as Hfrag1. fold l1 in Hfrag1.
  assert (Hmid : items_of mid a None false = Some its).
  { unfold mid. rewrite (items_of_strip_back l1 a None false Hfrag1).
    rewrite (items_of_drop_front toks 0 false Hfrag) in Hits. exact Hits. }
  pose proof (items_of_shift a mid 0 None false) as Es. cbn [plus] in Es. rewrite Es in Hmid.
  destruct (items_of mid 0 None false) as [its0|]; [|discriminate Hmid].
  cbn [option_map] in Hmid. injection Hmid as <-. exists its0. split; reflexivity.
Qed.

Lemma untok_shift a it : untok_item (shift_item a it) = untok_item it.
Proof. destruct it as [d k|d k|d k|d [k|]|k|k]; reflexivity. Qed.

Lemma pratt_machine toks T : pratt toks = Some T ->
  exists its st T1, items_of toks 0 None false = Some its /\
                    spine_run its 0 ([], None) = Some st /\ spine_insert its = Some T1 /\
                    strip_groups (rg false T) = sg T1.
Proof.
  intros Hpr. destruct (pratt_parse toks T Hpr) as (Tn & ns & its0 & Hits0 & _ & Hins & _ & _ & _ & _ & _ & ->).
  assert (exists its, items_of toks 0 None false = Some its) as [its Hits].
  { unfold pratt in Hpr. destruct (items_of toks 0 None false) as [x|]; [eauto|discriminate]. }
  destruct (items_trimmed toks its Hits) as (its0' & H0 & ->). rewrite Hits0 in H0. injection H0 as <-.
  assert (Hu : map untok_item its0 = map untok_item (map (shift_item (fst (trim_tokens toks))) its0)).
  { rewrite map_map. apply map_ext. intros it. symmetry. apply untok_shift. }
  assert (exists st0, spine_run its0 0 ([], None) = Some st0) as [st0 Hr0].
  { unfold spine_insert in Hins. destruct (spine_run its0 0 ([], None)) as [x|]; [eauto|discriminate]. }
  destruct (run_sim its0 _ 0 0 ([], None) ([], None) st0 Hu (conj (Forall2_nil _) I) Hr0) as (st & Hr & Hs).
  destruct (insert_sim its0 _ Tn st0 Hr0 Hins st Hr Hs) as (T1 & Hi1 & Hsg).
  exists (map (shift_item (fst (trim_tokens toks))) its0), st, T1. split; [exact Hits|]. split; [exact Hr|]. split; [exact Hi1|].
  rewrite rg_shift, Hsg. unfold sg. f_equal. symmetry. apply gt_rg.
  eapply spine_insert_wfd; [|exact Hins]. eapply items_of_sane; exact Hits0.
Qed.

(* the items of a token list are ranked (finite check over the token table) *)
Definition tok_ranked (t : token_type) : bool :=
  match ref_kind t with
  | KBinary => match ref_rank (ref_def t) with
               | Some p => N.ltb p INF && (is_sep_def (ref_def t) || N.ltb p ROUND_LIMIT)
               | None => false end
  | KPrefix | KSuffix => match ref_rank (ref_def t) with Some p => N.ltb p ROUND_LIMIT | None => false end
  | _ => true
  end.

Lemma toks_ranked : forallb tok_ranked all_token_type = true.
Proof. vm_compute. reflexivity. Qed.

Lemma items_of_ranked : forall l i prev sp its, items_of l i prev sp = Some its -> Forall item_ranked its.
Proof.
  intros l i prev sp its H. pose proof (items_of_sane _ _ _ _ _ H) as Hs.
  revert i prev sp its H Hs. induction l as [|t r IH]; intros i prev sp its H Hs.
  - injection H as <-. constructor.
  - cbn [items_of] in H.
    assert (Hr : tok_ranked t = true).
    { pose proof toks_ranked as F. rewrite forallb_forall in F. apply F. apply Proofs.C02.Steps.all_tokens_in. }
    unfold tok_ranked in Hr.
    assert (Hlead : Forall item_ranked
                      (match prev with
                       | Some p => if sp && ends_value_k p && starts_value_k (ref_kind t) then [IBinary D_List None] else []
                       | None => [] end)).
    { destruct prev as [p|]; [|constructor]. destruct (sp && ends_value_k p && _); constructor; [|constructor].
      simpl. exists 220%N. split; [reflexivity|]. split; [reflexivity|intros _; reflexivity]. }
    destruct (ref_kind t) eqn:Ek; try discriminate H;
      try (destruct (items_of r (S i) _ false) as [rest|] eqn:E; [|discriminate H]; injection H as <-;
           apply Forall_app in Hs; destruct Hs as [_ Hs]; inversion Hs as [|? ? Hs1 Hs2]; subst;
           apply Forall_app; split; [exact Hlead|]; constructor; [|eapply IH; [exact E|exact Hs2]]).
    + simpl. apply Hs1.
    + simpl. destruct (ref_rank (ref_def t)) as [p|]; [|discriminate Hr]. apply andb_true_iff in Hr. destruct Hr as [Hr1 Hr2].
      exists p. split; [reflexivity|]. split; [apply N.ltb_lt; exact Hr1|]. intros Hsd. rewrite Hsd in Hr2. apply N.ltb_lt. exact Hr2.
    + simpl. destruct (ref_rank (ref_def t)) as [p|]; [|discriminate Hr]. exists p. split; [reflexivity|apply N.ltb_lt; exact Hr].
    + simpl. destruct (ref_rank (ref_def t)) as [p|]; [|discriminate Hr]. exists p. split; [reflexivity|apply N.ltb_lt; exact Hr].
    + exact I.
    + exact I.
    + eapply IH; [exact H|exact Hs].
Qed.

(* from a machine run back to the parse tree *)
Lemma machine_parse_tree toks its T1 :
  items_of toks 0 None false = Some its -> spine_insert its = Some T1 ->
  exists g, parse_tree toks = Some g /\ strip_groups g = sg T1.
Proof.
  intros Hits Hins.
  assert (Hpr : pratt toks = Some (erase T1)).
  { unfold pratt. rewrite Hits. rewrite (spine_insert_climb its T1 _ (items_of_ranked _ _ _ _ _ Hits) Hins) by lia. reflexivity. }
  exists (rg false (erase T1)). split; [apply parse_tree_pratt; exact Hpr|].
  unfold sg. f_equal. symmetry. apply gt_rg. eapply spine_insert_wfd; [|exact Hins]. eapply items_of_sane; exact Hits.
Qed.

(* ---- brackets around a value token ---- *)
Lemma atom_store_group d b i k fs : atom_store d (FGroup b i k :: fs) = d.
Proof. unfold atom_store. destruct (definition_eqb d D_Identifier); destruct b; reflexivity. Qed.

Lemma atom_store_plain d fs :
  definition_eqb d D_Identifier = false \/ top_is_access fs = false -> atom_store d fs = d.
Proof.
  unfold atom_store, top_is_access. intros [H|H]; [rewrite H; reflexivity|].
  destruct (definition_eqb d D_Identifier); [|reflexivity]. destruct fs as [|f r]; [reflexivity|]. rewrite H. reflexivity.
Qed.

Lemma parens_value_machine A d j B B' k1 k2 k3 st T1 :
  map untok_item B = map untok_item B' ->
  spine_run (A ++ IValue d j :: B) 0 ([], None) = Some st -> spine_insert (A ++ IValue d j :: B) = Some T1 ->
  (forall fsA, spine_run A 0 ([], None) = Some (fsA, None) ->
     definition_eqb d D_Identifier = false \/ top_is_access fsA = false) ->
  exists T1', spine_insert (A ++ IOpen BRound k1 :: IValue d k2 :: IClose BRound k3 :: B') = Some T1' /\ sg T1' = sg T1.
Proof.
  intros Hu Hr Hi Hsafe. pose proof Hr as Hr0. rewrite spine_run_app in Hr.
  destruct (spine_run A 0 ([], None)) as [[fsA accA]|] eqn:EA; [|discriminate Hr].
  set (nA := fold_left (fun m it => next_index it m) A 0) in *.
  cbn [spine_run] in Hr. destruct accA as [tA|]; [discriminate Hr|]. cbn [spine_step next_index] in Hr.
  assert (Hst : exists st', spine_run (A ++ IOpen BRound k1 :: IValue d k2 :: IClose BRound k3 :: B') 0 ([], None) = Some st' /\ ssim st st').
  { rewrite spine_run_app, EA. fold nA. cbn [spine_run spine_step next_index close_group bkind_eqb].
    eapply run_sim; [exact Hu| |exact Hr].
    split; cbn [fst snd]; [apply fsims_refl|]. cbn [osim]. unfold sg. cbn [gt strip_groups].
    rewrite atom_store_group, (atom_store_plain d fsA (Hsafe fsA eq_refl)). reflexivity. }
  destruct Hst as (st' & Hr' & Hs). exact (insert_sim _ _ T1 st Hr0 Hi st' Hr' Hs).
Qed.

(* when the innermost open frame is the access operator: it was the last item *)
Lemma top_access_last A fsA :
  Forall item_sane A -> spine_run A 0 ([], None) = Some (fsA, None) -> top_is_access fsA = true ->
  exists A0 d0 k0, A = A0 ++ [IBinary d0 k0] /\ definition_eqb d0 D_Access = true.
Proof.
  intros Hs Hr Ht. destruct A as [|x A0] using rev_ind.
  - injection Hr as <-. discriminate Ht.
  - clear IHA0. apply Forall_app in Hs. destruct Hs as [_ Hx]. inversion Hx as [|? ? Hx1 _]; subst.
    rewrite spine_run_app in Hr. destruct (spine_run A0 0 ([], None)) as [[fs0 acc0]|]; [|discriminate Hr].
    cbn [spine_run] in Hr.
    destruct (spine_step x _ (fs0, acc0)) as [st1|] eqn:Es; [|discriminate Hr]. injection Hr as ->.
    destruct x as [d k|d k|d k|d k|b k|b k]; destruct acc0 as [t|]; cbn [spine_step] in Es; try discriminate Es.
    + destruct (ref_rank d); [|discriminate Es]. injection Es as <-. cbn [top_is_access frame_def] in Ht.
      simpl in Hx1. rewrite Hx1 in Ht. discriminate Ht.
    + destruct (ref_rank d); [|discriminate Es]. destruct (pop d fs0 t). discriminate Es.
    + destruct (ref_rank d); [|discriminate Es]. destruct (pop d fs0 t) as [fs1 t1].
      destruct (sep_blocked d fs1); [discriminate Es|]. injection Es as <-.
      cbn [top_is_access frame_def] in Ht. exists A0, d, k. split; [reflexivity|exact Ht].
    + injection Es as <-. destruct b; discriminate Ht.
    + destruct (close_group b fs0 t) as [[? ?]|]; discriminate Es.
Qed.

(* the last item of the items of [pre] is the item of its last non-whitespace token *)
Fixpoint last_sig_tok (dflt : option token_type) (pre : list token_type) : option token_type :=
  match pre with
  | [] => dflt
  | t :: r => last_sig_tok (match ref_kind t with KSpace => dflt | _ => Some t end) r
  end.

Definition item_of (t : token_type) (j : nat) : item :=
  match ref_kind t with
  | KValue => IValue (ref_def t) j
  | KPrefix => IPrefix (ref_def t) j
  | KSuffix => ISuffix (ref_def t) j
  | KBinary => IBinary (ref_def t) (Some j)
  | KOpen b => IOpen b j
  | KClose b => IClose b j
  | _ => IClose BRound j
  end.

Lemma items_of_last : forall pre i prev sp its dflt, items_of pre i prev sp = Some its ->
  (its = [] /\ last_sig_tok dflt pre = dflt) \/
  (exists t its0 j, last_sig_tok dflt pre = Some t /\ its = its0 ++ [item_of t j]).
Proof.
  induction pre as [|t r IH]; intros i prev sp its dflt H.
  - injection H as <-. left. split; reflexivity.
  - cbn [items_of] in H. cbn [last_sig_tok]. unfold item_of in *.
    destruct (ref_kind t) eqn:Ek; try discriminate H;
      try (destruct (items_of r (S i) _ false) as [rest|] eqn:E; [|discriminate H]; injection H as <-; right;
           destruct (IH _ _ _ _ (Some t) E) as [[-> Hl]|(t' & its0 & j & Hl & ->)];
           [exists t; eexists; exists i; split; [exact Hl|]; rewrite Ek; reflexivity
           |exists t'; eexists; exists j; split; [exact Hl|]; rewrite app_comm_cons, app_assoc; reflexivity]).
    exact (IH _ _ _ _ dflt H).
Qed.

Definition after_period (pre : list token_type) : bool :=
  match last_sig_tok None pre with Some TT_Period => true | _ => false end.

Lemma access_item_is_period t j d k :
  item_of t j = IBinary d k -> definition_eqb d D_Access = true -> t = TT_Period.
Proof.
  unfold item_of. destruct t; cbn [ref_kind ref_def]; intros H E; try discriminate H;
    injection H as <- _; try reflexivity; vm_compute in E; discriminate E.
Qed.

Theorem parens_value (pre post : list token_type) (v : token_type) (T : rtree) :
  is_value_tok v = true -> pratt (pre ++ v :: post) = Some T ->
  definition_eqb (ref_def v) D_Identifier && after_period pre = false ->
  exists g g', parse_tree (pre ++ v :: post) = Some g /\
               parse_tree (pre ++ TT_StartGroup :: v :: TT_EndGroup :: post) = Some g' /\
               strip_groups g' = strip_groups g.
Proof.
  intros Hv Hpr Hsafe.
  assert (Hk : ref_kind v = KValue) by (unfold is_value_tok in Hv; destruct (ref_kind v); try discriminate Hv; reflexivity).
  destruct (pratt_machine _ _ Hpr) as (its & st & T1 & Hits & Hr & Hi & Hsg).
  destruct (items_wrap_value pre v post its Hk Hits) as (A & B & B' & HA & -> & Hits' & Hu).
  set (A' := A ++ lead_of (fst (end_state None false pre)) (snd (end_state None false pre))) in *.
  pose proof (items_of_sane _ _ _ _ _ Hits) as Hsane. apply Forall_app in Hsane. destruct Hsane as [HsA _].
  destruct (parens_value_machine A' (ref_def v) (length pre) B B' (length pre) (S (length pre)) (S (S (length pre)))
              st T1 Hu Hr Hi) as (T1' & Hi' & Hsg').
  { intros fsA HrA. destruct (definition_eqb (ref_def v) D_Identifier) eqn:Ei; [right|left; reflexivity].
    cbn [andb] in Hsafe. destruct (top_is_access fsA) eqn:Et; [exfalso|reflexivity].
    destruct (top_access_last A' fsA HsA HrA Et) as (A0 & d0 & k0 & EA & Ed).
    unfold A' in EA. destruct (lead_of _ _) as [|l0 [|]] eqn:El.
    - rewrite app_nil_r in EA.
      destruct (items_of_last pre 0 None false A None HA) as [[-> _]|(t & its0 & j & Hl & EA2)].
      + destruct A0; discriminate EA.
      + rewrite EA2 in EA. apply app_inj_tail in EA. destruct EA as [_ EA].
        pose proof (access_item_is_period _ _ _ _ EA Ed) as ->. unfold after_period in Hsafe. rewrite Hl in Hsafe.
        discriminate Hsafe.
    - apply app_inj_tail in EA. destruct EA as [_ ->].
      unfold lead_of in El. destruct (fst (end_state None false pre)); [|discriminate El].
      destruct (_ && _); [|discriminate El]. injection El as <-. vm_compute in Ed. discriminate Ed.
    - unfold lead_of in El. destruct (fst (end_state None false pre)); [|discriminate El].
      destruct (_ && _); discriminate El. }
  destruct (machine_parse_tree _ _ _ Hits' Hi') as (g' & Hg' & Hs').
  exists (rg false T), g'. split; [apply parse_tree_pratt; exact Hpr|]. split; [exact Hg'|].
  rewrite Hs', Hsg', Hsg. reflexivity.
Qed.

(* ---- brackets around an already bracketed group ---- *)
Lemma fsim_sym f f' : fsim f f' -> fsim f' f.
Proof. destruct f, f'; simpl; try tauto; intros H; try (destruct H; split); congruence. Qed.
Lemma fsim_trans f g h : fsim f g -> fsim g h -> fsim f h.
Proof. destruct f, g, h; simpl; try tauto; intros H1 H2; try (destruct H1, H2; split); congruence. Qed.

Lemma fsims_sym : forall a b, Forall2 fsim a b -> Forall2 fsim b a.
Proof. induction 1; constructor; auto using fsim_sym. Qed.
Lemma fsims_trans : forall a b c, Forall2 fsim a b -> Forall2 fsim b c -> Forall2 fsim a c.
Proof.
  intros a b c H. revert c. induction H as [|x y r r' Hx _ IH]; intros c Hc; inversion Hc; subst; constructor;
    eauto using fsim_trans.
Qed.

Lemma ssim_sym s s' : ssim s s' -> ssim s' s.
Proof.
  intros [H1 H2]. split; [apply fsims_sym; exact H1|].
  destruct (snd s), (snd s'); simpl in *; auto.
Qed.
Lemma ssim_trans s1 s2 s3 : ssim s1 s2 -> ssim s2 s3 -> ssim s1 s3.
Proof.
  intros [H1 H2] [H3 H4]. split; [eapply fsims_trans; eauto|].
  destruct (snd s1), (snd s2), (snd s3); simpl in *; try contradiction; auto. congruence.
Qed.

Lemma ssim_refl_none fs : ssim (fs, None) (fs, None).
Proof. split; [apply fsims_refl|exact I]. Qed.

(* frames below an open bracket do not matter to what happens above it *)
Section Base.
Variables (bb : bkind) (bi bk : nat) (br : list frame).
Let base := FGroup bb bi bk :: br.

Lemma pop_app_base d : forall fs t fs1 t1, pop d fs t = (fs1, t1) -> pop d (fs ++ base) t = (fs1 ++ base, t1).
Proof.
  induction fs as [|f r IH]; intros t fs1 t1 H; cbn [pop app] in *.
  - injection H as <- <-. reflexivity.
  - destruct (stays_below d f); [injection H as <- <-; reflexivity|]. apply IH. exact H.
Qed.

Lemma close_group_app_base bc : forall fs t fs1 t1, close_group bc fs t = Some (fs1, t1) ->
  close_group bc (fs ++ base) t = Some (fs1 ++ base, t1).
Proof.
  induction fs as [|f r IH]; intros t fs1 t1 H; [discriminate|].
  destruct f; cbn [close_group app] in *; [apply IH; exact H|apply IH; exact H|].
  destruct (bkind_eqb b bc); [|discriminate H]. injection H as <- <-. reflexivity.
Qed.

Lemma atom_store_app_base d fs : atom_store d (fs ++ base) = atom_store d fs.
Proof.
  unfold atom_store. destruct (definition_eqb d D_Identifier); [|reflexivity].
  destruct fs; [unfold base; destruct bb|]; reflexivity.
Qed.

Definition nosep_item (it : item) : bool :=
  match it with IBinary d _ => negb (is_sep_def d) | _ => true end.

Lemma run_app_base : forall its n fs acc fs1 acc1, forallb nosep_item its = true ->
  spine_run its n (fs, acc) = Some (fs1, acc1) -> spine_run its n (fs ++ base, acc) = Some (fs1 ++ base, acc1).
Proof.
  induction its as [|it r IH]; intros n fs acc fs1 acc1 Hns H.
  - injection H as <- <-. reflexivity.
  - cbn [forallb] in Hns. apply andb_true_iff in Hns. destruct Hns as [Hit Hns].
    cbn [spine_run] in *. destruct (spine_step it n (fs, acc)) as [[fs2 acc2]|] eqn:Es; [|discriminate H].
    assert (Es' : spine_step it n (fs ++ base, acc) = Some (fs2 ++ base, acc2)).
    { destruct it as [d k|d k|d k|d k|b k|b k]; destruct acc as [t|]; cbn [spine_step] in *; try discriminate Es.
      - injection Es as <- <-. rewrite atom_store_app_base. reflexivity.
      - destruct (ref_rank d); [|discriminate Es]. injection Es as <- <-. reflexivity.
      - destruct (ref_rank d); [|discriminate Es]. destruct (pop d fs t) as [fs3 t3] eqn:Ep. injection Es as <- <-.
        rewrite (pop_app_base d _ _ _ _ Ep). reflexivity.
      - destruct (ref_rank d); [|discriminate Es]. destruct (pop d fs t) as [fs3 t3] eqn:Ep.
        cbn [nosep_item] in Hit. apply negb_true_iff in Hit. unfold sep_blocked in *. rewrite Hit in *. cbn [andb] in *.
        injection Es as <- <-. rewrite (pop_app_base d _ _ _ _ Ep). reflexivity.
      - injection Es as <- <-. reflexivity.
      - destruct (close_group b fs t) as [[fs3 t3]|] eqn:Ec; [|discriminate Es]. injection Es as <- <-.
        rewrite (close_group_app_base _ _ _ _ _ Ec). reflexivity. }
    rewrite Es'. apply IH; assumption.
Qed.

Lemma close_group_nogroup : forall fs t, existsb is_fgroup fs = false ->
  close_group bb (fs ++ base) t = Some (br, NGroup bb bi bk (close fs t)).
Proof.
  induction fs as [|f r IH]; intros t H; [cbn [app close_group close]; unfold base; cbn [close_group]; destruct bb; reflexivity|]. cbn [existsb] in H. apply orb_false_iff in H. destruct H as [H1 H2].
  destruct f; try discriminate H1; cbn [app close_group close]; apply IH; exact H2.
Qed.
End Base.

(* a closing bracket on a state similar to "frames without brackets above an open bracket" *)
Lemma close_step_sim fse bb bi bk br te s c n :
  existsb is_fgroup fse = false -> ssim (fse ++ FGroup bb bi bk :: br, Some te) s ->
  exists s', spine_step (IClose bb c) n s = Some s' /\ ssim (br, Some (NGroup bb bi bk (close fse te))) s'.
Proof.
  intros Hng Hs.
  assert (E : spine_step (IClose bb c) n (fse ++ FGroup bb bi bk :: br, Some te)
              = Some (br, Some (NGroup bb bi bk (close fse te)))).
  { cbn [spine_step]. rewrite (close_group_nogroup bb bi bk br fse te Hng). reflexivity. }
  exact (step_sim (IClose bb c) (IClose bb c) n n _ s _ eq_refl Hs E).
Qed.

Lemma parens_group_machine A Ee E1 E1' B B' j c k1 k2 c1 c2 fse te st T1 :
  map untok_item Ee = map untok_item E1 -> map untok_item Ee = map untok_item E1' ->
  map untok_item B = map untok_item B' -> forallb nosep_item Ee = true ->
  spine_run Ee 0 ([], None) = Some (fse, Some te) -> existsb is_fgroup fse = false ->
  spine_run (A ++ IOpen BRound j :: E1 ++ IClose BRound c :: B) 0 ([], None) = Some st ->
  spine_insert (A ++ IOpen BRound j :: E1 ++ IClose BRound c :: B) = Some T1 ->
  exists T1', spine_insert (A ++ IOpen BRound k1 :: IOpen BRound k2 :: E1' ++ IClose BRound c1 :: IClose BRound c2 :: B') = Some T1' /\
              sg T1' = sg T1.
Proof.
  intros Hu1 Hu1' HuB Hnse Hre Hng Hr Hi. pose proof Hr as Hr0. rewrite spine_run_app in Hr.
  destruct (spine_run A 0 ([], None)) as [[fsA accA]|] eqn:EA; [|discriminate Hr].
  set (nA := fold_left (fun m it => next_index it m) A 0) in *.
  cbn [spine_run] in Hr. destruct accA as [tA|]; [discriminate Hr|]. cbn [spine_step next_index] in Hr.
  rewrite spine_run_app in Hr.
  (* the group in the original run *)
  pose proof (run_app_base BRound nA j fsA Ee 0 [] None fse (Some te) Hnse Hre) as Tb. cbn [app] in Tb.
  destruct (run_sim Ee E1 0 (S nA) _ _ _ Hu1 (ssim_refl_none _) Tb) as (s1 & R1 & S1).
  cbn [fst snd] in *. rewrite R1 in Hr. cbn [spine_run] in Hr.
  destruct (close_step_sim fse BRound nA j fsA te s1 c (fold_left (fun m it => next_index it m) E1 (S nA)) Hng S1)
    as (s2 & C2 & S2).
  rewrite C2 in Hr.
  (* the same group, twice bracketed *)
  assert (Hst : exists st', spine_run (A ++ IOpen BRound k1 :: IOpen BRound k2 :: E1' ++ IClose BRound c1 :: IClose BRound c2 :: B') 0 ([], None) = Some st'
                            /\ ssim st st').
  { rewrite spine_run_app, EA. fold nA. cbn [spine_run spine_step next_index]. rewrite spine_run_app.
    pose proof (run_app_base BRound (S nA) k2 (FGroup BRound nA k1 :: fsA) Ee 0 [] None fse (Some te) Hnse Hre) as Tb'. cbn [app] in Tb'.
    destruct (run_sim Ee E1' 0 (S (S nA)) _ _ _ Hu1' (ssim_refl_none _) Tb') as (s1w & R1w & S1w).
    cbn [fst snd] in *. rewrite R1w. cbn [spine_run].
    destruct (close_step_sim fse BRound (S nA) k2 (FGroup BRound nA k1 :: fsA) te s1w c1
                (fold_left (fun m it => next_index it m) E1' (S (S nA))) Hng S1w) as (s2w & C2w & S2w).
    rewrite C2w. cbn [next_index].
    destruct (close_step_sim [] BRound nA k1 fsA (NGroup BRound (S nA) k2 (close fse te)) s2w c2
                (fold_left (fun m it => next_index it m) E1' (S (S nA))) eq_refl S2w) as (s3w & C3w & S3w).
    rewrite C3w. cbn [next_index close] in *.
    eapply run_sim; [exact HuB| |exact Hr].
    eapply ssim_trans; [apply ssim_sym; exact S2|]. eapply ssim_trans; [|exact S3w].
    split; cbn [fst snd]; [apply fsims_refl|]. reflexivity. }
  destruct Hst as (st' & Hr' & Hs). exact (insert_sim _ _ T1 st Hr0 Hi st' Hr' Hs).
Qed.

Lemma lead_close p s :
  match p with
  | Some p0 => if s && ends_value_k p0 && starts_value_k (KClose BRound) then [IBinary D_List None] else []
  | None => [] end = [].
Proof. destruct p as [a|]; [|reflexivity]. cbn [starts_value_k]. rewrite andb_false_r. reflexivity. Qed.

Lemma lead_open p s :
  match p with
  | Some p0 => if s && ends_value_k p0 && starts_value_k (KOpen BRound) then [IBinary D_List None] else []
  | None => [] end = lead_of p s.
Proof. destruct p as [a|]; [|reflexivity]. cbn [lead_of starts_value_k]. rewrite andb_true_r. reflexivity. Qed.

Lemma items_wrap_group pre e post its :
  items_of (pre ++ TT_StartGroup :: e ++ TT_EndGroup :: post) 0 None false = Some its ->
  exists A' Ee E1 E1' B B' j c k2 c1 c2,
    items_of e 0 None false = Some Ee /\
    its = A' ++ IOpen BRound j :: E1 ++ IClose BRound c :: B /\
    items_of (pre ++ TT_StartGroup :: TT_StartGroup :: e ++ TT_EndGroup :: TT_EndGroup :: post) 0 None false
    = Some (A' ++ IOpen BRound j :: IOpen BRound k2 :: E1' ++ IClose BRound c1 :: IClose BRound c2 :: B') /\
    map untok_item Ee = map untok_item E1 /\ map untok_item Ee = map untok_item E1' /\
    map untok_item B = map untok_item B'.
Proof.
  intros H. rewrite items_of_app in H. rewrite items_of_app.
  destruct (items_of pre 0 None false) as [A|]; [|discriminate H].
  destruct (end_state None false pre) as [p s]. cbn [fst snd plus] in *.
  set (jp := length pre) in *.
  cbn [items_of ref_kind] in H |- *. rewrite lead_open in H. rewrite lead_open.
  cbn [andb app ends_value_k] in *.
  rewrite items_of_app in H. rewrite (items_of_app e (TT_EndGroup :: TT_EndGroup :: post)).
  (* the items of [e] in its three settings *)
  pose proof (items_of_index e (S jp) 0 (Some (KOpen BRound)) false) as X1. rewrite (items_of_after_open BRound e 0 false) in X1.
  pose proof (items_of_index e (S (S jp)) 0 (Some (KOpen BRound)) false) as X2. rewrite (items_of_after_open BRound e 0 false) in X2.
  destruct (items_of e (S jp) (Some (KOpen BRound)) false) as [E1|]; [|destruct p; discriminate H].
  destruct (items_of e 0 None false) as [Ee|]; [|discriminate X1].
  destruct (items_of e (S (S jp)) (Some (KOpen BRound)) false) as [E1'|]; [|discriminate X2].
  cbn [oitems option_map] in X1, X2. injection X1 as X1. injection X2 as X2.
  destruct (end_state (Some (KOpen BRound)) false e) as [pe se]. cbn [fst snd] in *.
  cbn [items_of ref_kind] in H |- *. rewrite !lead_close in *. cbn [andb app] in *.
  pose proof (items_of_index post (S (S jp + length e)) (S (S (S (S jp) + length e))) (Some (KClose BRound)) false) as XB.
  destruct (items_of post (S (S jp + length e)) (Some (KClose BRound)) false) as [B|]; [|destruct p; discriminate H].
  destruct (items_of post (S (S (S (S jp) + length e))) (Some (KClose BRound)) false) as [B'|]; [|discriminate XB].
  cbn [oitems option_map] in XB. injection XB as XB.
  cbn [option_map] in H |- *. injection H as <-.
  exists (A ++ lead_of p s), Ee, E1, E1', B, B', jp, (S jp + length e), (S jp), (S (S jp) + length e), (S (S (S jp) + length e)).
  split; [reflexivity|]. split; [rewrite <- !app_assoc; reflexivity|]. split; [|auto].
  f_equal. rewrite <- !app_assoc. reflexivity.
Qed.

Lemma items_of_nosep : forall l i prev sp its, no_separators l = true ->
  items_of l i prev sp = Some its -> forallb nosep_item its = true.
Proof.
  induction l as [|t r IH]; intros i prev sp its Hns H; [injection H as <-; reflexivity|].
  cbn [no_separators forallb] in Hns. apply andb_true_iff in Hns. destruct Hns as [Ht Hns]. apply negb_true_iff in Ht.
  fold (no_separators r) in Hns. cbn [items_of] in H. unfold sep_tok in Ht.
  assert (Hlead : forallb nosep_item
                    (match prev with
                     | Some p => if sp && ends_value_k p && starts_value_k (ref_kind t) then [IBinary D_List None] else []
                     | None => [] end) = true).
  { destruct prev as [p|]; [|reflexivity]. destruct (sp && ends_value_k p && _); reflexivity. }
  destruct (ref_kind t) eqn:Ek; try discriminate H; try (eapply IH; [exact Hns|exact H]);
    (destruct (items_of r (S i) _ false) as [rest|] eqn:E; [|discriminate H]; injection H as <-;
     cbn [starts_value_k] in Hlead; rewrite forallb_app, Hlead; cbn [forallb andb nosep_item]; rewrite (IH _ _ _ _ Hns E), ?andb_true_r;
     first [reflexivity | rewrite Ht; reflexivity]).
Qed.

Theorem parens_group (pre e post : list token_type) (T Te : rtree) :
  pratt (pre ++ TT_StartGroup :: e ++ TT_EndGroup :: post) = Some T -> pratt e = Some Te ->
  no_separators e = true ->
  exists g g', parse_tree (pre ++ TT_StartGroup :: e ++ TT_EndGroup :: post) = Some g /\
               parse_tree (pre ++ TT_StartGroup :: TT_StartGroup :: e ++ TT_EndGroup :: TT_EndGroup :: post) = Some g' /\
               strip_groups g' = strip_groups g.
Proof.
  intros Hpr Hpe Hnse.
  destruct (pratt_machine _ _ Hpr) as (its & st & T1 & Hits & Hr & Hi & Hsg).
  destruct (items_wrap_group pre e post its Hits)
    as (A' & Ee & E1 & E1' & B & B' & j & c & k2 & c1 & c2 & HEe & -> & Hits' & Hu1 & Hu1' & HuB).
  destruct (pratt_machine _ _ Hpe) as (Ee0 & ste & Te1 & HEe0 & Hre & Hie & _).
  rewrite HEe in HEe0. injection HEe0 as <-.
  unfold spine_insert in Hie. rewrite Hre in Hie. destruct ste as [fse [te|]]; [|discriminate Hie].
  destruct (existsb is_fgroup fse) eqn:Hng; [discriminate Hie|].
  destruct (parens_group_machine A' Ee E1 E1' B B' j c j k2 c1 c2 fse te st T1 Hu1 Hu1' HuB (items_of_nosep _ _ _ _ _ Hnse HEe) Hre Hng Hr Hi)
    as (T1' & Hi' & Hsg').
  destruct (machine_parse_tree _ _ _ Hits' Hi') as (g' & Hg' & Hs').
  exists (rg false T), g'. split; [apply parse_tree_pratt; exact Hpr|]. split; [exact Hg'|].
  rewrite Hs', Hsg', Hsg. reflexivity.
Qed.
