(* C07: the shape of the full statement.  If every step from a state that
   satisfies an invariant is Ok or Err and re-establishes the invariant, no run
   of any length panics. *)
From Coq Require Import List.
From GV Require Import Base.Result Model.RuntimeIndex.

Section Run.
  Variable state : Type.
  Variable step : state -> res state.
  Variable Inv : state -> Prop.

  Definition step_safe : Prop :=
    forall s, Inv s -> no_panic (step s) /\ (forall s', step s = Ok s' -> Inv s').

  Theorem run_no_panic : step_safe -> forall n s, Inv s -> no_panic (run state step n s).
  Proof.
    intros Hs. induction n as [| k IH]; intros s Hi; cbn [run]; [exact I|].
    destruct (Hs s Hi) as [Hnp Hpres].
    destruct (step s) as [s' | c | st |] eqn:E; cbn [bind]; try exact I; try contradiction.
    apply IH. apply Hpres. reflexivity.
  Qed.
  (* the full statement of C07 for a machine [step] with invariant [Inv] *)
  Definition full_statement : Prop :=
    (forall s, Inv s -> no_panic (step s) /\ (forall s', step s = Ok s' -> Inv s')) /\
    (forall n s, Inv s -> no_panic (run state step n s)).

  Theorem run_from_step : step_safe -> full_statement.
  Proof. intros H. split; [exact H | exact (run_no_panic H)]. Qed.
End Run.
