(* idx driver (C07): reads the nopanic harness output lines
     <case>\t<impl result>\t<detail>
   for the X cases and prints  <case>\t<model result>\t-
   The model result uses the same rendering as harness/src/bin/nopanic.rs (run_x):
   numbers i<hex sign+magnitude> / f<16 hex digits>, list items i<100+p>, chars c<'a'+p mod 26>,
   bytes b<p mod 256>, symbols k, unit u. *)
let parse_num (s : string) : num =
  match s.[0] with
  | 'i' -> Int (z_of_hex (String.sub s 1 (String.length s - 1)))
  | 'f' -> Flt (b64_of_bits (z_of_hex (String.sub s 1 (String.length s - 1))))
  | _ -> failwith ("bad num " ^ s)

let pad16 s = String.make (max 0 (16 - String.length s)) '0' ^ s
let show_num (n : num) : string =
  match n with
  | Int v -> "i" ^ hex_of_z v
  | Flt f -> "f" ^ pad16 (hex_of_z (bits_of_b64 f))

let rec nat_of_int (i : int) : nat = if i <= 0 then O else S (nat_of_int (i - 1))

let kind_of = function
  | "l" -> KList | "c" -> KChars | "b" -> KBytes | "s" -> KSyms
  | s -> failwith ("bad kind " ^ s)
let impl_of = function "S" -> Simple | "B" -> Basic | s -> failwith ("bad impl " ^ s)

let item_text (k : string) (p : n) : string =
  let p = int_of_n p in
  match k with
  | "l" -> Printf.sprintf "i%x" (100 + p)
  | "c" -> Printf.sprintf "c%x" (97 + (p mod 26))
  | "b" -> Printf.sprintf "b%x" (p mod 256)
  | "s" -> "k"
  | _ -> "?"

let res_str (f : 'a -> string) (r : 'a res) : string =
  match r with
  | Ok a -> f a
  | Err _ -> "Err"
  | Panic _ -> "PANIC"
  | OutOfFuel -> "OUTOFFUEL"

let take n l =
  let rec go n l acc = if n = 0 then List.rev acc else match l with [] -> List.rev acc | h :: t -> go (n - 1) t (h :: acc) in
  go n l []

(* "R(<num>,<num>)" *)
let parse_range_expr (s : string) : num * num =
  let inner = String.sub s 2 (String.length s - 3) in
  match String.split_on_char ',' inner with
  | [a; b] -> (parse_num a, parse_num b)
  | _ -> failwith ("bad range " ^ s)

let rec range_ints a b = if a >= b then [] else a :: range_ints (a + 1) b

(* the impl column of the harness line carries the data the model cannot know (addresses, hash values) *)
let model_with_oracle (case : string) (impl : string) : string option =
  let payload () =
    if String.length impl > 3 && String.sub impl 0 3 = "Ok " then Some (String.sub impl 3 (String.length impl - 3)) else None in
  match split_on ' ' case with
  | ["X"; "endlist"; "S"; _; _] ->
    (match payload () with
     | None -> None
     | Some pl ->
       (match split_on '|' pl with
        | [items; _] ->
          let addrs = if items = "" then [] else List.map int_of_string (split_on ',' items) in
          Some (res_str (fun t -> "Ok " ^ items ^ "|" ^ String.concat "," (List.map (fun x -> string_of_int (int_of_n x)) t))
                  (simple_end_list (List.map n_of_int addrs)))
        | _ -> None))
  | ["X"; "bsearch"; "B"; _; _] ->
    (match payload () with
     | None -> None
     | Some pl ->
       (match split_on '|' pl with
        | [cells; sym; _] ->
          let table = if cells = "" then [] else
              List.map (fun c -> match split_on ':' c with [s; v] -> (pad16 s, v) | _ -> failwith "cell") (split_on ',' cells) in
          let arr = Array.of_list table in
          let key = pad16 sym in
          let greater (mid : n) : bool = let m = int_of_n mid in m < Array.length arr && fst arr.(m) > key in
          Some (res_str (fun r ->
              let found = (match r with
                  | None -> "none"
                  | Some b -> let b = int_of_n b in if fst arr.(b) = key then snd arr.(b) else "none") in
              "Ok " ^ cells ^ "|" ^ sym ^ "|" ^ found)
              (bsearch (n_of_int (Array.length arr)) greater))
        | _ -> None))
  | _ -> None

let model (case : string) : string =
  match split_on ' ' case with
  | ["X"; "mklist"; _; n; k] ->
    let n = int_of_string n and k = int_of_string k in
    res_str (fun start ->
        let start = int_of_n start in
        Printf.sprintf "Ok L%d[%s] regs=%d" n
          (String.concat "," (List.map (fun i -> Printf.sprintf "i%x" (100 + i)) (take 40 (range_ints start k)))) (start + 1))
      (make_list_start (n_of_int n) (n_of_int k))
  | ["X"; "eqregs"; _; k] ->
    res_str (fun start -> Printf.sprintf "Ok regs=%d" (int_of_n start + 1)) (equality_start (n_of_int (int_of_string k)))
  | ["X"; "cwin"; "S"; n; s; e] ->
    let n = int_of_string n in
    (match parse_num s, parse_num e with
     | Int zs, Int ze ->
       res_str (fun (skip, tk) ->
           (* saturate: a skip or take count beyond the container behaves like the container length *)
           let clamp (x : n) = match x with N0 -> 0 | _ -> (try let v = int_of_n x in if v > n || v < 0 then n else v with _ -> n) in
           let big (x : n) = String.length (hex_of_n x) > 8 in
           let skip = if big skip then n else clamp skip in
           let tk = if big tk then n else clamp tk in
           Printf.sprintf "Ok %d" (min tk (n - min skip n) + 1))
         (simple_concat_slice_window zs ze)
     | _ -> "NOMODEL")
  | _ ->
  match split_on ' ' case with
  | ["X"; "usize"; _; x] -> "Ok " ^ hex_of_n (usize_of_num (parse_num x))
  | ["X"; "item"; imp; k; len; idx] ->
    res_str (function None -> "Ok none" | Some p -> "Ok some " ^ item_text k p)
      (get_item (impl_of imp) (kind_of k) (n_of_int (int_of_string len)) (parse_num idx))
  | ["X"; "iter"; imp; k; len; s; e] ->
    let len = n_of_int (int_of_string len) in
    if k = "n" then
      (match impl_of imp with
       | Simple -> "Ok " ^ string_of_int (int_of_n len)
       | Basic -> res_str (fun (a, b) -> "Ok " ^ string_of_int (int_of_n b - int_of_n a))
                    (concat_iter_window len (parse_num s) (parse_num e)))
    else res_str (fun c -> "Ok " ^ string_of_int (int_of_n c)) (iter_count (impl_of imp) len (parse_num s) (parse_num e))
  | ["X"; "access"; imp; k; len; idx] ->
    res_str (function None | Some None -> "Ok u" | Some (Some p) -> "Ok " ^ item_text k p)
      (index_container (impl_of imp) (kind_of k) (n_of_int (int_of_string len)) (parse_num idx))
  | ["X"; "access"; imp; k; len; idx; s; e] ->
    (* get_range(slice range) first computes the range length, then the index is shifted by the start *)
    (match range_len (parse_num s) (parse_num e) with
     | Err _ -> "Err" | Panic _ -> "PANIC" | OutOfFuel -> "OUTOFFUEL"
     | Ok _ ->
       (match slice_adjusted_index (parse_num s) (parse_num idx) with
        | Err _ -> "Err" | Panic _ -> "PANIC" | OutOfFuel -> "OUTOFFUEL"
        | Ok adj ->
          res_str (function None | Some None -> "Ok u" | Some (Some p) -> "Ok " ^ item_text k p)
            (index_container (impl_of imp) (kind_of k) (n_of_int (int_of_string len)) adj)))
  | ["X"; "raccess"; _; s; e; idx] ->
    res_str (function None -> "Ok u" | Some v -> "Ok " ^ show_num v) (access_range (parse_num s) (parse_num e) (parse_num idx))
  | ["X"; "cast"; imp; r; "List"] ->
    let (s, e) = parse_range_expr r in
    res_str (fun items ->
        Printf.sprintf "Ok L%d[%s]" (List.length items) (String.concat "," (List.map show_num (take 40 items))))
      (range_to_list (impl_of imp) (nat_of_int 5000) s e)
  | ["X"; "range"; _; instr; a; b] ->
    let (sx, ex) = (match instr with
        | "MakeRange" -> (false, false) | "MakeStartExclusiveRange" -> (true, false)
        | "MakeEndExclusiveRange" -> (false, true) | "MakeExclusiveRange" -> (true, true)
        | s -> failwith ("bad range instruction " ^ s)) in
    res_str (fun (s, e) -> "Ok R " ^ show_num s ^ " " ^ show_num e) (make_range_bounds sx ex (parse_num a) (parse_num b))
  | ["X"; "lenof"; _; r] ->
    let (s, e) = parse_range_expr r in
    res_str (fun l -> "Ok " ^ show_num l) (range_len s e)
  | _ -> "NOMODEL"

let () =
  iter_lines (fun line ->
    match split_on '\t' line with
    | case :: impl :: _ ->
      let m = (try (match model_with_oracle case impl with Some m -> m | None -> model case) with Failure m -> "DRIVERERROR:" ^ m) in
      Printf.printf "%s\t%s\t-\n" case m
    | case :: _ -> Printf.printf "%s\t%s\t-\n" case (try model case with Failure m -> "DRIVERERROR:" ^ m)
    | _ -> failwith ("bad line " ^ line))
