(* Static half of C06, inductive, first part: the inline code of a subtree.
   Under the arity discipline of Proofs/C06/Balanced.v the ghost invariant of
   Proofs/C06/Static.v is kept by inline compilation: a subtree whose arity is
   n raises the operand depth by n, every body and arm it registers is owed a
   consistent entry depth and join, and no EndExpression is emitted inline. *)
From Coq Require Import List Arith Bool NArith Lia.
From GV Require Import Base.Result Gen.TokenTypes Gen.Defs Gen.Instr Model.Parser Model.BuilderWL Model.Compile
  Spec.Depth Proofs.C05.InlBase Proofs.C05.Known Proofs.C05.Operands Proofs.C05.Jumps Proofs.C06.Known Proofs.C06.Balanced
  Proofs.C06.Static.
Import ListNotations.

Section SI.
Variable init : binit.
Variable lit_ok : nat -> bool.
Notation ilo := (i_instr_len init).
Notation jlo := (i_jump_len init).
Notation IL := (il init).
Notation JL := (jl init).

Definition notend (io : instr) : Prop := fst io <> I_EndExpression.
Definition noend (s s' : cst) : Prop := exists a, ci s' = ci s ++ a /\ Forall notend a.

Lemma noend_refl : forall s, noend s s.
Proof. intros s. exists []. rewrite app_nil_r. auto. Qed.
Lemma noend_trans : forall a b c, noend a b -> noend b c -> noend a c.
Proof. intros a b c [x [Hx Px]] [y [Hy Py]]. exists (x ++ y). rewrite Hy, Hx, app_assoc. split; [reflexivity | apply Forall_app; auto]. Qed.
Lemma noend_emit_r : forall s s1 io m, noend s s1 -> notend io -> noend s (emit s1 io m).
Proof. intros s s1 io m [x [Hx Px]] Hn. exists (x ++ [io]). cbn [emit ci]. rewrite Hx, app_assoc. split; [reflexivity | apply Forall_app; auto]. Qed.
Lemma noend_new_jump_r : forall s s1 x, noend s s1 -> noend s (new_jump s1 x).
Proof. intros s s1 x H. exact H. Qed.
Lemma eff_notend : forall io e, effect io = Some e -> notend io.
Proof. intros [i o] e H Hc. cbn in Hc. subst i. discriminate H. Qed.


Lemma kvalue_eff : forall d i w, kind_of d = KValue i w -> instruction_eqb i I_EndExpression = false ->
  forall o, effect (i, o) = Some (mkEff 0 1 0 0).
Proof. intros d i w H He o. destruct d; cbn in H; try discriminate H; inversion H; subst; try reflexivity; discriminate He. Qed.
Lemma kunary_eff : forall d i c, kind_of d = KUnary i c -> forall o, effect (i, o) = Some (mkEff 1 1 0 0).
Proof. intros d i c H o. destruct d; cbn in H; try discriminate H; inversion H; subst; reflexivity. Qed.
Lemma kbinary_eff : forall d i c, kind_of d = KBinary i c -> forall o, effect (i, o) = Some (mkEff 2 1 0 0).
Proof. intros d i c H o. destruct d; cbn in H; try discriminate H; inversion H; subst; reflexivity. Qed.
Lemma klogical_i : forall d i, kind_of d = KLogical i -> i = I_And \/ i = I_Or.
Proof. intros d i H. destruct d; cbn in H; try discriminate H; inversion H; subst; auto. Qed.
Lemma kjumpif_i : forall d i, kind_of d = KJumpIf i -> i = I_JumpIfTrue \/ i = I_JumpIfFalse.
Proof. intros d i H. destruct d; cbn in H; try discriminate H; inversion H; subst; auto. Qed.

Lemma klogical_notend : forall d i o, kind_of d = KLogical i -> notend (i, o).
Proof. intros d i o H. destruct (klogical_i _ _ H); subst; unfold notend; cbn; discriminate. Qed.
Lemma kjumpif_notend : forall d i o, kind_of d = KJumpIf i -> notend (i, o).
Proof. intros d i o H. destruct (kjumpif_i _ _ H); subst; unfold notend; cbn; discriminate. Qed.

Lemma Forall_item_ext : forall g g' base tl its, gext g g' -> Forall (item_g g base tl) its -> Forall (item_g g' base tl) its.
Proof. intros g g' base tl its Hx H. eapply Forall_impl; [|exact H]. intros p Hp. eapply item_g_ext; eauto. Qed.

Lemma item_to_pend : forall g q v tl it c j,
  item_g g (q, v) tl it -> (tl = true -> (q, v) = (0, 0)) -> In (j, (q + 1, v)) (gjoin g) ->
  pend_g g (mkP (fst it) c (snd it) [(I_JumpTo, ONum j)]).
Proof.
  intros g q v tl it c j [Ho Hb] Ht Hj. exists (q, v), tl. cbn [p_jump p_tree p_end].
  refine (conj Ho (conj Hb (conj Ht _))). right. left. exists j. split; [reflexivity | exact Hj].
Qed.

Lemma Forall_pend_ext : forall g g' ps, gext g g' -> Forall (pend_g g) ps -> Forall (pend_g g') ps.
Proof. intros g g' ps Hx H. eapply Forall_impl; [|exact H]. intros p Hp. eapply pend_g_ext; eauto. Qed.
Lemma gext_open_in : forall g g' x, gext g g' -> In x (gopen g) -> In x (gopen g').
Proof. intros g g' x [_ [H _]] Hin. apply H. exact Hin. Qed.
Lemma gext_join_in : forall g g' x, gext g g' -> In x (gjoin g) -> In x (gjoin g').
Proof. intros g g' x [_ [_ H]] Hin. apply H. exact Hin. Qed.

Definition P_inl (t : tree) : Prop :=
  forall lst cond tail n rj cx s s' ps its g q v,
    bal lst cond tail t = Some n -> cx_list cx = lst -> cx_cond cx = cond ->
    inl init lit_ok rj t cx s = Ok (s', ps, its) ->
    ginv init g s -> gcur g = (q, v) -> (tail = true -> (q, v) = (0, 0)) ->
    cont_ok init s (cx_containing cx) ->
    exists g', ginv init g' s' /\ gext g g' /\ gcur g' = (q + n, v) /\
               Forall (pend_g g') ps /\ Forall (item_g g' (q, v) tail) its /\
               noend s s' /\ (1 <= n -> IL s < IL s').

End SI.

Lemma gext_gemit_r : forall g g1 out, gext g g1 -> gext g (gemit g1 out).
Proof. intros. eapply gext_trans; [eassumption | apply gext_gemit]. Qed.
Lemma gext_open_add_r : forall g g1 j y, gext g g1 -> gext g (gopen_add g1 j y).
Proof. intros. eapply gext_trans; [eassumption | apply gext_open_add]. Qed.
Lemma gext_join_add_r : forall g g1 j y, gext g g1 -> gext g (gjoin_add g1 j y).
Proof. intros. eapply gext_trans; [eassumption | apply gext_join_add]. Qed.

Ltac gext_solve :=
  repeat match goal with
         | |- gext ?g ?g => apply gext_refl
         | H : gext ?a ?b |- gext ?a ?b => exact H
         | |- gext _ (gemit _ _) => apply gext_gemit_r
         | |- gext _ (gopen_add _ _ _) => apply gext_open_add_r
         | |- gext _ (gjoin_add _ _ _) => apply gext_join_add_r
         | H : gext ?m ?g' |- gext ?g ?g' => apply (gext_trans g m g'); [|exact H]
         end.

Ltac ne_solve :=
  repeat match goal with
         | |- noend ?s ?s => apply noend_refl
         | H : noend ?a ?b |- noend ?a ?b => exact H
         | |- noend _ (emit _ _ _) => apply noend_emit_r
         | |- noend _ (new_jump _ _) => apply noend_new_jump_r
         | H : noend ?m ?s' |- noend ?s ?s' => apply (noend_trans s m s'); [|exact H]
         end.

(* decompose the arity fact of a node into facts about its children *)
Ltac bal_prep Hbal :=
  repeat (cbv iota beta in Hbal;
          match type of Hbal with
          | Some _ = Some _ => fail 1
          | context [if ?b then _ else _] => destruct b eqn:?; try discriminate Hbal
          | context [match ?o with _ => _ end] => destruct o eqn:?; try discriminate Hbal
          end);
  repeat match goal with
         | H : _ && _ = true |- _ => apply andb_true_iff in H; destruct H
         | H : is_some_n _ _ = true |- _ => apply is_some_n_eq in H
         | H : (_ =? _) = true |- _ => apply Nat.eqb_eq in H
         end.


Ltac tail_solve Ht :=
  first [ exact Ht
        | let E := fresh in intros E; discriminate E
        | let E := fresh in let Z := fresh in intros E; pose proof (Ht E) as Z; inversion Z; subst; cbn; reflexivity ].

Ltac cont_solve init Hcont :=
  cbn [cx_containing plain];
  first [ exact Hcont | eapply (cont_ok_ext init); [|exact Hcont]; ext_solve_g ].

Ltac pose_exts init lit_ok :=
  repeat match goal with
  | H : inl init lit_ok _ _ _ ?a = Ok (?b, _, _) |- _ =>
    lazymatch goal with
    | _ : ext a b |- _ => fail
    | _ => pose proof (inl_ext init lit_ok _ _ _ _ _ _ _ H)
    end
  end.

Ltac kill_items init lit_ok :=
  repeat match goal with
  | H : inl init lit_ok _ _ _ _ = Ok (_, _, ?it) |- _ =>
    is_var it;
    let E := fresh in
    assert (E : it = []) by (apply (proj1 (inl_items init lit_ok _ _ _ _ _ _ _ H)); reflexivity);
    subst it
  end.

Ltac norm_cur q v Hc :=
  match type of Hc with
  | gcur _ = (?X, ?Y) =>
    try (first [ replace X with q in Hc by lia | replace X with (q + 1) in Hc by lia
               | replace X with (q + 2) in Hc by lia | replace X with (q + 3) in Hc by lia ]);
    try (first [ replace Y with v in Hc by lia | replace Y with (v + 1) in Hc by lia ])
  end.

Ltac child init lit_ok Ht Hcont :=
  match goal with
  | Hg : ginv init ?gk ?sk, Hc : gcur ?gk = (?qk, ?vk),
    Hi : inl init lit_ok ?rj ?a ?cxa ?sk = Ok (?sa, ?pa, ?ia),
    Hb : bal ?lst ?cd ?tl ?a = Some ?na,
    IH : forall x, Some ?a = Some x -> P_inl init lit_ok x |- _ =>
    let gn := fresh "g" in let Hgn := fresh "Hg" in let Hxn := fresh "Hx" in let Hcn := fresh "Hc" in
    let Hpn := fresh "Hp" in let Hin := fresh "Hit" in let Hnn := fresh "Hne" in let Hgr := fresh "Hgr" in
    destruct (IH a eq_refl lst cd tl na rj cxa sk sa pa ia gk qk vk Hb eq_refl eq_refl Hi Hg Hc
                 ltac:(tail_solve Ht) ltac:(cont_solve init Hcont))
      as (gn & Hgn & Hxn & Hcn & Hpn & Hin & Hnn & Hgr);
    clear Hg Hc Hi
  end.

Ltac abstract_g init q v Hg Hc Hgn :=
  match type of Hgn with
  | ginv _ (gemit ?gk ?out) ?sn =>
    let gn := fresh "g" in let Hcn := fresh "Hc" in let Hxn := fresh "Hx" in
    pose proof (gext_gemit gk out) as Hxn;
    assert (Hcn : gcur (gemit gk out) = out) by reflexivity;
    set (gn := gemit gk out) in *; clearbody gn;
    clear Hg Hc; norm_cur q v Hcn
  end.

Ltac eff_step init q v Hcont :=
  match goal with
  | Hg : ginv init ?gk ?sk, Hc : gcur ?gk = (?qk, ?vk) |- _ =>
    let go io m :=
      let Hgn := fresh "Hg" in
      eassert (Hgn : ginv init (gemit gk (_, _)) (emit sk io m));
      [ eapply (step_eff init gk sk io m _ qk vk _ _ Hg Hc);
        [ solve [ reflexivity | eauto ]
        | cbn [e_pop]; lia | cbn [e_vdown]; lia
        | cbn [e_pop e_push]; reflexivity | cbn [e_vdown e_vup]; reflexivity
        | let j := fresh in let E := fresh in intros j E;
          first [ discriminate E
                | inversion E; subst; apply (cont_tgt init); [exact Hg | cont_solve init Hcont] ] ]
      | abstract_g init q v Hg Hc Hgn ]
    in
    match goal with
    | _ : context [emit sk ?io ?m] |- _ => go io m
    | |- context [emit sk ?io ?m] => go io m
    end
  end.


Ltac absg q v gk Hgn :=
  match type of Hgn with
  | ginv _ ?G ?sn =>
    let gn := fresh "g" in let Hcn := fresh "Hc" in let Hxn := fresh "Hx" in
    assert (Hxn : gext gk G) by gext_solve;
    eassert (Hcn : gcur G = (_, _)) by (cbn [gcur gemit gopen_add gjoin_add]; first [reflexivity | eassumption]);
    set (gn := G) in *; clearbody gn; norm_cur q v Hcn
  end.

Ltac norm_in q v H :=
  match type of H with
  | In (_, (?X, ?Y)) _ =>
    try (first [ replace X with q in H by lia | replace X with (q + 1) in H by lia
               | replace X with (q + 2) in H by lia ])
  end.

(* an instruction through a fresh placeholder *)
Ltac hole_step init q v Hk :=
  match goal with
  | Hg : ginv init ?gk ?sk, Hc : gcur ?gk = (?qk, ?vk) |- context [emit (new_jump ?sk 0) (?i, ?o) ?m] =>
    let Hgn := fresh "Hg" in let Hop := fresh "Hopen" in
    lazymatch o with
    | ONum _ =>
      first [ pose proof (step_jumpif init gk sk i m qk vk Hg Hc ltac:(lia) (kjumpif_i _ _ Hk)) as Hgn
            | pose proof (step_logical init gk sk i m qk vk Hg Hc ltac:(lia) (klogical_i _ _ Hk)) as Hgn ];
      match type of Hgn with
      | ginv _ ?G _ => assert (Hop : In (jl init sk, (qk - 1, vk)) (gopen G)) by (left; reflexivity)
      end
    | OExpr _ =>
      pose proof (step_nested init gk sk m qk vk Hg Hc) as Hgn;
      match type of Hgn with
      | ginv _ ?G _ => assert (Hop : In (jl init sk, (0, 0)) (gopen G)) by (left; reflexivity)
      end
    end;
    absg q v gk Hgn; norm_in q v Hop; clear Hg Hc
  end.

Ltac il_pos init :=
  repeat first [ rewrite il_emit | rewrite il_new_jump ];
  match goal with |- context [il init ?x] => pose proof (il_ge init x); lia end.

Ltac join_step init q v :=
  match goal with
  | Hg : ginv init ?gk ?sk, Hc : gcur ?gk = (?qk, ?vk) |- context [new_jump ?sk (il init ?sk)] =>
    let Hgn := fresh "Hg" in let Hjo := fresh "Hjoin" in
    assert (Hgn : ginv init (gjoin_add gk (jl init sk) (gcur gk)) (new_jump sk (il init sk)))
      by (apply step_join; [exact Hg | il_pos init]);
    assert (Hjo : In (jl init sk, (qk, vk)) (gjoin (gjoin_add gk (jl init sk) (gcur gk))))
      by (left; rewrite Hc; reflexivity);
    absg q v gk Hgn; clear Hg Hc
  end.

Ltac end_solve :=
  cbn [fst snd];
  first [ left; split; reflexivity
        | right; left; eexists; split; [reflexivity|]; eapply gext_join_in; [|eassumption]; gext_solve
        | right; right; eexists; split; [reflexivity|]; eapply gext_join_in; [|eassumption]; gext_solve ].

Ltac pend_new Ht :=
  apply Forall_cons; [|apply Forall_nil];
  eexists; eexists; cbn [p_jump p_tree p_end];
  refine (conj _ (conj _ (conj _ _)));
  [ eapply gext_open_in; [|eassumption]; gext_solve
  | eassumption
  | first [ tail_solve Ht | intros; reflexivity ]
  | end_solve ].

Ltac pend_leaf :=
  first [ apply Forall_nil
        | eapply Forall_pend_ext; [|eassumption]; gext_solve ].
Ltac pend_solve0 := rewrite ?app_nil_r; repeat (apply Forall_app; split); try pend_leaf.

Ltac notend_solve :=
  first [ unfold notend; cbn [fst]; discriminate
        | eapply eff_notend; solve [reflexivity | eauto]
        | match goal with Hk : kind_of _ = _ |- _ =>
            first [ eapply klogical_notend; exact Hk | eapply kjumpif_notend; exact Hk ] end ].
Ltac item_new :=
  apply Forall_cons; [|apply Forall_nil]; split; cbn [fst snd];
  [ eapply gext_open_in; [|eassumption]; gext_solve | eassumption ].

Ltac grow_solve init :=
  let Hn := fresh in intros Hn;
  repeat match goal with H : ext _ _ |- _ => apply (ext_il init) in H end;
  repeat match goal with H : 1 <= ?k -> _ |- _ =>
           let E := fresh in destruct (le_lt_dec 1 k) as [E|E]; [specialize (H E) | clear H] end;
  repeat first [ rewrite il_emit in * | rewrite il_new_jump in * ]; lia.

Ltac pend_solve Ht := rewrite ?app_nil_r; repeat (apply Forall_app; split); try pend_leaf; try pend_new Ht.
Ltac fin init :=
  match goal with
  | Hg : ginv init ?gk _, Hc : gcur ?gk = _ |- _ =>
    rewrite ?Nat.add_0_r in *;
    exists gk; refine (conj Hg (conj _ (conj _ (conj _ (conj _ (conj _ _))))));
    [ gext_solve
    | rewrite Hc; f_equal; lia
    | match goal with Ht : _ = true -> (_, _) = (0, 0) |- _ => pend_solve Ht end
    | cbn [app]; repeat (apply Forall_app; split);
      first [ apply Forall_nil | item_new | eassumption | eapply Forall_item_ext; [|eassumption]; gext_solve | idtac ]
    | ne_solve; try notend_solve
    | try solve [grow_solve init] ]
  end.

Section SI2.
Variable init : binit.
Variable lit_ok : nat -> bool.
Notation ilo := (i_instr_len init).
Notation jlo := (i_jump_len init).
Notation IL := (il init).
Notation JL := (jl init).

Theorem inl_static : forall t, P_inl init lit_ok t.
Proof.
  induction t as [ix d l r IHl IHr] using tree_ind'.
  intros lst cond tail n rj cx s s' ps its g q v Hbal Hlst Hcond Hinl Hg Hc Ht Hcont.
  cbn [inl] in Hinl. cbv zeta in Hinl. cbn [bal] in Hbal. cbv zeta in Hbal.
  destruct (kind_of d) eqn:Hk.
  all: repeat inv_ok.
  all: bal_prep Hbal.
  all: try (inversion Hbal; subst n; clear Hbal).
  all: pose_exts init lit_ok; kill_items init lit_ok.
  all: try pose proof (kvalue_eff _ _ _ Hk ltac:(assumption)).
  all: try pose proof (kunary_eff _ _ _ Hk).
  all: try pose proof (kbinary_eff _ _ _ Hk).
  all: try match goal with H : opt_b registers (Some _) = false, Hb : bal None false false _ = Some 1 |- _ =>
                cbn [opt_b] in H; apply (bal_cond_irrelevant _ _ _ _ H) in Hb end.
  all: repeat first [ child init lit_ok Ht Hcont | eff_step init q v Hcont | hole_step init q v Hk | join_step init q v ].
  all: try solve [fin init].
  - (* else-chain head: the registered arms become bodies that end at the join *)
    subst n0. rewrite ?Nat.add_0_r in *.
    assert (Hil : ilo < IL c) by (pose proof (Hgr0 (le_n 1)); pose proof (il_ge init s1); lia).
    pose proof (step_join init g1 c Hg Hil) as Hg2.
    assert (Hjoin : In (JL c, (q + 1, v)) (gjoin (gjoin_add g1 (JL c) (gcur g1)))) by (left; rewrite Hc; reflexivity).
    assert (Hx2 : gext g1 (gjoin_add g1 (JL c) (gcur g1))) by apply gext_join_add.
    assert (Hc2 : gcur (gjoin_add g1 (JL c) (gcur g1)) = (q + 1, v)) by exact Hc.
    set (g2 := gjoin_add g1 (JL c) (gcur g1)) in *. clearbody g2.
    exists g2. refine (conj Hg2 (conj _ (conj Hc2 (conj _ (conj (Forall_nil _) (conj _ _)))))).
    + gext_solve.
    + change (Forall (pend_g g2) ((p1 ++ p2) ++ map (fun it : tree * nat => mkP (fst it) (cx_containing cx) (snd it) [(I_JumpTo, ONum (JL c))]) (p0 :: l1))).
      rewrite Hi. apply Forall_app. split; [pend_solve Ht|].
      apply Forall_map. apply Forall_app. split.
      * eapply Forall_impl; [|exact Hit]. intros it Hit'. cbv beta.
        apply (item_to_pend g2 q v tail it); [eapply item_g_ext; [|exact Hit']; gext_solve | exact Ht | exact Hjoin].
      * eapply Forall_impl; [|exact Hit0]. intros it Hit'. cbv beta.
        apply (item_to_pend g2 q v tail it); [eapply item_g_ext; [|exact Hit']; gext_solve | exact Ht | exact Hjoin].
    + ne_solve.
    + grow_solve init.
  - (* ^~ : back to the start of the expression, nothing pending *)
    assert (Hz : (q, v) = (0, 0)) by (apply Ht; exact H).
    assert (Htg : tgt init g1 (emit s1 (I_UpdateValue, ONone) (Some ix)) (cx_containing cx) (gcur g1)).
    { rewrite Hc, Hz. apply (cont_tgt init); [exact Hg | cont_solve init Hcont]. }
    pose proof (step_jumpto init g1 _ (cx_containing cx) (Some ix) (q + 1, v) Hg Htg) as Hg2.
    absg q v g1 Hg2. clear Hg Hc.
    fin init.
Qed.
End SI2.
