(* C07: executable models of the index / length arithmetic and slicing at the
   inventoried panic sites that are reachable from execute_current_instruction
   (tools/panic_map.json, class "model").  [Panic site] wherever the Rust would
   unwind: `a - b` on usize with b > a (debug profile), `v[i]` with i >= len,
   `&v[s..e]` with s > e or e > len, `a % 0`, `unimplemented!()`.
   usize addition is unbounded (DESIGN.md section 3: 2^64 cells are unreachable).
   Definitions whose name ends in _v0 transliterate the code BEFORE a `fix:`
   commit; they exist only for the regression witnesses in Proofs/C07.
   No proofs in this file. *)
From Coq Require Import ZArith NArith List Bool.
From Flocq Require Import IEEE754.Binary IEEE754.Bits.
From GV Require Import Base.Result Model.Num.
Import ListNotations.
Local Open Scope N_scope.

(* ---------------------------------------------------------------- sites *)
(* One code per group of inventoried sites; the number is the smallest id of
   the group in tools/panic_map.json. *)
Definition site_equality_start : N := 1.
Definition site_make_list_start : N := 2.
Definition site_simple_assoc_mod : N := 8.
Definition site_simple_end_list : N := 20.
Definition site_concat_window : N := 36.
Definition site_size_iter : N := 59.
Definition site_vec_iter : N := 61.
Definition site_block_prefix : N := 71.
Definition site_block_get : N := 90.
Definition site_block_push : N := 99.
Definition site_realloc : N := 100.
Definition site_bsearch : N := 121.
Definition site_assoc_slice : N := 130.
Definition site_iter_slice : N := 132.
Definition site_concat_iter : N := 137.
Definition site_end_list_slice : N := 138.
Definition site_pop_frame : N := 139.
Definition site_bytes_conv : N := 144.
Definition site_bytes_to_i32 : N := 149.
Definition site_concat_unimplemented : N := 156.
Definition site_range_list_len_v0 : N := 9001.   (* casting.rs `end - start + 1` on addresses, fixed in 28920b5 *)
Definition site_start_list_mul_v0 : N := 9002.   (* garnish_impl.rs `len * 2`, fixed in 1899824 *)
Definition site_num_prim : N := 9003.            (* i32::overflowing_div / overflowing_rem with a zero divisor, `<<` / `>>` with a count outside 0..31 *)

(* ----------------------------------------------------- checked primitives *)
Definition usize_max : N := 18446744073709551615.

(* `a - b` on usize, debug profile *)
Definition usub (site a b : N) : res N := if b <=? a then Ok (a - b) else Panic site.
(* `a * b` on usize, debug profile *)
Definition umul (site a b : N) : res N := if a * b <=? usize_max then Ok (a * b) else Panic site.
(* `a % b` *)
Definition umod (site a b : N) : res N := if b =? 0 then Panic site else Ok (a mod b).
(* `v[i]` *)
Definition vec_index (site len i : N) : res N := if i <? len then Ok i else Panic site.
(* `&v[s..e]` *)
Definition vec_slice (site len s e : N) : res (N * N) :=
  if (s <=? e) && (e <=? len) then Ok (s, e) else Panic site.

(* ------------------------------------------------- number <-> usize casts *)
(* `f as usize`: truncate toward zero, saturate, NaN -> 0 *)
Definition f64_as_usize (f : binary64) : N :=
  match f with
  | Binary.B754_nan _ _ _ _ _ => 0
  | Binary.B754_zero _ _ _ => 0
  | Binary.B754_infinity _ _ s => if s then 0 else usize_max
  | Binary.B754_finite _ _ s m e _ =>
      if s then 0
      else N.min usize_max (Z.to_N (if (0 <=? e)%Z then (Z.pos m * 2 ^ e)%Z else (Z.pos m / 2 ^ (- e))%Z))
  end.
(* From<SimpleNumber> for usize: Integer(v) => v.max(0) as usize, Float(v) => v.max(0.0) as usize.
   (f64::max returns 0.0 for a NaN or negative v; `as usize` maps those to 0 as well, so the
   composition is [f64_as_usize].) *)
Definition usize_of_num (x : num) : N :=
  match x with
  | Int v => Z.to_N (Z.max v 0)
  | Flt f => f64_as_usize f
  end.
(* `v as usize` for an i32 (sign-extending, wrapping) *)
Definition i32_as_usize (v : Z) : N := if (v <? 0)%Z then Z.to_N (v + 18446744073709551616) else Z.to_N v.
(* From<usize> for SimpleNumber: Integer(x as i32) *)
Definition size_to_number (n : N) : num := Int (wrap32 (Z.of_N n)).

(* PartialOrd on numbers as the runtime uses it (a comparison with NaN is false) *)
Definition num_ltb (a b : num) : bool := match num_partial_cmp a b with Some Lt => true | _ => false end.
Definition num_leb (a b : num) : bool := match num_partial_cmp a b with Some Lt | Some Eq => true | _ => false end.
Definition num_geb (a b : num) : bool := match num_partial_cmp a b with Some Gt | Some Eq => true | _ => false end.
Definition num_gtb (a b : num) : bool := match num_partial_cmp a b with Some Gt => true | _ => false end.

(* ------------------------------------------- GarnishNumber: primitive guards *)
(* The i32 primitives that can panic: overflowing_div / overflowing_rem on a zero
   divisor (Rust panics: "attempt to divide by zero"), raw `<<` / `>>` with a count
   outside 0..31 (debug profile).  [num_binop_res] is num_binop of Model/Num.v with
   those preconditions made explicit. *)
Definition div_prim (a b : Z) : res (Z * bool) :=
  if (b =? 0)%Z then Panic site_num_prim else Ok (overflowing_div a b).
Definition rem_prim (a b : Z) : res (Z * bool) :=
  if (b =? 0)%Z then Panic site_num_prim else Ok (overflowing_rem a b).
Definition flag_result (p : Z * bool) : option num := let '(v, o) := p in if o then None else Some (Int v).

Definition num_divide_res (l r : num) : res (option num) :=
  if is_zero_num r then Ok None else
  match l, r with
  | Int a, Int b => do p <- div_prim a b ; Ok (flag_result p)
  | _, _ => Ok (num_divide l r)
  end.
Definition num_integer_divide_res (l r : num) : res (option num) :=
  if is_zero_num r then Ok None else
  match l, r with
  | Int a, Int b => do p <- div_prim a b ; Ok (flag_result p)
  | _, _ => Ok (num_integer_divide l r)
  end.
Definition num_remainder_res (l r : num) : res (option num) :=
  if is_zero_num r then Ok None else
  match l, r with
  | Int a, Int b => do p <- rem_prim a b ; Ok (flag_result p)
  | _, _ => Ok (num_remainder l r)
  end.
(* shifts as written before deb7c97: `l << r` / `l >> r` *)
Definition raw_shift_v0 (left : bool) (l r : num) : res (option num) :=
  match l, r with
  | Int a, Int c =>
      if ((0 <=? c) && (c <=? 31))%Z
      then Ok (Some (Int (if left then wrap32 (a * 2 ^ c) else Z.shiftr a c)))
      else Panic site_num_prim
  | _, _ => Ok None
  end.
Definition num_binop_res (powf : binary64 -> binary64 -> binary64) (o : binop) (l r : num) : res (option num) :=
  match o with
  | OpDiv => num_divide_res l r
  | OpIntDiv => num_integer_divide_res l r
  | OpRem => num_remainder_res l r
  | _ => Ok (num_binop powf o l r)
  end.

(* ------------------------------------------------------ runtime crate sites *)
(* equality.rs perform_equality_check: `if len < two { Err }; let start = len - two` *)
Definition equality_start (register_len : N) : res N :=
  if register_len <? 2 then Err 1 else usub site_equality_start register_len 2.
(* list.rs make_list: `if len > register_len { Err }; let count = register_len - len` *)
Definition make_list_start (len register_len : N) : res N :=
  if register_len <? len then Err 1 else usub site_make_list_start register_len len.

(* range.rs range_len: end.subtract(start).or_num_err()?.increment().or_num_err() *)
Definition range_len (s e : num) : res num :=
  match num_subtract e s with
  | None => Err 2
  | Some d => match num_increment d with None => Err 2 | Some l => Ok l end
  end.
(* range.rs make_range_internal on two numbers: the stored (start, end) *)
Definition make_range_bounds (start_exclusive end_exclusive : bool) (a b : num) : res (num * num) :=
  do a' <- (if start_exclusive then match num_increment a with None => Err 2 | Some x => Ok x end else Ok a) ;
  do b' <- (if end_exclusive then Ok b else match num_increment b with None => Err 2 | Some x => Ok x end) ;
  Ok (a', b').

(* ------------------------------------------------------------ item getters *)
Inductive ckind : Type := KList | KChars | KBytes | KSyms.
Inductive dimpl : Type := Simple | Basic.

(* get_list_item / get_char_list_item / get_byte_list_item / get_symbol_list_item of
   SimpleGarnishData (data/src/runtime.rs) on a container of [len] items: the position read. *)
Definition simple_item (k : ckind) (len : N) (idx : num) : res (option N) :=
  match idx with
  | Int v =>
      let u := i32_as_usize v in
      if u <? len then Ok (Some u)
      else match k with KList => Ok None | _ => Err 3 end
  | Flt _ => Err 3
  end.
(* the same getters of BasicGarnishData (garnish_impl.rs) *)
Definition basic_item (k : ckind) (len : N) (idx : num) : res (option N) :=
  let index := usize_of_num idx in
  match k with
  | KList =>
      (* since cb187c5 (C16): a negative index names no item *)
      if num_ltb idx (Int 0) then Ok None
      else if len <=? index then Err 3 else Ok (Some index)
  | _ => if len <=? index then Ok None else Ok (Some index)
  end.
Definition get_item (i : dimpl) := match i with Simple => simple_item | Basic => basic_item end.

(* traits/src/helpers/concatenation.rs: inside `while i < len` the item at
   size_to_number(i) is fetched; `None => unimplemented!()` *)
Definition list_item_in_range (i : dimpl) (len pos : N) : res N :=
  match get_item i KList len (size_to_number pos) with
  | Ok (Some p) => Ok p
  | Ok None => Panic site_concat_unimplemented
  | Err c => Err c
  | Panic s => Panic s
  | OutOfFuel => OutOfFuel
  end.

(* runtime/src/runtime/list.rs index_list / index_char_list / index_byte_list / index_symbol_list:
   what `container . index` reads: [Ok None] = nothing (unit is pushed by access),
   [Ok (Some None)] = a unit value, [Ok (Some (Some p))] = the item at position p *)
Definition index_container (i : dimpl) (k : ckind) (len : N) (idx : num) : res (option (option N)) :=
  if num_ltb idx (Int 0) then Ok None
  else match k with
       | KList =>
           (* since the C16 repair: past the end is a unit value without asking the store *)
           if num_geb idx (size_to_number len) then Ok (Some None)
           else do r <- get_item i KList len idx ; Ok (Some r)
       | _ =>
           if num_geb idx (size_to_number len) then Ok None
           else do r <- get_item i k len idx ; Ok (Some r)
       end.
(* access_with_integer on a Range of two numbers *)
Definition access_range (s e idx : num) : res (option num) :=
  do len <- range_len s e ;
  if num_geb idx len then Ok None
  else match num_plus s idx with None => Err 2 | Some r => Ok (Some r) end.
(* access_with_integer on a Slice: the adjusted index *)
Definition slice_adjusted_index (slice_start idx : num) : res num :=
  match num_plus slice_start idx with None => Err 2 | Some r => Ok r end.

(* ------------------------------------------------------- ~# range -> list *)
(* casting.rs (Range, List), after 28920b5 *)
Definition range_list_len (s e : num) : res N :=
  do len <- range_len s e ;
  Ok (if num_leb s e then usize_of_num len else 0).
(* before: `let len = end - start + 1` on the ADDRESSES of the two numbers *)
Definition range_list_len_v0 (start_addr end_addr : N) : res N :=
  do d <- usub site_range_list_len_v0 end_addr start_addr ; Ok (d + 1).
(* the numbers the loop `while count <= end` adds: at most [fuel] of them *)
Fixpoint range_items (fuel : nat) (count e : num) : res (list num) :=
  match fuel with
  | O => OutOfFuel
  | S f =>
      if num_leb count e then
        match num_increment count with
        | None => Err 2
        | Some c' => do rest <- range_items f c' e ; Ok (count :: rest)
        end
      else Ok []
  end.
(* BasicGarnishData::start_list: allocation size, after 1899824 (checked_mul) and before *)
Definition basic_start_list_alloc (len : N) : res N := if len * 2 <=? usize_max then Ok (len * 2) else Err 4.
Definition basic_start_list_alloc_v0 (len : N) : res N := umul site_start_list_mul_v0 len 2.
(* the cast on either store: Simple ignores the announced length; Basic errs when the
   number of items added differs from it *)
Definition range_to_list (i : dimpl) (fuel : nat) (s e : num) : res (list num) :=
  do len <- range_list_len s e ;
  do _ <- (match i with Simple => Ok 0 | Basic => basic_start_list_alloc len end) ;
  do items <- range_items fuel s e ;
  match i with
  | Simple => Ok items
  | Basic => if N.of_nat (length items) =? len then Ok items else Err 5
  end.

(* --------------------------------------------- SimpleGarnishData internals *)
(* get_list_item_with_symbol: `if associations_len == 0 { return }; let i = sym as usize % associations_len` *)
Definition simple_assoc_probe_start (sym assoc_len : N) : res (option N) :=
  if assoc_len =? 0 then Ok None
  else do i <- umod site_simple_assoc_mod sym assoc_len ; Ok (Some i).

(* end_list: open-addressing placement of every item address into `ordered` (0 = free) *)
Definition nth_N {A} (l : list A) (i : N) : option A := nth_error l (N.to_nat i).
Fixpoint set_nth {A} (l : list A) (i : nat) (x : A) : list A :=
  match l, i with
  | [], _ => []
  | _ :: t, O => x :: t
  | h :: t, S j => h :: set_nth t j x
  end.
Definition len_N {A} (l : list A) : N := N.of_nat (length l).
Fixpoint place_probe (fuel : nat) (ordered : list N) (len i count item : N) : res (list N) :=
  match fuel with
  | O => OutOfFuel
  | S f =>
      do _ <- vec_index site_simple_end_list (len_N ordered) i ;           (* ordered[i] *)
      match nth_N ordered i with
      | Some 0 | None =>
          Ok (set_nth ordered (N.to_nat i) item)                             (* ordered[i] = item *)
      | Some _ =>
          let i1 := i + 1 in
          let i2 := if len <=? i1 then 0 else i1 in
          let c := count + 1 in
          if len <? c then Err 6 else place_probe f ordered len i2 c item
      end
  end.
Fixpoint place_all (assocs : list N) (todo : list N) (index : N) (ordered : list N) : res (list N) :=
  match todo with
  | [] => Ok ordered
  | _ :: rest =>
      let len := len_N assocs in
      do _ <- vec_index site_simple_end_list len index ;                     (* associations[index] *)
      match nth_N assocs index with
      | None => Panic site_simple_end_list
      | Some item =>
          do i <- umod site_simple_end_list item len ;                        (* item % associations.len() *)
          do ordered' <- place_probe (S (S (length assocs))) ordered len i 0 item ;
          place_all assocs rest (index + 1) ordered'
      end
  end.
Definition simple_end_list (assocs : list N) : res (list N) :=
  place_all assocs assocs 0 (repeat 0 (length assocs)).

(* collect_concatenation_indices, slice of a concatenation: skip / take counts.
   After 59cf91b the count is computed in i64 and clamped; before it was
   `(end - start) as usize + 1` with i32 subtraction and usize addition. *)
Definition in_i64 (z : Z) : bool := ((-9223372036854775808 <=? z) && (z <=? 9223372036854775807))%Z.
Definition simple_concat_slice_window (s e : Z) : res (N * N) :=
  let d := (e - s + 1)%Z in
  if in_i64 (e - s) && in_i64 d then Ok (i32_as_usize s, Z.to_N (Z.max d 0)) else Panic site_concat_window.
Definition simple_concat_slice_window_v0 (s e : Z) : res (N * N) :=
  if in_i32 (e - s) then
    let c := i32_as_usize (e - s) in
    if c + 1 <=? usize_max then Ok (i32_as_usize s, c + 1) else Panic site_concat_window
  else Panic site_concat_window.

(* ------------------------------------------------------------ iterators *)
(* SizeIterator::next *)
Definition size_iter_next (front back : N) : res (option N * N) :=
  if back <=? front then Ok (None, front)
  else let f' := front + 1 in do v <- usub site_size_iter f' 1 ; Ok (Some v, f').
(* SizeIterator::next_back *)
Definition size_iter_next_back (front back : N) : res (option N * N) :=
  if (back =? 0) || (back <=? front) then Ok (None, back)
  else do b' <- usub site_size_iter back 1 ; Ok (Some b', b').
(* DataIndexIterator / SymbolListPartIterator / ByteListIterator / CharListIterator ::next *)
Definition vec_iter_next (len current : N) : res (option N * N) :=
  if len <=? current then Ok (None, current)
  else do i <- vec_index site_vec_iter len current ; Ok (Some i, current + 1).

(* ------------------------------------------------ BasicGarnishData: blocks *)
Record block : Type := { b_start : N; b_cursor : N; b_size : N }.
(* get_from_*_block_ensure_index *)
Definition block_get (heap_len : N) (b : block) (index : N) : res N :=
  if b_cursor b <=? index then Err 7
  else vec_index site_block_get heap_len (b_start b + index).
(* push_to_block *)
Definition block_push (heap_len : N) (b : block) : res block :=
  do _ <- vec_index site_block_push heap_len (b_start b + b_cursor b) ;
  Ok {| b_start := b_start b; b_cursor := b_cursor b + 1; b_size := b_size b |}.
(* `&heap[block.start .. block.start + block.cursor]` (symbol table search in get_symbol_string) *)
Definition block_prefix_slice (heap_len : N) (b : block) : res (N * N) :=
  vec_slice site_block_prefix heap_len (b_start b) (b_start b + b_cursor b).
(* reallocate_heap, one block: for i in 0..cursor { new_heap[new_start + i] = heap[old_start + i] } *)
Fixpoint realloc_copy (n : nat) (new_len new_start old_len old_start : N) : res unit :=
  match n with
  | O => Ok tt
  | S k =>
      do _ <- realloc_copy k new_len new_start old_len old_start ;
      do _ <- vec_index site_realloc new_len (new_start + N.of_nat k) ;
      do _ <- vec_index site_realloc old_len (old_start + N.of_nat k) ;
      Ok tt
  end.

(* ------------------------------------- BasicGarnishData: runs in the data block *)
(* utils.rs extents_to_start_end, after 1ec95bd and before *)
Definition extents_to_start_end (es ee : num) (base len : N) : N * N :=
  let s := base + 1 + N.min (usize_of_num es) len in
  let e := base + 1 + N.min (usize_of_num ee) len in
  (s, N.max e s).
Definition extents_to_start_end_v0 (es ee : num) (base len : N) : N * N :=
  (base + 1 + N.min (usize_of_num es) len, base + 1 + N.min (usize_of_num ee) len).
(* get_char_list_iter / get_byte_list_iter / get_symbol_list_iter / get_list_item_iter:
   `&heap[start..end]` for a run of [len] cells whose header is at data index [i] *)
Definition basic_iter_slice (heap_len : N) (d : block) (i len : N) (es ee : num) : res (N * N) :=
  let '(s, e) := extents_to_start_end es ee (b_start d + i) len in
  vec_slice site_iter_slice heap_len s e.
Definition basic_iter_slice_v0 (heap_len : N) (d : block) (i len : N) (es ee : num) : res (N * N) :=
  let '(s, e) := extents_to_start_end_v0 es ee (b_start d + i) len in
  vec_slice site_iter_slice heap_len s e.
(* number of items the iterator yields *)
Definition iter_count (i : dimpl) (len : N) (es ee : num) : res N :=
  match i with
  | Simple => Ok len                       (* SimpleGarnishData ignores the extents *)
  | Basic => let '(s, e) := extents_to_start_end es ee 0 len in
             do r <- vec_slice site_iter_slice (len + 1) s e ; Ok (snd r - fst r)
  end.
Definition iter_count_v0 (len : N) (es ee : num) : res N :=
  let '(s, e) := extents_to_start_end_v0 es ee 0 len in
  do r <- vec_slice site_iter_slice (len + 1) s e ; Ok (snd r - fst r).
(* get_concatenation_iter: `items[start..end]`, after 1ec95bd *)
Definition concat_iter_window (items_len : N) (es ee : num) : res (N * N) :=
  let s := N.min (usize_of_num es) items_len in
  let e := N.max (N.min (usize_of_num ee) items_len) s in
  vec_slice site_concat_iter items_len s e.
Definition concat_iter_window_v0 (items_len : N) (es ee : num) : res (N * N) :=
  vec_slice site_concat_iter items_len (N.min (usize_of_num es) items_len) (N.min (usize_of_num ee) items_len).
(* get_symbol_string: the characters of the CharList(n) run at data index i *)
Definition data_run_slice (heap_len : N) (d : block) (i n : N) : res (N * N) :=
  let s := b_start d + i + 1 in vec_slice site_block_prefix heap_len s (s + n).
(* get_list_item_with_symbol: the association table of the List(len, n) run at data index i *)
Definition basic_assoc_slice (heap_len : N) (d : block) (i len n : N) : res (N * N) :=
  let s := b_start d + i + len + 1 in vec_slice site_assoc_slice heap_len s (s + n).
(* end_list: the association half of the UninitializedList(len, _) run at data index i *)
Definition basic_end_list_slice (heap_len : N) (d : block) (i len : N) : res (N * N) :=
  let s := b_start d + i + 1 + len in vec_slice site_end_list_slice heap_len s (s + len).
(* pop_frame: `get_from_data_block_ensure_index(index - 1)` *)
Definition pop_frame_index (frame : N) : res N := usub site_pop_frame frame 1.
(* conversions/bytes.rs: `self.data()[from + 1 .. from + 1 + length]` -- block-relative
   indices applied to the whole heap *)
Definition bytes_conv_slice (heap_len from length : N) : res (N * N) :=
  vec_slice site_bytes_conv heap_len (from + 1) (from + 1 + length).
(* conversions/number.rs: `if bytes.len() > 4 { None }; for (i, b) in bytes { conversion_bytes[i] = b }` *)
Fixpoint bytes_copy (n : nat) : res unit :=
  match n with
  | O => Ok tt
  | S k => do _ <- bytes_copy k ; do _ <- vec_index site_bytes_to_i32 4 (N.of_nat k) ; Ok tt
  end.
Definition bytes_to_i32_index (len : N) : res bool :=
  if 4 <? len then Ok false else do _ <- bytes_copy (N.to_nat len) ; Ok true.

(* search.rs search_for_associative_item_index on a slice of [len] items; [greater mid]
   is the outcome of the comparison at position mid *)
Fixpoint bsearch_loop (fuel : nat) (len base size : N) (greater : N -> bool) : res N :=
  match fuel with
  | O => OutOfFuel
  | S f =>
      if size <=? 1 then Ok base
      else
        let half := size / 2 in
        let mid := base + half in
        do _ <- vec_index site_bsearch len mid ;
        let base' := if greater mid then base else mid in
        do size' <- usub site_bsearch size half ;
        bsearch_loop f len base' size' greater
  end.
Definition bsearch (len : N) (greater : N -> bool) : res (option N) :=
  if len =? 0 then Ok None
  else do b <- bsearch_loop (S (N.to_nat len)) len 0 len greater ;
       do _ <- vec_index site_bsearch len b ; Ok (Some b).

(* ---------------------------------------------------------- recursion depth *)
(* add_to_current_char_list (Simple), convert_with_delegate and
   convert_basic_data_at_to_bytes (Basic, since 57d5bbf): every recursive call
   passes depth + 1 and the function returns at once when depth >= max.
   [render_depth max depth t] is the deepest level at which a call is entered. *)
Inductive vtree : Type := VLeaf | VNode (l r : vtree).
Fixpoint render_depth (max depth : nat) (t : vtree) : nat :=
  if Nat.leb max depth then depth
  else match t with
       | VLeaf => depth
       | VNode l r => Nat.max (render_depth max (S depth) l) (render_depth max (S depth) r)
       end.
(* without the bound the deepest call is the height of the value *)
Fixpoint vheight (t : vtree) : nat :=
  match t with VLeaf => O | VNode l r => S (Nat.max (vheight l) (vheight r)) end.
Fixpoint left_spine (n : nat) : vtree := match n with O => VLeaf | S k => VNode (left_spine k) VLeaf end.

(* --------------------------------------------------------------- a whole run *)
(* The shape of the full statement: a machine with an invariant whose every
   step is Ok or Err never panics.  [run] iterates a step function. *)
Section Run.
  Variable state : Type.
  Variable step : state -> res state.
  Fixpoint run (n : nat) (s : state) : res state :=
    match n with
    | O => Ok s
    | S k => do s' <- step s ; run k s'
    end.
End Run.
