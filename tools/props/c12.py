"""C12 Ordering comparisons agree with the natural order."""
import math, os, struct
from fractions import Fraction
import vplib
from vplib import Verdict, log
from props import c09

PID = "C12"
MANIFEST_ENTRY = {
 "level_claimed": {
  "category": "proof",
  "text": "Theorems in coq/Properties/C12.v about the executable model coq/Model/Compare.v of perform_comparison/cmp_list and the four operators (operator table and type-pair arms regenerated from comparison.rs into Gen/CmpTable.v on every run): for all i32/binary64 operands that are not NaN the pushed result is the natural order of the (extended) reals they denote (Flocq Bcompare_correct + exact i32->f64 promotion); for all chars, bytes, char lists and byte lists it is the code order / lexicographic order with the shorter prefix first (lex_compare, also characterised relationally); hence exactly one of a<b, a==b, a>b, `<=` is the negation of `>`, `>=` of `<`, and a<b iff b>a; every other type pair (all 21x21 except Slice x Slice) gives False for all four operators, a NaN operand gives unit, the result is never an error and the registers below the operands are untouched. The model is run against both data implementations on the numeric boundary lattice with int/float neighbours, all string pairs up to length 3 over {a,b,e-acute} and {0,1,255}, random longer ones and every cross-type pair on every check; an independent Python oracle (exact rationals, list order) checks the implementation and the relational facts directly.",
  "design_ref": "DESIGN.md section 8 C12"
 },
 "level_note": "Trusted: Coq kernel; Flocq's four standard-library axioms; extraction (ExtrOcamlBasic only); harness/valtree.rs, ocaml/cmp_driver.ml and this Python oracle. Modelled, not proved about the Rust: the item getters of the two data implementations (abstracted to 'a char/byte list is its item sequence'; tied by the correspondence run, both implementations), list lengths below 2^31. Slice x Slice (text slices, ordered from their range starts) is outside the property and outside the model.",
 "technique": "Coq proof (Flocq, induction on lists, finite type dispatch by computation) over an executable model + generated operator/arm table + differential correspondence with both data implementations"
}
OPS = ["lt", "le", "gt", "ge", "eq", "ne"]
ORDER_LETTERS = {"Lt": "TTFFFT", "Eq": "FTFTTF", "Gt": "FFTTFT", "Unit": "UUUUFT"}
I32_MIN, I32_MAX = -2**31, 2**31 - 1


# ------------------------------------------------------------------ encoding
def hx(v):
    return ("-%x" % -v) if v < 0 else ("%x" % v)


def enc_i(v): return "i" + hx(v)
def enc_f(x): return "f%016x" % struct.unpack("<Q", struct.pack("<d", x))[0]
def enc_fbits(b): return "f%016x" % b
def enc_chars(cs): return "C[" + ",".join("%x" % c for c in cs) + "]"
def enc_bytes(bs): return "B[" + ",".join("%x" % b for b in bs) + "]"


def split_case(case):
    """two top-level values of a case line"""
    out, depth, cur = [], 0, ""
    for ch in case:
        if ch in "([": depth += 1
        if ch in ")]": depth -= 1
        if ch == " " and depth == 0:
            if cur: out.append(cur)
            cur = ""
        else:
            cur += ch
    if cur: out.append(cur)
    return out


def parse_simple(tok):
    """(kind, python value) for the comparable kinds, ('other', type tag) else."""
    k = tok[0]
    if k == "i": return ("num", int(tok[1:], 16))
    if k == "f": return ("num", struct.unpack("<d", struct.pack("<Q", int(tok[1:], 16)))[0])
    if k == "c": return ("char", int(tok[1:], 16))
    if k == "b": return ("byte", int(tok[1:], 16))
    if k in "CB":
        body = tok[2:-1]
        return ("chars" if k == "C" else "bytes", [int(x, 16) for x in body.split(",") if x])
    if k == "(":
        return ("other", tok[1])
    return ("other", k)


# ------------------------------------------------ independent property oracle
def exact(x):
    if isinstance(x, int): return Fraction(x)
    if math.isinf(x): return None
    return Fraction(x)


def num_order(a, b):
    """'Lt'/'Eq'/'Gt' by exact rational comparison (infinities at the ends), 'Unit' for NaN."""
    for x in (a, b):
        if isinstance(x, float) and x != x:
            return "Unit"
    def key(x):
        if isinstance(x, float) and math.isinf(x):
            return (1 if x > 0 else -1, Fraction(0))
        return (0, exact(x))
    ka, kb = key(a), key(b)
    return "Lt" if ka < kb else ("Gt" if ka > kb else "Eq")


def oracle(case):
    """expected six letters; '-' at a position = no opinion (== outside C12's domain).
    Returns (letters, klass) or (None, 'slice') for Slice x Slice."""
    l, r = [parse_simple(t) for t in split_case(case)]
    if l[0] == r[0] and l[0] != "other":
        if l[0] == "num":
            o = num_order(l[1], r[1])
            kinds = "".join("f" if isinstance(x, float) else "i" for x in (l[1], r[1]))
            return ORDER_LETTERS[o], "num_" + kinds + ("_nan" if o == "Unit" else "")
        a, b = l[1], r[1]
        o = "Lt" if a < b else ("Gt" if a > b else "Eq")   # Python list order is lexicographic, prefix first
        return ORDER_LETTERS[o], l[0]
    if l == ("other", "Z") and r == ("other", "Z"):
        return None, "slice"
    return "FFFF--", "cross"


def classify(case, impl, exp):
    """known-findings classifier: no listed findings for C12."""
    return None


# ---------------------------------------------------------------- generators
def f_of_bits(b):
    return struct.unpack("<d", struct.pack("<Q", b))[0]


def bits_of(x):
    return struct.unpack("<Q", struct.pack("<d", x))[0]


def next_up(x):
    if x != x or x == math.inf: return x
    if x == 0.0: return 5e-324
    b = bits_of(x)
    return f_of_bits(b + 1 if x > 0 else b - 1)


def next_down(x):
    return -next_up(-x)


NAN_BITS = [0x7ff8000000000000, 0xfff8000000000001, 0x7ff0000000000001]


def numeric_values(tier):
    ks = range(0, 32) if tier == "thorough" else (0, 1, 2, 8, 16, 24, 30, 31)
    ints = c09.lattice(ks)
    vals = [enc_i(z) for z in ints]
    fl = set(c09.FLOATS) | {math.inf, -math.inf}
    step = 1 if tier == "thorough" else 3
    for idx, z in enumerate(ints):
        f = float(z)
        fl.add(f)
        if idx % step == 0 or abs(z) >= 2**31 - 2 or abs(z) <= 2:
            fl.update([next_up(f), next_down(f), z + 0.5, z - 0.5])
    # values an i32 cannot hold, next to the range ends, and 2^53 neighbours
    fl.update([2147483648.0, -2147483649.0, 2147483647.5, -2147483648.5, 9007199254740992.0, 9007199254740994.0])
    vals += [enc_f(x) for x in sorted(fl)]
    vals += [enc_fbits(b) for b in NAN_BITS]
    return vals


def strings_upto(alpha, n):
    out = [[]]
    layer = [[]]
    for _ in range(n):
        layer = [s + [a] for s in layer for a in alpha]
        out += layer
    return out


CHAR_ALPHA = [0x61, 0x62, 0xe9]          # a, b, e-acute (two bytes in UTF-8)
BYTE_ALPHA = [0x00, 0x01, 0xff]
CHARS = [0x0, 0x41, 0x61, 0x62, 0x7f, 0x80, 0xe9, 0x7ff, 0x800, 0x20ac, 0xd7ff, 0xe000, 0xffff, 0x10000, 0x1f600, 0x10ffff]
BYTES = [0x00, 0x01, 0x61, 0x7f, 0x80, 0xfe, 0xff]
WIDE = [0x61, 0x62, 0x7a, 0xe9, 0x20ac, 0x1f600]

REPRESENTATIVES = [
    "U", "T", "F", "Y2", "i5", "f4014000000000000", "c61", "C[61]", "C[]", "b61", "B[61]", "B[]", "s10", "S[1,2]",
    "(P i1 i2)", "(R i1 i3)", "(K i1 i2)", "(Z (L i1 i2 i3) (R i0 i1))", "(Z C[61,62,63] (R i0 i1))",
    "(A i1 i2)", "(L i1 i2)", "(L)", "E1", "X1",
]


def is_slice(tok):
    return tok.startswith("(Z ")


def gen_cases(tier, seed):
    rng = vplib.rng_for(seed, "C12")
    cases = []
    nums = numeric_values(tier)
    for a in nums:
        for b in nums:
            cases.append("%s %s" % (a, b))
    # random numbers, both orders (for the swap law)
    n_rand = 60000 if tier == "thorough" else 3000
    for _ in range(n_rand):
        def rnd():
            t = rng.random()
            if t < 0.4: return enc_i(rng.randint(I32_MIN, I32_MAX))
            if t < 0.55: return enc_i(rng.randint(-1000, 1000))
            if t < 0.75: return enc_f(math.ldexp(rng.random() * 2 - 1, rng.randint(-1074, 1023)))
            if t < 0.9: return enc_f(float(rng.randint(I32_MIN, I32_MAX)) + rng.choice([0.0, 0.5, -0.5, 0.25]))
            return enc_fbits(rng.getrandbits(64))
        a, b = rnd(), rnd()
        cases.append("%s %s" % (a, b))
        cases.append("%s %s" % (b, a))
    # chars and bytes
    for a in CHARS:
        for b in CHARS:
            cases.append("c%x c%x" % (a, b))
    for a in BYTES:
        for b in BYTES:
            cases.append("b%x b%x" % (a, b))
    # all pairs of short strings
    cs = strings_upto(CHAR_ALPHA, 3)
    for a in cs:
        for b in cs:
            cases.append("%s %s" % (enc_chars(a), enc_chars(b)))
    bs = strings_upto(BYTE_ALPHA, 3)
    for a in bs:
        for b in bs:
            cases.append("%s %s" % (enc_bytes(a), enc_bytes(b)))
    # random longer ones: a base string and near neighbours (prefix, extension, one item changed)
    n_long = 4000 if tier == "thorough" else 400
    for _ in range(n_long):
        for alpha, enc in ((WIDE, enc_chars), (list(range(256)), enc_bytes)):
            n = rng.randint(4, 40 if tier == "thorough" else 14)
            base = [rng.choice(alpha) for _ in range(n)]
            t = rng.random()
            if t < 0.25:
                other = base[:rng.randint(0, n)]
            elif t < 0.5:
                other = base + [rng.choice(alpha) for _ in range(rng.randint(1, 3))]
            elif t < 0.85:
                other = list(base)
                other[rng.randrange(n)] = rng.choice(alpha)
            else:
                other = [rng.choice(alpha) for _ in range(rng.randint(0, n))]
            cases.append("%s %s" % (enc(base), enc(other)))
            cases.append("%s %s" % (enc(other), enc(base)))
    # every cross-type pair (and the same-type pairs of the representatives)
    for a in REPRESENTATIVES:
        for b in REPRESENTATIVES:
            if is_slice(a) and is_slice(b):
                continue
            cases.append("%s %s" % (a, b))
    seen, out = set(), []
    for c in cases:
        if c not in seen:
            seen.add(c)
            out.append(c)
    return out


# ----------------------------------------------------------------- the check
TRUSTED = vplib.BASE_TRUSTED + [
    "axioms (Print Assumptions): the four standard-library axioms Flocq's real-number development depends on",
    "tools/sync/cmptable.py extracts the operator table and the arms of perform_comparison (exercised by the correspondence run)",
    "item getters of the data implementations are abstracted (char/byte list = item sequence, length = item count); tied by correspondence on both implementations",
    "tools/props/c12.py: independent oracle (exact rationals for int/float order, Python list order for lexicographic order)",
]


def run_pair(cases):
    text = "\n".join(cases) + "\n"
    exe = vplib.private_copy(vplib.harness_bin("cmp"))   # a concurrent rebuild cannot replace it mid-run
    try:
        rc, impl = vplib.run_lines([exe], text, timeout=1200)
    finally:
        os.unlink(exe)
    if rc != 0 or len(impl) != len(cases):
        return None, None, "cmp harness rc=%s lines=%d/%d" % (rc, len(impl), len(cases))
    if not os.path.exists(vplib.OCAML_BUILD + "/cmp_driver"):
        return impl, None, "cmp_driver missing"
    rc, model = vplib.run_lines([vplib.OCAML_BUILD + "/cmp_driver"], "\n".join(impl) + "\n", timeout=1800)
    if rc != 0 or len(model) != len(cases):
        return impl, None, "cmp_driver rc=%s lines=%d/%d %s" % (rc, len(model), len(cases), model[-1:] if model else "")
    return impl, model, None


def impl_letters(field):
    """'S=TTFFFT B=TTFFFT' -> {'S': [..6 tokens..], 'B': [...]} ; tokens keep a trailing * marker"""
    out = {}
    for part in field.split(" "):
        name, _, letters = part.partition("=")
        toks = []
        for ch in letters:
            if ch == "*" and toks:
                toks[-1] += "*"
            else:
                toks.append(ch)
        out[name] = toks
    return out


def judge(case, field, exp):
    """list of human-readable property failures of one implementation line against the oracle"""
    bad = []
    if field == "BADCASE":
        return ["harness could not parse the case"]
    for name, toks in impl_letters(field).items():
        if len(toks) != 6:
            bad.append("%s: unreadable result %s" % (name, toks))
            continue
        for k in range(4):
            if toks[k] != exp[k]:
                bad.append("%s: %s gives %s, natural order demands %s" % (name, OPS[k], toks[k], exp[k]))
        for k in (4, 5):
            if exp[k] != "-" and toks[k] != exp[k]:
                bad.append("%s: %s gives %s, expected %s" % (name, OPS[k], toks[k], exp[k]))
            if exp[k] == "-" and toks[k] not in ("T", "F"):
                bad.append("%s: %s gives %s (not a boolean / stack not restored)" % (name, OPS[k], toks[k]))
        if toks[4] in ("T", "F") and toks[5] in ("T", "F") and toks[4] == toks[5]:
            bad.append("%s: == and != agree (%s)" % (name, toks[4]))
    return bad


def relational(case, toks, rev):
    """the three relational facts of the property, evaluated on the implementation's own answers"""
    bad = []
    lt, le, gt, ge, eq, ne = toks
    if "U" in (lt, le, gt, ge):
        return bad
    if [lt, eq, gt].count("T") != 1:
        bad.append("not exactly one of a<b, a==b, a>b (%s %s %s)" % (lt, eq, gt))
    if (le == "T") == (gt == "T"):
        bad.append("a<=b is not the negation of a>b (%s %s)" % (le, gt))
    if (ge == "T") == (lt == "T"):
        bad.append("a>=b is not the negation of a<b (%s %s)" % (ge, lt))
    if rev is not None and rev[2] != lt:
        bad.append("a<b is %s but b>a is %s" % (lt, rev[2]))
    return bad


def run(tier, seed):
    v = Verdict(PID, tier, seed)
    v.assumptions = ["integer operands are in the i32 range; float operands are any binary64 (NaN gives unit)",
                     "char/byte lists are shorter than 2^31 items",
                     "Slice x Slice comparisons (text slices) are outside the property and not judged"]
    sy = vplib.sync(["instr", "cmptable"])
    for name, err in sy.get("errors", {}).items():
        v.tie_failure("sync %s: %s" % (name, err))
    pr = vplib.prove(PID, ["Proofs/C12"], extra_targets=["Extract/CmpExtract.vo"])
    for f in pr["failures"]:
        v.tie_failure("prove: " + f)
    if not pr["ok"]:
        vplib.coq_make(["Extract/CmpExtract.vo"], timeout=600)   # keep the executable model current even if a proof broke
    v.coverage.update(vplib.proof_coverage(
        pr, "make -C coq Properties/C12.vo && coqc Properties/C12.v (Print Assumptions) && tools/props/c12.py correspondence", TRUSTED))
    v.coverage["tables_regenerated"] = sy.get("changed", [])
    ok, out = vplib.cargo_build("debug", bins=["cmp"])
    if not ok:
        v.tie_failure("harness build failed: " + out[-400:])
    okm, outm = vplib.ocaml_build("cmp") if os.path.exists(vplib.OCAML_BUILD + "/cmp_model.ml") else (False, "no extracted model")
    if not okm:
        v.tie_failure("model driver build failed: " + outm[-300:])
    cases = gen_cases(tier, seed)
    hist = {"cases": len(cases), "model_disagreements": 0, "property_failures": 0, "slice_pairs_skipped": 0}
    klass_hist, outcome_hist = {}, {}
    distinct, samples = set(), []
    if ok:
        impl, model, err = run_pair(cases)
        if err:
            v.tie_failure("correspondence run: " + err)
        results = {}
        if impl is not None:
            for line in impl:
                case, field, _ = line.split("\t")
                results[case] = field
            listed = {f["id"] for f in vplib.findings_for(PID)}
            for i, line in enumerate(impl):
                case, field, _ = line.split("\t")
                exp, klass = oracle(case)
                klass_hist[klass] = klass_hist.get(klass, 0) + 1
                if exp is None:
                    hist["slice_pairs_skipped"] += 1
                    continue
                outcome_hist[exp[:4]] = outcome_hist.get(exp[:4], 0) + 1
                if klass != "cross":
                    distinct.add(case)
                mres = cspec = None
                if model is not None:
                    _, mres, cspec = model[i].split("\t")
                bad = judge(case, field, exp)
                if cspec in ("Lt", "Eq", "Gt") and ORDER_LETTERS[cspec] != exp:
                    bad.append("Coq spec order %s disagrees with the Python oracle %s" % (cspec, exp))
                if cspec == "NC" and exp[:4] != "FFFF":
                    bad.append("Coq spec says not comparable, Python oracle %s" % exp)
                if field != "BADCASE" and klass != "cross":
                    a, b = split_case(case)
                    rev_field = results.get("%s %s" % (b, a))
                    for name, toks in impl_letters(field).items():
                        if len(toks) == 6:
                            rev = impl_letters(rev_field).get(name) if rev_field and rev_field != "BADCASE" else None
                            bad += ["%s: %s" % (name, m) for m in relational(case, toks, rev if rev and len(rev) == 6 else None)]
                if len(samples) < 8 and i % max(1, len(impl) // 8) == 0:
                    samples.append({"case": case, "impl": field, "model": mres, "oracle": exp, "coq_order": cspec})
                if bad:
                    fid = classify(case, field, exp)
                    if fid and fid in listed:
                        v.known_hit(fid, "%s -> %s (expected %s)" % (case, field, exp))
                    else:
                        hist["property_failures"] += 1
                        v.violation(component="cmp", input=case, impl=field, expected=exp, model=mres, coq_order=cspec,
                                    what="; ".join(bad[:4]))
                elif mres is not None:
                    want = "S=%s B=%s" % (mres, mres)
                    got = field
                    if "-" in mres:   # == outside the C12 model: compare the four comparison letters only
                        parts = impl_letters(field)
                        got = " ".join("%s=%s" % (n, "".join(t[:4]) + "--") for n, t in parts.items())
                    if got != want:
                        hist["model_disagreements"] += 1
                        if hist["model_disagreements"] <= 5:
                            v.tie_failure("correspondence cmp: %s impl=%s model=%s" % (case, field, mres))
    v.coverage.update({
        "evaluations": len(cases) * 12,
        "distinct_nontrivial": len(distinct),
        "rule": "all ordered pairs from the C09 i32 boundary lattice, its float images and their one-ulp / half-unit neighbours, "
                "zeros, subnormals, infinities and NaNs; seeded random int/float pairs in both orders; all pairs of chars and "
                "bytes from boundary sets; all ordered pairs of strings up to length 3 over {a,b,e-acute} and {00,01,ff}; random "
                "longer strings against their prefixes, extensions and one-item mutants (1-4 byte UTF-8 letters); every pair of "
                "type representatives (24 values covering 19 types). Each case runs < <= > >= == != on both data "
                "implementations; non-trivial = both operands of one comparable kind",
        "samples": samples,
        "histogram": hist,
        "class_histogram": klass_hist,
        "expected_outcome_histogram": outcome_hist,
        "implementations": ["SimpleGarnishData", "BasicGarnishData"],
    })
    return v.finish("proof")


def replay(obj):
    cases = [x["input"] for x in obj.get("violations", []) if "input" in x]
    if not cases:
        print("replay names a broken tie, not an input:", obj.get("no_longer_checks"))
        return run("quick", obj.get("seed", 0))
    vplib.cargo_build("debug", bins=["cmp"])
    extra = []
    for c in cases:
        a, b = split_case(c)
        extra.append("%s %s" % (b, a))
    impl, model, err = run_pair(cases + extra)
    rc = 0
    results = {}
    for line in impl or []:
        case, field, _ = line.split("\t")
        results[case] = field
    for case in cases:
        field = results.get(case, "BADCASE")
        exp, klass = oracle(case)
        bad = judge(case, field, exp) if exp else []
        if exp and klass != "cross" and field != "BADCASE":
            a, b = split_case(case)
            rev_field = results.get("%s %s" % (b, a))
            for name, toks in impl_letters(field).items():
                rev = impl_letters(rev_field).get(name) if rev_field and rev_field != "BADCASE" else None
                if len(toks) == 6:
                    bad += ["%s: %s" % (name, m) for m in relational(case, toks, rev if rev and len(rev) == 6 else None)]
        if bad:
            rc = 1
        print("%s: %s impl=%s expected=%s %s" % ("FAILS" if bad else "ok", case, field, exp, "; ".join(bad[:3])))
    return rc
