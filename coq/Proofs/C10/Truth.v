(* C10, the truth-table clauses: exactly two values are false, and every
   construct that tests a value classifies every value of every type the same
   way; `&&` `||` `^^` `!!` `??` push only booleans.

   Finite: 3 generated falsy sets x 21 types; 7 constructs x 101 operand
   abstractions (x 101 for `^^`) x 3 host modes -- by [vm_compute], lifted with
   the completeness lemmas of Proofs/C08/Enum.v.

   The short-circuit / one-arm clauses of C10 speak about whole programs
   (compiler + evaluator model) and live in other files of this directory. *)
From Coq Require Import NArith List Bool Arith.
From GV Require Import Gen.Instr Gen.Exec Gen.Truth Gen.Dispatch Model.OpDispatch Spec.Falsy Proofs.C08.Enum
  Proofs.C10.Classify.
Import ListNotations.

(* ------------------------------------------ (a) the three sets are the spec's *)
Definition same_members (a b : list data_type) : bool :=
  forallb (fun t => Bool.eqb (existsb (data_type_eqb t) a) (existsb (data_type_eqb t) b)) all_data_type.

Lemma same_members_sound : forall a b, same_members a b = true -> forall t, In t a <-> In t b.
Proof.
  intros a b H t. unfold same_members in H. rewrite forallb_forall in H.
  specialize (H t (all_data_type_complete t)). apply Bool.eqb_prop in H.
  split; intros Hin.
  - assert (E : existsb (data_type_eqb t) a = true).
    { apply existsb_exists. exists t. split; [exact Hin | apply data_type_eqb_refl]. }
    rewrite H in E. apply existsb_exists in E. destruct E as [u [Hu Ht]].
    apply data_type_eqb_eq in Ht. subst u. exact Hu.
  - assert (E : existsb (data_type_eqb t) b = true).
    { apply existsb_exists. exists t. split; [exact Hin | apply data_type_eqb_refl]. }
    rewrite <- H in E. apply existsb_exists in E. destruct E as [u [Hu Ht]].
    apply data_type_eqb_eq in Ht. subst u. exact Hu.
Qed.

Definition falsy_sets_check : bool :=
  same_members is_true_value_falsy falsy && same_members jump_if_true_falsy falsy
  && same_members jump_if_false_falsy falsy.

Lemma falsy_sets_table : falsy_sets_check = true.
Proof. vm_compute. reflexivity. Qed.

Lemma falsy_sets_are_spec : forall t,
  (In t is_true_value_falsy <-> In t falsy) /\ (In t jump_if_true_falsy <-> In t falsy)
  /\ (In t jump_if_false_falsy <-> In t falsy).
Proof.
  intros t. pose proof falsy_sets_table as H. unfold falsy_sets_check in H.
  apply andb_true_iff in H. destruct H as [H H3]. apply andb_true_iff in H. destruct H as [H1 H2].
  repeat split; try (apply (same_members_sound _ _ H1)); try (apply (same_members_sound _ _ H2));
    try (apply (same_members_sound _ _ H3)).
Qed.

(* exactly two: unit and false *)
Lemma exactly_two_false : forall t, is_falsy t = true <-> (t = T_Unit \/ t = T_False).
Proof.
  intros t. split.
  - destruct t; cbn; intros H; try discriminate; auto.
  - intros [-> | ->]; reflexivity.
Qed.

(* ------------------- (b) how each construct classifies a value: Proofs/C10/Classify.v *)
Definition option_bool_eqb (a b : option bool) : bool :=
  match a, b with Some x, Some y => Bool.eqb x y | None, None => true | _, _ => false end.
Lemma option_bool_eqb_eq : forall a b, option_bool_eqb a b = true -> a = b.
Proof. intros [[]|] [[]|]; simpl; congruence. Qed.

Definition uniform_check : bool :=
  forallb (fun i => forallb (fun v => forallb (fun h =>
      option_bool_eqb (classify i v h) (Some (truth (o_ty v)))
      && option_bool_eqb (classify_xor_right v h) (Some (truth (o_ty v))))
    all_hosts) all_operands) testing_constructs.

Lemma uniform_table : uniform_check = true.
Proof. vm_compute. reflexivity. Qed.

Lemma every_construct_same_truth : forall i v h,
  In i testing_constructs -> wf_operand v = true ->
  classify i v h = Some (truth (o_ty v)) /\ classify_xor_right v h = Some (truth (o_ty v)).
Proof.
  intros i v h Hi Hv. pose proof uniform_table as H. unfold uniform_check in H.
  rewrite forallb_forall in H. specialize (H i Hi).
  rewrite forallb_forall in H. specialize (H v (all_operands_complete v Hv)).
  rewrite forallb_forall in H. specialize (H h (all_hosts_complete h)).
  apply andb_true_iff in H. destruct H as [H1 H2].
  split; apply option_bool_eqb_eq; assumption.
Qed.

(* `^^` on any two values is the exclusive or of their truth values *)
Definition xor_check (i : instruction) (l : operand) (r : option operand) (h : host_mode) : bool :=
  match r with
  | Some r' => implb (instruction_eqb i I_Xor)
      (outcome_eqb (step i l r h) (ok false 2 (TopBool (xorb (truth (o_ty l)) (truth (o_ty r'))))))
  | None => true
  end.
Lemma xor_matrix : for_matrix xor_check = true.
Proof. vm_compute. reflexivity. Qed.

Lemma xor_is_xor_of_truth : forall l r h, wf_operand l = true -> wf_operand r = true ->
  step I_Xor l (Some r) h = ok false 2 (TopBool (xorb (truth (o_ty l)) (truth (o_ty r)))).
Proof.
  intros l r h Hl Hr. pose proof (for_matrix_sound _ xor_matrix I_Xor l (Some r) h Hl Hr) as H.
  unfold xor_check in H. cbn [instruction_eqb] in H.
  replace (instruction_eqb I_Xor I_Xor) with true in H by reflexivity. cbn [implb] in H.
  apply outcome_eqb_eq. exact H.
Qed.

(* ------------------- (c) the logical operators leave only booleans behind *)
(* a well-shaped logical step is Ok, asks the host nothing, consumes its
   operand(s), and either pushes exactly one value which is True or False and
   does not jump, or (`&&`, `||` going on to their right operand) pushes
   nothing and jumps *)
Definition boolean_only (o : outcome) : bool :=
  rclass_eqb (res o) ROk && negb (data_dep o) && match calls o with [] => true | _ => false end
  && match top_is o, pushes o, jumps o with
     | TopBool _, 1, false => true
     | TopNone, 0, true => true
     | _, _, _ => false
     end.

Definition boolean_check (i : instruction) (l : operand) (r : option operand) (h : host_mode) : bool :=
  implb (logic_shape i r)
    (boolean_only (step i l r h)
     && (* `??`, `!!`, `^^` always push *)
     implb (existsb (instruction_eqb i) [I_Xor; I_Not; I_Tis]) (Nat.eqb (pushes (step i l r h)) 1)).

Lemma boolean_matrix : for_matrix boolean_check = true.
Proof. vm_compute. reflexivity. Qed.

Lemma logic_pushes_boolean : forall i l r h,
  wf_operand l = true -> wf_right r = true -> logic_shape i r = true ->
  let o := step i l r h in
  res o = ROk /\ calls o = [] /\
  ((exists b, top_is o = TopBool b /\ pushes o = 1 /\ jumps o = false)
   \/ (In i [I_And; I_Or] /\ top_is o = TopNone /\ pushes o = 0 /\ jumps o = true)).
Proof.
  intros i l r h Hl Hr Hs o. subst o.
  pose proof (for_matrix_sound _ boolean_matrix i l r h Hl Hr) as H.
  unfold boolean_check in H. rewrite Hs in H. cbn [implb] in H.
  apply andb_true_iff in H. destruct H as [H Hp].
  unfold boolean_only in H.
  apply andb_true_iff in H. destruct H as [H Htop].
  apply andb_true_iff in H. destruct H as [H Hcalls].
  apply andb_true_iff in H. destruct H as [H Hdep].
  apply rclass_eqb_eq in H.
  destruct (calls (step i l r h)) eqn:Ec; [|discriminate Hcalls].
  split; [exact H|]. split; [reflexivity|].
  destruct (top_is (step i l r h)) eqn:Et; try discriminate Htop.
  - (* TopNone: jumped, pushed nothing; only && and || can *)
    right.
    destruct (pushes (step i l r h)) eqn:Epu; [|discriminate Htop].
    destruct (jumps (step i l r h)) eqn:Ej; [|discriminate Htop].
    split; [|repeat split; reflexivity].
    destruct (existsb (instruction_eqb i) [I_Xor; I_Not; I_Tis]) eqn:Ex.
    + cbn [implb] in Hp. discriminate Hp.
    + clear - Hs Ex. unfold logic_shape, is_logic, logic_instructions in Hs.
      destruct i; destruct r; cbn in Hs, Ex; try discriminate; cbn; auto.
  - left. exists b.
    destruct (pushes (step i l r h)) as [|[|n]] eqn:Epu; try discriminate Htop.
    destruct (jumps (step i l r h)) eqn:Ej; try discriminate Htop.
    repeat split; reflexivity.
Qed.

(* non-vacuity: both classes are inhabited for every construct *)
Example truth_examples :
  classify I_JumpIfTrue (plain T_Number) HAbsent = Some true
  /\ classify I_JumpIfTrue (plain T_Unit) HAbsent = Some false
  /\ classify I_JumpIfFalse (plain T_False) HAbsent = Some false
  /\ classify I_And (plain T_List) HAbsent = Some true
  /\ classify I_Or (plain T_False) HAbsent = Some false
  /\ classify I_Xor (plain T_CharList) HAbsent = Some true
  /\ classify I_Not (plain T_Symbol) HAbsent = Some true
  /\ classify I_Tis (plain T_Unit) HAbsent = Some false.
Proof. vm_compute. repeat split; reflexivity. Qed.
