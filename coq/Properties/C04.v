(* C04  An accepted program accounts for every token, in order.
   Only statements, [exact] and [Print Assumptions] live here. *)
From Coq Require Import List Arith Bool NArith.
From GV Require Import Base.Result Gen.TokenTypes Gen.Defs Model.Parser Model.BuilderWL Spec.TreeShape
  Spec.TokenAccount
  Proofs.C03.Bounded Proofs.C03.Bounded4 Proofs.C04.Bounded Proofs.C04.Shape Proofs.C04.Validated Proofs.C04.Tokens Proofs.C04.TokensTree.
From GV Require Import Spec.RefTable Spec.Pratt Spec.Chains Proofs.C04.InOrder.
From GV Require Import Gen.Instr Model.Compile Proofs.C05.Known Proofs.C04.Attribution Proofs.C04.AttributionNodes Proofs.C04.ParserLeft.
Import ListNotations.

(* UNBOUNDED, for every token list: whenever parse accepts, the node links it returns
   form a tree.  [well_linked ns root]: there is a set of marked nodes containing the root
   such that every child index of a marked node exists, names that node as its parent and
   is itself marked, and every unmarked node is a dropped separator.  (parse validates its
   result with validate_tree, mirrored from parser.rs; the proof is the depth-first-search
   invariant of that validation.) *)
Theorem C04_accepted_parse_is_tree : forall (toks : list token_type) root ns,
  parse toks = Ok (root, ns) -> ns <> [] -> well_linked ns root.
Proof. exact parse_accepts_only_trees. Qed.
Print Assumptions C04_accepted_parse_is_tree.

(* ... and no node is shared: two marked nodes never have the same child *)
Theorem C04_no_shared_child : forall ns root, well_linked ns root ->
  forall v, (forall i, marked v i -> children_ok ns v i) ->
  forall i j c, marked v i -> marked v j -> child ns i c -> child ns j c -> i = j.
Proof. exact no_shared_child. Qed.
Print Assumptions C04_no_shared_child.

(* UNBOUNDED, for every token list: the node array of an accepted parse accounts for the
   tokens.  [accounted 0 toks None ls] says that the labels (definition, class, token index)
   of the nodes are, token by token and in token order: optionally the implicit space-list
   node, then either nothing - only for a token whose table definition is Drop (closing
   brackets, whitespace, annotations) or a separator, which may be dropped - or exactly one
   node carrying the token's index, its class and its table definition (an identifier after
   `.` is stored as Property).  Proof: no step of the main loop ever changes the label of an
   existing node; it only re-links nodes and appends. *)
Theorem C04_tokens_accounted : forall (toks : list token_type) root ns,
  parse toks = Ok (root, ns) -> accounted 0 (snd (trim_tokens toks)) None (labels ns).
Proof. exact parse_tokens_accounted. Qed.
Print Assumptions C04_tokens_accounted.

(* what [accounted] gives: the token indices of the nodes increase strictly with the node
   index (every token at most once, in order), every node that is not the implicit list
   belongs to a token and carries its definition, and every token that must have a node has one *)
Theorem C04_accounted_in_order : forall toks i lt added, accounted i toks lt added ->
  increasing (real_toks added) /\
  (forall l, In l added -> is_implicit l = false ->
     exists k t, nth_error toks (k - i) = Some t /\ i <= k /\ label_matches t k l) /\
  (forall j t, nth_error toks j = Some t -> never_a_node t = false -> maybe_dropped t = false ->
     exists l, In l added /\ label_matches t (i + j) l).
Proof.
  intros toks i lt added H. split; [exact (accounted_increasing _ _ _ _ H)|].
  split; [exact (accounted_sound _ _ _ _ H) | exact (accounted_complete _ _ _ _ H)].
Qed.
Print Assumptions C04_accounted_in_order.

(* ... and the node of every such token is part of the validated tree (both unbounded halves
   together): for every accepted program there is a marking containing the root, closed under
   children with agreeing parent links, that contains the node of every token which is neither
   Drop-defined nor a separator *)
Theorem C04_every_token_in_the_tree : forall (toks : list token_type) root ns,
  parse toks = Ok (root, ns) -> ns <> [] ->
  exists v : list bool,
    marked v root /\ (forall i, marked v i -> children_ok ns v i) /\
    forall k t, nth_error (snd (trim_tokens toks)) k = Some t ->
      never_a_node t = false -> maybe_dropped t = false ->
      exists j n, nth_error ns j = Some n /\ marked v j /\ label_matches t k (label_of n).
Proof. exact parse_tokens_in_tree. Qed.
Print Assumptions C04_every_token_in_the_tree.

(* non-vacuity: a program with an implicit list, a group, a property access and whitespace is
   accepted; its real token indices are 0 2 4 5 6 7 9 (whitespace 1 3, `)` 8 have no node) *)
Example C04_tokens_ex :
  match parse [TT_Number; TT_Whitespace; TT_Identifier; TT_Whitespace; TT_StartGroup; TT_Identifier; TT_Period;
               TT_Identifier; TT_EndGroup; TT_PlusSign; TT_Number] with
  | Ok (_, ns) => real_toks (labels ns) = [0; 2; 4; 5; 6; 7; 9; 10] /\
                  existsb is_implicit (labels ns) = true /\
                  existsb (fun l => definition_eqb (fst (fst l)) D_Property) (labels ns) = true
  | _ => False
  end.
Proof. vm_compute. repeat split; reflexivity. Qed.

(* what the boolean checker establishes, as Props: the root has no parent, the
   in-order walk from the root visits no node twice, child and parent links agree at
   every node it visits, and whatever it does not visit is a dropped separator *)
Theorem C04_checker_sound : forall ns root, ns <> [] -> proper_tree_b ns root = true ->
  (exists rn, nth_error ns root = Some rn /\ n_parent rn = None) /\
  exists o, inorder ns root = Some o /\ NoDup o /\
            (forall i, In i o -> links_agree_at ns i) /\
            (forall i n, nth_error ns i = Some n -> In i o \/ is_separator_node n = true).
Proof. exact proper_tree_b_sound. Qed.
Print Assumptions C04_checker_sound.

(* every token sequence of length <= 3 over ALL token types that parse and build
   accept: proper tree, tokens in source order, every value/operator node attributed *)
Theorem C04_bounded_3 : forall toks : list token_type, length toks <= 3 -> c04_ok toks = true.
Proof. exact c04_bounded_3. Qed.
Print Assumptions C04_bounded_3.

(* length 4 over the representative alphabet *)
Theorem C04_bounded_4_rep : forall toks : list token_type,
  length toks = 4 -> (forall t, In t toks -> In t rep_alphabet) -> c04_ok toks = true.
Proof. intros toks Hl Hin. exact (proj2 (pipeline_bounded_4_rep toks Hl Hin)). Qed.
Print Assumptions C04_bounded_4_rep.

(* parse validates its own result (validate_tree in parser.rs, mirrored in the model), so a
   node graph that is not a tree is reported as a syntax error; what used to be known finding
   C04-K1 (`[ ] -- 5`: the expression after a side-effect block was detached) is now rejected *)
Example C04_former_K1_rejected :
  parse [TT_StartSideEffect; TT_EndSideEffect; TT_Opposite; TT_Number] = Err E_malformed.
Proof. vm_compute. reflexivity. Qed.

(* full statement (not proved for unbounded length) *)
Definition C04_full_statement : Prop :=
  forall toks : list token_type, c04_ok toks = true.

(* UNBOUNDED on the operator fragment, the walk order: for every token list on which the
   reference parser of C02 (Spec.Pratt) is defined -- every operator expression of any
   length and bracket depth: values, prefix / suffix / binary operators, the implicit space
   list, round brackets, whitespace anywhere (C02_full, C02_operator_expressions) -- parse
   accepts, the in-order walk of the accepted tree (Spec.TreeShape.inorder) visits the nodes
   0, 1, 2, ..., i.e. node indices are in source order, and the existing checker clause
   [tokens_in_order_b] holds: every visited node is the implicit list node or carries a token
   index, these indices increase strictly along the walk, and every token that is not
   trivia is met.  (The node labels follow the tokens by C04_tokens_accounted; what this
   adds is that the LINKS put them in the walk in that order.) *)
Theorem C04_in_order_operator_expressions : forall (toks : list token_type) (t : rtree),
  pratt toks = Some t ->
  exists root ns,
    parse toks = Ok (root, ns) /\ ns <> [] /\
    inorder ns root = Some (seq 0 (length ns)) /\
    tokens_in_order_b toks (fst (trim_tokens toks)) ns root = true.
Proof. exact in_order_when_reference_defined. Qed.
Print Assumptions C04_in_order_operator_expressions.

(* non-vacuity: the hypothesis holds on `(a + b) * -(c = (d e))~~ (1)` (23 tokens, brackets
   three deep, two implicit lists); its 17 nodes are walked in the order 0..16, and the
   token indices met are the 15 significant ones out of 23 *)
Example C04_in_order_ex :
  let toks := [TT_StartGroup; TT_Identifier; TT_Whitespace; TT_PlusSign; TT_Whitespace; TT_Identifier; TT_EndGroup;
               TT_MultiplicationSign; TT_Opposite; TT_StartGroup; TT_Identifier; TT_Pair; TT_StartGroup; TT_Identifier;
               TT_Whitespace; TT_Identifier; TT_EndGroup; TT_EndGroup; TT_EmptyApply;
               TT_Whitespace; TT_StartGroup; TT_Number; TT_EndGroup] in
  (match pratt toks with Some _ => true | None => false end) = true /\
  match parse toks with
  | Ok (root, ns) => inorder ns root = Some (seq 0 17) /\
                     real_toks (labels ns) = [0; 1; 3; 5; 7; 8; 9; 10; 11; 12; 13; 15; 18; 20; 21]
  | _ => False
  end.
Proof. vm_compute. repeat split; reflexivity. Qed.

(* ================= the ATTRIBUTION clause, for every program (no bound) ================= *)
(* UNBOUNDED, on the tree compiler (Model/Compile.v), for EVERY proper tree, every initial
   state of the data object and every literal oracle: if compile succeeds, every node of the
   tree that is owed an instruction is named by the metadata record of at least one emitted
   instruction.  [owed None t] lists the nodes of [t] that are not purely structural: all but
   a Group, an ElseJump, and a List / CommaList whose parent in the tree is a list of the same
   definition (flattened into it).  Two exclusions, both decidable on the tree and both
   necessary (refuted below), neither produced by the parser on any input tried:
   class C05-K2 (a conditional directly as left operand of && / ||: its arm is registered and
   never emitted) and [all_children_used t] (no LEFT child below a prefix operator, group,
   nested expression, reapply or prefix apply -- build() only looks at their right child).
   Proof: induction over the compiler with the invariant that every owed node of a compiled
   subtree is attributed already, or lies in a body on the pending list, or in an arm
   registered with the conditional parent; every pending body is run (Ok means the fuel
   sufficed), arms become pending bodies at the else-chain head. *)
Theorem C04_every_node_attributed_all_trees : forall init lit t r,
  ~ Known_C05_K2 t -> all_children_used t = true ->
  compile init lit t = Ok r ->
  forall i, In i (owed None t) -> In (Some i) (cm (fst r)).
Proof.
  intros init lit t r Hk Hu Hc. apply (compile_att init lit t r); auto.
  destruct (drops_arms t) eqn:E; [exfalso; apply Hk; exact E | reflexivity].
Qed.
Print Assumptions C04_every_node_attributed_all_trees.

(* ... in the vocabulary of Spec.TreeShape: for every node array that is a proper tree below
   its root and whose parent links agree with its child links (what validate_tree checks):
   every node of the tree that [exempt_from_attribution] does not exempt is attributed *)
Theorem C04_every_node_attributed_nodes : forall nodes root t init lit r,
  tree_of nodes root = Some t -> parents_agree nodes t ->
  ~ Known_C05_K2 t -> all_children_used t = true ->
  compile init lit t = Ok r ->
  forall i n, In i (indices t) -> nth_error nodes i = Some n ->
    exempt_from_attribution nodes n = false -> In (Some i) (cm (fst r)).
Proof. exact compile_attributes_all_trees. Qed.
Print Assumptions C04_every_node_attributed_nodes.

(* ... on the worklist transliteration of build() (what is diffed against the Rust), by
   compile_agrees_full *)
Theorem C04_every_node_attributed_builder : forall nodes root t init lit fuel r,
  tree_of nodes root = Some t -> parents_agree nodes t ->
  ~ Known_C05_K2 t -> all_children_used t = true ->
  build nodes init lit fuel root = Ok r ->
  forall i n, In i (indices t) -> nth_error nodes i = Some n ->
    exempt_from_attribution nodes n = false -> In (Some i) (meta (fst r)).
Proof. exact build_attributes_all_trees. Qed.
Print Assumptions C04_every_node_attributed_builder.

(* the in-order walk of Spec.TreeShape visits exactly the nodes of the tree ([iot t]: the
   in-order listing of the indices of [t], a permutation of [indices t]) *)
Theorem C04_inorder_is_the_tree : forall ns root t,
  tree_of ns root = Some t ->
  inorder ns root = Some (iot t) /\ forall i, In i (iot t) <-> In i (indices t).
Proof. intros ns root t H. split; [exact (inorder_of_tree ns root t H) | exact (iot_indices t)]. Qed.
Print Assumptions C04_inorder_is_the_tree.

(* ... hence the checker clause [covered_tree_b] itself (one metadata record per instruction,
   every non-exempt node the walk reaches is attributed), for every such node array *)
Theorem C04_covered_tree_builder : forall nodes root t init lit fuel r,
  tree_of nodes root = Some t -> parents_agree nodes t ->
  ~ Known_C05_K2 t -> all_children_used t = true ->
  build nodes init lit fuel root = Ok r ->
  covered_tree_b nodes root (fst r) = true.
Proof. exact build_covered_tree. Qed.
Print Assumptions C04_covered_tree_builder.

(* the attribution clause for every token list, full statement *)
Definition C04_attribution_full_statement : Prop :=
  forall (toks : list token_type) root ns init lit fuel r,
    parse toks = Ok (root, ns) -> ns <> [] ->
    build ns init lit fuel root = Ok r -> covered_tree_b ns root (fst r) = true.

(* PROVED PART, for EVERY token list the parser accepts (no bound on length), every initial
   state, literal oracle and fuel: the accepted node array is a proper tree whose parent links
   agree (validate_tree), and if that tree is outside C05-K2 and has no ignored child, a
   successful build satisfies [covered_tree_b].  (The second exclusion is discharged for every
   parse result by C04_parser_links_no_ignored_child below, giving C04_attribution_parsed;
   that the parser links no C05-K2 tree is checked exhaustively up to length 4 over the
   reduced alphabet below, and by C04_bounded_3 / C04_bounded_4_rep above.) *)
Theorem C04_attribution_parsed_partial : forall (toks : list token_type) root ns,
  parse toks = Ok (root, ns) -> ns <> [] ->
  exists t, tree_of ns root = Some t /\
    forall init lit fuel r, ~ Known_C05_K2 t -> all_children_used t = true ->
      build ns init lit fuel root = Ok r -> covered_tree_b ns root (fst r) = true.
Proof. exact parsed_covered_tree. Qed.
Print Assumptions C04_attribution_parsed_partial.

(* every token list of length <= 4 over the reduced alphabet (18 token classes) that the
   parser accepts is a proper tree in neither excluded class *)
Theorem C04_parsed_tree_ok_reduced_4 : forall toks : list token_type, length toks <= 4 ->
  (forall x, In x toks -> In x reduced_alphabet) -> parsed_tree_ok toks = true.
Proof. exact parsed_tree_ok_reduced_4. Qed.
Print Assumptions C04_parsed_tree_ok_reduced_4.

(* both exclusions are necessary: on a C05-K2 tree (`1 ?> 2` linked directly as the left
   operand of &&) the arm, node 3, gets no instruction; on a tree with a left child below a
   prefix operator that child, node 1, gets none.  Neither array is a parse result. *)
Theorem C04_attribution_K2_refuted :
  exists t r,
    tree_of k2_nodes' 0 = Some t /\ Known_C05_K2 t /\ all_children_used t = true /\
    build k2_nodes' empty_init lit_all (build_fuel k2_nodes') 0 = Ok r /\
    In 3 (indices t) /\ ~ In (Some 3) (meta (fst r)) /\
    covered_tree_b k2_nodes' 0 (fst r) = false.
Proof. exact attribution_K2_refuted. Qed.
Print Assumptions C04_attribution_K2_refuted.

Theorem C04_attribution_ignored_child_refuted :
  exists t r,
    tree_of ignored_nodes 0 = Some t /\ ~ Known_C05_K2 t /\ all_children_used t = false /\
    build ignored_nodes empty_init lit_all (build_fuel ignored_nodes) 0 = Ok r /\
    In 1 (indices t) /\ ~ In (Some 1) (meta (fst r)) /\
    covered_tree_b ignored_nodes 0 (fst r) = false.
Proof. exact attribution_ignored_child_refuted. Qed.
Print Assumptions C04_attribution_ignored_child_refuted.

(* non-vacuity: `1 ?> {a && 2} |> 3 !> (4 5) |> 6, 7 8 9` -- a conditional chain with two arms,
   a nested expression containing &&, a group, a comma list and a space list nested in a
   space list -- is accepted, meets every hypothesis of C04_attribution_parsed_partial, and of
   its 21 nodes the 17 owed ones are attributed; the exempt ones are the two ElseJump nodes
   (6, 13), the Group (9) and the inner List (17) *)
Example C04_attribution_ex :
  let toks := [TT_Number; TT_JumpIfTrue; TT_StartExpression; TT_Identifier; TT_And; TT_Number; TT_EndExpression;
               TT_ElseJump; TT_Number; TT_JumpIfFalse; TT_StartGroup; TT_Number; TT_Whitespace; TT_Number; TT_EndGroup;
               TT_ElseJump; TT_Number; TT_Comma; TT_Number; TT_Whitespace; TT_Number; TT_Whitespace; TT_Number] in
  match parse toks with
  | Ok (root, ns) =>
    match tree_of ns root, build ns empty_init lit_all (build_fuel ns) root with
    | Some t, Ok r =>
      length ns = 21 /\ drops_arms t = false /\ all_children_used t = true /\
      length (owed None t) = 17 /\
      filter (fun i => match nth_error ns i with Some n => exempt_from_attribution ns n | None => false end) (iot t)
        = [6; 9; 13; 17] /\
      covered_tree_b ns root (fst r) = true
    | _, _ => False
    end
  | _ => False
  end.
Proof. vm_compute. repeat split; reflexivity. Qed.

(* UNBOUNDED, parser side of the second exclusion: for EVERY token list the parser accepts, no
   node whose left child build() ignores (prefix operator, group, nested expression, reapply,
   prefix apply) has a left link -- the left link of a node is fixed when the node is appended
   (later steps only set parent / right links), prefix operators and opening brackets are
   appended without one, and every other token's definition uses its left child.  So the
   accepted tree always satisfies [all_children_used]. *)
Theorem C04_parser_links_no_ignored_child : forall (toks : list token_type) root ns t,
  parse toks = Ok (root, ns) -> tree_of ns root = Some t -> all_children_used t = true.
Proof. exact parsed_children_used. Qed.
Print Assumptions C04_parser_links_no_ignored_child.

(* hence the attribution clause for EVERY accepted token list (no bound), every initial state,
   literal oracle and fuel, with class C05-K2 as the only exclusion (the same class C05 / C06 /
   C20 exclude; decidable on the parsed tree; not produced by the parser on any input tried:
   C04_parsed_tree_ok_reduced_4, C04_bounded_3, C04_bounded_4_rep).  What remains for
   C04_attribution_full_statement is the parser invariant that && / || never get a conditional
   as direct left operand (they bind tighter than ?> !> |>). *)
Theorem C04_attribution_parsed : forall (toks : list token_type) root ns,
  parse toks = Ok (root, ns) -> ns <> [] ->
  exists t, tree_of ns root = Some t /\
    forall init lit fuel r, ~ Known_C05_K2 t ->
      build ns init lit fuel root = Ok r -> covered_tree_b ns root (fst r) = true.
Proof. exact parsed_covered_tree_K2. Qed.
Print Assumptions C04_attribution_parsed.

(* ---- the attribution clause on the operator fragment, WITHOUT the C05-K2 exclusion ---- *)
From GV Require Import Proofs.C05.OperatorNoK2 Proofs.C05.OperatorAttribution.

(* UNBOUNDED: for every token list on which the reference parser of C02 (Spec.Pratt) is
   defined -- every operator expression of any length and bracket depth, conditionals,
   else-chains and && / || included -- parse accepts, the node array is a proper tree that is
   NOT in class C05-K2 (the reference tree keeps the climbing invariant: the root of a left
   operand binds at least as tightly as the operator taking it, and ?> !> |> are looser than
   && ||; C05_reference_no_K2, C05_operator_expressions_not_K2 in Properties/C05.v), and
   every successful build -- any initial state, literal oracle and fuel -- satisfies
   [covered_tree_b]: one metadata record per instruction, every non-exempt node attributed. *)
Theorem C04_attribution_operator_expressions : forall (toks : list token_type) (rt : rtree),
  pratt toks = Some rt ->
  exists root ns t,
    parse toks = Ok (root, ns) /\ ns <> [] /\ Compile.tree_of ns root = Some t /\ ~ Known_C05_K2 t /\
    forall init lit fuel r, build ns init lit fuel root = Ok r -> covered_tree_b ns root (fst r) = true.
Proof. exact C04_attribution_operator_expressions_proof. Qed.
Print Assumptions C04_attribution_operator_expressions.

(* ... i.e. C04_attribution_full_statement restricted to the operator fragment *)
Theorem C04_attribution_full_on_operator_expressions :
  forall (toks : list token_type) (rt : rtree) root ns init lit fuel r,
    pratt toks = Some rt -> parse toks = Ok (root, ns) ->
    build ns init lit fuel root = Ok r -> covered_tree_b ns root (fst r) = true.
Proof. exact C04_attribution_full_on_operator_expressions_proof. Qed.
Print Assumptions C04_attribution_full_on_operator_expressions.

(* what C04_attribution_full_statement still lacks, precisely: the parser invariant
   [parser_links_no_K2_statement] (no accepted token list links a conditional directly as the
   left operand of && / ||) for token lists OUTSIDE the operator fragment -- side-effect
   brackets, annotations, blank-line separators, empty brackets *)
Theorem C04_attribution_full_from_no_K2 :
  parser_links_no_K2_statement -> C04_attribution_full_statement.
Proof. exact no_K2_gives_attribution_all_parsed. Qed.
Print Assumptions C04_attribution_full_from_no_K2.

(* non-vacuity: `a ?> b + 1 |> c !> d * 2 |> (e ?> f) && g || h` (23 tokens; a two-arm
   else-chain whose default is `((e ?> f) && g) || h`, a bracketed conditional as left
   operand of &&): the reference parser is defined, the tree is outside C05-K2, and of the
   20 nodes all but the two ElseJump nodes and the Group are attributed *)
Example C04_attribution_operator_ex :
  let toks := [TT_Identifier; TT_JumpIfTrue; TT_Identifier; TT_PlusSign; TT_Number; TT_ElseJump;
               TT_Identifier; TT_JumpIfFalse; TT_Identifier; TT_MultiplicationSign; TT_Number; TT_ElseJump;
               TT_StartGroup; TT_Identifier; TT_JumpIfTrue; TT_Identifier; TT_EndGroup; TT_Whitespace; TT_And;
               TT_Whitespace; TT_Identifier; TT_Or; TT_Identifier] in
  (match pratt toks with Some rt => r_drops_arms rt | None => true end) = false /\
  match parse toks with
  | Ok (root, ns) =>
    match Compile.tree_of ns root, build ns empty_init lit_all (build_fuel ns) root with
    | Some t, Ok r =>
      length ns = 20 /\ drops_arms t = false /\
      length (owed None t) = 17 /\
      filter (fun i => match nth_error ns i with Some n => exempt_from_attribution ns n | None => false end) (iot t)
        = [5; 11; 12] /\
      covered_tree_b ns root (fst r) = true
    | _, _ => False
    end
  | _ => False
  end.
Proof. vm_compute. repeat split; reflexivity. Qed.
