(* C16, the runtime layer (runtime/src/runtime/list.rs), for any data
   implementation given as a [DataOps] record: index_list answers "no item"
   below zero, unit past the end and the item in between; access_with_symbol
   on a list is the data implementation's symbol lookup.  Witness of the
   listed finding C16-K1 on the Basic store. *)
From Coq Require Import NArith ZArith List Bool Arith Lia.
From GV Require Import Base.Result Gen.Instr Model.StoreBase Model.BasicStore Model.SimpleStore Model.StoreOps Model.Lists.
Import ListNotations.

Section Generic.
Context {St : Type} (D : DataOps St).

Lemma index_list_negative : forall l z s, (z < 0)%Z -> index_list D l z s = Ok (s, Done None).
Proof. intros l z s H. unfold index_list. apply Z.ltb_lt in H. rewrite H. reflexivity. Qed.

(* past the end the data implementation is not even asked: the answer is unit *)
Lemma index_list_past_end : forall l z s n, d_get_list_len D l s = Ok n -> (Z.of_nat n <= z)%Z ->
  index_list D l z s = (sdo u <- d_add_unit D ; sret (Some u)) s.
Proof.
  intros l z s n Hn Hz. unfold index_list.
  assert (E : (z <? 0)%Z = false) by (apply Z.ltb_ge; lia). rewrite E.
  unfold sbind at 1. unfold sread. rewrite Hn.
  assert (E2 : (Z.of_nat n <=? z)%Z = true) by (apply Z.leb_le; exact Hz). rewrite E2. reflexivity.
Qed.

Lemma index_list_in_range : forall l z s n a, d_get_list_len D l s = Ok n -> (0 <= z < Z.of_nat n)%Z ->
  d_get_list_item D l z s = Ok (Some a) -> index_list D l z s = Ok (s, Done (Some a)).
Proof.
  intros l z s n a Hn Hz Hi. unfold index_list.
  assert (E : (z <? 0)%Z = false) by (apply Z.ltb_ge; lia). rewrite E.
  unfold sbind at 1. unfold sread at 1. rewrite Hn.
  assert (E2 : (Z.of_nat n <=? z)%Z = false) by (apply Z.leb_gt; lia). rewrite E2.
  unfold sbind, sread. rewrite Hi. reflexivity.
Qed.

Lemma access_with_symbol_list : forall fuel sym l s, d_get_data_type D l s = Ok T_List ->
  access_with_symbol D fuel sym l s =
    match d_get_list_item_with_symbol D l sym s with
    | Ok r => Ok (s, Done r)
    | Err e => Ok (s, Fail e)
    | Panic p => Panic p
    | OutOfFuel => OutOfFuel
    end.
Proof.
  intros fuel sym l s Ht. unfold access_with_symbol. unfold sbind at 1. unfold sread at 1. rewrite Ht. reflexivity.
Qed.
End Generic.

(* C16-K1: on the Basic store the data-level get_list_item past the end is an error *)
Definition k1_history : list op :=
  [ONumber (SInt 1%Z); ONumber (SInt 2%Z); ONumber (SInt 3%Z); OListStart 3; OListAdd 3 0; OListAdd 3 1; OListAdd 3 2; OListEnd 3].

Theorem K1_refuted :
  exists s0 s rs, new_default = Ok (s0, Done tt) /\ run bstep k1_history s0 = Ok (s, rs) /\
    get_list_len 3 s = Ok 3 /\ get_list_item 3 2%Z s = Ok (Some 2) /\
    get_list_item 3 3%Z s = Err E_list /\ get_list_item 3 (-1)%Z s = Ok None.
Proof.
  do 3 eexists.
  split; [vm_compute; reflexivity|].
  split; [vm_compute; reflexivity|].
  split; [vm_compute; reflexivity|].
  split; [vm_compute; reflexivity|].
  split; vm_compute; reflexivity.
Qed.
