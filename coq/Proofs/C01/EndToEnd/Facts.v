(* Facts about the end-to-end fragment used by Properties/C01.v: it contains no
   side-effect block and no nested expression, so the K2 class and the label
   condition of C01 are vacuous on it; a concrete member. *)
From Coq Require Import ZArith NArith List Bool Arith Lia.
From GV Require Import Base.Result Base.Host Gen.Instr Model.Num Model.Value Model.Machine
  Model.CompileExpr Model.CompileWL Spec.Ast Spec.Printer Spec.Eval Spec.Fragment
  Proofs.C01.Labels Proofs.C01.Stages Proofs.C01.Main Proofs.C01.Bounded.
Import ListNotations.

Lemma efrag_mono lvl lvl' : lvl <= lvl' -> forall e, efrag lvl e = true -> efrag lvl' e = true.
Proof.
  intros Hle. induction e; intros F; try discriminate F; cbn [efrag] in *;
    repeat (apply andb_true_iff in F; let G := fresh "G" in destruct F as [F G]);
    try reflexivity; try (apply IHe; assumption);
    try (rewrite IHe1, IHe2 by assumption; rewrite ?andb_true_r);
    try (rewrite IHe by assumption; rewrite ?andb_true_r);
    try reflexivity; apply Nat.leb_le; apply Nat.leb_le in F; lia.
Qed.

Lemma frag_no_K2 lvl : forall e, efrag lvl e = true -> known_K2 e = false.
Proof.
  induction e; intros F; try discriminate F; cbn [efrag] in F;
    repeat (apply andb_true_iff in F; let G := fresh "G" in destruct F as [F G]); cbn [known_K2];
    try reflexivity; try (apply IHe; assumption);
    rewrite IHe1, IHe2 by assumption; reflexivity.
Qed.

(* without nested expressions (levels 0-3) the label condition is vacuous *)
Lemma frag_lab_ok : forall e, efrag 3 e = true -> forall ic lk j ajb jb, lab_okC ic lk e j ajb jb = true.
Proof.
  induction e; intros F ic lk j ajb jb; try discriminate F; cbn [efrag] in F;
    repeat (apply andb_true_iff in F; let G := fresh "G" in destruct F as [F G]); cbn [lab_okC];
    try reflexivity; try (apply IHe; assumption).
  - destruct (right_first o); rewrite IHe1, IHe2 by assumption; reflexivity.
  - rewrite IHe1, IHe2 by assumption; reflexivity.
  - rewrite IHe1, IHe2 by assumption; reflexivity.
  - rewrite IHe1, IHe2 by assumption; reflexivity.
  - destruct ic; rewrite IHe1, IHe2 by assumption; reflexivity.
  - destruct ic; rewrite IHe1, IHe2 by assumption; reflexivity.
Qed.

Lemma frag3_labels_ok e : efrag 3 e = true -> labels_ok e = true.
Proof. intros F. unfold labels_ok. apply frag_lab_ok. exact F. Qed.

(*  a = (1 + 2) * -- 3 , x . y < 4 && $ ?> { 5 6 } ~~ |> 7
    25 constructors: comma list, right-to-left pair, a round group, a prefix operator,
    access with a property, comparison, &&, a conditional with an else, a nested
    expression (labelled with the jump-table index of its body) applied with `~~`, a space list *)
Definition demo_e2e : expr :=
  EList Comma
    (EBin BPair (EIdent [97%N])
       (EBin BMul (EGroup (EBin BAdd (ELit (LInt 1)) (ELit (LInt 2)))) (EUn UNeg (ELit (LInt 3)))))
    (EElse
       (ECond false
          (EAnd (EBin BLt (EBin BAccess (EIdent [120%N]) (ELit (LProp [121%N]))) (ELit (LInt 4))) EValue)
          (EUn UEmptyApply (ENested 5 (EList Space (ELit (LInt 5)) (ELit (LInt 6))))))
       (ELit (LInt 7))).

Example demo_e2e_in_fragment :
  frag_e2e demo_e2e = true /\ printable demo_e2e = true /\ Nat.leb 12 (Ast.size demo_e2e) = true /\
  known_K1 demo_e2e = false /\ known_K2 demo_e2e = false /\ labels_ok demo_e2e = true.
Proof. vm_compute. repeat split; reflexivity. Qed.

Example frag_e2e_excludes :
  frag_e2e (ENested 1 (ESeq Semi EValue EValue)) = false /\
  frag_e2e (ESide EValue (ELit (LInt 1))) = false /\
  frag_e2e (ESeq Semi EValue EValue) = false /\
  frag_e2e (EReapply EValue) = false.
Proof. repeat split; reflexivity. Qed.

(* the agreement the theorem asserts, observed on the member above *)
Example demo_e2e_agrees : agrees demo_e2e = true.
Proof. vm_compute. reflexivity. Qed.
