"""Gen/TokenTypes.v: the lexer's TokenType enum (shared by the lexer and parser models)."""
from . import rustsrc as R


def generate():
    tts = R.enum_variants(R.read("compiler/src/lex/lexer.rs"), "TokenType")
    t = R.HEADER % "compiler/src/lex/lexer.rs (enum TokenType)"
    t += R.coq_inductive("token_type", tts, "TT_") + "\n" + R.coq_eqb("token_type", tts, "TT_") + "\n"
    return {"TokenTypes.v": t}
