(* C07: the index arithmetic of the runtime crate (equality, make_list, access,
   ~# range -> list, concatenation iteration) never reaches a Panic point. *)
From Coq Require Import ZArith NArith List Bool Lia.
From Flocq Require Import IEEE754.Binary IEEE754.Bits.
From GV Require Import Base.Result Model.Num Model.RuntimeIndex Proofs.C07.Arith.
Import ListNotations.
Local Open Scope N_scope.

(* perform_equality_check: for EVERY register depth *)
Theorem equality_start_no_panic : forall register_len, no_panic (equality_start register_len).
Proof.
  intros n. unfold equality_start. destruct (n <? 2) eqn:E; [exact I|].
  apply N.ltb_ge in E. rewrite usub_ok by lia. exact I.
Qed.

(* make_list: for EVERY requested length and register depth *)
Theorem make_list_start_no_panic : forall len register_len, no_panic (make_list_start len register_len).
Proof.
  intros len n. unfold make_list_start. destruct (n <? len) eqn:E; [exact I|].
  apply N.ltb_ge in E. rewrite usub_ok by lia. exact I.
Qed.

(* the item getters of both stores: for EVERY index value (negative, fractional, NaN, huge) *)
Theorem simple_item_no_panic : forall k len idx, no_panic (simple_item k len idx).
Proof.
  intros k len [v | f]; cbn [simple_item]; [| exact I].
  destruct (i32_as_usize v <? len); [exact I | destruct k; exact I].
Qed.

Theorem basic_item_no_panic : forall k len idx, no_panic (basic_item k len idx).
Proof.
  intros k len idx. unfold basic_item.
  destruct k; try (destruct (len <=? usize_of_num idx); exact I).
  destruct (num_ltb idx (Int 0)); [exact I|]. destruct (len <=? usize_of_num idx); exact I.
Qed.

Lemma get_item_no_panic : forall i k len idx, no_panic (get_item i k len idx).
Proof. intros [|]; [apply simple_item_no_panic | apply basic_item_no_panic]. Qed.

(* when a getter answers Some p, p is a position inside the container *)
Lemma get_item_in_range : forall i k len idx p, get_item i k len idx = Ok (Some p) -> p < len.
Proof.
  intros [|] k len idx p; cbn [get_item].
  - destruct idx as [v | f]; cbn [simple_item]; [| discriminate].
    destruct (i32_as_usize v <? len) eqn:E.
    + intros H. inversion H. subst. apply N.ltb_lt. exact E.
    + destruct k; discriminate.
  - unfold basic_item.
    destruct k; try (destruct (len <=? usize_of_num idx) eqn:E;
                     [discriminate | intros H; inversion H; subst; apply N.leb_gt in E; exact E]).
    destruct (num_ltb idx (Int 0)); [discriminate|].
    destruct (len <=? usize_of_num idx) eqn:E; [discriminate|].
    intros H. inversion H. subst. apply N.leb_gt in E. exact E.
Qed.

(* index_list / index_char_list / index_byte_list / index_symbol_list *)
Theorem index_list_no_panic : forall i k len idx, no_panic (index_container i k len idx).
Proof.
  intros i k len idx. unfold index_container.
  destruct (num_ltb idx (Int 0)); [exact I|].
  destruct k; (destruct (num_geb idx (size_to_number len)); [exact I|]);
    pose proof (get_item_no_panic i) as H;
    match goal with |- context [get_item i ?k len idx] => specialize (H k len idx); destruct (get_item i k len idx) end;
    try exact I; try contradiction.
Qed.

(* concatenation.rs `None => unimplemented!()`: unreachable for an in-range position *)
Theorem list_item_in_range_some : forall i len pos,
  len < 2147483648 -> pos < len -> list_item_in_range i len pos = Ok pos.
Proof.
  intros i len pos Hlen Hpos. unfold list_item_in_range.
  rewrite size_to_number_small by lia.
  destruct i; cbn [get_item].
  - cbn [simple_item]. rewrite i32_as_usize_nonneg by lia. rewrite N2Z.id.
    destruct (pos <? len) eqn:E; [reflexivity | apply N.ltb_ge in E; lia].
  - unfold basic_item. rewrite num_ltb_int.
    destruct (Z.of_N pos <? 0)%Z eqn:En; [lia|].
    rewrite usize_of_int_pos by lia. rewrite N2Z.id.
    destruct (len <=? pos) eqn:E; [apply N.leb_le in E; lia | reflexivity].
Qed.

Corollary list_item_in_range_no_panic : forall i len pos,
  len < 2147483648 -> pos < len -> no_panic (list_item_in_range i len pos).
Proof. intros. rewrite list_item_in_range_some by assumption. exact I. Qed.

(* range_len, make_range: Ok or Err for all operands *)
Lemma range_len_no_panic : forall s e, no_panic (range_len s e).
Proof.
  intros s e. unfold range_len. destruct (num_subtract e s) as [d|]; [| exact I].
  destruct (num_increment d); exact I.
Qed.

Theorem make_range_no_panic : forall sx ex a b, no_panic (make_range_bounds sx ex a b).
Proof.
  intros sx ex a b. unfold make_range_bounds.
  destruct sx; [destruct (num_increment a) |]; cbn [bind]; try exact I;
    (destruct ex; [| destruct (num_increment b)]; cbn [bind]; exact I).
Qed.

Theorem access_range_no_panic : forall s e idx, no_panic (access_range s e idx).
Proof.
  intros s e idx. unfold access_range. pose proof (range_len_no_panic s e) as H.
  destruct (range_len s e) as [len | c | st |]; cbn [bind]; try exact I; try contradiction.
  destruct (num_geb idx len); [exact I|]. destruct (num_plus s idx); exact I.
Qed.

Lemma slice_adjusted_index_no_panic : forall s idx, no_panic (slice_adjusted_index s idx).
Proof. intros s idx. unfold slice_adjusted_index. destruct (num_plus s idx); exact I. Qed.

(* ~# range -> list *)
Lemma range_list_len_no_panic : forall s e, no_panic (range_list_len s e).
Proof.
  intros s e. unfold range_list_len. pose proof (range_len_no_panic s e) as H.
  destruct (range_len s e); cbn [bind]; try exact I; contradiction.
Qed.

Lemma range_items_no_panic : forall fuel c e, no_panic (range_items fuel c e).
Proof.
  induction fuel as [| f IH]; intros c e; cbn [range_items]; [exact I|].
  destruct (num_leb c e); [| exact I].
  destruct (num_increment c) as [c'|]; [| exact I].
  specialize (IH c' e). destruct (range_items f c' e); cbn [bind]; try exact I; contradiction.
Qed.

Theorem cast_index_no_panic : forall i fuel s e, no_panic (range_to_list i fuel s e).
Proof.
  intros i fuel s e. unfold range_to_list.
  pose proof (range_list_len_no_panic s e) as H1.
  destruct (range_list_len s e) as [len | c | st |]; cbn [bind]; try exact I; try contradiction.
  assert (H2 : no_panic (match i with Simple => Ok 0 | Basic => basic_start_list_alloc len end)).
  { destruct i; [exact I|]. unfold basic_start_list_alloc. destruct (len * 2 <=? usize_max); exact I. }
  destruct (match i with Simple => Ok 0 | Basic => basic_start_list_alloc len end); cbn [bind]; try exact I; try contradiction.
  pose proof (range_items_no_panic fuel s e) as H3.
  destruct (range_items fuel s e) as [items | | |]; cbn [bind]; try exact I; try contradiction.
  destruct i; [exact I|]. destruct (N.of_nat (length items) =? len); exact I.
Qed.

(* regression witnesses: the code before the fix: commits panicked *)
Lemma range_list_len_v0_refuted : exists start_addr end_addr,
  range_list_len_v0 start_addr end_addr = Panic site_range_list_len_v0.
Proof. exists 7, 6. vm_compute. reflexivity. Qed.

Lemma basic_start_list_alloc_v0_refuted : exists len,
  basic_start_list_alloc_v0 len = Panic site_start_list_mul_v0 /\ basic_start_list_alloc len = Err 4.
Proof. exists 9223372036854775808. split; vm_compute; reflexivity. Qed.
