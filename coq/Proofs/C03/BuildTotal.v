(* build() is total on EVERY node array: it checks at its start that every link stays
   inside the array (so the unchecked `nodes[i] = ...` writes cannot panic) and its node
   loop carries an iteration cap (so it cannot run forever on a cyclic graph).  Both guards
   are in build.rs and transliterated in Model/BuilderWL.v. *)
From Coq Require Import List Arith Bool NArith Lia.
From GV Require Import Base.Result Gen.TokenTypes Gen.Defs Gen.Instr Model.Parser Model.BuilderWL
  Proofs.C03.ParseTotal.
Import ListNotations.

(* "Ok with P, or Err; never Panic, never OutOfFuel" *)
Definition tw {A} (P : A -> Prop) (r : res A) : Prop :=
  match r with Ok a => P a | Err _ => True | _ => False end.

Lemma tw_bind {A B} (P : A -> Prop) (Q : B -> Prop) (r : res A) (f : A -> res B) :
  tw P r -> (forall a, P a -> tw Q (f a)) -> tw Q (bind r f).
Proof. destruct r; simpl; auto. Qed.

Lemma tw_total {A} (P : A -> Prop) (r : res A) : tw P r -> total r.
Proof. destruct r; simpl; auto. Qed.

Lemma tw_weaken {A} (P Q : A -> Prop) (r : res A) : (forall a, P a -> Q a) -> tw P r -> tw Q r.
Proof. destruct r; simpl; auto. Qed.

Section Total.
Variable tree : list pnode.
Variable init : binit.
Variable lit_ok : nat -> bool.
Variable kstep : nat. (* the value of the iteration counter: no handler changes it *)

Definition len := length tree.

(* every child index of every node is inside the array (what links_in_range checks) *)
Definition links_ok : Prop :=
  forall ni pn, nth_error tree ni = Some pn ->
    (forall c, n_left pn = Some c -> c < len) /\ (forall c, n_right pn = Some c -> c < len).

Lemma links_in_range_ok : links_in_range tree = true -> links_ok.
Proof.
  unfold links_in_range, links_ok. rewrite forallb_forall. intros H ni pn Hn.
  specialize (H pn (nth_error_In _ _ Hn)). apply andb_true_iff in H. destruct H as [Hl Hr].
  split; intros c Hc; [rewrite Hc in Hl|rewrite Hc in Hr]; apply Nat.ltb_lt; assumption.
Qed.

Definition items_ok (b : bnode) : Prop := forall it, In it (b_cond_items b) -> fst it < len.

Definition inv (s : bstate) : Prop :=
  length (bnodes s) = len /\
  (forall i b, nth_error (bnodes s) i = Some (Some b) -> items_ok b) /\
  steps s = kstep.

Lemma upd_Some {A} (l : list A) i f : i < length l -> exists l', upd l i f = Some l'.
Proof.
  revert i. induction l as [|a r IH]; intros i H; simpl in H; [lia|].
  destruct i; simpl; [eauto|]. destruct (IH i ltac:(lia)) as [l' ->]. eauto.
Qed.

Lemma nth_upd_cases {A} (l : list A) k f l' j x :
  upd l k f = Some l' -> nth_error l' j = Some x ->
  (j = k /\ exists y, nth_error l k = Some y /\ x = f y) \/ (j <> k /\ nth_error l j = Some x).
Proof.
  revert k l' j. induction l as [|a r IH]; intros k l' j Hu Hn; destruct k; simpl in Hu; try discriminate.
  - injection Hu as <-. destruct j; simpl in Hn.
    + injection Hn as <-. left. split; [reflexivity|]. exists a. auto.
    + right. split; [lia|exact Hn].
  - destruct (upd r k f) as [r'|] eqn:E; [|discriminate]. injection Hu as <-.
    destruct j; simpl in Hn.
    + right. split; [lia|]. simpl. exact Hn.
    + destruct (IH k r' j E Hn) as [[-> H]|[Hne H]]; [left; auto|right; split; [lia|exact H]].
Qed.

Lemma inv_set_bnodes s l :
  inv s -> length l = len ->
  (forall i b, nth_error l i = Some (Some b) -> items_ok b) -> inv (with_bnodes s l).
Proof. intros (_ & _ & Hk) Hl Hi. split; [assumption|split; [assumption|exact Hk]]. Qed.

Lemma get_b_tw s i : inv s -> tw items_ok (get_b s i).
Proof.
  intros (_ & Hi & _). unfold get_b. destruct (nth_error (bnodes s) i) as [[b|]|] eqn:E; simpl; auto.
  eapply Hi; eauto.
Qed.

Lemma put_b_tw s i b : inv s -> items_ok b -> tw inv (put_b s i b).
Proof.
  intros (Hl & Hi & Hk) Hb. unfold put_b. destruct (upd (bnodes s) i (fun _ => Some b)) as [l|] eqn:E; simpl; [|exact I].
  apply inv_set_bnodes; [split; [assumption|split; assumption]| |].
  - rewrite (upd_length _ _ _ _ E). exact Hl.
  - intros j b' Hj. destruct (nth_upd_cases _ _ _ _ _ _ E Hj) as [[_ (y & _ & Hy)]|[_ H]].
    + injection Hy as ->. exact Hb.
    + eapply Hi; eauto.
Qed.

Lemma assign_b_tw s c b : inv s -> c < len -> items_ok b -> tw inv (assign_b s c b).
Proof.
  intros (Hl & Hi & Hk) Hc Hb. unfold assign_b.
  destruct (upd_Some (bnodes s) c (fun _ => Some b) ltac:(lia)) as [l E]. rewrite E. simpl.
  apply inv_set_bnodes; [split; [assumption|split; assumption]| |].
  - rewrite (upd_length _ _ _ _ E). exact Hl.
  - intros j b' Hj. destruct (nth_upd_cases _ _ _ _ _ _ E Hj) as [[_ (y & _ & Hy)]|[_ H]].
    + injection Hy as ->. exact Hb.
    + eapply Hi; eauto.
Qed.

Lemma items_ok_nil p c : items_ok (b_new p c).  Proof. intros it []. Qed.
Lemma items_ok_list p c lp d : items_ok (b_new_list p c lp d).  Proof. intros it []. Qed.
Lemma items_ok_cond p c cp : items_ok (b_new_cond p c cp).  Proof. intros it []. Qed.
Lemma items_ok_jump p c j : items_ok (b_new_jump p c j).  Proof. intros it []. Qed.
Lemma items_ok_jump_end p c j e : items_ok (b_new_jump_end p c j e).  Proof. intros it []. Qed.
Lemma items_ok_set_init b : items_ok b -> items_ok (b_set_init b).  Proof. exact (fun H => H). Qed.
Lemma items_ok_set_contrib v b : items_ok b -> items_ok (b_set_contrib v b).  Proof. exact (fun H => H). Qed.
Lemma items_ok_inc b : items_ok b -> items_ok (b_inc_count b).  Proof. exact (fun H => H). Qed.
Lemma items_ok_left_built b : items_ok b -> items_ok (b_set_left_built b).  Proof. exact (fun H => H). Qed.
Lemma items_ok_add it b : items_ok b -> fst it < len -> items_ok (b_add_item it b).
Proof.
  intros H Hit x Hx. unfold b_add_item in Hx. simpl in Hx. apply in_app_or in Hx.
  destruct Hx as [Hx|[<-|[]]]; auto.
Qed.

Lemma inv_push_instr s i m : inv s -> inv (push_instr s i m).  Proof. exact (fun H => H). Qed.
Lemma inv_push_jump s t : inv s -> inv (push_jump s t).  Proof. exact (fun H => H). Qed.
Lemma inv_push_root s r : inv s -> inv (push_root s r).  Proof. exact (fun H => H). Qed.

Hint Resolve items_ok_nil items_ok_list items_ok_cond items_ok_jump items_ok_jump_end items_ok_set_init
  items_ok_set_contrib items_ok_inc items_ok_left_built inv_push_instr inv_push_jump inv_push_root : bt.

Definition wl_ok (r : wl) : Prop := inv (fst r).

(* one proof script for all the handlers: walk through the binds, case on every test, and
   discharge the writes with the three lemmas above *)
Ltac bt_step :=
  first
    [ exact I
    | assumption
    | match goal with |- tw _ (Ok _) => cbn [tw wl_ok fst]; auto 6 with bt end
    | match goal with |- tw _ (Err _) => exact I end
    | match goal with |- tw _ berr => exact I end
    | match goal with |- tw _ (bind (get_b _ _) _) => eapply tw_bind; [apply get_b_tw; auto 6 with bt|intros ? ?] end
    | match goal with |- tw _ (bind (put_b _ _ _) _) => eapply tw_bind; [apply put_b_tw; auto 6 with bt|intros ? ?] end
    | match goal with |- tw _ (bind (assign_b _ _ _) _) => eapply tw_bind; [apply assign_b_tw; auto 6 with bt|intros ? ?] end
    | match goal with |- tw _ (put_b _ _ _) => apply put_b_tw; auto 6 with bt end
    | match goal with |- tw _ (assign_b _ _ _) => apply assign_b_tw; auto 6 with bt end
    | match goal with |- tw _ (bind (need ?o) _) => destruct o; cbn [need bind]; [|exact I] end
    | match goal with |- tw _ (bind ?r _) =>
        match type of r with
        | res (bstate * _) => eapply (tw_bind wl_ok); [|intros [? ?] ?; cbn [wl_ok fst] in *]
        end
      end
    | match goal with |- tw _ (if ?c then _ else _) => destruct c end
    | match goal with |- tw _ (match ?x with _ => _ end) => destruct x eqn:? end
    | match goal with |- tw _ (let '(_, _) := ?x in _) => destruct x eqn:? end ].

Hypothesis Hlinks : links_ok.

Lemma child_l ni pn c : nth_error tree ni = Some pn -> n_left pn = Some c -> c < len.
Proof. intros Hn Hc. exact (proj1 (Hlinks ni pn Hn) c Hc). Qed.
Lemma child_r ni pn c : nth_error tree ni = Some pn -> n_right pn = Some c -> c < len.
Proof. intros Hn Hc. exact (proj2 (Hlinks ni pn Hn) c Hc). Qed.

Ltac bt := repeat bt_step.

(* goals of the form [c < len] for a child [c] of the node at hand *)
Ltac child_lt :=
  match goal with
  | H : forall c, _ = Some c -> c < len |- ?c < len => eapply H; (eassumption || reflexivity)
  end.
Hint Extern 1 (_ < len) => cbn [fst]; child_lt : bt.
Hint Extern 2 (items_ok (b_add_item _ _)) => apply items_ok_add : bt.
Hint Extern 3 (items_ok ?b) =>
  match goal with
  | H : nth_error (bnodes _) _ = Some (Some b), Hi : inv _ |- _ => exact (proj1 (proj2 Hi) _ _ H)
  end : bt.

Ltac children pn Hn :=
  assert (CL : forall c, n_left pn = Some c -> c < len) by (intros c Hc; eapply child_l; eauto);
  assert (CR : forall c, n_right pn = Some c -> c < len) by (intros c Hc; eapply child_r; eauto).

Lemma handle_value_like_tw i wd s st ni pn :
  inv s -> nth_error tree ni = Some pn -> tw wl_ok (handle_value_like lit_ok i wd s st ni pn).
Proof. intros Hs Hn. unfold handle_value_like. children pn Hn. bt. Qed.

Lemma handle_unary_tw i ch s st ni pn :
  inv s -> nth_error tree ni = Some pn -> (ch = n_left pn \/ ch = n_right pn) ->
  tw wl_ok (handle_unary i ch s st ni).
Proof. intros Hs Hn Hch. unfold handle_unary. children pn Hn.
  destruct Hch as [-> | ->]; bt. Qed.

Lemma handle_unary_suffix_tw i s st ni pn :
  inv s -> nth_error tree ni = Some pn -> tw wl_ok (handle_unary_suffix i s st ni pn).
Proof. intros Hs Hn. unfold handle_unary_suffix. children pn Hn. bt. Qed.

Lemma handle_binary_tw i o s st ni pn :
  inv s -> nth_error tree ni = Some pn -> tw wl_ok (handle_binary i o s st ni pn).
Proof. intros Hs Hn. unfold handle_binary. children pn Hn. bt. Qed.

Lemma handle_list_tw s st ni pn :
  inv s -> nth_error tree ni = Some pn -> tw wl_ok (handle_list s st ni pn).
Proof. intros Hs Hn. unfold handle_list. children pn Hn. bt. Qed.

Lemma handle_logical_tw i s st ni pn :
  inv s -> nth_error tree ni = Some pn -> tw wl_ok (handle_logical init i s st ni pn).
Proof. intros Hs Hn. unfold handle_logical. children pn Hn. bt. Qed.

Lemma handle_jump_if_tw i s st ni pn :
  inv s -> nth_error tree ni = Some pn -> tw wl_ok (handle_jump_if init i s st ni pn).
Proof. intros Hs Hn. unfold handle_jump_if. children pn Hn. bt. Qed.

Lemma handle_fix_apply_tw ch af s st ni pn :
  inv s -> nth_error tree ni = Some pn -> (ch = n_left pn \/ ch = n_right pn) -> (af = None \/ af = n_right pn) ->
  tw wl_ok (handle_fix_apply lit_ok ch af s st ni).
Proof. intros Hs Hn Hch Haf. unfold handle_fix_apply. children pn Hn.
  destruct Hch as [-> | ->]; destruct Haf as [-> | ->]; bt. Qed.

Lemma fold_push_root_inv (items : list (nat * nat)) : forall s, inv s ->
  inv (fold_left (fun acc it => push_root acc (fst it)) items s).
Proof. induction items as [|it r IH]; intros s Hs; simpl; auto. Qed.

Lemma fold_assign_tw (b : bnode) jump_to (items : list (nat * nat)) : forall (acc : res bstate),
  tw inv acc -> (forall it, In it items -> fst it < len) ->
  tw inv (fold_left (fun (acc : res bstate) (it : nat * nat) =>
            do a <- acc;
            assign_b a (fst it) (b_new_jump_end (fst it) (b_containing b) (snd it) [(I_JumpTo, ONum jump_to)]))
          items acc).
Proof.
  induction items as [|it r IH]; intros acc Ha Hi; simpl; [exact Ha|].
  apply IH; [|intros x Hx; apply Hi; simpl; auto].
  eapply tw_bind; [exact Ha|]. intros a Hinv. apply assign_b_tw; auto with bt. apply Hi. simpl. auto.
Qed.

Lemma handle_else_tw s st ni pn :
  inv s -> nth_error tree ni = Some pn -> tw wl_ok (handle_else init s st ni pn).
Proof.
  intros Hs Hn. unfold handle_else. children pn Hn.
  eapply tw_bind; [apply get_b_tw; exact Hs|]. intros b Hb.
  destruct (negb (b_init b)); [bt|].
  destruct (b_cond_parent b); [cbn; exact Hs|].
  destruct (b_cond_items b) as [|it items] eqn:Ei; [cbn; exact Hs|].
  eapply tw_bind; [|intros a Ha; cbn; exact Ha].
  apply fold_assign_tw.
  - cbn [tw]. apply fold_push_root_inv. exact Hs.
  - intros x Hx. apply Hb. rewrite Ei. exact Hx.
Qed.

Lemma handle_parse_node_tw s crj st ni pn :
  inv s -> nth_error tree ni = Some pn -> tw wl_ok (handle_parse_node init lit_ok s crj st ni pn).
Proof.
  intros Hs Hn. unfold handle_parse_node. children pn Hn.
  destruct (n_def pn);
    try (apply handle_value_like_tw; assumption);
    try (eapply handle_unary_tw; eauto; fail);
    try (apply handle_unary_suffix_tw; assumption);
    try (apply handle_list_tw; assumption);
    try (apply handle_logical_tw; assumption);
    try (apply handle_jump_if_tw; assumption);
    try (apply handle_else_tw; assumption);
    try (eapply handle_fix_apply_tw; eauto; fail);
    try (cbn [binary_instruction]; apply handle_binary_tw; assumption);
    bt.
  all: match goal with
       | H : (if ?c then n_left _ else None) = Some ?n |- ?n < len =>
           destruct c; [eapply CL; exact H|discriminate]
       end.
Qed.

Lemma after_node_tw s ni : inv s -> tw inv (after_node s ni).
Proof. intros Hs. unfold after_node. bt. Qed.

End Total.

(* ---------------------------------------------------------------- the loops *)
Section Loops.
Variable tree : list pnode.
Variable init : binit.
Variable lit_ok : nat -> bool.
Hypothesis Hlinks : links_ok tree.

Lemma inv_bump k s : inv tree k s ->
  inv tree (S k) (mkBS (bnodes s) (instrs s) (meta s) (jumps s) (root_stack s) (S (steps s))).
Proof. intros (H1 & H2 & H3). split; [exact H1|split; [exact H2|simpl; congruence]]. Qed.

Definition post (k : nat) (nonempty : bool) (r : bstate * nat) : Prop :=
  exists k', inv tree k' (fst r) /\ k <= k' /\ k' <= max_steps tree /\ (nonempty = true -> k < k').

Lemma drain_tw : forall fuel s crj stack k,
  inv tree k s -> k <= max_steps tree -> max_steps tree + 2 <= fuel + k ->
  tw (post k (match stack with [] => false | _ => true end)) (drain tree init lit_ok fuel s crj stack).
Proof.
  induction fuel as [|fuel IH]; intros s crj stack k Hs Hk Hf.
  - exfalso. lia.
  - simpl. destruct stack as [|ni rest].
    + simpl. exists k. split; [exact Hs|split; [lia|split; [exact Hk|discriminate]]].
    + set (s' := mkBS (bnodes s) (instrs s) (meta s) (jumps s) (root_stack s) (S (steps s))).
      assert (Hs' : inv tree (S k) s') by (apply inv_bump; exact Hs).
      assert (Hk0 : steps s = k) by (destruct Hs as (_ & _ & E); exact E).
      change (steps s') with (S (steps s)).
      destruct (Nat.ltb_spec (max_steps tree) (S (steps s))) as [Hcap|Hcap]; [exact I|].
      destruct (nth_error tree ni) as [pn|] eqn:En; [|exact I].
      eapply tw_bind; [apply (handle_parse_node_tw tree init lit_ok (S k) Hlinks s' crj rest ni pn Hs' En)|].
      intros [s1 st1] H1. cbn [wl_ok fst] in H1.
      eapply tw_bind; [apply after_node_tw; exact H1|]. intros s2 H2.
      rewrite Hk0 in Hcap.
      eapply tw_weaken; [|apply (IH s2 crj st1 (S k) H2); lia].
      intros r (k' & Hi & Hle & Hmax & _). exists k'. split; [exact Hi|split; [lia|split; [exact Hmax|intros _; lia]]].
Qed.

Lemma finish_root_inv k s ri : inv tree k s -> inv tree k (finish_root init s ri).
Proof.
  intros Hs. unfold finish_root.
  generalize (last_instruction init s). intros last.
  generalize (match nth_error (bnodes s) ri with
              | Some (Some b) => match b_root_end b with Some e => e | None => [(I_EndExpression, ONone)] end
              | _ => [(I_EndExpression, ONone)] end).
  generalize (existsb (Nat.eqb (instr_len init s)) (jumps s)). intros tg.
  intros ends. revert s Hs. induction ends as [|e r IH]; intros s Hs; simpl; [exact Hs|].
  apply IH. destruct last as [li|].
  - destruct (instr_eqb li e && instruction_eqb (fst e) I_EndExpression && negb tg); exact Hs.
  - exact Hs.
Qed.

Lemma set_jump_tw k s index target : inv tree k s -> tw (inv tree k) (set_jump init s index target).
Proof.
  intros Hs. unfold set_jump. destruct (Nat.ltb index (i_jump_len init)); [exact I|].
  destruct (upd (jumps s) (index - i_jump_len init) (fun _ => target)); [exact Hs|exact I].
Qed.

Lemma roots_tw dfuel : forall fuel s k,
  inv tree k s -> k <= max_steps tree -> max_steps tree + 2 <= dfuel ->
  max_steps tree + 2 <= fuel + k ->
  tw (fun s' => exists k', inv tree k' s' /\ k' <= max_steps tree) (roots tree init lit_ok dfuel fuel s).
Proof.
  induction fuel as [|fuel IH]; intros s k Hs Hk Hd Hf; [exfalso; lia|].
  simpl. destruct (root_stack s) as [|ri rest] eqn:Er; [simpl; eauto|].
  set (s0 := mkBS (bnodes s) (instrs s) (meta s) (jumps s) rest (steps s)).
  assert (Hs0 : inv tree k s0) by exact Hs.
  eapply (tw_bind (fun r : bstate * nat => inv tree k (fst r))).
  - destruct (nth_error (bnodes s) ri) as [[b|]|]; try exact Hs0.
    destruct (b_jump_upd b) as [index|]; [|exact Hs0].
    eapply tw_bind; [apply set_jump_tw; exact Hs0|]. intros s1 H1. exact H1.
  - intros [s1 crj] H1. cbn [fst] in H1.
    eapply tw_bind; [apply (drain_tw dfuel s1 crj [ri] k H1 Hk); lia|].
    intros [s2 f2] (k' & H2 & Hle & Hmax & Hlt). cbn [fst] in H2.
    specialize (Hlt eq_refl).
    apply (IH (finish_root init s2 ri) k'); [apply finish_root_inv; exact H2|exact Hmax|exact Hd|lia].
Qed.

End Loops.

(* build, on EVERY node array, initial data object and literal oracle: Ok or Err *)
Theorem build_total (tree : list pnode) (init : binit) (lit_ok : nat -> bool) (root : nat) :
  total (build tree init lit_ok (build_fuel tree) root).
Proof.
  unfold build. destruct tree as [|n0 r] eqn:Et; [exact I|]. rewrite <- Et.
  destruct (negb (root <? length tree)) eqn:Er; [exact I|].
  destruct (negb (links_in_range tree)) eqn:El; [exact I|].
  apply negb_false_iff in Er. apply Nat.ltb_lt in Er. apply negb_false_iff in El.
  pose proof (links_in_range_ok tree El) as Hlinks.
  set (s0 := mkBS (map (fun _ => None) tree) [] [] [] [root] 0).
  assert (H0 : inv tree 0 s0).
  { split; [apply map_length|]. split; [|reflexivity].
    intros i b Hn. apply nth_error_In in Hn. apply in_map_iff in Hn. destruct Hn as (x & Hx & _). discriminate. }
  apply (tw_total (fun _ => True)). eapply (tw_bind (inv tree 0)).
  - apply assign_b_tw; [exact H0|exact Er|apply items_ok_nil].
  - intros s1 H1. eapply tw_bind.
    + apply (roots_tw tree init lit_ok Hlinks (build_fuel tree) (build_fuel tree) s1 0 H1);
        unfold max_steps, build_fuel; lia.
    + intros s2 _. exact I.
Qed.

(* the node loop of build runs at most 16 * |tree| + 16 times: linear in the size of the tree *)
Theorem build_steps_linear (tree : list pnode) (init : binit) (lit_ok : nat -> bool) (root : nat) s e :
  build tree init lit_ok (build_fuel tree) root = Ok (s, e) -> steps s <= 16 * length tree + 16.
Proof.
  unfold build. destruct tree as [|n0 r] eqn:Et; [intros [= <- _]; simpl; lia|]. rewrite <- Et.
  destruct (negb (root <? length tree)) eqn:Er; [discriminate|].
  destruct (negb (links_in_range tree)) eqn:El; [discriminate|].
  apply negb_false_iff in Er. apply Nat.ltb_lt in Er. apply negb_false_iff in El.
  pose proof (links_in_range_ok tree El) as Hlinks.
  set (s0 := mkBS (map (fun _ => None) tree) [] [] [] [root] 0).
  assert (H0 : inv tree 0 s0).
  { split; [apply map_length|]. split; [|reflexivity].
    intros i b Hn. apply nth_error_In in Hn. apply in_map_iff in Hn. destruct Hn as (x & Hx & _). discriminate. }
  pose proof (assign_b_tw tree 0 s0 root (b_new root (i_jump_len init)) H0 Er (items_ok_nil tree root (i_jump_len init))) as A.
  destruct (assign_b s0 root (b_new root (i_jump_len init))) as [s1| | |]; simpl in A |- *; try discriminate.
  assert (R : tw (fun s' => exists k', inv tree k' s' /\ k' <= max_steps tree)
                 (roots tree init lit_ok (build_fuel tree) (build_fuel tree) s1)).
  { apply (roots_tw tree init lit_ok Hlinks (build_fuel tree) (build_fuel tree) s1 0 A);
      unfold max_steps, build_fuel; lia. }
  destruct (roots tree init lit_ok (build_fuel tree) (build_fuel tree) s1) as [s2| | |]; simpl in R |- *; try discriminate.
  intros [= <- _]. destruct R as (k' & (_ & _ & Hk) & Hle). unfold max_steps in Hle. lia.
Qed.
