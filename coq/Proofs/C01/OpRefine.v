(* One machine step of every value-level operation computes what the reference
   evaluator's primitive says, for every operand, and adds nothing observable
   to the host trace (defer_op calls are declined and not observable). *)
From Coq Require Import ZArith NArith List Bool Arith Lia.
From GV Require Import Base.Result Base.Host Gen.Instr Gen.Exec Gen.CmpTable Model.Num Model.Value Model.Machine
  Model.CompileExpr Spec.Ast Spec.Eval Proofs.C01.MachineFacts.
Import ListNotations.

Section Ops.
Variable hstate : Type.
Variable host : hstate -> host_call -> hstate * option val.
Hypothesis Hdef : declines_defer hstate host.
Variable p : program.

Notation St := (mkSt hstate).
Notation step := (step hstate host).

Lemma observable_app : forall a b, observable (a ++ b) = observable a ++ observable b.
Proof. intros. unfold observable. apply filter_app. Qed.

Lemma observable_defer : forall t i l r, observable (t ++ [HDefer i l r]) = observable t.
Proof. intros. rewrite observable_app. cbn. apply app_nil_r. Qed.

Lemma defer_eq : forall pcx sg vs fs h t i l r,
  defer hstate host (St pcx sg vs fs h t) i l r = St pcx (VUnit :: sg) vs fs h (t ++ [HDefer i l r]).
Proof.
  intros. unfold defer, ask. cbn [hs pc regs vals frames tr]. rewrite Hdef. reflexivity.
Qed.

(* ------------------------------------------------------------ generic step *)
Lemma step_ok : forall s i o f takes s1 next,
  nth_error (code p) (pc s) = Some (i, o) ->
  exec_op i = Some (f, takes) ->
  (takes = true -> o <> MNone) ->
  run_op hstate host p i f o s = Ok (s1, next) ->
  (match next with Some n => n | None => S (pc s) end) < length (code p) ->
  step p s = SRun hstate (St (match next with Some n => n | None => S (pc s) end)
                              (regs s1) (vals s1) (frames s1) (hs s1) (tr s1)).
Proof.
  intros s i o f takes s1 next Hn He Ht Hr Hlt. unfold Machine.step. rewrite Hn, He.
  assert (Hc : (takes && match o with MNone => true | _ => false end) = false).
  { destruct takes; cbn; auto. destruct o; auto. exfalso. apply Ht; auto. }
  rewrite Hc, Hr.
  destruct (Nat.leb (length (code p)) (match next with Some n => n | None => S (pc s) end)) eqn:Hl.
  - apply Nat.leb_le in Hl. lia.
  - reflexivity.
Qed.

(* ---------------------------------------------------------- arithmetic ops *)
Ltac st_norm :=
  cbv beta iota delta [next_two next_ref push_bool push_unit push set_regs set_vals stay regs pc vals frames hs tr bind].

Lemma perform_op_spec : forall i o vl vr v pcx sg vs fs h t,
  prim_arith o vl vr = Some v ->
  exists t', perform_op hstate host i o (St pcx (vr :: vl :: sg) vs fs h t) = Ok (St pcx (v :: sg) vs fs h t', None)
             /\ observable t' = observable t.
Proof.
  intros i o vl vr v pcx sg vs fs h t H.
  assert (Hv : v = match prim_arith o vl vr with Some x => x | None => VUnit end) by (rewrite H; reflexivity).
  subst v.
  unfold perform_op. st_norm.
  destruct vl; try (destruct vr; st_norm; cbn [prim_arith]; eexists; (split; [rewrite defer_eq; reflexivity | apply observable_defer])).
  destruct vr; st_norm; try (cbn [prim_arith]; eexists; (split; [rewrite defer_eq; reflexivity | apply observable_defer])).
  match goal with H : prim_arith _ (VNum ?x) (VNum ?y) = _ |- _ => destruct x as [a|a], y as [b|b] end;
  destruct o; cbn [is_flt orb] in *; cbn [prim_arith] in *; try discriminate;
    (unfold Eval.no_powf, Machine.no_powf;
     match goal with |- context [num_binop ?pw ?o ?x ?y] => destruct (num_binop pw o x y) end;
     cbn [of_num]; eexists; (split; [reflexivity | reflexivity])).
Qed.

Lemma perform_unary_spec : forall i o v pcx sg vs fs h t,
  exists t', perform_unary_op hstate host i o (St pcx (v :: sg) vs fs h t) =
             Ok (St pcx ((match v with VNum a => of_num (num_unop o a) | _ => VUnit end) :: sg) vs fs h t', None)
             /\ observable t' = observable t.
Proof.
  intros i o v pcx sg vs fs h t.
  unfold perform_unary_op. st_norm.
  destruct v; st_norm; try (eexists; (split; [rewrite defer_eq; reflexivity | apply observable_defer])).
  destruct (num_unop o n); cbn [of_num]; eexists; split; reflexivity.
Qed.

(* ------------------------------------------------------------------ truth *)
Lemma is_true_truthy : forall v, is_true_value v = truthy v.
Proof. destruct v; reflexivity. Qed.

Lemma not_spec : forall v pcx sg vs fs h t,
  not_op hstate (St pcx (v :: sg) vs fs h t) = Ok (St pcx (vbool (negb (truthy v)) :: sg) vs fs h t, None).
Proof. intros. unfold not_op. st_norm. rewrite is_true_truthy. destruct (truthy v); reflexivity. Qed.

Lemma tis_spec : forall v pcx sg vs fs h t,
  tis_op hstate (St pcx (v :: sg) vs fs h t) = Ok (St pcx (vbool (truthy v) :: sg) vs fs h t, None).
Proof. intros. unfold tis_op. st_norm. rewrite is_true_truthy. destruct (truthy v); reflexivity. Qed.

Lemma xor_spec : forall vl vr pcx sg vs fs h t,
  xor_op hstate (St pcx (vr :: vl :: sg) vs fs h t) =
  Ok (St pcx (vbool (xorb (truthy vl) (truthy vr)) :: sg) vs fs h t, None).
Proof.
  intros. unfold xor_op. st_norm. rewrite !is_true_truthy.
  destruct (truthy vl), (truthy vr); reflexivity.
Qed.

Lemma pair_spec : forall vl vr pcx sg vs fs h t,
  make_pair hstate (St pcx (vl :: vr :: sg) vs fs h t) = Ok (St pcx (VPair vl vr :: sg) vs fs h t, None).
Proof. intros. unfold make_pair. st_norm. reflexivity. Qed.

(* -------------------------------------------------------------- comparison *)
Definition cmp_of (o : binop) : option cmp_op :=
  match o with BLt => Some CLt | BLe => Some CLe | BGt => Some CGt | BGe => Some CGe | _ => None end.

Lemma cmp_items_lex : forall l r, cmp_items l r = lex_cmp l r.
Proof. induction l; destruct r; cbn; auto; rewrite IHl; reflexivity. Qed.

Lemma holds_agree : forall o c x, cmp_of o = Some c -> ord_holds (op_test c) x = rel_holds o x.
Proof. destruct o; intros c x H; inversion H; subst; destruct x; reflexivity. Qed.

Lemma false_ord_false : forall o c, cmp_of o = Some c -> ord_holds (op_test c) (op_false_ord c) = false.
Proof. destruct o; intros c H; inversion H; subst; reflexivity. Qed.

Lemma comparison_spec : forall o c vl vr v pcx sg vs fs h t,
  cmp_of o = Some c ->
  prim_compare o vl vr = Some v ->
  comparison_op hstate c (St pcx (vr :: vl :: sg) vs fs h t) = Ok (St pcx (v :: sg) vs fs h t, None).
Proof.
  intros o c vl vr v pcx sg vs fs h t Hc H.
  assert (Hv : v = match prim_compare o vl vr with Some x => x | None => VUnit end) by (rewrite H; reflexivity).
  subst v. unfold comparison_op. st_norm.
  destruct vl, vr; cbn [perform_comparison prim_compare bind] in *; st_norm; try discriminate;
    try (rewrite (false_ord_false o c Hc); reflexivity).
  - destruct (num_partial_cmp n n0); st_norm; [rewrite (holds_agree o c _ Hc); destruct (rel_holds o c0)|]; reflexivity.
  - rewrite (holds_agree o c _ Hc). destruct (rel_holds o (c0 ?= c1)%N); reflexivity.
  - rewrite (holds_agree o c _ Hc). destruct (rel_holds o (b ?= b0)%N); reflexivity.
  - rewrite (holds_agree o c _ Hc), cmp_items_lex. destruct (rel_holds o (lex_cmp l l0)); reflexivity.
  - rewrite (holds_agree o c _ Hc), cmp_items_lex. destruct (rel_holds o (lex_cmp l l0)); reflexivity.
Qed.

(* --------------------------------------------------------------- internals *)
Lemma left_internal_spec : forall v r pcx sg vs fs h t,
  prim_unop ULeft v = Some r ->
  exists t', access_left_internal hstate host (St pcx (v :: sg) vs fs h t) = Ok (St pcx (r :: sg) vs fs h t', None)
             /\ observable t' = observable t.
Proof.
  intros v r pcx sg vs fs h t H. unfold access_left_internal. st_norm.
  destruct v; cbn in H; inversion H; subst; st_norm;
    try (eexists; (split; [rewrite defer_eq; reflexivity | apply observable_defer]));
    eexists; split; reflexivity.
Qed.

Lemma right_internal_spec : forall v r pcx sg vs fs h t,
  prim_unop URight v = Some r ->
  exists t', access_right_internal hstate host (St pcx (v :: sg) vs fs h t) = Ok (St pcx (r :: sg) vs fs h t', None)
             /\ observable t' = observable t.
Proof.
  intros v r pcx sg vs fs h t H. unfold access_right_internal. st_norm.
  destruct v; cbn in H; inversion H; subst; st_norm;
    try (eexists; (split; [rewrite defer_eq; reflexivity | apply observable_defer]));
    eexists; split; reflexivity.
Qed.

Lemma length_internal_spec : forall v r pcx sg vs fs h t,
  prim_unop ULen v = Some r ->
  exists t', access_length_internal hstate host (St pcx (v :: sg) vs fs h t) = Ok (St pcx (r :: sg) vs fs h t', None)
             /\ observable t' = observable t.
Proof.
  intros v r pcx sg vs fs h t H. unfold access_length_internal. st_norm.
  destruct v; cbn in H; try discriminate;
    try (inversion H; subst; st_norm; eexists; (split; [rewrite defer_eq; reflexivity | apply observable_defer]));
    try (inversion H; subst; st_norm; eexists; split; reflexivity).
  destruct v1; inversion H; subst; st_norm; eexists; split; reflexivity.
Qed.

(* ------------------------------------------------------------------ access *)
Lemma keyed_same : forall items s, Machine.keyed items s = Eval.keyed items s.
Proof. intros. reflexivity. Qed.

Lemma access_spec : forall vl vr v w pcx sg vs fs h t,
  prim_access vl vr = (Some v, w) ->
  exists t', access_op hstate host (St pcx (vr :: vl :: sg) vs fs h t) = Ok (St pcx (v :: sg) vs fs h t', None)
             /\ observable t' = observable t.
Proof.
  intros vl vr v w pcx sg vs fs h t H.
  unfold access_op. st_norm.
  destruct vl, vr; cbn [type_of_val] in *; cbn [prim_access merge_symbols by_index by_symbol of_found why_of is_core_kind andb] in H;
    try discriminate;
    try (injection H as <- _; cbn [merge_to_symbol_list bind]; st_norm; eexists; split; reflexivity);
    try (injection H as <- _; st_norm; eexists; (split; [rewrite defer_eq; reflexivity | apply observable_defer]));
    cbn [get_access_addr access_with_integer access_with_symbol bind];
    rewrite ?keyed_same;
    repeat (match goal with
            | H : context [match ?x with _ => _ end] |- _ =>
                destruct x; cbn [of_found why_of bind] in *; try discriminate
            end);
    injection H as <- _; unfold push_found; st_norm; eexists; split; reflexivity.
Qed.

End Ops.
