(* C18 at the token level: parse trees modulo trivia (token indices are not part
   of the comparison) and modulo added group nodes; the layout rewrites. *)
From Coq Require Import List Arith Bool NArith.
From GV Require Import Base.Result Gen.TokenTypes Gen.Defs Model.Parser.
Import ListNotations.

Inductive gtree : Type := GLeaf | GN (d : definition) (l r : gtree).

Fixpoint gtree_eqb (a b : gtree) : bool :=
  match a, b with
  | GLeaf, GLeaf => true
  | GN d1 l1 r1, GN d2 l2 r2 => definition_eqb d1 d2 && gtree_eqb l1 l2 && gtree_eqb r1 r2
  | _, _ => false
  end.

Fixpoint gtree_of (fuel : nat) (ns : list pnode) (i : option nat) : option gtree :=
  match fuel with
  | O => None
  | S f =>
    match i with
    | None => Some GLeaf
    | Some k =>
      match nth_error ns k with
      | None => None
      | Some n =>
        match gtree_of f ns (n_left n), gtree_of f ns (n_right n) with
        | Some l, Some r => Some (GN (n_def n) l r)
        | _, _ => None
        end
      end
    end
  end.

(* a group node with only a right child stands for that child *)
Fixpoint strip_groups (t : gtree) : gtree :=
  match t with
  | GLeaf => GLeaf
  | GN D_Group GLeaf r => strip_groups r
  | GN d l r => GN d (strip_groups l) (strip_groups r)
  end.

Definition parse_tree (toks : list token_type) : option gtree :=
  match parse toks with
  | Ok (root, ns) => match ns with [] => Some GLeaf | _ => gtree_of (2 * length ns + 2) ns (Some root) end
  | _ => None
  end.

(* trivia that may be put into a gap between two tokens *)
Inductive filler : Type := FNone | FSpace | FAnnotation | FSpacedAnnotation.
Definition filler_tokens (f : filler) : list token_type :=
  match f with
  | FNone => []
  | FSpace => [TT_Whitespace]
  | FAnnotation => [TT_Annotation]
  | FSpacedAnnotation => [TT_Whitespace; TT_Annotation; TT_Whitespace]
  end.
Definition all_fillers : list filler := [FNone; FSpace; FAnnotation; FSpacedAnnotation].

(* put fillers into the gaps of [s] (one filler per gap, extra ones ignored) *)
Fixpoint fill (s : list token_type) (fs : list filler) : list token_type :=
  match s with
  | [] => []
  | [t] => [t]
  | t :: r => match fs with
              | f :: fs' => t :: filler_tokens f ++ fill r fs'
              | [] => t :: fill r []
              end
  end.

Definition is_space_filler (f : filler) : bool :=
  match f with FSpace | FSpacedAnnotation => true | _ => false end.

(* whitespace-only variants of the same spacing: [fs'] differs from [fs] only by adding an
   annotation where there already is whitespace, or by replacing nothing with nothing *)
Definition same_spacing (f g : filler) : bool := Bool.eqb (is_space_filler f) (is_space_filler g).

Definition opt_gtree_eqb (a b : option gtree) : bool :=
  match a, b with
  | Some x, Some y => gtree_eqb x y
  | None, None => true
  | _, _ => false
  end.
