(* C15, BasicGarnishData: symbol names read back.  [get_symbol_string]
   binary-searches the symbol-table block (re-sorted after every
   [parse_add_symbol]) and then reads the name text the entry points to.
   Here: on a table sorted in nondecreasing key order (duplicates allowed:
   registering a name twice adds a second entry) the search lands on an entry
   with the key if there is one; under the state invariant [SymOk] (table
   sorted, every entry points at the text of a name of the domain with that
   hash) [get_symbol_string (h name)] is [Ok (Some name)] for a registered
   name and [Ok None] for a value without entry; the invariant holds in a
   fresh store and is kept by the operations of the history vocabulary. *)
From Coq Require Import NArith List Bool Arith Lia Sorted Permutation.
From GV Require Import Base.Result Gen.Instr Model.StoreBase Model.BasicStore Model.StoreOps Spec.AbsTables
  Proofs.C15.ListFacts Proofs.C15.Layout Proofs.C15.Stable Proofs.C15.Steps Proofs.C15.History
  Proofs.C16.BasicSearch.
Import ListNotations.

Definition is_assoc (c : cell) : Prop := exists k a, c = CAssociativeItem k a.
Definition ckey (c : cell) : N := match c with CAssociativeItem k _ => k | _ => 0%N end.

(* ---- the binary search on a nondecreasing table ---- *)
Section Search.
Variable items : list cell.
Hypothesis Hassoc : forall c, In c items -> is_assoc c.
Hypothesis Hsorted : StronglySorted le_cell items.
Variable sym : N.

Lemma keys_mono : forall i j ci cj, i < j -> nth_error items i = Some ci -> nth_error items j = Some cj ->
  (ckey ci <= ckey cj)%N.
Proof.
  intros i j ci cj Hij Hi Hj.
  pose proof (sorted_nth le_cell items i j ci cj Hsorted Hij Hi Hj) as H.
  destruct (Hassoc ci (nth_error_In _ _ Hi)) as (k1 & a1 & ->).
  destruct (Hassoc cj (nth_error_In _ _ Hj)) as (k2 & a2 & ->).
  unfold le_cell in H. cbn in H. apply N.leb_le in H. exact H.
Qed.

Lemma search_loop_dup : forall fuel base size, size <= fuel -> 1 <= size -> base + size <= length items ->
  exists b, search_loop fuel items sym base size = Ok b /\ base <= b < base + size /\
    ((exists j cj, nth_error items j = Some cj /\ base <= j < base + size /\ ckey cj = sym) ->
     exists cb, nth_error items b = Some cb /\ ckey cb = sym).
Proof.
  induction fuel as [|fuel IH]; intros base size Hf H1 Hb; [lia|].
  cbn [search_loop]. destruct (size <=? 1) eqn:E1.
  - apply Nat.leb_le in E1. exists base. split; [reflexivity|]. split; [lia|].
    intros (j & cj & Hj & Hr & Hk). assert (j = base) by lia. subst j. exists cj. auto.
  - apply Nat.leb_gt in E1.
    pose proof (Nat.mul_div_le size 2 ltac:(lia)) as Hd1.
    assert (Hd2 : 0 < size / 2) by (apply Nat.div_str_pos; lia).
    set (half := size / 2) in *.
    destruct (nth_error items (base + half)) as [cm|] eqn:Em; [|apply nth_error_None in Em; lia].
    destruct (Hassoc cm (nth_error_In _ _ Em)) as (km & vm & Ecm). subst cm.
    cbn [as_associative_item bind fst snd].
    destruct (IH (if (sym <? km)%N then base else base + half) (size - half)) as (b & Hr & Hrange & Hfind); try lia.
    { destruct (sym <? km)%N; lia. }
    exists b. split; [exact Hr|]. split; [destruct (sym <? km)%N; lia|].
    intros (j & cj & Hj & Hjr & Hk). apply Hfind.
    destruct (sym <? km)%N eqn:Ec.
    + apply N.ltb_lt in Ec. exists j, cj. split; [exact Hj|]. split; [|exact Hk].
      destruct (lt_dec j (base + half)) as [Hlt|Hge]; [lia|]. exfalso.
      destruct (Nat.eq_dec j (base + half)) as [->|Hne].
      * rewrite Em in Hj. inversion Hj; subst cj. cbn in Hk. lia.
      * pose proof (keys_mono (base + half) j _ _ ltac:(lia) Em Hj) as Hm. cbn in Hm. lia.
    + apply N.ltb_ge in Ec.
      destruct (lt_dec j (base + half)) as [Hlt|Hge].
      * pose proof (keys_mono j (base + half) _ _ Hlt Hj Em) as Hm. cbn in Hm.
        exists (base + half), (CAssociativeItem km vm). split; [exact Em|]. split; [lia|]. cbn. lia.
      * exists j, cj. split; [exact Hj|]. split; [lia|exact Hk].
Qed.

(* found: some entry carrying the key; absent: None; never an error *)
Theorem search_item_dup :
  ((exists c, In c items /\ ckey c = sym) ->
   exists a, In (CAssociativeItem sym a) items /\ search_for_associative_item items sym = Ok (Some (CAssociativeItem sym a))) /\
  ((forall c, In c items -> ckey c <> sym) -> search_for_associative_item items sym = Ok None).
Proof.
  unfold search_for_associative_item, search_for_associative_item_index.
  destruct (length items) as [|n] eqn:El.
  - split.
    + intros (c & Hc & _). destruct items; [destruct Hc|discriminate].
    + reflexivity.
  - cbn [Nat.eqb].
    destruct (search_loop_dup (S (S n)) 0 (S n)) as (b & Hr & Hrange & Hfind); try lia.
    rewrite Hr. cbn [bind].
    destruct (nth_error items b) as [cb|] eqn:Eb; [|apply nth_error_None in Eb; lia].
    destruct (Hassoc cb (nth_error_In _ _ Eb)) as (kb & vb & Ecb). subst cb.
    cbn [as_associative_item bind fst snd]. split.
    + intros (c & Hc & Hk). apply In_nth_error in Hc. destruct Hc as [j Hj].
      destruct Hfind as (cb & Hcb & Hkb).
      { exists j, c. split; [exact Hj|]. split; [|exact Hk].
        assert (j < length items) by (apply nth_error_Some; congruence). lia. }
      try rewrite Eb in Hcb. inversion Hcb; subst cb. cbn in Hkb. subst kb.
      rewrite N.eqb_refl. cbn [bind]. rewrite Eb. exists vb. split; [eapply nth_error_In; exact Eb|reflexivity].
    + intro Habs. destruct (N.eqb kb sym) eqn:E; [|reflexivity]. apply N.eqb_eq in E. exfalso.
      apply (Habs _ (nth_error_In _ _ Eb)). exact E.
Qed.
End Search.

(* ---- the name text an entry points to ---- *)
Definition text_at (T : list cell) (a : nat) (name : list N) : Prop :=
  nth_error T a = Some (CCharList (length name)) /\
  forall i c, nth_error name i = Some c -> nth_error T (S a + i) = Some (CChar c).

Lemma unwrap_chars_map : forall l, unwrap_chars (map CChar l) = Ok l.
Proof. induction l as [|x r IH]; cbn; [reflexivity|]. rewrite IH. reflexivity. Qed.

Lemma block_end_in_heap : forall s b, Inv s -> st s b + cur s b <= length (heap s).
Proof.
  intros s b I. pose proof (inv_cursor s I b) as Hc.
  rewrite (inv_len s I), (inv_start s I). unfold total_size. unfold cur, sz in *. destruct b; cbn [offset]; lia.
Qed.

Lemma block_slice_window : forall s b, Inv s -> block_slice b s = Ok (window s b).
Proof.
  intros s b I. unfold block_slice. fold (st s b) (cur s b).
  rewrite slice_ix_some; [|lia|apply block_end_in_heap; exact I].
  replace (st s b + cur s b - st s b) with (cur s b) by lia. reflexivity.
Qed.

Lemma text_in_data : forall s a name, Inv s -> text_at (data s) a name -> S a + length name <= cur s BData.
Proof.
  intros s a name I [Hh Hc]. unfold data in *.
  destruct (length name) as [|n] eqn:El.
  - assert (a < length (window s BData)) by (apply nth_error_Some; congruence).
    rewrite (window_len s BData I) in H. lia.
  - destruct (nth_error name n) as [c|] eqn:En; [|apply nth_error_None in En; lia].
    specialize (Hc n c En).
    assert (S a + n < length (window s BData)) by (apply nth_error_Some; congruence).
    rewrite (window_len s BData I) in H. lia.
Qed.

Lemma text_slice : forall s a name, Inv s -> text_at (data s) a name ->
  slice_ix (heap s) (b_start (blk_data s) + a + 1) (b_start (blk_data s) + a + 1 + length name) = Some (map CChar name).
Proof.
  intros s a name I T. pose proof (text_in_data s a name I T) as Hb.
  pose proof (block_end_in_heap s BData I) as He.
  change (b_start (blk_data s)) with (st s BData).
  rewrite slice_ix_some by lia. f_equal.
  replace (st s BData + a + 1 + length name - (st s BData + a + 1)) with (length name) by lia.
  apply list_ext_nth. intro i. rewrite nth_error_window, nth_error_map.
  destruct (i <? length name) eqn:E.
  - apply Nat.ltb_lt in E. destruct (nth_error name i) as [c|] eqn:En; [|apply nth_error_None in En; lia].
    cbn [option_map]. destruct T as [_ Hc]. specialize (Hc i c En). unfold data in Hc. rewrite window_nth in Hc.
    assert (E2 : (S a + i <? cur s BData) = true) by (apply Nat.ltb_lt; lia). rewrite E2 in Hc.
    rewrite <- Hc. f_equal. lia.
  - apply Nat.ltb_ge in E. assert (nth_error name i = None) as -> by (apply nth_error_None; lia). reflexivity.
Qed.

Section Names.
Variable h : list N -> N.            (* DataFactory::parse_symbol, an oracle *)
Variable dom : list N -> Prop.       (* the names registered *)
Hypothesis h_inj : forall v w, dom v -> dom w -> h v = h w -> v = w.

Definition entry_ok (T : list cell) (c : cell) : Prop :=
  exists name a, dom name /\ c = CAssociativeItem (h name) a /\ text_at T a name.

Record SymOk (s : basic) : Prop := {
  so_sorted : StronglySorted le_cell (window s BSym);
  so_entries : forall c, In c (window s BSym) -> entry_ok (data s) c }.

Lemma entry_assoc : forall T c, entry_ok T c -> is_assoc c.
Proof. intros T c (name & a & _ & -> & _). exists (h name), a. reflexivity. Qed.

(* the core: in any state satisfying the layout invariant and [SymOk] *)
Theorem symbol_lookup_found : forall s name, Inv s -> SymOk s -> dom name ->
  (exists a, In (CAssociativeItem (h name) a) (window s BSym)) ->
  get_symbol_string (h name) s = Ok (Some name).
Proof.
  intros s name I [Hs He] Hd (a0 & Hin). unfold get_symbol_string.
  rewrite (block_slice_window s BSym I). cbn [bind].
  destruct (search_item_dup (window s BSym) (fun c Hc => entry_assoc _ c (He c Hc)) Hs (h name)) as [Hfound _].
  destruct Hfound as (a & Ha & Hr); [exists (CAssociativeItem (h name) a0); split; [exact Hin|reflexivity]|].
  rewrite Hr. cbn [bind as_associative_item snd].
  destruct (He _ Ha) as (name' & a' & Hd' & Eq & T). inversion Eq; subst a'.
  assert (name' = name) by (apply h_inj; auto). subst name'.
  rewrite (get_from_block_ok s BData a I). fold (data s). rewrite (proj1 T). cbn [bind as_char_list].
  rewrite (text_slice s a name I T). rewrite unwrap_chars_map. reflexivity.
Qed.

Theorem symbol_lookup_absent : forall s k, Inv s -> SymOk s ->
  (forall a, ~ In (CAssociativeItem k a) (window s BSym)) -> get_symbol_string k s = Ok None.
Proof.
  intros s k I [Hs He] Hno. unfold get_symbol_string.
  rewrite (block_slice_window s BSym I). cbn [bind].
  destruct (search_item_dup (window s BSym) (fun c Hc => entry_assoc _ c (He c Hc)) Hs k) as [_ Habsent].
  rewrite Habsent; [reflexivity|].
  intros c Hc Hk. destruct (entry_assoc _ c (He c Hc)) as (k' & a & ->). cbn in Hk. subst k'. exact (Hno a Hc).
Qed.
End Names.

(* ---- the exact effect of parse_add_symbol ---- *)
Lemma parse_add_symbol_effect : forall sym n chars s, G s ->
  exists s4, parse_add_symbol sym n chars s = Ok (s4, Done (length (data s))) /\
    window s4 BSym = stable_sort assoc_le (window s BSym ++ [CAssociativeItem sym (S (length (data s)))]) /\
    data s4 = data s ++ CSymbol sym :: CCharList n :: map CChar chars.
Proof.
  intros sym n chars s Gs. unfold parse_add_symbol.
  destruct (push_data_ok s (CSymbol sym) Gs) as (s1 & H1 & G1 & _ & (_ & D1 & W1 & _)); [plain_tac|].
  destruct (push_data_ok s1 (CCharList n) G1) as (s2 & H2 & G2 & _ & (_ & D2 & W2 & _)); [plain_tac|].
  destruct (push_all_ok (map CChar chars) s2 G2 (plain_chars chars)) as (s3 & H3 & G3 & _ & (_ & D3 & W3 & _)).
  erewrite sbind_done by exact H1. erewrite sbind_done by exact H2. erewrite sbind_done by exact H3.
  unfold push_to_symbol_table_block, push_assoc.
  destruct (push_other_ok s3 BSym (CAssociativeItem sym (length (data s1))) G3) as (s3' & H4 & G4 & _ & Hw4 & Ho4 & _); [congruence|].
  pose proof (good_inv s3' (g_good s3' G4)) as I4.
  destruct (sort_range_ok s3' BSym 0 (cur s3' BSym) I4) as (s4 & H5 & I5 & Hw5 & Ho5 & _); [lia|lia|].
  unfold st, cur in H5. rewrite Nat.add_0_r in H5.
  erewrite sbind_done by (erewrite sbind_done by exact H4; exact H5).
  exists s4. split; [reflexivity|]. split.
  - rewrite Hw5. rewrite Nat.sub_0_r. cbn [skipn]. rewrite <- (window_len s3' BSym I4), firstn_all.
    unfold splice_ix. cbn [firstn app]. rewrite skipn_all, app_nil_r.
    rewrite Hw4, W3, W2, W1 by congruence. rewrite D1, app_length. cbn [length]. rewrite Nat.add_1_r. reflexivity.
  - unfold data in *. rewrite Ho5, Ho4 by congruence. rewrite D3, D2, D1, <- !app_assoc. reflexivity.
Qed.

(* ---- operations that do not touch the symbol table ---- *)
Definition sym_neutral (o : op) : bool :=
  match o with
  | OInstr _ _ | OJump _ | OExprSym _ _ | OCustom | OUnit | OTrue | OFalse
  | ONumber _ | OType _ | OChar _ | OByte _ | OSym _ | OExpression _ | OExternal _
  | OPair _ _ | OConcat _ _ | ORange _ _ | OSlice _ _ | OPartial _ _
  | OText _ _ | OBytes _ | OCursor _ => true
  | _ => false
  end.

Lemma lift_inv : forall A (f : A -> result) (m : BM A) s s' r s1 a, m s = Ok (s1, Done a) -> lift f m s = Ok (s', r) -> s' = s1.
Proof. intros A f m s s' r s1 a Hm H. unfold lift in H. rewrite Hm in H. inversion H. reflexivity. Qed.

Lemma push_data_neutral : forall (f : nat -> result) c s s' r, G s -> lift f (push_to_data_block c) s = Ok (s', r) ->
  window s' BSym = window s BSym.
Proof.
  intros f c s s' r Gs H. destruct (push_data_raw s c (g_good s Gs)) as (s1 & Hp & (_ & _ & W & _)).
  rewrite (lift_inv _ _ _ _ _ _ _ _ Hp H). apply W. congruence.
Qed.

Lemma push_other_neutral : forall (f : nat -> result) b c s s' r, G s -> b <> BSym -> lift f (push_to b c) s = Ok (s', r) ->
  window s' BSym = window s BSym.
Proof.
  intros f b c s s' r Gs Hb H. destruct (push_to_ok s b c (g_good s Gs)) as (s1 & Hp & _ & _ & Ho & _).
  rewrite (lift_inv _ _ _ _ _ _ _ _ Hp H). apply Ho. congruence.
Qed.

Lemma neutral_window : forall o s s' r, G s -> sym_neutral o = true -> bstep o s = Ok (s', r) ->
  window s' BSym = window s BSym.
Proof.
  intros o s s' r Gs Hn H. destruct o; try discriminate Hn; cbn [bstep] in H;
    try (eapply push_data_neutral; [exact Gs|exact H]).
  - eapply push_other_neutral; [exact Gs| |exact H]. congruence.
  - eapply push_other_neutral; [exact Gs| |exact H]. congruence.
  - (* OExprSym *)
    unfold push_to_expression_symbol_block, push_assoc in H.
    destruct (push_other_ok s BExpr (CAssociativeItem sym v) Gs) as (s1 & H1 & G1 & _ & _ & Ho1 & _); [congruence|].
    pose proof (good_inv s1 (g_good s1 G1)) as I1.
    destruct (sort_range_ok s1 BExpr 0 (cur s1 BExpr) I1) as (s2 & H2 & _ & _ & Ho2 & _); [lia|lia|].
    unfold st, cur in H2. rewrite Nat.add_0_r in H2.
    assert (Hm : (sdo _ <- push_to BExpr (CAssociativeItem sym v) ;
                  fun s => sort_range (b_start (get_block s BExpr)) (b_start (get_block s BExpr) + b_cursor (get_block s BExpr)) s) s
                 = Ok (s2, Done tt)) by (erewrite sbind_done by exact H1; exact H2).
    rewrite (lift_inv _ _ _ _ _ _ _ _ Hm H). rewrite Ho2, Ho1 by congruence. reflexivity.
  - eapply push_other_neutral; [exact Gs| |exact H]. congruence.
  - (* OText *)
    unfold add_string in H.
    destruct (push_data_ok s (CCharList byte_len) Gs) as (s1 & H1 & G1 & _ & (_ & _ & W1 & _)); [plain_tac|].
    destruct (push_all_ok (map CChar chars) s1 G1 (plain_chars chars)) as (s2 & H2 & _ & _ & (_ & _ & W2 & _)).
    assert (Hm : (sdo start <- push_to_data_block (CCharList byte_len) ; sdo _ <- push_all (map CChar chars) ; sret start) s
                 = Ok (s2, Done (length (data s)))) by (erewrite sbind_done by exact H1; erewrite sbind_done by exact H2; reflexivity).
    rewrite (lift_inv _ _ _ _ _ _ _ _ Hm H). rewrite W2, W1 by congruence. reflexivity.
  - (* OBytes *)
    unfold add_byte_slice in H.
    destruct (push_data_ok s (CByteList (length l)) Gs) as (s1 & H1 & G1 & _ & (_ & _ & W1 & _)); [plain_tac|].
    destruct (push_all_ok (map CByte l) s1 G1 (plain_bytes l)) as (s2 & H2 & _ & _ & (_ & _ & W2 & _)).
    assert (Hm : (sdo start <- push_to_data_block (CByteList (length l)) ; sdo _ <- push_all (map CByte l) ; sret start) s
                 = Ok (s2, Done (length (data s)))) by (erewrite sbind_done by exact H1; erewrite sbind_done by exact H2; reflexivity).
    rewrite (lift_inv _ _ _ _ _ _ _ _ Hm H). rewrite W2, W1 by congruence. reflexivity.
  - inversion H. reflexivity.
Qed.

(* ---- lifted to histories ---- *)
Lemma text_stable : forall s s' a name, Stable s s' -> text_at (data s) a name -> text_at (data s') a name.
Proof.
  intros s s' a name St [Hh Hc]. split.
  - rewrite (sb_data s s' St a); [exact Hh|]. eexists. split; [exact Hh|left; reflexivity].
  - intros i c Hi. rewrite (sb_data s s' St (S a + i)); [exact (Hc i c Hi)|].
    eexists. split; [exact (Hc i c Hi)|left; reflexivity].
Qed.

Lemma text_app : forall T sym name rest, text_at (T ++ CSymbol sym :: CCharList (length name) :: map CChar name ++ rest) (S (length T)) name.
Proof.
  intros T sym name rest. split.
  - rewrite nth_error_app2 by lia. replace (S (length T) - length T) with 1 by lia. reflexivity.
  - intros i c Hi. rewrite nth_error_app2 by lia. replace (S (S (length T)) + i - length T) with (S (S i)) by lia.
    cbn [nth_error]. rewrite nth_error_app1 by (rewrite map_length; apply nth_error_Some; congruence).
    rewrite nth_error_map, Hi. reflexivity.
Qed.

Section Histories.
Variable h : list N -> N.
Variable dom : list N -> Prop.
Hypothesis h_inj : forall v w, dom v -> dom w -> h v = h w -> v = w.
(* a class of operations known to leave the symbol table alone: [sym_neutral]
   above, all operations but parse_add_symbol in Proofs/C15/SymbolNamesAll.v *)
Variable neutral : op -> bool.
Hypothesis neutral_keeps : forall o s s' r, G s -> neutral o = true -> bstep o s = Ok (s', r) ->
  window s' BSym = window s BSym.
Hypothesis neutral_sym : forall sym bl name, neutral (OSymbol sym bl name) = false.

(* a history over the vocabulary covered here: every parse_add_symbol
   registers a name of the domain under its hash with the length of the
   name as header (one cell per char: the names of the domain are the ones
   for which str::len() is the number of chars), every other operation is
   one that does not go near the symbol table *)
Definition sym_op_ok (o : op) : Prop :=
  neutral o = true \/ exists name, dom name /\ o = OSymbol (h name) (length name) name.

Definition registers (ops : list op) (name : list N) : Prop := In (OSymbol (h name) (length name) name) ops.

Lemma entry_stable : forall s s' c, Stable s s' -> entry_ok h dom (data s) c -> entry_ok h dom (data s') c.
Proof.
  intros s s' c St (name & a & Hd & Ec & T). exists name, a. split; [exact Hd|]. split; [exact Ec|].
  eapply text_stable; eassumption.
Qed.

Lemma step_sym : forall o s s' r, G s -> SymOk h dom s -> sym_op_ok o -> bstep o s = Ok (s', r) ->
  G s' /\ SymOk h dom s' /\
  (forall c, In c (window s BSym) -> In c (window s' BSym)) /\
  (forall c, In c (window s' BSym) -> In c (window s BSym) \/
     exists name a, o = OSymbol (h name) (length name) name /\ c = CAssociativeItem (h name) a) /\
  (forall name, o = OSymbol (h name) (length name) name -> exists a, In (CAssociativeItem (h name) a) (window s' BSym)).
Proof.
  intros o s s' r Gs [Hs He] Hok H.
  destruct (bstep_ok o s Gs) as (s2 & r2 & H2 & G2 & S2). rewrite H in H2. inversion H2; subst s2 r2. clear H2.
  split; [exact G2|]. destruct Hok as [Hn|(name & Hd & ->)].
  - pose proof (neutral_keeps o s s' r Gs Hn H) as Hw. rewrite Hw.
    split; [|split; [auto|split; [auto|]]].
    + constructor; [rewrite Hw; exact Hs|]. intros c Hc. rewrite Hw in Hc. eapply entry_stable; [exact S2|apply He; exact Hc].
    + intros name ->. rewrite neutral_sym in Hn. discriminate Hn.
  - cbn [bstep] in H.
    destruct (parse_add_symbol_effect (h name) (length name) name s Gs) as (s4 & H4 & Hw & Hdat).
    pose proof (lift_inv _ _ _ _ _ _ _ _ H4 H) as E. subst s4.
    assert (Hperm : forall c, In c (window s' BSym) <-> In c (window s BSym ++ [CAssociativeItem (h name) (S (length (data s)))])).
    { intro c. rewrite Hw. split; intro Hc.
      - eapply Permutation_in; [apply Permutation_sym, stable_sort_perm|exact Hc].
      - eapply Permutation_in; [apply stable_sort_perm|exact Hc]. }
    split; [|split; [|split]].
    + constructor; [rewrite Hw; apply stable_sort_sorted|].
      intros c Hc. apply Hperm in Hc. apply in_app_or in Hc. destruct Hc as [Hc|[<-|[]]].
      * eapply entry_stable; [exact S2|apply He; exact Hc].
      * exists name, (S (length (data s))). split; [exact Hd|]. split; [reflexivity|].
        rewrite Hdat. pose proof (text_app (data s) (h name) name []) as T. rewrite app_nil_r in T. exact T.
    + intros c Hc. apply Hperm. apply in_or_app. left. exact Hc.
    + intros c Hc. apply Hperm in Hc. apply in_app_or in Hc. destruct Hc as [Hc|[<-|[]]]; [left; exact Hc|].
      right. exists name, (S (length (data s))). split; reflexivity.
    + intros name' E0. assert (E3 : name = name') by (injection E0; auto). subst name'.
      exists (S (length (data s))). apply Hperm. apply in_or_app. right. left. reflexivity.
Qed.

Lemma registers_dom : forall ops name, Forall sym_op_ok ops -> registers ops name -> dom name.
Proof.
  intros ops name Hall Hr. rewrite Forall_forall in Hall. destruct (Hall _ Hr) as [Hn|(name' & Hd & E)]; [rewrite neutral_sym in Hn; discriminate Hn|].
  assert (name = name') by (injection E; auto). subst name'. exact Hd.
Qed.

Lemma run_sym : forall ops s s' rs, G s -> SymOk h dom s -> Forall sym_op_ok ops -> run bstep ops s = Ok (s', rs) ->
  G s' /\ SymOk h dom s' /\
  (forall c, In c (window s BSym) -> In c (window s' BSym)) /\
  (forall c, In c (window s' BSym) -> In c (window s BSym) \/ exists name a, registers ops name /\ c = CAssociativeItem (h name) a) /\
  (forall name, registers ops name -> exists a, In (CAssociativeItem (h name) a) (window s' BSym)).
Proof.
  induction ops as [|o rest IH]; intros s s' rs Gs Hs Hall H.
  - cbn in H. inversion H; subst s' rs. split; [exact Gs|]. split; [exact Hs|]. split; [auto|]. split; [auto|].
    intros name [].
  - inversion Hall as [|o' rest' Ho Hrest]; subst o' rest'.
    destruct (bstep_ok o s Gs) as (s1 & r & H1 & _ & _).
    cbn [run] in H. rewrite H1 in H. cbn [bind fst snd] in H.
    destruct (step_sym o s s1 r Gs Hs Ho H1) as (G1 & Hs1 & Hkeep1 & Hnew1 & Hreg1).
    destruct (run_ok rest s1 G1) as (s2 & rs2 & H2 & _). rewrite H2 in H. cbn [bind fst snd] in H.
    inversion H; subst s' rs. clear H.
    destruct (IH s1 s2 rs2 G1 Hs1 Hrest H2) as (G2 & Hs2 & Hkeep2 & Hnew2 & Hreg2).
    split; [exact G2|]. split; [exact Hs2|]. split; [auto|]. split.
    + intros c Hc. destruct (Hnew2 c Hc) as [Hc1|(name & a & Hr & ->)].
      * destruct (Hnew1 c Hc1) as [Hc0|(name & a & -> & ->)]; [left; exact Hc0|].
        right. exists name, a. split; [left; reflexivity|reflexivity].
      * right. exists name, a. split; [right; exact Hr|reflexivity].
    + intros name [Hr|Hr].
      * destruct (Hreg1 name Hr) as (a & Ha). exists a. apply Hkeep2. exact Ha.
      * apply Hreg2. exact Hr.
Qed.

Theorem symbol_name_readback : forall si sj ss se sd sc ops1 ops2,
  progressing si -> progressing sj -> progressing ss -> progressing se -> progressing sd -> progressing sc ->
  Forall sym_op_ok (ops1 ++ ops2) ->
  exists s0 s1 s2 r1 r2,
    new_with_settings si sj ss se sd sc = Ok (s0, Done tt) /\
    run bstep ops1 s0 = Ok (s1, r1) /\ run bstep ops2 s1 = Ok (s2, r2) /\
    (forall name, registers ops1 name ->
       get_symbol_string (h name) s1 = Ok (Some name) /\ get_symbol_string (h name) s2 = Ok (Some name)) /\
    (forall k, (forall name, registers (ops1 ++ ops2) name -> h name <> k) -> get_symbol_string k s2 = Ok None).
Proof.
  intros si sj ss se sd sc ops1 ops2 P1 P2 P3 P4 P5 P6 Hall.
  destruct (fresh_store_ok si sj ss se sd sc P1 P2 P3 P4 P5 P6) as (s0 & H0 & G0 & Hempty).
  destruct (run_ok ops1 s0 G0) as (s1 & r1 & H1 & _).
  assert (Hs0 : SymOk h dom s0).
  { constructor; rewrite (Hempty BSym); [constructor|intros c []]. }
  apply Forall_app in Hall. destruct Hall as [Hall1 Hall2].
  destruct (run_sym ops1 s0 s1 r1 G0 Hs0 Hall1 H1) as (G1 & Hs1 & _ & Hnew1 & Hreg1).
  destruct (run_ok ops2 s1 G1) as (s2 & r2 & H2 & _).
  destruct (run_sym ops2 s1 s2 r2 G1 Hs1 Hall2 H2) as (G2 & Hs2 & Hkeep2 & Hnew2 & _).
  exists s0, s1, s2, r1, r2. split; [exact H0|]. split; [exact H1|]. split; [exact H2|]. split.
  - intros name Hr. pose proof (registers_dom ops1 name Hall1 Hr) as Hd.
    destruct (Hreg1 name Hr) as (a & Ha). split.
    + apply (symbol_lookup_found h dom h_inj s1 name (good_inv s1 (g_good s1 G1)) Hs1 Hd). exists a. exact Ha.
    + apply (symbol_lookup_found h dom h_inj s2 name (good_inv s2 (g_good s2 G2)) Hs2 Hd). exists a. apply Hkeep2. exact Ha.
  - intros k Hk. apply (symbol_lookup_absent h dom s2 k (good_inv s2 (g_good s2 G2)) Hs2).
    intros a Hin. destruct (Hnew2 _ Hin) as [Hin1|(name & a' & Hr & E)].
    + destruct (Hnew1 _ Hin1) as [Hin0|(name & a' & Hr & E)].
      * rewrite (Hempty BSym) in Hin0. destruct Hin0.
      * inversion E. apply (Hk name); [apply in_or_app; left; exact Hr|congruence].
    + inversion E. apply (Hk name); [apply in_or_app; right; exact Hr|congruence].
Qed.
End Histories.
