(* Static half of C06, inductive: ghost depths.  While the tree compiler emits
   code, a ghost state records the depth pair in front of every emitted
   instruction, the depth in front of the next one, the entry depth owed to
   every unpatched placeholder and the depth at every join entry.  The
   invariant says that every emitted instruction can execute at its depth and
   that each of its successors has the depth it produces. *)
From Coq Require Import List Arith Bool NArith Lia.
From GV Require Import Base.Result Gen.TokenTypes Gen.Defs Gen.Instr Model.Parser Model.BuilderWL Model.Compile
  Spec.Depth Proofs.C05.InlBase Proofs.C05.Known Proofs.C05.Operands Proofs.C05.Jumps Proofs.C06.Known Proofs.C06.Balanced.
Import ListNotations.

Record gst : Type := mkG {
  gd : list dp;                 (* depth in front of every emitted instruction *)
  gcur : dp;                    (* depth in front of the next instruction *)
  gopen : list (nat * dp);      (* placeholder jump index -> entry depth of its body *)
  gjoin : list (nat * dp)       (* join jump index -> depth at its target *)
}.

Section Static.
Variable init : binit.
Variable lit_ok : nat -> bool.
Notation ilo := (i_instr_len init).
Notation jlo := (i_jump_len init).
Notation IL := (il init).
Notation JL := (jl init).

(* depth at absolute position [a]: an emitted instruction's, or the next one's *)
Definition dat (g : gst) (a : nat) : option dp :=
  if Nat.ltb a ilo then None
  else if Nat.ltb (a - ilo) (length (gd g)) then nth_error (gd g) (a - ilo)
  else if Nat.eqb (a - ilo) (length (gd g)) then Some (gcur g) else None.

(* the target of jump entry [j] has depth [y]: a placeholder is owed the depth
   it was registered with until it is patched, any other entry has it *)
Definition opened (g : gst) (j : nat) : Prop := exists y, In (j, y) (gopen g).

Definition tgt (g : gst) (s : cst) (j : nat) (y : dp) : Prop :=
  jlo <= j /\ exists T, nth_error (cj s) (j - jlo) = Some T /\
    ((In (j, y) (gopen g) /\ (T = 0 \/ dat g T = Some y)) \/ (~ opened g j /\ dat g T = Some y)).

Definition step_ok (g : gst) (s : cst) (pc : nat) (io : instr) (x : dp) : Prop :=
  let '(r, v) := x in
  match fst io with
  | I_JumpTo => exists j, snd io = ONum j /\ tgt g s j (r, v)
  | I_JumpIfTrue | I_JumpIfFalse =>
    exists j, snd io = ONum j /\ 1 <= r /\ dat g (S pc) = Some (r - 1, v) /\ tgt g s j (r - 1, v)
  | I_And | I_Or =>
    exists j, snd io = ONum j /\ 1 <= r /\ dat g (S pc) = Some (r, v) /\ tgt g s j (r - 1, v)
  | I_EndExpression => (r, v) = (1, 0)
  | I_Reapply => False
  | _ => exists e, effect io = Some e /\ e_pop e <= r /\ e_vdown e <= v /\
                   dat g (S pc) = Some (r - e_pop e + e_push e, v - e_vdown e + e_vup e) /\
                   (forall j, io = (I_Put, OExpr j) -> tgt g s j (0, 0))
  end.

Definition ginv0 (g : gst) (s : cst) : Prop :=
  length (gd g) = length (ci s) /\
  cj s <> [] /\
  (forall k T, nth_error (cj s) k = Some T -> T <= IL s /\ (k = 0 -> T = ilo) /\ (0 < k -> T = 0 \/ ilo < T)) /\
  (forall k io x, nth_error (ci s) k = Some io -> nth_error (gd g) k = Some x -> step_ok g s (ilo + k) io x) /\
  (forall j y, In (j, y) (gjoin g) -> tgt g s j y) /\
  tgt g s jlo (0, 0).

(* growing the ghost state *)
Definition gext (g g' : gst) : Prop :=
  (exists a, gd g' = gd g ++ a) /\ incl (gopen g) (gopen g') /\ incl (gjoin g) (gjoin g').

Lemma gext_refl : forall g, gext g g.
Proof. intros g. split; [exists []; rewrite app_nil_r; reflexivity | split; apply incl_refl]. Qed.
Lemma gext_trans : forall a b c, gext a b -> gext b c -> gext a c.
Proof.
  intros a b c [[x Hx] [Ho Hj]] [[y Hy] [Ho' Hj']]. split; [exists (x ++ y); rewrite Hy, Hx, app_assoc; reflexivity|].
  split; eapply incl_tran; eauto.
Qed.

(* emitting one instruction: its depth is the current one, the next depth is [out] *)
Definition gemit (g : gst) (out : dp) : gst := mkG (gd g ++ [gcur g]) out (gopen g) (gjoin g).
Definition gopen_add (g : gst) (j : nat) (y : dp) : gst := mkG (gd g) (gcur g) ((j, y) :: gopen g) (gjoin g).
Definition gjoin_add (g : gst) (j : nat) (y : dp) : gst := mkG (gd g) (gcur g) (gopen g) ((j, y) :: gjoin g).

Lemma dat_gemit_old : forall g out a, a - ilo <= length (gd g) -> dat (gemit g out) a = dat g a.
Proof.
  intros g out a Ha. unfold dat, gemit. cbn [gd gcur]. rewrite app_length. cbn [length].
  destruct (Nat.ltb a ilo); [reflexivity|].
  destruct (Nat.ltb (a - ilo) (length (gd g))) eqn:E1.
  - apply Nat.ltb_lt in E1. destruct (Nat.ltb (a - ilo) (length (gd g) + 1)) eqn:E2; [|apply Nat.ltb_ge in E2; lia].
    rewrite nth_error_app1 by lia. reflexivity.
  - apply Nat.ltb_ge in E1. assert (a - ilo = length (gd g)) by lia.
    destruct (Nat.ltb (a - ilo) (length (gd g) + 1)) eqn:E2; [|apply Nat.ltb_ge in E2; lia].
    rewrite nth_error_app2 by lia. rewrite H, Nat.sub_diag, Nat.eqb_refl. reflexivity.
Qed.

Lemma dat_gemit_next : forall g out, dat (gemit g out) (ilo + S (length (gd g))) = Some out.
Proof.
  intros g out. unfold dat, gemit. cbn [gd gcur]. rewrite app_length. cbn [length].
  destruct (Nat.ltb (ilo + S (length (gd g))) ilo) eqn:E; [apply Nat.ltb_lt in E; lia|].
  replace (ilo + S (length (gd g)) - ilo) with (length (gd g) + 1) by lia.
  rewrite Nat.ltb_irrefl, Nat.eqb_refl. reflexivity.
Qed.

Lemma dat_open_add : forall g j y a, dat (gopen_add g j y) a = dat g a.
Proof. intros. reflexivity. Qed.
Lemma dat_join_add : forall g j y a, dat (gjoin_add g j y) a = dat g a.
Proof. intros. reflexivity. Qed.


(* ---- monotonicity: old facts survive a step that keeps old depths, old jump
   entries and old obligations ---- *)
Section Mono.
Variables (g g' : gst) (s s' : cst).
Hypothesis Hlen : length (gd g) = length (ci s).
Hypothesis Hdat : forall a, a - ilo <= length (gd g) -> dat g' a = dat g a.
Hypothesis Hcj : forall k T, nth_error (cj s) k = Some T -> nth_error (cj s') k = Some T.
Hypothesis Hopen : incl (gopen g) (gopen g').
Hypothesis Hbound : forall k T, nth_error (cj s) k = Some T -> T <= IL s.
Hypothesis Hfresh : forall j, opened g' j -> opened g j \/ JL s <= j.

Lemma tgt_mono : forall j y, tgt g s j y -> tgt g' s' j y.
Proof.
  intros j y [Hj [T [HT H]]]. split; [exact Hj|]. exists T. split; [apply Hcj; exact HT|].
  assert (Hd : dat g T = Some y -> dat g' T = Some y).
  { intros B. rewrite Hdat; [exact B|]. pose proof (Hbound _ _ HT) as Hb. unfold il in Hb. lia. }
  destruct H as [[A B]|[A B]].
  - left. split; [apply Hopen; exact A|]. destruct B as [B|B]; [left; exact B | right; apply Hd; exact B].
  - right. split; [|apply Hd; exact B]. intros Ho. destruct (Hfresh j Ho) as [Ho'|Hge]; [exact (A Ho')|].
    assert (j - jlo < length (cj s)) by (apply nth_error_Some; rewrite HT; discriminate). unfold jl in Hge. lia.
Qed.

Lemma step_ok_mono : forall pc io x, pc < IL s -> step_ok g s pc io x -> step_ok g' s' pc io x.
Proof.
  intros pc io [r v] Hpc H. unfold step_ok in *.
  assert (Hn : dat g' (S pc) = dat g (S pc)) by (apply Hdat; unfold il in Hpc; lia).
  destruct (fst io);
    first [ exact H
          | (destruct H as [e [He [Hp [Hv [Hd Hx]]]]]; exists e; rewrite Hn;
             split; [exact He | split; [exact Hp | split; [exact Hv | split; [exact Hd |]]]];
             intros j Hj; apply tgt_mono; apply Hx; exact Hj)
          | (destruct H as [j [Ho Ht]]; exists j; split; [exact Ho | apply tgt_mono; exact Ht])
          | (destruct H as [j [Ho [Hr [Hd Ht]]]]; exists j; rewrite Hn;
             split; [exact Ho | split; [exact Hr | split; [exact Hd | apply tgt_mono; exact Ht]]]) ].
Qed.
End Mono.

Lemma ginv0_bound : forall g s, ginv0 g s -> forall k T, nth_error (cj s) k = Some T -> T <= IL s.
Proof. intros g s [_ [_ [He _]]] k T H. apply (He k T H). Qed.

(* emitting an instruction whose own step is fine in the new state *)
Lemma ginv0_emit : forall g s io m out,
  ginv0 g s -> step_ok (gemit g out) (emit s io m) (IL s) io (gcur g) ->
  ginv0 (gemit g out) (emit s io m).
Proof.
  intros g s io m out Hg Hstep. pose proof Hg as [Hlen [Hne [He [Hs [Hj H0]]]]].
  assert (Hdat : forall a, a - ilo <= length (gd g) -> dat (gemit g out) a = dat g a) by (intros; apply dat_gemit_old; assumption).
  assert (Hcj : forall k T, nth_error (cj s) k = Some T -> nth_error (cj (emit s io m)) k = Some T) by (intros; assumption).
  assert (Hopen : incl (gopen g) (gopen (gemit g out))) by apply incl_refl.
  assert (Hfresh : forall j, opened (gemit g out) j -> opened g j \/ JL s <= j) by (intros j H; left; exact H).
  assert (Hb : forall k T, nth_error (cj s) k = Some T -> T <= IL s) by (intros k T H; apply (He k T H)).
  refine (conj _ (conj _ (conj _ (conj _ (conj _ _))))).
  - cbn [gemit gd emit ci]. rewrite !app_length. cbn. lia.
  - exact Hne.
  - intros k T H. cbn [emit cj] in H. destruct (He k T H) as [A [B C]]. rewrite il_emit. split; [lia | split; assumption].
  - intros k io' x Hk Hd. cbn [emit ci] in Hk. cbn [gemit gd] in Hd.
    apply nth_error_snoc in Hk. destruct Hk as [[Hlt Hk]|[Hk Hio]].
    + rewrite nth_error_app1 in Hd by lia.
      eapply step_ok_mono; eauto. unfold il. lia.
    + subst. rewrite nth_error_app2 in Hd by lia. rewrite <- Hlen, Nat.sub_diag in Hd. cbn in Hd. inversion Hd; subst.
      unfold il in Hstep. exact Hstep.
  - intros j y Hin. eapply tgt_mono; eauto.
  - eapply tgt_mono; eauto.
Qed.

Lemma ginv0_new_hole : forall g s, ginv0 g s -> ginv0 g (new_jump s 0).
Proof.
  intros g s Hg. pose proof Hg as [Hlen [Hne [He [Hs [Hj H0]]]]].
  assert (Hfresh : forall j, opened g j -> opened g j \/ JL s <= j) by (intros j H; left; exact H).
  assert (Hdat : forall a, a - ilo <= length (gd g) -> dat g a = dat g a) by reflexivity.
  assert (Hcj : forall k T, nth_error (cj s) k = Some T -> nth_error (cj (new_jump s 0)) k = Some T).
  { intros k T H. cbn [new_jump cj]. rewrite nth_error_app1; [exact H|]. apply nth_error_Some. rewrite H. discriminate. }
  assert (Hb : forall k T, nth_error (cj s) k = Some T -> T <= IL s) by (intros k T H; apply (He k T H)).
  refine (conj _ (conj _ (conj _ (conj _ (conj _ _))))).
  - exact Hlen.
  - cbn. destruct (cj s); discriminate.
  - intros k T H. cbn [new_jump cj] in H. apply nth_error_snoc in H. destruct H as [[_ H]|[H1 H]].
    + apply (He k T H).
    + subst. repeat split; [lia | | intros _; left; reflexivity].
      intros Hk. destruct (cj s); [congruence | discriminate].
  - intros k io x Hk Hd. cbn [new_jump ci] in Hk.
    eapply (step_ok_mono g g s (new_jump s 0)); eauto using incl_refl.
    unfold il. assert (k < length (ci s)) by (apply nth_error_Some; rewrite Hk; discriminate). lia.
  - intros j y Hin. eapply (tgt_mono g g s (new_jump s 0)); eauto using incl_refl.
  - eapply (tgt_mono g g s (new_jump s 0)); eauto using incl_refl.
Qed.

Lemma ginv0_open_add : forall g s j y, ginv0 g s -> JL s <= j -> ginv0 (gopen_add g j y) s.
Proof.
  intros g s j y Hg Hjl. pose proof Hg as [Hlen [Hne [He [Hs [Hj H0]]]]].
  assert (Hfresh : forall j', opened (gopen_add g j y) j' -> opened g j' \/ JL s <= j').
  { intros j' [y' [H|H]]; [inversion H; subst; right; exact Hjl | left; exists y'; exact H]. }
  assert (Hb : forall k T, nth_error (cj s) k = Some T -> T <= IL s) by (intros k T H; apply (He k T H)).
  assert (Hopen : incl (gopen g) (gopen (gopen_add g j y))) by (cbn; apply incl_tl, incl_refl).
  refine (conj _ (conj _ (conj _ (conj _ (conj _ _))))); auto.
  - intros k io x Hk Hd. eapply (step_ok_mono g (gopen_add g j y) s s); eauto.
    unfold il. assert (k < length (ci s)) by (apply nth_error_Some; rewrite Hk; discriminate). lia.
  - intros j' y' Hin. eapply (tgt_mono g (gopen_add g j y) s s); eauto.
  - eapply (tgt_mono g (gopen_add g j y) s s); eauto.
Qed.

Lemma ginv0_new_join : forall g s, ginv0 g s -> ilo < IL s -> (forall j, opened g j -> j < JL s) ->
  ginv0 (gjoin_add g (JL s) (gcur g)) (new_jump s (IL s)).
Proof.
  intros g s Hg Hil Hob. pose proof Hg as [Hlen [Hne [He [Hs [Hj H0]]]]].
  set (g' := gjoin_add g (JL s) (gcur g)). set (s' := new_jump s (IL s)).
  assert (Hfresh : forall j, opened g' j -> opened g j \/ JL s <= j) by (intros j H; left; exact H).
  assert (Hcj : forall k T, nth_error (cj s) k = Some T -> nth_error (cj s') k = Some T).
  { intros k T H. unfold s'. cbn [new_jump cj]. rewrite nth_error_app1; [exact H|]. apply nth_error_Some. rewrite H. discriminate. }
  assert (Hb : forall k T, nth_error (cj s) k = Some T -> T <= IL s) by (intros k T H; apply (He k T H)).
  assert (Hdat : forall a, a - ilo <= length (gd g) -> dat g' a = dat g a) by reflexivity.
  assert (Hopen : incl (gopen g) (gopen g')) by apply incl_refl.
  assert (Hnew : tgt g' s' (JL s) (gcur g)).
  { split; [unfold jl; lia|]. exists (IL s). split.
    - unfold s'. cbn [new_jump cj]. replace (JL s - jlo) with (length (cj s)) by (unfold jl; lia).
      rewrite nth_error_app2 by lia. rewrite Nat.sub_diag. reflexivity.
    - right. split; [intros Ho; apply Hob in Ho; lia|]. unfold dat, g'. cbn [gjoin_add gd gcur].
      destruct (Nat.ltb (IL s) ilo) eqn:E; [apply Nat.ltb_lt in E; lia|].
      replace (IL s - ilo) with (length (gd g)) by (unfold il; lia).
      rewrite Nat.ltb_irrefl, Nat.eqb_refl. reflexivity. }
  refine (conj _ (conj _ (conj _ (conj _ (conj _ _))))).
  - exact Hlen.
  - unfold s'. cbn. destruct (cj s); discriminate.
  - intros k T H. unfold s' in H. cbn [new_jump cj] in H. apply nth_error_snoc in H.
    assert (HIL' : IL s' = IL s) by reflexivity. rewrite HIL'.
    destruct H as [[_ H]|[H1 H]].
    + apply (He k T H).
    + subst. repeat split; [lia | | intros _; right; exact Hil].
      intros Hk. destruct (cj s); [congruence | discriminate].
  - intros k io x Hk Hd. unfold s' in Hk. cbn [new_jump ci] in Hk.
    eapply (step_ok_mono g g' s s'); eauto.
    unfold il. assert (k < length (ci s)) by (apply nth_error_Some; rewrite Hk; discriminate). lia.
  - intros j y Hin. unfold g' in Hin. cbn [gjoin_add gjoin] in Hin. destruct Hin as [Hin|Hin].
    + inversion Hin; subst. exact Hnew.
    + eapply (tgt_mono g g' s s'); eauto.
  - eapply (tgt_mono g g' s s'); eauto.
Qed.


(* ---- the emission patterns of the compiler ---- *)
Lemma ginv0_IL : forall g s, ginv0 g s -> IL s = ilo + length (gd g).
Proof. intros g s [Hlen _]. unfold il. lia. Qed.

Lemma tgt_after_emit : forall g s io m out j y, ginv0 g s -> tgt g s j y -> tgt (gemit g out) (emit s io m) j y.
Proof.
  intros g s io m out j y Hg Ht. pose proof Hg as [Hlen [_ [He _]]].
  assert (Hfresh : forall j, opened (gemit g out) j -> opened g j \/ JL s <= j) by (intros j0 H; left; exact H).
  eapply (tgt_mono g (gemit g out) s (emit s io m)); eauto using incl_refl.
  - intros a Ha. apply dat_gemit_old. exact Ha.
  - intros k T H. apply (He k T H).
Qed.

Lemma ginv0_emit_eff : forall g s io m e r v,
  ginv0 g s -> gcur g = (r, v) -> effect io = Some e -> e_pop e <= r -> e_vdown e <= v ->
  (forall j, io = (I_Put, OExpr j) -> tgt g s j (0, 0)) ->
  ginv0 (gemit g (r - e_pop e + e_push e, v - e_vdown e + e_vup e)) (emit s io m).
Proof.
  intros g s io m e r v Hg Hc He Hp Hv Hx. apply ginv0_emit; [exact Hg|].
  rewrite Hc. unfold step_ok.
  assert (Hnext : dat (gemit g (r - e_pop e + e_push e, v - e_vdown e + e_vup e)) (S (IL s)) =
                  Some (r - e_pop e + e_push e, v - e_vdown e + e_vup e)).
  { rewrite (ginv0_IL g s Hg). replace (S (ilo + length (gd g))) with (ilo + S (length (gd g))) by lia. apply dat_gemit_next. }
  assert (Hdef : exists e0, effect io = Some e0 /\ e_pop e0 <= r /\ e_vdown e0 <= v /\
            dat (gemit g (r - e_pop e + e_push e, v - e_vdown e + e_vup e)) (S (IL s)) =
              Some (r - e_pop e0 + e_push e0, v - e_vdown e0 + e_vup e0) /\
            (forall j, io = (I_Put, OExpr j) ->
               tgt (gemit g (r - e_pop e + e_push e, v - e_vdown e + e_vup e)) (emit s io m) j (0, 0))).
  { exists e. split; [exact He|]. split; [exact Hp|]. split; [exact Hv|]. split; [exact Hnext|].
    intros j Hj. apply tgt_after_emit; [exact Hg | apply Hx; exact Hj]. }
  destruct io as [i o]. cbn [fst] in *. destruct i; try exact Hdef; cbn in He; discriminate.
Qed.

Lemma tgt_hole : forall g s j y,
  jlo < j -> nth_error (cj s) (j - jlo) = Some 0 -> In (j, y) (gopen g) -> tgt g s j y.
Proof. intros g s j y Hj Hn Hin. split; [lia|]. exists 0. split; [exact Hn|]. left. split; [exact Hin | left; reflexivity]. Qed.

Lemma hole_entry : forall s, nth_error (cj (new_jump s 0)) (JL s - jlo) = Some 0.
Proof.
  intros s. cbn [new_jump cj]. replace (JL s - jlo) with (length (cj s)) by (unfold jl; lia).
  rewrite nth_error_app2 by lia. rewrite Nat.sub_diag. reflexivity.
Qed.

Lemma ginv0_jl_pos : forall g s, ginv0 g s -> jlo < JL s.
Proof. intros g s [_ [Hne _]]. unfold jl. destruct (cj s); [congruence | cbn; lia]. Qed.

(* a conditional jump through a fresh placeholder *)
Lemma ginv0_emit_jumpif : forall g s i m r v,
  ginv0 g s -> gcur g = (r, v) -> 1 <= r -> (i = I_JumpIfTrue \/ i = I_JumpIfFalse) ->
  ginv0 (gemit (gopen_add g (JL s) (r - 1, v)) (r - 1, v)) (emit (new_jump s 0) (i, ONum (JL s)) m).
Proof.
  intros g s i m r v Hg Hc Hr Hi.
  pose proof (ginv0_new_hole _ _ (ginv0_open_add _ _ (JL s) (r - 1, v) Hg (le_n _))) as Hg1.
  apply ginv0_emit; [exact Hg1|]. cbn [gopen_add gcur]. rewrite Hc.
  set (g1 := gopen_add g (JL s) (r - 1, v)) in *.
  assert (Hnext : dat (gemit g1 (r - 1, v)) (S (IL (new_jump s 0))) = Some (r - 1, v)).
  { rewrite (ginv0_IL g1 _ Hg1). replace (S (ilo + length (gd g1))) with (ilo + S (length (gd g1))) by lia. apply dat_gemit_next. }
  assert (Ht : tgt (gemit g1 (r - 1, v)) (emit (new_jump s 0) (i, ONum (JL s)) m) (JL s) (r - 1, v)).
  { apply tgt_after_emit; [exact Hg1|]. apply tgt_hole; [apply (ginv0_jl_pos g s Hg) | apply hole_entry | left; reflexivity]. }
  unfold step_ok. cbn [fst snd]. destruct Hi; subst i; exists (JL s);
    (split; [reflexivity | split; [exact Hr | split; [exact Hnext | exact Ht]]]).
Qed.

(* && / || through a fresh placeholder: falls through with the boolean, jumps without *)
Lemma ginv0_emit_logical : forall g s i m r v,
  ginv0 g s -> gcur g = (r, v) -> 1 <= r -> (i = I_And \/ i = I_Or) ->
  ginv0 (gemit (gopen_add g (JL s) (r - 1, v)) (r, v)) (emit (new_jump s 0) (i, ONum (JL s)) m).
Proof.
  intros g s i m r v Hg Hc Hr Hi.
  pose proof (ginv0_new_hole _ _ (ginv0_open_add _ _ (JL s) (r - 1, v) Hg (le_n _))) as Hg1.
  apply ginv0_emit; [exact Hg1|]. cbn [gopen_add gcur]. rewrite Hc.
  set (g1 := gopen_add g (JL s) (r - 1, v)) in *.
  assert (Hnext : dat (gemit g1 (r, v)) (S (IL (new_jump s 0))) = Some (r, v)).
  { rewrite (ginv0_IL g1 _ Hg1). replace (S (ilo + length (gd g1))) with (ilo + S (length (gd g1))) by lia. apply dat_gemit_next. }
  assert (Ht : tgt (gemit g1 (r, v)) (emit (new_jump s 0) (i, ONum (JL s)) m) (JL s) (r - 1, v)).
  { apply tgt_after_emit; [exact Hg1|]. apply tgt_hole; [apply (ginv0_jl_pos g s Hg) | apply hole_entry | left; reflexivity]. }
  unfold step_ok. cbn [fst snd]. destruct Hi; subst i; exists (JL s);
    (split; [reflexivity | split; [exact Hr | split; [exact Hnext | exact Ht]]]).
Qed.

(* an expression value through a fresh placeholder: its body will start at (0, 0) *)
Lemma ginv0_emit_nested : forall g s m r v,
  ginv0 g s -> gcur g = (r, v) ->
  ginv0 (gemit (gopen_add g (JL s) (0, 0)) (r + 1, v)) (emit (new_jump s 0) (I_Put, OExpr (JL s)) m).
Proof.
  intros g s m r v Hg Hc.
  pose proof (ginv0_new_hole _ _ (ginv0_open_add _ _ (JL s) (0, 0) Hg (le_n _))) as Hg1.
  replace (r + 1, v) with (r - e_pop (mkEff 0 1 0 0) + e_push (mkEff 0 1 0 0), v - e_vdown (mkEff 0 1 0 0) + e_vup (mkEff 0 1 0 0))
    by (cbn; f_equal; lia).
  apply ginv0_emit_eff; auto; cbn; try lia.
  intros j Hj. inversion Hj; subst.
  apply tgt_hole; [apply (ginv0_jl_pos g s Hg) | apply hole_entry | left; reflexivity].
Qed.

Lemma ginv0_emit_jumpto : forall g s j m out,
  ginv0 g s -> tgt g s j (gcur g) -> ginv0 (gemit g out) (emit s (I_JumpTo, ONum j) m).
Proof.
  intros g s j m out Hg Ht. apply ginv0_emit; [exact Hg|].
  destruct (gcur g) as [r v] eqn:Hc. unfold step_ok. cbn [fst snd]. exists j. split; [reflexivity|].
  apply tgt_after_emit; assumption.
Qed.

Lemma ginv0_emit_end : forall g s m out,
  ginv0 g s -> gcur g = (1, 0) -> ginv0 (gemit g out) (emit s (I_EndExpression, ONone) m).
Proof. intros g s m out Hg Hc. apply ginv0_emit; [exact Hg|]. rewrite Hc. reflexivity. Qed.

(* the entry of the containing expression has depth (0, 0) *)
Lemma cont_tgt0 : forall g s c, ginv0 g s -> cont_ok init s c -> tgt g s c (0, 0).
Proof.
  intros g s c Hg [Hc|[k Hk]]; [subst; destruct Hg as [_ [_ [_ [_ [_ H0]]]]]; exact H0|].
  destruct Hg as [Hlen [_ [_ [Hs _]]]].
  assert (Hk' : k < length (gd g)) by (rewrite Hlen; apply nth_error_Some; rewrite Hk; discriminate).
  destruct (nth_error (gd g) k) as [x|] eqn:Hd; [|apply nth_error_None in Hd; lia].
  specialize (Hs k _ x Hk Hd). destruct x as [r v]. unfold step_ok in Hs. cbn [fst] in Hs.
  destruct Hs as [e [_ [_ [_ [_ Hx]]]]]. apply Hx. reflexivity.
Qed.



(* ---- the full invariant: placeholders are registered once, below the table's end ---- *)
Definition open_ok (g : gst) (s : cst) : Prop :=
  (forall j y, In (j, y) (gopen g) -> jlo < j < JL s) /\
  (forall j y y', In (j, y) (gopen g) -> In (j, y') (gopen g) -> y = y').

Definition ginv (g : gst) (s : cst) : Prop := ginv0 g s /\ open_ok g s.

Lemma open_ok_emit : forall g s out io m, open_ok g s -> open_ok (gemit g out) (emit s io m).
Proof. intros g s out io m H. exact H. Qed.

Lemma open_ok_hole : forall g s y, open_ok g s -> jlo < JL s -> open_ok (gopen_add g (JL s) y) (new_jump s 0).
Proof.
  intros g s y [Hb Hf] Hpos. split.
  - intros j y0 [H|H]; rewrite jl_new_jump; [inversion H; subst; lia | specialize (Hb _ _ H); lia].
  - intros j y1 y2 [H1|H1] [H2|H2].
    + congruence.
    + inversion H1; subst. specialize (Hb _ _ H2). lia.
    + inversion H2; subst. specialize (Hb _ _ H1). lia.
    + eapply Hf; eauto.
Qed.

Lemma open_ok_join : forall g s j y x, open_ok g s -> open_ok (gjoin_add g j y) (new_jump s x).
Proof. intros g s j y x [Hb Hf]. split; [|exact Hf]. intros j0 y0 H. rewrite jl_new_jump. specialize (Hb _ _ H). lia. Qed.

Lemma ginv_IL : forall g s, ginv g s -> IL s = ilo + length (gd g).
Proof. intros g s [H _]. apply ginv0_IL; exact H. Qed.
Lemma ginv_jl_pos : forall g s, ginv g s -> jlo < JL s.
Proof. intros g s [H _]. eapply ginv0_jl_pos; exact H. Qed.
Lemma cont_tgt : forall g s c, ginv g s -> cont_ok init s c -> tgt g s c (0, 0).
Proof. intros g s c [H _]. apply cont_tgt0; exact H. Qed.

(* an ordinary instruction *)
Lemma step_eff : forall g s io m e r v r' v',
  ginv g s -> gcur g = (r, v) -> effect io = Some e -> e_pop e <= r -> e_vdown e <= v ->
  r' = r - e_pop e + e_push e -> v' = v - e_vdown e + e_vup e ->
  (forall j, io = (I_Put, OExpr j) -> tgt g s j (0, 0)) ->
  ginv (gemit g (r', v')) (emit s io m).
Proof.
  intros g s io m e r v r' v' [Hg Ho] Hc He Hp Hv Hr' Hv' Hx. subst r' v'.
  split; [eapply ginv0_emit_eff; eauto | apply open_ok_emit; exact Ho].
Qed.

Lemma step_jumpif : forall g s i m r v,
  ginv g s -> gcur g = (r, v) -> 1 <= r -> (i = I_JumpIfTrue \/ i = I_JumpIfFalse) ->
  ginv (gemit (gopen_add g (JL s) (r - 1, v)) (r - 1, v)) (emit (new_jump s 0) (i, ONum (JL s)) m).
Proof.
  intros g s i m r v [Hg Ho] Hc Hr Hi.
  split; [apply ginv0_emit_jumpif; auto | apply open_ok_emit, open_ok_hole; [exact Ho | eapply ginv0_jl_pos; exact Hg]].
Qed.

Lemma step_logical : forall g s i m r v,
  ginv g s -> gcur g = (r, v) -> 1 <= r -> (i = I_And \/ i = I_Or) ->
  ginv (gemit (gopen_add g (JL s) (r - 1, v)) (r, v)) (emit (new_jump s 0) (i, ONum (JL s)) m).
Proof.
  intros g s i m r v [Hg Ho] Hc Hr Hi.
  split; [apply ginv0_emit_logical; auto | apply open_ok_emit, open_ok_hole; [exact Ho | eapply ginv0_jl_pos; exact Hg]].
Qed.

Lemma step_nested : forall g s m r v,
  ginv g s -> gcur g = (r, v) ->
  ginv (gemit (gopen_add g (JL s) (0, 0)) (r + 1, v)) (emit (new_jump s 0) (I_Put, OExpr (JL s)) m).
Proof.
  intros g s m r v [Hg Ho] Hc.
  split; [apply ginv0_emit_nested; auto | apply open_ok_emit, open_ok_hole; [exact Ho | eapply ginv0_jl_pos; exact Hg]].
Qed.

Lemma step_jumpto : forall g s j m out,
  ginv g s -> tgt g s j (gcur g) -> ginv (gemit g out) (emit s (I_JumpTo, ONum j) m).
Proof. intros g s j m out [Hg Ho] Ht. split; [apply ginv0_emit_jumpto; auto | apply open_ok_emit; exact Ho]. Qed.

Lemma step_end : forall g s m out,
  ginv g s -> gcur g = (1, 0) -> ginv (gemit g out) (emit s (I_EndExpression, ONone) m).
Proof. intros g s m out [Hg Ho] Hc. split; [apply ginv0_emit_end; auto | apply open_ok_emit; exact Ho]. Qed.

Lemma step_join : forall g s, ginv g s -> ilo < IL s ->
  ginv (gjoin_add g (JL s) (gcur g)) (new_jump s (IL s)).
Proof.
  intros g s [Hg Ho] Hil. split; [apply ginv0_new_join; auto | apply open_ok_join; exact Ho].
  intros j [y Hy]. apply (proj1 Ho) in Hy. lia.
Qed.

(* ---- ghost facts about registered bodies and arms ---- *)
Definition end_g (g : gst) (e : dp) (ends : list instr) : Prop :=
  (ends = default_end /\ e = (0, 0)) \/
  (exists j, ends = [(I_JumpTo, ONum j)] /\ In (j, (fst e + 1, snd e)) (gjoin g)) \/
  (exists j, ends = [(I_Tis, ONone); (I_JumpTo, ONum j)] /\ In (j, (fst e + 1, snd e)) (gjoin g)).

Definition pend_g (g : gst) (p : pend) : Prop :=
  exists e tl, In (p_jump p, e) (gopen g) /\ bal None false tl (p_tree p) = Some 1 /\
               (tl = true -> e = (0, 0)) /\ end_g g e (p_end p).

Definition item_g (g : gst) (base : dp) (tl : bool) (it : tree * nat) : Prop :=
  In (snd it, base) (gopen g) /\ bal None false tl (fst it) = Some 1.

Lemma end_g_ext : forall g g' e ends, gext g g' -> end_g g e ends -> end_g g' e ends.
Proof.
  intros g g' e ends [_ [_ Hj]] [H|[[j [H1 H2]]|[j [H1 H2]]]]; [left; exact H | right; left | right; right];
    exists j; split; auto.
Qed.
Lemma pend_g_ext : forall g g' p, gext g g' -> pend_g g p -> pend_g g' p.
Proof.
  intros g g' p Hx [e [tl [Ho [Hb [Ht He]]]]]. exists e, tl. destruct Hx as [Hd [Hop Hj]].
  repeat split; auto. eapply end_g_ext; [|exact He]. split; [exact Hd | split; assumption].
Qed.
Lemma item_g_ext : forall g g' base tl it, gext g g' -> item_g g base tl it -> item_g g' base tl it.
Proof. intros g g' base tl it [_ [Hop _]] [Ho Hb]. split; auto. Qed.

Lemma gext_gemit : forall g out, gext g (gemit g out).
Proof. intros. split; [exists [gcur g]; reflexivity | split; apply incl_refl]. Qed.
Lemma gext_open_add : forall g j y, gext g (gopen_add g j y).
Proof. intros. split; [exists []; cbn; rewrite app_nil_r; reflexivity | split; [apply incl_tl, incl_refl | apply incl_refl]]. Qed.
Lemma gext_join_add : forall g j y, gext g (gjoin_add g j y).
Proof. intros. split; [exists []; cbn; rewrite app_nil_r; reflexivity | split; [apply incl_refl | apply incl_tl, incl_refl]]. Qed.

Lemma is_some_n_eq : forall o n, is_some_n o n = true -> o = Some n.
Proof. intros [m|] n H; cbn in H; [apply Nat.eqb_eq in H; subst; reflexivity | discriminate]. Qed.

(* a subtree that registers nothing is compiled the same with or without a conditional parent *)
Lemma bal_cond_irrelevant : forall t lst tl n,
  registers t = false -> bal lst false tl t = Some n -> bal lst true tl t = Some n.
Proof.
  intros [ix d l r] lst tl n Hr Hb. cbn [bal registers] in *.
  destruct (kind_of d) eqn:Hk; try exact Hb; try discriminate Hr.
  destruct l as [a|]; [|exact Hb]. destruct r as [b|]; [|exact Hb].
  destruct (is_some_n (bal None true tl a) 0); [|exact Hb].
  destruct (bal None true tl b) as [m|]; [|exact Hb].
  destruct (Nat.eqb m 1) eqn:E; [|discriminate]. apply Nat.eqb_eq in E. subst. exact Hb.
Qed.

End Static.
