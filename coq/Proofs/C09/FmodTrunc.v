(* C09: the quotient of the fmod specification is trunc(x / y): the float remainder is
   x - trunc(x / y) * y, computed exactly. *)
From Coq Require Import ZArith Bool Lia Reals Psatz.
From Flocq Require Import Core IEEE754.Binary IEEE754.Bits.
From GV Require Import Model.Num Proofs.C09.FloatOps Proofs.C09.Fmod.

Lemma fmod_spec_trunc x y r : y <> 0%R -> fmod_spec x y r ->
  r = (x - IZR (Ztrunc (x / y)) * y)%R.
Proof.
  intros Hy ([q E] & A & S).
  assert (Hq : Ztrunc (x / y) = q); [|rewrite Hq; exact E].
  set (t := (x / y)%R). set (f := (r / y)%R).
  assert (Et : t = (IZR q + f)%R) by (unfold t, f; rewrite E; field; exact Hy).
  assert (Af : (Rabs f < 1)%R).
  { unfold f, Rdiv. rewrite Rabs_mult, Rabs_inv.
    assert (0 < Rabs y)%R by (apply Rabs_pos_lt; exact Hy).
    apply Rmult_lt_reg_r with (Rabs y); [assumption|]. rewrite Rmult_assoc, Rinv_l by lra. lra. }
  assert (Sf : (0 <= f * t)%R).
  { unfold f, t. replace (r / y * (x / y))%R with ((r * x) * (/ y * / y))%R by (field; exact Hy).
    apply Rmult_le_pos; [exact S|]. replace (/ y * / y)%R with ((/ y) ^ 2)%R by ring. apply pow2_ge_0. }
  apply Rabs_def2 in Af. destruct Af as [Af1 Af2].
  destruct (Rtotal_order t 0) as [Ht|[Ht|Ht]].
  - (* t < 0: f <= 0, trunc = ceil *)
    assert (f <= 0)%R by nra.
    rewrite Ztrunc_ceil by lra. apply Zceil_imp. rewrite minus_IZR. lra.
  - (* t = 0 *)
    rewrite Ht, Ztrunc_IZR with (n := 0%Z). 
    assert (IZR q = - f)%R by lra.
    destruct (Z.eq_dec q 0) as [->|N]; [reflexivity|exfalso].
    assert (1 <= Rabs (IZR q))%R by (rewrite <- abs_IZR; apply IZR_le; lia).
    rewrite H, Rabs_Ropp in H0. unfold Rabs in H0. destruct (Rcase_abs f); lra.
  - (* t > 0 *)
    assert (0 <= f)%R by nra.
    rewrite Ztrunc_floor by lra. apply Zfloor_imp. rewrite plus_IZR. lra.
Qed.

Theorem float_rem_is_trunc powf l r :
  num_ok l -> num_ok r -> has_float l r -> num_real r <> 0%R ->
  exists f, num_binop powf OpRem l r = Some (Flt f) /\ is_finite 53 1024 f = true /\
            B2R 53 1024 f = (num_real l - IZR (Ztrunc (num_real l / num_real r)) * num_real r)%R.
Proof.
  intros Hl Hr Hf Hz.
  destruct (float_rem_exact powf l r Hl Hr Hf Hz) as (f & E & F & S).
  exists f. split; [exact E|]. split; [exact F|]. apply fmod_spec_trunc; assumption.
Qed.
