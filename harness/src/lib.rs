//! Shared helpers for the correspondence harness binaries.
use std::io::{self, BufRead, Write};
use std::panic::{self, AssertUnwindSafe};

/// Silence the default panic hook: panics are caught per case and reported as PANIC.
pub fn quiet_panics() {
    panic::set_hook(Box::new(|_| {}));
}

pub fn catch<T, F: FnOnce() -> T>(f: F) -> Result<T, ()> {
    panic::catch_unwind(AssertUnwindSafe(f)).map_err(|_| ())
}

/// Read case lines from stdin, write `f(line)` per line to stdout.
pub fn for_each_line<F: FnMut(&str) -> String>(mut f: F) {
    let stdin = io::stdin();
    let stdout = io::stdout();
    let mut out = io::BufWriter::new(stdout.lock());
    for line in stdin.lock().lines() {
        let line = line.expect("read");
        if line.is_empty() {
            continue;
        }
        let r = f(&line);
        writeln!(out, "{}", r).expect("write");
    }
    out.flush().expect("flush");
}

pub fn hex_i64(v: i64) -> String {
    if v < 0 { format!("-{:x}", (v as i128).unsigned_abs()) } else { format!("{:x}", v) }
}

pub fn parse_hex_i64(s: &str) -> i64 {
    if let Some(r) = s.strip_prefix('-') {
        -(i128::from_str_radix(r, 16).expect("hex") ) as i64
    } else {
        i64::from_str_radix(s, 16).expect("hex")
    }
}

pub mod gen_tables;

use std::process::{Child, ChildStdin, Command, Stdio};
use std::sync::mpsc::{channel, Receiver};
use std::time::Duration;

struct Worker {
    child: Child,
    stdin: ChildStdin,
    rx: Receiver<String>,
}

fn spawn_worker() -> Worker {
    let exe = std::env::current_exe().expect("exe");
    // cap the address space of the worker: a non-terminating build can allocate without bound
    let mut child = Command::new("sh")
        .arg("-c")
        .arg("ulimit -v 6000000; exec \"$0\"")
        .arg(exe)
        .env("VERIF_WORKER", "1")
        .stdin(Stdio::piped())
        .stdout(Stdio::piped())
        .stderr(Stdio::null())
        .spawn()
        .expect("spawn worker");
    let stdin = child.stdin.take().unwrap();
    let stdout = child.stdout.take().unwrap();
    let (tx, rx) = channel();
    std::thread::spawn(move || {
        let r = io::BufReader::new(stdout);
        for line in r.lines() {
            match line {
                Ok(l) => {
                    if tx.send(l).is_err() {
                        break;
                    }
                }
                Err(_) => break,
            }
        }
    });
    Worker { child, stdin, rx }
}

/// Run `f` on every input line in a supervised child process: a case that does
/// not answer within `deadline_ms` is reported as `<case>\tHANG\t-` (the child is
/// killed and restarted), a child that dies as `<case>\tCRASH\t-`.
pub fn supervised<F: FnMut(&str) -> String>(deadline_ms: u64, mut f: F) {
    // VERIF_DEADLINE_MS overrides the per-case deadline (long stress inputs)
    let deadline_ms = std::env::var("VERIF_DEADLINE_MS").ok().and_then(|s| s.parse::<u64>().ok()).unwrap_or(deadline_ms);
    if std::env::var("VERIF_WORKER").is_ok() {
        quiet_panics();
        let stdin = io::stdin();
        let stdout = io::stdout();
        for line in stdin.lock().lines() {
            let line = line.expect("read");
            let r = f(&line);
            let mut out = stdout.lock();
            writeln!(out, "{}", r).expect("write");
            out.flush().expect("flush");
        }
        return;
    }
    let stdin = io::stdin();
    let stdout = io::stdout();
    let mut out = io::BufWriter::new(stdout.lock());
    let mut w = spawn_worker();
    for line in stdin.lock().lines() {
        let line = line.expect("read");
        if line.is_empty() {
            continue;
        }
        let sent = writeln!(w.stdin, "{}", line).and_then(|_| w.stdin.flush());
        let ans = if sent.is_err() {
            Err("CRASH")
        } else {
            match w.rx.recv_timeout(Duration::from_millis(deadline_ms)) {
                Ok(l) => Ok(l),
                Err(std::sync::mpsc::RecvTimeoutError::Timeout) => Err("HANG"),
                Err(_) => Err("CRASH"),
            }
        };
        match ans {
            Ok(l) => writeln!(out, "{}", l).expect("write"),
            Err(kind) => {
                let _ = w.child.kill();
                let _ = w.child.wait();
                writeln!(out, "{}\t{}\t-", line, kind).expect("write");
                w = spawn_worker();
            }
        }
    }
    out.flush().expect("flush");
    let _ = w.child.kill();
    let _ = w.child.wait();
}

pub fn hex_to_string(h: &str) -> String {
    if h == "-" || h.is_empty() {
        return String::new();
    }
    h.split(',').map(|x| char::from_u32(u32::from_str_radix(x, 16).expect("hex cp")).expect("cp")).collect()
}

pub fn string_to_hex(s: &str) -> String {
    if s.is_empty() {
        return "-".to_string();
    }
    s.chars().map(|c| format!("{:x}", c as u32)).collect::<Vec<_>>().join(",")
}
