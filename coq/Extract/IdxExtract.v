(* Extraction of the C07 index models for the correspondence check.
   ExtrOcamlBasic only; positive/N/Z stay Coq datatypes. No Extract Constant. *)
Require Import ExtrOcamlBasic.
From Coq Require Import ZArith NArith.
From Flocq Require Import IEEE754.Binary IEEE754.Bits.
From GV Require Import Base.Result Model.Num Model.RuntimeIndex.
Cd "../build/ocaml".
Extraction "idx_model.ml" usize_of_num get_item iter_count concat_iter_window index_container access_range
  slice_adjusted_index range_len range_to_list make_range_bounds equality_start make_list_start
  simple_end_list bsearch simple_concat_slice_window b64_of_bits bits_of_b64.
Cd "../../coq".
