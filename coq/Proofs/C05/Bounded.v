(* Bounded theorems (the bound is in the name): for every token triple over the
   full token alphabet, and every token sequence of length <= 5 over the
   reduced alphabet, accepted by the parser and builder models, the built code
   is well-formed (or the tree is in class C05-K2, which the parser does not produce), and the tree
   compiler of Model/Compile.v produces exactly what the worklist model
   produces -- for three initial states of the data object.  Proved by
   evaluation (vm_compute) over the complete enumeration. *)
From Coq Require Import List Arith Bool NArith Lia.
From GV Require Import Base.Result Gen.TokenTypes Gen.Defs Gen.Instr Model.Parser Model.BuilderWL Model.Compile
  Spec.WfCode Proofs.C05.Known Proofs.C05.WfSound.
Import ListNotations.

(* initial states: empty; after a program ending in EndExpression; after one ending in JumpTo *)
Definition inits : list binit :=
  [empty_init; mkInit 5 2 (Some (I_EndExpression, ONone)); mkInit 9 4 (Some (I_JumpTo, ONum 3))].

Definition known_b (init : binit) (nodes : list pnode) (root : nat) : bool :=
  match tree_of nodes root with
  | Some t => drops_arms t
  | None => false
  end.

(* for one parsed program and one initial state: the tree compiler agrees with
   the worklist model (results and error classes; the worklist model neither
   panics nor runs out of fuel), and the build is well-formed or in a known class *)
Definition check_build (nodes : list pnode) (root : nat) (init : binit) : bool :=
  match build nodes init lit_all (build_fuel nodes) root, compile_nodes nodes init lit_all root with
  | Ok r, Ok c => same_code c r && (wf_code_b nodes init (code_of_build r) || known_b init nodes root)
  | Err e, Err e' => N.eqb e e'
  | _, _ => false
  end.

Definition check_b (toks : list token_type) : bool :=
  match parse toks with
  | Ok (root, nodes) => forallb (check_build nodes root) inits
  | _ => true
  end.

Lemma all_token_type_complete : forall t : token_type, In t all_token_type.
Proof. intros t. destruct t; cbv [all_token_type In]; tauto. Qed.

(* ---- all triples ---- *)
Lemma forallb3_spec : forall A (f : A -> A -> A -> bool) (l : list A),
  forallb (fun a => forallb (fun b => forallb (fun c => f a b c) l) l) l = true ->
  forall a b c, In a l -> In b l -> In c l -> f a b c = true.
Proof.
  intros A f l H a b c Ha Hb Hc.
  rewrite forallb_forall in H. specialize (H a Ha). cbv beta in H.
  rewrite forallb_forall in H. specialize (H b Hb). cbv beta in H.
  rewrite forallb_forall in H. exact (H c Hc).
Qed.

Definition check3 (a b c : token_type) : bool := check_b [a; b; c].

Lemma triples_ok_true :
  forallb (fun a => forallb (fun b => forallb (fun c => check3 a b c) all_token_type) all_token_type) all_token_type = true.
Proof. vm_cast_no_check (@eq_refl bool true). Qed.

Lemma triples_check : forall a b c, check_b [a; b; c] = true.
Proof.
  intros a b c.
  exact (forallb3_spec token_type check3 all_token_type triples_ok_true a b c
           (all_token_type_complete a) (all_token_type_complete b) (all_token_type_complete c)).
Qed.

(* ---- length <= 5 over the reduced alphabet ---- *)
Definition reduced_ok (n : nat) : bool := forallb check_b (seqs reduced_alphabet n).

Lemma reduced_ok_0 : reduced_ok 0 = true.
Proof. vm_cast_no_check (@eq_refl bool true). Qed.
Lemma reduced_ok_1 : reduced_ok 1 = true.
Proof. vm_cast_no_check (@eq_refl bool true). Qed.
Lemma reduced_ok_2 : reduced_ok 2 = true.
Proof. vm_cast_no_check (@eq_refl bool true). Qed.
Lemma reduced_ok_3 : reduced_ok 3 = true.
Proof. vm_cast_no_check (@eq_refl bool true). Qed.
Lemma reduced_ok_4 : reduced_ok 4 = true.
Proof. vm_cast_no_check (@eq_refl bool true). Qed.
Lemma reduced_ok_5 : reduced_ok 5 = true.
Proof. vm_cast_no_check (@eq_refl bool true). Qed.

Lemma reduced_ok_spec : forall n toks, reduced_ok n = true -> length toks = n ->
  (forall x, In x toks -> In x reduced_alphabet) -> check_b toks = true.
Proof.
  intros n toks Hn Hl Hin. unfold reduced_ok in Hn. rewrite forallb_forall in Hn. apply Hn.
  apply seqs_complete; assumption.
Qed.

Lemma reduced_check : forall toks, length toks <= 5 -> (forall x, In x toks -> In x reduced_alphabet) -> check_b toks = true.
Proof.
  intros toks Hlen Hin.
  destruct toks as [|t1 [|t2 [|t3 [|t4 [|t5 [|t6 toks]]]]]].
  - exact (reduced_ok_spec 0 [] reduced_ok_0 eq_refl Hin).
  - exact (reduced_ok_spec 1 [t1] reduced_ok_1 eq_refl Hin).
  - exact (reduced_ok_spec 2 [t1; t2] reduced_ok_2 eq_refl Hin).
  - exact (reduced_ok_spec 3 [t1; t2; t3] reduced_ok_3 eq_refl Hin).
  - exact (reduced_ok_spec 4 [t1; t2; t3; t4] reduced_ok_4 eq_refl Hin).
  - exact (reduced_ok_spec 5 [t1; t2; t3; t4; t5] reduced_ok_5 eq_refl Hin).
  - cbn [length] in Hlen. lia.
Qed.

(* ---- what a passed check means ---- *)
Lemma check_build_wf : forall nodes root init r,
  check_build nodes root init = true ->
  build nodes init lit_all (build_fuel nodes) root = Ok r ->
  (exists c, compile_nodes nodes init lit_all root = Ok c /\ same_code c r = true) /\
  (wf_code nodes init (code_of_build r) \/
   exists t, tree_of nodes root = Some t /\ Known_C05_K2 t).
Proof.
  intros nodes root init r Hc Hb. unfold check_build in Hc. rewrite Hb in Hc.
  destruct (compile_nodes nodes init lit_all root) as [c| | |]; try discriminate.
  apply andb_true_iff in Hc. destruct Hc as [Hs Hw]. split; [exists c; auto|].
  apply orb_true_iff in Hw. destruct Hw as [Hw|Hk].
  - left. apply wf_code_b_sound. exact Hw.
  - right. unfold known_b in Hk. destruct (tree_of nodes root) as [t|]; [|discriminate].
    exists t. split; [reflexivity|]. exact Hk.
Qed.

Lemma check_b_init : forall toks root nodes init,
  check_b toks = true -> parse toks = Ok (root, nodes) -> In init inits -> check_build nodes root init = true.
Proof.
  intros toks root nodes init Hc Hp Hi. unfold check_b in Hc. rewrite Hp in Hc.
  rewrite forallb_forall in Hc. auto.
Qed.

(* the statement the bounded theorems make about one token sequence *)
Definition build_wf_or_known (toks : list token_type) (init : binit) : Prop :=
  forall root nodes r,
    parse toks = Ok (root, nodes) ->
    build nodes init lit_all (build_fuel nodes) root = Ok r ->
    wf_code nodes init (code_of_build r) \/
    exists t, tree_of nodes root = Some t /\ Known_C05_K2 t.

(* the tree compiler and the worklist model agree: same code, or the same error class *)
Definition compile_agrees (toks : list token_type) (init : binit) : Prop :=
  forall root nodes,
    parse toks = Ok (root, nodes) ->
    match build nodes init lit_all (build_fuel nodes) root, compile_nodes nodes init lit_all root with
    | Ok r, Ok c => same_code c r = true
    | Err e, Err e' => e = e'
    | _, _ => False
    end.

Lemma check_b_meaning : forall toks init, check_b toks = true -> In init inits ->
  build_wf_or_known toks init /\ compile_agrees toks init.
Proof.
  intros toks init Hc Hi. split.
  - intros root nodes r Hp Hb.
    pose proof (check_b_init toks root nodes init Hc Hp Hi) as H.
    destruct (check_build_wf nodes root init r H Hb) as [_ Hw]. exact Hw.
  - intros root nodes Hp.
    pose proof (check_b_init toks root nodes init Hc Hp Hi) as H. unfold check_build in H.
    destruct (build nodes init lit_all (build_fuel nodes) root) as [r|e| |];
      destruct (compile_nodes nodes init lit_all root) as [c|e'| |]; try discriminate.
    + apply andb_true_iff in H. tauto.
    + apply N.eqb_eq. exact H.
Qed.
