(* The worklist builder model (Model/BuilderWL.v) seen through what the
   simulation proof needs: the code part of a state, the per-node records, and
   what each elementary operation (get_b, put_b, assign_b, set_jump, the
   bookkeeping after a node, one iteration of the inner loop, the end
   instructions of a body) does to them. *)
From Coq Require Import List Arith Bool NArith Lia.
From GV Require Import Base.Result Gen.TokenTypes Gen.Defs Gen.Instr Model.Parser Model.BuilderWL Model.Compile
  Proofs.C05.InlBase.
Import ListNotations.

Definition cst_of (s : bstate) : cst := mkC (instrs s) (meta s) (jumps s).
Definition lk (s : bstate) (j : nat) : option (option bnode) := nth_error (bnodes s) j.
Definition blen (s : bstate) : nat := length (bnodes s).

Lemma upd_spec : forall A (l : list A) n f l',
  upd l n f = Some l' ->
  exists x, nth_error l n = Some x /\ length l' = length l /\ nth_error l' n = Some (f x) /\
            forall k, k <> n -> nth_error l' k = nth_error l k.
Proof.
  intros A l. induction l as [|y ys IH]; intros n f l' H; [discriminate|].
  destruct n as [|n]; cbn in H.
  - inversion H; subst. exists y. cbn. repeat split. intros k Hk. destruct k; [congruence | reflexivity].
  - destruct (upd ys n f) as [l2|] eqn:E; [|discriminate]. inversion H; subst.
    destruct (IH n f l2 E) as [x [Hx [Hlen [Hn Hk]]]]. exists x. cbn. repeat split; auto.
    intros k Hne. destruct k; [reflexivity|]. cbn. apply Hk. lia.
Qed.

(* [s'] is [s] with the record of node [i] replaced by [b] *)
Definition setb (s s' : bstate) (i : nat) (b : bnode) : Prop :=
  lk s' i = Some (Some b) /\ (forall j, j <> i -> lk s' j = lk s j) /\
  cst_of s' = cst_of s /\ root_stack s' = root_stack s /\ blen s' = blen s.

(* the effect a subtree has on the record of its list head / else-chain head:
   [k] more children counted, the arms [its] registered *)
Definition b_eff (k : nat) (its : list (nat * nat)) (b : bnode) : bnode :=
  mkB (b_init b) (b_pidx b) (b_containing b) (b_list_parent b) (k + b_child_count b) (b_contrib b)
      (b_jump_upd b) (b_root_end b) (b_cond_parent b) (b_cond_items b ++ its) (b_left_built b).

Lemma b_eff_0 : forall b, b_eff 0 [] b = b.
Proof. intros [ ]. unfold b_eff. cbn. rewrite app_nil_r. reflexivity. Qed.

Lemma b_eff_eff : forall k1 i1 k2 i2 b, b_eff k2 i2 (b_eff k1 i1 b) = b_eff (k1 + k2) (i1 ++ i2) b.
Proof. intros. unfold b_eff. cbn. f_equal; [lia | rewrite app_assoc; reflexivity]. Qed.

Lemma b_inc_eff : forall b, b_inc_count b = b_eff 1 [] b.
Proof. intros [ ]. unfold b_inc_count, b_eff. cbn. rewrite app_nil_r. reflexivity. Qed.

Lemma b_add_eff : forall it b, b_add_item it b = b_eff 0 [it] b.
Proof. intros it [ ]. reflexivity. Qed.

Definition ends_of (b : bnode) : list instr :=
  match b_root_end b with Some e => e | None => default_end end.

Section BS.
Variable tree : list pnode.
Variable init : binit.
Variable lit_ok : nat -> bool.

Lemma il_cst : forall s, il init (cst_of s) = instr_len init s.
Proof. reflexivity. Qed.
Lemma jl_cst : forall s, jl init (cst_of s) = jump_len init s.
Proof. reflexivity. Qed.

Lemma get_b_ok : forall s i b, get_b s i = Ok b -> lk s i = Some (Some b).
Proof.
  intros s i b H. unfold get_b in H. unfold lk.
  destruct (nth_error (bnodes s) i) as [[x|]|]; try discriminate. inversion H. reflexivity.
Qed.

Lemma get_b_lk : forall s i b, lk s i = Some (Some b) -> get_b s i = Ok b.
Proof. intros s i b H. unfold get_b. unfold lk in H. rewrite H. reflexivity. Qed.

Lemma put_b_ok : forall s i b s', put_b s i b = Ok s' -> setb s s' i b.
Proof.
  intros s i b s' H. unfold put_b in H.
  destruct (upd (bnodes s) i (fun _ => Some b)) as [l|] eqn:E; [|discriminate]. inversion H; subst.
  destruct (upd_spec _ _ _ _ _ E) as [x [Hx [Hlen [Hn Hk]]]].
  unfold setb, lk, blen, with_bnodes, cst_of. cbn. repeat split; auto.
Qed.

Lemma assign_b_ok : forall s i b s', assign_b s i b = Ok s' -> setb s s' i b.
Proof.
  intros s i b s' H. unfold assign_b in H.
  destruct (upd (bnodes s) i (fun _ => Some b)) as [l|] eqn:E; [|discriminate]. inversion H; subst.
  destruct (upd_spec _ _ _ _ _ E) as [x [Hx [Hlen [Hn Hk]]]].
  unfold setb, lk, blen, with_bnodes, cst_of. cbn. repeat split; auto.
Qed.

Lemma need_ok : forall A (o : option A) a, need o = Ok a -> o = Some a.
Proof. intros A [x|] a H; cbn in H; [inversion H; reflexivity | discriminate]. Qed.

Lemma set_jump_ok : forall s i x s', set_jump init s i x = Ok s' ->
  patch init (cst_of s) i x = Ok (cst_of s') /\ bnodes s' = bnodes s /\ root_stack s' = root_stack s.
Proof.
  intros s i x s' H. unfold set_jump in H. unfold patch. cbn [cst_of cj ci cm].
  destruct (Nat.ltb i (i_jump_len init)); [discriminate|].
  destruct (upd (jumps s) (i - i_jump_len init) (fun _ => x)) as [l|]; [|discriminate].
  inversion H; subst. cbn. auto.
Qed.

(* the bookkeeping after a node *)
Lemma after_node_plain : forall s ni b,
  lk s ni = Some (Some b) -> (b_contrib b = false \/ b_list_parent b = None) -> after_node s ni = Ok s.
Proof.
  intros s ni b H Hc. unfold after_node. unfold lk in H. rewrite H.
  destruct Hc as [Hc|Hc]; rewrite Hc; [reflexivity|]. destruct (b_contrib b); reflexivity.
Qed.

Lemma after_node_list : forall s ni b lp d s2,
  lk s ni = Some (Some b) -> b_contrib b = true -> b_list_parent b = Some (lp, d) ->
  after_node s ni = Ok s2 ->
  exists s1 pb, setb s s1 ni (b_set_contrib false b) /\ lk s1 lp = Some (Some pb) /\ setb s1 s2 lp (b_inc_count pb).
Proof.
  intros s ni b lp d s2 H Hc Hl Ha. unfold after_node in Ha. unfold lk in H. rewrite H, Hc, Hl in Ha.
  apply bind_ok in Ha. destruct Ha as [s1 [Hp Ha]]. apply bind_ok in Ha. destruct Ha as [pb [Hg Ha]].
  exists s1, pb. split; [apply put_b_ok; exact Hp|]. split; [apply get_b_ok; exact Hg | apply put_b_ok; exact Ha].
Qed.

(* the state at the start of an iteration: one more step counted *)
Definition bump (s : bstate) : bstate :=
  mkBS (bnodes s) (instrs s) (meta s) (jumps s) (root_stack s) (S (steps s)).

Lemma drain_step : forall fuel s crj ni rest out pn,
  drain tree init lit_ok fuel s crj (ni :: rest) = Ok out -> nth_error tree ni = Some pn ->
  exists f s1 st1 s2, fuel = S f /\
    handle_parse_node init lit_ok (bump s) crj rest ni pn = Ok (s1, st1) /\
    after_node s1 ni = Ok s2 /\ drain tree init lit_ok f s2 crj st1 = Ok out.
Proof.
  intros fuel s crj ni rest out pn H Hn. destruct fuel as [|f]; [discriminate|].
  cbn [drain] in H. fold (bump s) in H.
  destruct (Nat.ltb (max_steps tree) (steps (bump s))); [discriminate|].
  rewrite Hn in H. apply bind_ok in H. destruct H as [[s1 st1] [Hh H]].
  apply bind_ok in H. destruct H as [s2 [Ha H]].
  exists f, s1, st1, s2. auto.
Qed.

Lemma drain_nil : forall fuel s crj out,
  drain tree init lit_ok fuel s crj [] = Ok out -> fst out = s.
Proof. intros fuel s crj out H. destruct fuel; [discriminate|]. cbn in H. inversion H. reflexivity. Qed.

(* the end instructions of a body *)
Lemma finish_root_spec : forall s ix b,
  lk s ix = Some (Some b) ->
  cst_of (finish_root init s ix) = finish init (cst_of s) (ends_of b) /\
  bnodes (finish_root init s ix) = bnodes s /\ root_stack (finish_root init s ix) = root_stack s.
Proof.
  intros s ix b H. unfold finish_root, finish. unfold lk in H. rewrite H.
  change (last_instruction init s) with (last_instr init (cst_of s)).
  change (existsb (Nat.eqb (instr_len init s)) (jumps s)) with (existsb (Nat.eqb (il init (cst_of s))) (cj (cst_of s))).
  fold (ends_of b). generalize (last_instr init (cst_of s)) as last. intros last.
  generalize (existsb (Nat.eqb (il init (cst_of s))) (cj (cst_of s))) as tg. intros tg.
  assert (G : forall ends acc,
    let f := fun acc e => match last with
                          | Some li => if instr_eqb li e && instruction_eqb (fst e) I_EndExpression && negb tg then acc else push_instr acc e None
                          | None => push_instr acc e None end in
    let g := fun acc e => match last with
                          | Some li => if instr_eqb li e && instruction_eqb (fst e) I_EndExpression && negb tg then acc else emit acc e None
                          | None => emit acc e None end in
    cst_of (fold_left f ends acc) = fold_left g ends (cst_of acc) /\
    bnodes (fold_left f ends acc) = bnodes acc /\ root_stack (fold_left f ends acc) = root_stack acc).
  { induction ends as [|e ends IH]; intros acc f g; [cbn; auto|].
    cbn [fold_left]. subst f g. cbv beta.
    destruct last as [li|].
    - destruct (instr_eqb li e && instruction_eqb (fst e) I_EndExpression && negb tg); [apply IH|].
      destruct (IH (push_instr acc e None)) as [A [B C]]. repeat split; assumption.
    - destruct (IH (push_instr acc e None)) as [A [B C]]. repeat split; assumption. }
  apply G.
Qed.

End BS.

(* inversion of successful builder actions *)
Ltac inv_b :=
  match goal with
  | H : bind _ _ = Ok _ |- _ => apply bind_ok in H; destruct H as (? & ? & ?)
  | H : get_b _ _ = Ok _ |- _ => apply get_b_ok in H
  | H : put_b _ _ _ = Ok _ |- _ => apply put_b_ok in H
  | H : assign_b _ _ _ = Ok _ |- _ => apply assign_b_ok in H
  | H : need _ = Ok _ |- _ => apply need_ok in H
  | H : berr = Ok _ |- _ => discriminate H
  | H : @Err _ _ = Ok _ |- _ => discriminate H
  | H : Ok _ = Ok (?x, ?y) |- _ => is_var x; is_var y; injection H as ? ?; subst x y
  | H : Ok _ = Ok ?x |- _ => is_var x; injection H as ?; subst x
  | H : (let '(_, _) := ?x in _) = Ok _ |- _ => is_var x; destruct x
  | H : context [if ?b then _ else _] |- _ =>
    match type of H with _ = Ok _ => destruct b eqn:? end
  | H : context [match ?o with _ => _ end] |- _ =>
    match type of H with _ = Ok _ => destruct o eqn:? end
  end.
