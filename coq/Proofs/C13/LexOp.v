(* (d) operator tokens: the text is a spelling of the token's type in the generated
   table and no longer spelling is a prefix of the remaining input. *)
From Coq Require Import NArith List Bool Lia.
From GV Require Import Base.Result Gen.TokenTypes Gen.Tokens Model.Lexer Spec.LexSpec
  Proofs.C13.LexBase Proofs.C13.LexInv Proofs.C13.LexRun.
Import ListNotations.
Local Open Scope N_scope.

(* ---------------------------------------------------------- table lemmas *)
Definition nonop_ty (o : option token_type) : bool :=
  match o with
  | Some ty => negb (is_operator_typeb operator_spellings ty)
  | None => false
  end.

Lemma nonop_Whitespace : nonop_ty (Some TT_Whitespace) = true. Proof. vm_compute. reflexivity. Qed.
Lemma nonop_Subexpression : nonop_ty (Some TT_Subexpression) = true. Proof. vm_compute. reflexivity. Qed.
Lemma nonop_Number : nonop_ty (Some TT_Number) = true. Proof. vm_compute. reflexivity. Qed.
Lemma nonop_Identifier : nonop_ty (Some TT_Identifier) = true. Proof. vm_compute. reflexivity. Qed.
Lemma nonop_SuffixIdentifier : nonop_ty (Some TT_SuffixIdentifier) = true. Proof. vm_compute. reflexivity. Qed.
Lemma nonop_PrefixIdentifier : nonop_ty (Some TT_PrefixIdentifier) = true. Proof. vm_compute. reflexivity. Qed.
Lemma nonop_InfixIdentifier : nonop_ty (Some TT_InfixIdentifier) = true. Proof. vm_compute. reflexivity. Qed.
Lemma nonop_Symbol : nonop_ty (Some TT_Symbol) = true. Proof. vm_compute. reflexivity. Qed.
Lemma nonop_Annotation : nonop_ty (Some TT_Annotation) = true. Proof. vm_compute. reflexivity. Qed.
Lemma nonop_LineAnnotation : nonop_ty (Some TT_LineAnnotation) = true. Proof. vm_compute. reflexivity. Qed.
Lemma nonop_CharList : nonop_ty (Some TT_CharList) = true. Proof. vm_compute. reflexivity. Qed.
Lemma nonop_ByteList : nonop_ty (Some TT_ByteList) = true. Proof. vm_compute. reflexivity. Qed.
#[export] Hint Resolve nonop_Whitespace nonop_Subexpression nonop_Number nonop_Identifier nonop_SuffixIdentifier
  nonop_PrefixIdentifier nonop_InfixIdentifier nonop_Symbol nonop_Annotation nonop_LineAnnotation
  nonop_CharList nonop_ByteList : nonop.

Lemma token_type_eqb_refl : forall t, token_type_eqb t t = true.
Proof. intros t. unfold token_type_eqb. apply N.eqb_refl. Qed.

Lemma nonop_not_operator : forall ty, nonop_ty (Some ty) = true -> ~ is_operator_type operator_spellings ty.
Proof.
  intros ty H [sp Hin]. unfold nonop_ty in H. apply negb_true_iff in H.
  assert (E : is_operator_typeb operator_spellings ty = true).
  { unfold is_operator_typeb. apply existsb_exists. exists (sp, ty). split; [exact Hin|]. apply token_type_eqb_refl. }
  congruence.
Qed.

Section Table.
  Variable tbl : list (list N * token_type).

  Lemma op_node_type_in_aux : forall l path acc ty,
    fold_left (fun (acc : option token_type) (e : list N * token_type) => if list_N_eqb (fst e) path then Some (snd e) else acc) l acc = Some ty ->
    acc = Some ty \/ In (path, ty) l.
  Proof.
    induction l as [|e l IH]; intros path acc ty H; cbn in H; [left; exact H|].
    apply IH in H. destruct H as [H|H]; [|right; right; exact H].
    destruct (list_N_eqb (fst e) path) eqn:E.
    - apply list_N_eqb_eq in E. inversion H; subst. right. left. destruct e; reflexivity.
    - left. exact H.
  Qed.

  Lemma trie_lookup_in : forall path ty, trie_lookup tbl path = Some (Some ty) -> In (path, ty) tbl.
  Proof.
    intros path ty H. unfold trie_lookup in H. destruct (op_node_exists tbl path); [|discriminate].
    inversion H as [H1]. apply op_node_type_in_aux in H1. destruct H1 as [H1|H1]; [discriminate | exact H1].
  Qed.

  (* no node for  text ++ [c]  =>  no longer spelling is a prefix of  text ++ c :: r *)
  Lemma trie_lookup_none_longest : forall text c r sp ty,
    trie_lookup tbl (text ++ [c]) = None -> In (sp, ty) tbl ->
    (length text < length sp)%nat -> ~ is_prefix_of sp (text ++ c :: r).
  Proof.
    intros text c r sp ty Hnone Hin Hlen [q Hq].
    assert (Hp : exists q', sp = (text ++ [c]) ++ q').
    { clear Hnone Hin. revert sp q Hlen Hq. induction text as [|x text IH]; intros sp q Hlen Hq.
      - destruct sp as [|y sp]; [cbn in Hlen; lia|]. cbn in Hq. inversion Hq; subst. exists sp. reflexivity.
      - destruct sp as [|y sp]; [cbn in Hlen; lia|]. cbn in Hq. inversion Hq; subst.
        destruct (IH sp q) as [q' Hq']; [cbn in Hlen; lia | assumption|]. exists q'. cbn. rewrite Hq'. reflexivity. }
    destruct Hp as [q' Hq'].
    unfold trie_lookup in Hnone.
    assert (E : op_node_exists tbl (text ++ [c]) = true).
    { assert (Hex : existsb (fun e => is_prefix (text ++ [c]) (fst e)) tbl = true).
      { apply existsb_exists. exists (sp, ty). split; [exact Hin|]. cbn. apply is_prefix_spec. exists q'. exact Hq'. }
      unfold op_node_exists. destruct (text ++ [c]); [reflexivity | exact Hex]. }
    rewrite E in Hnone. discriminate.
  Qed.
End Table.

(* ------------------------------------------------------------ the invariant *)
Definition WFop (l : lexer) : Prop :=
  (st l = SOperator -> current_operator (cur l) = Some (cur_ty l)) /\
  (st l <> SOperator -> st l <> SNoToken -> nonop_ty (cur_ty l) = true).

Lemma WFop_init : WFop init_lexer.
Proof. split; cbn; intros; congruence. Qed.

Lemma classic_sentinel : forall l c, sentinel l c \/ ~ sentinel l c.
Proof.
  intros l c. unfold sentinel. destruct (N.eq_dec c 0) as [->|H]; [|right; intros [A _]; congruence].
  destruct (at_end l); [left; auto | right; intros [_ B]; discriminate].
Qed.

Section Op.
  Variables uni_numeric uni_alnum : N -> bool.
  Notation start_token := (start_token uni_numeric uni_alnum).
  Notation run_arm := (run_arm uni_numeric uni_alnum).
  Notation process_char := (process_char uni_numeric uni_alnum).
  Notation start_new_tail := (start_new_tail uni_numeric uni_alnum).

  Lemma start_token_op : forall l c, result (start_token l c) = None -> WFop (start_token l c).
  Proof.
    intros l c. unfold start_token.
    destruct (current_operator _) eqn:Eop.
    - intros _. split; cbn; intros; try congruence. cbn in Eop. exact Eop.
    - repeat break_if; cbn; intros Hr; try discriminate; split; cbn; intros; try congruence; auto with nonop.
  Qed.

  Definition arm_op (l : lexer) (c : N) (ar : arm_result) : Prop :=
    match ar with
    | ArmPanic _ | Early _ => True
    | Arm l1 nt true =>
      (st l = SOperator /\ should_create l1 = true /\ cur l1 = cur l /\
       current_operator (cur l) = Some (cur_ty l1) /\ current_operator (cur l ++ [c]) = None) \/
      nonop_ty (cur_ty l1) = true
    | Arm l1 nt false =>
      result l1 = None ->
      WFop l1 /\ (forall t, nt = Some t -> nonop_ty (Some (tok_type t)) = true)
    end.

  Ltac op_leaf :=
    cbn; try intros Hres1;
    try (right; cbn; auto with nonop; fail);
    try (split; [split; cbn; intros; try congruence; auto with nonop | intros ? ?; discriminate]).

  Lemma run_arm_op : forall l c, WF l -> WFop l -> arm_op l c (run_arm l c).
  Proof.
    intros l c [[_ _ Hsc _ _] _] [Hop Hnon]. unfold run_arm. destruct (st l) eqn:Hst.
    - (* NoToken *) unfold arm_op. intros Hr. split; [apply start_token_op; exact Hr | intros ? ?; discriminate].
    - (* Operator *)
      unfold arm_operator. destruct (current_operator (cur (push l c))) eqn:Eop.
      + op_leaf.
      + repeat break_if; op_leaf.
        left. cbn in Eop. repeat split; auto.
    - unfold arm_spaces. repeat break_if; op_leaf. all: try (right; apply Hnon; discriminate).
      all: try (apply Hnon; discriminate).
    - unfold arm_subexpression. repeat break_if; op_leaf.
    - unfold arm_number. repeat break_if; op_leaf. all: try (right; apply Hnon; discriminate).
      all: try (apply Hnon; discriminate).
    - (* Float *)
      unfold arm_float. destruct (is_number_char uni_numeric uni_alnum c).
      + op_leaf. apply Hnon; discriminate.
      + destruct ((c =? ch_period) && ends_with ch_period (cur l)) eqn:Esplit.
        * apply andb_true_iff in Esplit as [Hc Hend]. apply N.eqb_eq in Hc. subst c.
          destruct (text_col (set_start_row l (text_row l)) =? 0); [exact I|].
          change ch_period with 46.
          change (push (set_start_col (start_token (set_start_row l (text_row l)) 46)
                          (text_col (set_start_row l (text_row l)) - 1)) 46) with (float_split_state uni_numeric uni_alnum l).
          rewrite float_split_state_eq. cbn [cur]. rewrite current_operator_range.
          unfold arm_op. intros _. split.
          -- split; cbn; intros; try congruence.
          -- intros t Ht. inversion Ht; subst. cbn. auto with nonop.
        * op_leaf. right. apply Hnon; discriminate.
    - unfold arm_identifier. repeat break_if; op_leaf. all: try (right; apply Hnon; discriminate).
      all: try (apply Hnon; discriminate).
    - unfold arm_annotation. repeat break_if; op_leaf. all: try (right; apply Hnon; discriminate).
      all: try (apply Hnon; discriminate).
    - unfold arm_line_annotation. repeat break_if; op_leaf. all: try (right; apply Hnon; discriminate).
      all: try (apply Hnon; discriminate).
    - unfold arm_list. repeat break_if; op_leaf. all: try (right; apply Hnon; discriminate).
      all: try (apply Hnon; discriminate).
    - unfold arm_start_list. repeat break_if; op_leaf. all: try (right; apply Hnon; discriminate).
      all: try (apply Hnon; discriminate).
    - unfold arm_list. repeat break_if; op_leaf. all: try (right; apply Hnon; discriminate).
      all: try (apply Hnon; discriminate).
    - unfold arm_start_list. repeat break_if; op_leaf. all: try (right; apply Hnon; discriminate).
      all: try (apply Hnon; discriminate).
  Qed.

  (* -------------------------------------------------------------- the tail *)
  Lemma tail_op : forall l1 c, result l1 = None -> st l1 <> SNoToken ->
    match start_new_tail l1 None c with
    | TailEarly l2 => result l2 <> None
    | Tail l2 nt2 =>
      result l2 = None ->
      WFop l2 /\
      (forall t, nt2 = Some t -> cur_ty l1 = Some (tok_type t) /\ tok_text t = cur l1) /\
      (should_create l1 = true -> l2 = start_token (reset_state (set_result (set_can_float l1 (negb (blocks_float (cur_ty l1)))) None)) c)
    end.
  Proof.
    intros l1 c Hres Hst.
    unfold start_new_tail. cbn [st set_can_float].
    rewrite (lstate_eqb_notoken _ Hst). cbn [negb].
    set (l1' := set_can_float l1 (negb (blocks_float (cur_ty l1)))).
    destruct (can_create_valid_token l1') as [e|] eqn:Ecc.
    - cbn [result set_result].
      fold (reset_state (set_result l1' (Some e))).
      destruct (should_create (reset_state (set_result l1' (Some e)))).
      + intros Hr. destruct (start_token_frame uni_numeric uni_alnum (reset_state (set_result l1' (Some e))) c) as (_ & _ & _ & E2).
        apply E2 in Hr. discriminate.
      + cbn. discriminate.
    - cbn [result set_result cur_ty].
      destruct (cur_ty l1') as [ty|] eqn:Ety; [|cbn; discriminate].
      fold (reset_state (set_result l1' None)).
      set (l3 := reset_state (set_result l1' None)).
      assert (Hsc3 : should_create l3 = should_create l1) by reflexivity.
      rewrite Hsc3. destruct (should_create l1) eqn:Hsc.
      + intros Hr. split; [apply start_token_op; exact Hr|]. split; [|reflexivity].
        intros t Ht. inversion Ht; subst. cbn. split; [exact Ety | reflexivity].
      + intros _. split; [split; cbn; intros; congruence|]. split; [|discriminate].
        intros t Ht. inversion Ht; subst. cbn. split; [exact Ety | reflexivity].
  Qed.

  (* what is known about an emitted token: either its type is not an operator type, or it
     was cut by the trie: its text is a node with that type and  text ++ [c]  is no node *)
  Definition emitted_ok (t : token) (c : N) : Prop :=
    nonop_ty (Some (tok_type t)) = true \/
    (current_operator (tok_text t) = Some (Some (tok_type t)) /\ current_operator (tok_text t ++ [c]) = None).

  Lemma process_char_op : forall l c l' ot, WF l -> WFop l -> result l = None ->
    process_char l c = Ok (l', ot) -> result l' = None ->
    WFop l' /\
    (forall t, ot = Some t ->
       nonop_ty (Some (tok_type t)) = true \/
       (current_operator (tok_text t) = Some (Some (tok_type t)) /\
        current_operator (tok_text t ++ [c]) = None /\ (~ sentinel l c -> cur l' = [c]))).
  Proof.
    intros l c l' ot Hwf Hwfop Hres Hpc Hr'.
    pose proof (run_arm_op l c Hwf Hwfop) as Hop.
    assert (Hnt0 : st l = SNoToken -> exists l1, run_arm l c = Arm l1 None false).
    { intros E. unfold run_arm. rewrite E. eexists; reflexivity. }
    unfold process_char in Hpc.
    destruct (run_arm l c) as [l1 nt sn | l1 | site] eqn:Harm; cbn [arm_op] in Hop.
    - destruct sn.
      + (* need the facts of the lossless analysis as well; they hold for real characters and for the flush *)
        assert (Hfacts : result l1 = None /\ nt = None /\ st l1 <> SNoToken /\ at_end l1 = at_end l).
        { destruct (classic_sentinel l c) as [Hs|Hs].
          - destruct Hs as [-> Hae]. pose proof (run_arm_flush uni_numeric uni_alnum l Hwf Hres Hae) as Hf.
            rewrite Harm in Hf. cbn in Hf. destruct Hf as (A & B & C & D & _). repeat split; auto. congruence.
          - pose proof (run_arm_real uni_numeric uni_alnum l c Hwf Hres Hs) as Hf.
            rewrite Harm in Hf. cbn in Hf. destruct Hf as (A & B & C & D & _). repeat split; auto. }
        destruct Hfacts as (Hr1 & Hnt & Hst1 & Hae1). subst nt.
        pose proof (tail_op l1 c Hr1 Hst1) as Ht.
        destruct (start_new_tail l1 None c) as [l2 nt2 | l2]; [|inversion Hpc; subst; congruence].
        inversion Hpc; subst l' ot. clear Hpc.
        destruct (advance_frame l2 c) as (Ec & Es & Er & _ & _ & Ety & _). rewrite Er in Hr'.
        destruct (Ht Hr') as (Hwf2 & Htok & Hl2). split.
        * destruct Hwf2 as [A B]. unfold WFop. rewrite Es, Ec, Ety. split; assumption.
        * intros t Ht'. destruct (Htok t Ht') as [Hty Htxt].
          destruct Hop as [(Hso & Hsc & Hcur & Hcop & Hnone)|Hnon].
          -- right. rewrite Htxt, Hcur. rewrite Hty in Hcop. split; [exact Hcop|]. split; [exact Hnone|].
             intros Hs. rewrite Ec, (Hl2 Hsc).
             assert (Hs3 : ~ sentinel (reset_state (set_result (set_can_float l1 (negb (blocks_float (cur_ty l1)))) None)) c).
             { intros [A B]. apply Hs. split; [exact A|]. cbn in B. congruence. }
             rewrite (Hl2 Hsc) in Hr'.
             destruct (start_token_real uni_numeric uni_alnum _ c Hs3 Hr') as [Hc _]. exact Hc.
          -- left. rewrite Hty in Hnon. exact Hnon.
      + inversion Hpc; subst l' ot. clear Hpc.
        destruct (advance_frame l1 c) as (Ec & Es & Er & _ & _ & Ety & _). rewrite Er in Hr'.
        destruct (Hop Hr') as [[A B] Htok]. split.
        * unfold WFop. rewrite Es, Ec, Ety. split; assumption.
        * intros t Ht. left. apply Htok. exact Ht.
    - inversion Hpc; subst. clear Hpc.
      exfalso. destruct (classic_sentinel l c) as [Hs|Hs].
      + destruct Hs as [-> Hae]. pose proof (run_arm_flush uni_numeric uni_alnum l Hwf Hres Hae) as Hf.
        rewrite Harm in Hf. cbn in Hf. destruct Hf. congruence.
      + pose proof (run_arm_real uni_numeric uni_alnum l c Hwf Hres Hs) as Hf.
        rewrite Harm in Hf. cbn in Hf. destruct Hf. congruence.
    - discriminate.
  Qed.

  (* ------------------------------------------------------------ the whole run *)
  Notation internal_next_loop := (internal_next_loop uni_numeric uni_alnum).
  Notation lex_loop := (lex_loop uni_numeric uni_alnum).

  Definition cut_ok (t : token) (rest : list N) : Prop :=
    nonop_ty (Some (tok_type t)) = true \/
    (current_operator (tok_text t) = Some (Some (tok_type t)) /\
     (rest = [] \/ exists c r, rest = c :: r /\ current_operator (tok_text t ++ [c]) = None)).

  Lemma WFop_set_at_end : forall l b, WFop l -> WFop (set_at_end l b).
  Proof. intros l b H. exact H. Qed.

  Lemma internal_next_loop_op : forall s l l' s' ot, WF l -> WFop l -> result l = None -> at_end l = false ->
    internal_next_loop l s = Ok (l', s', ot) -> result l' = None ->
    (at_end l' = false -> WFop l') /\
    match ot with
    | Some t => cut_ok t (cur l' ++ s')
    | None => True
    end.
  Proof.
    induction s as [|c rest IH]; intros l l' s' ot Hwf Hwfop Hres Hae Hrun Hr'.
    - cbn [internal_next_loop] in Hrun.
      assert (Hwf0 : WF (set_at_end l true)) by (apply WF_set_at_end; exact Hwf).
      destruct (process_char_flush uni_numeric uni_alnum (set_at_end l true) Hwf0 Hres eq_refl)
        as (l1 & ot1 & Hpc & Hae1 & Hspec).
      change ch_nul with 0 in Hrun. rewrite Hpc in Hrun. destruct ot1 as [t|].
      + inversion Hrun; subst l' s' ot. split; [intros; congruence|].
        destruct (Hspec Hr') as (_ & _ & Hc & _).
        destruct (process_char_op (set_at_end l true) 0 l1 (Some t) Hwf0 (WFop_set_at_end l true Hwfop) Hres Hpc Hr') as [_ Htok].
        destruct (Htok t eq_refl) as [Hn|(A & _ & _)]; [left; exact Hn|].
        right. split; [exact A|]. left. rewrite Hc. reflexivity.
      + inversion Hrun; subst s' ot. split; [|exact I].
        intros Hf. exfalso. revert Hf.
        destruct ((0 <? byte_len (cur l1)) && negb (is_err (result l1))); cbn; congruence.
    - cbn [internal_next_loop] in Hrun.
      assert (Hs : ~ sentinel l c) by (intros [_ H]; congruence).
      destruct (process_char_real uni_numeric uni_alnum l c Hwf Hres Hs) as (l1 & ot1 & Hpc & Hae1 & Hspec).
      rewrite Hpc in Hrun. destruct ot1 as [t|].
      + inversion Hrun; subst l' s' ot.
        destruct (process_char_op l c l1 (Some t) Hwf Hwfop Hres Hpc Hr') as [Hw Htok].
        split; [intros _; exact Hw|].
        destruct (Htok t eq_refl) as [Hn|(A & B & C)]; [left; exact Hn|].
        right. split; [exact A|]. right. exists c, rest. rewrite (C Hs). split; [reflexivity | exact B].
      + destruct (result l1) eqn:Hr1; cbn [is_err] in Hrun.
        * inversion Hrun; subst. congruence.
        * destruct (Hspec eq_refl) as (Hwf1 & _ & _).
          destruct (process_char_op l c l1 None Hwf Hwfop Hres Hpc Hr1) as [Hw _].
          eapply (IH l1); eauto; congruence.
  Qed.

  Definition op_tok (t : token) (rest : list N) : Prop :=
    is_operator_type operator_spellings (tok_type t) ->
    In (tok_text t, tok_type t) operator_spellings /\
    forall sp ty, In (sp, ty) operator_spellings ->
      (length (tok_text t) < length sp)%nat -> ~ is_prefix_of sp (tok_text t ++ rest).

  Lemma cut_ok_op_tok : forall t rest, cut_ok t rest -> op_tok t rest.
  Proof.
    intros t rest [Hn|[Hcop Hrest]] Hop.
    - exfalso. exact (nonop_not_operator _ Hn Hop).
    - split; [apply trie_lookup_in; exact Hcop|].
      intros sp ty Hin Hlen. destruct Hrest as [->|(c & r & -> & Hnone)].
      + intros [q Hq]. rewrite app_nil_r in Hq. apply (f_equal (@length N)) in Hq.
        rewrite app_length in Hq. lia.
      + eapply trie_lookup_none_longest; eauto.
  Qed.

  Fixpoint op_toks (ts : list token) : Prop :=
    match ts with
    | [] => True
    | t :: r => op_tok t (texts r) /\ op_toks r
    end.

  Lemma lex_loop_op : forall fuel s l acc ts, WF l -> WFop l -> result l = None -> at_end l = false ->
    lex_loop fuel l s acc = LOk ts ->
    exists post, ts = acc ++ post /\ texts post = cur l ++ s /\ op_toks post.
  Proof.
    induction fuel as [|f IH]; intros s l acc ts Hwf Hwfop Hres Hae Hrun; [discriminate|].
    cbn [lex_loop] in Hrun. unfold internal_next in Hrun. rewrite Hres in Hrun. cbn [is_err] in Hrun.
    destruct (internal_next_loop_spec uni_numeric uni_alnum s l Hwf Hres Hae) as (l1 & s1 & ot & Hnext & Hlen & Hok).
    rewrite Hnext in Hrun. destruct ot as [t|].
    - destruct (result l1) eqn:Hr1; [discriminate|].
      destruct (Hok eq_refl) as (Hne & Hcat & Hwf1 & Hcase).
      destruct (internal_next_loop_op s l l1 s1 (Some t) Hwf Hwfop Hres Hae Hnext Hr1) as [Hw1 Hcut].
      apply cut_ok_op_tok in Hcut.
      destruct Hcase as [[Hae1 _]|(Hae1 & Hs1 & Hst1 & Hc1)].
      + destruct (IH s1 l1 (acc ++ [t]) ts Hwf1 (Hw1 Hae1) Hr1 Hae1 Hrun) as (post1 & E1 & E2 & E3).
        exists (t :: post1). split; [rewrite E1, <- app_assoc; reflexivity|].
        split.
        * change (t :: post1) with ([t] ++ post1). rewrite texts_app, texts_single, E2. exact Hcat.
        * cbn [op_toks]. split; [rewrite E2; exact Hcut | exact E3].
      + subst s1. destruct f as [|f']; [discriminate|].
        rewrite (lex_loop_after_flush uni_numeric uni_alnum f' l1 (acc ++ [t]) Hwf1 Hr1 Hae1 Hst1) in Hrun.
        inversion Hrun; subst ts. exists [t]. split; [reflexivity|].
        rewrite Hc1, !app_nil_r in Hcat, Hcut. split; [rewrite texts_single; exact Hcat|].
        cbn [op_toks]. split; [exact Hcut | exact I].
    - destruct (result l1) eqn:Hr1; [discriminate|]. inversion Hrun; subst ts.
      exists []. rewrite app_nil_r. split; [reflexivity|]. split; [|exact I].
      symmetry. exact (Hok eq_refl).
  Qed.

  Lemma op_toks_split : forall pre t post, op_toks (pre ++ t :: post) -> op_tok t (texts post).
  Proof.
    induction pre as [|x pre IH]; intros t post H; cbn [app op_toks] in H.
    - exact (proj1 H).
    - apply IH. exact (proj2 H).
  Qed.

  Theorem lex_longest_match : forall s ts,
    lex uni_numeric uni_alnum s = Ok ts -> longest_match operator_spellings ts.
  Proof.
    intros s ts H. unfold lex in H.
    destruct (lex_run uni_numeric uni_alnum s) as [ts'| | |] eqn:Hrun; try discriminate.
    inversion H; subst ts'. unfold lex_run in Hrun.
    destruct (lex_loop_op _ s init_lexer [] ts WF_init WFop_init eq_refl eq_refl Hrun) as (post & E1 & _ & E3).
    cbn [app] in E1. subst post.
    intros pre t post E Hop. subst ts. exact (op_toks_split pre t post E3 Hop).
  Qed.
End Op.
