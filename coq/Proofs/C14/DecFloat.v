(* Decimal -> binary64: the model's conversion is the IEEE-754 rounding to
   nearest (ties to even) of the decimal number, or an infinity when that
   rounding overflows.  Built on Flocq's Bdiv_correct_aux, which holds for
   arbitrary positive integer mantissas. *)
From Coq Require Import ZArith NArith List Bool Lia Reals Psatz SpecFloat.
From Flocq Require Import Core IEEE754.BinarySingleNaN IEEE754.Binary IEEE754.Bits.
From GV Require Import Base.Result Model.Num Model.Literals.
Local Open Scope Z_scope.

Definition rnd64 (x : R) : R := round radix2 (SpecFloat.fexp 53 1024) ZnearestE x.

Lemma sf_to_b64_valid : forall z, SpecFloat.valid_binary 53 1024 z = true ->
  Binary.B2R 53 1024 (sf_to_b64 z) = SF2R radix2 z /\
  Binary.is_finite 53 1024 (sf_to_b64 z) = is_finite_SF z.
Proof.
  intros z Hv. destruct z as [s|s| |s m e]; try (split; reflexivity).
  unfold sf_to_b64. cbn [SpecFloat.valid_binary] in Hv.
  destruct (Sumbool.sumbool_of_bool (SpecFloat.bounded 53 1024 m e)) as [H|H].
  - split; reflexivity.
  - congruence.
Qed.

Lemma sf_to_b64_overflow : forall s,
  sf_to_b64 (BinarySingleNaN.binary_overflow 53 1024 mode_NE s) = Binary.B754_infinity 53 1024 s.
Proof. intros s. reflexivity. Qed.

(* the correctly rounded quotient of two positive integers *)
Theorem f64_of_ratio_correct : forall neg mx my,
  let x := (IZR (cond_Zopp neg (Zpos mx)) / IZR (Zpos my))%R in
  if Rlt_bool (Rabs (rnd64 x)) (bpow radix2 1024) then
    Binary.B2R 53 1024 (f64_of_ratio neg mx my) = rnd64 x /\
    Binary.is_finite 53 1024 (f64_of_ratio neg mx my) = true
  else f64_of_ratio neg mx my = Binary.B754_infinity 53 1024 neg.
Proof.
  intros neg mx my x.
  pose proof (BinarySingleNaN.Bdiv_correct_aux 53 1024 (eq_refl _) (eq_refl _) mode_NE neg mx 0 false my 0) as H.
  cbv zeta in H. rewrite xorb_false_r in H.
  unfold f64_of_ratio.
  destruct (SFdiv_core_binary 53 1024 (Z.pos mx) 0 (Z.pos my) 0) as [[mz ez] lz].
  destruct H as [Hv H].
  assert (Hx : (F2R (Float radix2 (cond_Zopp neg (Z.pos mx)) 0) / F2R (Float radix2 (cond_Zopp false (Z.pos my)) 0))%R = x).
  { unfold x, F2R. cbn [Fnum Fexp bpow cond_Zopp]. rewrite !Rmult_1_r. reflexivity. }
  rewrite Hx in H. cbn [round_mode] in H. fold (rnd64 x) in H.
  destruct (Rlt_bool (Rabs (rnd64 x)) (bpow radix2 1024)).
  - destruct H as [HR [HF _]]. destruct (sf_to_b64_valid _ Hv) as [H1 H2].
    split; [rewrite H1; exact HR | rewrite H2; exact HF].
  - rewrite H. apply sf_to_b64_overflow.
Qed.

(* the decimal number m * 10^e as a real *)
Definition dec_real (neg : bool) (p : positive) (e10 : Z) : R :=
  if 0 <=? e10 then IZR (cond_Zopp neg (Zpos p * 10 ^ e10))
  else (IZR (cond_Zopp neg (Zpos p)) / IZR (10 ^ (- e10)))%R.

Lemma pow10_pos : forall k, 0 <= k -> 0 < 10 ^ k.
Proof. intros k Hk. apply Z.pow_pos_nonneg; lia. Qed.

(* outside the two ranges that are decided without computing the power
   (e10 >= 310: at least 10^310; 10000*bits + 33219*e10 <= -10750000: below
   2^-1075), the conversion is the rounding of the decimal number *)
Theorem f64_of_decimal_correct : forall neg p e10,
  e10 < 310 ->
  ~ (10000 * (Z.log2 (Zpos p) + 1) + 33219 * e10 <= -10750000) ->
  let x := dec_real neg p e10 in
  if Rlt_bool (Rabs (rnd64 x)) (bpow radix2 1024) then
    Binary.B2R 53 1024 (f64_of_decimal neg (Npos p) e10) = rnd64 x /\
    Binary.is_finite 53 1024 (f64_of_decimal neg (Npos p) e10) = true
  else f64_of_decimal neg (Npos p) e10 = Binary.B754_infinity 53 1024 neg.
Proof.
  intros neg p e10 H310 Hsmall x. unfold f64_of_decimal.
  replace (310 <=? e10) with false by (symmetry; apply Z.leb_gt; lia).
  replace (10000 * (Z.log2 (Z.pos p) + 1) + 33219 * e10 <=? -10750000) with false
    by (symmetry; apply Z.leb_gt; lia).
  unfold x, dec_real. destruct (0 <=? e10) eqn:E.
  - apply Z.leb_le in E. pose proof (pow10_pos e10 E) as Hp.
    pose proof (f64_of_ratio_correct neg (p * Z.to_pos (10 ^ e10)) 1) as H. cbv zeta in H.
    replace (IZR (cond_Zopp neg (Z.pos (p * Z.to_pos (10 ^ e10)))) / IZR (Z.pos 1))%R
      with (IZR (cond_Zopp neg (Z.pos p * 10 ^ e10))) in H.
    + exact H.
    + rewrite Pos2Z.inj_mul, Z2Pos.id by exact Hp. unfold Rdiv. rewrite Rinv_1, Rmult_1_r. reflexivity.
  - apply Z.leb_gt in E. assert (Hp : 0 < 10 ^ (- e10)) by (apply pow10_pos; lia).
    pose proof (f64_of_ratio_correct neg p (Z.to_pos (10 ^ (- e10)))) as H. cbv zeta in H.
    rewrite Z2Pos.id in H by exact Hp. exact H.
Qed.

(* ---- the two exponent ranges decided without computing the power ---- *)
Lemma fexp64_FLT : forall e, SpecFloat.fexp 53 1024 e = FLT_exp (-1074) 53 e.
Proof. reflexivity. Qed.

Lemma rnd64_tiny : forall x, (Rabs x < bpow radix2 (-1075))%R -> rnd64 x = 0%R.
Proof.
  intros x Hx. destruct (Req_dec x 0) as [->|Hn].
  { unfold rnd64. apply round_0. apply valid_rnd_N. }
  destruct (mag radix2 x) as [ex Hex]. specialize (Hex Hn).
  unfold rnd64. apply (round_N_small radix2 (SpecFloat.fexp 53 1024) (fun t => negb (Z.even t)) x ex Hex).
  assert (Hlt : (ex - 1 < -1075)%Z).
  { apply (lt_bpow radix2). eapply Rle_lt_trans; [apply Hex | exact Hx]. }
  unfold SpecFloat.fexp, SpecFloat.emin. lia.
Qed.

Lemma rnd64_huge : forall x, (bpow radix2 1024 <= Rabs x)%R -> (bpow radix2 1024 <= Rabs (rnd64 x))%R.
Proof.
  intros x Hx. unfold rnd64.
  assert (HE : Exists_NE radix2 (SpecFloat.fexp 53 1024)).
  { change (SpecFloat.fexp 53 1024) with (FLT_exp (-1074) 53). apply exists_NE_FLT. right. lia. }
  assert (HV : Valid_exp (SpecFloat.fexp 53 1024)) by (apply (BinarySingleNaN.fexp_correct 53 1024); reflexivity).
  rewrite <- (round_NE_abs radix2 (SpecFloat.fexp 53 1024)).
  apply round_ge_generic; auto with typeclass_instances.
  apply generic_format_bpow. unfold SpecFloat.fexp, SpecFloat.emin. lia.
Qed.

Lemma pow2_le_pow10 : 2 ^ 33219 <= 10 ^ 10000.
Proof. vm_compute. discriminate. Qed.

Lemma pow10_ge_pow2_1024 : 2 ^ 1024 <= 10 ^ 310.
Proof. vm_compute. discriminate. Qed.

(* 33219 k >= 10000 n  ->  2^n <= 10^k   (log2 10 > 3.3219) *)
Lemma pow2_le_pow10_scaled : forall n k, 0 <= n -> 0 <= k -> 10000 * n <= 33219 * k -> 2 ^ n <= 10 ^ k.
Proof.
  intros n k Hn Hk H. apply Z.nlt_ge. intros Hlt.
  assert (H1 : (10 ^ k) ^ 10000 < (2 ^ n) ^ 10000).
  { apply Z.pow_lt_mono_l; [lia|]. split; [apply Z.pow_nonneg; lia | exact Hlt]. }
  assert (H2 : (2 ^ n) ^ 10000 <= (10 ^ k) ^ 10000).
  { rewrite <- !Z.pow_mul_r by lia.
    apply Z.le_trans with (2 ^ (33219 * k)).
    - apply Z.pow_le_mono_r; lia.
    - rewrite Z.pow_mul_r by lia. rewrite (Z.mul_comm k 10000), Z.pow_mul_r by lia.
      apply Z.pow_le_mono_l. split; [apply Z.pow_nonneg; lia | exact pow2_le_pow10]. }
  lia.
Qed.

Lemma Rabs_IZR_cond_Zopp : forall neg z, Rabs (IZR (cond_Zopp neg z)) = IZR (Z.abs z).
Proof. intros neg z. rewrite <- abs_IZR. destruct neg; cbn [cond_Zopp]; [rewrite Z.abs_opp|]; reflexivity. Qed.

Lemma dec_real_overflow : forall neg p e10, 310 <= e10 ->
  (bpow radix2 1024 <= Rabs (dec_real neg p e10))%R.
Proof.
  intros neg p e10 He. unfold dec_real. replace (0 <=? e10) with true by (symmetry; apply Z.leb_le; lia).
  rewrite Rabs_IZR_cond_Zopp. rewrite <- (IZR_Zpower radix2) by lia. apply IZR_le.
  change (Zpower radix2 1024) with (2 ^ 1024).
  assert (H10 : 10 ^ 310 <= 10 ^ e10) by (apply Z.pow_le_mono_r; lia).
  pose proof pow10_ge_pow2_1024. rewrite Z.abs_eq by (apply Z.mul_nonneg_nonneg; [lia | apply Z.pow_nonneg; lia]).
  assert (1 * 10 ^ e10 <= Z.pos p * 10 ^ e10) by (apply Z.mul_le_mono_nonneg_r; [apply Z.pow_nonneg|]; lia).
  lia.
Qed.

Lemma dec_real_underflow : forall neg p e10,
  10000 * (Z.log2 (Zpos p) + 1) + 33219 * e10 <= -10750000 ->
  (Rabs (dec_real neg p e10) < bpow radix2 (-1075))%R.
Proof.
  intros neg p e10 H.
  pose proof (Z.log2_nonneg (Zpos p)) as Hl.
  assert (He : e10 < 0) by lia.
  unfold dec_real. replace (0 <=? e10) with false by (symmetry; apply Z.leb_gt; lia).
  set (k := - e10). set (b := Z.log2 (Zpos p) + 1).
  assert (Hpb : Zpos p < 2 ^ b).
  { unfold b. destruct (Z.log2_spec (Zpos p)) as [_ Hs]; [lia|]. rewrite <- Z.add_1_r in Hs. exact Hs. }
  assert (Hpow : 2 ^ (b + 1075) <= 10 ^ k) by (apply pow2_le_pow10_scaled; unfold b, k; lia).
  assert (Hk : 0 < 10 ^ k) by (apply Z.pow_pos_nonneg; unfold k; lia).
  unfold Rdiv. rewrite Rabs_mult, Rabs_IZR_cond_Zopp. cbn [Z.abs].
  rewrite Rabs_inv. rewrite Rabs_pos_eq by (apply IZR_le; lia).
  replace (bpow radix2 (-1075)) with (/ bpow radix2 1075)%R by (symmetry; exact (bpow_opp radix2 1075)).
  rewrite <- (IZR_Zpower radix2 1075) by lia. change (Zpower radix2 1075) with (2 ^ 1075).
  assert (H2 : (0 < IZR (2 ^ 1075))%R) by (apply IZR_lt; apply Z.pow_pos_nonneg; lia).
  assert (H10 : (0 < IZR (10 ^ k))%R) by (apply IZR_lt; exact Hk).
  apply (Rmult_lt_reg_r (IZR (10 ^ k))); [exact H10|].
  rewrite Rmult_assoc, Rinv_l, Rmult_1_r by lra.
  apply (Rmult_lt_reg_l (IZR (2 ^ 1075))); [exact H2|].
  rewrite <- Rmult_assoc, Rinv_r, Rmult_1_l by lra.
  rewrite <- mult_IZR. apply IZR_lt.
  rewrite Z.pow_add_r in Hpow by (unfold b; lia).
  assert (2 ^ 1075 * Z.pos p < 2 ^ 1075 * 2 ^ b) by (apply Z.mul_lt_mono_pos_l; [apply Z.pow_pos_nonneg; lia | exact Hpb]).
  lia.
Qed.

(* the conversion is the IEEE-754 rounding of the decimal number, for every
   mantissa and every exponent *)
Theorem f64_of_decimal_total : forall neg p e10,
  let x := dec_real neg p e10 in
  if Rlt_bool (Rabs (rnd64 x)) (bpow radix2 1024) then
    Binary.B2R 53 1024 (f64_of_decimal neg (Npos p) e10) = rnd64 x /\
    Binary.is_finite 53 1024 (f64_of_decimal neg (Npos p) e10) = true
  else f64_of_decimal neg (Npos p) e10 = Binary.B754_infinity 53 1024 neg.
Proof.
  intros neg p e10 x.
  destruct (Z_lt_le_dec e10 310) as [H310|H310].
  - destruct (Z_le_gt_dec (10000 * (Z.log2 (Zpos p) + 1) + 33219 * e10) (-10750000)) as [Hs|Hs].
    + (* below 2^-1075: rounds to zero *)
      pose proof (rnd64_tiny x (dec_real_underflow neg p e10 Hs)) as H0. rewrite H0, Rabs_R0.
      rewrite Rlt_bool_true by apply bpow_gt_0.
      unfold f64_of_decimal. replace (310 <=? e10) with false by (symmetry; apply Z.leb_gt; lia).
      replace (10000 * (Z.log2 (Z.pos p) + 1) + 33219 * e10 <=? -10750000) with true by (symmetry; apply Z.leb_le; lia).
      split; reflexivity.
    + apply f64_of_decimal_correct; lia.
  - (* at least 10^310: overflows *)
    pose proof (rnd64_huge x (dec_real_overflow neg p e10 H310)) as Hh.
    rewrite Rlt_bool_false by exact Hh.
    unfold f64_of_decimal. replace (310 <=? e10) with true by (symmetry; apply Z.leb_le; lia). reflexivity.
Qed.

(* zero mantissa *)
Lemma f64_of_decimal_zero : forall neg e10,
  f64_of_decimal neg N0 e10 = Binary.B754_zero 53 1024 neg.
Proof. reflexivity. Qed.
