(* C19 proofs, part 5: clone_data. *)
From Coq Require Import NArith List Bool Arith Lia.
From GV Require Import Base.Result Model.Optimize Spec.HeapIso Proofs.C19.Base Proofs.C19.StoreLemmas
  Proofs.C19.CloneStack Proofs.C19.CreateStack.
Import ListNotations.

Lemma nth_error_ext_eq : forall (A : Type) (l l' : list A), (forall k, nth_error l k = nth_error l' k) -> l = l'.
Proof.
  induction l as [|x l IH]; intros [|y l'] H.
  - reflexivity.
  - specialize (H 0). discriminate.
  - specialize (H 0). discriminate.
  - pose proof (H 0) as H0. cbn in H0. inversion H0; subst. f_equal. apply IH. intro k. exact (H (S k)).
Qed.

Lemma firstn_eq_of_nth : forall (A : Type) (l l' : list A),
  length l <= length l' -> (forall k, k < length l -> nth_error l' k = nth_error l k) -> firstn (length l) l' = l.
Proof.
  intros A l l' Hlen H. apply nth_error_ext_eq. intro k.
  destruct (Nat.lt_ge_cases k (length l)) as [Hlt|Hge].
  - rewrite nth_error_firstn_lt by exact Hlt. apply H. exact Hlt.
  - rewrite (proj2 (nth_error_None l k)) by exact Hge. apply nth_error_None. rewrite firstn_length. lia.
Qed.

Lemma lview_zero : forall c0 h, lview c0 0 h = h.
Proof. intros c0 h. unfold lview. rewrite Nat.sub_0_r. apply firstn_skipn. Qed.

(* clone_data: the returned address reads as the argument did; every cell below the old cursor is
   untouched, so everything that could be read before reads the same afterwards. *)
Theorem clone_data_correct : forall s a s' a', clone_data s a = Ok (s', a') ->
  (forall t, Reads (cells s) a t -> Reads (cells s') a' t) /\
  firstn (length (cells s)) (cells s') = cells s /\
  (forall b t, Reads (cells s) b t -> Reads (cells s') b t) /\
  same_meta s s'.
Proof.
  intros s a s' a' H. unfold clone_data in H. bind_as H pr. destruct pr as [s1 start].
  apply create_index_stack_spec in E. destruct E as [-> [Hci Htop]].
  pose proof (ext_ci_ext _ _ Hci) as Hext.
  apply (clone_index_stack_spec s1 (length (cells s)) 0 a) in H; auto; try lia.
  - destruct H as [(HB & HM & Hun & Hmp) HG].
    destruct HB as (Hr & Hd & Hlen & Hag & Hm).
    assert (Hag0 : agree (cells s) (cells s')) by (eapply agree_trans; [eapply ext_agree; eauto|exact Hag]).
    split; [|split; [|split]].
    + intros t Ht. specialize (HG t (Reads_agree _ _ _ _ Ht (ext_agree _ _ Hext))).
      rewrite lview_zero in HG. exact HG.
    + apply firstn_eq_of_nth.
      * pose proof (ext_length _ _ Hext). lia.
      * intros k Hk. rewrite Hun by exact Hk. eapply ext_nth_lt; eauto.
    + intros b t Ht. eapply Reads_agree; eauto.
    + eapply same_meta_trans; [destruct Hci; eauto|exact HM].
  - intros idx t _ Ht. rewrite Nat.sub_0_r, firstn_all. exact Ht.
Qed.
