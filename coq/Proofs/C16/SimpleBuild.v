(* C16, SimpleGarnishData end to end: a list built from items i1..in through
   start_list / add_to_list / end_list reports length n, yields ik at index k,
   nothing (not an error) outside, iterates in insertion order, and looking a
   symbol up gives the value of the association keyed by it, or absent. *)
From Coq Require Import NArith ZArith List Bool Arith Lia.
From GV Require Import Base.Result Gen.Instr Model.StoreBase Model.SimpleStore Model.Lists Spec.AssocSpec
  Proofs.C15.ListFacts Proofs.C16.SimpleLookup.
Import ListNotations.

Fixpoint count_nz (l : list nat) : nat :=
  match l with [] => 0 | x :: r => (if x =? 0 then 0 else 1) + count_nz r end.

Lemma exists_zero : forall l, count_nz l < length l -> exists j, nth_error l j = Some 0.
Proof.
  induction l as [|x r IH]; cbn; intro H; [lia|].
  destruct (x =? 0) eqn:E.
  - apply Nat.eqb_eq in E. subst. exists 0. reflexivity.
  - destruct IH as [j Hj]; [lia|]. exists (S j). exact Hj.
Qed.

Lemma count_nz_set : forall l j y l', set_ix l j y = Some l' -> nth_error l j = Some 0 ->
  count_nz l' = count_nz l + (if y =? 0 then 0 else 1).
Proof.
  induction l as [|x r IH]; intros j y l' Hs Hn; [destruct j; discriminate|].
  destruct j as [|j]; cbn in Hs.
  - inversion Hs; subst. cbn in Hn. inversion Hn; subst. cbn. lia.
  - destruct (set_ix r j y) as [r'|] eqn:E; [|discriminate]. inversion Hs; subst. cbn. rewrite (IH j y r' E Hn). lia.
Qed.

Lemma in_set_ix : forall (l : list nat) j y l', set_ix l j y = Some l' -> nth_error l j = Some 0 ->
  forall x, x <> 0 -> (In x l' <-> x = y \/ In x l).
Proof.
  intros l j y l' Hs Hn x Hx. split.
  - intro Hin. apply In_nth_error in Hin. destruct Hin as [i Hi]. rewrite (set_ix_nth _ _ _ _ i Hs) in Hi.
    destruct (i =? j); [inversion Hi; left; reflexivity|right; eapply nth_error_In; exact Hi].
  - intros [->|Hin].
    + apply (nth_error_In l' j). rewrite (set_ix_nth _ _ _ _ j Hs), Nat.eqb_refl. reflexivity.
    + apply In_nth_error in Hin. destruct Hin as [i Hi]. apply (nth_error_In l' i). rewrite (set_ix_nth _ _ _ _ i Hs).
      destruct (i =? j) eqn:E; [|exact Hi]. apply Nat.eqb_eq in E. subst. rewrite Hn in Hi. inversion Hi. congruence.
Qed.

Lemma place_loop_unfold : forall fuel ordered n i count,
  place_loop (S fuel) ordered n i count =
    match nth_error ordered i with
    | None => Panic P_get_index
    | Some v => if v =? 0 then Ok (Done i)
                else if n <? S count then Ok (Fail E_simple)
                else place_loop fuel ordered n (next n i) (S count)
    end.
Proof. reflexivity. Qed.

(* the placement probe finds a free slot if there is one among the positions it visits *)
Lemma place_scan : forall ordered k fuel i count, length ordered = k + count - 1 -> 1 <= k -> k <= fuel -> i < length ordered ->
  (exists j, In j (seq_from (length ordered) i k) /\ nth_error ordered j = Some 0) ->
  exists j, place_loop fuel ordered (length ordered) i count = Ok (Done j) /\ nth_error ordered j = Some 0.
Proof.
  intros ordered k. induction k as [|k IH]; intros fuel i count Hk H1 Hf Hi (j & Hj & Hz); [lia|].
  destruct fuel as [|fuel]; [lia|]. rewrite place_loop_unfold.
  destruct (nth_error ordered i) as [v|] eqn:Ev; [|apply nth_error_None in Ev; lia].
  destruct (v =? 0) eqn:E0.
  - apply Nat.eqb_eq in E0. subst v. exists i. auto.
  - cbn [seq_from] in Hj. destruct Hj as [<-|Hj]; [rewrite Hz in Ev; inversion Ev; subst; discriminate|].
    destruct k as [|k]; [destruct Hj|].
    assert (E : (length ordered <? S count) = false) by (apply Nat.ltb_ge; lia). rewrite E.
    apply IH; try lia; [apply next_lt; exact Hi|]. exists j. auto.
Qed.

Lemma place_all_ok : forall todo ordered n, length ordered = n -> count_nz ordered + length todo <= n ->
  exists ordered', place_all todo n ordered = Ok (Done ordered') /\ length ordered' = n /\
    forall x, x <> 0 -> (In x ordered' <-> In x todo \/ In x ordered).
Proof.
  induction todo as [|item rest IH]; intros ordered n Hlen Hc.
  - exists ordered. split; [reflexivity|]. split; [exact Hlen|]. intros x _. split; [auto|intros [[]|H]; exact H].
  - cbn [place_all length] in *.
    assert (Hn : 0 < n) by lia.
    destruct (exists_zero ordered) as [j0 Hj0]; [lia|].
    assert (Hj0n : j0 < n) by (rewrite <- Hlen; apply nth_error_Some; congruence).
    assert (Hi : item mod n < n) by (apply Nat.mod_upper_bound; lia).
    destruct (place_scan ordered (n + 1) (n + 2) (item mod n) 0) as (j & Hp & Hz); try lia.
    { exists j0. split; [|exact Hj0]. rewrite Hlen. apply seq_from_covers; assumption. }
    rewrite Hlen in Hp. rewrite Hp. cbn [bind].
    assert (Hjn : j < length ordered) by (apply nth_error_Some; congruence).
    destruct (set_ix_some ordered j item Hjn) as [ordered1 Hs]. rewrite Hs.
    destruct (IH ordered1 n) as (ordered' & Hr & Hl' & Hin).
    { rewrite (set_ix_length _ _ _ _ Hs). exact Hlen. }
    { rewrite (count_nz_set _ _ _ _ Hs Hz). destruct (item =? 0); lia. }
    exists ordered'. split; [exact Hr|]. split; [exact Hl'|].
    intros x Hx. rewrite (Hin x Hx), (in_set_ix _ _ _ _ Hs Hz x Hx). cbn [In]. intuition congruence.
Qed.

Lemma count_nz_repeat : forall n, count_nz (repeat 0 n) = 0.
Proof. induction n; cbn; auto. Qed.

Section Build.
Variable h : sdata -> N.

Lemma add_items_simple : forall items s l acc_i acc_a, s_current_list s = Some (acc_i, acc_a) ->
  add_items (simple_ops h) items l s =
    Ok (with_current_list s (Some (acc_i ++ items, acc_a ++ items)), Done l).
Proof.
  induction items as [|a r IH]; intros s l acc_i acc_a H.
  - cbn [add_items sret]. rewrite !app_nil_r. destruct s; cbn in *; subst; reflexivity.
  - cbn [add_items]. unfold sbind. cbn [d_add_to_list simple_ops]. unfold s_add_to_list at 1. rewrite H.
    rewrite (IH _ l (acc_i ++ [a]) (acc_a ++ [a])) by reflexivity. rewrite <- !app_assoc. destruct s; reflexivity.
Qed.

(* the list value end_list stores, and where *)
Theorem simple_build : forall items s,
  exists ordered s',
    build_list (simple_ops h) items s = Ok (s', Done (length (s_data s))) /\
    s_data s' = s_data s ++ [SList items ordered] /\
    length ordered = length items /\
    (forall x, x <> 0 -> (In x ordered <-> In x items)).
Proof.
  intros items s. unfold build_list. cbn [d_start_list d_end_list simple_ops].
  unfold sbind at 1. unfold s_start_list at 1.
  unfold sbind at 1. rewrite (add_items_simple items _ 0 [] []) by reflexivity. cbn [app].
  unfold s_end_list. cbn [s_current_list with_current_list].
  destruct (place_all_ok items (repeat 0 (length items)) (length items)) as (ordered & Hp & Hl & Hin).
  { apply repeat_length. }
  { rewrite count_nz_repeat. lia. }
  rewrite Hp. unfold push_data. cbn [s_data with_current_list].
  exists ordered. eexists. split; [reflexivity|]. cbn [s_data with_data]. split; [reflexivity|]. split; [exact Hl|].
  intros x Hx. rewrite (Hin x Hx). split; [intros [H|H]; [exact H|apply repeat_spec in H; congruence]|auto].
Qed.

(* reading the stored list back *)
Section Read.
Variables (s : simple) (l : nat) (items ordered : list nat).
Hypothesis Hl : nth_error (s_data s) l = Some (SList items ordered).
Hypothesis Hmem : forall x, x <> 0 -> (In x ordered <-> In x items).
Hypothesis Hunit : nth_error (s_data s) 0 = Some SUnit.
Hypothesis Hvalid : forall a, In a items -> svalid s a.

Theorem simple_len : s_get_list_len l s = Ok (length items).
Proof. unfold s_get_list_len, sget_data. rewrite Hl. reflexivity. Qed.

Theorem simple_item : forall z, s_get_list_item l z s =
  Ok (if (z <? 0)%Z then None else nth_error items (Z.to_nat z)).
Proof. intro z. unfold s_get_list_item, sget_data. rewrite Hl. cbn [bind s_as_list fst]. destruct (z <? 0)%Z; reflexivity. Qed.

Theorem simple_item_in_range : forall k a, nth_error items k = Some a -> s_get_list_item l (Z.of_nat k) s = Ok (Some a).
Proof.
  intros k a H. rewrite simple_item. assert (E : (Z.of_nat k <? 0)%Z = false) by (apply Z.ltb_ge; lia).
  rewrite E, Nat2Z.id. f_equal. exact H.
Qed.

Theorem simple_item_outside : forall z, (z < 0 \/ Z.of_nat (length items) <= z)%Z -> s_get_list_item l z s = Ok None.
Proof.
  intros z H. rewrite simple_item. destruct (z <? 0)%Z eqn:E; [reflexivity|]. apply Z.ltb_ge in E.
  f_equal. apply nth_error_None. lia.
Qed.

Theorem simple_iter : s_get_list_item_iter l s = items.
Proof. unfold s_get_list_item_iter. rewrite Hl. reflexivity. Qed.

Lemma sview_zero : sview s 0 = None.
Proof. unfold sview. rewrite Hunit. reflexivity. Qed.

Lemma svalid_zero : svalid s 0.
Proof. unfold svalid. rewrite Hunit. exact I. Qed.

Theorem simple_lookup : forall sym, NoDup (keys_of (map (sview s) items)) ->
  s_get_list_item_with_symbol l sym s = Ok (assoc_lookup sym (map (sview s) items)).
Proof.
  intros sym Hnd.
  assert (Hv : forall a, In a ordered -> svalid s a).
  { intros a Ha. destruct (Nat.eq_dec a 0) as [->|Hne]; [apply svalid_zero|]. apply Hvalid. apply Hmem; assumption. }
  assert (Hsame : forall v, In (Some (sym, v)) (map (sview s) ordered) <-> In (Some (sym, v)) (map (sview s) items)).
  { intro v. rewrite !in_map_iff. split; intros (a & Ha & Hin); exists a; (split; [exact Ha|]);
      (assert (a <> 0) by (intro; subst; rewrite sview_zero in Ha; discriminate)); apply Hmem; assumption. }
  destruct (assoc_lookup sym (map (sview s) items)) as [v|] eqn:El.
  - assert (Hin : In (Some (sym, v)) (map (sview s) items)).
    { clear - El. induction (map (sview s) items) as [|[[k x]|] r IH]; cbn in El; [discriminate| |].
      - destruct (N.eqb k sym) eqn:E; [apply N.eqb_eq in E; inversion El; subst; left; reflexivity|right; auto].
      - right; auto. }
    apply (lookup_present s l items ordered Hl Hv); [apply Hsame; exact Hin|].
    intros v' H'. apply Hsame in H'. eapply nodup_unique; eassumption.
  - apply (lookup_absent s l items ordered Hl Hv). intros v H'. apply Hsame in H'.
    clear - El H'. induction (map (sview s) items) as [|[[k x]|] r IH]; [destruct H'| |].
    + cbn in El. destruct (N.eqb k sym) eqn:E; [discriminate|]. destruct H' as [H|H]; [inversion H; subst; rewrite N.eqb_refl in E; discriminate|auto].
    + cbn in El. destruct H' as [H|H]; [discriminate|auto].
Qed.
End Read.
End Build.
