(* The input classes on which built programs are not stack-balanced (known
   findings C06-K1 .. K4, see /verif/known_findings.json) and the class the
   property itself excludes (a bare `;;`), as decidable predicates on proper
   trees.  tools/codelib.py (tree_classes) is the same classification on the
   real parse tree. *)
From Coq Require Import List Arith Bool NArith.
From GV Require Import Base.Result Gen.TokenTypes Gen.Defs Gen.Instr Model.Parser Model.BuilderWL Model.Compile
  Proofs.C05.Known.
Import ListNotations.

Definition is_cond (t : tree) : bool :=
  match kind_of (t_def t) with KJumpIf _ => true | _ => false end.

(* anywhere in the tree *)
Fixpoint anywhere (f : tree -> bool) (t : tree) : bool :=
  match t with
  | T _ _ l r => f t || opt_b (anywhere f) l || opt_b (anywhere f) r
  end.

(* excluded by the property: a bare expression terminator *)
Definition has_terminator : tree -> bool :=
  anywhere (fun t => definition_eqb (t_def t) D_ExpressionTerminator).

(* C06-K2: a construct that has to leave a value leaves none.
   [valueless t]: the inline code of [t] pushes no operand -- an empty group
   `( )`, a side-effect block that is not attached to an expression `[ x ]`,
   groups and `|>` combinations of those.
   [needs_value]: a valueless subtree stands where exactly one operand is
   required (an operand of an operator, a condition, an arm, a list item, a
   body, the program itself), or a side-effect block has an empty body
   (EndSideEffect pops an operand the body never pushed). *)
Fixpoint valueless (t : tree) : bool :=
  match t with
  | T _ d l r =>
    match kind_of d with
    | KGroup => match r with None => true | Some r' => valueless r' end
    | KSideEffect => match l with None => true | Some a => valueless a end
    | KElse => match l, r with Some a, Some b => valueless a && valueless b | _, _ => false end
    | _ => false
    end
  end.

Definition chain_part (t : tree) : bool :=
  match kind_of (t_def t) with KJumpIf _ | KElse => true | _ => false end.

(* the children of this node that must each leave exactly one operand *)
Definition value_children (t : tree) : list (option tree) :=
  match t with
  | T _ d l r =>
    match kind_of d with
    | KValue _ _ | KGroup | KErr => []
    | KUnary _ child_right => [if child_right then r else l]
    | KFixApply child_right => [if child_right then r else l]
    | KBinary _ _ | KLogical _ | KJumpIf _ | KSubexpr | KInfix => [l; r]
    | KList => [l; r]
    | KSideEffect => [r]
    | KNested => [r]
    | KReapply => [r]
    | KElse => [match l with Some a => if chain_part a then None else l | None => None end;
                match r with Some b => if chain_part b then None else r | None => None end]
    end
  end.

Definition empty_value_node (t : tree) : bool :=
  existsb (opt_b valueless) (value_children t)
  || match t with
     | T _ d _ r => match kind_of d, r with KSideEffect, None => true | _, _ => false end
     end.
Definition has_empty_value (t : tree) : bool := valueless t || anywhere empty_value_node t.

(* the elements of an else-chain in source order (nested `|>` flattened) *)
Fixpoint chain_elems (t : tree) : list tree :=
  match t with
  | T _ d l r =>
    match kind_of d with
    | KElse => (match l with Some a => chain_elems a | None => [] end) ++
               (match r with Some b => chain_elems b | None => [] end)
    | _ => [t]
    end
  end.

(* C06-K1: the last element of an else-chain is a conditional (no final else):
   when no condition holds nothing is pushed.
   C06-K4: an element before the end of an else-chain is not a conditional: its
   value stays on the operand stack under the rest of the chain.
   Both are read at the HEAD of a chain (an ElseJump node that is not itself an
   operand of an ElseJump): a nested ElseJump is a segment of its head's chain. *)
Definition chain_no_else_node (t : tree) : bool :=
  match kind_of (t_def t) with
  | KElse => match rev (chain_elems t) with e :: _ => is_cond e | [] => false end
  | _ => false
  end.
Definition chain_early_else_node (t : tree) : bool :=
  match kind_of (t_def t) with
  | KElse => match rev (chain_elems t) with _ :: before => existsb (fun e => negb (is_cond e)) before | [] => false end
  | _ => false
  end.

(* [f] at every chain head; [under]: the node is an operand of an ElseJump *)
Fixpoint at_heads (f : tree -> bool) (under : bool) (t : tree) : bool :=
  match t with
  | T _ d l r =>
    let here := match kind_of d with KElse => true | _ => false end in
    (negb under && f t) || opt_b (at_heads f here) l || opt_b (at_heads f here) r
  end.
Definition has_chain_no_else : tree -> bool := at_heads chain_no_else_node false.
Definition has_chain_early_else : tree -> bool := at_heads chain_early_else_node false.

(* C06-K3: `^~` where an operand of the enclosing body is still pending (or a
   side effect is open): the body is re-entered with that operand stacked.
   [tail]: nothing is pending where this node's value is produced. *)
Fixpoint reapply_pending (tail : bool) (t : tree) : bool :=
  match t with
  | T _ d l r =>
    match kind_of d with
    | KReapply => negb tail || opt_b (reapply_pending false) l || opt_b (reapply_pending false) r
    | KNested => opt_b (reapply_pending false) l || opt_b (reapply_pending true) r
    | KGroup | KElse | KSubexpr => opt_b (reapply_pending tail) l || opt_b (reapply_pending tail) r
    | KJumpIf _ | KLogical _ => opt_b (reapply_pending false) l || opt_b (reapply_pending tail) r
    | _ => opt_b (reapply_pending false) l || opt_b (reapply_pending false) r
    end
  end.
Definition has_reapply_pending (t : tree) : bool := reapply_pending true t.

Definition Known_C06_K1 (t : tree) : Prop := has_chain_no_else t = true.
Definition Known_C06_K2 (t : tree) : Prop := has_empty_value t = true.
Definition Known_C06_K3 (t : tree) : Prop := has_reapply_pending t = true.
Definition Known_C06_K4 (t : tree) : Prop := has_chain_early_else t = true.
Definition Excluded_C06 (t : tree) : Prop := has_terminator t = true.

Definition c06_known_b (t : tree) : bool :=
  has_chain_no_else t || has_empty_value t || has_reapply_pending t || has_chain_early_else t.
