#!/bin/sh
# thorough tier of every check in the isolated snapshot /tmp/verif_iso_t (ISO_TAG=_t tools/iso_setup.sh first)
cd /tmp/verif_iso_t
for p in ${THOROUGH_IDS:-C01 C02 C03 C04 C05 C06 C07 C08 C09 C10 C11 C12 C13 C14 C15 C16 C17 C18 C19 C20}; do
  t0=$(date +%s)
  out=$(VERIF_TIER=thorough timeout 7200 python3 tools/vp.py check $p 2>&1 | grep -E "^(OK|VIOLATION)" | cut -c1-200)
  echo "$p $(( $(date +%s) - t0 ))s $out" >> /verif/build/sweeps/thorough_iso.log
  if echo "$out" | grep -q VIOLATION; then
    f=$(echo "$out" | sed 's/.*replay=\([^ ]*\).*/\1/'); cp "$f" /verif/build/sweeps/thorviol_${p}.json 2>/dev/null
  fi
done
echo done >> /verif/build/sweeps/thorough_iso.log
