(* optimize driver (C19): reads the output lines of harness/src/bin/optimize.rs
     <case>\t<records joined by " ## ">\t<oracle>
   and, for every record that carries a raw pre-state ("O | .." / "C | .."), runs the
   extracted model (Model/Optimize.v) on that state and prints
     res=<..> | post=<raw> | spre=<snapshot> | spost=<snapshot>
   in the harness's own syntax (snapshots are computed with Spec/HeapIso.v's reader).
   Output: <case>\t<model records joined by " ## ">\t<spec verdict: ok | FAIL:<what> | ->  *)

let rec nat_of_int (i : int) : nat = if i <= 0 then O else S (nat_of_int (i - 1))
let nat_of_int i =
  (* tail recursive for large sizes *)
  let rec go acc k = if k <= 0 then acc else go (S acc) (k - 1) in go O i
let rec int_of_nat_acc acc (n : nat) : int = match n with O -> acc | S m -> int_of_nat_acc (acc + 1) m
let int_of_nat n = int_of_nat_acc 0 n

let nat_s s =
  let v = int_of_string s in
  if v > 5_000_000 then failwith ("number too large for the unary model: " ^ s) else nat_of_int v
let opt_nat s = if s = "-" then None else Some (nat_s s)
let show_opt = function None -> "-" | Some n -> string_of_int (int_of_nat n)

let starts_with p s = String.length s >= String.length p && String.sub s 0 (String.length p) = p
let drop k s = String.sub s k (String.length s - k)

(* split on a multi-character separator *)
let split_str (sep : string) (s : string) : string list =
  let n = String.length sep and len = String.length s in
  let rec go start i acc =
    if i + n > len then List.rev (String.sub s start (len - start) :: acc)
    else if String.sub s i n = sep then go (i + n) (i + n) (String.sub s start (i - start) :: acc)
    else go start (i + 1) acc in
  go 0 0 []

(* ------------------------------------------------------------------ numbers *)
let parse_numrep (s : string) : numrep =
  match s.[0] with
  | 'i' -> NInt (z_of_hex (drop 1 s))
  | 'f' -> NFloat (n_of_hex (drop 1 s))
  | _ -> failwith ("bad num " ^ s)

let pad16 s = String.make (max 0 (16 - String.length s)) '0' ^ s
let show_numrep = function
  | NInt v -> "i" ^ hex_of_z v
  | NFloat b -> "f" ^ pad16 (hex_of_n b)

(* ------------------------------------------------------------------ cells *)
let two s = match split_on '.' s with [a; b] -> (nat_s a, nat_s b) | _ -> failwith ("two " ^ s)

let parse_cell (s : string) : cell =
  if s = "U" then CUnit else if s = "T" then CTrue else if s = "F" then CFalse
  else if s = "_" then CEmpty else if s = "Cu" then CCustom else if s = "FR" then CFrameRoot
  else if s.[0] = 'N' then CNumber (parse_numrep (drop 1 s))
  else
    let k = String.sub s 0 2 and r = drop 2 s in
    match k with
    | "Ty" -> CType (n_of_int (int_of_string r))
    | "Ch" -> CChar (n_of_hex r)
    | "By" -> CByte (n_of_hex r)
    | "Sy" -> CSymbol (n_of_hex r)
    | "SL" -> CSymbolList (nat_s r)
    | "Ex" -> CExpression (nat_s r)
    | "Xt" -> CExternal (nat_s r)
    | "CL" -> CCharList (nat_s r)
    | "BL" -> CByteList (nat_s r)
    | "Pr" -> let (a, b) = two r in CPair (a, b)
    | "Rg" -> let (a, b) = two r in CRange (a, b)
    | "Sc" -> let (a, b) = two r in CSlice (a, b)
    | "Pa" -> let (a, b) = two r in CPartial (a, b)
    | "Li" -> let (a, b) = two r in CList (a, b)
    | "Cc" -> let (a, b) = two r in CConcat (a, b)
    | "UL" -> let (a, b) = two r in CUninitList (a, b)
    | "It" -> CListItem (nat_s r)
    | "As" -> (match split_on '.' r with [sy; a] -> CAssocItem (n_of_hex sy, nat_s a) | _ -> failwith "As")
    | "Va" -> let (a, b) = two r in CValue (a, b)
    | "VR" -> CValueRoot (nat_s r)
    | "Re" -> let (a, b) = two r in CRegister (a, b)
    | "RR" -> CRegisterRoot (nat_s r)
    | "ID" -> (match split_on '.' r with [i; d] -> CInstrData (n_of_int (int_of_string i), nat_s d) | _ -> failwith "ID")
    | "In" -> CInstr (n_of_int (int_of_string r))
    | "JP" -> CJumpPoint (nat_s r)
    | "Fr" -> let (a, b) = two r in CFrame (a, b)
    | "FI" -> CFrameIndex (nat_s r)
    | "FG" -> CFrameRegister (nat_s r)
    | "CI" -> CCloneItem (nat_s r)
    | "CM" -> let (a, b) = two r in CCloneMap (a, b)
    | _ -> failwith ("bad cell " ^ s)

let i n = string_of_int (int_of_nat n)
let show_cell (c : cell) : string =
  match c with
  | CUnit -> "U" | CTrue -> "T" | CFalse -> "F"
  | CType t -> "Ty" ^ string_of_int (int_of_n t)
  | CNumber n -> "N" ^ show_numrep n
  | CChar c -> "Ch" ^ hex_of_n c
  | CByte b -> "By" ^ hex_of_n b
  | CSymbol s -> "Sy" ^ hex_of_n s
  | CSymbolList n -> "SL" ^ i n
  | CExpression e -> "Ex" ^ i e
  | CExternal e -> "Xt" ^ i e
  | CCharList n -> "CL" ^ i n
  | CByteList n -> "BL" ^ i n
  | CPair (a, b) -> "Pr" ^ i a ^ "." ^ i b
  | CRange (a, b) -> "Rg" ^ i a ^ "." ^ i b
  | CSlice (a, b) -> "Sc" ^ i a ^ "." ^ i b
  | CPartial (a, b) -> "Pa" ^ i a ^ "." ^ i b
  | CList (a, b) -> "Li" ^ i a ^ "." ^ i b
  | CConcat (a, b) -> "Cc" ^ i a ^ "." ^ i b
  | CCustom -> "Cu"
  | CEmpty -> "_"
  | CUninitList (a, b) -> "UL" ^ i a ^ "." ^ i b
  | CListItem a -> "It" ^ i a
  | CAssocItem (s, a) -> "As" ^ hex_of_n s ^ "." ^ i a
  | CValue (a, b) -> "Va" ^ i a ^ "." ^ i b
  | CValueRoot a -> "VR" ^ i a
  | CRegister (a, b) -> "Re" ^ i a ^ "." ^ i b
  | CRegisterRoot a -> "RR" ^ i a
  | CInstrData (k, d) -> "ID" ^ string_of_int (int_of_n k) ^ "." ^ i d
  | CInstr k -> "In" ^ string_of_int (int_of_n k)
  | CJumpPoint a -> "JP" ^ i a
  | CFrame (a, b) -> "Fr" ^ i a ^ "." ^ i b
  | CFrameIndex a -> "FI" ^ i a
  | CFrameRegister a -> "FG" ^ i a
  | CFrameRoot -> "FR"
  | CCloneItem a -> "CI" ^ i a
  | CCloneMap (a, b) -> "CM" ^ i a ^ "." ^ i b

(* ------------------------------------------------------------------ raw states *)
let inner s = String.sub s 1 (String.length s - 2)   (* strip [ ] *)

let parse_cfg (c : string) : realloc * nat option =
  match split_on ':' c with
  | [st; mx] ->
    let n = nat_s (drop 1 st) in
    ((if st.[0] = 'M' then Mult n else Fixed n), (if mx = "-" then None else Some (nat_s mx)))
  | _ -> failwith ("cfg " ^ c)

let parse_raw (s : string) : store * string =
  let fields = List.map (fun p -> match String.index_opt p '=' with
      | Some k -> (String.sub p 0 k, drop (k + 1) p) | None -> failwith ("raw field " ^ p)) (split_on ';' s) in
  let f k = List.assoc k fields in
  let st = Array.of_list (split_on ':' (f "st")) in
  let cfg = f "cfg" in
  let (strat, mx) = parse_cfg cfg in
  let d = inner (f "d") in
  let cells = if d = "" then [] else List.map parse_cell (split_on ',' d) in
  let sy = inner (f "sy") in
  let symtab = if sy = "" then [] else
      List.map (fun e -> match split_on '.' e with [a; b] -> (n_of_hex a, nat_s b) | _ -> failwith ("sy " ^ e)) (split_on ',' sy) in
  ({ cells = cells; dsize = nat_s st.(2); dstart = nat_s st.(0); strat = strat; maxitems = mx;
     retention = nat_s st.(3); cur_value = opt_nat st.(4); cur_register = opt_nat st.(5); cur_frame = opt_nat st.(6);
     symtab = symtab }, cfg)

let show_raw (s : store) (cfg : string) : string =
  Printf.sprintf "st=%s:%s:%s:%s:%s:%s:%s:0:0;cfg=%s;sy=[%s];d=[%s]"
    (i s.dstart) (i (cursor s)) (i s.dsize) (i s.retention) (show_opt s.cur_value) (show_opt s.cur_register)
    (show_opt s.cur_frame) cfg
    (String.concat "," (List.map (fun (a, b) -> hex_of_n a ^ "." ^ i b) s.symtab))
    (String.concat "," (List.map show_cell s.cells))

(* ------------------------------------------------------------------ trees in the harness's syntax *)
let dotted l = if l = [] then "-" else String.concat "." l

let rec show_tree (t : tree) : string =
  match t with
  | TNode (CUnit, []) -> "U" | TNode (CTrue, []) -> "T" | TNode (CFalse, []) -> "F"
  | TNode (CType k, []) -> "Ty" ^ string_of_int (int_of_n k)
  | TNode (CNumber n, []) -> "N" ^ show_numrep n
  | TNode (CChar c, []) -> "Ch" ^ hex_of_n c
  | TNode (CByte b, []) -> "By" ^ hex_of_n b
  | TNode (CSymbol s, []) -> "Sy" ^ hex_of_n s
  | TNode (CExpression e, []) -> "Ex" ^ i e
  | TNode (CExternal e, []) -> "Xt" ^ i e
  | TNode (CCustom, []) -> "Cu"
  | TNode (CCharList _, l) ->
    "Cl(" ^ dotted (List.map (function TNode (CChar c, []) -> hex_of_n c | _ -> "err") l) ^ ")"
  | TNode (CByteList _, l) ->
    "Bl(" ^ dotted (List.map (function TNode (CByte c, []) -> hex_of_n c | _ -> "err") l) ^ ")"
  | TNode (CSymbolList _, l) ->
    "Sl(" ^ dotted (List.map (function TNode (CSymbol s, []) -> "s" ^ hex_of_n s
                                     | TNode (CNumber n, []) -> "n" ^ show_numrep n | _ -> "err") l) ^ ")"
  | TNode (CPair _, [a; b]) -> "P(" ^ show_tree a ^ "," ^ show_tree b ^ ")"
  | TNode (CConcat _, [a; b]) -> "K(" ^ show_tree a ^ "," ^ show_tree b ^ ")"
  | TNode (CRange _, [a; b]) -> "R(" ^ show_tree a ^ "," ^ show_tree b ^ ")"
  | TNode (CSlice _, [a; b]) -> "Z(" ^ show_tree a ^ "," ^ show_tree b ^ ")"
  | TNode (CPartial _, [a; b]) -> "A(" ^ show_tree a ^ "," ^ show_tree b ^ ")"
  | TNode (CList (len, _), slots) ->
    let n = int_of_nat len in
    let items = List.filteri (fun k _ -> k < n) slots in
    let its = List.map (function TNode (CListItem _, [x]) -> x | _ -> TNode (CEmpty, [])) items in
    let keys = List.fold_left (fun acc x -> match x with
        | TNode (CPair _, [TNode (CSymbol s, []); _]) -> if List.mem s acc then acc else acc @ [s]
        | _ -> acc) [] its in
    let entries = assoc_entries t in
    let ks = List.map (fun s ->
        hex_of_n s ^ ">" ^ (match assoc_search entries s with
            | Some (Some x) -> show_tree x | Some None -> "none" | None -> "err")) keys in
    "L(" ^ String.concat "," (List.map show_tree its) ^ "^" ^ String.concat "," ks ^ ")"
  | _ -> "Inv"

(* The spec reader unfolds sharing; on blocks with deep sharing or (malformed) cycles that is exponential.
   [tree_cost] is the size of the unfolding (capped), computed with memoisation; beyond the cap the
   driver prints "?" and the comparison is skipped for that entry (the harness prints "~" there). *)
let cost_cap = 20000
let tree_cost (cells : cell array) (a : int) : int =
  let n = Array.length cells in
  let memo : (int, int) Hashtbl.t = Hashtbl.create 64 in
  let kids_of k =
    match cells.(k) with
    | CPair (l, r) | CRange (l, r) | CSlice (l, r) | CPartial (l, r) | CConcat (l, r)
    | CValue (l, r) | CRegister (l, r) | CFrame (l, r) -> [int_of_nat l; int_of_nat r]
    | CValueRoot v | CRegisterRoot v | CFrameIndex v | CFrameRegister v | CInstrData (_, v) -> [int_of_nat v]
    | CList (len, _) | CUninitList (len, _) ->
      let m = int_of_nat len * 2 in
      let out = ref [] in
      for j = k + 1 to min (n - 1) (k + m) do
        (match cells.(j) with
         | CListItem x | CAssocItem (_, x) -> out := int_of_nat x :: !out
         | _ -> ())
      done; !out
    | _ -> [] in
  let rec go k =
    if k < 0 || k >= n then 1 else
      match Hashtbl.find_opt memo k with
      | Some (-1) -> cost_cap
      | Some c -> c
      | None ->
        Hashtbl.replace memo k (-1);
        let c = List.fold_left (fun acc x -> if acc >= cost_cap then acc else min cost_cap (acc + go x)) 1 (kids_of k) in
        Hashtbl.replace memo k c; c in
  go a

let safe_read (s : store) (a : nat) : tree option =
  let arr = Array.of_list s.cells in
  if tree_cost arr (int_of_nat a) >= cost_cap then None else read_any s.cells a

let tree_at (s : store) (a : nat) : string =
  if int_of_nat a >= int_of_nat (cursor s) then "Err"
  else match safe_read s a with Some t -> show_tree t | None -> "?"

let head_tree (s : store) (h : nat option) : tree option =
  match h with None -> None | Some a -> safe_read s a

let show_regs (l : tree list) = "R[" ^ String.concat ";" (List.map show_tree l) ^ "]"

let snapshot (s : store) (syms : n list) (keep : (string * nat) list) : string =
  let unreadable h = (match h with Some _ -> true | None -> false) in
  let r = match head_tree s s.cur_register with
    | Some t -> show_regs (regs_of t) | None -> if unreadable s.cur_register then "R[?]" else "R[]" in
  let v = match head_tree s s.cur_value with
    | Some t -> "V[" ^ String.concat ";" (List.map show_tree (vals_of t)) ^ "]"
    | None -> if unreadable s.cur_value then "V[?]" else "V[]" in
  let f = match head_tree s s.cur_frame with
    | Some t -> "F[" ^ String.concat ";" (List.map (fun (j, rs) -> i j ^ ":" ^ show_regs rs) (frames_of t)) ^ "]"
    | None -> if unreadable s.cur_frame then "F[?]" else "F[]" in
  let y = "Y[" ^ String.concat ";" (List.map (fun sy ->
      hex_of_n sy ^ "=" ^ (match symbol_index s sy with
          | None -> "err" | Some None -> "none"
          | Some (Some idx) ->
            (match safe_read s idx with
             | Some (TNode (CCharList _, l)) ->
               dotted (List.map (function TNode (CChar c, []) -> hex_of_n c | _ -> "err") l)
             | _ -> "?"))) syms) ^ "]" in
  let k = "K[" ^ String.concat ";" (List.map (fun (l, a) -> l ^ "@" ^ i a ^ ":" ^ tree_at s a) keep) ^ "]" in
  String.concat " " [r; v; f; y; k]

(* labels and addresses of the K[...] part of a harness snapshot *)
let keep_of_snapshot (snap : string) : (string * nat) list =
  match split_str " K[" snap with
  | [_; k] ->
    let k = String.sub k 0 (String.length k - 1) in
    if k = "" then [] else
      List.filter_map (fun e ->
          match String.index_opt e '@', String.index_opt e ':' with
          | Some a, Some c when a < c -> Some (String.sub e 0 a, nat_s (String.sub e (a + 1) (c - a - 1)))
          | _ -> None) (split_on ';' k)
  | _ -> []

let err_name (c : n) : string =
  match int_of_n c with
  | 1 -> "InvalidIndex" | 2 -> "NotBasic" | 3 -> "CloneLimit" | 4 -> "NoMapped" | 5 -> "CannotClone"
  | 6 -> "UninitNonItem" | 7 -> "NotAssoc" | 8 -> "MaxItems" | k -> "E" ^ string_of_int k

let fields_of_record (rec_ : string) : (string * string) list =
  List.filter_map (fun p -> match String.index_opt p '=' with
      | Some k -> Some (String.trim (String.sub p 0 k), drop (k + 1) p) | None -> None) (split_str " | " rec_)

let run_record (rec_ : string) : string option =
  let kind = if starts_with "O | " rec_ then "O" else if starts_with "C | " rec_ then "C" else "" in
  if kind = "" then None else begin
    let f = fields_of_record rec_ in
    let (s, cfg) = parse_raw (List.assoc "pre" f) in
    let syms = let y = List.assoc "ys" f in if y = "-" then [] else List.map n_of_hex (split_on '.' y) in
    let keep_h = keep_of_snapshot (List.assoc "spre" f) in
    let fixed = List.filter (fun (l, _) -> l.[0] = 's' || l = "A") keep_h in
    if kind = "O" then begin
      let roots = let r = List.assoc "roots" f in if r = "-" then [] else List.map nat_s (split_on '.' r) in
      let xs l = List.mapi (fun k a -> ("x" ^ string_of_int k, a)) l in
      let keep_pre = List.filter (fun (l, _) -> l.[0] = 's') fixed @ xs roots in
      let spre = snapshot s syms keep_pre in
      match optimize s roots with
      | Ok (s', m) ->
        let keep_post = List.filter (fun (l, _) -> l.[0] = 's') fixed @ xs m in
        Some (Printf.sprintf "res=Ok:%s | post=%s | spre=%s | spost=%s" (dotted (List.map i m)) (show_raw s' cfg) spre
                (snapshot s' syms keep_post))
      | Err c -> Some (Printf.sprintf "res=Err:%s | post=- | spre=%s | spost=-" (err_name c) spre)
      | Panic _ -> Some (Printf.sprintf "res=PANIC | post=- | spre=%s | spost=-" spre)
      | OutOfFuel -> Some (Printf.sprintf "res=FUEL | post=- | spre=%s | spost=-" spre)
    end else begin
      let arg = nat_s (List.assoc "arg" f) in
      let spre = snapshot s syms fixed in
      match clone_data s arg with
      | Ok (s', a) ->
        Some (Printf.sprintf "res=Ok:%s | post=%s | spre=%s | spost=%s" (i a) (show_raw s' cfg) spre
                (snapshot s' syms (fixed @ [("B", a)])))
      | Err c -> Some (Printf.sprintf "res=Err:%s | post=- | spre=%s | spost=-" (err_name c) spre)
      | Panic _ -> Some (Printf.sprintf "res=PANIC | post=- | spre=%s | spost=-" spre)
      | OutOfFuel -> Some (Printf.sprintf "res=FUEL | post=- | spre=%s | spost=-" spre)
    end
  end

(* spec verdict of a model record: the read-back is unchanged (same check the Python oracle applies to
   the implementation's records, here on the model's own output) *)
let verdict (m : string) : string =
  let f = fields_of_record m in
  let res = List.assoc "res" f in
  if not (starts_with "Ok" res) then "-" else begin
    let spre = List.assoc "spre" f and spost = List.assoc "spost" f in
    let strip snap = (* drop addresses and the B entry from K *)
      let parts = split_str " K[" snap in
      match parts with
      | [h; k] ->
        let k = String.sub k 0 (String.length k - 1) in
        let es = if k = "" then [] else split_on ';' k in
        let es = List.filter (fun e -> not (starts_with "B@" e)) es in
        let es = List.map (fun e -> match String.index_opt e '@', String.index_opt e ':' with
            | Some a, Some c when a < c -> String.sub e 0 a ^ drop c e | _ -> e) es in
        h ^ " K[" ^ String.concat ";" es ^ "]"
      | _ -> snap in
    if strip spre = strip spost then "ok" else "FAIL"
  end

let () =
  iter_lines (fun line ->
    match split_on '\t' line with
    | case :: result :: _ ->
      let recs = split_str " ## " result in
      let outs = List.filter_map (fun r ->
          try run_record r with e -> Some ("res=DRIVERERROR:" ^ Printexc.to_string e ^ " | post=- | spre=- | spost=-")) recs in
      let vs = List.map verdict outs in
      let v = if List.mem "FAIL" vs then "FAIL" else if List.mem "ok" vs then "ok" else "-" in
      Printf.printf "%s\t%s\t%s\n" case (if outs = [] then "NOREC" else String.concat " ## " outs) v
    | _ -> failwith ("bad line " ^ line))
