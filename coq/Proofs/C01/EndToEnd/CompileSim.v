(* (d) The tree compiler (Model/Compile.v) on the parser's tree of a printed AST
   produces the code of the AST compiler (Model/CompileExpr.v): same inline
   code, same out-of-line bodies in the same layout, same jump table.
   By induction on the AST.  The statement for a sub-expression at a state s:
   its inline code is appended to s; the jump entries it allocates are appended
   as a segment in which the entries of its pending bodies are still
   placeholders; running its pending bodies later, wherever the out-of-line
   block of this sub-expression is placed, appends exactly the block the AST
   compiler computes for that position and patches the segment to the AST
   compiler's entries ([bodies_ok]). *)
From Coq Require Import ZArith NArith List Bool Arith Lia.
From GV Require Import Base.Result Base.Host Gen.TokenTypes Gen.Defs Gen.Instr Model.Num Model.Value
  Model.Parser Model.BuilderWL Model.Machine Model.Compile Model.CompileExpr Model.CompileWL
  Spec.RefTable Spec.Pratt Spec.Chains Spec.Ast Spec.Printer Spec.Eval Spec.Fragment
  Proofs.C02.Denote Proofs.C05.InlBase Proofs.Builder.PrattBridge Proofs.C01.Sizes Proofs.C01.SimDone
  Proofs.C01.EndToEnd.PrintItems Proofs.C01.EndToEnd.PrintClimb Proofs.C01.EndToEnd.CompileBase.
Import ListNotations.

(* ---- which builder kind a head operator has ---- *)
Lemma kind_lit l : kind_of (stored_def (ELit l)) = Compile.KValue I_Put true.
Proof. destruct l; reflexivity. Qed.
Lemma kind_value : kind_of (stored_def EValue) = Compile.KValue I_PutValue false.
Proof. reflexivity. Qed.
Lemma kind_ident n : kind_of (stored_def (EIdent n)) = Compile.KValue I_Resolve true.
Proof. reflexivity. Qed.
Lemma kind_un o x : kind_of (hdef (EUn o x)) = Compile.KUnary (unop_instr o) (is_prefix o).
Proof. destruct o; reflexivity. Qed.
Lemma kind_bin o l r : kind_of (hdef (EBin o l r)) = Compile.KBinary (binop_instr o) (right_first o).
Proof. destruct o; reflexivity. Qed.

Definition kdef (k : list_kind) : definition := match k with Space => D_List | Comma => D_CommaList end.
Lemma hdef_list k l r : hdef (EList k l r) = kdef k.
Proof. destruct k; reflexivity. Qed.
Lemma kind_list k : kind_of (kdef k) = Compile.KList.
Proof. destruct k; reflexivity. Qed.

(* ---- one node of the tree compiler, by kind ---- *)
Section Steps.
Variable rj : nat.
Notation inl := (Compile.inl empty_init lit_all rj).

Lemma inl_atom ix d i wd cx s : kind_of d = Compile.KValue i wd ->
  inl (Compile.T ix d None None) cx s = Ok (sx s [(i, if wd then OData ix else ONone)] [Some ix] [], [], []).
Proof.
  intros Hk. cbn [Compile.inl]. rewrite Hk. unfold seq2, ret. cbn [bind]. unfold lit_all. rewrite andb_false_r.
  rewrite emit_s. reflexivity.
Qed.

Lemma inl_pre ix d i a cx s s1 p1 i1 : kind_of d = Compile.KUnary i true ->
  inl a (Compile.plain (cx_containing cx)) s = Ok (s1, p1, i1) ->
  inl (Compile.T ix d None (Some a)) cx s = Ok (emit s1 (i, ONone) (Some ix), p1, i1).
Proof.
  intros Hk H. cbn [Compile.inl]. rewrite Hk. unfold seq2, ret. rewrite H. cbn [bind]. rewrite !app_nil_r. reflexivity.
Qed.

Lemma inl_suf ix d i a cx s s1 p1 i1 : kind_of d = Compile.KUnary i false ->
  inl a (Compile.plain (cx_containing cx)) s = Ok (s1, p1, i1) ->
  inl (Compile.T ix d (Some a) None) cx s = Ok (emit s1 (i, ONone) (Some ix), p1, i1).
Proof.
  intros Hk H. cbn [Compile.inl]. rewrite Hk. unfold seq2, ret. rewrite H. cbn [bind]. rewrite !app_nil_r. reflexivity.
Qed.

Lemma inl_group ix a cx s :
  inl (Compile.T ix D_Group None (Some a)) cx s = inl a (Compile.plain (cx_containing cx)) s.
Proof. reflexivity. Qed.

(* first and second operand in emission order *)
Lemma inl_binary ix d i rf l r cx s s1 p1 i1 s2 p2 i2 : kind_of d = Compile.KBinary i rf ->
  inl (if rf then r else l) (Compile.plain (cx_containing cx)) s = Ok (s1, p1, i1) ->
  inl (if rf then l else r) (Compile.plain (cx_containing cx)) s1 = Ok (s2, p2, i2) ->
  inl (Compile.T ix d (Some l) (Some r)) cx s = Ok (emit s2 (i, ONone) (Some ix), p1 ++ p2, i1 ++ i2).
Proof.
  intros Hk H1 H2. cbn [Compile.inl]. rewrite Hk. cbn [present andb negb]. unfold seq2, ret.
  destruct rf; rewrite H1; cbn [bind]; cbv beta iota; rewrite H2; cbn [bind]; cbv beta iota; rewrite !app_nil_r; reflexivity.
Qed.

Lemma inl_list ix d l r cx s s1 p1 i1 s2 p2 i2 : kind_of d = Compile.KList ->
  let cx' := mkCx (cx_containing cx) (Some d) false in
  inl l cx' s = Ok (s1, p1, i1) -> inl r cx' s1 = Ok (s2, p2, i2) ->
  inl (Compile.T ix d (Some l) (Some r)) cx s =
  Ok (if match cx_list cx with Some d' => definition_eqb d' d | None => false end then s2
      else emit s2 (I_MakeList, ONum (list_count (Compile.T ix d (Some l) (Some r)))) (Some ix), p1 ++ p2, i1 ++ i2).
Proof.
  intros Hk cx' H1 H2. cbn [Compile.inl]. rewrite Hk. unfold seq2, ret. fold cx'. rewrite H1. cbn [bind]. cbv beta iota. rewrite H2. cbn [bind]. cbv beta iota.
  destruct (match cx_list cx with Some d' => definition_eqb d' d | None => false end); cbn [bind]; cbv beta iota; rewrite !app_nil_r; reflexivity.
Qed.

Lemma inl_logical ix d i l rt cx s s1 p1 i1 : kind_of d = Compile.KLogical i ->
  inl l (mkCx (cx_containing cx) None true) s = Ok (s1, p1, i1) ->
  inl (Compile.T ix d (Some l) (Some rt)) cx s =
  Ok (sx s1 [(i, ONum (jl0 s1))] [Some ix] [0; il0 s1 + 1],
      p1 ++ [mkP rt (cx_containing cx) (jl0 s1) [(I_Tis, ONone); (I_JumpTo, ONum (jl0 s1 + 1))]], []).
Proof.
  intros Hk H. cbn [Compile.inl]. rewrite Hk. unfold seq2, drop_items. rewrite H. cbn [bind]. cbv beta iota zeta.
  cbn [bind]. cbv beta iota.
  unfold new_jump, emit, sx, jl0, il0, jl, il. cbn [Compile.ci Compile.cm Compile.cj i_instr_len i_jump_len empty_init Nat.add].
  rewrite !app_length. cbn [length]. rewrite <- !app_assoc. cbn [app].
  replace (length (Compile.cj s1) + 1) with (S (length (Compile.cj s1))) by lia.
  replace (length (Compile.ci s1) + 1) with (S (length (Compile.ci s1))) by lia.
  replace (length (Compile.cj s1) + 0) with (length (Compile.cj s1)) by lia.
  reflexivity.
Qed.

Definition arms (cc jt : nat) (its : list (tree * nat)) : list pend :=
  map (fun it => mkP (fst it) cc (snd it) [(I_JumpTo, ONum jt)]) its.

Lemma inl_jumpif_plain ix d i l rt cx s s1 p1 i1 : kind_of d = Compile.KJumpIf i -> cx_cond cx = false ->
  inl l (Compile.plain (cx_containing cx)) s = Ok (s1, p1, i1) ->
  inl (Compile.T ix d (Some l) (Some rt)) cx s =
  Ok (sx s1 [(i, ONum (jl0 s1)); (I_PutValue, ONone)] [Some ix; None] [0; il0 s1 + 2],
      p1 ++ [mkP rt (cx_containing cx) (jl0 s1) [(I_JumpTo, ONum (jl0 s1 + 1))]], i1 ++ []).
Proof.
  intros Hk Hc H. cbn [Compile.inl]. rewrite Hk. unfold seq2. rewrite H. cbn [bind]. cbv beta iota zeta. rewrite Hc.
  cbn [bind]. cbv beta iota.
  unfold new_jump, emit, sx, jl0, il0, jl, il. cbn [Compile.ci Compile.cm Compile.cj i_instr_len i_jump_len empty_init Nat.add].
  rewrite !app_length. cbn [length]. rewrite <- !app_assoc. cbn [app].
  replace (length (Compile.cj s1) + 1) with (S (length (Compile.cj s1))) by lia.
  replace (length (Compile.ci s1) + 2) with (S (S (length (Compile.ci s1)))) by lia.
  replace (length (Compile.ci s1) + 1 + 1) with (S (S (length (Compile.ci s1)))) by lia.
  reflexivity.
Qed.

Lemma inl_jumpif_cond ix d i l rt cx s s1 p1 i1 : kind_of d = Compile.KJumpIf i -> cx_cond cx = true ->
  inl l (Compile.plain (cx_containing cx)) s = Ok (s1, p1, i1) ->
  inl (Compile.T ix d (Some l) (Some rt)) cx s =
  Ok (sx s1 [(i, ONum (jl0 s1))] [Some ix] [0], p1 ++ [], i1 ++ [(rt, jl0 s1)]).
Proof.
  intros Hk Hc H. cbn [Compile.inl]. rewrite Hk. unfold seq2. rewrite H. cbn [bind]. cbv beta iota zeta. rewrite Hc.
  cbn [bind]. cbv beta iota.
  unfold new_jump, emit, sx, jl0, il0, jl, il. cbn [Compile.ci Compile.cm Compile.cj i_instr_len i_jump_len empty_init Nat.add].
  reflexivity.
Qed.

Lemma inl_else ix d l r cx s s1 p1 i1 s2 p2 i2 : kind_of d = Compile.KElse ->
  inl l (mkCx (cx_containing cx) None true) s = Ok (s1, p1, i1) ->
  inl r (mkCx (cx_containing cx) None true) s1 = Ok (s2, p2, i2) ->
  inl (Compile.T ix d (Some l) (Some r)) cx s =
  if cx_cond cx then Ok (s2, p1 ++ p2, i1 ++ i2)
  else match i1 ++ i2 with
       | [] => Ok (s2, p1 ++ p2, [])
       | _ => Ok (sx s2 [] [] [il0 s2], (p1 ++ p2) ++ arms (cx_containing cx) (jl0 s2) (i1 ++ i2), [])
       end.
Proof.
  intros Hk H1 H2. cbn [Compile.inl]. rewrite Hk. cbn [present andb negb]. unfold seq2. rewrite H1. cbn [bind]. cbv beta iota.
  rewrite H2. cbn [bind]. cbv beta iota. destruct (cx_cond cx); [reflexivity|].
  destruct (i1 ++ i2); [reflexivity|]. rewrite new_jump_s. reflexivity.
Qed.

Lemma inl_subexpr ix d l r cx s s1 p1 i1 s2 p2 i2 : kind_of d = Compile.KSubexpr ->
  inl l (Compile.plain (cx_containing cx)) s = Ok (s1, p1, i1) ->
  inl r (Compile.plain (cx_containing cx)) (emit s1 (I_UpdateValue, ONone) (Some ix)) = Ok (s2, p2, i2) ->
  inl (Compile.T ix d (Some l) (Some r)) cx s = Ok (s2, p1 ++ p2, i1 ++ i2).
Proof.
  intros Hk H1 H2. cbn [Compile.inl]. rewrite Hk. cbn [present andb negb]. unfold seq2.
  rewrite H1. cbn [bind]. cbv beta iota. rewrite H2. cbn [bind]. reflexivity.
Qed.

Lemma inl_reapply ix a cx s s1 p1 i1 :
  inl a (Compile.plain (cx_containing cx)) s = Ok (s1, p1, i1) ->
  inl (Compile.T ix D_Reapply None (Some a)) cx s =
  Ok (emit (emit s1 (I_UpdateValue, ONone) (Some ix)) (I_JumpTo, ONum (cx_containing cx)) (Some ix), p1, i1).
Proof.
  intros H. cbn [Compile.inl kind_of]. unfold seq2, ret. rewrite H. cbn [bind]. cbv beta iota zeta. rewrite !app_nil_r. reflexivity.
Qed.

Lemma inl_nested ix rt cx s :
  inl (Compile.T ix D_NestedExpression None (Some rt)) cx s =
  Ok (sx s [(I_Put, OExpr (jl0 s))] [Some ix] [0], [mkP rt (jl0 s) (jl0 s) default_end], []).
Proof.
  cbn [Compile.inl kind_of]. rewrite new_jump_s, emit_sx. reflexivity.
Qed.

End Steps.

(* no inline instruction of the fragment is EndExpression *)
Definition ne (mi : minstr) : Prop := fst mi <> I_EndExpression.

Lemma no_end_inl sym_hash lvl : forall e, efrag lvl e = true ->
  forall ic cont lk pc j aob ajb ob jb jj, Forall ne (c_inl (compC sym_hash ic cont lk e pc j aob ajb ob jb jj)).
Proof.
  induction e; intros F ic cont lk pc j aob ajb ob jb jj; try discriminate F; cbn [efrag] in F;
    repeat (apply andb_true_iff in F; let G := fresh "G" in destruct F as [F G]); cbn [compC].
  - constructor; [cbn; discriminate|constructor].
  - constructor; [cbn; discriminate|constructor].
  - constructor; [cbn; discriminate|constructor].
  - cbn [of_frag to_frag c_inl f_inl]. apply Forall_app. split; [apply IHe; exact F|].
    constructor; [destruct o; cbn; discriminate|constructor].
  - destruct (right_first o); cbn [of_frag to_frag c_inl f_inl]; repeat (apply Forall_app; split);
      try (apply IHe1; assumption); try (apply IHe2; assumption);
      (constructor; [destruct o; cbn; discriminate|constructor]).
  - cbn [of_frag to_frag c_inl f_inl]. apply Forall_app. split; [apply IHe1; assumption|].
    constructor; [cbn; discriminate|constructor].
  - cbn [of_frag to_frag c_inl f_inl]. apply Forall_app. split; [apply IHe1; assumption|].
    constructor; [cbn; discriminate|constructor].
  - cbn [of_frag to_frag c_inl f_inl]. repeat (apply Forall_app; split);
      try (apply IHe1; assumption); try (apply IHe2; assumption).
    destruct (in_list lk k); [constructor|]. constructor; [cbn; discriminate|constructor].
  - cbn [of_frag to_frag c_inl f_inl]. apply IHe; assumption.
  - destruct ic; cbn [of_frag to_frag c_inl f_inl]; (apply Forall_app; split; [apply IHe1; assumption|]).
    + constructor; [destruct neg; cbn; discriminate|constructor].
    + constructor; [destruct neg; cbn; discriminate|]. constructor; [cbn; discriminate|constructor].
  - destruct ic; cbn [of_frag to_frag c_inl f_inl]; (apply Forall_app; split; [apply IHe1; assumption|apply IHe2; assumption]).
  - cbn [of_frag to_frag c_inl f_inl]. apply Forall_app. split; [apply IHe1; assumption|].
    apply Forall_app. split; [constructor; [cbn; discriminate|constructor]|apply IHe2; assumption].
  - cbn [of_frag to_frag c_inl f_inl]. constructor; [cbn; discriminate|constructor].
  - cbn [of_frag to_frag c_inl f_inl]. apply Forall_app. split; [apply IHe; assumption|].
    constructor; [cbn; discriminate|]. constructor; [cbn; discriminate|constructor].
Qed.

Section Sim.
Variable sym_hash : list N -> N.
Variable toks : list atok.
Variable ns : list pnode.
Variable c : nat.     (* the containing expression's jump index (0 for a program without nested expressions) *)

Notation conv := (convert sym_hash toks ns).
Notation bodies_ok := (bodies_ok sym_hash toks ns).

(* the printed tokens of e stand at position off of the program's token list *)
Definition at_off (off : nat) (e : expr) : Prop :=
  exists pre post, toks = pre ++ aprint e ++ post /\ length pre = off.

Definition dn (t : ntree) : Prop := exists p, denotes ns p t.

Lemma at_off_pre off o x : is_prefix o = true -> at_off off (EUn o x) -> at_off (off + 2) x.
Proof.
  intros Ho (pre & post & E & L). cbn [aprint] in E. rewrite Ho in E.
  exists (pre ++ [aop (unop_tt o); aws]), post. split; [rewrite E; repeat rewrite <- app_assoc; cbn [app]; repeat rewrite <- app_assoc; reflexivity|rewrite app_length; cbn [length]; lia].
Qed.
Lemma at_off_suf off o x : is_prefix o = false -> at_off off (EUn o x) -> at_off off x.
Proof.
  intros Ho (pre & post & E & L). cbn [aprint] in E. rewrite Ho in E.
  exists pre, ([aws; aop (unop_tt o)] ++ post). split; [rewrite E; repeat rewrite <- app_assoc; cbn [app]; repeat rewrite <- app_assoc; reflexivity|exact L].
Qed.
Lemma at_off_group off x : at_off off (EGroup x) -> at_off (off + 1) x.
Proof.
  intros (pre & post & E & L). cbn [aprint] in E.
  exists (pre ++ [aop TT_StartGroup]), ([aop TT_EndGroup] ++ post).
  split; [rewrite E; repeat rewrite <- app_assoc; cbn [app]; repeat rewrite <- app_assoc; reflexivity|rewrite app_length; cbn [length]; lia].
Qed.
Lemma at_off_space off l r : at_off off (EList Space l r) -> at_off off l /\ at_off (off + ntoks l + 1) r.
Proof.
  intros (pre & post & E & L). cbn [aprint] in E. split.
  - exists pre, ([aws] ++ aprint r ++ post). split; [rewrite E; repeat rewrite <- app_assoc; cbn [app]; repeat rewrite <- app_assoc; reflexivity|exact L].
  - exists (pre ++ aprint l ++ [aws]), post. split; [rewrite E; repeat rewrite <- app_assoc; cbn [app]; repeat rewrite <- app_assoc; reflexivity|].
    rewrite !app_length. cbn [length]. unfold ntoks. lia.
Qed.
Lemma aprint_binary e t l r : as_binary e = Some (Some t, l, r) ->
  aprint e = aprint l ++ [aws; aop t; aws] ++ aprint r.
Proof.
  intros H. destruct e; try discriminate H; cbn [as_binary] in H;
    try (destruct k; try discriminate H); try (destruct s; try discriminate H); injection H as <- <- <-; reflexivity.
Qed.
Lemma at_off_binary off e t l r : as_binary e = Some (Some t, l, r) -> at_off off e ->
  at_off off l /\ at_off (off + ntoks l + 3) r.
Proof.
  intros Hb (pre & post & E & L). rewrite (aprint_binary _ _ _ _ Hb) in E. split.
  - exists pre, ([aws; aop t; aws] ++ aprint r ++ post). split; [rewrite E; repeat rewrite <- app_assoc; cbn [app]; repeat rewrite <- app_assoc; reflexivity|exact L].
  - exists (pre ++ aprint l ++ [aws; aop t; aws]), post. split; [rewrite E; repeat rewrite <- app_assoc; cbn [app]; repeat rewrite <- app_assoc; reflexivity|].
    rewrite !app_length. cbn [length]. unfold ntoks. lia.
Qed.

Lemma at_off_nth off e x : aprint e = [x] -> at_off off e -> nth_error toks off = Some x.
Proof.
  intros Ha (pre & post & E & L). rewrite E, Ha, nth_error_app2 by lia. rewrite L, Nat.sub_diag. reflexivity.
Qed.

(* ---- the statement for one sub-expression ---- *)
Definition chainy (e : expr) : bool := is_cond e || is_else e.

Definition inl_at (e : expr) (t : ntree) (lk : option list_kind) (cond : bool) (rj : nat) (s : cst) (ob jb : nat) : Prop :=
  let F := comp sym_hash c lk e (il0 s) (jl0 s) ob jb in
  exists code ms ji0 ps,
    Compile.inl empty_init lit_all rj (img t) (mkCx c (option_map kdef lk) cond) s = Ok (sx s code ms ji0, ps, []) /\
    conv code = Ok (f_inl F) /\ length ji0 = length (f_ji F) /\
    bodies_ok (Ast.size e) ps (jl0 s) ji0 (f_ji F) ob jb (f_ool F) (f_jo F).

Definition inl_spec (e : expr) (t : ntree) : Prop :=
  forall rj lk cond s ob jb, (chainy e = true -> cond = false) -> inl_at e t lk cond rj s ob jb.

(* sizes of what a successful instance produced *)
Lemma inl_at_sizes e lk s ob jb code ms ji0 :
  conv code = Ok (f_inl (comp sym_hash c lk e (il0 s) (jl0 s) ob jb)) ->
  length ji0 = length (f_ji (comp sym_hash c lk e (il0 s) (jl0 s) ob jb)) ->
  il0 (sx s code ms ji0) = il0 s + si (sizes lk e) /\ jl0 (sx s code ms ji0) = jl0 s + sji (sizes lk e).
Proof.
  intros Hc Hj. rewrite il0_sx, jl0_sx, <- (conv_length _ _ _ _ _ Hc), Hj.
  destruct (comp_sizes sym_hash e c lk (il0 s) (jl0 s) ob jb) as (A & _ & C & _). rewrite A, C. split; reflexivity.
Qed.

(* ---- atoms ---- *)
Lemma atom_operand off e i d p l x :
  aprint e = [(x, Some l)] -> at_off off e -> denotes ns p (NAtom i d off) ->
  operand_value sym_hash toks ns i = Ok (lit_val sym_hash l).
Proof.
  intros Ha Hat (n & Hn & An). unfold operand_value. rewrite Hn.
  destruct An as (_ & _ & _ & _ & _ & _ & Htok). rewrite Htok, (at_off_nth _ _ _ Ha Hat). reflexivity.
Qed.

Lemma case_lit l t off : rep (ELit l) off t -> dn t -> at_off off (ELit l) -> inl_spec (ELit l) t.
Proof.
  intros R (p & D) Hat rj lk cond s ob jb _. destruct t as [i d k| | | |]; try contradiction. destruct R as [-> ->].
  eexists _, _, [], []. cbn [img]. rewrite (inl_atom rj i _ _ _ _ s (kind_lit l)).
  split; [reflexivity|]. split; [|split; [reflexivity|apply bodies_nil]].
  cbn [convert andb bind]. rewrite (atom_operand off (ELit l) i _ p l (lit_tok l) eq_refl Hat D). reflexivity.
Qed.

Lemma case_value t off : rep EValue off t -> inl_spec EValue t.
Proof.
  intros R rj lk cond s ob jb _. destruct t as [i d k| | | |]; try contradiction. destruct R as [-> ->].
  eexists _, _, [], []. cbn [img]. rewrite (inl_atom rj i _ _ _ _ s kind_value).
  split; [reflexivity|]. split; [reflexivity|split; [reflexivity|apply bodies_nil]].
Qed.

Lemma case_ident name t off : rep (EIdent name) off t -> dn t -> at_off off (EIdent name) -> inl_spec (EIdent name) t.
Proof.
  intros R (p & D) Hat rj lk cond s ob jb _. destruct t as [i d k| | | |]; try contradiction. destruct R as [-> ->].
  eexists _, _, [], []. cbn [img]. rewrite (inl_atom rj i _ _ _ _ s (kind_ident name)).
  split; [reflexivity|]. split; [|split; [reflexivity|apply bodies_nil]].
  cbn [convert andb bind]. rewrite (atom_operand off (EIdent name) i _ p (LProp name) (TT_Identifier, name) eq_refl Hat D). reflexivity.
Qed.

(* ---- unfolding the AST compiler, construct by construct ---- *)
Notation comp := (comp sym_hash).

Lemma comp_un cont lk o x pc j ob jb :
  comp cont lk (EUn o x) pc j ob jb =
  let f := comp cont None x pc j ob jb in mkFrag (f_inl f ++ [ins (unop_instr o)]) (f_ool f) (f_ji f) (f_jo f).
Proof. reflexivity. Qed.

Lemma comp_group cont lk x pc j ob jb :
  comp cont lk (EGroup x) pc j ob jb =
  let f := comp cont None x pc j ob jb in mkFrag (f_inl f) (f_ool f) (f_ji f) (f_jo f).
Proof. reflexivity. Qed.

Lemma comp_bin cont lk o l r pc j ob jb :
  comp cont lk (EBin o l r) pc j ob jb =
  let a := sizes None l in let b := sizes None r in
  if right_first o then
    let fr := comp cont None r pc j (ob + so a) (jb + sjo a) in
    let fl := comp cont None l (pc + si b) (j + sji b) ob jb in
    mkFrag (f_inl fr ++ f_inl fl ++ [ins (binop_instr o)]) (f_ool fl ++ f_ool fr) (f_ji fr ++ f_ji fl) (f_jo fl ++ f_jo fr)
  else
    let fl := comp cont None l pc j (ob + so b) (jb + sjo b) in
    let fr := comp cont None r (pc + si a) (j + sji a) ob jb in
    mkFrag (f_inl fl ++ f_inl fr ++ [ins (binop_instr o)]) (f_ool fr ++ f_ool fl) (f_ji fl ++ f_ji fr) (f_jo fr ++ f_jo fl).
Proof. unfold CompileExpr.comp. cbn [compC]. destruct (right_first o); reflexivity. Qed.

Lemma comp_list cont lk k l r pc j ob jb :
  comp cont lk (EList k l r) pc j ob jb =
  let a := sizes (Some k) l in let b := sizes (Some k) r in
  let fl := comp cont (Some k) l pc j (ob + so b) (jb + sjo b) in
  let fr := comp cont (Some k) r (pc + si a) (j + sji a) ob jb in
  mkFrag (f_inl fl ++ f_inl fr ++ (if in_list lk k then [] else [insn I_MakeList (leaves k (EList k l r))]))
         (f_ool fr ++ f_ool fl) (f_ji fl ++ f_ji fr) (f_jo fr ++ f_jo fl).
Proof. reflexivity. Qed.

(* ---- two operands compiled one after the other ---- *)
Lemma seq_two ex tx ey ty lkc rj s ob jb :
  inl_spec ex tx -> inl_spec ey ty ->
  let X := comp c lkc ex (il0 s) (jl0 s) (ob + so (sizes lkc ey)) (jb + sjo (sizes lkc ey)) in
  let Y := comp c lkc ey (il0 s + si (sizes lkc ex)) (jl0 s + sji (sizes lkc ex)) ob jb in
  exists code ms ji0 s1 p1 p2,
    Compile.inl empty_init lit_all rj (img tx) (mkCx c (option_map kdef lkc) false) s = Ok (s1, p1, []) /\
    Compile.inl empty_init lit_all rj (img ty) (mkCx c (option_map kdef lkc) false) s1 = Ok (sx s code ms ji0, p2, []) /\
    conv code = Ok (f_inl X ++ f_inl Y) /\ length ji0 = length (f_ji X ++ f_ji Y) /\
    bodies_ok (Nat.max (Ast.size ex) (Ast.size ey)) (p1 ++ p2) (jl0 s) ji0 (f_ji X ++ f_ji Y) ob jb
              (f_ool Y ++ f_ool X) (f_jo Y ++ f_jo X).
Proof.
  intros Hx Hy X Y.
  destruct (Hx rj lkc false s (ob + so (sizes lkc ey)) (jb + sjo (sizes lkc ey)) (fun _ => eq_refl))
    as (c1 & m1 & j1 & p1 & I1 & C1 & L1 & B1). fold X in C1, L1, B1.
  destruct (inl_at_sizes ex lkc s _ _ c1 m1 j1 C1 L1) as [Ei Ej].
  destruct (Hy rj lkc false (sx s c1 m1 j1) ob jb (fun _ => eq_refl)) as (c2 & m2 & j2 & p2 & I2 & C2 & L2 & B2).
  rewrite Ei, Ej in C2, L2, B2. fold Y in C2, L2, B2.
  exists (c1 ++ c2), (m1 ++ m2), (j1 ++ j2), (sx s c1 m1 j1), p1, p2.
  split; [exact I1|]. split; [rewrite I2, sx_sx; reflexivity|]. split; [apply conv_app; assumption|].
  split; [rewrite !app_length; lia|].
  destruct (comp_sizes sym_hash ey c lkc (il0 s + si (sizes lkc ex)) (jl0 s + sji (sizes lkc ex)) ob jb) as (_ & So & _ & Sjo).
  fold Y in So, Sjo.
  apply bodies_app; [exact L1|exact L2| |].
  - rewrite So, Sjo. eapply bodies_weaken; [|exact B1]. lia.
  - assert (Hj1 : length j1 = sji (sizes lkc ex)) by (rewrite jl0_sx in Ej; lia).
    rewrite Hj1. eapply bodies_weaken; [|exact B2]. lia.
Qed.

(* ---- prefix and suffix operators ---- *)
Lemma step_un o x i k a : inl_spec x a ->
  inl_spec (EUn o x) (if is_prefix o then NPre i (hdef (EUn o x)) k a else NSuf i (hdef (EUn o x)) k a).
Proof.
  intros Hx rj lk cond s ob jb _.
  destruct (Hx rj None false s ob jb (fun _ => eq_refl)) as (c1 & m1 & j1 & p1 & I1 & C1 & L1 & B1).
  exists (c1 ++ [(unop_instr o, ONone)]), (m1 ++ [Some i]), j1, p1. rewrite comp_un. cbn [f_inl f_ool f_ji f_jo].
  split; [|split; [apply conv_app; [exact C1|reflexivity]|split; [exact L1|]]].
  - pose proof (kind_un o x) as Hk. destruct (is_prefix o); cbn [img].
    + rewrite (inl_pre rj i _ _ _ (mkCx c (option_map kdef lk) cond) s _ _ _ Hk I1), emit_sx. reflexivity.
    + rewrite (inl_suf rj i _ _ _ (mkCx c (option_map kdef lk) cond) s _ _ _ Hk I1), emit_sx. reflexivity.
  - eapply bodies_weaken; [|exact B1]. cbn [Ast.size]. lia.
Qed.

Lemma step_group x i k a : inl_spec x a -> inl_spec (EGroup x) (NGroup BRound i k a).
Proof.
  intros Hx rj lk cond s ob jb _.
  destruct (Hx rj None false s ob jb (fun _ => eq_refl)) as (c1 & m1 & j1 & p1 & I1 & C1 & L1 & B1).
  exists c1, m1, j1, p1. rewrite comp_group. cbn [f_inl f_ool f_ji f_jo img].
  split; [rewrite inl_group; exact I1|]. split; [exact C1|]. split; [exact L1|].
  eapply bodies_weaken; [|exact B1]. cbn [Ast.size]. lia.
Qed.

(* ---- sequences ---- *)
Lemma comp_seq cont lk sp l r pc j ob jb :
  comp cont lk (ESeq sp l r) pc j ob jb =
  let a := sizes None l in let b := sizes None r in
  let fl := comp cont None l pc j (ob + so b) (jb + sjo b) in
  let fr := comp cont None r (pc + si a + 1) (j + sji a) ob jb in
  mkFrag (f_inl fl ++ [ins I_UpdateValue] ++ f_inl fr) (f_ool fr ++ f_ool fl) (f_ji fl ++ f_ji fr) (f_jo fr ++ f_jo fl).
Proof. reflexivity. Qed.

Lemma step_seq l r i k tl tr : inl_spec l tl -> inl_spec r tr ->
  inl_spec (ESeq Semi l r) (NBin i (hdef (ESeq Semi l r)) k tl tr).
Proof.
  intros Hl Hr rj lk cond s ob jb _. unfold inl_at. rewrite comp_seq.
  set (a := sizes None l). set (b := sizes None r). cbv zeta.
  destruct (Hl rj None false s (ob + so b) (jb + sjo b) (fun _ => eq_refl)) as (c1 & m1 & j1 & p1 & I1 & C1 & L1 & B1).
  destruct (inl_at_sizes l None s _ _ c1 m1 j1 C1 L1) as [Ei Ej]. fold a in Ei, Ej.
  set (s1 := sx s (c1 ++ [(I_UpdateValue, ONone)]) (m1 ++ [Some i]) j1).
  assert (Ei1 : il0 s1 = il0 s + si a + 1).
  { unfold s1. rewrite il0_sx, app_length. rewrite il0_sx in Ei. cbn [length]. lia. }
  assert (Ej1 : jl0 s1 = jl0 s + sji a).
  { unfold s1. rewrite jl0_sx. rewrite jl0_sx in Ej. exact Ej. }
  destruct (Hr rj None false s1 ob jb (fun _ => eq_refl)) as (c2 & m2 & j2 & p2 & I2 & C2 & L2 & B2).
  rewrite Ei1, Ej1 in C2, L2, B2.
  set (Fl := comp c None l (il0 s) (jl0 s) (ob + so b) (jb + sjo b)) in *.
  set (Fr := comp c None r (il0 s + si a + 1) (jl0 s + sji a) ob jb) in *.
  exists (c1 ++ [(I_UpdateValue, ONone)] ++ c2), (m1 ++ [Some i] ++ m2), (j1 ++ j2), (p1 ++ p2).
  cbn [f_inl f_ool f_ji f_jo img].
  split; [|split; [|split]].
  - change (hdef (ESeq Semi l r)) with D_ExpressionSeparator.
    assert (I2' : Compile.inl empty_init lit_all rj (img tr) (Compile.plain c)
                    (emit (sx s c1 m1 j1) (I_UpdateValue, ONone) (Some i)) = Ok (sx s1 c2 m2 j2, p2, []))
      by (rewrite emit_sx; exact I2).
    rewrite (inl_subexpr rj i D_ExpressionSeparator (img tl) (img tr) (mkCx c (option_map kdef lk) cond) s _ _ _ _ _ _ eq_refl I1 I2').
    unfold s1. rewrite sx_sx, <- !app_assoc. reflexivity.
  - apply conv_app; [exact C1|]. apply conv_app; [reflexivity|exact C2].
  - rewrite !app_length. lia.
  - destruct (comp_sizes sym_hash r c None (il0 s + si a + 1) (jl0 s + sji a) ob jb) as (_ & So & _ & Sjo). fold Fr b in So, Sjo.
    apply bodies_app; [exact L1|exact L2| |].
    + rewrite So, Sjo. eapply bodies_weaken; [|exact B1]. cbn [Ast.size]. lia.
    + assert (Hj1 : length j1 = sji a) by (rewrite jl0_sx in Ej; lia). rewrite Hj1.
      eapply bodies_weaken; [|exact B2]. cbn [Ast.size]. lia.
Qed.

(* ---- re-apply ---- *)
Lemma comp_reapply cont lk x pc j ob jb :
  comp cont lk (EReapply x) pc j ob jb =
  let f := comp cont None x pc j ob jb in
  mkFrag (f_inl f ++ [ins I_UpdateValue; insn I_JumpTo cont]) (f_ool f) (f_ji f) (f_jo f).
Proof. reflexivity. Qed.

Lemma step_reapply x i k a : inl_spec x a -> inl_spec (EReapply x) (NPre i (hdef (EReapply x)) k a).
Proof.
  intros Hx rj lk cond s ob jb _.
  destruct (Hx rj None false s ob jb (fun _ => eq_refl)) as (c1 & m1 & j1 & p1 & I1 & C1 & L1 & B1).
  exists (c1 ++ [(I_UpdateValue, ONone); (I_JumpTo, ONum c)]), (m1 ++ [Some i; Some i]), j1, p1.
  rewrite comp_reapply. cbn [f_inl f_ool f_ji f_jo img].
  split; [|split; [apply conv_app; [exact C1|reflexivity]|split; [exact L1|]]].
  - change (hdef (EReapply x)) with D_Reapply.
    rewrite (inl_reapply rj i _ (mkCx c (option_map kdef lk) cond) s _ _ _ I1), !emit_sx, <- !app_assoc. reflexivity.
  - eapply bodies_weaken; [|exact B1]. cbn [Ast.size]. lia.
Qed.

(* ---- binary operators ---- *)
Lemma step_bin o l r i k tl tr : inl_spec l tl -> inl_spec r tr ->
  inl_spec (EBin o l r) (NBin i (hdef (EBin o l r)) k tl tr).
Proof.
  intros Hl Hr rj lk cond s ob jb _. pose proof (kind_bin o l r) as Hk. unfold inl_at. rewrite comp_bin.
  destruct (right_first o) eqn:Hrf.
  - destruct (seq_two r tr l tl None rj s ob jb Hr Hl) as (code & ms & ji0 & s1 & p1 & p2 & I1 & I2 & Cv & Ln & Bo).
    exists (code ++ [(binop_instr o, ONone)]), (ms ++ [Some i]), ji0, (p1 ++ p2). cbn [f_inl f_ool f_ji f_jo img].
    split; [|split; [rewrite app_assoc; apply conv_app; [exact Cv|reflexivity]|split; [exact Ln|]]].
    + rewrite (inl_binary rj i _ _ true _ _ (mkCx c (option_map kdef lk) cond) s _ _ _ _ _ _ Hk I1 I2), emit_sx. reflexivity.
    + eapply bodies_weaken; [|exact Bo]. cbn [Ast.size]. lia.
  - destruct (seq_two l tl r tr None rj s ob jb Hl Hr) as (code & ms & ji0 & s1 & p1 & p2 & I1 & I2 & Cv & Ln & Bo).
    exists (code ++ [(binop_instr o, ONone)]), (ms ++ [Some i]), ji0, (p1 ++ p2). cbn [f_inl f_ool f_ji f_jo img].
    split; [|split; [rewrite app_assoc; apply conv_app; [exact Cv|reflexivity]|split; [exact Ln|]]].
    + rewrite (inl_binary rj i _ _ false _ _ (mkCx c (option_map kdef lk) cond) s _ _ _ _ _ _ Hk I1 I2), emit_sx. reflexivity.
    + eapply bodies_weaken; [|exact Bo]. cbn [Ast.size]. lia.
Qed.

(* ---- lists ---- *)
Lemma same_in_list lk k :
  match option_map kdef lk with Some d' => definition_eqb d' (kdef k) | None => false end = in_list lk k.
Proof. destruct lk as [[|]|]; destruct k; reflexivity. Qed.

(* the root definition of the tree of e *)
Definition root_def (e : expr) : definition :=
  match e with
  | ELit _ | EValue | EIdent _ => stored_def e
  | EGroup _ => D_Group
  | _ => hdef e
  end.

Lemma rep_root e off t : rep e off t -> t_def (img t) = root_def e.
Proof.
  destruct e; cbn [rep root_def]; try contradiction.
  - destruct t; try contradiction. intros [-> _]. reflexivity.
  - destruct t; try contradiction. intros [-> _]. reflexivity.
  - destruct t; try contradiction. intros [-> _]. reflexivity.
  - destruct (is_prefix o); destruct t; try contradiction; intros [-> _]; reflexivity.
  - destruct t; try contradiction. intros [-> _]. reflexivity.
  - destruct t; try contradiction. intros [-> _]. reflexivity.
  - destruct t; try contradiction. intros [-> _]. reflexivity.
  - destruct k; destruct t; try contradiction; intros [-> _]; reflexivity.
  - destruct t as [| | | |b ? ? ?]; try contradiction. destruct b; try contradiction. intros _. reflexivity.
  - destruct t; try contradiction. intros [-> _]. reflexivity.
  - destruct t; try contradiction. intros [-> _]. reflexivity.
  - destruct s; destruct t; try contradiction; intros [-> _]; reflexivity.
  - destruct t as [| | | |b ? ? ?]; try contradiction. destruct b; try contradiction. intros _. reflexivity.
  - destruct t; try contradiction. intros [-> _]. reflexivity.
Qed.

Lemma root_def_list kk e : match e with EList _ _ _ => False | _ => True end ->
  definition_eqb (root_def e) (kdef kk) = false.
Proof.
  destruct e; intros H; try contradiction; cbn [root_def]; destruct kk.
  all: try reflexivity.
  all: try (destruct l; reflexivity).
  all: try (destruct o; reflexivity).
  all: try (destruct neg; reflexivity).
  all: try (destruct s; reflexivity).
Qed.

Lemma count_leaves kk : forall e off t, rep e off t -> count_items (kdef kk) (img t) = leaves kk e.
Proof.
  induction e; intros off t R.
  all: try (pose proof (rep_root _ _ _ R) as Hd; destruct (img t) as [ix d tl tr] eqn:Ei; cbn [t_def] in Hd; subst d;
            cbn [count_items leaves]; rewrite root_def_list by exact I; reflexivity).
  (* a list *)
  cbn [leaves]. destruct k; cbn [rep] in R; destruct t as [| | |i d ko tl tr|]; try contradiction;
    destruct R as (-> & _ & Rl & Rr); cbn [img count_items]; destruct kk; cbn [kdef same_kind] in *;
    match goal with |- context [definition_eqb ?a ?b] =>
      let v := eval vm_compute in (definition_eqb a b) in change (definition_eqb a b) with v end;
    cbv iota; try reflexivity; rewrite (IHe1 _ _ Rl), (IHe2 _ _ Rr); reflexivity.
Qed.

Lemma step_list kk l r i k tl tr off offr : rep l off tl -> rep r offr tr ->
  inl_spec l tl -> inl_spec r tr ->
  inl_spec (EList kk l r) (NBin i (kdef kk) k tl tr).
Proof.
  intros Rl Rr Hl Hr rj lk cond s ob jb _. pose proof (kind_list kk) as Hk. unfold inl_at. rewrite comp_list.
  destruct (seq_two l tl r tr (Some kk) rj s ob jb Hl Hr) as (code & ms & ji0 & s1 & p1 & p2 & I1 & I2 & Cv & Ln & Bo).
  cbn [f_inl f_ool f_ji f_jo img].
  pose proof (inl_list rj i (kdef kk) (img tl) (img tr) (mkCx c (option_map kdef lk) cond) s _ _ _ _ _ _ Hk I1 I2) as HI.
  cbn [cx_list] in HI. rewrite same_in_list in HI.
  assert (Hcount : list_count (Compile.T i (kdef kk) (Some (img tl)) (Some (img tr))) = leaves kk (EList kk l r)).
  { cbn [list_count leaves]. rewrite (count_leaves kk _ _ _ Rl), (count_leaves kk _ _ _ Rr).
    destruct kk; reflexivity. }
  rewrite Hcount in HI. destruct (in_list lk kk).
  - exists code, ms, ji0, (p1 ++ p2). rewrite app_nil_r.
    split; [exact HI|]. split; [exact Cv|]. split; [exact Ln|]. eapply bodies_weaken; [|exact Bo]. cbn [Ast.size]. lia.
  - exists (code ++ [(I_MakeList, ONum (leaves kk (EList kk l r)))]), (ms ++ [Some i]), ji0, (p1 ++ p2).
    split; [rewrite HI, emit_sx; reflexivity|]. split; [rewrite app_assoc; apply conv_app; [exact Cv|reflexivity]|].
    split; [exact Ln|]. eapply bodies_weaken; [|exact Bo]. cbn [Ast.size]. lia.
Qed.

(* ---- the closing EndExpression of a body is emitted after code that does not end in one ---- *)
Lemma conv_fst : forall a x, conv a = Ok x -> map fst x = map fst a.
Proof.
  induction a as [|[i o] a IH]; intros x Ha.
  - injection Ha as <-. reflexivity.
  - cbn [convert] in Ha. destruct (match o with ONone => Ok MNone | ONum n => Ok (MNum n)
      | OData ni => do v <- operand_value sym_hash toks ns ni; Ok (MVal v) | OExpr j => Ok (MVal (VExpr (N.of_nat j))) end) as [m| | |];
      try discriminate Ha. cbn [bind] in Ha.
    destruct (conv a) as [r| | |]; try discriminate Ha. cbn [bind] in Ha. injection Ha as <-.
    cbn [map fst]. rewrite (IH r eq_refl). reflexivity.
Qed.

Lemma finish_end s code ms js mcode :
  conv code = Ok mcode -> Forall ne mcode -> code <> [] ->
  Compile.finish empty_init (sx s code ms js) default_end = sx s (code ++ [(I_EndExpression, ONone)]) (ms ++ [None]) js.
Proof.
  intros Hc Hn Hne. unfold Compile.finish, default_end. cbn [fold_left].
  assert (Hlast : exists li, last_instr empty_init (sx s code ms js) = Some li /\ instruction_eqb (fst li) I_EndExpression = false).
  { unfold last_instr, sx. cbn [Compile.ci]. rewrite rev_app_distr.
    destruct (rev code) as [|li r] eqn:Er.
    - exfalso. apply Hne. rewrite <- (rev_involutive code), Er. reflexivity.
    - exists li. split; [reflexivity|].
      assert (Hin : In li code) by (apply in_rev; rewrite Er; left; reflexivity).
      assert (Hf : In (fst li) (map fst mcode)) by (rewrite (conv_fst _ _ Hc); apply in_map; exact Hin).
      apply in_map_iff in Hf. destruct Hf as (mi & E & Hmi). rewrite Forall_forall in Hn. specialize (Hn mi Hmi).
      unfold ne in Hn. rewrite E in Hn. destruct (fst li); try reflexivity. contradiction. }
  destruct Hlast as (li & -> & Hl). unfold instr_eqb. cbn [fst]. rewrite Hl. cbn [andb]. rewrite emit_sx. reflexivity.
Qed.

(* ---- one out-of-line body ---- *)
Lemma body_one eb tb pj ends mends ob jb x :
  inl_spec eb tb -> (no_end ends \/ (ends = default_end /\ efrag LV eb = true)) -> conv ends = Ok mends ->
  let Fb := comp c None eb ob jb (ob + si (sizes None eb) + length ends) (jb + sji (sizes None eb)) in
  bodies_ok (S (Ast.size eb)) [mkP (img tb) c pj ends] pj [x] [ob] ob jb
            (f_inl Fb ++ mends ++ f_ool Fb) (f_ji Fb ++ f_jo Fb).
Proof.
  intros Hb Hne Hce Fb fuel s2 pre mid Hf Hc Hp Hi Hj.
  destruct fuel as [|f]; [lia|]. rewrite run_all_one, run_body_unfold. cbn [p_jump p_tree p_containing p_end].
  cbn [app] in Hc. rewrite <- Hp, (patch_mid _ _ _ _ _ Hc). cbn [bind].
  set (s1 := mkC (cci s2) (ccm s2) (pre ++ il0 s2 :: mid)).
  assert (Ei : il0 s1 = ob) by exact Hi.
  assert (Ej : jl0 s1 = jb).
  { unfold s1, jl0, jl. cbn. unfold jl0, jl in Hj. cbn in Hj. rewrite Hc in Hj. rewrite !app_length in *. cbn [length] in *. lia. }
  destruct (Hb (length pre) None false s1 (ob + si (sizes None eb) + length ends) (jb + sji (sizes None eb)) (fun _ => eq_refl))
    as (cb & mb & jb0 & psb & Ib & Cb & Lb & Bb).
  rewrite Ei, Ej in Cb, Lb, Bb. fold Fb in Cb, Lb, Bb.
  change (Compile.plain c) with (mkCx c (option_map kdef None) false). rewrite Ib. cbn [bind]. cbv beta iota.
  destruct (comp_sizes sym_hash eb c None ob jb (ob + si (sizes None eb) + length ends) (jb + sji (sizes None eb))) as (Si & _ & Sj & _).
  fold Fb in Si, Sj.
  assert (Hfin : Compile.finish empty_init (sx s1 cb mb jb0) ends = sx (sx s1 cb mb jb0) ends (map (fun _ => None) ends) []).
  { destruct Hne as [Hne|[-> Hfr]]; [apply finish_no_end; exact Hne|].
    rewrite (finish_end s1 cb mb jb0 _ Cb), sx_sx, app_nil_r; [reflexivity| |].
    - unfold Fb, CompileExpr.comp. cbn [to_frag f_inl]. eapply no_end_inl; exact Hfr.
    - intros ->. pose proof (conv_length _ _ _ _ _ Cb) as Hl0. rewrite Si in Hl0. pose proof (si_pos None eb). cbn [length] in Hl0. lia. }
  rewrite Hfin, sx_sx.
  set (s3 := sx s1 (cb ++ ends) (mb ++ map (fun _ => None) ends) (jb0 ++ [])).
  destruct (Bb f s3 (pre ++ ob :: mid) [] ltac:(lia)) as (c' & m' & Hr & Hc').
  - unfold s3, s1, sx. cbn [Compile.cj]. rewrite Hi, !app_nil_r. reflexivity.
  - rewrite <- Ej. unfold s1, jl0, jl. cbn [Compile.cj i_jump_len empty_init Nat.add]. rewrite Hi. reflexivity.
  - unfold s3. rewrite il0_sx, Ei, app_length, <- (conv_length _ _ _ _ _ Cb), Si. lia.
  - unfold s3. rewrite jl0_sx, Ej, app_nil_r, Lb, Sj. reflexivity.
  - exists (cb ++ ends ++ c'), (mb ++ map (fun _ => None) ends ++ m'). split.
    + rewrite Hr. unfold s3, s1, sx. cbn [Compile.ci Compile.cm Compile.cj]. f_equal. f_equal; rewrite <- ?app_assoc; cbn [app]; rewrite <- ?app_assoc; reflexivity.
    + apply conv_app; [exact Cb|]. apply conv_app; assumption.
Qed.

(* ---- && and || ---- *)
Lemma comp_logical cont lk (isand : bool) l r pc j ob jb :
  comp cont lk (if isand then EAnd l r else EOr l r) pc j ob jb =
  let a := sizes None l in let b := sizes None r in
  let lr := si b + 2 + so b in
  let fl := comp cont None l pc j (ob + lr) (jb + sji b + sjo b) in
  let jr := j + sji a in
  let fr := comp cont None r ob jb (ob + si b + 2) (jb + sji b) in
  mkFrag (f_inl fl ++ [insn (if isand then I_And else I_Or) jr])
         (f_inl fr ++ [ins I_Tis; insn I_JumpTo (jr + 1)] ++ f_ool fr ++ f_ool fl)
         (f_ji fl ++ [ob; pc + si a + 1])
         (f_ji fr ++ f_jo fr ++ f_jo fl).
Proof. destruct isand; reflexivity. Qed.

Lemma step_logical (isand : bool) l r i d k tl tr :
  kind_of d = Compile.KLogical (if isand then I_And else I_Or) ->
  chainy l = false -> inl_spec l tl -> inl_spec r tr ->
  inl_spec (if isand then EAnd l r else EOr l r) (NBin i d k tl tr).
Proof.
  intros Hk Hch Hl Hr rj lk cond s ob jb _. unfold inl_at. rewrite comp_logical.
  set (a := sizes None l). set (b := sizes None r). cbv zeta.
  destruct (Hl rj None true s (ob + (si b + 2 + so b)) (jb + sji b + sjo b) ltac:(intros E; rewrite Hch in E; discriminate E))
    as (c1 & m1 & j1 & p1 & I1 & C1 & L1 & B1).
  destruct (inl_at_sizes l None s _ _ c1 m1 j1 C1 L1) as [Ei Ej]. fold a in Ei, Ej.
  pose proof (inl_logical rj i d _ (img tl) (img tr) (mkCx c (option_map kdef lk) cond) s _ _ _ Hk I1) as HI.
  cbn [cx_containing] in HI. rewrite Ei, Ej, sx_sx in HI.
  set (op := if isand then I_And else I_Or) in *.
  exists (c1 ++ [(op, ONum (jl0 s + sji a))]), (m1 ++ [Some i]), (j1 ++ [0; il0 s + si a + 1]),
         (p1 ++ [mkP (img tr) c (jl0 s + sji a) [(I_Tis, ONone); (I_JumpTo, ONum (jl0 s + sji a + 1))]]).
  cbn [f_inl f_ool f_ji f_jo img].
  split; [exact HI|]. split; [apply conv_app; [exact C1|reflexivity]|]. split; [rewrite !app_length, L1; reflexivity|].
  set (Fr := comp c None r ob jb (ob + si b + 2) (jb + sji b)).
  destruct (comp_sizes sym_hash r c None ob jb (ob + si b + 2) (jb + sji b)) as (Ri & Ro & Rj & Rjo). fold Fr b in Ri, Ro, Rj, Rjo.
  replace (f_inl Fr ++ [ins I_Tis; insn I_JumpTo (jl0 s + sji a + 1)] ++ f_ool Fr ++ f_ool (comp c None l (il0 s) (jl0 s) (ob + (si b + 2 + so b)) (jb + sji b + sjo b)))
    with ((f_inl Fr ++ [ins I_Tis; insn I_JumpTo (jl0 s + sji a + 1)] ++ f_ool Fr) ++ f_ool (comp c None l (il0 s) (jl0 s) (ob + (si b + 2 + so b)) (jb + sji b + sjo b)))
    by (rewrite <- !app_assoc; reflexivity).
  replace (f_ji Fr ++ f_jo Fr ++ f_jo (comp c None l (il0 s) (jl0 s) (ob + (si b + 2 + so b)) (jb + sji b + sjo b)))
    with ((f_ji Fr ++ f_jo Fr) ++ f_jo (comp c None l (il0 s) (jl0 s) (ob + (si b + 2 + so b)) (jb + sji b + sjo b)))
    by (rewrite <- !app_assoc; reflexivity).
  apply bodies_app; [exact L1|reflexivity| |].
  - rewrite !app_length. cbn [length]. rewrite Ri, Ro, Rj, Rjo.
    replace (ob + (si b + (2 + so b))) with (ob + (si b + 2 + so b)) by lia.
    replace (jb + (sji b + sjo b)) with (jb + sji b + sjo b) by lia.
    eapply bodies_weaken; [|exact B1]. destruct isand; cbn [Ast.size]; lia.
  - assert (Hj1 : length j1 = sji a) by (rewrite jl0_sx in Ej; lia). rewrite Hj1.
    pose proof (body_one r tr (jl0 s + sji a) [(I_Tis, ONone); (I_JumpTo, ONum (jl0 s + sji a + 1))]
                  [ins I_Tis; insn I_JumpTo (jl0 s + sji a + 1)] ob jb 0 Hr) as HB.
    cbn [length] in HB. fold b Fr in HB.
    specialize (HB ltac:(left; repeat constructor; discriminate) eq_refl).
    apply bodies_frame_r with (b := [il0 s + si a + 1]) in HB; [|reflexivity].
    cbn [app] in HB.
    eapply bodies_weaken; [|exact HB]. destruct isand; cbn [Ast.size]; lia.
Qed.

(* ---- conditionals: the plain reading ---- *)
Definition cond_instr (neg : bool) : instruction := if neg then I_JumpIfFalse else I_JumpIfTrue.
Lemma kind_cond neg cc a : kind_of (hdef (ECond neg cc a)) = Compile.KJumpIf (cond_instr neg).
Proof. destruct neg; reflexivity. Qed.

Lemma comp_cond cont lk neg cc a pc j ob jb :
  comp cont lk (ECond neg cc a) pc j ob jb =
  let x := sizes None cc in let y := sizes None a in
  let la := si y + 1 + so y in
  let fc := comp cont None cc pc j (ob + la) (jb + sji y + sjo y) in
  let ja := j + sji x in
  let fa := comp cont None a ob jb (ob + si y + 1) (jb + sji y) in
  mkFrag (f_inl fc ++ [insn (cond_instr neg) ja; ins I_PutValue])
         (f_inl fa ++ [insn I_JumpTo (ja + 1)] ++ f_ool fa ++ f_ool fc)
         (f_ji fc ++ [ob; pc + si x + 2])
         (f_ji fa ++ f_jo fa ++ f_jo fc).
Proof. reflexivity. Qed.

Lemma step_cond neg cc a i k tc ta : inl_spec cc tc -> inl_spec a ta ->
  forall rj lk s ob jb, inl_at (ECond neg cc a) (NBin i (hdef (ECond neg cc a)) k tc ta) lk false rj s ob jb.
Proof.
  intros Hc Ha rj lk s ob jb. unfold inl_at. rewrite comp_cond.
  set (x := sizes None cc). set (y := sizes None a). cbv zeta.
  destruct (Hc rj None false s (ob + (si y + 1 + so y)) (jb + sji y + sjo y) (fun _ => eq_refl))
    as (c1 & m1 & j1 & p1 & I1 & C1 & L1 & B1).
  destruct (inl_at_sizes cc None s _ _ c1 m1 j1 C1 L1) as [Ei Ej]. fold x in Ei, Ej.
  pose proof (inl_jumpif_plain rj i _ _ (img tc) (img ta) (mkCx c (option_map kdef lk) false) s _ _ _ (kind_cond neg cc a) eq_refl I1) as HI.
  cbn [cx_containing] in HI. rewrite Ei, Ej, sx_sx, app_nil_r in HI.
  exists (c1 ++ [(cond_instr neg, ONum (jl0 s + sji x)); (I_PutValue, ONone)]), (m1 ++ [Some i; None]), (j1 ++ [0; il0 s + si x + 2]),
         (p1 ++ [mkP (img ta) c (jl0 s + sji x) [(I_JumpTo, ONum (jl0 s + sji x + 1))]]).
  cbn [f_inl f_ool f_ji f_jo img].
  split; [exact HI|]. split; [apply conv_app; [exact C1|reflexivity]|]. split; [rewrite !app_length, L1; reflexivity|].
  set (Fa := comp c None a ob jb (ob + si y + 1) (jb + sji y)).
  set (Fc := comp c None cc (il0 s) (jl0 s) (ob + (si y + 1 + so y)) (jb + sji y + sjo y)) in *.
  destruct (comp_sizes sym_hash a c None ob jb (ob + si y + 1) (jb + sji y)) as (Ri & Ro & Rj & Rjo). fold Fa y in Ri, Ro, Rj, Rjo.
  replace (f_inl Fa ++ [insn I_JumpTo (jl0 s + sji x + 1)] ++ f_ool Fa ++ f_ool Fc)
    with ((f_inl Fa ++ [insn I_JumpTo (jl0 s + sji x + 1)] ++ f_ool Fa) ++ f_ool Fc) by (rewrite <- !app_assoc; reflexivity).
  replace (f_ji Fa ++ f_jo Fa ++ f_jo Fc) with ((f_ji Fa ++ f_jo Fa) ++ f_jo Fc) by (rewrite <- !app_assoc; reflexivity).
  apply bodies_app; [exact L1|reflexivity| |].
  - rewrite !app_length. cbn [length]. rewrite Ri, Ro, Rj, Rjo.
    replace (ob + (si y + (1 + so y))) with (ob + (si y + 1 + so y)) by lia.
    replace (jb + (sji y + sjo y)) with (jb + sji y + sjo y) by lia.
    eapply bodies_weaken; [|exact B1]. cbn [Ast.size]. lia.
  - assert (Hj1 : length j1 = sji x) by (rewrite jl0_sx in Ej; lia). rewrite Hj1.
    pose proof (body_one a ta (jl0 s + sji x) [(I_JumpTo, ONum (jl0 s + sji x + 1))]
                  [insn I_JumpTo (jl0 s + sji x + 1)] ob jb 0 Ha) as HB.
    cbn [length] in HB. fold y Fa in HB.
    specialize (HB ltac:(left; repeat constructor; discriminate) eq_refl).
    apply bodies_frame_r with (b := [il0 s + si x + 2]) in HB; [|reflexivity].
    cbn [app] in HB. eapply bodies_weaken; [|exact HB]. cbn [Ast.size]. lia.
Qed.

(* ---- the chain reading ---- *)
Notation comp_chain := (comp_chain sym_hash).

Definition chain_at (e : expr) (t : ntree) (rj : nat) (s : cst) (aob ajb ob jb jjoin : nat) : Prop :=
  let CF := comp_chain c e (il0 s) (jl0 s) aob ajb ob jb jjoin in
  exists code ms ji0 ji1 ps its,
    Compile.inl empty_init lit_all rj (img t) (mkCx c None true) s = Ok (sx s code ms ji0, ps, its) /\
    conv code = Ok (c_inl CF) /\ length ji0 = length (c_ji CF) /\ length ji1 = length ji0 /\
    length its = cn (csizes e) /\
    bodies_ok (Ast.size e) (arms c jjoin its) (jl0 s) ji0 ji1 aob ajb (c_arms CF) (c_ajo CF) /\
    bodies_ok (Ast.size e) ps (jl0 s) ji1 (c_ji CF) ob jb (c_iool CF) (c_ijo CF).

Definition chain_spec (e : expr) (t : ntree) : Prop :=
  forall rj s aob ajb ob jb jjoin, chain_at e t rj s aob ajb ob jb jjoin.

Lemma chain_sizes e s aob ajb ob jb jj code ms ji0 :
  conv code = Ok (c_inl (comp_chain c e (il0 s) (jl0 s) aob ajb ob jb jj)) ->
  length ji0 = length (c_ji (comp_chain c e (il0 s) (jl0 s) aob ajb ob jb jj)) ->
  il0 (sx s code ms ji0) = il0 s + CompileExpr.ci (csizes e) /\ jl0 (sx s code ms ji0) = jl0 s + cji (csizes e).
Proof.
  intros Hc Hj. rewrite il0_sx, jl0_sx, <- (conv_length _ _ _ _ _ Hc), Hj.
  unfold CompileExpr.comp_chain, csizes. rewrite len_inl, len_ji. split; reflexivity.
Qed.

(* an expression that is not a conditional, read as the last item of a chain *)
Lemma comp_chain_plain e cont pc j aob ajb ob jb jj : chainy e = false ->
  comp_chain cont e pc j aob ajb ob jb jj = of_frag (comp cont None e pc j ob jb).
Proof.
  intros H. destruct e; try discriminate H; try reflexivity.
  unfold CompileExpr.comp_chain, CompileExpr.comp. cbn [compC]. destruct (right_first o); reflexivity.
Qed.

Lemma csizes_plain e : chainy e = false -> cn (csizes e) = 0.
Proof. intros H. destruct e; try discriminate H; reflexivity. Qed.

Lemma chain_of_plain e t : chainy e = false -> inl_spec e t -> chain_spec e t.
Proof.
  intros Hch He rj s aob ajb ob jb jj. unfold chain_at. rewrite (comp_chain_plain _ _ _ _ _ _ _ _ _ Hch).
  destruct (He rj None true s ob jb ltac:(intros E; rewrite Hch in E; discriminate E)) as (c1 & m1 & j1 & p1 & I1 & C1 & L1 & B1).
  exists c1, m1, j1, j1, p1, []. cbn [of_frag c_inl c_ji c_arms c_ajo c_iool c_ijo arms map].
  split; [exact I1|]. split; [exact C1|]. split; [exact L1|]. split; [reflexivity|].
  split; [rewrite (csizes_plain _ Hch); reflexivity|]. split; [apply bodies_nil|exact B1].
Qed.

Lemma comp_chain_cond cont neg cc a pc j aob ajb ob jb jjoin :
  comp_chain cont (ECond neg cc a) pc j aob ajb ob jb jjoin =
  let x := sizes None cc in let y := sizes None a in
  let fc := comp cont None cc pc j ob jb in
  let ja := j + sji x in
  let fa := comp cont None a aob ajb (aob + si y + 1) (ajb + sji y) in
  mkCfrag (f_inl fc ++ [insn (cond_instr neg) ja]) (f_ji fc ++ [aob])
          (f_inl fa ++ [insn I_JumpTo jjoin] ++ f_ool fa) (f_ji fa ++ f_jo fa)
          (f_ool fc) (f_jo fc).
Proof. reflexivity. Qed.

Lemma step_cond_chain neg cc a i k tc ta : inl_spec cc tc -> inl_spec a ta ->
  chain_spec (ECond neg cc a) (NBin i (hdef (ECond neg cc a)) k tc ta).
Proof.
  intros Hc Ha rj s aob ajb ob jb jj. unfold chain_at. rewrite comp_chain_cond.
  set (x := sizes None cc). set (y := sizes None a). cbv zeta.
  destruct (Hc rj None false s ob jb (fun _ => eq_refl)) as (c1 & m1 & j1 & p1 & I1 & C1 & L1 & B1).
  destruct (inl_at_sizes cc None s _ _ c1 m1 j1 C1 L1) as [Ei Ej]. fold x in Ei, Ej.
  pose proof (inl_jumpif_cond rj i _ _ (img tc) (img ta) (mkCx c None true) s _ _ _ (kind_cond neg cc a) eq_refl I1) as HI.
  rewrite Ej, sx_sx, app_nil_r in HI. cbn [app] in HI.
  exists (c1 ++ [(cond_instr neg, ONum (jl0 s + sji x))]), (m1 ++ [Some i]), (j1 ++ [0]), (j1 ++ [aob]), p1, [(img ta, jl0 s + sji x)].
  cbn [c_inl c_ji c_arms c_ajo c_iool c_ijo img].
  split; [exact HI|]. split; [apply conv_app; [exact C1|reflexivity]|]. split; [rewrite !app_length, L1; reflexivity|].
  split; [rewrite !app_length; reflexivity|]. split; [reflexivity|].
  assert (Hj1 : length j1 = sji x) by (rewrite jl0_sx in Ej; lia).
  split.
  - pose proof (body_one a ta (jl0 s + sji x) [(I_JumpTo, ONum jj)] [insn I_JumpTo jj] aob ajb 0 Ha) as HB.
    cbn [length] in HB. fold y in HB. specialize (HB ltac:(left; repeat constructor; discriminate) eq_refl).
    cbn [arms map fst snd]. apply bodies_frame_l; [reflexivity|]. rewrite Hj1.
    eapply bodies_weaken; [|exact HB]. cbn [Ast.size]. lia.
  - apply bodies_frame_r; [exact L1|]. eapply bodies_weaken; [|exact B1]. cbn [Ast.size]. lia.
Qed.

Lemma comp_chain_else cont l r pc j aob ajb ob jb jjoin :
  comp_chain cont (EElse l r) pc j aob ajb ob jb jjoin =
  let a := csizes l in let b := csizes r in
  let fl := comp_chain cont l pc j (aob + cao b) (ajb + cajo b) (ob + cio b) (jb + cijo b) jjoin in
  let fr := comp_chain cont r (pc + CompileExpr.ci a) (j + cji a) aob ajb ob jb jjoin in
  mkCfrag (c_inl fl ++ c_inl fr) (c_ji fl ++ c_ji fr)
          (c_arms fr ++ c_arms fl) (c_ajo fr ++ c_ajo fl)
          (c_iool fr ++ c_iool fl) (c_ijo fr ++ c_ijo fl).
Proof. reflexivity. Qed.

Lemma arms_app cc jt a b : arms cc jt (a ++ b) = arms cc jt a ++ arms cc jt b.
Proof. unfold arms. apply map_app. Qed.

Lemma step_else_chain l r i k tl tr : chain_spec l tl -> chain_spec r tr ->
  chain_spec (EElse l r) (NBin i (hdef (EElse l r)) k tl tr).
Proof.
  intros Hl Hr rj s aob ajb ob jb jj. unfold chain_at. rewrite comp_chain_else.
  set (a := csizes l). set (b := csizes r). cbv zeta.
  destruct (Hl rj s (aob + cao b) (ajb + cajo b) (ob + cio b) (jb + cijo b) jj)
    as (c1 & m1 & j10 & j11 & p1 & i1 & I1 & C1 & L1 & L1' & N1 & A1 & B1).
  destruct (chain_sizes l s _ _ _ _ _ c1 m1 j10 C1 L1) as [Ei Ej]. fold a in Ei, Ej.
  destruct (Hr rj (sx s c1 m1 j10) aob ajb ob jb jj)
    as (c2 & m2 & j20 & j21 & p2 & i2 & I2 & C2 & L2 & L2' & N2 & A2 & B2).
  rewrite Ei, Ej in C2, L2, A2, B2.
  set (Fl := comp_chain c l (il0 s) (jl0 s) (aob + cao b) (ajb + cajo b) (ob + cio b) (jb + cijo b) jj) in *.
  set (Fr := comp_chain c r (il0 s + CompileExpr.ci a) (jl0 s + cji a) aob ajb ob jb jj) in *.
  pose proof (inl_else rj i (hdef (EElse l r)) (img tl) (img tr) (mkCx c None true) s _ _ _ _ _ _ eq_refl I1 I2) as HI.
  cbn [cx_cond] in HI. rewrite sx_sx in HI.
  exists (c1 ++ c2), (m1 ++ m2), (j10 ++ j20), (j11 ++ j21), (p1 ++ p2), (i1 ++ i2).
  cbn [c_inl c_ji c_arms c_ajo c_iool c_ijo img].
  split; [exact HI|]. split; [apply conv_app; assumption|]. split; [rewrite !app_length; lia|].
  split; [rewrite !app_length; lia|]. split; [rewrite app_length; cbn [csizes sizesC cn]; fold (csizes l) (csizes r); lia|].
  assert (Hj10 : length j10 = cji a) by (rewrite jl0_sx in Ej; lia).
  assert (Sr : length (c_arms Fr) = cao b /\ length (c_ajo Fr) = cajo b /\ length (c_iool Fr) = cio b /\ length (c_ijo Fr) = cijo b).
  { unfold Fr, CompileExpr.comp_chain, b, csizes. rewrite len_arms, len_ajo, len_iool, len_ijo. auto. }
  destruct Sr as (S1 & S2 & S3 & S4).
  split.
  - rewrite arms_app. apply bodies_app; [lia|lia| |].
    + rewrite S1, S2. eapply bodies_weaken; [|exact A1]. cbn [Ast.size]. lia.
    + rewrite Hj10. eapply bodies_weaken; [|exact A2]. cbn [Ast.size]. lia.
  - apply bodies_app; [lia|lia| |].
    + rewrite S3, S4. eapply bodies_weaken; [|exact B1]. cbn [Ast.size]. lia.
    + rewrite L1', Hj10. eapply bodies_weaken; [|exact B2]. cbn [Ast.size]. lia.
Qed.

(* ---- the head of an else-chain ---- *)
Lemma comp_else cont lk l r pc j ob jb :
  comp cont lk (EElse l r) pc j ob jb =
  let a := csizes l in let b := csizes r in
  let n := cn a + cn b in
  let jj := j + cji a + cji b in
  let CF := comp_chain cont (EElse l r) pc j ob jb (ob + (cao b + cao a)) (jb + (cajo b + cajo a)) jj in
  mkFrag (c_inl CF) (c_arms CF ++ c_iool CF)
         (c_ji CF ++ (if Nat.eqb n 0 then [] else [pc + CompileExpr.ci a + CompileExpr.ci b]))
         (c_ajo CF ++ c_ijo CF).
Proof.
  unfold CompileExpr.comp, CompileExpr.comp_chain. cbn [compC to_frag of_frag f_inl f_ool f_ji f_jo c_inl c_ji c_arms c_ajo c_iool c_ijo].
  cbv zeta. rewrite <- !app_assoc. reflexivity.
Qed.

Lemma inl_else_head rj ix d l r cc ol s s2 ps its : kind_of d = Compile.KElse ->
  Compile.inl empty_init lit_all rj (Compile.T ix d (Some l) (Some r)) (mkCx cc None true) s = Ok (s2, ps, its) ->
  Compile.inl empty_init lit_all rj (Compile.T ix d (Some l) (Some r)) (mkCx cc ol false) s =
  match its with
  | [] => Ok (s2, ps, [])
  | _ => Ok (sx s2 [] [] [il0 s2], ps ++ arms cc (jl0 s2) its, [])
  end.
Proof.
  intros Hk H. cbn [Compile.inl] in *. rewrite Hk in *. cbn [present andb negb cx_containing cx_cond] in *.
  destruct (seq2 _ _) as [[[s2' ps'] its']| | |]; try discriminate H. cbn [bind] in *. cbv beta iota in *.
  injection H as <- <- <-. destruct its'; [reflexivity|]. rewrite new_jump_s. reflexivity.
Qed.

Lemma step_else l r i k tl tr : chain_spec (EElse l r) (NBin i (hdef (EElse l r)) k tl tr) ->
  forall rj lk s ob jb, inl_at (EElse l r) (NBin i (hdef (EElse l r)) k tl tr) lk false rj s ob jb.
Proof.
  intros Hch rj lk s ob jb. unfold inl_at. rewrite comp_else.
  set (a := csizes l). set (b := csizes r). cbv zeta.
  set (jj := jl0 s + cji a + cji b).
  destruct (Hch rj s ob jb (ob + (cao b + cao a)) (jb + (cajo b + cajo a)) jj)
    as (c1 & m1 & j0 & j1 & ps & its & I1 & C1 & L0 & L1 & Nn & A1 & B1).
  set (CF := comp_chain c (EElse l r) (il0 s) (jl0 s) ob jb (ob + (cao b + cao a)) (jb + (cajo b + cajo a)) jj) in *.
  destruct (chain_sizes (EElse l r) s _ _ _ _ _ c1 m1 j0 C1 L0) as [Ei Ej]. fold CF in Ei, Ej.
  cbn [csizes sizesC CompileExpr.ci cji] in Ei, Ej. fold (csizes l) (csizes r) a b in Ei, Ej.
  cbn [csizes sizesC cn] in Nn. fold (csizes l) (csizes r) a b in Nn.
  pose proof (inl_else_head rj i (hdef (EElse l r)) (img tl) (img tr) c (option_map kdef lk) s _ _ _ eq_refl I1) as HI.
  cbn [f_inl f_ool f_ji f_jo]. cbn [img].
  assert (Sa : length (c_arms CF) = cao b + cao a /\ length (c_ajo CF) = cajo b + cajo a).
  { unfold CF, CompileExpr.comp_chain. rewrite len_arms, len_ajo. cbn [sizesC cao cajo]. fold (csizes l) (csizes r) a b. split; lia. }
  destruct Sa as [Sa1 Sa2].
  assert (Hbod : bodies_ok (Ast.size (EElse l r)) (ps ++ arms c jj its) (jl0 s) j0 (c_ji CF) ob jb
                           (c_arms CF ++ c_iool CF) (c_ajo CF ++ c_ijo CF)).
  { apply bodies_seq with (ji1 := j1); [lia|exact A1|]. rewrite Sa1, Sa2. exact B1. }
  destruct its as [|it its'].
  - (* no conditional item: a plain sequence, no join entry *)
    cbn [length] in Nn. rewrite <- Nn. cbn [Nat.eqb].
    exists c1, m1, j0, ps. split; [exact HI|]. split; [exact C1|]. rewrite app_nil_r. split; [exact L0|].
    cbn [arms map] in Hbod. rewrite app_nil_r in Hbod. exact Hbod.
  - cbn [length] in Nn. rewrite <- Nn. cbn [Nat.eqb].
    exists c1, m1, (j0 ++ [il0 s + CompileExpr.ci a + CompileExpr.ci b]), (ps ++ arms c jj (it :: its')).
    split; [|split; [exact C1|split; [rewrite !app_length, L0; reflexivity|]]].
    + rewrite HI, sx_sx, !app_nil_r. rewrite Ei, Ej.
      replace (jl0 s + (cji a + cji b)) with jj by (unfold jj; lia).
      replace (il0 s + (CompileExpr.ci a + CompileExpr.ci b)) with (il0 s + CompileExpr.ci a + CompileExpr.ci b) by lia.
      reflexivity.
    + apply bodies_frame_r; [exact L0|exact Hbod].
Qed.

End Sim.

(* ---- nested expressions: the body is an out-of-line body whose containing
   expression is its own jump entry ---- *)
Lemma comp_nested sym_hash cont lk lbl b pc j ob jb :
  CompileExpr.comp sym_hash cont lk (ENested lbl b) pc j ob jb =
  let y := sizes None b in
  let fb := CompileExpr.comp sym_hash j None b ob jb (ob + si y + 1) (jb + sji y) in
  mkFrag [(I_Put, MVal (VExpr (N.of_nat j)))] (f_inl fb ++ [ins I_EndExpression] ++ f_ool fb) [ob] (f_ji fb ++ f_jo fb).
Proof. reflexivity. Qed.

Lemma step_nested sym_hash toks ns lbl b i k a :
  efrag LV b = true ->
  (forall c', inl_spec sym_hash toks ns c' b a) ->
  forall c, inl_spec sym_hash toks ns c (ENested lbl b) (NGroup BCurly i k a).
Proof.
  intros Fb Hb c rj lk cond s ob jb _. unfold inl_at. rewrite comp_nested. cbv zeta.
  exists [(I_Put, OExpr (jl0 s))], [Some i], [0], [mkP (img a) (jl0 s) (jl0 s) default_end].
  cbn [f_inl f_ool f_ji f_jo img bdef].
  split; [apply inl_nested|]. split; [reflexivity|]. split; [reflexivity|].
  pose proof (body_one sym_hash toks ns (jl0 s) b a (jl0 s) default_end [ins I_EndExpression] ob jb 0 (Hb (jl0 s))
                (or_intror (conj eq_refl Fb)) eq_refl) as HB.
  cbn [length default_end] in HB. eapply bodies_weaken; [|exact HB]. cbn [Ast.size]. lia.
Qed.
