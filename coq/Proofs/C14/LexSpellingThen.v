(* C14, first stage, third part:
   - the general closing rule: a body may contain the quote character, in runs
     shorter than the opening run, as long as it neither starts nor ends with
     it ([runs_ok]); such a literal is one token, and for char lists the token
     text parses to what the items denote;
   - a number followed by a character that cannot continue it is the first
     token, and the empty literal followed by a non-quote is the first token. *)
From Coq Require Import Arith ZArith NArith List Bool Lia.
From GV Require Import Base.Result Gen.TokenTypes Gen.Tokens Spec.LitDenote Model.Lexer
  Proofs.C13.LexBase Proofs.C13.LexInv Proofs.C14.LexSpelling Proofs.C14.LexSpellingNum.
From GV Require Model.Literals Proofs.C14.CharList.
Import ListNotations.
Local Open Scope N_scope.

(* [e] = length of the quote run that ends the text read so far; no run reaches
   [n]; the body does not end inside a run *)
Fixpoint runs_ok (q : N) (n e : nat) (body : list N) : bool :=
  match body with
  | [] => Nat.eqb e 0
  | c :: r => if c =? q then Nat.ltb (S e) n && runs_ok q n (S e) r else runs_ok q n 0 r
  end.

Lemma runs_ok_no_quote : forall q n body, ~ In q body -> runs_ok q n 0 body = true.
Proof.
  intros q n body. induction body as [|c r IH]; intros H; [reflexivity|]. cbn [runs_ok].
  replace (c =? q) with false by (symmetry; apply N.eqb_neq; intros E; apply H; left; exact E).
  apply IH. intros Hin. apply H. right. exact Hin.
Qed.

Section Then.
  Variables un ua : N -> bool.
  Notation process_char := (process_char un ua).
  Notation run_arm := (run_arm un ua).
  Notation start_token := (start_token un ua).
  Notation internal_next_loop := (internal_next_loop un ua).
  Notation internal_next := (internal_next un ua).
  Notation lex_loop := (lex_loop un ua).
  Notation lex := (lex un ua).
  Notation is_number_char := (is_number_char un ua).

  Lemma body_run_general : forall k n body e pre r c l rest, in_body k n e pre r c l ->
    runs_ok (kq k) n e body = true ->
    exists l1, internal_next_loop l (body ++ rest) = internal_next_loop l1 rest /\
               in_body k n 0 (pre ++ body) r c l1.
  Proof.
    intros k n body. induction body as [|x body IH]; intros e pre r c l rest H Hok.
    - cbn [runs_ok] in Hok. apply Nat.eqb_eq in Hok. subst e. exists l. rewrite app_nil_r.
      split; [reflexivity | exact H].
    - cbn [runs_ok] in Hok. destruct (x =? kq k) eqn:Ex.
      + apply N.eqb_eq in Ex. subst x. apply andb_true_iff in Hok as [Hlt Hok]. apply Nat.ltb_lt in Hlt.
        destruct (step_body_quote un ua k n e pre r c l H ltac:(lia)) as (l1 & Hp & H1).
        destruct (IH (S e) (pre ++ [kq k]) r c l1 rest H1 Hok) as (l2 & Hrun & H2).
        exists l2. cbn [app]. rewrite (loop_step un ua _ _ _ _ Hp) by apply H1.
        split; [exact Hrun|]. rewrite <- app_assoc in H2. exact H2.
      + apply N.eqb_neq in Ex.
        destruct (step_body_char un ua k n e pre r c l x H Ex) as (l1 & Hp & H1).
        destruct (IH 0%nat (pre ++ [x]) r c l1 rest H1 Hok) as (l2 & Hrun & H2).
        exists l2. cbn [app]. rewrite (loop_step un ua _ _ _ _ Hp) by apply H1.
        split; [exact Hrun|]. rewrite <- app_assoc in H2. exact H2.
  Qed.

  Theorem literal_first_token_general : forall k n x body rest l, idle l -> (1 <= n)%nat -> n <> 2%nat ->
    x <> kq k -> runs_ok (kq k) n 0 body = true ->
    exists l1,
      internal_next_loop l (repeat (kq k) n ++ (x :: body) ++ repeat (kq k) n ++ rest) =
      Ok (l1, rest, Some (mkTok (literal_text k n (x :: body)) (kty k) (text_row l) (text_col l))) /\
      idle l1.
  Proof.
    intros k n x body rest l Hidle Hn1 Hn2 Hx Hok.
    destruct n as [|n]; [lia|].
    destruct (step_first un ua k l Hidle) as (l1 & Hp1 & H1).
    cbn [repeat app]. rewrite (loop_step un ua _ _ _ _ Hp1) by apply H1.
    destruct (open_run un ua k n 1 _ _ l1 (x :: body ++ kq k :: repeat (kq k) n ++ rest) H1) as (l2 & Hr2 & H2).
    rewrite Hr2. cbn [Nat.add] in H2.
    destruct (step_start_body un ua k (S n) _ _ l2 x H2 Hx Hn2) as (l3 & Hp3 & H3).
    rewrite (loop_step un ua _ _ _ _ Hp3) by apply H3.
    destruct (body_run_general k (S n) body 0%nat _ _ _ l3 (kq k :: repeat (kq k) n ++ rest) H3 Hok) as (l4 & Hr4 & H4).
    destruct (close_run un ua k n (S n) 0%nat _ _ _ l4 rest H4 ltac:(lia)) as (l5 & Hr5 & H5).
    exists l5. split; [|exact H5].
    change (repeat (kq k) (S n) ++ rest) with (kq k :: repeat (kq k) n ++ rest) in Hr5.
    rewrite Hr4, Hr5. unfold literal_text. cbn [repeat app]. rewrite <- !app_assoc. reflexivity.
  Qed.

  Theorem lex_literal_general : forall k n x body, (1 <= n)%nat -> n <> 2%nat ->
    x <> kq k -> runs_ok (kq k) n 0 body = true ->
    lex (literal_text k n (x :: body)) = Ok [mkTok (literal_text k n (x :: body)) (kty k) 0 0].
  Proof.
    intros k n x body Hn1 Hn2 Hx Hok.
    destruct (literal_first_token_general k n x body [] init_lexer idle_init Hn1 Hn2 Hx Hok) as (l1 & Hrun & H1).
    rewrite !app_nil_r in Hrun. fold (literal_text k n (x :: body)) in Hrun.
    cbn [text_row text_col init_lexer] in Hrun.
    destruct H1 as (Hst & _ & Hres & _).
    exact (lex_one_token un ua _ l1 _ Hrun Hst Hres).
  Qed.

  (* any char-list literal: quote count 1 or >= 3, well-formed items (raw
     characters, escapes, \u{..}), the rendered body non-empty, not starting or
     ending with a quote and without a quote run as long as the opening run:
     one token, whose text parses to what the items denote *)
  Theorem char_list_end_to_end : forall pf q items x body,
    (q = 1 \/ 3 <= q) -> forallb (wf_citem q) items = true ->
    render_citems items = x :: body -> x <> 34 -> runs_ok 34 (N.to_nat q) 0 body = true ->
    exists t, lex (char_list_literal q items) = Ok [t] /\ tok_type t = TT_CharList /\
              tok_text t = char_list_literal q items /\
              GV.Model.Literals.parse_char_list pf (tok_text t) = Ok (denote_citems items).
  Proof.
    intros pf q items x body Hq Hwf Hbody Hx Hok.
    assert (Hlit : char_list_literal q items = literal_text KChar (N.to_nat q) (x :: body)).
    { unfold char_list_literal, literal_text, quotes. rewrite Hbody. reflexivity. }
    eexists. split.
    - rewrite Hlit. apply (lex_literal_general KChar); [lia | lia | exact Hx | exact Hok].
    - cbn [tok_type tok_text]. split; [reflexivity|]. split; [symmetry; exact Hlit|].
      rewrite <- Hlit. apply GV.Proofs.C14.CharList.char_list_literal_denotes; [exact Hwf|].
      rewrite Hbody. cbn [body_ok]. apply negb_true_iff, N.eqb_neq. exact Hx.
  Qed.

  (* ---------------------------------------------------- numbers, then more *)
  Lemma step_num_stop : forall fl cf pre r c l x, in_num fl cf pre r c l ->
    is_number_char x = false -> x <> 46 ->
    exists l1, process_char l x = Ok (l1, Some (mkTok pre TT_Number r c)).
  Proof.
    intros fl cf pre r c l x (Hst & Hcur & Hty & Hres & Hae & Hsc & Hcf & Hr & Hc) Hx H46.
    assert (Harm : run_arm l x = Arm l None true).
    { unfold Lexer.run_arm. rewrite Hst. apply N.eqb_neq in H46.
      destruct fl; cbn [nst]; unfold arm_float, arm_number, ch_period; rewrite Hx, H46; reflexivity. }
    unfold Lexer.process_char. rewrite Harm.
    unfold Lexer.start_new_tail. proj. rewrite Hst, Hty, Hcur, Hr, Hc.
    replace (lstate_eqb (nst fl) SNoToken) with false by (destruct fl; reflexivity). cbn [negb].
    unfold can_create_valid_token. proj. rewrite Hty. proj. rewrite Hsc.
    eexists. reflexivity.
  Qed.

  (* an integer-shaped number followed by a character that is not a number
     character and not a period (that character is then already in use as the
     start of the next token) *)
  Theorem number_first_token : forall d ds x rest l, idle l -> ascii_digit d = true ->
    forallb num_char ds = true -> is_number_char x = false -> x <> 46 ->
    exists l1, internal_next_loop l (d :: ds ++ x :: rest) =
               Ok (l1, rest, Some (mkTok (d :: ds) TT_Number (text_row l) (text_col l))).
  Proof.
    intros d ds x rest l Hidle Hd Hds Hx H46.
    destruct (step_num_first un ua l d Hidle Hd) as (l1 & Hp1 & H1).
    destruct (num_run un ua ds false _ [d] _ _ l1 (x :: rest) H1 Hds) as (l2 & Hr2 & H2).
    destruct (step_num_stop _ _ _ _ _ l2 x H2 Hx H46) as (l3 & Hp3).
    exists l3. rewrite (loop_step un ua _ _ _ _ Hp1) by apply H1. rewrite Hr2.
    apply (loop_emit un ua). exact Hp3.
  Qed.

  (* the same with a fraction part (where a float can start: can_float) *)
  Theorem float_first_token : forall d ds fs x rest l, idle l -> can_float l = true -> ascii_digit d = true ->
    forallb num_char ds = true -> forallb num_char fs = true -> is_number_char x = false -> x <> 46 ->
    exists l1, internal_next_loop l (d :: ds ++ 46 :: fs ++ x :: rest) =
               Ok (l1, rest, Some (mkTok (d :: ds ++ 46 :: fs) TT_Number (text_row l) (text_col l))).
  Proof.
    intros d ds fs x rest l Hidle Hcf Hd Hds Hfs Hx H46.
    destruct (step_num_first un ua l d Hidle Hd) as (l1 & Hp1 & H1). rewrite Hcf in H1.
    destruct (num_run un ua ds false true [d] _ _ l1 (46 :: fs ++ x :: rest) H1 Hds) as (l2 & Hr2 & H2).
    destruct (step_num_period un ua _ _ _ l2 H2) as (l3 & Hp3 & H3).
    destruct (num_run un ua fs true true _ _ _ l3 (x :: rest) H3 Hfs) as (l4 & Hr4 & H4).
    destruct (step_num_stop _ _ _ _ _ l4 x H4 Hx H46) as (l5 & Hp5).
    exists l5. rewrite (loop_step un ua _ _ _ _ Hp1) by apply H1. rewrite Hr2.
    rewrite (loop_step un ua _ _ _ _ Hp3) by apply H3. rewrite Hr4.
    rewrite (loop_emit un ua _ _ _ _ _ Hp5). cbn [app]. rewrite <- !app_assoc. reflexivity.
  Qed.

  Lemma lex_first_token : forall s l1 s1 t ts, internal_next_loop init_lexer s = Ok (l1, s1, Some t) ->
    lex s = Ok ts -> exists ts', ts = t :: ts'.
  Proof.
    intros s l1 s1 t ts Hrun Hlex. unfold Lexer.lex, Lexer.lex_run, lex_fuel in Hlex.
    remember (S (S (length s))) as f eqn:Ef. clear Ef.
    cbn [Lexer.lex_loop] in Hlex. rewrite (internal_next_init un ua) in Hlex. rewrite Hrun in Hlex.
    destruct (result l1); [discriminate|].
    match type of Hlex with match ?X with _ => _ end = _ => destruct X as [ts0| | |] eqn:E; try discriminate end.
    inversion Hlex; subst ts0. apply (lex_loop_acc_prefix un ua) in E as (ts' & ->). exists ts'. reflexivity.
  Qed.

  Theorem lex_number_then : forall d ds x rest ts, ascii_digit d = true -> forallb num_char ds = true ->
    is_number_char x = false -> x <> 46 -> lex (d :: ds ++ x :: rest) = Ok ts ->
    exists ts', ts = mkTok (d :: ds) TT_Number 0 0 :: ts'.
  Proof.
    intros d ds x rest ts Hd Hds Hx H46 Hlex.
    destruct (number_first_token d ds x rest init_lexer idle_init Hd Hds Hx H46) as (l1 & Hrun).
    exact (lex_first_token _ _ _ _ _ Hrun Hlex).
  Qed.

  Theorem lex_float_then : forall d ds fs x rest ts, ascii_digit d = true -> forallb num_char ds = true ->
    forallb num_char fs = true -> is_number_char x = false -> x <> 46 ->
    lex (d :: ds ++ 46 :: fs ++ x :: rest) = Ok ts ->
    exists ts', ts = mkTok (d :: ds ++ 46 :: fs) TT_Number 0 0 :: ts'.
  Proof.
    intros d ds fs x rest ts Hd Hds Hfs Hx H46 Hlex.
    destruct (float_first_token d ds fs x rest init_lexer idle_init eq_refl Hd Hds Hfs Hx H46) as (l1 & Hrun).
    exact (lex_first_token _ _ _ _ _ Hrun Hlex).
  Qed.

  Theorem lex_empty_literal_then : forall k x rest ts, x <> kq k ->
    lex (kq k :: kq k :: x :: rest) = Ok ts -> exists ts', ts = mkTok [kq k; kq k] (kty k) 0 0 :: ts'.
  Proof.
    intros k x rest ts Hx Hlex.
    destruct (empty_literal_first_token un ua k x rest init_lexer idle_init Hx) as (l1 & Hrun).
    exact (lex_first_token _ _ _ _ _ Hrun Hlex).
  Qed.
End Then.
