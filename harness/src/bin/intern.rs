//! intern: C15 directed search for constants that are confused with one another
//! (intern-table collisions, aliasing after growth).  Adds long runs of DISTINCT constants to a
//! fresh store and reads every one back through the getters at the end.
//!
//! Case line:   <impl B|S> <kind int|float|sym|char|mix> <count> <start> <stride>
//! Output:      <case>\tok n=<count> | bad <what>
use garnish_lang_simple_data::{BasicGarnishData, NoCustom, NoOpCompanion, SimpleGarnishData, SimpleNumber};
use garnish_lang_traits::GarnishData;
use garnish_verif_harness::*;

type Basic = BasicGarnishData<(), NoOpCompanion>;
type Simple = SimpleGarnishData<NoCustom>;

#[derive(Clone, Debug, PartialEq)]
enum K {
    I(i32),
    F(u64),
    S(u64),
    C(char),
}

fn constant(kind: &str, k: u64, start: u64, stride: u64) -> K {
    let v = start.wrapping_add(k.wrapping_mul(stride));
    let int = |v: u64| K::I((v & 0xffff_ffff) as u32 as i32);
    let flt = |v: u64| {
        // distinct finite, non-zero doubles: bit patterns counted up from 1.0
        K::F(0x3ff0_0000_0000_0000u64.wrapping_add(v & 0x000f_ffff_ffff_ffff))
    };
    let chr = |v: u64| K::C(char::from_u32(0x100 + (v % 0xd000) as u32).unwrap_or('x'));
    match kind {
        "int" => int(v),
        "float" => flt(v),
        "sym" => K::S(v),
        "char" => chr(k),
        _ => match k % 3 {
            0 => int(v),
            1 => flt(v),
            _ => K::S(v),
        },
    }
}

fn run<D: GarnishData<Number = SimpleNumber, Symbol = u64, Char = char, Size = usize>>(d: &mut D, kind: &str, count: u64, start: u64, stride: u64) -> String {
    let count = if kind == "char" { count.min(0xd000) } else { count };
    let mut addrs: Vec<usize> = Vec::with_capacity(count as usize);
    for k in 0..count {
        let c = constant(kind, k, start, stride);
        let r = match &c {
            K::I(i) => d.add_number(SimpleNumber::Integer(*i)),
            K::F(b) => d.add_number(SimpleNumber::Float(f64::from_bits(*b))),
            K::S(s) => d.add_symbol(*s),
            K::C(ch) => d.add_char(*ch),
        };
        match r {
            Ok(a) => addrs.push(a),
            Err(_) => return format!("bad add of constant #{} {:?} failed", k, c),
        }
    }
    for k in 0..count {
        let c = constant(kind, k, start, stride);
        let a = addrs[k as usize];
        let back = match &c {
            K::I(_) | K::F(_) => match d.get_number(a) {
                Ok(SimpleNumber::Integer(i)) => Some(K::I(i)),
                Ok(SimpleNumber::Float(f)) => Some(K::F(f.to_bits())),
                Err(_) => None,
            },
            K::S(_) => d.get_symbol(a).ok().map(K::S),
            K::C(_) => d.get_char(a).ok().map(K::C),
        };
        if back.as_ref() != Some(&c) {
            // which earlier constant owns the address
            let owner = (0..k).find(|j| addrs[*j as usize] == a).map(|j| format!("{:?} (constant #{})", constant(kind, j, start, stride), j));
            return format!(
                "bad constant #{} {:?} was stored at address {} and reads back as {:?}{}",
                k,
                c,
                a,
                back,
                match owner {
                    Some(o) => format!("; the address belongs to {}", o),
                    None => String::new(),
                }
            );
        }
    }
    format!("ok n={}", count)
}

fn run_case(line: &str) -> String {
    let f: Vec<&str> = line.split_whitespace().collect();
    if f.len() != 5 {
        return format!("{}\tbad case", line);
    }
    let count: u64 = f[2].parse().unwrap_or(0);
    let start: u64 = f[3].parse().unwrap_or(0);
    let stride: u64 = f[4].parse().unwrap_or(1);
    let kind = f[1];
    let res = catch(|| match f[0] {
        "B" => match Basic::new(NoOpCompanion::new()) {
            Ok(mut b) => run(&mut b, kind, count, start, stride),
            Err(_) => "bad new".to_string(),
        },
        _ => run(&mut Simple::new(), kind, count, start, stride),
    });
    format!("{}\t{}", line, res.unwrap_or_else(|_| "bad PANIC".to_string()))
}

fn main() {
    supervised(120_000, run_case);
}
