(* (e) blank lines: wherever the input has two consecutive line feeds, the token that
   contains the first of them is a Subexpression token -- unless that line feed belongs
   to a char/byte list literal or to a line annotation (whose token includes its
   terminating line feed).  In particular spaces or tabs trailing the line before the
   blank line make no difference: they end up in the same Subexpression token. *)
From Coq Require Import NArith List Bool Lia.
From GV Require Import Base.Result Gen.TokenTypes Gen.Tokens Model.Lexer Spec.LexSpec
  Proofs.C13.LexBase Proofs.C13.LexInv Proofs.C13.LexRun Proofs.C13.LexOp.
Import ListNotations.
Local Open Scope N_scope.

Definition no_lf (s : list N) : Prop := ~ In 10 s.

Fixpoint has_blank (w : list N) : bool :=
  match w with
  | a :: r => (match r with b :: _ => (a =? 10) && (b =? 10) | [] => false end) || has_blank r
  | [] => false
  end.

Definition exempt_ty (ty : token_type) : bool :=
  token_type_eqb ty TT_CharList || token_type_eqb ty TT_ByteList ||
  token_type_eqb ty TT_LineAnnotation || token_type_eqb ty TT_Subexpression.
Definition exempt_o (o : option token_type) : bool :=
  match o with Some ty => exempt_ty ty | None => false end.

Definition first_of (s : list N) : list N := match s with c :: _ => [c] | [] => [] end.

Lemma hb_cons_nolf : forall x w, x <> 10 -> has_blank (x :: w) = has_blank w.
Proof.
  intros x w H. cbn [has_blank]. apply N.eqb_neq in H. destruct w; rewrite ?H; reflexivity.
Qed.

Lemma hb_strip : forall a w, no_lf a -> has_blank (a ++ w) = has_blank w.
Proof.
  induction a as [|x a IH]; intros w H; [reflexivity|].
  cbn [app]. rewrite hb_cons_nolf.
  - apply IH. intros Hin. apply H. right. exact Hin.
  - intros E. apply H. left. exact E.
Qed.

Lemma hb_nolf : forall w d, no_lf w -> has_blank (w ++ d) = has_blank d.
Proof. intros. apply hb_strip. assumption. Qed.

Lemma hb_single : forall d, has_blank [d] = false.
Proof. reflexivity. Qed.

(* a ++ [z] followed by a character that is not a line feed *)
Lemma hb_one_last : forall a z d, no_lf a -> d <> 10 -> has_blank ((a ++ [z]) ++ [d]) = false.
Proof.
  intros a z d Ha Hd. rewrite <- app_assoc. rewrite hb_strip by assumption. cbn.
  apply N.eqb_neq in Hd. rewrite Hd, andb_false_r. reflexivity.
Qed.

Lemma hb_cons2 : forall z b0 w, b0 <> 10 -> has_blank (z :: b0 :: w) = has_blank (b0 :: w).
Proof.
  intros z b0 w H. apply N.eqb_neq in H.
  change (has_blank (z :: b0 :: w)) with (((z =? 10) && (b0 =? 10)) || has_blank (b0 :: w)).
  rewrite H, andb_false_r. reflexivity.
Qed.

(* a ++ z :: b with b not empty: whatever follows *)
Lemma hb_one_inner : forall a z b d, no_lf a -> no_lf b -> b <> [] -> has_blank ((a ++ z :: b) ++ d) = has_blank d.
Proof.
  intros a z b d Ha Hb Hne. rewrite <- app_assoc. rewrite hb_strip by assumption.
  destruct b as [|b0 b]; [congruence|].
  assert (H0 : b0 <> 10) by (intros E; apply Hb; left; exact E).
  change ((z :: b0 :: b) ++ d) with (z :: b0 :: (b ++ d)). rewrite hb_cons2 by exact H0.
  change (b0 :: b ++ d) with ((b0 :: b) ++ d). apply hb_strip. exact Hb.
Qed.

Lemma hb_app_nil_le : forall w d, has_blank (w ++ [d]) = false -> has_blank w = false.
Proof.
  induction w as [|x w IH]; intros d H; [reflexivity|].
  cbn [app has_blank] in *. apply orb_false_iff in H as [H1 H2].
  rewrite (IH d H2), orb_false_r. destruct w as [|y w]; [reflexivity|]. cbn [app] in H1. exact H1.
Qed.

Lemma no_lf_app : forall a b, no_lf a -> no_lf b -> no_lf (a ++ b).
Proof. intros a b Ha Hb H. apply in_app_or in H as [H|H]; auto. Qed.
Lemma no_lf_single : forall c, c <> 10 -> no_lf [c].
Proof. intros c H [E|[]]. congruence. Qed.
Lemma no_lf_app_l : forall a b, no_lf (a ++ b) -> no_lf a.
Proof. intros a b H Hin. apply H. apply in_or_app. left. exact Hin. Qed.

(* ------------------------------------------------------------ the invariant *)
Record WFb (l : lexer) : Prop := mkWFb {
  b_plain : (st l = SOperator \/ st l = SNumber \/ st l = SFloat \/ st l = SIdentifier \/ st l = SAnnotation) -> no_lf (cur l);
  b_sp0 : st l = SSpaces -> could_sub l = false -> no_lf (cur l);
  b_sp1 : st l = SSpaces -> could_sub l = true ->
          exists a z b, cur l = a ++ z :: b /\ no_lf a /\ no_lf b /\ b <> [];
  b_sub : st l = SSubexpression -> exists a z, cur l = a ++ [z] /\ no_lf a;
  b_ty : (st l = SLineAnnotation \/ st l = SCharList \/ st l = SStartCharList \/ st l = SByteList \/ st l = SStartByteList) ->
         exempt_o (cur_ty l) = true;
  b_nt : st l = SNoToken -> could_sub l = false
}.

Lemma WFb_init : WFb init_lexer.
Proof. constructor; cbn; intros; try congruence; try (repeat match goal with H : _ \/ _ |- _ => destruct H end; discriminate). Qed.

Section Blank.
  Variables uni_numeric uni_alnum : N -> bool.
  Notation start_token := (start_token uni_numeric uni_alnum).
  Notation run_arm := (run_arm uni_numeric uni_alnum).
  Notation process_char := (process_char uni_numeric uni_alnum).
  Notation start_new_tail := (start_new_tail uni_numeric uni_alnum).

  Lemma identifier_char_not_lf : forall c, is_identifier_char uni_alnum c = true -> c <> 10.
  Proof. intros c H ->. vm_compute in H. discriminate. Qed.
  Lemma alnum_not_lf : forall c, is_alphanumeric uni_alnum c || (c =? ch_underscore) = true -> c <> 10.
  Proof. intros c H ->. vm_compute in H. discriminate. Qed.

  Ltac solve_states :=
    repeat match goal with
           | H : _ \/ _ |- _ => destruct H
           end; try discriminate; try congruence.

  Lemma start_token_blank : forall l c, could_sub l = false -> result (start_token l c) = None ->
    WFb (start_token l c).
  Proof.
    intros l c Hcs. unfold start_token.
    destruct (current_operator _) eqn:Eop.
    - intros _. constructor; cbn; intros; solve_states.
      apply no_lf_single. intros ->.
      assert (plain_op_char 10 = true) by (eapply current_operator_chars; [exact Eop | left; reflexivity]).
      discriminate.
    - repeat break_if; cbn; intros Hr; try discriminate; constructor; cbn; intros; solve_states.
      + apply no_lf_single. intros ->. discriminate.
      + exists [], c. split; [reflexivity | intros []].
      + apply no_lf_single. eapply numeric_not_lf; eauto.
      + apply no_lf_single. eapply identifier_char_not_lf; eauto.
      + apply no_lf_single. intros ->. discriminate.
      + apply no_lf_single. intros ->. discriminate.
  Qed.

  Definition arm_bl (l : lexer) (c : N) (ar : arm_result) : Prop :=
    match ar with
    | ArmPanic _ | Early _ => True
    | Arm l1 nt true =>
      exempt_o (cur_ty l1) = true \/
      (should_create l1 = true /\ has_blank (cur l1 ++ [c]) = false) \/
      no_lf (cur l1)
    | Arm l1 nt false =>
      result l1 = None ->
      WFb l1 /\ (forall t, nt = Some t -> no_lf (tok_text t))
    end.

  Lemma no_lf_snoc : forall a c, no_lf a -> c <> 10 -> no_lf (a ++ [c]).
  Proof. intros. apply no_lf_app; [assumption | apply no_lf_single; assumption]. Qed.

  Ltac wfb_tac := constructor; cbn; intros; solve_states.

  Lemma run_arm_blank : forall l c, WF l -> WFb l -> arm_bl l c (run_arm l c).
  Proof.
    intros l c [[_ _ Hsc _ Hfl] _] [Bp B0 B1 Bs Bt Bn]. unfold run_arm. destruct (st l) eqn:Hst.
    - (* NoToken *)
      unfold arm_bl. intros Hr. split; [apply start_token_blank; auto | intros ? ?; discriminate].
    - (* Operator *)
      assert (Hnl : no_lf (cur l)) by (apply Bp; auto).
      unfold arm_operator. destruct (current_operator (cur (push l c))) eqn:Eop.
      + cbn. intros _. split; [|intros ? ?; discriminate]. wfb_tac.
        apply no_lf_snoc; [exact Hnl|]. intros ->.
        assert (plain_op_char 10 = true).
        { eapply current_operator_chars; [exact Eop|]. cbn. apply in_or_app. right. left. reflexivity. }
        discriminate.
      + repeat break_if; cbn.
        * intros _. split; [|intros ? ?; discriminate]. wfb_tac.
          apply no_lf_snoc; [exact Hnl|]. intros ->.
          apply andb_true_iff in Heqb as [_ Hall]. cbn in Hall. rewrite forallb_app in Hall.
          apply andb_true_iff in Hall as [_ Hall]. vm_compute in Hall. discriminate.
        * intros _. split; [|intros ? ?; discriminate]. wfb_tac.
          apply no_lf_snoc; [exact Hnl|]. rewrite !andb_true_iff in Heqb0. destruct Heqb0 as [[_ Hn] _].
          eapply numeric_not_lf; eauto.
        * right. right. exact Hnl.
    - (* Spaces *)
      unfold arm_spaces. destruct (c =? ch_lf) eqn:Elf.
      + apply N.eqb_eq in Elf. subst c. cbn. destruct (could_sub l) eqn:Ecs; cbn.
        * left. reflexivity.
        * intros _. split; [|intros ? ?; discriminate]. wfb_tac.
          exists (cur l), ch_lf. split; [reflexivity|]. apply B0; auto.
      + apply N.eqb_neq in Elf. repeat break_if; cbn.
        * (* the whitespace token ends at a character that is not a line feed *)
          right. left. split; [exact Hsc|].
          destruct (could_sub l) eqn:Ecs.
          -- destruct (B1 eq_refl eq_refl) as (a & z & b & E & Ha & Hb & Hne). rewrite E.
             rewrite hb_one_inner by assumption. reflexivity.
          -- rewrite hb_nolf by (apply B0; auto). reflexivity.
        * intros _. split; [|intros ? ?; discriminate].
          assert (Hc : c <> 10) by exact Elf.
          wfb_tac.
          -- apply no_lf_snoc; auto.
          -- destruct (B1 eq_refl H0) as (a & z & b & E & Ha & Hb & Hne).
             exists a, z, (b ++ [c]). rewrite E. split; [rewrite <- app_assoc; reflexivity|].
             split; [exact Ha|]. split; [apply no_lf_snoc; assumption|]. destruct b; discriminate.
    - (* Subexpression *)
      destruct (Bs eq_refl) as (a & z & E & Ha).
      unfold arm_subexpression. repeat break_if; cbn.
      + left. reflexivity.
      + intros _. split; [|intros ? ?; discriminate].
        assert (Hc : c <> 10).
        { apply orb_true_iff in Heqb0 as [Hq|Hq]; apply N.eqb_eq in Hq; subst c; discriminate. }
        wfb_tac. exists a, z, [c]. rewrite E. split; [rewrite <- app_assoc; reflexivity|].
        split; [exact Ha|]. split; [apply no_lf_single; exact Hc | discriminate].
      + right. left. split; [exact Hsc|]. rewrite E. apply hb_one_last; [exact Ha|].
        intros ->. cbn in Heqb. discriminate.
    - (* Number *)
      assert (Hnl : no_lf (cur l)) by (apply Bp; auto).
      unfold arm_number. repeat break_if; cbn.
      + intros _. split; [|intros ? ?; discriminate]. wfb_tac.
        apply no_lf_snoc; [exact Hnl|]. eapply number_char_not_lf; eauto.
      + intros _. split; [|intros ? ?; discriminate]. wfb_tac.
        apply no_lf_snoc; [exact Hnl|]. apply andb_true_iff in Heqb0 as [Hq _]. apply N.eqb_eq in Hq. subst c. discriminate.
      + right. right. exact Hnl.
    - (* Float *)
      assert (Hnl : no_lf (cur l)) by (apply Bp; auto).
      unfold arm_float. destruct (is_number_char uni_numeric uni_alnum c) eqn:Enc.
      + cbn. intros _. split; [|intros ? ?; discriminate]. wfb_tac.
        apply no_lf_snoc; [exact Hnl|]. eapply number_char_not_lf; eauto.
      + destruct ((c =? ch_period) && ends_with ch_period (cur l)) eqn:Esplit.
        * apply andb_true_iff in Esplit as [Hc Hend]. apply N.eqb_eq in Hc. subst c.
          destruct (Hfl eq_refl Hend) as (nb & Hnb & Hne & Hno).
          destruct (text_col (set_start_row l (text_row l)) =? 0); [exact I|].
          change ch_period with 46.
          change (push (set_start_col (start_token (set_start_row l (text_row l)) 46)
                          (text_col (set_start_row l (text_row l)) - 1)) 46) with (float_split_state uni_numeric uni_alnum l).
          rewrite float_split_state_eq. cbn [cur]. rewrite current_operator_range.
          unfold arm_bl. intros _. split.
          -- wfb_tac. intros [E|[E|[]]]; discriminate.
          -- intros t Ht. inversion Ht; subst. cbn. rewrite Hnb, trim_matches_number by assumption.
             rewrite Hnb in Hnl. eapply no_lf_app_l; eauto.
        * cbn. right. right. exact Hnl.
    - (* Identifier *)
      assert (Hnl : no_lf (cur l)) by (apply Bp; auto).
      unfold arm_identifier. repeat break_if; cbn.
      all: try (right; right; first [exact Hnl | apply no_lf_snoc; [exact Hnl|]; apply N.eqb_eq in Heqb0; subst c; discriminate]).
      intros _. split; [|intros ? ?; discriminate]. wfb_tac.
      apply no_lf_snoc; [exact Hnl|]. eapply identifier_char_not_lf; eauto.
    - (* Annotation *)
      assert (Hnl : no_lf (cur l)) by (apply Bp; auto).
      unfold arm_annotation. repeat break_if; cbn.
      + intros _. split; [|intros ? ?; discriminate]. wfb_tac.
      + intros _. split; [|intros ? ?; discriminate]. wfb_tac.
        apply no_lf_snoc; [exact Hnl|]. eapply alnum_not_lf; eauto.
      + right. right. exact Hnl.
    - (* LineAnnotation *)
      assert (Hty : exempt_o (cur_ty l) = true) by (apply Bt; auto).
      unfold arm_line_annotation. repeat break_if; cbn; auto.
      intros _. split; [|intros ? ?; discriminate]. wfb_tac.
    - (* CharList *)
      assert (Hty : exempt_o (cur_ty l) = true) by (apply Bt; auto).
      unfold arm_list. repeat break_if; cbn; auto.
      all: intros _; split; [|intros ? ?; discriminate]; wfb_tac.
    - (* StartCharList *)
      assert (Hty : exempt_o (cur_ty l) = true) by (apply Bt; auto).
      unfold arm_start_list. repeat break_if; cbn; auto.
      all: intros _; split; [|intros ? ?; discriminate]; wfb_tac.
    - (* ByteList *)
      assert (Hty : exempt_o (cur_ty l) = true) by (apply Bt; auto).
      unfold arm_list. repeat break_if; cbn; auto.
      all: intros _; split; [|intros ? ?; discriminate]; wfb_tac.
    - (* StartByteList *)
      assert (Hty : exempt_o (cur_ty l) = true) by (apply Bt; auto).
      unfold arm_start_list. repeat break_if; cbn; auto.
      all: intros _; split; [|intros ? ?; discriminate]; wfb_tac.
  Qed.

  (* -------------------------------------------------------------- the tail *)
  Lemma tail_blank : forall l1 c, result l1 = None -> st l1 <> SNoToken ->
    match start_new_tail l1 None c with
    | TailEarly l2 => result l2 <> None
    | Tail l2 nt2 => result l2 = None -> WFb l2
    end.
  Proof.
    intros l1 c Hres Hst.
    unfold start_new_tail. cbn [st set_can_float].
    rewrite (lstate_eqb_notoken _ Hst). cbn [negb].
    set (l1' := set_can_float l1 (negb (blocks_float (cur_ty l1)))).
    destruct (can_create_valid_token l1') as [e|] eqn:Ecc.
    - cbn [result set_result].
      fold (reset_state (set_result l1' (Some e))).
      destruct (should_create (reset_state (set_result l1' (Some e)))).
      + intros Hr. destruct (start_token_frame uni_numeric uni_alnum (reset_state (set_result l1' (Some e))) c) as (_ & _ & _ & E2).
        apply E2 in Hr. discriminate.
      + cbn. discriminate.
    - cbn [result set_result cur_ty].
      destruct (cur_ty l1') as [ty|] eqn:Ety; [|cbn; discriminate].
      fold (reset_state (set_result l1' None)).
      set (l3 := reset_state (set_result l1' None)).
      assert (Hsc3 : should_create l3 = should_create l1) by reflexivity.
      rewrite Hsc3. destruct (should_create l1) eqn:Hsc.
      + intros Hr. apply start_token_blank; [reflexivity | exact Hr].
      + intros _. constructor; cbn; intros; solve_states.
  Qed.

  Lemma advance_could_sub : forall l c, could_sub (advance l c) = could_sub l.
  Proof. intros l c. unfold advance. destruct (negb (c =? ch_lf)); [reflexivity|]. destruct (st l); reflexivity. Qed.

  Lemma WFb_advance : forall l c, WFb l -> WFb (advance l c).
  Proof.
    intros l c [H1 H2 H3 H4 H5 H6].
    destruct (advance_frame l c) as (Ec & Es & _ & _ & _ & Ety & _).
    constructor; rewrite ?Es, ?Ec, ?Ety, ?advance_could_sub; assumption.
  Qed.

  Lemma process_char_blank : forall l c l' ot, WF l -> WFop l -> WFb l -> result l = None ->
    process_char l c = Ok (l', ot) -> result l' = None ->
    WFb l' /\
    (forall t, ot = Some t ->
       exempt_ty (tok_type t) = true \/ no_lf (tok_text t) \/
       (has_blank (tok_text t ++ [c]) = false /\ (~ sentinel l c -> cur l' = [c]))).
  Proof.
    intros l c l' ot Hwf Hwfop Hwfb Hres Hpc Hr'.
    pose proof (run_arm_blank l c Hwf Hwfb) as Hbl.
    unfold process_char in Hpc.
    destruct (run_arm l c) as [l1 nt sn | l1 | site] eqn:Harm; cbn [arm_bl] in Hbl.
    - destruct sn.
      + assert (Hfacts : result l1 = None /\ nt = None /\ st l1 <> SNoToken /\ at_end l1 = at_end l).
        { destruct (classic_sentinel l c) as [Hs|Hs].
          - destruct Hs as [-> Hae]. pose proof (run_arm_flush uni_numeric uni_alnum l Hwf Hres Hae) as Hf.
            rewrite Harm in Hf. cbn in Hf. destruct Hf as (A & B & C & D & _). repeat split; auto. congruence.
          - pose proof (run_arm_real uni_numeric uni_alnum l c Hwf Hres Hs) as Hf.
            rewrite Harm in Hf. cbn in Hf. destruct Hf as (A & B & C & D & _). repeat split; auto. }
        destruct Hfacts as (Hr1 & Hnt & Hst1 & Hae1). subst nt.
        pose proof (tail_blank l1 c Hr1 Hst1) as Htb.
        pose proof (tail_op uni_numeric uni_alnum l1 c Hr1 Hst1) as Ht.
        destruct (start_new_tail l1 None c) as [l2 nt2 | l2]; [|inversion Hpc; subst; congruence].
        inversion Hpc; subst l' ot. clear Hpc.
        destruct (advance_frame l2 c) as (Ec & Es & Er & _). rewrite Er in Hr'.
        destruct (Ht Hr') as (_ & Htok & Hl2). split; [apply WFb_advance; apply Htb; exact Hr'|].
        intros t Ht'. destruct (Htok t Ht') as [Hty Htxt]. rewrite Htxt.
        destruct Hbl as [Hex|[[Hsc Hhb]|Hnl]].
        * left. rewrite Hty in Hex. exact Hex.
        * right. right. split; [exact Hhb|].
          intros Hs. rewrite Ec, (Hl2 Hsc).
          assert (Hs3 : ~ sentinel (reset_state (set_result (set_can_float l1 (negb (blocks_float (cur_ty l1)))) None)) c).
          { intros [A B]. apply Hs. split; [exact A|]. cbn in B. congruence. }
          rewrite (Hl2 Hsc) in Hr'.
          destruct (start_token_real uni_numeric uni_alnum _ c Hs3 Hr') as [Hc _]. exact Hc.
        * right. left. exact Hnl.
      + inversion Hpc; subst l' ot. clear Hpc.
        destruct (advance_frame l1 c) as (_ & _ & Er & _). rewrite Er in Hr'.
        destruct (Hbl Hr') as [Hw Htok]. split; [apply WFb_advance; exact Hw|].
        intros t Ht. right. left. apply Htok. exact Ht.
    - inversion Hpc; subst. clear Hpc.
      exfalso. destruct (classic_sentinel l c) as [Hs|Hs].
      + destruct Hs as [-> Hae]. pose proof (run_arm_flush uni_numeric uni_alnum l Hwf Hres Hae) as Hf.
        rewrite Harm in Hf. cbn in Hf. destruct Hf. congruence.
      + pose proof (run_arm_real uni_numeric uni_alnum l c Hwf Hres Hs) as Hf.
        rewrite Harm in Hf. cbn in Hf. destruct Hf. congruence.
    - discriminate.
  Qed.

  (* ------------------------------------------------------------ the whole run *)
  Notation internal_next_loop := (internal_next_loop uni_numeric uni_alnum).
  Notation lex_loop := (lex_loop uni_numeric uni_alnum).

  Definition bl_tok (t : token) (rest : list N) : Prop :=
    exempt_ty (tok_type t) = true \/ has_blank (tok_text t ++ first_of rest) = false.

  Definition Inv3 (l : lexer) : Prop := WFop l /\ WFb l.

  Lemma hb_short : forall d, has_blank (first_of d) = false.
  Proof. intros [|x d]; reflexivity. Qed.

  Lemma internal_next_loop_blank : forall s l l' s' ot, WF l -> Inv3 l -> result l = None -> at_end l = false ->
    internal_next_loop l s = Ok (l', s', ot) -> result l' = None ->
    (at_end l' = false -> Inv3 l') /\
    match ot with
    | Some t => bl_tok t (cur l' ++ s')
    | None => True
    end.
  Proof.
    induction s as [|c rest IH]; intros l l' s' ot Hwf [Hwfop Hwfb] Hres Hae Hrun Hr'.
    - cbn [internal_next_loop] in Hrun.
      assert (Hwf0 : WF (set_at_end l true)) by (apply WF_set_at_end; exact Hwf).
      assert (Hwfb0 : WFb (set_at_end l true)) by (destruct Hwfb; constructor; assumption).
      destruct (process_char_flush uni_numeric uni_alnum (set_at_end l true) Hwf0 Hres eq_refl)
        as (l1 & ot1 & Hpc & Hae1 & Hspec).
      change ch_nul with 0 in Hrun. rewrite Hpc in Hrun. destruct ot1 as [t|].
      + inversion Hrun; subst l' s' ot. split; [intros; congruence|].
        destruct (Hspec Hr') as (_ & _ & Hc & _).
        destruct (process_char_blank (set_at_end l true) 0 l1 (Some t) Hwf0 (WFop_set_at_end l true Hwfop) Hwfb0 Hres Hpc Hr') as [_ Htok].
        rewrite Hc. unfold bl_tok. cbn [app first_of]. rewrite app_nil_r.
        destruct (Htok t eq_refl) as [He|[Hn|[Hb _]]].
        * left. exact He.
        * right. rewrite <- (app_nil_r (tok_text t)). rewrite hb_nolf by exact Hn. reflexivity.
        * right. eapply hb_app_nil_le. exact Hb.
      + inversion Hrun; subst s' ot. split; [|exact I].
        intros Hf. exfalso. revert Hf.
        destruct ((0 <? byte_len (cur l1)) && negb (is_err (result l1))); cbn; congruence.
    - cbn [internal_next_loop] in Hrun.
      assert (Hs : ~ sentinel l c) by (intros [_ H]; congruence).
      destruct (process_char_real uni_numeric uni_alnum l c Hwf Hres Hs) as (l1 & ot1 & Hpc & Hae1 & Hspec).
      rewrite Hpc in Hrun. destruct ot1 as [t|].
      + inversion Hrun; subst l' s' ot.
        destruct (process_char_blank l c l1 (Some t) Hwf Hwfop Hwfb Hres Hpc Hr') as [Hw Htok].
        destruct (process_char_op uni_numeric uni_alnum l c l1 (Some t) Hwf Hwfop Hres Hpc Hr') as [Hwo _].
        split; [intros _; split; assumption|].
        unfold bl_tok. destruct (Htok t eq_refl) as [He|[Hn|[Hb Hc]]].
        * left. exact He.
        * right. rewrite hb_nolf by exact Hn. apply hb_short.
        * right. rewrite (Hc Hs). exact Hb.
      + destruct (result l1) eqn:Hr1; cbn [is_err] in Hrun.
        * inversion Hrun; subst. congruence.
        * destruct (Hspec eq_refl) as (Hwf1 & _ & _).
          destruct (process_char_blank l c l1 None Hwf Hwfop Hwfb Hres Hpc Hr1) as [Hw _].
          destruct (process_char_op uni_numeric uni_alnum l c l1 None Hwf Hwfop Hres Hpc Hr1) as [Hwo _].
          eapply (IH l1); eauto; try congruence. split; assumption.
  Qed.

  Fixpoint bl_toks (ts : list token) : Prop :=
    match ts with
    | [] => True
    | t :: r => bl_tok t (texts r) /\ bl_toks r
    end.

  Lemma lex_loop_blank : forall fuel s l acc ts, WF l -> Inv3 l -> result l = None -> at_end l = false ->
    lex_loop fuel l s acc = LOk ts ->
    exists post, ts = acc ++ post /\ texts post = cur l ++ s /\ bl_toks post.
  Proof.
    induction fuel as [|f IH]; intros s l acc ts Hwf Hinv Hres Hae Hrun; [discriminate|].
    cbn [lex_loop] in Hrun. unfold internal_next in Hrun. rewrite Hres in Hrun. cbn [is_err] in Hrun.
    destruct (internal_next_loop_spec uni_numeric uni_alnum s l Hwf Hres Hae) as (l1 & s1 & ot & Hnext & Hlen & Hok).
    rewrite Hnext in Hrun. destruct ot as [t|].
    - destruct (result l1) eqn:Hr1; [discriminate|].
      destruct (Hok eq_refl) as (Hne & Hcat & Hwf1 & Hcase).
      destruct (internal_next_loop_blank s l l1 s1 (Some t) Hwf Hinv Hres Hae Hnext Hr1) as [Hw1 Hcut].
      destruct Hcase as [[Hae1 _]|(Hae1 & Hs1 & Hst1 & Hc1)].
      + destruct (IH s1 l1 (acc ++ [t]) ts Hwf1 (Hw1 Hae1) Hr1 Hae1 Hrun) as (post1 & E1 & E2 & E3).
        exists (t :: post1). split; [rewrite E1, <- app_assoc; reflexivity|].
        split.
        * change (t :: post1) with ([t] ++ post1). rewrite texts_app, texts_single, E2. exact Hcat.
        * cbn [bl_toks]. split; [rewrite E2; exact Hcut | exact E3].
      + subst s1. destruct f as [|f']; [discriminate|].
        rewrite (lex_loop_after_flush uni_numeric uni_alnum f' l1 (acc ++ [t]) Hwf1 Hr1 Hae1 Hst1) in Hrun.
        inversion Hrun; subst ts. exists [t]. split; [reflexivity|].
        rewrite Hc1, !app_nil_r in Hcat. rewrite Hc1 in Hcut. cbn [app] in Hcut.
        split; [rewrite texts_single; exact Hcat|].
        cbn [bl_toks]. split; [exact Hcut | exact I].
    - destruct (result l1) eqn:Hr1; [discriminate|]. inversion Hrun; subst ts.
      exists []. rewrite app_nil_r. split; [reflexivity|]. split; [|exact I].
      symmetry. exact (Hok eq_refl).
  Qed.

  Lemma bl_toks_split : forall pre t post, bl_toks (pre ++ t :: post) -> bl_tok t (texts post).
  Proof.
    induction pre as [|x pre IH]; intros t post H; cbn [app bl_toks] in H.
    - exact (proj1 H).
    - apply IH. exact (proj2 H).
  Qed.

  Lemma lex_blank_tokens : forall s ts,
    lex uni_numeric uni_alnum s = Ok ts ->
    forall pre t post, ts = pre ++ t :: post -> bl_tok t (texts post).
  Proof.
    intros s ts H. unfold lex in H.
    destruct (lex_run uni_numeric uni_alnum s) as [ts'| | |] eqn:Hrun; try discriminate.
    inversion H; subst ts'. unfold lex_run in Hrun.
    destruct (lex_loop_blank _ s init_lexer [] ts WF_init (conj WFop_init WFb_init) eq_refl eq_refl Hrun) as (post & E1 & _ & E3).
    cbn [app] in E1. subst post.
    intros pre t post E. subst ts. exact (bl_toks_split pre t post E3).
  Qed.
End Blank.
