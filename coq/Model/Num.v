(* Model of data/src/data/number.rs: SimpleNumber and its GarnishNumber impl.
   i32 values are [Z] with explicit wrap/flag primitives (the documented
   behaviour of Rust's overflowing_* family); f64 values are Flocq binary64.
   No proofs in this file. *)
From Coq Require Import ZArith Bool.
From Flocq Require Import IEEE754.BinarySingleNaN IEEE754.Binary IEEE754.Bits.
Local Open Scope Z_scope.

Definition i32_min : Z := -2147483648.
Definition i32_max : Z := 2147483647.
Definition in_i32 (z : Z) : bool := (i32_min <=? z) && (z <=? i32_max).
Definition wrap32 (z : Z) : Z := (z + 2147483648) mod 4294967296 - 2147483648.

Inductive num : Type := Int (z : Z) | Flt (f : binary64).

(* ---- i32 primitives, as the standard library documents them ---- *)
Definition overflowing_add (a b : Z) : Z * bool := (wrap32 (a + b), negb (in_i32 (a + b))).
Definition overflowing_sub (a b : Z) : Z * bool := (wrap32 (a - b), negb (in_i32 (a - b))).
Definition overflowing_mul (a b : Z) : Z * bool := (wrap32 (a * b), negb (in_i32 (a * b))).
(* callers guarantee b <> 0 (the zero-divisor guard comes first) *)
Definition overflowing_div (a b : Z) : Z * bool :=
  if (a =? i32_min) && (b =? -1) then (i32_min, true) else (Z.quot a b, false).
Definition overflowing_rem (a b : Z) : Z * bool :=
  if (a =? i32_min) && (b =? -1) then (0, true) else (Z.rem a b, false).
Definition overflowing_abs (a : Z) : Z * bool :=
  if a =? i32_min then (i32_min, true) else (Z.abs a, false).
Definition overflowing_neg (a : Z) : Z * bool :=
  if a =? i32_min then (i32_min, true) else (- a, false).
(* e is the u32 exponent. For |a| >= 2 and e > 31 the power certainly
   overflows; the wrapped value is not modelled there (callers drop it). *)
Definition overflowing_pow (a e : Z) : Z * bool :=
  if a =? 0 then ((if e =? 0 then 1 else 0), false)
  else if a =? 1 then (1, false)
  else if a =? -1 then ((if Z.even e then 1 else -1), false)
  else if 31 <? e then (0, true)
  else (wrap32 (a ^ e), negb (in_i32 (a ^ e))).
(* i32::checked_shl / checked_shr after u32::try_from on the count *)
Definition checked_shl (a c : Z) : option Z :=
  if (0 <=? c) && (c <=? 31) then Some (wrap32 (a * 2 ^ c)) else None.
Definition checked_shr (a c : Z) : option Z :=
  if (0 <=? c) && (c <=? 31) then Some (Z.shiftr a c) else None.

(* ---- f64 primitives ---- *)
Definition f64_of_i32 (z : Z) : binary64 :=
  Binary.binary_normalize 53 1024 (eq_refl _) (eq_refl _) mode_NE z 0 false.
Definition f64_finite (f : binary64) : bool := Binary.is_finite 53 1024 f.
Definition f64_add := b64_plus mode_NE.
Definition f64_sub := b64_minus mode_NE.
Definition f64_mul := b64_mult mode_NE.
Definition f64_div := b64_div mode_NE.
Definition f64_neg (f : binary64) : binary64 := b64_opp f.
Definition f64_abs (f : binary64) : binary64 := b64_abs f.
Definition f64_one : binary64 := f64_of_i32 1.
Definition f64_is_zero (f : binary64) : bool :=
  match f with Binary.B754_zero _ _ _ => true | _ => false end.
Definition f64_is_nan (f : binary64) : bool :=
  match f with Binary.B754_nan _ _ _ _ _ => true | _ => false end.
Definition f64_lt_zero (f : binary64) : bool :=
  match b64_compare f (Binary.B754_zero 53 1024 false) with Some Lt => true | _ => false end.

(* exact C fmod on finite operands with y <> 0: align the exponents, take the
   integer remainder (sign of x), renormalise (exactly representable). *)
Definition f64_rem (x y : binary64) : binary64 :=
  match x, y with
  | Binary.B754_nan _ _ _ _ _, _ => x
  | _, Binary.B754_nan _ _ _ _ _ => y
  | Binary.B754_infinity _ _ _, _ => Binary.B754_nan 53 1024 true 1%positive (eq_refl _)
  | _, Binary.B754_zero _ _ _ => Binary.B754_nan 53 1024 true 1%positive (eq_refl _)
  | Binary.B754_zero _ _ _, _ => x
  | Binary.B754_finite _ _ _ _ _ _, Binary.B754_infinity _ _ _ => x
  | Binary.B754_finite _ _ sx mx ex _, Binary.B754_finite _ _ sy my ey _ =>
      let e := Z.min ex ey in
      let X := Z.pos mx * 2 ^ (ex - e) in
      let Y := Z.pos my * 2 ^ (ey - e) in
      let R := Z.rem X Y in
      if R =? 0 then Binary.B754_zero 53 1024 sx
      else Binary.binary_normalize 53 1024 (eq_refl _) (eq_refl _) mode_NE (if sx then - R else R) e false
  end.

(* `f as i32`: truncate toward zero, saturate, NaN -> 0 *)
Definition f64_as_i32 (f : binary64) : Z :=
  match f with
  | Binary.B754_nan _ _ _ _ _ => 0
  | Binary.B754_zero _ _ _ => 0
  | Binary.B754_infinity _ _ s => if s then i32_min else i32_max
  | Binary.B754_finite _ _ s m e _ =>
      let mag := if 0 <=? e then Z.pos m * 2 ^ e else Z.pos m / 2 ^ (- e) in
      let v := if s then - mag else mag in
      Z.max i32_min (Z.min i32_max v)
  end.

(* ---- number equality / ordering (PartialEq, PartialOrd for SimpleNumber) ---- *)
Definition num_partial_cmp (l r : num) : option comparison :=
  match l, r with
  | Int a, Int b => Some (a ?= b)
  | Flt a, Flt b => b64_compare a b
  | Int a, Flt b => b64_compare (f64_of_i32 a) b
  | Flt a, Int b => b64_compare a (f64_of_i32 b)
  end.
Definition num_eq (l r : num) : bool :=
  match num_partial_cmp l r with Some Eq => true | _ => false end.

(* ---- GarnishNumber ---- *)
Definition flt_result (f : binary64) : option num :=
  if f64_finite f then Some (Flt f) else None.

Definition do_op (iop : Z -> Z -> Z * bool) (fop : binary64 -> binary64 -> binary64)
           (l r : num) : option num :=
  match l, r with
  | Int a, Int b => let '(v, o) := iop a b in if o then None else Some (Int v)
  | Flt a, Flt b => flt_result (fop a b)
  | Int a, Flt b => flt_result (fop (f64_of_i32 a) b)
  | Flt a, Int b => flt_result (fop a (f64_of_i32 b))
  end.

Definition is_zero_num (r : num) : bool :=
  num_eq r (Int 0) || num_eq r (Flt (Binary.B754_zero 53 1024 false)).

Definition num_plus := do_op overflowing_add f64_add.
Definition num_subtract := do_op overflowing_sub f64_sub.
Definition num_multiply := do_op overflowing_mul f64_mul.
Definition num_divide (l r : num) : option num :=
  if is_zero_num r then None else do_op overflowing_div f64_div l r.
Definition num_remainder (l r : num) : option num :=
  if is_zero_num r then None else do_op overflowing_rem f64_rem l r.

Definition num_integer_divide (l r : num) : option num :=
  if is_zero_num r then None else
  match l, r with
  | Int a, Int b => let '(v, o) := overflowing_div a b in if o then None else Some (Int v)
  | Flt a, Flt b => Some (Int (f64_as_i32 (f64_div a b)))
  | Int a, Flt b => Some (Int (f64_as_i32 (f64_div (f64_of_i32 a) b)))
  | Flt a, Int b => Some (Int (f64_as_i32 (f64_div a (f64_of_i32 b))))
  end.

(* powf has no Flocq counterpart: it is an oracle argument *)
Definition num_power (powf : binary64 -> binary64 -> binary64) (l r : num) : option num :=
  match l, r with
  | Int a, Int b =>
      if b <? 0 then None else
      let '(v, o) := overflowing_pow a b in if o then None else Some (Int v)
  | Flt a, Flt b => if f64_lt_zero b then None else flt_result (powf a b)
  | Int a, Flt b => if f64_lt_zero b then None else flt_result (powf (f64_of_i32 a) b)
  | Flt a, Int b => if b <? 0 then None else flt_result (powf a (f64_of_i32 b))
  end.

Definition num_absolute_value (x : num) : option num :=
  match x with
  | Int a => let '(v, o) := overflowing_abs a in if o then None else Some (Int v)
  | Flt f => Some (Flt (f64_abs f))
  end.
Definition num_opposite (x : num) : option num :=
  match x with
  | Int a => let '(v, o) := overflowing_neg a in if o then None else Some (Int v)
  | Flt f => Some (Flt (f64_neg f))
  end.
Definition num_increment (x : num) : option num :=
  match x with
  | Int a => let '(v, o) := overflowing_add a 1 in if o then None else Some (Int v)
  | Flt f => Some (Flt (f64_add f f64_one))
  end.
Definition num_decrement (x : num) : option num :=
  match x with
  | Int a => let '(v, o) := overflowing_sub a 1 in if o then None else Some (Int v)
  | Flt f => Some (Flt (f64_sub f f64_one))
  end.
Definition num_bitwise_not (x : num) : option num :=
  match x with Int a => Some (Int (Z.lnot a)) | Flt _ => None end.
Definition int_only (f : Z -> Z -> option Z) (l r : num) : option num :=
  match l, r with
  | Int a, Int b => match f a b with Some v => Some (Int v) | None => None end
  | _, _ => None
  end.
Definition num_bitwise_and := int_only (fun a b => Some (Z.land a b)).
Definition num_bitwise_or := int_only (fun a b => Some (Z.lor a b)).
Definition num_bitwise_xor := int_only (fun a b => Some (Z.lxor a b)).
Definition num_shift_left := int_only checked_shl.
Definition num_shift_right := int_only checked_shr.

Inductive binop : Type :=
| OpAdd | OpSub | OpMul | OpDiv | OpIntDiv | OpPow | OpRem
| OpAnd | OpOr | OpXor | OpShl | OpShr.
Inductive unop : Type := OpAbs | OpNeg | OpInc | OpDec | OpNot.

Definition num_binop (powf : binary64 -> binary64 -> binary64) (o : binop) : num -> num -> option num :=
  match o with
  | OpAdd => num_plus | OpSub => num_subtract | OpMul => num_multiply
  | OpDiv => num_divide | OpIntDiv => num_integer_divide
  | OpPow => num_power powf | OpRem => num_remainder
  | OpAnd => num_bitwise_and | OpOr => num_bitwise_or | OpXor => num_bitwise_xor
  | OpShl => num_shift_left | OpShr => num_shift_right
  end.
Definition num_unop (o : unop) : num -> option num :=
  match o with
  | OpAbs => num_absolute_value | OpNeg => num_opposite
  | OpInc => num_increment | OpDec => num_decrement | OpNot => num_bitwise_not
  end.
