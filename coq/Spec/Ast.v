(* The core language of C01 / C10 / C17 as an abstract syntax tree.
   Written from the property text and the language documents (README,
   docs/src/precedence.md), independently of the parser and the builder.

   Every node is a leaf, a unary or a binary node, as in the source grammar:
   a space list `a b c` is the left-nested chain EList Space (EList Space a b) c,
   an else-chain `c1 ?> a1 |> c2 ?> a2 |> e` is EElse (EElse (ECond c1 a1) (ECond c2 a2)) e,
   a sub-expression sequence is ESeq.  [wf_prog] says which trees are programs
   of the core grammar (what can be written without changing the meaning). *)
From Coq Require Import ZArith NArith List Bool.
Import ListNotations.

Inductive lit : Type :=
| LInt (n : N)                  (* decimal integer literal *)
| LFloat (m : N) (k : nat)      (* decimal literal m / 10^k written with k >= 1 fraction digits *)
| LStr (cs : list N)            (* char list literal, code points *)
| LSym (name : list N)          (* :name *)
| LProp (name : list N)         (* bare name directly after `.`: a symbol *)
| LUnit | LTrue | LFalse.       (* ()  $?  $! *)

Inductive unop : Type :=
| UAbs | UNeg | UBitNot         (* ++ -- !   (prefix) *)
| UNot | UTis                   (* !! ??     (prefix) *)
| ULeft                         (* _.        (prefix) *)
| URight | ULen                 (* ._ .|     (suffix) *)
| UEmptyApply.                  (* ~~        (suffix) *)

Inductive binop : Type :=
| BAdd | BSub | BMul | BDiv | BIntDiv | BPow | BRem
| BBitAnd | BBitOr | BBitXor | BShl | BShr
| BLt | BLe | BGt | BGe
| BEq | BNe
| BXor                          (* ^^ *)
| BPair                         (* =  (right to left) *)
| BAccess                       (* . *)
| BApply                        (* f <~ x *)
| BApplyTo.                     (* x ~> f *)

Inductive list_kind : Type := Space | Comma.
Inductive sep : Type := Semi | Blank.     (* `;`  or a blank line *)

Inductive expr : Type :=
| ELit (l : lit)
| EValue                                  (* $ *)
| EIdent (name : list N)
| EUn (o : unop) (e : expr)
| EBin (o : binop) (l r : expr)
| EAnd (l r : expr)                       (* && *)
| EOr (l r : expr)                        (* || *)
| EList (k : list_kind) (l r : expr)
| EGroup (e : expr)                       (* ( e ) *)
| ECond (neg : bool) (c a : expr)         (* c ?> a   /  c !> a *)
| EElse (l r : expr)                      (* l |> r *)
| ESeq (s : sep) (l r : expr)
| ESide (e s : expr)                      (* e [ s ]  : e is an atom *)
| ENested (label : N) (body : expr)       (* { body } *)
| EReapply (e : expr).                    (* ^~ e *)

Definition is_prefix (o : unop) : bool :=
  match o with UAbs | UNeg | UBitNot | UNot | UTis | ULeft => true | _ => false end.

(* ---- shape predicates used by the printer, the grammar and the evaluator ---- *)
Definition is_cond (e : expr) : bool := match e with ECond _ _ _ => true | _ => false end.
Definition is_else (e : expr) : bool := match e with EElse _ _ => true | _ => false end.
Definition is_seq (e : expr) : bool := match e with ESeq _ _ _ => true | _ => false end.
Definition is_atom (e : expr) : bool :=
  match e with
  | ELit (LProp _) => false
  | ELit _ | EValue | EIdent _ => true
  | _ => false
  end.
Definition is_list_of (k : list_kind) (e : expr) : bool :=
  match e, k with
  | EList Space _ _, Space => true
  | EList Comma _ _, Comma => true
  | _, _ => false
  end.

(* ---- size (constructor count), for generators and fuel ---- *)
Fixpoint size (e : expr) : nat :=
  match e with
  | ELit _ | EValue | EIdent _ => 1
  | EUn _ e | EGroup e | ENested _ e | EReapply e => S (size e)
  | EBin _ l r | EAnd l r | EOr l r | EList _ l r | ECond _ l r | EElse l r | ESeq _ l r | ESide l r =>
      S (size l + size r)
  end.

(* ---- the nested expression bodies of a program, by label ---- *)
Fixpoint bodies (e : expr) : list (N * expr) :=
  match e with
  | ELit _ | EValue | EIdent _ => []
  | EUn _ e | EGroup e | EReapply e => bodies e
  | ENested lbl b => (lbl, b) :: bodies b
  | EBin _ l r | EAnd l r | EOr l r | EList _ l r | ECond _ l r | EElse l r | ESeq _ l r | ESide l r =>
      bodies l ++ bodies r
  end.

Fixpoint find_body (l : list (N * expr)) (lbl : N) : option expr :=
  match l with
  | [] => None
  | (k, b) :: r => if N.eqb k lbl then Some b else find_body r lbl
  end.

(* labels are distinct *)
Fixpoint distinct (l : list N) : bool :=
  match l with
  | [] => true
  | x :: r => negb (existsb (N.eqb x) r) && distinct r
  end.

(* ---- the grammar: which trees are programs ---- *)
Definition ident_char_ok (first : bool) (c : N) : bool :=
  (* [a-z_] then [a-z0-9_] *)
  ((97 <=? c) && (c <=? 122))%N || (c =? 95)%N || (negb first && (48 <=? c)%N && (c <=? 57)%N).
Definition ident_ok (name : list N) : bool :=
  match name with
  | [] => false
  | c :: r => ident_char_ok true c && forallb (ident_char_ok false) r
  end.
(* characters that need no escape inside a char list literal: printable ASCII except the double quote and the backslash *)
Definition str_char_ok (c : N) : bool :=
  ((32 <=? c) && (c <=? 126) && negb (c =? 34) && negb (c =? 92))%N.

Definition lit_ok (l : lit) : bool :=
  match l with
  | LInt n => (n <=? 2147483647)%N
  | LFloat m k => (m <=? 2147483647)%N && Nat.leb 1 k && Nat.leb k 9
  | LStr cs => forallb str_char_ok cs
  | LSym name | LProp name => ident_ok name
  | LUnit | LTrue | LFalse => true
  end.

(* [wf body e]: e is a tree of the core grammar; [body] says whether e stands
   where a sub-expression sequence may stand (a whole program, the body of
   { } or [ ]).  Precedence is not looked at here: Spec/Printer.v adds
   [paren_ok] (every operand binds tightly enough to stand where it stands;
   EGroup is the only way to override precedence). *)
Fixpoint wf (body : bool) (e : expr) : bool :=
  match e with
  | ELit (LProp _) => false                      (* only directly right of `.` *)
  | ELit l => lit_ok l
  | EValue => true
  | EIdent name => ident_ok name
  | EUn _ e => wf false e
  | EBin BAccess l (ELit (LProp name)) => wf false l && ident_ok name
  | EBin BAccess l (EIdent _) => false           (* would read as a property *)
  | EBin _ l r => wf false l && wf false r
  | EAnd l r | EOr l r => wf false l && wf false r
  | EList _ l r => wf false l && wf false r
  | EGroup e => wf false e
  | ECond _ c a => wf false c && wf false a
  | EElse l r =>
      (* items are conditionals; only the last may be another expression (the final else) *)
      (is_cond l || is_else l) && wf false l && wf false r
      && match l with EElse _ lr => is_cond lr | _ => true end
  | ESeq s l r => body && wf true l && wf true r
  | ESide a s => is_atom a && wf false a && wf true s
  | ENested _ b => wf true b
  | EReapply e => wf false e
  end.

Definition wf_prog (e : expr) : bool := wf true e && distinct (map fst (bodies e)).
