(* Model of runtime/src/runtime/equality.rs: equal, not_equal,
   perform_equality_check, data_equal, compare, compare_list_to_primitive,
   compare_index_iterator_values, compare_item_iterators(_2),
   push_iterator_values, match_last_iter_values.

   The register (operand) stack is a list, head = top.  It holds value trees:
   the real registers hold addresses and the data implementation maps an
   address to what the getters and item iterators return; since equality only
   reads, an address is abstracted to the tree readable from it (sharing and
   placement are invisible by construction; that they are invisible in the
   implementations is what the eq correspondence run checks on both of them).
   The item iterators of data/src/runtime.rs + simple.rs
   (get_list_item_iter, get_concatenation_iter/collect_concatenation_indices)
   and data/src/basic/garnish/garnish_impl.rs (same names) are [item_iter_values]:
   a list yields its items; a concatenation is walked left to right, nested
   concatenations are walked recursively, a nested list contributes its
   items, anything else is one item.

   The worklist discipline is the code's: perform_equality_check remembers
   start = depth - 2, pops (right, left), asks data_equal, which pushes the
   components of pairs and the items of lists/concatenations pairwise, and
   loops until the depth is back at start; on the first mismatch it pops down
   to start and answers false.  The loop is fuel-driven ([OutOfFuel] is
   excluded by the theorems, fuel bounded by the operand sizes).

   The type-pair arms come from Gen/EqTable.v (regenerated from the Rust on
   every check).  Range and Slice arms are outside C11's domain:
   [E_out_of_scope].  No proofs in this file. *)
From Coq Require Import ZArith NArith List Bool Arith.
From GV Require Import Base.Result Gen.Instr Gen.EqTable Model.Num Model.Value.
Import ListNotations.

Definition E_wrong_type : N := 1%N.       (* a getter applied to another type: DataError *)
Definition E_no_register : N := 3%N.      (* next_ref on an empty register stack *)
Definition E_state : N := 4%N.            (* "Not enough registers to perform comparison." *)
Definition E_out_of_scope : N := 99%N.    (* Range / Slice arms: not modelled *)

Definition find_eq_arm (lt rt : data_type) : eq_arm :=
  match find (fun row => match row with (a, b, _) => data_type_eqb a lt && data_type_eqb b rt end) eq_arms with
  | Some (_, _, k) => k
  | None => eq_default
  end.

(* ---- getters ---- *)
Inductive scalar : Type := ScN (n : N) | ScNum (x : num).

Definition get_scalar (g : getter) (v : val) : res scalar :=
  match g, v with
  | G_expression, VExpr n => Ok (ScN n)
  | G_external, VExternal n => Ok (ScN n)
  | G_symbol, VSym s => Ok (ScN s)
  | G_char, VChar c => Ok (ScN c)
  | G_byte, VByte b => Ok (ScN b)
  | G_number, VNum x => Ok (ScNum x)
  | _, _ => Err E_wrong_type
  end.

(* `left == right` on what the getter returned (PartialEq of u64/char/u8/usize, of SimpleNumber) *)
Definition scalar_eq (a b : scalar) : bool :=
  match a, b with
  | ScN x, ScN y => (x =? y)%N
  | ScNum x, ScNum y => num_eq x y
  | _, _ => false
  end.

Definition get_type (v : val) : res data_type := match v with VType t => Ok t | _ => Err E_wrong_type end.
Definition get_pair (v : val) : res (val * val) := match v with VPair a b => Ok (a, b) | _ => Err E_wrong_type end.

Definition list_elems (k : elem_kind) (v : val) : res (list N) :=
  match k, v with
  | EK_char, VChars l => Ok l
  | EK_byte, VBytes l => Ok l
  | _, _ => Err E_wrong_type
  end.
Definition prim_elem (k : elem_kind) (v : val) : res N :=
  match k, v with
  | EK_char, VChar c => Ok c
  | EK_byte, VByte b => Ok b
  | _, _ => Err E_wrong_type
  end.

(* compare_list_to_primitive: len == 1, then item 0 against the primitive *)
Definition compare_list_to_primitive (k : elem_kind) (lst prim : val) : res bool :=
  do l <- list_elems k lst;
  if Nat.eqb (length l) 1 then
    match nth_error l 0 with
    | Some c1 => do c2 <- prim_elem k prim; Ok (c1 =? c2)%N
    | None => Ok false
    end
  else Ok false.

(* compare_index_iterator_values + match_last_iter_values *)
Fixpoint iter_values_equal {A : Type} (eqA : A -> A -> bool) (i1 i2 : list A) : bool :=
  match i1, i2 with
  | x :: i1', y :: i2' => if eqA x y then iter_values_equal eqA i1' i2' else false
  | [], [] => true
  | _, _ => false
  end.

(* derived PartialEq of SymbolListPart<u64, SimpleNumber> *)
Definition sympart_eq (a b : sympart) : bool :=
  match a, b with
  | SPSym x, SPSym y => (x =? y)%N
  | SPNum x, SPNum y => num_eq x y
  | _, _ => false
  end.

Definition compare_iter (k : iter_kind) (l r : val) : res bool :=
  match k, l, r with
  | IK_chars, VChars a, VChars b => Ok (iter_values_equal N.eqb a b)
  | IK_bytes, VBytes a, VBytes b => Ok (iter_values_equal N.eqb a b)
  | IK_symbols, VSymList a, VSymList b => Ok (iter_values_equal sympart_eq a b)
  | _, _, _ => Err E_wrong_type
  end.

(* ---- item iterators of the data implementations ---- *)
Fixpoint flat (v : val) : list val :=
  match v with
  | VConcat a b => flat a ++ flat b
  | VList items => items
  | x => [x]
  end.

Definition item_iter_values (it : item_iter) (v : val) : list val :=
  match it, v with
  | It_list, VList items => items
  | It_concat, VConcat a b => flat a ++ flat b
  | _, _ => []   (* Simple: an empty iterator; Basic: Err. Unreachable: the arm fixes the type *)
  end.

(* push_iterator_values: push the items pairwise while both iterators yield;
   true iff they run out together *)
Fixpoint push_iterator_values (regs : list val) (i1 i2 : list val) : list val * bool :=
  match i1, i2 with
  | x :: i1', y :: i2' => push_iterator_values (y :: x :: regs) i1' i2'
  | [], [] => (regs, true)
  | _, _ => (regs, false)
  end.

(* ---- data_equal: may push pending pairs; answers "equal so far" ---- *)
Definition data_equal (l r : val) (regs : list val) : res (list val * bool) :=
  match find_eq_arm (type_of_val l) (type_of_val r) with
  | EqTrue => Ok (regs, true)
  | EqFalse => Ok (regs, false)
  | EqType => do a <- get_type l; do b <- get_type r; Ok (regs, data_type_eqb a b)
  | EqGet g => do a <- get_scalar g l; do b <- get_scalar g r; Ok (regs, scalar_eq a b)
  | EqListPrim k list_is_left =>
      do b <- (if list_is_left then compare_list_to_primitive k l r else compare_list_to_primitive k r l);
      Ok (regs, b)
  | EqIter k => do b <- compare_iter k l r; Ok (regs, b)
  | EqPair =>
      do p1 <- get_pair l; do p2 <- get_pair r;
      let '(left1, right1) := p1 in let '(left2, right2) := p2 in
      Ok (right2 :: right1 :: left2 :: left1 :: regs, true)
  | EqItems itl itr => Ok (push_iterator_values regs (item_iter_values itl l) (item_iter_values itr r))
  | EqOutOfScope => Err E_out_of_scope
  end.

(* `while get_register_len() > start { pop_register() }` *)
Definition drain (regs : list val) (start : nat) : list val := skipn (length regs - start) regs.

Fixpoint eq_loop (fuel : nat) (start : nat) (regs : list val) : res (list val * bool) :=
  match fuel with
  | O => OutOfFuel
  | S fuel' =>
      if Nat.ltb start (length regs) then
        match regs with
        | r :: l :: regs' =>
            do st <- data_equal l r regs';
            let '(regs'', eq) := st in
            if eq then eq_loop fuel' start regs'' else Ok (drain regs'' start, false)
        | _ => Err E_no_register
        end
      else Ok (regs, true)
  end.

Definition perform_equality_check (fuel : nat) (regs : list val) : res (list val * bool) :=
  if Nat.ltb (length regs) 2 then Err E_state
  else eq_loop fuel (length regs - 2) regs.

Definition push_boolean (b : bool) (regs : list val) : list val := (if b then VTrue else VFalse) :: regs.

Definition equal_fuel (fuel : nat) (regs : list val) : res (list val) :=
  do st <- perform_equality_check fuel regs; let '(regs', b) := st in Ok (push_boolean b regs').
Definition not_equal_fuel (fuel : nat) (regs : list val) : res (list val) :=
  do st <- perform_equality_check fuel regs; let '(regs', b) := st in Ok (push_boolean (negb b) regs').

(* enough fuel for any two operands (Proofs/C11: one more than their sizes) *)
Fixpoint val_size (v : val) : nat :=
  match v with
  | VPair a b | VConcat a b | VRange a b | VSlice a b | VPartial a b => S (val_size a + val_size b)
  | VList items => S (fold_right (fun x acc => val_size x + acc) 0 items)
  | _ => 1
  end.
Definition fuel_for (regs : list val) : nat :=
  match regs with r :: l :: _ => S (val_size l + val_size r) | _ => 1 end.

Definition equal (regs : list val) : res (list val) := equal_fuel (fuel_for regs) regs.
Definition not_equal (regs : list val) : res (list val) := not_equal_fuel (fuel_for regs) regs.
