(* C17 on the runtime model: what one Resolve step and one Apply-of-an-external
   step do to the registers and to the host trace, for every state. *)
From Coq Require Import ZArith NArith List Bool Arith Lia.
From GV Require Import Base.Result Base.Host Gen.Instr Gen.Exec Model.Num Model.Value Model.Machine.
Import ListNotations.

Section HostOps.
Variable hstate : Type.
Variable host : hstate -> host_call -> hstate * option val.
Variable p : program.
Notation St := (mkSt hstate).

(* the lookup of a symbol in the current input value, as the Resolve operation performs it *)
Definition input_lookup (sym : N) (vin : val) : res (option val) :=
  match access_with_symbol sym vin with
  | Ok f => Ok f
  | Err c => if N.eqb c E_unsupported then Ok None else Err c
  | Panic x => Panic x
  | OutOfFuel => OutOfFuel
  end.

(* found in the input value: pushed, the host is not called *)
Lemma resolve_found : forall sym vin v pcx sg vs fs h t,
  input_lookup sym vin = Ok (Some v) ->
  resolve_op hstate host (MVal (VSym sym)) (St pcx sg (vin :: vs) fs h t) =
  Ok (St pcx (v :: sg) (vin :: vs) fs h t, None).
Proof.
  intros sym vin v pcx sg vs fs h t H. unfold resolve_op. cbn [vals get_access_addr bind].
  unfold input_lookup in H. rewrite H. reflexivity.
Qed.

(* not found: the host's resolve is called exactly once with that symbol; its
   answer is pushed, or unit when it declines *)
Lemma resolve_not_found : forall sym vin pcx sg vs fs h t,
  input_lookup sym vin = Ok None ->
  resolve_op hstate host (MVal (VSym sym)) (St pcx sg (vin :: vs) fs h t) =
  Ok (St pcx ((match snd (host h (HResolve sym)) with Some v => v | None => VUnit end) :: sg)
         (vin :: vs) fs (fst (host h (HResolve sym))) (t ++ [HResolve sym]), None).
Proof.
  intros sym vin pcx sg vs fs h t H. unfold resolve_op. cbn [vals get_access_addr bind].
  unfold input_lookup in H. rewrite H. cbn [bind]. unfold ask. cbn [hs pc regs vals frames tr].
  destruct (host h (HResolve sym)) as [h' r]. cbn [fst snd]. destruct r; reflexivity.
Qed.

(* no input value at all: the same as not found *)
Lemma resolve_no_input : forall sym pcx sg fs h t,
  resolve_op hstate host (MVal (VSym sym)) (St pcx sg [] fs h t) =
  Ok (St pcx ((match snd (host h (HResolve sym)) with Some v => v | None => VUnit end) :: sg)
         [] fs (fst (host h (HResolve sym))) (t ++ [HResolve sym]), None).
Proof.
  intros. unfold resolve_op. cbn [vals bind]. unfold ask. cbn [hs pc regs vals frames tr].
  destruct (host h (HResolve sym)) as [h' r]. cbn [fst snd]. destruct r; reflexivity.
Qed.

(* the three cases are exhaustive up to a lookup error, which is the operation's error *)
Lemma resolve_error : forall sym vin c pcx sg vs fs h t,
  input_lookup sym vin = Err c ->
  resolve_op hstate host (MVal (VSym sym)) (St pcx sg (vin :: vs) fs h t) = Err c.
Proof.
  intros sym vin c pcx sg vs fs h t H. unfold resolve_op. cbn [vals get_access_addr bind].
  unfold input_lookup in H. rewrite H. reflexivity.
Qed.

(* Apply with an external on the left: the host's apply is called exactly once
   with the external's number and the argument; its answer is pushed, or unit *)
Lemma apply_external : forall (i : instruction) k arg pcx sg vs fs h t,
  apply_internal hstate host p i (St pcx (arg :: VExternal k :: sg) vs fs h t) =
  Ok (St pcx ((match snd (host h (HApply k arg)) with Some v => v | None => VUnit end) :: sg)
         vs fs (fst (host h (HApply k arg))) (t ++ [HApply k arg]), Some (S pcx)).
Proof.
  intros. unfold apply_internal, next_two, next_ref, ask.
  cbv beta iota delta [regs bind set_regs pc vals frames hs tr type_of_val push push_unit].
  destruct (host h (HApply k arg)) as [h' r]. cbn [fst snd]. destruct r; reflexivity.
Qed.

End HostOps.
