#!/bin/sh
# seed_regress.sh: every seeded change against the check of its own property, in the isolated snapshot (ISO_TAG)
cd /verif
for d in seeded/*/; do
  n=$(basename $d); p=${n%%_*}
  out=$(timeout 3000 python3 tools/seedtest.py --iso seeded/$n $p 2>&1 | grep -E "DETECTED|MISSED|refus|rror" | head -2 | cut -c1-140 | tr '\n' ' ')
  echo "$n $out" >> /verif/build/sweeps/seed_regress.log
done
echo done >> /verif/build/sweeps/seed_regress.log
