(* Witness for finding class C20-K2 and a regression lemma for the repaired C20-K1 (by evaluation). *)
From Coq Require Import List Arith Bool NArith Lia.
From GV Require Import Base.Result Gen.TokenTypes Gen.Defs Gen.Instr Model.Parser Model.BuilderWL Model.Compile
  Spec.WfCode Spec.Reloc Proofs.C05.Known Proofs.C05.Refuted Proofs.C20.Bounded.
Import ListNotations.

(* regression (former C20-K1): `( )` built after a program ending in
   EndExpression (the state [k1b_init] of Proofs/C05/Refuted.v: 2 instructions,
   1 jump entry).  Alone it builds to one EndExpression with entry -> instruction
   0; before commit b7aaffe the shared build emitted NOTHING and its entry named
   instruction 2, one past the end; now the shared build is the alone build,
   relocated *)
Definition k1_alone : bstate * nat := Eval vm_compute in built empty_init k1b_p.

Lemma K1_repaired20 :
  build (snd k1b_p) empty_init lit_all (build_fuel (snd k1b_p)) (fst k1b_p) = Ok k1_alone /\
  build (snd k1b_p) k1b_init lit_all (build_fuel (snd k1b_p)) (fst k1b_p) = Ok k1b_r /\
  instrs (fst k1_alone) = [(I_EndExpression, ONone)] /\ jumps (fst k1_alone) = [0] /\
  instrs (fst k1b_r) = [(I_EndExpression, ONone)] /\ jumps (fst k1b_r) = [2] /\ snd k1b_r = 1 /\
  relocated k1b_init (code_of_build k1_alone) (code_of_build k1b_r) = true /\
  own_code k1b_init (code_of_build k1b_r) = true.
Proof. vm_compute. repeat split; reflexivity. Qed.

(* the empty program after the same program: entry 0 is the FIRST program's entry *)
Definition k2_shared : bstate * nat := Eval vm_compute in built k1b_init (0, []).
Lemma K2_build : build [] k1b_init lit_all (build_fuel []) 0 = Ok k2_shared.
Proof. vm_compute. reflexivity. Qed.
Lemma K2_entry_foreign : snd k2_shared = 0 /\ jumps (fst k2_shared) = [] /\ own_code k1b_init (code_of_build k2_shared) = false.
Proof. vm_compute. repeat split; reflexivity. Qed.

Lemma K2_refuted20 :
  exists r, build [] k1b_init lit_all (build_fuel []) 0 = Ok r /\
    snd r < i_jump_len k1b_init /\ jumps (fst r) = [] /\ own_code k1b_init (code_of_build r) = false.
Proof.
  exists k2_shared. split; [exact K2_build|].
  destruct K2_entry_foreign as [He [Hj Ho]]. rewrite He. split; [cbn; lia|]. split; assumption.
Qed.
