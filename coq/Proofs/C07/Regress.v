(* C07: regression witnesses.  The models of the code BEFORE each fix: commit reach their Panic point on a
   concrete input (and the models of the fixed code do not). *)
From Coq Require Import ZArith NArith List Bool.
From GV Require Import Base.Result Model.Num Model.RuntimeIndex
  Proofs.C07.Arith Proofs.C07.Runtime Proofs.C07.Simple Proofs.C07.Basic.
Local Open Scope N_scope.

Theorem fixed_defects_refuted :
  (exists a b, range_list_len_v0 a b = Panic site_range_list_len_v0) /\
  (exists len, basic_start_list_alloc_v0 len = Panic site_start_list_mul_v0 /\ basic_start_list_alloc len = Err 4) /\
  (exists heap_len d i len es ee, block_ok heap_len d /\ run_ok d i len /\
      basic_iter_slice_v0 heap_len d i len es ee = Panic site_iter_slice /\
      no_panic (basic_iter_slice heap_len d i len es ee)) /\
  concat_iter_window_v0 3 (Int 2) (Int 0) = Panic site_concat_iter /\
  simple_concat_slice_window_v0 3 2 = Panic site_concat_window /\
  raw_shift_v0 true (Int 1) (Int 32) = Panic site_num_prim.
Proof.
  split; [exact range_list_len_v0_refuted|]. split; [exact basic_start_list_alloc_v0_refuted|].
  split; [exact extents_v0_refuted|]. split; [exact concat_iter_v0_refuted|].
  split; [exact (proj1 simple_concat_slice_window_v0_refuted) | exact (proj1 raw_shift_v0_refuted)].
Qed.
