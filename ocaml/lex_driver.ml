(* lex driver: reads the harness output lines
     <case>\t<impl result>\t<oracle>
   <case>   = "L <cp>,<cp>,..." (hex code points, "L -" = empty string)
   <impl>   = "OK <tok>;<tok>..." | "ERR <class>:<line>:<col>" | "PANIC"
              tok = <TokenTypeName>:<cp>,<cp>..:<line hex>:<col hex>
   <oracle> = "<cp>=<n><a><w>,..." classification of the non-ASCII code points | "-"
   Prints  <case>\t<model result>\t<spec verdict on the implementation's tokens>
   where the model result has the same shape as <impl> but token types are printed
   as their index in the TokenType enum ("#<n>"), error classes by number, and the
   spec verdict is "ok" | "viol:<clause numbers>" | "-" (implementation did not return tokens).
   The TokenType names of the implementation are mapped to indices by tools/props/c13.py,
   which passes them here as "#<n>" already. *)
let parse_cps (s : string) : n list =
  if s = "-" || s = "" then [] else List.map n_of_hex (split_on ',' s)

let show_cps (l : n list) : string =
  match l with [] -> "-" | _ -> String.concat "," (List.map hex_of_n l)

let show_tok (t : token) : string =
  Printf.sprintf "#%d:%s:%s:%s" (int_of_n (token_type_index t.tok_type))
    (show_cps t.tok_text) (hex_of_n t.tok_row) (hex_of_n t.tok_col)

let tt_table : token_type array = Array.of_list all_token_type

let parse_tok (s : string) : token =
  match split_on ':' s with
  | [ty; text; row; col] ->
    let idx = int_of_string (String.sub ty 1 (String.length ty - 1)) in
    { tok_text = parse_cps text; tok_type = tt_table.(idx); tok_row = n_of_hex row; tok_col = n_of_hex col }
  | _ -> failwith ("bad token " ^ s)

let class_name (c : n) : string =
  match int_of_n c with
  | 1 -> "InvalidStart" | 2 -> "Identifier" | 3 -> "Range" | 4 -> "NoToken" | 5 -> "Unterminated"
  | k -> "Class" ^ string_of_int k

let () =
  iter_lines (fun line ->
    match split_on '\t' line with
    | case :: impl :: oracle :: _ ->
      let input =
        if String.length case >= 2 && String.sub case 0 2 = "L " then
          parse_cps (String.sub case 2 (String.length case - 2))
        else failwith ("bad case " ^ case) in
      let tbl = Hashtbl.create 8 in
      if oracle <> "-" then
        List.iter (fun e ->
          match split_on '=' e with
          | [cp; flags] -> Hashtbl.replace tbl (int_of_string ("0x" ^ cp)) (flags.[0] = '1', flags.[1] = '1')
          | _ -> failwith ("bad oracle " ^ e)) (split_on ',' oracle);
      let look sel c =
        match Hashtbl.find_opt tbl (int_of_n c) with
        | Some (nu, al) -> if sel then nu else al
        | None -> failwith "classification of a non-ASCII code point missing from the oracle column" in
      let uni_numeric = look true and uni_alnum = look false in
      let model =
        match lex_run uni_numeric uni_alnum input with
        | LOk ts -> (match ts with [] -> "OK" | _ -> "OK " ^ String.concat ";" (List.map show_tok ts))
        | LErr e -> Printf.sprintf "ERR %s:%s:%s" (class_name e.e_class) (hex_of_n e.e_row) (hex_of_n e.e_col)
        | LPanic _ -> "PANIC"
        | LOutOfFuel -> "OUTOFFUEL" in
      let verdict =
        if String.length impl >= 2 && String.sub impl 0 2 = "OK" then begin
          let toks =
            if impl = "OK" then []
            else List.map parse_tok (split_on ';' (String.sub impl 3 (String.length impl - 3))) in
          match spec_verdict input toks with
          | [] -> "ok"
          | l -> "viol:" ^ String.concat "," (List.map (fun c -> string_of_int (int_of_n c)) l)
        end else "-" in
      Printf.printf "%s\t%s\t%s\n" case model verdict
    | _ -> failwith ("bad line " ^ line))
