(* Extraction of the literal model and of the spelling / denotation spec for
   the C14 correspondence check.  ExtrOcamlBasic only; no Extract Constant. *)
Require Import ExtrOcamlBasic.
From Coq Require Import ZArith NArith List.
From Flocq Require Import IEEE754.Binary IEEE754.Bits.
From GV Require Import Base.Result Model.Num Model.Literals Spec.LitDenote.
Cd "../build/ocaml".
Extraction "lit_model.ml" parse_f64 parse_simple_number parse_char_list parse_byte_list
  symbol_key chars_count str_len
  simple_store_chars basic_store_chars simple_store_bytes basic_store_bytes
  simple_parse_add_symbol simple_symbol_name basic_parse_add_symbol basic_get_symbol_string
  spell_dyadic spell_int spell_radix dec_string digits_of strip_seps radix_value valid_digits
  spell_string char_list_literal denote_citems wf_citem body_ok render_citems
  spell_bytes spell_bytes_text byte_text_literal denote_bitems wf_bitem render_bitems
  b64_of_bits bits_of_b64.
Cd "../../coq".
