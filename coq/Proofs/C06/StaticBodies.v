(* Static half of C06, inductive, second part: the bodies.  When a registered
   body is emitted its placeholder is patched with the position of its first
   instruction and the ghost depth in front of that instruction becomes the
   entry depth the body is owed; its end instructions lead to the join it was
   registered with (or end the expression at depth one); the bodies it
   registers are emitted after it, LIFO.  The ghost invariant of
   Proofs/C06/Static.v holds for the finished build. *)
From Coq Require Import List Arith Bool NArith Lia.
From GV Require Import Base.Result Gen.TokenTypes Gen.Defs Gen.Instr Gen.Exec Model.Parser Model.BuilderWL Model.Compile
  Spec.Depth Proofs.C05.InlBase Proofs.C05.Known Proofs.C05.Operands Proofs.C05.Jumps Proofs.C05.Bodies
  Proofs.C06.Known Proofs.C06.Balanced Proofs.C06.Static Proofs.C06.StaticInl.
Import ListNotations.

Ltac splits := repeat match goal with |- _ /\ _ => split end.

Section SB.
Variable init : binit.
Variable lit_ok : nat -> bool.
Notation ilo := (i_instr_len init).
Notation jlo := (i_jump_len init).
Notation IL := (il init).
Notation JL := (jl init).

(* the ghost state with another depth in front of the next instruction *)
Definition reset (g : gst) (y : dp) : gst := mkG (gd g) y (gopen g) (gjoin g).

Definition last_term (s : cst) : Prop :=
  forall io, nth_error (ci s) (length (ci s) - 1) = Some io -> fst io = I_JumpTo \/ fst io = I_EndExpression.

(* between two bodies: nothing refers to the position of the next instruction *)
Definition sealed (s : cst) : Prop := strict init s /\ last_term s /\ ilo < IL s.

Lemma dat_reset : forall g y a, a < ilo + length (gd g) -> dat init (reset g y) a = dat init g a.
Proof.
  intros g y a H. unfold dat, reset. cbn [gd gcur].
  destruct (a <? ilo) eqn:E; [reflexivity|]. apply Nat.ltb_ge in E.
  destruct (a - ilo <? length (gd g)) eqn:E2; [reflexivity|]. apply Nat.ltb_ge in E2. lia.
Qed.

Lemma dat_cur : forall g s, length (gd g) = length (ci s) -> dat init g (IL s) = Some (gcur g).
Proof.
  intros g s H. unfold dat, il.
  destruct (ilo + length (ci s) <? ilo) eqn:E; [apply Nat.ltb_lt in E; lia|].
  replace (ilo + length (ci s) - ilo) with (length (gd g)) by lia.
  rewrite Nat.ltb_irrefl, Nat.eqb_refl. reflexivity.
Qed.

Lemma tgt_reset : forall g s y0 j y,
  strict init s -> length (gd g) = length (ci s) -> tgt init g s j y -> tgt init (reset g y0) s j y.
Proof.
  intros g s y0 j y Hst Hlen [Hj [T [HT H]]]. split; [exact Hj|]. exists T. split; [exact HT|].
  assert (Hd : dat init (reset g y0) T = dat init g T).
  { apply dat_reset. specialize (Hst _ _ HT). unfold il in Hst. lia. }
  destruct H as [[A B]|[A B]].
  - left. split; [exact A|]. destruct B as [B|B]; [left; exact B | right; rewrite Hd; exact B].
  - right. split; [exact A | rewrite Hd; exact B].
Qed.

Lemma step_ok_transfer : forall g s g' s' pc io x,
  (forall j y, tgt init g s j y -> tgt init g' s' j y) ->
  (fst io = I_JumpTo \/ fst io = I_EndExpression \/ dat init g' (S pc) = dat init g (S pc)) ->
  step_ok init g s pc io x -> step_ok init g' s' pc io x.
Proof.
  intros g s g' s' pc io [r v] Ht Hn H. unfold step_ok in *. destruct Hn as [E|[E|Hn]].
  - rewrite E in *. destruct H as [j [Ho Hj]]. exists j. split; [exact Ho | apply Ht; exact Hj].
  - rewrite E in *. exact H.
  - destruct (fst io);
      first [ exact H
            | (destruct H as [e [He [Hp [Hv [Hd Hx]]]]]; exists e; rewrite Hn;
               split; [exact He | split; [exact Hp | split; [exact Hv | split; [exact Hd |]]]];
               intros j Hj; apply Ht; apply Hx; exact Hj)
            | (destruct H as [j [Ho Hj]]; exists j; split; [exact Ho | apply Ht; exact Hj])
            | (destruct H as [j [Ho [Hr [Hd Hj]]]]; exists j; rewrite Hn;
               split; [exact Ho | split; [exact Hr | split; [exact Hd | apply Ht; exact Hj]]]) ].
Qed.

(* between two bodies the depth in front of the next instruction is free *)
Lemma ginv_reset : forall g s y, ginv init g s -> strict init s -> last_term s -> ginv init (reset g y) s.
Proof.
  intros g s y [Hg Ho] Hst Hlt. split; [|exact Ho].
  destruct Hg as [Hlen [Hne [He [Hs [Hj H0]]]]].
  refine (conj Hlen (conj Hne (conj He (conj _ (conj _ _))))).
  - intros k io x Hk Hd. cbn [reset gd] in Hd.
    eapply step_ok_transfer; [intros j y1 Hy; apply tgt_reset; [exact Hst | exact Hlen | exact Hy] | | apply (Hs k io x Hk Hd)].
    assert (Hkl : k < length (ci s)) by (apply nth_error_Some; rewrite Hk; discriminate).
    destruct (Nat.eq_dec k (length (ci s) - 1)) as [Heq|Hne'].
    + subst k. destruct (Hlt io Hk) as [E|E]; [left; exact E | right; left; exact E].
    + right. right. apply dat_reset. lia.
  - intros j y1 Hin. apply tgt_reset; [exact Hst | exact Hlen | apply Hj; exact Hin].
  - apply tgt_reset; [exact Hst | exact Hlen | exact H0].
Qed.

(* patching the placeholder of the body that starts here *)
Lemma ginv_patch : forall g s j e s1,
  ginv init g s -> In (j, e) (gopen g) -> gcur g = e -> patch init s j (IL s) = Ok s1 -> ilo < IL s ->
  ginv init g s1.
Proof.
  intros g s j e s1 [Hg Ho] Hin Hc Hp Hil.
  destruct (patch_spec init _ _ _ _ Hp) as [Hge [Hlt [Hci [_ [Hlen [Hnew Hold]]]]]].
  destruct Ho as [Hob Hof]. pose proof (Hob _ _ Hin) as Hjr.
  destruct Hg as [Hgl [Hne [He [Hs [Hj H0]]]]].
  assert (HIL : IL s1 = IL s) by (unfold il; rewrite Hci; reflexivity).
  assert (Htt : forall j' y, tgt init g s j' y -> tgt init g s1 j' y).
  { intros j' y [Hj' [T [HT H]]]. destruct (Nat.eq_dec j' j) as [Heq|Hneq].
    - subst j'. split; [exact Hj'|]. exists (IL s). split; [exact Hnew|]. destruct H as [[A B]|[A B]].
      + left. split; [exact A|]. right. assert (y = e) by (eapply Hof; eauto). subst y.
        rewrite (dat_cur g s Hgl). rewrite Hc. reflexivity.
      + exfalso. apply A. exists e. exact Hin.
    - split; [exact Hj'|]. exists T. split; [rewrite Hold by lia; exact HT | exact H]. }
  split.
  - refine (conj _ (conj _ (conj _ (conj _ (conj _ _))))).
    + rewrite Hci. exact Hgl.
    + intros Hc0. apply Hne. destruct (cj s); [reflexivity | rewrite Hc0 in Hlen; discriminate].
    + intros k T Hk. rewrite HIL. destruct (Nat.eq_dec k (j - jlo)) as [Heq|Hneq].
      * subst k. rewrite Hnew in Hk. inversion Hk; subst T. split; [lia | split; [intros; lia | intros; right; lia]].
      * rewrite Hold in Hk by exact Hneq. apply (He k T Hk).
    + intros k io x Hk Hd. rewrite Hci in Hk.
      eapply step_ok_transfer; [exact Htt | right; right; reflexivity | apply (Hs k io x Hk Hd)].
    + intros j' y Hy. apply Htt. apply Hj. exact Hy.
    + apply Htt. exact H0.
  - split; [|exact Hof]. intros j' y Hy. specialize (Hob _ _ Hy). unfold jl in *. rewrite Hlen. exact Hob.
Qed.

(* the last instruction of inline code is never an EndExpression *)
Lemma last_instr_notend : forall s1 s2, noend s1 s2 -> IL s1 < IL s2 ->
  forall li, last_instr init s2 = Some li -> notend li.
Proof.
  intros s1 s2 [a [Ha Pa]] Hgrow li Hl.
  assert (Hne : a <> []).
  { intros Hc. subst a. unfold il in Hgrow. rewrite Ha, app_nil_r in Hgrow. lia. }
  destruct (exists_last Hne) as [a' [x Hx]]. subst a.
  unfold last_instr in Hl. rewrite Ha, app_assoc, rev_app_distr in Hl. cbn in Hl. inversion Hl; subst li.
  apply Forall_app in Pa. destruct Pa as [_ Px]. inversion Px; assumption.
Qed.

Lemma last_term_emit : forall s io m, fst io = I_JumpTo \/ fst io = I_EndExpression -> last_term (emit s io m).
Proof.
  intros s io m Hio io' H. cbn [emit ci] in H. rewrite app_length in H. cbn [length] in H.
  replace (length (ci s) + 1 - 1) with (length (ci s)) in H by lia.
  rewrite nth_error_app2 in H by lia. rewrite Nat.sub_diag in H. cbn in H. inversion H; subst. exact Hio.
Qed.

Lemma ci_ext_emit : forall s io m, ci_ext s (emit s io m).
Proof. intros. exists [io]. reflexivity. Qed.

(* the end instructions of a body *)
Lemma finish_static : forall g s e ends,
  ginv init g s -> gcur g = (fst e + 1, snd e) -> end_g g e ends ->
  (forall li, last_instr init s = Some li -> notend li) ->
  exists g3, ginv init g3 (finish init s ends) /\ gext g g3 /\ last_term (finish init s ends) /\
             IL s < IL (finish init s ends) /\ cj (finish init s ends) = cj s /\ ci_ext s (finish init s ends).
Proof.
  intros g s e ends Hg Hc He Hl. destruct He as [[Hd He]|[[j [Hd Hj]]|[j [Hd Hj]]]]; subst ends.
  - subst e. cbn [fst snd] in Hc. destruct (finish_default init s) as [[Hf [Hlast _]]|Hf].
    + exfalso. apply (Hl _ Hlast). reflexivity.
    + rewrite Hf. exists (gemit g (0, 0)). splits.
      * apply step_end; assumption.
      * apply gext_gemit.
      * apply last_term_emit. right. reflexivity.
      * rewrite il_emit. lia.
      * reflexivity.
      * apply ci_ext_emit.
  - rewrite finish_jump. exists (gemit g (0, 0)). splits.
    + apply step_jumpto; [exact Hg|]. rewrite Hc. destruct Hg as [[_ [_ [_ [_ [Hjn _]]]]] _]. apply Hjn. exact Hj.
    + apply gext_gemit.
    + apply last_term_emit. left. reflexivity.
    + rewrite il_emit. lia.
    + reflexivity.
    + apply ci_ext_emit.
  - rewrite finish_tis_jump.
    assert (Hg1 : ginv init (gemit g (fst e + 1, snd e)) (emit s (I_Tis, ONone) None)).
    { eapply (step_eff init g s (I_Tis, ONone) None (mkEff 1 1 0 0) (fst e + 1) (snd e)); auto; cbn; try lia.
      intros j0 Hj0. discriminate Hj0. }
    exists (gemit (gemit g (fst e + 1, snd e)) (0, 0)). splits.
    + apply step_jumpto; [exact Hg1|]. cbn [gemit gcur].
      apply tgt_after_emit; [exact (proj1 Hg)|]. destruct Hg as [[_ [_ [_ [_ [Hjn _]]]]] _]. apply Hjn. exact Hj.
    + eapply gext_trans; apply gext_gemit.
    + apply last_term_emit. left. reflexivity.
    + rewrite !il_emit. lia.
    + reflexivity.
    + eapply ci_ext_trans; apply ci_ext_emit.
Qed.

Lemma gext_reset : forall g y, gext g (reset g y).
Proof. intros. split; [exists []; cbn; rewrite app_nil_r; reflexivity | split; apply incl_refl]. Qed.

Definition body_goal (s s' : cst) (g : gst) : Prop :=
  exists g', ginv init g' s' /\ gext g g' /\ sealed s' /\ ci_ext s s'.

Lemma fold_static : forall f,
  (forall p s s' g, run_body init lit_ok f p s = Ok s' -> ginv init g s -> sealed s -> pend_g g p ->
     cont_ok init s (p_containing p) -> body_goal s s' g) ->
  forall l s0 s' g, fold_bodies init lit_ok f l (Ok s0) = Ok s' -> ginv init g s0 -> sealed s0 ->
    Forall (pend_g g) l -> Forall (fun q => cont_ok init s0 (p_containing q)) l ->
    body_goal s0 s' g.
Proof.
  intros f Hrun. induction l as [|q l IHl]; intros s0 s' g Hf Hg Hse Hpg Hcont.
  - cbn in Hf. inversion Hf; subst. exists g. splits; auto using gext_refl, ci_ext_refl; apply Hse.
  - unfold fold_bodies in Hf. cbn [fold_left bind] in Hf.
    destruct (run_body init lit_ok f q s0) as [sq|e| |] eqn:Eq.
    2:{ destruct (fold_bodies_err init lit_ok f l) as [_ [He' _]]. unfold fold_bodies in He'. rewrite He' in Hf. discriminate. }
    2:{ destruct (fold_bodies_err init lit_ok f l) as [_ [_ Hp']]. unfold fold_bodies in Hp'. rewrite Hp' in Hf. discriminate. }
    2:{ destruct (fold_bodies_err init lit_ok f l) as [Ho' _]. unfold fold_bodies in Ho'. rewrite Ho' in Hf. discriminate. }
    inversion Hpg as [|? ? Hq Hpg']; subst. inversion Hcont as [|? ? Hqc Hcont']; subst.
    destruct (Hrun q s0 sq g Eq Hg Hse Hq Hqc) as [g1 [Hg1 [Hx1 [Hse1 Hce1]]]].
    destruct (IHl sq s' g1 Hf Hg1 Hse1) as [g2 [Hg2 [Hx2 [Hse2 Hce2]]]].
    { eapply Forall_pend_ext; eauto. }
    { eapply Forall_impl; [|exact Hcont']. cbv beta. intros a Ha. eapply cont_ok_ci_ext; eauto. }
    exists g2. splits; auto; try apply Hse2; [eapply gext_trans; eauto | eapply ci_ext_trans; eauto].
Qed.

Lemma run_body_static : forall fuel p s s' g,
  run_body init lit_ok fuel p s = Ok s' -> ginv init g s -> sealed s -> pend_g g p ->
  cont_ok init s (p_containing p) -> body_goal s s' g.
Proof.
  induction fuel as [|f IH]; intros p s s' g Hrun Hg [Hst [Hlt Hil]] Hp Hcont; [discriminate|].
  cbn [run_body] in Hrun.
  apply bind_ok in Hrun. destruct Hrun as [s1 [Hpatch Hrun]].
  apply bind_ok in Hrun. destruct Hrun as [[[s2 ps] its] [Hinl Hrun]].
  destruct Hp as [[q v] [tl [Hin [Hb [Htl He]]]]].
  destruct (patch_spec init _ _ _ _ Hpatch) as [_ [_ [Hci [_ [Hlen _]]]]].
  assert (HIL1 : IL s1 = IL s) by (unfold il; rewrite Hci; reflexivity).
  (* the body starts at its entry depth *)
  pose proof (ginv_reset g s (q, v) Hg Hst Hlt) as Hg0.
  assert (Hg1 : ginv init (reset g (q, v)) s1) by (eapply ginv_patch; eauto).
  assert (Hcont1 : cont_ok init s1 (cx_containing (plain (p_containing p)))) by (cbn; eapply cont_ok_same; eauto).
  destruct (inl_static init lit_ok (p_tree p) None false tl 1 (p_jump p) (plain (p_containing p)) s1 s2 ps its
              (reset g (q, v)) q v Hb eq_refl eq_refl Hinl Hg1 eq_refl Htl Hcont1)
    as [g2 [Hg2 [Hx2 [Hc2 [Hps2 [_ [Hne2 Hgr2]]]]]]].
  specialize (Hgr2 (le_n 1)).
  pose proof (inl_pend_cont init lit_ok _ _ _ _ _ _ _ Hinl Hcont1) as Hpc2.
  pose proof (inl_ext init lit_ok _ _ _ _ _ _ _ Hinl) as E12.
  (* its end instructions *)
  assert (He2 : end_g g2 (q, v) (p_end p)).
  { eapply end_g_ext; [|exact He]. eapply gext_trans; [apply gext_reset | exact Hx2]. }
  destruct (finish_static g2 s2 (q, v) (p_end p) Hg2 Hc2 He2 (last_instr_notend s1 s2 Hne2 Hgr2))
    as [g3 [Hg3 [Hx3 [Hlt3 [Hil3 [Hcj3 Hce3]]]]]].
  set (s3 := finish init s2 (p_end p)) in *.
  assert (Hse3 : sealed s3).
  { split; [|split; [exact Hlt3 | lia]].
    intros k T Hk. rewrite Hcj3 in Hk. pose proof (ginv0_bound init g2 s2 (proj1 Hg2) k T Hk). lia. }
  destruct (fold_static f IH (rev ps) s3 s' g3 Hrun Hg3 Hse3) as [g4 [Hg4 [Hx4 [Hse4 Hce4]]]].
  - apply Forall_rev. eapply Forall_pend_ext; eauto.
  - apply Forall_rev. eapply Forall_impl; [|exact Hpc2]. cbv beta. intros a Ha. eapply cont_ok_ci_ext; eauto.
  - exists g4. splits; auto; try apply Hse4.
    + eapply gext_trans; [apply gext_reset|]. eapply gext_trans; [exact Hx2|]. eapply gext_trans; eauto.
    + eapply ci_ext_trans; [exists []; rewrite app_nil_r; exact Hci|].
      eapply ci_ext_trans; [apply ext_ci_ext; exact E12|]. eapply ci_ext_trans; eauto.
Qed.

(* ---- the whole build ---- *)
Theorem compile_static : forall t s4 entry,
  balanced t = true -> compile init lit_ok t = Ok (s4, entry) ->
  exists g4, ginv init g4 s4 /\ sealed s4 /\ entry = jlo.
Proof.
  intros t s4 entry Hbal Hc. unfold balanced in Hbal. apply is_some_n_eq in Hbal.
  unfold compile in Hc.
  apply bind_ok in Hc. destruct Hc as [[[s2 ps] its] [Hinl Hc]].
  apply bind_ok in Hc. destruct Hc as [s4' [Hfold Hc]]. inversion Hc; subst s4' entry. clear Hc.
  set (s1 := new_jump (mkC [] [] []) (il init (mkC [] [] []))) in *.
  set (g1 := mkG [] (0, 0) [] []).
  assert (HIL1 : IL s1 = ilo) by (unfold s1, il; cbn; lia).
  assert (Hd0 : dat init g1 ilo = Some (0, 0)).
  { unfold dat, g1. cbn [gd gcur length]. rewrite Nat.ltb_irrefl, Nat.sub_diag. reflexivity. }
  assert (Hg1 : ginv init g1 s1).
  { split.
    - refine (conj _ (conj _ (conj _ (conj _ (conj _ _))))).
      + reflexivity.
      + unfold s1. cbn. discriminate.
      + intros k T Hk. unfold s1 in Hk. cbn in Hk. rewrite HIL1.
        assert (Hz : il init (mkC [] [] []) = ilo) by (unfold il; cbn; lia). rewrite Hz in Hk.
        destruct k as [|k]; cbn in Hk; [inversion Hk; subst; split; [lia | split; [reflexivity | intros; lia]] | destruct k; discriminate].
      + intros k io x Hk. unfold s1 in Hk. cbn in Hk. destruct k; discriminate.
      + intros j y [].
      + split; [lia|]. exists ilo. split.
        * rewrite Nat.sub_diag. unfold s1. cbn. f_equal. unfold il. cbn. lia.
        * right. split; [intros [y []] | exact Hd0].
    - split; [intros j y [] | intros j y y' []]. }
  assert (Hcont1 : cont_ok init s1 (cx_containing (plain jlo))) by (left; reflexivity).
  destruct (inl_static init lit_ok t None false true 1 jlo (plain jlo) s1 s2 ps its g1 0 0
              Hbal eq_refl eq_refl Hinl Hg1 eq_refl (fun _ => eq_refl) Hcont1)
    as [g2 [Hg2 [Hx2 [Hc2 [Hps2 [_ [Hne2 Hgr2]]]]]]].
  specialize (Hgr2 (le_n 1)).
  pose proof (inl_pend_cont init lit_ok _ _ _ _ _ _ _ Hinl Hcont1) as Hpc2.
  assert (He2 : end_g g2 (0, 0) default_end) by (left; split; reflexivity).
  destruct (finish_static g2 s2 (0, 0) default_end Hg2 Hc2 He2 (last_instr_notend s1 s2 Hne2 Hgr2))
    as [g3 [Hg3 [Hx3 [Hlt3 [Hil3 [Hcj3 Hce3]]]]]].
  set (s3 := finish init s2 default_end) in *.
  assert (Hse3 : sealed s3).
  { split; [|split; [exact Hlt3 | lia]].
    intros k T Hk. rewrite Hcj3 in Hk. pose proof (ginv0_bound init g2 s2 (proj1 Hg2) k T Hk). lia. }
  destruct (fold_static (size t) (run_body_static (size t)) (rev ps) s3 s4 g3 Hfold Hg3 Hse3) as [g4 [Hg4 [_ [Hse4 _]]]].
  - apply Forall_rev. eapply Forall_pend_ext; eauto.
  - apply Forall_rev. eapply Forall_impl; [|exact Hpc2]. cbv beta. intros a Ha. eapply cont_ok_ci_ext; eauto.
  - exists g4. auto.
Qed.

End SB.
