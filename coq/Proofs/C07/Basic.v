(* C07: BasicGarnishData: block-relative addressing, runs in the data block,
   extents, binary search, reallocation.  Every theorem states the part of the
   store invariant (C15, DESIGN.md A.4) it needs. *)
From Coq Require Import ZArith NArith List Bool Lia.
From GV Require Import Base.Result Model.Num Model.RuntimeIndex Proofs.C07.Arith.
Import ListNotations.
Local Open Scope N_scope.

(* a block lies inside the heap and its cursor inside the block *)
Definition block_ok (heap_len : N) (b : block) : Prop :=
  b_cursor b <= b_size b /\ b_start b + b_size b <= heap_len.
(* a header at data index i followed by n cells, all below the cursor *)
Definition run_ok (d : block) (i n : N) : Prop := i + n < b_cursor d.

Theorem block_get_no_panic : forall heap_len b index, block_ok heap_len b -> no_panic (block_get heap_len b index).
Proof.
  intros h b i [Hc Hs]. unfold block_get. destruct (b_cursor b <=? i) eqn:E; [exact I|].
  apply N.leb_gt in E. rewrite vec_index_ok by lia. exact I.
Qed.

(* push_to_block is only called with room left (the caller grew the block when cursor >= size,
   and growth made progress) *)
Theorem block_push_no_panic : forall heap_len b,
  block_ok heap_len b -> b_cursor b < b_size b ->
  exists b', block_push heap_len b = Ok b' /\ block_ok heap_len b'.
Proof.
  intros h b [Hc Hs] Hroom. unfold block_push. rewrite vec_index_ok by lia. cbn [bind].
  eexists. split; [reflexivity|]. unfold block_ok. cbn. lia.
Qed.

Theorem block_prefix_slice_no_panic : forall heap_len b, block_ok heap_len b -> no_panic (block_prefix_slice heap_len b).
Proof. intros h b [Hc Hs]. unfold block_prefix_slice. rewrite vec_slice_ok by lia. exact I. Qed.

(* reallocate_heap: the new block is at least as large as the old cursor *)
Theorem realloc_copy_no_panic : forall n new_len new_start new_size old_len old,
  block_ok old_len old -> N.of_nat n <= b_cursor old ->
  b_cursor old <= new_size -> new_start + new_size <= new_len ->
  realloc_copy n new_len new_start old_len (b_start old) = Ok tt.
Proof.
  induction n as [| k IH]; intros new_len new_start new_size old_len old Hok Hn Hfit Hin; cbn [realloc_copy]; [reflexivity|].
  rewrite (IH new_len new_start new_size old_len old) by (try assumption; lia). cbn [bind].
  destruct Hok as [Hc Hs].
  rewrite vec_index_ok by lia. cbn [bind]. rewrite vec_index_ok by lia. reflexivity.
Qed.

(* ---- extents *)
Lemma extents_bounds es ee base len :
  let '(s, e) := extents_to_start_end es ee base len in s <= e /\ e <= base + 1 + len.
Proof. unfold extents_to_start_end. cbn. lia. Qed.

(* get_char_list_iter / get_byte_list_iter / get_symbol_list_iter / get_list_item_iter:
   for EVERY pair of extents (reversed, negative, fractional, NaN, huge) *)
Theorem extents_no_panic : forall heap_len d i len es ee,
  block_ok heap_len d -> run_ok d i len -> no_panic (basic_iter_slice heap_len d i len es ee).
Proof.
  intros h d i len es ee [Hc Hs] Hrun. unfold basic_iter_slice, run_ok in *.
  pose proof (extents_bounds es ee (b_start d + i) len) as Hb.
  destruct (extents_to_start_end es ee (b_start d + i) len) as [s e]. destruct Hb as [H1 H2].
  rewrite vec_slice_ok by lia. exact I.
Qed.

Theorem iter_count_no_panic : forall i len es ee, no_panic (iter_count i len es ee).
Proof.
  intros [|] len es ee; cbn [iter_count]; [exact I|].
  pose proof (extents_bounds es ee 0 len) as Hb.
  destruct (extents_to_start_end es ee 0 len) as [s e]. destruct Hb as [H1 H2].
  rewrite vec_slice_ok by lia. exact I.
Qed.

(* before 1ec95bd: extents whose start is past their end sliced with start > end *)
Lemma extents_v0_refuted : exists heap_len d i len es ee,
  block_ok heap_len d /\ run_ok d i len /\
  basic_iter_slice_v0 heap_len d i len es ee = Panic site_iter_slice /\
  no_panic (basic_iter_slice heap_len d i len es ee).
Proof.
  exists 100, {| b_start := 40; b_cursor := 20; b_size := 30 |}, 3, 5, (Int 3), (Int 1).
  repeat split; try (vm_compute; intros; discriminate); vm_compute; reflexivity.
Qed.

Theorem concat_iter_no_panic : forall items_len es ee, no_panic (concat_iter_window items_len es ee).
Proof. intros n es ee. unfold concat_iter_window. rewrite vec_slice_ok by lia. exact I. Qed.

Lemma concat_iter_v0_refuted : concat_iter_window_v0 3 (Int 2) (Int 0) = Panic site_concat_iter.
Proof. vm_compute. reflexivity. Qed.

(* ---- runs *)
Theorem data_run_slice_no_panic : forall heap_len d i n,
  block_ok heap_len d -> run_ok d i n -> no_panic (data_run_slice heap_len d i n).
Proof.
  intros h d i n [Hc Hs] Hrun. unfold data_run_slice, run_ok in *. rewrite vec_slice_ok by lia. exact I.
Qed.

(* a List(len, n) header owns 2*len cells and n <= len *)
Theorem basic_assoc_slice_no_panic : forall heap_len d i len n,
  block_ok heap_len d -> run_ok d i (2 * len) -> n <= len -> no_panic (basic_assoc_slice heap_len d i len n).
Proof.
  intros h d i len n [Hc Hs] Hrun Hn. unfold basic_assoc_slice, run_ok in *. rewrite vec_slice_ok by lia. exact I.
Qed.

Theorem basic_end_list_slice_no_panic : forall heap_len d i len,
  block_ok heap_len d -> run_ok d i (2 * len) -> no_panic (basic_end_list_slice heap_len d i len).
Proof.
  intros h d i len [Hc Hs] Hrun. unfold basic_end_list_slice, run_ok in *. rewrite vec_slice_ok by lia. exact I.
Qed.

(* a frame cell is pushed right after its JumpPoint cell *)
Theorem pop_frame_no_panic : forall frame, 1 <= frame -> no_panic (pop_frame_index frame).
Proof. intros f H. unfold pop_frame_index. rewrite usub_ok by lia. exact I. Qed.

(* conversions/bytes.rs: the block-relative range still lies inside the heap *)
Theorem bytes_conv_slice_no_panic : forall heap_len d from length,
  block_ok heap_len d -> run_ok d from length -> no_panic (bytes_conv_slice heap_len from length).
Proof.
  intros h d from len [Hc Hs] Hrun. unfold bytes_conv_slice, run_ok in *. rewrite vec_slice_ok by lia. exact I.
Qed.

Lemma bytes_copy_ok : forall n, (n <= 4)%nat -> bytes_copy n = Ok tt.
Proof.
  induction n as [| k IH]; intros H; cbn [bytes_copy]; [reflexivity|].
  rewrite IH by lia. cbn [bind]. rewrite vec_index_ok by lia. reflexivity.
Qed.

Theorem bytes_to_i32_no_panic : forall len, no_panic (bytes_to_i32_index len).
Proof.
  intros len. unfold bytes_to_i32_index. destruct (4 <? len) eqn:E; [exact I|].
  apply N.ltb_ge in E. rewrite bytes_copy_ok by lia. exact I.
Qed.

(* ---- binary search over an association table of any length, any comparison outcomes *)
Lemma bsearch_loop_inv : forall fuel len base size greater,
  1 <= size -> base + size <= len ->
  match bsearch_loop fuel len base size greater with
  | Ok b => b < len
  | Panic _ => False
  | _ => True
  end.
Proof.
  induction fuel as [| f IH]; intros len base size greater H1 H2; cbn [bsearch_loop]; [exact I|].
  destruct (size <=? 1) eqn:E; [lia|]. apply N.leb_gt in E.
  assert (Hhalf : 1 <= size / 2 /\ size / 2 < size).
  { split.
    - apply N.div_le_lower_bound; lia.
    - apply N.div_lt; lia. }
  rewrite vec_index_ok by lia. cbn [bind].
  rewrite usub_ok by lia. cbn [bind].
  apply IH; [lia|]. destruct (greater (base + size / 2)); lia.
Qed.

Lemma bsearch_loop_terminates : forall fuel len base size greater,
  (N.to_nat size <= fuel)%nat -> 1 <= size -> base + size <= len ->
  terminates (bsearch_loop fuel len base size greater).
Proof.
  induction fuel as [| f IH]; intros len base size greater Hf H1 H2; [lia|]. cbn [bsearch_loop].
  destruct (size <=? 1) eqn:E; [exact I|]. apply N.leb_gt in E.
  assert (Hhalf : 1 <= size / 2 /\ size / 2 < size).
  { split; [apply N.div_le_lower_bound; lia | apply N.div_lt; lia]. }
  rewrite vec_index_ok by lia. cbn [bind]. rewrite usub_ok by lia. cbn [bind].
  apply IH; [lia | lia |]. destruct (greater (base + size / 2)); lia.
Qed.

Theorem bsearch_no_panic : forall len greater,
  no_panic (bsearch len greater) /\ terminates (bsearch len greater).
Proof.
  intros len greater. unfold bsearch. destruct (len =? 0) eqn:E; [split; exact I|].
  apply N.eqb_neq in E.
  pose proof (bsearch_loop_inv (S (N.to_nat len)) len 0 len greater) as Hi.
  pose proof (bsearch_loop_terminates (S (N.to_nat len)) len 0 len greater) as Ht.
  destruct (bsearch_loop (S (N.to_nat len)) len 0 len greater) as [b | c | s |]; cbn [bind].
  - rewrite vec_index_ok by (apply Hi; lia). split; exact I.
  - split; exact I.
  - exfalso. apply Hi; lia.
  - exfalso. apply Ht; lia.
Qed.

(* the slices of get_symbol_string, conversions/bytes.rs, end_list and get_list_item_with_symbol together *)
Corollary block_slices_no_panic : forall heap_len d i len n,
  block_ok heap_len d ->
  no_panic (block_prefix_slice heap_len d) /\
  (run_ok d i n -> no_panic (data_run_slice heap_len d i n) /\ no_panic (bytes_conv_slice heap_len i n)) /\
  (run_ok d i (2 * len) -> no_panic (basic_end_list_slice heap_len d i len) /\
                           (n <= len -> no_panic (basic_assoc_slice heap_len d i len n))).
Proof.
  intros heap_len d i len n Hok. split; [exact (block_prefix_slice_no_panic heap_len d Hok)|]. split.
  - intros Hr. split; [exact (data_run_slice_no_panic heap_len d i n Hok Hr) | exact (bytes_conv_slice_no_panic heap_len d i n Hok Hr)].
  - intros Hr. split; [exact (basic_end_list_slice_no_panic heap_len d i len Hok Hr)
                      | intros Hn; exact (basic_assoc_slice_no_panic heap_len d i len n Hok Hr Hn)].
Qed.
