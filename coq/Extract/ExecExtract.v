(* Extraction for the exec correspondence / direct oracle (C01, C10 programs, C17):
   the AST printer, the reference evaluator, the AST compiler, the builder-model
   route and the runtime model.  ExtrOcamlBasic only; no Extract Constant. *)
Require Import ExtrOcamlBasic.
From Coq Require Import List NArith ZArith.
From Flocq Require Import IEEE754.Binary IEEE754.Bits.
From GV Require Import Base.Result Base.Host Gen.TokenTypes Gen.Instr Model.Num Model.Value Model.Machine
  Model.CompileExpr Model.CompileWL Spec.Ast Spec.Printer Spec.Eval.
Cd "../build/ocaml".
Extraction "exec_model.ml" aprint print print_text parenthesize full_paren printable wf_prog paren_ok size bodies
  eval_prog compile_prog wl_program run initial current_value
  token_type_index instruction_index all_instruction all_data_type data_type_index
  b64_of_bits bits_of_b64 N.of_nat N.to_nat Z.of_N Z.of_nat.
Cd "../../coq".
